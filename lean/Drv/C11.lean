import AkVerif.Model.Proto
import AkVerif.Model.PPrint
/-!
Driver of C11. One request per line, `<mode>` is `j` (JSON constants) or `p` (Python constants),
`<value>` is a postfix program:

  `s:<cps>` string   `i:<int>` / `x:<hex>` int   `n:<cps>` float (its `str()` text)   `T` `F` `Z` true/false/none
  `l:<k>` list of the last k values   `d:<k>` dict of the last k (key, value) pairs (key: `s:`, `i:`, T/F/Z)
  `r:<k>` the k-th container completed so far, once more (a shared object)

  pp|np|ps|pa <mode> <value>   text of the printed value (whole text, the same from a printer object made for this
                            call, `str()`, text after an iteration) -> ok <cps>
  pf|lf <mode> <value>      values with float keys: not in the model (answered `bad-op`; the harness's oracle alone
                            judges these lines)
  pc|pw <mode> <value>      the same text, obtained with colours on and stripped / through PPWrap (diagnostic)
  ln|lc|lr|l2|li|lp|lz <mode> <value>  the lines of the line iteration, whatever the order in which the caller
                            collects and renders them (the model is a pure function)  -> ok <cps>|<cps>|…
  gen <mode> <off> <value>  chunk list at an offset: `N` = marker, `t:`/`k:`/`d:`/`w:` + text = a chunk made
                            by cp.text / cp.name / cp.number / cp.keyword   -> ok t:<cps>|N|…   (diagnostic)
  rd <mode> <cps>           the reader on a text                   -> ok <value> | none (diagnostic)
-/
open Ak Ak.Proto PPrint

def popN {α} (n : Nat) (st : List α) : Option (List α × List α) :=
  if n ≤ st.length then some ((st.take n).reverse, st.drop n) else none

def keyOfJ : J → Option Key
  | .str s => some (.str s)
  | .int n => some (.int n)
  | .kw k => some (.kw k)
  | _ => none

def pairUp : List J → Option (List (Key × J))
  | [] => some []
  | k :: v :: r =>
    match keyOfJ k, pairUp r with
    | some key, some rest => some ((key, v) :: rest)
    | _, _ => none
  | _ => none

def hexDigit (ch : Char) : Option Nat :=
  if '0' ≤ ch ∧ ch ≤ '9' then some (ch.toNat - 48)
  else if 'a' ≤ ch ∧ ch ≤ 'f' then some (ch.toNat - 87) else none

/-- `x:<hex>`: an int too long for `str()` travels in hexadecimal -/
def parseHexInt (s : String) : Option Int :=
  let (neg, ds) := match s.toList with
    | '-' :: r => (true, r)
    | l => (false, l)
  if ds.isEmpty then none else
  match ds.foldlM (fun (a : Nat) ch => (hexDigit ch).map fun d => 16 * a + d) 0 with
  | some n => some (if neg then -(n : Int) else (n : Int))
  | none => none

/-- state of the value builder: the stack, and the containers completed so far (a later `r:<k>`
pushes the k-th of them again: the same object in Python, an equal value here) -/
abbrev BState := List J × List J

def stepTok (stb : BState) (tok : String) : Option BState :=
  let (st, built) := stb
  match tok.splitOn ":" with
  | ["s", cps] => (parseCps cps).map fun s => (J.str s :: st, built)
  | ["n", cps] => (parseCps cps).map fun s => (J.num s :: st, built)
  | ["i", n] => (parseInt n).map fun k => (J.int k :: st, built)
  | ["x", h] => (parseHexInt h).map fun k => (J.int k :: st, built)
  | ["T"] => some (J.kw .tt :: st, built)
  | ["F"] => some (J.kw .ff :: st, built)
  | ["Z"] => some (J.kw .nul :: st, built)
  | ["l", n] => do
    let (items, rest) ← popN (← n.toNat?) st
    some (J.list items :: rest, built ++ [J.list items])
  | ["d", n] => do
    let (items, rest) ← popN (2 * (← n.toNat?)) st
    let d := J.dict (← pairUp items)
    some (d :: rest, built ++ [d])
  | ["r", k] => do
    let v ← built[← k.toNat?]?
    some (v :: st, built)
  | _ => none

def parseValue (toks : List String) : Option J :=
  match toks.foldlM stepTok ([], []) with
  | some ([v], _) => some v
  | _ => none

def constsOf (m : String) : Option Consts :=
  if m = "j" then some jsonConsts else if m = "p" then some pyConsts else none

def showChunks (cs : List (Option Chunk)) : String :=
  "|".intercalate (cs.map fun
    | none => "N"
    | some ch => (match ch.kind with
        | .text => "t:" | .name => "k:" | .number => "d:" | .keyword => "w:") ++ showCps ch.text)

mutual
def showJ : J → List String
  | .str s => ["s:" ++ showCps s]
  | .num t => ["n:" ++ showCps t]
  | .int n => ["i:" ++ toString n]
  | .kw .tt => ["T"]
  | .kw .ff => ["F"]
  | .kw .nul => ["Z"]
  | .list xs => showJs xs ++ ["l:" ++ toString xs.length]
  | .dict kvs => showKvs kvs ++ ["d:" ++ toString kvs.length]
def showJs : List J → List String
  | [] => []
  | x :: xs => showJ x ++ showJs xs
def showKvs : List (Key × J) → List String
  | [] => []
  | (.str k, v) :: r => ("s:" ++ showCps k) :: (showJ v ++ showKvs r)
  | (.int n, v) :: r => ("i:" ++ toString n) :: (showJ v ++ showKvs r)
  | (.kw .tt, v) :: r => "T" :: (showJ v ++ showKvs r)
  | (.kw .ff, v) :: r => "F" :: (showJ v ++ showKvs r)
  | (.kw .nul, v) :: r => "Z" :: (showJ v ++ showKvs r)
end

def handle (line : String) : String :=
  match splitWs line with
  | "gen" :: m :: off :: val =>
    match constsOf m, off.toNat?, parseValue val with
    | some c, some o, some v =>
      if !intsPrintable v then "err ValueError"
      else if wfB c.strKeys v && distinctB v then "ok " ++ showChunks (gen c limits v o) else "out-of-domain"
    | _, _, _ => "bad-op"
  | ["rd", m, cps] =>
    match constsOf m, parseCps cps with
    | some c, some cs =>
      match read c cs with
      | some v => "ok " ++ " ".intercalate (showJ v)
      | none => "none"
    | _, _ => "bad-op"
  | op :: m :: val =>
    match constsOf m, parseValue val with
    | some c, some v =>
      -- the model is a pure function: every way of consuming the result sees the same text / lines
      if !intsPrintable v then "err ValueError"   -- CPython's str(int) limit (4300 digits): outside the domain
      else if !(wfB c.strKeys v && distinctB v) then "out-of-domain"     -- the hypothesis `WF` of the theorems, checked on every request
      else if op = "pp" || op = "np" || op = "ps" || op = "pa" || op = "pc" || op = "pw" then "ok " ++ showCps (text (gen c limits v 0))
      else if op = "ln" || op = "lc" || op = "lr" || op = "l2" || op = "li" || op = "lp" || op = "lz" then
        "ok " ++ "|".intercalate ((groupLines (gen c limits v 0)).map fun l => showCps (lineText l))
      else "bad-op"
    | _, _ => "bad-op"
  | _ => "bad-op"

def main : IO Unit := run handle
