import AkVerif.Model.Proto
import AkVerif.Model.GhistTags
import AkVerif.Model.GhistRefs
open Ak Ak.Proto Ghist

/-!
`rep <remote> <text> <commits> <refs>`
* remote  : code points
* text    : the search text, code points (`-` = empty)
* commits : `;`-separated `parents:tags:message:time:saved` (`parents` = comma list or `-`; `tags` = `+`-separated tag
            names as code points or `-`; `message` = commit message as code points; `time` = commit time in seconds; `saved` = `major.minor` of the
            version file in the commit or `-`), the position is the commit id; `-` = no commit
* refs    : `;`-separated `name:head` (`name` as code points), `-` = none
reply: `ok <branch> <branch> …`, branch = `name=build;build;…`, build = `N|M:bn:commit|-:c,c,…`

`repd <remote> <text> <commits> <refs> <shas> <packed> <loose>` : the same report, the refs read from a git directory
(`GitRepo.iter_refs`): the tags of `commits` and the heads of `refs` are ignored, they come from the storage
* shas    : `;`-separated hexsha of the commits (position = commit id)
* packed  : the text of `.git/packed-refs` as code points, `~` = there is no such file
* loose   : `;`-separated `name:hexsha` (`name` = full ref name as code points) — the files below `.git/refs`; `-` = none
-/

def parseBN (s : String) : Option BN :=
  match (s.splitOn ".").mapM (·.toNat?) with
  | some [a, b, c, d] => some ⟨a, b, c, d⟩
  | _ => none

def parseTagNames (s : String) : Option (List (List Char)) :=
  if s = "-" then some [] else (s.splitOn "+").mapM parseCps

def parseSaved (s : String) : Option (Option (Nat × Nat)) :=
  if s = "-" then some none
  else match (s.splitOn ".").mapM (·.toNat?) with
    | some [a, b] => some (some (a, b))
    | _ => none

def parseCommit (text : List Char) (s : String) : Option (RawCommit Unit) :=
  match s.splitOn ":" with
  | [p, t, m, ts, sv] =>
    match parseNatList p, parseTagNames t, parseCps m, ts.toNat?, parseSaved sv with
    | some ps, some tg, some msg, some time, some saved =>
      some { parents := ps, tagNames := tg, saved := saved, isMatch := occursIn text msg, pins := (), time := time }
    | _, _, _, _, _ => none
  | _ => none

def parseList {α} (f : String → Option α) (s : String) : Option (List α) :=
  if s = "-" then some [] else (s.splitOn ";").mapM f

def parseRef (s : String) : Option (List Char × Nat) :=
  match s.splitOn ":" with
  | [n, h] =>
    match parseCps n, h.toNat? with
    | some cs, some k => some (cs, k)
    | _, _ => none
  | _ => none

def showNum (n : Nat) : String := if n = unknownNum then "?" else toString n

def showBN (b : BN) : String := s!"{showNum b.major}.{showNum b.minor}.{showNum b.patch}.{showNum b.build}"

def showBuild (b : RepBuild) : String :=
  (if b.notMerged then "M" else "N") ++ ":" ++ showBN b.bn ++ ":" ++
  (match b.commit with | some c => toString c | none => "-") ++ ":" ++ showNatList b.commits

def showBranch (b : RepBranch) : String :=
  showCps b.name ++ "=" ++ ";".intercalate (b.builds.map showBuild)

def showReport (r : List RepBranch) : String := " ".intercalate (r.map showBranch)

def handleRep (rm tx : List Char) (commits refs : String) : String :=
  match parseList (parseCommit tx) commits, parseList parseRef refs with
  | some raw, some rs =>
    match toCommits raw with
    | .ok cs => showExcept showReport (report { commits := cs, remote := rm, refs := rs } Plug.none)
    | .error _ => "bad-op"      -- not reached: since `unknownNum` stands for a missing saved version `tagBN` never fails
  | _, _ => "bad-op"

def parseLoose (s : String) : Option (List Char × List Char) :=
  match s.splitOn ":" with
  | [n, h] => (parseCps n).map fun cs => (cs, h.toList)
  | _ => none

def parsePacked (s : String) : Option (Option (List Char)) :=
  if s = "~" then some none else (parseCps s).map some

def handleRepd (rm tx : List Char) (commits refs shas packed loose : String) : String :=
  match parseList (parseCommit tx) commits, parseList parseRef refs, parseList (fun s => some s.toList) shas,
        parsePacked packed, parseList parseLoose loose with
  | some raw, some rs, some sh, some pk, some lo =>
    match storedHist { packed := pk, loose := lo } sh rm raw rs with
    | .error e => "err " ++ e.name
    | .ok (raw', rs') =>
      match toCommits raw' with
      | .ok cs => showExcept showReport (report { commits := cs, remote := rm, refs := rs' } Plug.none)
      | .error _ => "bad-op"
  | _, _, _, _, _ => "bad-op"

def handle (line : String) : String :=
  match splitWs line with
  | ["repd", remote, text, commits, refs, shas, packed, loose] =>
    match parseCps remote, parseCps text with
    | some rm, some tx => handleRepd rm tx commits refs shas packed loose
    | _, _ => "bad-op"
  | ["rep", remote, text, commits, refs] =>
    match parseCps remote, parseCps text with
    | some rm, some tx => handleRep rm tx commits refs
    | _, _ => "bad-op"
  | _ => "bad-op"

def main : IO Unit := run handle
