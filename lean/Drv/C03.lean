import AkVerif.Model.LLDriver
/-! driver of C03: the shared LL handler (grammar construction, parse, diagnostics) -/
def main : IO Unit := Ak.Proto.runS LL.Drv.handle {}
