import AkVerif.Model.Proto
import AkVerif.Model.Table
import AkVerif.Model.TableFmt
open Ak Ak.Proto Table

def alignOf (s : String) : Option Align :=
  if s = "1" then some .left else if s = "2" then some .center else if s = "3" then some .right else none

def showChunks (cs : Chunks) : String :=
  " ".intercalate (toString cs.length :: cs.map fun c => showCps c.text)

/-- `PPTable(records, fmt_obj=<format object>, …)`: `via = 0` — the format of another table (printed
first when `pf = 1`), `via = 1` — `PPTableFormat.make(fmt, fields, types, titles, first record)` -/
def handleObj (pf via : String) (rest : List String) : String :=
  match Wire.splitAt rest with
  | [donor, second] =>
    match Wire.parseSpec donor, Wire.parseRest second with
    | some a, some r =>
      let donorFmt : Except Err Fmt :=
        if via = "1" then (mkTable { a with limits := none, skip := none }).map (·.fmt)
        else if pf = "1" then (mkTable a >>= render).map (·.1.fmt)
        else (mkTable a).map (·.fmt)
      match donorFmt >>= fun f => render (mkTableFromFmt f r.records r.limits r.skip r.header r.footer) with
      | .ok (_, ls) => "ok " ++ Wire.showLines ls
      | .error e => "err " ++ e.name
    | _, _ => "bad-op"
  | _ => "bad-op"

def dedup : List Nat → List Nat
  | [] => []
  | x :: xs => x :: (dedup xs).filter (· ≠ x)

def optIntTok (t : String) : Option (Option Int) :=
  if t = "n" then some none else (parseInt t).map some

/-- a schedule token: an iterator number, `L<table>:<a>:<b>` (`table.fmt.set_limits((a, b))`) or
`A<table>:<val>+<val>…` (`table.records.append(record)`) -/
def parseSchedTok (t : String) : Option (Sum Nat Ev) :=
  if t.startsWith "L" then
    match (t.drop 1).toString.splitOn ":" with
    | [ti, a, b] =>
      match ti.toNat?, optIntTok a, optIntTok b with
      | some ti, some a, some b => some (.inr (.setLimits ti a b))
      | _, _, _ => none
    | _ => none
  else if t.startsWith "A" then
    match (t.drop 1).toString.splitOn ":" with
    | [ti, vals] =>
      match ti.toNat?, (if vals = "" then some [] else (vals.splitOn "+").mapM Wire.parseVal) with
      | some ti, some r => some (.inr (.append ti r))
      | _, _ => none
    | _ => none
  else if t.startsWith "S" then        -- S<table>:<index>:<val>+<val>…  (records[index] = record)
    match (t.drop 1).toString.splitOn ":" with
    | [ti, i, vals] =>
      match ti.toNat?, i.toNat?, (if vals = "" then some [] else (vals.splitOn "+").mapM Wire.parseVal) with
      | some ti, some i, some r => some (.inr (.replace ti i r))
      | _, _, _ => none
    | _ => none
  else if t.startsWith "V" then (t.drop 1).toString.toNat?.map fun ti => .inr (.reverse ti)
  else t.toNat?.map .inl

/-- iterator entries become `start` events at their first occurrence; iterators never mentioned are
started at the end (the drain phase) -/
def toEvents (n : Nat) (sch : List (Sum Nat Ev)) : List Ev :=
  let rec go (seen : List Nat) : List (Sum Nat Ev) → List Ev
    | [] => ((List.range n).filter (fun i => !seen.contains i)).map Ev.start
    | .inl i :: rest => if i < n && !seen.contains i then Ev.start i :: go (i :: seen) rest else go seen rest
    | .inr e :: rest => e :: go seen rest
  go [] sch

def handleIlv (rest : List String) : String :=
  match (Wire.splitAt rest).reverse with
  | sched :: its :: specsRev =>
    match specsRev.reverse.mapM Wire.parseSpec, its.mapM (·.toNat?), sched.mapM parseSchedTok with
    | some args, some iters, some sch =>
      match args.mapM mkTable with
      | .error e => "err " ++ e.name
      | .ok tables =>
        match runEvents tables iters (toEvents iters.length sch) [] with
        | .error e => "err " ++ e.name
        | .ok res =>
          let byIter := (List.range iters.length).map fun i =>
            match res.find? (·.1 = i) with
            | some (_, ls) => Wire.showLines ls
            | none => "0"
          "ok " ++ " ".intercalate (toString iters.length :: byIter)
    | _, _, _ => "bad-op"
  | _ => "bad-op"

/-- Siblings from one format object: `A = PPTable(recsA, fmt_obj=F, …)` is printed, then
`B = PPTable(recsB, fmt_obj=F, limits=…, skip_columns=…)` is built and printed, then `A` is printed
again, then (when `F` is the format of a donor table) the donor: four renderings. -/
def handleObj2 (pf via : String) (rest : List String) : String :=
  match Wire.splitAt rest with
  | [donor, ra, rb] =>
    match Wire.parseSpec donor, Wire.parseRest ra, Wire.parseRest rb with
    | some a, some x, some y =>
      let donorT : Except Err Tbl :=
        if via = "1" then mkTable { a with limits := none, skip := none }
        else if pf = "1" then (mkTable a >>= render).map (·.1)
        else mkTable a
      let res : Except Err (List (List Line)) := do
        let d ← donorT
        let ta := mkTableFromFmt d.fmt x.records x.limits x.skip x.header x.footer
        let (ta', l1) ← render ta
        let tb := mkTableFromFmt d.fmt y.records y.limits y.skip y.header y.footer
        let (_, l2) ← render tb
        let (_, l3) ← render ta'
        if via = "1" then .ok [l1, l2, l3] else do
          let (_, l4) ← render d
          .ok [l1, l2, l3, l4]
      match res with
      | .ok ls => "ok " ++ " ".intercalate (toString ls.length :: ls.map Wire.showLines)
      | .error e => "err " ++ e.name
    | _, _, _ => "bad-op"
  | _ => "bad-op"

/-- `table.fmt = s` on a built (`pf = 1`: and printed) table, then print -/
def handleTset (pf : String) (rest : List String) : String :=
  match Wire.splitAt rest with
  | [spec, [f]] =>
    match Wire.parseSpec spec, parseCps f with
    | some a, some s =>
      let t0 : Except Err Tbl := if pf = "1" then (mkTable a >>= render).map (·.1) else mkTable a
      match t0 >>= (applySetter · s) >>= render with
      | .ok (_, ls) => "ok " ++ Wire.showLines ls
      | .error e => "err " ++ e.name
    | _, _ => "bad-op"
  | _ => "bad-op"

def handle (line : String) : String :=
  match splitWs line with
  | "tset" :: pf :: rest => handleTset pf rest
  | "obj" :: pf :: via :: rest => handleObj pf via rest
  | "obj2" :: pf :: via :: rest => handleObj2 pf via rest
  | "ilv" :: rest => handleIlv rest
  | "tbl" :: spec =>
    match Wire.parseSpec spec with
    | some a =>
      match mkTable a >>= render with
      | .ok (_, ls) => "ok " ++ Wire.showLines ls
      | .error e => "err " ++ e.name
    | none => "bad-op"
  | "fit" :: w :: al :: chunks =>
    match w.toNat?, alignOf al, chunks.mapM parseCps with
    | some w, some a, some cs => "ok " ++ showChunks (fitToWidth (cs.map plain) w a)
    | _, _, _ => "bad-op"
  | "resize" :: n :: chunks =>
    match n.toNat?, chunks.mapM parseCps with
    | some n, some cs => "ok " ++ showChunks (resizeChunks (cs.map plain) n)
    | _, _ => "bad-op"
  | _ => "bad-op"

def main : IO Unit := run handle
