import AkVerif.Model.Proto
import AkVerif.Model.Table
import AkVerif.Model.TableFmt
open Ak Ak.Proto Table

def alignOf (s : String) : Option Align :=
  if s = "1" then some .left else if s = "2" then some .center else if s = "3" then some .right else none

def showChunks (cs : Chunks) : String :=
  " ".intercalate (toString cs.length :: cs.map fun c => showCps c.text)

/-- `PPTable(records, fmt_obj=<format object>, …)`: `via = 0` — the format of another table (printed
first when `pf = 1`), `via = 1` — `PPTableFormat.make(fmt, fields, types, titles, first record)` -/
def handleObj (pf via : String) (rest : List String) : String :=
  match Wire.splitAt rest with
  | [donor, second] =>
    match Wire.parseSpec donor, Wire.parseRest second with
    | some a, some r =>
      let donorFmt : Except Err Fmt :=
        if via = "1" then (mkTable { a with limits := none, skip := none }).map (·.fmt)
        else if pf = "1" then (mkTable a >>= render).map (·.1.fmt)
        else (mkTable a).map (·.fmt)
      match donorFmt >>= fun f => render (mkTableFromFmt f r.records r.limits r.skip r.header r.footer) with
      | .ok (_, ls) => "ok " ++ Wire.showLines ls
      | .error e => "err " ++ e.name
    | _, _ => "bad-op"
  | _ => "bad-op"

def dedup : List Nat → List Nat
  | [] => []
  | x :: xs => x :: (dedup xs).filter (· ≠ x)

def handleIlv (rest : List String) : String :=
  match (Wire.splitAt rest).reverse with
  | sched :: its :: specsRev =>
    match specsRev.reverse.mapM Wire.parseSpec, its.mapM (·.toNat?), sched.mapM (·.toNat?) with
    | some args, some iters, some sch =>
      match args.mapM mkTable with
      | .error e => "err " ++ e.name
      | .ok tables =>
        let order := dedup ((sch.filter (· < iters.length)) ++ List.range iters.length)
        match startIters tables iters order [] with
        | .error e => "err " ++ e.name
        | .ok res =>
          let byIter := (List.range iters.length).map fun i =>
            match res.find? (·.1 = i) with
            | some (_, ls) => Wire.showLines ls
            | none => "0"
          "ok " ++ " ".intercalate (toString iters.length :: byIter)
    | _, _, _ => "bad-op"
  | _ => "bad-op"

/-- `table.fmt = s` on a built (`pf = 1`: and printed) table, then print -/
def handleTset (pf : String) (rest : List String) : String :=
  match Wire.splitAt rest with
  | [spec, [f]] =>
    match Wire.parseSpec spec, parseCps f with
    | some a, some s =>
      let t0 : Except Err Tbl := if pf = "1" then (mkTable a >>= render).map (·.1) else mkTable a
      match t0 >>= (applySetter · s) >>= render with
      | .ok (_, ls) => "ok " ++ Wire.showLines ls
      | .error e => "err " ++ e.name
    | _, _ => "bad-op"
  | _ => "bad-op"

def handle (line : String) : String :=
  match splitWs line with
  | "tset" :: pf :: rest => handleTset pf rest
  | "obj" :: pf :: via :: rest => handleObj pf via rest
  | "ilv" :: rest => handleIlv rest
  | "tbl" :: spec =>
    match Wire.parseSpec spec with
    | some a =>
      match mkTable a >>= render with
      | .ok (_, ls) => "ok " ++ Wire.showLines ls
      | .error e => "err " ++ e.name
    | none => "bad-op"
  | "fit" :: w :: al :: chunks =>
    match w.toNat?, alignOf al, chunks.mapM parseCps with
    | some w, some a, some cs => "ok " ++ showChunks (fitToWidth (cs.map plain) w a)
    | _, _, _ => "bad-op"
  | "resize" :: n :: chunks =>
    match n.toNat?, chunks.mapM parseCps with
    | some n, some cs => "ok " ++ showChunks (resizeChunks (cs.map plain) n)
    | _, _ => "bad-op"
  | _ => "bad-op"

def main : IO Unit := run handle
