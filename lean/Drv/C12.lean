import AkVerif.Model.Proto
import AkVerif.Model.Table
import AkVerif.Model.TableFmt
open Ak Ak.Proto Table

def alignOf (s : String) : Option Align :=
  if s = "1" then some .left else if s = "2" then some .center else if s = "3" then some .right else none

def showChunks (cs : Chunks) : String :=
  " ".intercalate (toString cs.length :: cs.map showCps)

def handle (line : String) : String :=
  match splitWs line with
  | "tbl" :: spec =>
    match Wire.parseSpec spec with
    | some a =>
      match mkTable a >>= render with
      | .ok (_, ls) => "ok " ++ Wire.showLines ls
      | .error e => "err " ++ e.name
    | none => "bad-op"
  | "fit" :: w :: al :: chunks =>
    match w.toNat?, alignOf al, chunks.mapM parseCps with
    | some w, some a, some cs => "ok " ++ showChunks (fitToWidth cs w a)
    | _, _, _ => "bad-op"
  | "resize" :: n :: chunks =>
    match n.toNat?, chunks.mapM parseCps with
    | some n, some cs => "ok " ++ showChunks (resizeChunks cs n)
    | _, _ => "bad-op"
  | _ => "bad-op"

def main : IO Unit := run handle
