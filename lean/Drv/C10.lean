import AkVerif.Model.Proto
import AkVerif.Model.PaletteState
import AkVerif.Gen.C10
/-!
Driver of C10 (stateful). Requests (see `harness/c10.py`):

  conf <k> <0|1> <items>          ColorsConfig(items, no_color=…) named k
  drop <k>                        del conf k; gc.collect()
  setglobal <k>                   set_global_colors_config(conf k); gc.collect()
  enum <e> / dropenum <e>         a PPEnumFieldType is created / released
  render <o> <kind> <k|g> <mode> <top> <subs> <lines>
                                  o = object number (ignored here), kind obj|rec|hcmd, mode c (coloured) n (no colour) l / m (line-wise coloured / no colour), L / M (whole text first, then the lines)
  gp <i> / gpi <syntax id>        str(global_palette.<accessor i>("x")) / str(global_palette[id]("x"))
-/
open Ak Ak.Proto Render PaletteState

def cfg : Cfg := Gen.C10.cfg

def parseSid (t : String) : SyntId := if t = "@" then [] else t.toList

def parseSpec (t : String) : Spec :=
  if t = "i" then .inherit else if t = "s" then .system else .elem t.toList

def parseMods (t : String) : Option (List (Option Bool)) :=
  t.toList.mapM fun c => if c = '-' then some none else if c = '1' then some (some true)
    else if c = '0' then some (some false) else none

def parseItem (t : String) : Option (SyntId × Descr) :=
  match t.splitOn "~" with
  | [id, par, fg, bg, mods] =>
    (parseMods mods).map fun ms =>
      (parseSid id, { parent := if par = "!" then none else some (parseSid par), fg := parseSpec fg, bg := parseSpec bg, mods := ms })
  | _ => none

def parseItems (t : String) : Option SMap :=
  if t = "-" then some [] else (t.splitOn ";").mapM parseItem

def parseTag (t : String) : Option Tag :=
  if t = "p" then some .plain else
  let nums := ((t.drop 1).toString.splitOn ".").mapM (·.toNat?)
  if t.startsWith "c" then
    match nums with
    | some [c, i] => some (.pal c i)
    | _ => none
  else if t.startsWith "e" then
    match nums with
    | some [e, v, c, i] => some (.enum e v c i)
    | _ => none
  else none

def parseChunk (t : String) : Option SChunk :=
  match t.splitOn "=" with
  | [tag, cps] =>
    match parseTag tag, (if cps = "" then some [] else parseCps cps) with
    | some tg, some cs => some ⟨tg, cs⟩
    | _, _ => none
  | _ => none

def parseLine (t : String) : Option SLine :=
  match t.splitOn ";" with
  | k :: chunks =>
    let kind := if k = "r" then some LineKind.raw else if k = "m" then some LineKind.made else none
    match kind, chunks.mapM parseChunk with
    | some kd, some cs => some ⟨kd, cs⟩
    | _, _ => none
  | [] => none

def parseLines (t : String) : Option (List SLine) :=
  if t = "-" then some [] else (t.splitOn "/").mapM parseLine

def showStrs (l : List (List Char)) : String := " ".intercalate (l.map showCps)

def observe (kind mode : String) (lines : List (List Chunk)) : String :=
  if kind = "rec" then "ok " ++ showCps (joinStr ' ' lines) ++ " " ++ showCps (strOf (wholeOf ' ' lines))
  else if kind = "hcmd" then "ok " ++ showCps (joinStr '\n' lines)
  else
    let whole := wholeOf '\n' lines
    if mode = "c" then "ok " ++ showCps (strOf whole)
    else if mode = "n" then "ok " ++ showCps (strOf whole) ++ " " ++ showCps (plainOf whole)
    else "ok " ++ showCps (strOf whole) ++ " " ++ toString lines.length ++
      (if lines.isEmpty then "" else " " ++ showStrs (lines.map strOf))

def confOf (s : State) (t : String) : Option ConfId := if t = "g" then some s.global else t.toNat?

def handle (s : State) (line : String) : State × String :=
  match splitWs line with
  | ["reset"] => (initState cfg, "ok")
  | ["conf", k, nc, items] =>
    match k.toNat?, parseItems items with
    | some k, some its =>
      match newConf cfg k (nc = "1") its s with
      | .ok s' => (s', "ok")
      | .error e => (s, "err " ++ e.name)
    | _, _ => (s, "bad-op")
  | ["drop", k] =>
    match k.toNat? with
    | some k => (collect cfg (dropConf k s), "ok")
    | none => (s, "bad-op")
  | ["setglobal", k] =>
    match k.toNat? with
    | some k =>
      match setGlobal cfg k s with
      | .ok s' => (collect cfg s', "ok")
      | .error e => (s, "err " ++ e.name)
    | none => (s, "bad-op")
  | ["enum", e] =>
    match e.toNat? with
    | some e =>
      match newEnum e s with
      | .ok s' => (s', "ok")
      | .error er => (s, "err " ++ er.name)
    | none => (s, "bad-op")
  | ["dropenum", e] =>
    match e.toNat? with
    | some e => (collect cfg (dropEnum e s), "ok")
    | none => (s, "bad-op")
  | ["render", _obj, kind, k, mode, top, subs, lines] =>
    match confOf s k, top.toNat?, parseNatList subs, parseLines lines with
    | some k, some top, some subs, some ls =>
      let nc := mode = "n" || mode = "m" || mode = "M"
      match render cfg reuseAlloc k nc ⟨top, subs, ls⟩ s with
      | .ok (s', out) => (s', observe kind mode out)
      | .error e => (s, "err " ++ e.name)
    | _, _, _, _ => (s, "bad-op")
  | ["gp", i] =>
    match i.toNat? with
    | some i =>
      match s.gp[i]? with
      | some col => (s, "ok " ++ showCps (Chunk.str ⟨col, ['x']⟩))
      | none => (s, "err AttributeError")
    | none => (s, "bad-op")
  | ["gpi", sid] =>
    match getConf s s.global with
    | .ok c => (s, "ok " ++ showCps (Chunk.str ⟨getColor cfg.dfltId c (parseSid sid), ['x']⟩))
    | .error e => (s, "err " ++ e.name)
  | _ => (s, "bad-op")

def main : IO Unit := runS handle (initState cfg)
