import AkVerif.Model.Proto
import AkVerif.Model.PaletteState
import AkVerif.Gen.C10
/-!
Driver of C10 (stateful). Requests (see `harness/c10.py`):

  conf <k> <0|1> <items>          ColorsConfig(items, no_color=…) named k
  drop <k>                        del conf k; gc.collect()
  setglobal <k>                   set_global_colors_config(conf k); gc.collect()
  enum <e> / dropenum <e>         a PPEnumFieldType is created / released
  render <o> <kind> <k|g> <mode> <top> <subs> <lines>
                                  o = object number (ignored here), kind obj|rec|hcmd, mode c (coloured) n (no colour) l / m (line-wise coloured / no colour), L / M (whole text first, then the lines)
  res <r> <o> <k|g> <c|n> <top> <subs> <lines>   r = obj.ch_text(...) (lazy: only the palette is made)
  str <r> <s|p|n>                 str(r) / r.plain_text() / len(r): the whole text is made once and memoised
  derive <r> <how>                a text handed out by the result is mutated by the caller (acknowledged)
  iter <i> <r> / next <i> <n>     it = iter(r) / the next n lines of it
  setfmt <o> <fmt>                table.fmt = fmt (layout only: acknowledged)
  gp <i> / gpi <syntax id>        str(global_palette.<accessor i>("x")) / str(global_palette[id]("x"))
-/
open Ak Ak.Proto Render PaletteState

def cfg : Cfg := Gen.C10.cfg

def parseSid (t : String) : SyntId := if t = "@" then [] else t.toList

def parseSpec (t : String) : Spec :=
  if t = "i" then .inherit else if t = "s" then .system else .elem t.toList

def parseMods (t : String) : Option (List (Option Bool)) :=
  t.toList.mapM fun c => if c = '-' then some none else if c = '1' then some (some true)
    else if c = '0' then some (some false) else none

def parseItem (t : String) : Option (SyntId × Descr) :=
  match t.splitOn "~" with
  | [id, par, fg, bg, mods] =>
    (parseMods mods).map fun ms =>
      (parseSid id, { parent := if par = "!" then none else some (parseSid par), fg := parseSpec fg, bg := parseSpec bg, mods := ms })
  | _ => none

def parseItems (t : String) : Option SMap :=
  if t = "-" then some [] else (t.splitOn ";").mapM parseItem

def parseTag (t : String) : Option Tag :=
  if t = "p" then some .plain else
  let nums := ((t.drop 1).toString.splitOn ".").mapM (·.toNat?)
  if t.startsWith "c" then
    match nums with
    | some [c, i] => some (.pal c i)
    | _ => none
  else if t.startsWith "e" then
    match nums with
    | some [e, v, c, i] => some (.enum e v c i)
    | _ => none
  else none

def parseChunk (t : String) : Option SChunk :=
  match t.splitOn "=" with
  | [tag, cps] =>
    match parseTag tag, (if cps = "" then some [] else parseCps cps) with
    | some tg, some cs => some ⟨tg, cs⟩
    | _, _ => none
  | _ => none

/-- `m1,5;chunk;chunk`: kind (`r` list of chunks / `m` CHText), the sub-palette classes requested since the
previous line, the chunks -/
def parseLine (t : String) : Option LLine :=
  match t.splitOn ";" with
  | k :: chunks =>
    let kind := if k.startsWith "r" then some LineKind.raw else if k.startsWith "m" then some LineKind.made else none
    let reqs := if k.length ≤ 1 then some [] else parseNatList (k.drop 1).toString
    match kind, reqs, chunks.mapM parseChunk with
    | some kd, some rq, some cs => some ⟨rq, ⟨kd, cs⟩⟩
    | _, _, _ => none
  | [] => none

def parseLines (t : String) : Option (List LLine) :=
  if t = "-" then some [] else (t.splitOn "/").mapM parseLine

def showStrs (l : List (List Char)) : String := " ".intercalate (l.map showCps)

def observe (kind mode : String) (lines : List (List Chunk)) : String :=
  if kind = "rec" then "ok " ++ showCps (joinStr ' ' lines) ++ " " ++ showCps (strOf (wholeOf ' ' lines))
  else if kind = "hcmd" then "ok " ++ showCps (joinStr '\n' lines)
  else
    let whole := wholeOf '\n' lines
    if mode = "c" then "ok " ++ showCps (strOf whole) ++ " " ++
      showCps (Sgr.strip Gen.C10.stripClass Gen.C10.stripFinal (strOf whole))
    else if mode = "n" then "ok " ++ showCps (strOf whole) ++ " " ++ showCps (plainOf whole)
    else "ok " ++ showCps (strOf whole) ++ " " ++ toString lines.length ++
      (if lines.isEmpty then "" else " " ++ showStrs (lines.map strOf))

def confOf (s : State) (t : String) : Option ConfId := if t = "g" then some s.global else t.toNat?

def handle (s : State) (line : String) : State × String :=
  match splitWs line with
  | ["reset"] => (initState cfg, "ok")
  | ["conf", k, nc, items] =>
    match k.toNat?, parseItems items with
    | some k, some its =>
      match newConf cfg k (nc = "1") its s with
      | .ok s' => (s', "ok")
      | .error e => (s, "err " ++ e.name)
    | _, _ => (s, "bad-op")
  | ["drop", k] =>
    match k.toNat? with
    | some k => (collect cfg (dropConf k s), "ok")
    | none => (s, "bad-op")
  | ["setglobal", k] =>
    match k.toNat? with
    | some k =>
      match setGlobal cfg k s with
      | .ok s' => (collect cfg s', "ok")
      | .error e => (s, "err " ++ e.name)
    | none => (s, "bad-op")
  | ["enum", e] =>
    match e.toNat? with
    | some e =>
      match newEnum e s with
      | .ok s' => (s', "ok")
      | .error er => (s, "err " ++ er.name)
    | none => (s, "bad-op")
  | ["dropenum", e] =>
    match e.toNat? with
    | some e => (collect cfg (dropEnum e s), "ok")
    | none => (s, "bad-op")
  | ["render", _obj, kind, k, modePk, top, subs, lines] =>
    -- modePk = mode, mode+c (palette=<the palette class>), mode+o (palette=<PaletteClass(conf)> object),
    -- mode+<d> / mode+o<d> (the class / an object of helper-made or customised palette class d: it is `top`)
    let mode := (modePk.splitOn "+").headD modePk
    let pk := ((modePk.splitOn "+").drop 1).headD "n"
    match confOf s k, top.toNat?, parseNatList subs, parseLines lines with
    | some k, some top, some subs, some ls =>
      let nc := mode = "n" || mode = "m" || mode = "M"
      let sh : Shape := ⟨top, subs, ls.map (·.line)⟩
      if pk = "s" then
        -- palette=<PaletteClass(synced=True)>: the palette object that follows the global configuration; with
        -- no_color `_mk_palette` asks for `type(palette)(no_color=True)` (per-class no-colour palette)
        match mkSynced cfg top s with
        | .error e => (s, "err " ++ e.name)
        | .ok s1 =>
          if nc then
            match render cfg reuseAlloc s1.global true sh s1 with
            | .ok (s', out) => (s', observe kind mode out)
            | .error e => (s1, "err " ++ e.name)
          else
            match syncedLines s1 top sh.lines with
            | .ok out => (s1, observe kind mode out)
            | .error e => (s1, "err " ++ e.name)
      else if pk.startsWith "o" then
        -- the program makes the palette object from configuration k; with no_color `_mk_palette` then asks for
        -- `type(palette)(no_color=True)`, i.e. under the global configuration
        match mkPalette cfg reuseAlloc top k false s with
        | .error e => (s, "err " ++ e.name)
        | .ok (s1, _) =>
          match render cfg reuseAlloc (if nc then s1.global else k) nc sh s1 with
          | .ok (s', out) => (s', observe kind mode out)
          | .error e => (s1, "err " ++ e.name)
      else
      match render cfg reuseAlloc k nc sh s with
      | .ok (s', out) => (s', observe kind mode out)
      | .error e => (s, "err " ++ e.name)
    | _, _, _, _ => (s, "bad-op")
  | ["res", r, _obj, k, mode, top, _subs, lines] =>
    match r.toNat?, confOf s k, top.toNat?, parseLines lines with
    | some r, some k, some top, some ls =>
      match mkRes cfg reuseAlloc r k (mode = "n") top ls s with
      | .ok s' => (s', "ok")
      | .error e => (s, "err " ++ e.name)
    | _, _, _, _ => (s, "bad-op")
  | ["str", r, how] =>
    match r.toNat? with
    | some r =>
      match strRes cfg reuseAlloc r s with
      | .ok (s', w) =>
        (s', if how = "n" then "ok " ++ toString (plainOf w).length
             else if how = "p" then "ok " ++ showCps (plainOf w) else "ok " ++ showCps (strOf w))
      | .error e => (s, "err " ++ e.name)
    | none => (s, "bad-op")
  | ["derive", r, _how] =>
    -- a text derived from the result (fixed_len / get_ch_text / + / slice) is extended in place by the caller:
    -- the result is materialised, nothing else happens to it
    match r.toNat? with
    | some r =>
      match strRes cfg reuseAlloc r s with
      | .ok (s', _) => (s', "ok")
      | .error e => (s, "err " ++ e.name)
    | none => (s, "bad-op")
  | ["iter", i, r] =>
    match i.toNat?, r.toNat? with
    | some i, some r =>
      match mkIter i r s with
      | .ok s' => (s', "ok")
      | .error e => (s, "err " ++ e.name)
    | _, _ => (s, "bad-op")
  | ["next", i, n] =>
    match i.toNat?, n.toNat? with
    | some i, some n =>
      match nextIter cfg reuseAlloc i n s with
      | .ok (s', outs) => (s', "ok " ++ toString outs.length ++ (if outs.isEmpty then "" else " " ++ showStrs (outs.map strOf)))
      | .error e => (s, "err " ++ e.name)
    | _, _ => (s, "bad-op")
  | ["setfmt", _obj, _fmt] => (s, "ok")
  | ["gp", i] =>
    match i.toNat? with
    | some i =>
      match s.gp[i]? with
      | some col => (s, "ok " ++ showCps (Chunk.str ⟨col, ['x']⟩))
      | none => (s, "err AttributeError")
    | none => (s, "bad-op")
  | ["gpi", sid] =>
    match getConf s s.global with
    | .ok c => (s, "ok " ++ showCps (Chunk.str ⟨getColor cfg.dfltId c (parseSid sid), ['x']⟩))
    | .error e => (s, "err " ++ e.name)
  | _ => (s, "bad-op")

def main : IO Unit := runS handle (initState cfg)
