import AkVerif.Model.Proto
import AkVerif.Model.ShortUuid
import AkVerif.Gen.C20
open Ak Ak.Proto ShortUuid

def al := Gen.C20.alphabet
def len := Gen.C20.shortLen

def handle (line : String) : String :=
  match splitWs line with
  | ["enc", n] =>
    match n.toNat? with
    | some k => match encode al len k with
      | some s => "ok " ++ showCps s
      | none => "err IndexError"
    | none => "bad-op"
  | ["dec", s] =>
    match parseCps s with
    | some cs => showExcept toString (decode al len cs)
    | none => "bad-op"
  | ["par", ns] =>   -- the same encodings requested from several threads: the model is a pure function
    match parseNatList ns with
    | some vs =>
      match vs.mapM (fun v => encode al len v) with
      | some ss => "ok " ++ ";".intercalate (ss.map showCps)
      | none => "err IndexError"
    | none => "bad-op"
  | ["fresh", ss] =>   -- first use of a fresh module from several threads: the model is a pure function
    match (ss.splitOn ";").mapM parseCps with
    | some strs => " ".intercalate (strs.map fun cs => match decode al len cs with
        | .ok n => "ok=" ++ toString n
        | .error e => "err=" ++ e.name)
    | none => "bad-op"
  | ["opt", items] =>   -- the same calls in a `python -O` child: the model has no asserts to strip
    let one (it : String) : Option String :=
      match it.splitOn "|" with
      | [s, canon] =>
        match parseCps s, (if canon = "none" then some none else canon.toNat?.map some) with
        | some cs, some c =>
          let sh (r : Except Err Nat) : String := match r with
            | .ok n => "ok=" ++ toString n
            | .error e => "err=" ++ e.name
          some (sh (decode al len cs) ++ "/" ++ sh (fromStr (fun _ => c) al len cs))
        | _, _ => none
      | _ => none
    match (items.splitOn ";").mapM one with
    | some rs => " ".intercalate rs
    | none => "bad-op"
  | ["fs", canon, s] =>   -- canon: result of uuid.UUID(str) supplied by the harness (`none` | n)
    match parseCps s, (if canon = "none" then some none else canon.toNat?.map some) with
    | some cs, some c => showExcept toString (fromStr (fun _ => c) al len cs)
    | _, _ => "bad-op"
  | _ => "bad-op"

def main : IO Unit := run handle
