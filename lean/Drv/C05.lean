import AkVerif.Model.Proto
import AkVerif.Model.Templates
import AkVerif.Model.TemplatesLL
/-!
Line-protocol driver of C05 (stateful: `g` installs a cleanuper, `cl`/`cf` use it).

Values travel in prefix form, tokens separated by one blank:
`N` | `S <cps>` | `L <n> v…` | `D <n> k v …` | `E <cps name> <0|1 leaf> v`.
Names are comma-separated code points (`-` = empty name, `~` = Python `None` where a name is optional).
-/
open Ak Ak.Proto Templates

abbrev Toks := List String

def showName (n : Name) : String := showCps n
def showNames (l : List Name) : String := "[ " ++ String.join (l.map fun n => showName n ++ " ") ++ "]"

def showOptNat : Option Nat → String
  | none => "~"
  | some n => toString n

def showProds (p : Prods) : String :=
  String.join (p.map fun (sym, rules) =>
    "( " ++ showName sym ++ " " ++ String.join (rules.map fun r => showNames r ++ " ") ++ ") ")

def showSigs (l : List (Sig × Pos)) : String :=
  String.join (l.map fun ((sym, ns), (a, b)) =>
    "< " ++ showName sym ++ " " ++ showNames ns ++ " " ++ showOptNat a ++ " " ++ showOptNat b ++ " > ")

mutual
def showVal : Val → String
  | .none => "N"
  | .str s => "S " ++ showCps s
  | .list xs => "L " ++ toString xs.length ++ showVals xs
  | .dict kvs => "D " ++ toString kvs.length ++ showKvs kvs
  | .elem n leaf v => "E " ++ showName n ++ (if leaf then " 1 " else " 0 ") ++ showVal v
def showVals : List Val → String
  | [] => ""
  | x :: xs => " " ++ showVal x ++ showVals xs
def showKvs : List (Val × Val) → String
  | [] => ""
  | (k, v) :: r => " " ++ showVal k ++ " " ++ showVal v ++ showKvs r
end

def parseName (s : String) : Option Name := parseCps s

def parseOptName (s : String) : Option (Option Name) :=
  if s = "~" then some none else (parseCps s).map some

def parseOptBool (s : String) : Option (Option Bool) :=
  if s = "n" then some none else if s = "0" then some (some false)
  else if s = "1" then some (some true) else none

def parseBool (s : String) : Option Bool :=
  if s = "0" then some false else if s = "1" then some true else none

/-- `[ a b c ]` -/
def parseNames : Nat → Toks → Option (List Name × Toks)
  | 0, _ => none
  | fuel + 1, ts =>
    match ts with
    | "[" :: r => go fuel r []
    | _ => none
where
  go : Nat → Toks → List Name → Option (List Name × Toks)
    | 0, _, _ => none
    | _ + 1, "]" :: r, acc => some (acc.reverse, r)
    | fuel + 1, t :: r, acc =>
      match parseName t with
      | some n => go fuel r (n :: acc)
      | none => none
    | _ + 1, [], _ => none

/-- `( sym [ … ] [ … ] ) ( … )` up to a token that is not `(` -/
def parseProds : Nat → Toks → Prods → Option (Prods × Toks)
  | 0, _, _ => none
  | fuel + 1, "(" :: s :: r, acc =>
    match parseName s with
    | none => none
    | some sym =>
      let rec rules : Nat → Toks → List (List Name) → Option (List (List Name) × Toks)
        | 0, _, _ => none
        | _ + 1, ")" :: r, a => some (a.reverse, r)
        | f + 1, ts, a =>
          match parseNames f ts with
          | some (ns, r) => rules f r (ns :: a)
          | none => none
      match rules fuel r [] with
      | some (rs, r') => parseProds fuel r' (acc ++ [(sym, rs)])
      | none => none
  | _ + 1, ts, acc => some (acc, ts)

mutual
def parseVal : Nat → Toks → Option (Val × Toks)
  | 0, _ => none
  | _ + 1, "N" :: r => some (.none, r)
  | _ + 1, "S" :: s :: r => (parseCps s).map fun cs => (.str cs, r)
  | fuel + 1, "L" :: n :: r =>
    match n.toNat? with
    | some k => (parseVals fuel k r).map fun (xs, r') => (.list xs, r')
    | none => none
  | fuel + 1, "D" :: n :: r =>
    match n.toNat? with
    | some k => (parseKvs fuel k r).map fun (xs, r') => (.dict xs, r')
    | none => none
  | fuel + 1, "E" :: n :: l :: r =>
    match parseName n, parseBool l, parseVal fuel r with
    | some nm, some lf, some (v, r') => some (.elem nm lf v, r')
    | _, _, _ => none
  | _ + 1, _ => none
def parseVals : Nat → Nat → Toks → Option (List Val × Toks)
  | 0, _, _ => none
  | _ + 1, 0, r => some ([], r)
  | fuel + 1, k + 1, r =>
    match parseVal fuel r with
    | some (x, r') => (parseVals fuel k r').map fun (xs, r'') => (x :: xs, r'')
    | none => none
def parseKvs : Nat → Nat → Toks → Option (List (Val × Val) × Toks)
  | 0, _, _ => none
  | _ + 1, 0, r => some ([], r)
  | fuel + 1, k + 1, r =>
    match parseVal fuel r with
    | some (a, r') =>
      match parseVal fuel r' with
      | some (b, r'') => (parseKvs fuel k r'').map fun (xs, r3) => ((a, b) :: xs, r3)
      | none => none
    | none => none
end

/-- `name` | `X [ excluded ]` … up to the end of the line -/
def parseSymArgs : Nat → Toks → List SymArg → Option (List SymArg)
  | 0, _, _ => none
  | _ + 1, [], acc => some acc.reverse
  | fuel + 1, "X" :: r, acc =>
    match parseNames fuel r with
    | some (ex, r') => parseSymArgs fuel r' (SymArg.anyExcept ex :: acc)
    | none => none
  | fuel + 1, t :: r, acc =>
    match parseName t with
    | some n => parseSymArgs fuel r (SymArg.sym n :: acc)
    | none => none

/-- `N` | `[ names ]` | `X [ excluded ]` … up to the end of the line -/
def parseProdArgs : Nat → Toks → List ProdArg → Option (List ProdArg)
  | 0, _, _ => none
  | _ + 1, [], acc => some acc.reverse
  | fuel + 1, "N" :: r, acc => parseProdArgs fuel r (ProdArg.empty :: acc)
  | fuel + 1, "X" :: r, acc =>
    match parseNames fuel r with
    | some (ex, r') => parseProdArgs fuel r' (ProdArg.anyExcept ex :: acc)
    | none => none
  | fuel + 1, ts, acc =>
    match parseNames fuel ts with
    | some (p, r') => parseProdArgs fuel r' (ProdArg.tuple p :: acc)
    | none => none

def parseListArgs : Toks → Option (ListArgs × Name × Toks)
  | o :: i :: d :: c :: afd :: opt :: res :: r =>
    match parseOptName o, parseName i, parseOptName d, parseOptName c, parseOptBool afd,
      parseOptBool opt, parseName res with
    | some o, some i, some d, some c, some afd, some opt, some res =>
      some (⟨o, i, d, c, afd, opt⟩, res, r)
    | _, _, _, _, _, _, _ => none
  | _ => none

def parseMapArgs : Toks → Option (MapArgs × Name × Toks)
  | o :: k :: a :: v :: d :: c :: opt :: afd :: res :: r =>
    match parseOptName o, parseName k, parseOptName a, parseName v, parseOptName d, parseOptName c,
      parseOptBool opt, parseOptBool afd, parseName res with
    | some o, some k, some a, some v, some d, some c, some opt, some afd, some res =>
      some (⟨o, k, a, v, d, c, opt, afd⟩, res, r)
    | _, _, _, _, _, _, _, _, _ => none
  | _ => none

def showListTpl (o : ListOpts) : String :=
  "ok P " ++ showProds o.genProds ++ "LS " ++ showSigs o.listSigs ++ "TS " ++ showSigs o.tailSigs

def showMapTpl (o : MapOpts) : String :=
  "ok P " ++ showProds o.genProds ++ "MS " ++ showSigs o.mapSigs ++ "KS " ++ showSigs o.kvTailSigs ++
    "KV " ++ showName o.kvSig.1 ++ " " ++ showNames o.kvSig.2

/-- templates of a `g` line: `L <list args> <result>` / `M <map args> <result>` … -/
def parseTemplates : Nat → Toks → List (Name × Template) → Option (Except Err (List (Name × Template)))
  | 0, _, _ => none
  | _ + 1, [], acc => some (.ok acc)
  | fuel + 1, "L" :: r, acc =>
    match parseListArgs r with
    | some (a, res, r') =>
      match mkListOpts a res with
      | .ok o => parseTemplates fuel r' (acc ++ [(res, .list o)])
      | .error e => some (.error e)
    | none => none
  | fuel + 1, "M" :: r, acc =>
    match parseMapArgs r with
    | some (a, res, r') =>
      match mkMapOpts a res with
      | .ok o => parseTemplates fuel r' (acc ++ [(res, .map o)])
      | .error e => some (.error e)
    | none => none
  | _ + 1, _, _ => none

structure St where
  cl : Option Cleanuper := none
  prods : Templates.Prods := []
  last : Option Val := none
  tp : Option TParser := none
  raw : List (Name × List Char) := []

def splitOnSemi (ts : Toks) : List Toks :=
  (ts.foldr (fun t (acc : List Toks) =>
    if t = ";" then [] :: acc else
    match acc with
    | [] => [[t]]
    | c :: r => (t :: c) :: r) [[]]).filter (fun c => !c.isEmpty)

def parseEntry (fuel : Nat) : Toks → Option (Name × GramEntry)
  | "P" :: s :: r =>
    match parseName s, parseProdArgs fuel r [] with
    | some s, some ps => some (s, .plain ps)
    | _, _ => none
  | "S" :: s :: r =>
    match parseName s, parseSymArgs fuel r [] with
    | some s, some a => some (s, .seq a)
    | _, _ => none
  | "L" :: r =>
    match parseListArgs r with
    | some (a, res, []) => some (res, .list a)
    | _ => none
  | "M" :: r =>
    match parseMapArgs r with
    | some (a, res, []) => some (res, .map a)
    | _ => none
  | _ => none

def parsePairs : Toks → Option (List (Name × List Char))
  | [] => some []
  | a :: b :: r =>
    match parseName a, parseCps b, parsePairs r with
    | some a, some b, some r => some ((a, b) :: r)
    | _, _, _ => none
  | _ => none

def llFuel : Nat := 20000000

def sortNames (l : List Name) : List Name :=
  (l.toArray.qsort (fun a b => a < b)).toList

def tplProds (ts : List (Name × Template)) : Templates.Prods :=
  ts.flatMap fun (_, t) => match t with
    | .list o => o.genProds
    | .map o => o.genProds

def handle (st : St) (line : String) : St × String :=
  let ts := splitWs line
  let fuel := ts.length + 2
  match ts with
  | "reset" :: _ => ({}, "ok")
  | "lp" :: r =>
    match parseListArgs r with
    | some (a, res, []) => (st, match mkListOpts a res with
        | .ok o => showListTpl o
        | .error e => "err " ++ e.name)
    | _ => (st, "bad-op")
  | "mp" :: r =>
    match parseMapArgs r with
    | some (a, res, []) => (st, match mkMapOpts a res with
        | .ok o => showMapTpl o
        | .error e => "err " ++ e.name)
    | _ => (st, "bad-op")
  | "sp" :: res :: "T" :: r =>
    match parseName res, parseNames fuel r with
    | some res, some (terms, r') =>
      match parseSymArgs fuel r' [] with
      | some args => (st, match seqSymbols terms args with
          | .ok syms => "ok P " ++ showProds (seqGenProds res syms)
          | .error e => "err " ++ e.name)
      | none => (st, "bad-op")
    | _, _ => (st, "bad-op")
  | "pr" :: "T" :: r =>
    match parseNames fuel r with
    | some (terms, r') =>
      match parseProdArgs fuel r' [] with
      | some args => (st, match prodRules terms args false with
          | .ok rules => "ok " ++ String.join (rules.map fun r => showNames r ++ " ")
          | .error e => "err " ++ e.name)
      | none => (st, "bad-op")
    | none => (st, "bad-op")
  | "sq" :: r =>
    match parseVal fuel r with
    | some (v, []) => (st, showExcept showVal (flattenSeq v))
    | _ => (st, "bad-op")
  | "g" :: "keep" :: r =>
    match parseNames fuel r with
    | some (keep, "start" :: s :: "suffix" :: r1) =>
      match parseName s, parseNames fuel r1 with
      | some start, some (suffix, "prods" :: r2) =>
        match parseProds fuel r2 [] with
        | some (prods, "tpl" :: r3) =>
          match parseTemplates fuel r3 [] with
          | some (.ok tpls) =>
            let cl := mkCleanuper tpls prods suffix keep start
            ({ cl := some cl, prods := tplProds tpls, last := none },
             "ok squash " ++ showNames (sortNames cl.squash) ++ " choice " ++ showNames (sortNames cl.choice))
          | some (.error e) => (st, "err " ++ e.name)
          | none => (st, "bad-op")
        | _ => (st, "bad-op")
      | _, _ => (st, "bad-op")
    | _ => (st, "bad-op")
  | "G" :: smart :: start :: "keep" :: r =>
    match parseName start, parseNames fuel r with
    | some start, some (keep, "groups" :: r1) =>
      match parseNames fuel r1 with
      | some (groups, "syn" :: r2) =>
        match parseNames fuel r2 with
        | some (synl, "T" :: r3) =>
          match parseNames fuel r3 with
          | some (torder, "E" :: r4) =>
            let rec pairUp : List Name → List (Name × Name)
              | a :: b :: r => (a, b) :: pairUp r
              | _ => []
            match (splitOnSemi r4).mapM (parseEntry fuel) with
            | some entries =>
              match constructT groups (pairUp synl) none start (smart = "1") keep torder entries with
              | .ok T => ({ st with tp := some T, raw := [] },
                  "ok squash " ++ showNames (sortNames T.cl.squash) ++ " choice " ++ showNames (sortNames T.cl.choice))
              | .error e => ({ st with tp := none }, "err " ++ e.name)
            | none => (st, "bad-op")
          | _ => (st, "bad-op")
        | _ => (st, "bad-op")
      | _ => (st, "bad-op")
    | _, _ => (st, "bad-op")
  | ["ln", t] =>
    match parseCps t with
    | some text =>
      let ls := (strLines text).zipIdx.filter (fun p => !p.1.isEmpty)
      (st, ("ok " ++ " ".intercalate (ls.map fun p => toString (p.2 + 1) ++ ":" ++ showCps p.1)).trimAsciiEnd.toString)
    | none => (st, "bad-op")
  | "tp" :: r =>
    match st.tp, parsePairs r with
    | some T, some raw => ({ st with raw := raw }, showExcept showVal (T.parseRaw raw llFuel))
    | _, _ => (st, "bad-op")
  | ["tc"] =>
    match st.tp with
    | some T => (st, showExcept showVal (T.parseClean st.raw llFuel))
    | none => (st, "bad-op")
  | "cl" :: r =>
    match st.cl, parseVal fuel r with
    | some cl, some (v, []) => ({ st with last := some v }, showExcept showVal (cleanupRoot cl v))
    | _, _ => (st, "bad-op")
  | ["cf"] =>
    match st.last with
    | some v =>
      match st.cl with
      | some cl => (st, if conforms st.prods v && wellTyped cl v then "ok 1" else "ok 0")
      | none => (st, "bad-op")
    | none => (st, "bad-op")
  | _ => (st, "bad-op")

def main : IO Unit := runS handle {}
