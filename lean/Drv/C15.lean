import AkVerif.Model.Proto
import AkVerif.Model.SqlFilter
import AkVerif.Gen.C15
/-!
Driver of C15. Every line carries the whole scenario:

  sql    <scenario>                    → ok <n> <text>  (n placeholder marks; `-` when the caller's own texts contain the mark) | err X
  params <scenario>                    → ok <value>*          | err X
  ids    <scenario> <method> <table>   → ok <id>* | ok none   | err X

scenario = <v> <pct> <from> <group> <order> <corder> <scal> <prefix> n <column>^n <call>
           (table t(id, column…); the conditions write a column as prefix ++ column)
order  = default ORDER BY of the SqlMethod;  corder = `_order_by` of the call: ~ | V value | S order
scal   = `_as_scalars` of the call: ~ | 0 | 1

value  = N | I<int> | T<cps> | X<bytes> | D<cls>:<cps>
         (D: an object the driver adapts itself - cls 0 datetime, 1 date, 2 object with __conform__, 3 object of a
         class with a registered adapter; cps: the text the driver writes for it)
arg    = S value | L n value^n | Z n value^n
cond   = T <field> <op> arg | P <field> arg | A k <field> arg | B k | O n cond^n m (<name> arg)^m | R <text>
         (k: which non-str operation / malformed object the adapter builds; no meaning in the model)
call   = n (~ | cond)^n m (<name> arg)^m
group  = ~ | <cps>
order  = ~ | k (<key> 0|1)^k                (key: a column or any other SQL expression; 1 = DESC)
table  = k <text>^k nrows value^((n+1+k)*nrows)   (first column: the record id; last k: the value SQLite
         computes on that row for each static condition text and for each ORDER BY key that is not a column —
         supplied by the harness)
method = list | one | one_or_none | tone_or_none
v      = how the adapter spells the call (tuples or lists, `all` or `list`, `_as_scalars`,
         default or per-call ORDER BY, `SqlMethodT`): no meaning in the model
-/
open Ak Ak.Proto SqlFilter

abbrev P (α : Type) := List String → Option (α × List String)

def pNat : P Nat
  | t :: ts => t.toNat?.map (·, ts)
  | [] => none

def pStr : P Str
  | t :: ts => (parseCps t).map (·, ts)
  | [] => none

def pValue : P Value
  | t :: ts =>
    match t.toList with
    | ['N'] => some (.null, ts)
    | 'I' :: r => (parseInt (String.ofList r)).map (fun i => (.int i, ts))
    | 'T' :: r => (parseCps (String.ofList r)).map (fun s => (.text s, ts))
    | 'X' :: r => (parseNatList (String.ofList r)).map (fun b => (.blob b, ts))
    | 'D' :: r =>
      match (String.ofList r).splitOn ":" with
      | [k, img] =>
        match k.toNat?, parseCps img with
        | some k, some s => some (.obj k s, ts)
        | _, _ => none
      | _ => none
    | _ => none
  | [] => none

def pMany {α} (p : P α) : Nat → P (List α)
  | 0, ts => some ([], ts)
  | n + 1, ts =>
    match p ts with
    | some (a, ts1) =>
      match pMany p n ts1 with
      | some (as, ts2) => some (a :: as, ts2)
      | none => none
    | none => none

def pCounted {α} (p : P α) : P (List α) := fun ts =>
  match pNat ts with
  | some (n, ts1) => pMany p n ts1
  | none => none

def pArg : P Arg
  | "S" :: ts => (pValue ts).map fun (v, r) => (.scalar v, r)
  | "L" :: ts => (pCounted pValue ts).map fun (vs, r) => (.list vs, r)
  | "Z" :: ts => (pCounted pValue ts).map fun (vs, r) => (.set vs, r)
  | _ => none

def pKw : P (Str × Arg) := fun ts =>
  match pStr ts with
  | some (k, ts1) => (pArg ts1).map fun (a, r) => ((k, a), r)
  | none => none

def pCond : Nat → P Cond
  | 0, _ => none
  | _ + 1, "T" :: ts =>
    match pStr ts with
    | some (f, ts1) =>
      match pStr ts1 with
      | some (op, ts2) => (pArg ts2).map fun (a, r) => (.triple f op a, r)
      | none => none
    | none => none
  | _ + 1, "P" :: ts =>
    match pStr ts with
    | some (f, ts1) => (pArg ts1).map fun (a, r) => (.pair f a, r)
    | none => none
  | _ + 1, "A" :: _ :: ts =>
    match pStr ts with
    | some (f, ts1) => (pArg ts1).map fun (a, r) => (.badOp f a, r)
    | none => none
  | _ + 1, "B" :: _ :: ts => some (.badShape, ts)
  | _ + 1, "R" :: ts => (pStr ts).map fun (t, r) => (.raw t, r)
  | fuel + 1, "O" :: ts =>
    match pCounted (pCond fuel) ts with
    | some (cs, ts1) => (pCounted pKw ts1).map fun (kw, r) => (.or cs kw, r)
    | none => none
  | _, _ => none

def pOptCond (fuel : Nat) : P (Option Cond)
  | "~" :: ts => some (none, ts)
  | ts => (pCond fuel ts).map fun (c, r) => (some c, r)

def pCall : P Call := fun ts =>
  match pCounted (pOptCond ts.length) ts with
  | some (args, ts1) => (pCounted pKw ts1).map fun (kw, r) => ({ args := args, kwargs := kw }, r)
  | none => none

def pOptStr : P (Option Str)
  | "~" :: ts => some (none, ts)
  | ts => (pStr ts).map fun (s, r) => (some s, r)

def pOrder : P (Option OrderSpec)
  | "~" :: ts => some (none, ts)
  | ts => (pCounted (fun ts =>
      match pStr ts with
      | some (k, ts1) => (pNat ts1).map fun (d, r) => ((k, d != 0), r)
      | none => none) ts).map fun (o, r) => (some o, r)

def pTable (cols : List Str) : P (List Cells) := fun ts =>
  match pNat ts with
  | some (n, ts2) => pMany (fun ts => (pMany pValue cols.length ts).map fun (vs, r) => (cols.zip vs, r)) n ts2
  | none => none

def pMethod : P Method
  | "list" :: ts => some (.list, ts)
  | "one" :: ts => some (.one, ts)
  | "one_or_none" :: ts => some (.oneOrNone, ts)
  | "tone_or_none" :: ts => some (.oneOrEmpty, ts)
  | _ => none

structure Scenario where
  pct : Bool
  st : Stmt
  order : Option OrderSpec      -- the ORDER BY in effect, as a structure
  call : Call                   -- keyword arguments: the filters, then `_order_by`, `_as_scalars` if given
  cols : List Str               -- column expressions of the table as the conditions write them (id first)

/-- `_order_by` of the call: absent | any scalar (`None` cancels the default) | a rendered spec -/
def pCallOrder : P (Option (Value ⊕ OrderSpec))
  | "~" :: ts => some (none, ts)
  | "V" :: ts => (pValue ts).map fun (v, r) => (some (.inl v), r)
  | "S" :: ts =>
    match pOrder ts with
    | some (some o, r) => some (some (.inr o), r)
    | _ => none
  | _ => none

def pScalars : P (Option Bool)
  | "~" :: ts => some (none, ts)
  | "0" :: ts => some (some false, ts)
  | "1" :: ts => some (some true, ts)
  | _ => none

def pScenario : P Scenario := fun ts0 =>
  match pNat ts0 with
  | none => none
  | some (_, ts) =>
  match pNat ts with
  | none => none
  | some (pct, ts1) =>
  match pStr ts1 with
  | none => none
  | some (frm, ts2) =>
  match pOptStr ts2 with
  | none => none
  | some (grp, ts3) =>
  match pOrder ts3 with
  | none => none
  | some (dord, ts4) =>
  match pCallOrder ts4 with
  | none => none
  | some (cord, ts5) =>
  match pScalars ts5 with
  | none => none
  | some (scal, ts5a) =>
  match pStr ts5a with
  | none => none
  | some (pfx, ts5b) =>
  match pCounted pStr ts5b with
  | none => none
  | some (names, ts6) =>
    (pCall ts6).map fun (call, r) =>
      let okw : List (Str × Arg) := match cord with
        | none => []
        | some (.inl v) => [(Gen.C15.orderKey, .scalar v)]
        | some (.inr o) => [(Gen.C15.orderKey, .scalar (.text (orderText o)))]
      let skw : List (Str × Arg) := match scal with
        | none => []
        | some b => [(Gen.C15.scalarsKey, .scalar (.int (if b then 1 else 0)))]
      let eff : Option OrderSpec := match cord with
        | none => dord
        | some (.inl _) => none
        | some (.inr o) => some o
      ({ pct := pct != 0, st := { selectFrom := frm, groupBy := grp, orderBy := dord.map orderText },
         order := eff, call := { call with kwargs := call.kwargs ++ okw ++ skw },
         cols := ("id".toList :: names).map (pfx ++ ·) }, r)

def showValue : Value → String
  | .null => "N"
  | .int i => "I" ++ toString i
  | .text s => "T" ++ showCps s
  | .blob b => "X" ++ showNatList b
  | .obj k s => "D" ++ toString k ++ ":" ++ showCps s

def showFail (f : Fail) : String := "err " ++ f.name

def showWords (ws : List String) : String := " ".intercalate ("ok" :: ws)

def rowId (r : Cells) : Option String :=
  match r with
  | (_, .int i) :: _ => some (toString i)
  | _ => none

def handle (line : String) : String :=
  match splitWs line with
  | "sql" :: ts =>
    match pScenario ts with
    | some (sc, []) =>
      match prepare sc.pct sc.st sc.call with
      | .ok p =>
        -- C15.placeholders: the number of marks in the text, when the caller's own texts carry none (`clean`)
        "ok " ++ (if clean sc.pct sc.st sc.call then toString p.params.length else "-") ++ " " ++ showCps p.text
      | .error e => showFail e
    | _ => "bad-op"
  | "params" :: ts =>
    match pScenario ts with
    | some (sc, []) =>
      match prepare sc.pct sc.st sc.call with
      | .ok p => showWords (p.params.map showValue)
      | .error e => showFail e
    | _ => "bad-op"
  | "ids" :: ts =>
    match pScenario ts with
    | some (sc, ts1) =>
      match pMethod ts1 with
      | some (m, ts2) =>
        match pCounted pStr ts2 with
        | none => "bad-op"
        | some (atoms, ts2) =>
        match pTable (sc.cols ++ atoms) ts2 with
        | some (rows, []) =>
          match run sc.pct sc.st sc.order sc.call m rows with
          | .error e => showFail e
          | .ok none => "ok none"
          | .ok (some out) =>
            match out.mapM rowId with
            | some ids => showWords ids
            | none => "bad-op"
        | _ => "bad-op"
      | none => "bad-op"
    | none => "bad-op"
  | _ => "bad-op"

def main : IO Unit := run handle
