import AkVerif.Model.Proto
import AkVerif.Model.GhistComp
import AkVerif.Model.GhistTags
open Ak Ak.Proto Ghist

/-!
`ord <id>@<deps> …`                       → `ok <sorted ids>` | `err ValueError`
`col <remote> <id>@<deps>@<commits>@<refs>@<mode> …` (repositories in the order supplied; `mode` = `t`: builds are
detected by tags, `s`: by the number saved in the version file)
an entry `<id>@!` in either request is a supplied path whose id has no repository class: the constructor skips it
* deps    : comma list of repository ids or `-`
* commits : `;`-separated `parents:tags:match:time:saved:pins` (`tags` = `+`-separated tag names as code points or `-`;
            `time` = commit time in seconds; `saved` = `major.minor` of the commit's version file or `-`; `pins` =
            `+`-separated `comp=major.minor.patch` or `-`)
* refs    : `;`-separated `name:head`
reply: `ok o=<sorted ids> r=<id> <branch> … r=<id> …`, branch = `name=build;…`,
build = `N|M:bn:commit|-:commits:bumps:included_at`, bumps = `+`-separated `comp>to<from/from…`,
included_at = `+`-separated `repo~branch~bn`
-/

def parseBN (s : String) : Option BN :=
  match (s.splitOn ".").mapM (·.toNat?) with
  | some [a, b, c, d] => some ⟨a, b, c, d⟩
  | _ => none

def parseTagNames (s : String) : Option (List (List Char)) :=
  if s = "-" then some [] else (s.splitOn "+").mapM parseCps

def parseSaved (s : String) : Option (Option (Nat × Nat)) :=
  if s = "-" then some none
  else match (s.splitOn ".").mapM (·.toNat?) with
    | some [a, b] => some (some (a, b))
    | _ => none

def parsePin (s : String) : Option (Nat × Ver) :=
  match s.splitOn "=" with
  | [c, v] =>
    match c.toNat?, (v.splitOn ".").mapM (·.toNat?) with
    | some k, some [a, b, d] => some (k, (a, b, d))
    | _, _ => none
  | _ => none

def parsePins (s : String) : Option Pins :=
  if s = "-" then some [] else (s.splitOn "+").mapM parsePin

structure PCommit where
  parents : List Nat
  tagNames : List (List Char)
  isMatch : Bool
  time : Nat
  saved : List Nat          -- numbers of the version file: none, major.minor, or major.minor.patch
  pins : Pins

def parseNums (s : String) : Option (List Nat) :=
  if s = "-" then some [] else (s.splitOn ".").mapM (·.toNat?)

def parseCommit (s : String) : Option PCommit :=
  match s.splitOn ":" with
  | [p, t, m, ts, sv, q] =>
    match parseNatList p, parseTagNames t, m.toNat?, ts.toNat?, parseNums sv, parsePins q with
    | some ps, some tg, some k, some time, some saved, some pins =>
      some { parents := ps, tagNames := tg, isMatch := k != 0, time := time, saved := saved, pins := pins }
    | _, _, _, _, _, _ => none
  | _ => none

/-- tag mode: build tags + major.minor of the version file -/
def tagCommit (c : PCommit) : Option (Commit Pins) :=
  let saved : Option (Option (Nat × Nat)) :=
    match c.saved with
    | [] => some none
    | [a, b] => some (some (a, b))
    | _ => none
  match saved with
  | none => none
  | some sv =>
    match (RawCommit.toCommit { parents := c.parents, tagNames := c.tagNames, saved := sv, isMatch := c.isMatch,
                                pins := c.pins, time := c.time }) with
    | .ok x => some x
    | .error _ => none        -- a build tag that needs the saved version of a commit that has none: refused

/-- saved-number mode: every commit carries major.minor.patch in its version file -/
def savedCommits (cs : List PCommit) : Option (List (Commit Pins)) :=
  match cs.mapM (fun c => match c.saved with | [a, b, d] => some (⟨a, b, d, d⟩ : BN) | _ => none) with
  | none => none
  | some sv =>
    some ((List.range cs.length).zip cs |>.map fun (i, c) =>
      { parents := c.parents, tags := savedTags sv c.parents i, isMatch := c.isMatch, pins := c.pins, time := c.time })

def parseList {α} (f : String → Option α) (s : String) : Option (List α) :=
  if s = "-" then some [] else (s.splitOn ";").mapM f

def parseRef (s : String) : Option (List Char × Nat) :=
  match s.splitOn ":" with
  | [n, h] =>
    match parseCps n, h.toNat? with
    | some cs, some k => some (cs, k)
    | _, _ => none
  | _ => none

def parseRepo (remote : List Char) (s : String) : Option (RepoIn × Bool) :=
  match s.splitOn "@" with
  | [i, "!"] => i.toNat?.map fun id => ({ id := id, deps := [], hist := { commits := [], remote := remote, refs := [] } }, false)
  | [i, d, cs, rs, mode] =>
    match i.toNat?, parseNatList d, parseList parseCommit cs, parseList parseRef rs with
    | some id, some deps, some pcs, some refs =>
      let commits := if mode = "s" then savedCommits pcs else if mode = "t" then pcs.mapM tagCommit else none
      commits.map fun cms => ({ id := id, deps := deps, hist := { commits := cms, remote := remote, refs := refs } }, true)
    | _, _, _, _ => none
  | _ => none

def parseDeps (s : String) : Option ((Nat × List Nat) × Bool) :=
  match s.splitOn "@" with
  | [i, "!"] => i.toNat?.map fun id => ((id, []), false)
  | [i, d] =>
    match i.toNat?, parseNatList d with
    | some id, some deps => some ((id, deps), true)
    | _, _ => none
  | _ => none

def showNum (n : Nat) : String := if n = unknownNum then "?" else toString n

def showBN (b : BN) : String := s!"{showNum b.major}.{showNum b.minor}.{showNum b.patch}.{showNum b.build}"

def dash (l : List String) (sep : String) : String := if l.isEmpty then "-" else sep.intercalate l

def showBump (cb : Nat × Bump) : String :=
  s!"{cb.1}>{showBN cb.2.toBn}<" ++ dash (cb.2.fromBns.map showBN) "/"

def showReg (r : Reg) : String := s!"{r.repo}~{showCps r.branch}~{showBN r.bn}"

def showBuild (rcs : List RC) (regs : List Reg) (repo : Nat) (b : RB Bumps) : String :=
  let rb := repBuild rcs b
  (if rb.notMerged then "M" else "N") ++ ":" ++ showBN rb.bn ++ ":" ++
  (match rb.commit with | some c => toString c | none => "-") ++ ":" ++ showNatList rb.commits ++ ":" ++
  dash (b.bumps.map showBump) "+" ++ ":" ++ dash ((includedAt regs repo b.iid).map showReg) "+"

def showBranch (rcs : List RC) (regs : List Reg) (repo : Nat) (rb : RBranch Bumps) : String :=
  showCps rb.name ++ "=" ++ ";".intercalate ((buildsList rb).map (showBuild rcs regs repo))

def showRepo (regs : List Reg) (a : Analysed) : String :=
  " ".intercalate (s!"r={a.id}" :: a.graph.branches.map (showBranch a.graph.rcs regs a.id))

def showAll (res : List Analysed × List Reg) : String :=
  " ".intercalate (("o=" ++ showNatList (res.1.map (·.id))) :: res.1.map (showRepo res.2))

def handle (line : String) : String :=
  match splitWs line with
  | "ord" :: rest =>
    match rest.mapM parseDeps with
    | some sup =>
      let ds := keptRepos sup
      showExcept showNatList (sortRepos (ds.map (·.1)) (fun i => match ds.lookup i with | some d => d | none => []))
    | none => "bad-op"
  | "col" :: remote :: rest =>
    match parseCps remote with
    | some rm =>
      match rest.mapM (parseRepo rm) with
      | some sup => showExcept showAll (analyse (keptRepos sup))
      | none => "bad-op"
    | none => "bad-op"
  | _ => "bad-op"

def main : IO Unit := run handle
