import AkVerif.Model.Proto
import AkVerif.Model.GhistComp
import AkVerif.Model.GhistTags
open Ak Ak.Proto Ghist

/-!
`ord <id>@<deps> …`                       → `ok <sorted ids>` | `err ValueError`
`col <remote> <id>@<deps>@<commits>@<refs> …` (repositories in the order supplied)
* deps    : comma list of repository ids or `-`
* commits : `;`-separated `parents:tags:match:time:saved:pins` (`tags` = `+`-separated tag names as code points or `-`;
            `time` = commit time in seconds; `saved` = `major.minor` of the commit's version file or `-`; `pins` =
            `+`-separated `comp=major.minor.patch` or `-`)
* refs    : `;`-separated `name:head`
reply: `ok o=<sorted ids> r=<id> <branch> … r=<id> …`, branch = `name=build;…`,
build = `N|M:bn:commit|-:commits:bumps:included_at`, bumps = `+`-separated `comp>to<from/from…`,
included_at = `+`-separated `repo~branch~bn`
-/

def parseBN (s : String) : Option BN :=
  match (s.splitOn ".").mapM (·.toNat?) with
  | some [a, b, c, d] => some ⟨a, b, c, d⟩
  | _ => none

def parseTagNames (s : String) : Option (List (List Char)) :=
  if s = "-" then some [] else (s.splitOn "+").mapM parseCps

def parseSaved (s : String) : Option (Option (Nat × Nat)) :=
  if s = "-" then some none
  else match (s.splitOn ".").mapM (·.toNat?) with
    | some [a, b] => some (some (a, b))
    | _ => none

def parsePin (s : String) : Option (Nat × Ver) :=
  match s.splitOn "=" with
  | [c, v] =>
    match c.toNat?, (v.splitOn ".").mapM (·.toNat?) with
    | some k, some [a, b, d] => some (k, (a, b, d))
    | _, _ => none
  | _ => none

def parsePins (s : String) : Option Pins :=
  if s = "-" then some [] else (s.splitOn "+").mapM parsePin

def parseCommit (s : String) : Option (Commit Pins) :=
  match s.splitOn ":" with
  | [p, t, m, ts, sv, q] =>
    match parseNatList p, parseTagNames t, m.toNat?, ts.toNat?, parseSaved sv, parsePins q with
    | some ps, some tg, some k, some time, some saved, some pins =>
      match (RawCommit.toCommit { parents := ps, tagNames := tg, saved := saved, isMatch := k != 0, pins := pins,
                                  time := time }) with
      | .ok c => some c
      | .error _ => none        -- a build tag that needs the saved version of a commit that has none: refused
    | _, _, _, _, _, _ => none
  | _ => none

def parseList {α} (f : String → Option α) (s : String) : Option (List α) :=
  if s = "-" then some [] else (s.splitOn ";").mapM f

def parseRef (s : String) : Option (List Char × Nat) :=
  match s.splitOn ":" with
  | [n, h] =>
    match parseCps n, h.toNat? with
    | some cs, some k => some (cs, k)
    | _, _ => none
  | _ => none

def parseRepo (remote : List Char) (s : String) : Option RepoIn :=
  match s.splitOn "@" with
  | [i, d, cs, rs] =>
    match i.toNat?, parseNatList d, parseList parseCommit cs, parseList parseRef rs with
    | some id, some deps, some commits, some refs =>
      some { id := id, deps := deps, hist := { commits := commits, remote := remote, refs := refs } }
    | _, _, _, _ => none
  | _ => none

def parseDeps (s : String) : Option (Nat × List Nat) :=
  match s.splitOn "@" with
  | [i, d] =>
    match i.toNat?, parseNatList d with
    | some id, some deps => some (id, deps)
    | _, _ => none
  | _ => none

def showBN (b : BN) : String := s!"{b.major}.{b.minor}.{b.patch}.{b.build}"

def dash (l : List String) (sep : String) : String := if l.isEmpty then "-" else sep.intercalate l

def showBump (cb : Nat × Bump) : String :=
  s!"{cb.1}>{showBN cb.2.toBn}<" ++ dash (cb.2.fromBns.map showBN) "/"

def showReg (r : Reg) : String := s!"{r.repo}~{showCps r.branch}~{showBN r.bn}"

def showBuild (rcs : List RC) (regs : List Reg) (repo : Nat) (b : RB Bumps) : String :=
  let rb := repBuild rcs b
  (if rb.notMerged then "M" else "N") ++ ":" ++ showBN rb.bn ++ ":" ++
  (match rb.commit with | some c => toString c | none => "-") ++ ":" ++ showNatList rb.commits ++ ":" ++
  dash (b.bumps.map showBump) "+" ++ ":" ++ dash ((includedAt regs repo b.iid).map showReg) "+"

def showBranch (rcs : List RC) (regs : List Reg) (repo : Nat) (rb : RBranch Bumps) : String :=
  showCps rb.name ++ "=" ++ ";".intercalate ((buildsList rb).map (showBuild rcs regs repo))

def showRepo (regs : List Reg) (a : Analysed) : String :=
  " ".intercalate (s!"r={a.id}" :: a.graph.branches.map (showBranch a.graph.rcs regs a.id))

def showAll (res : List Analysed × List Reg) : String :=
  " ".intercalate (("o=" ++ showNatList (res.1.map (·.id))) :: res.1.map (showRepo res.2))

def handle (line : String) : String :=
  match splitWs line with
  | "ord" :: rest =>
    match rest.mapM parseDeps with
    | some ds =>
      showExcept showNatList (sortRepos (ds.map (·.1)) (fun i => match ds.lookup i with | some d => d | none => []))
    | none => "bad-op"
  | "col" :: remote :: rest =>
    match parseCps remote with
    | some rm =>
      match rest.mapM (parseRepo rm) with
      | some repos => showExcept showAll (analyse repos)
      | none => "bad-op"
    | none => "bad-op"
  | _ => "bad-op"

def main : IO Unit := run handle
