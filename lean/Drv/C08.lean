import AkVerif.Model.Proto
import AkVerif.Model.CHText
import AkVerif.Model.CHTextHist
/-!
Driver of C08. One request per line:

  val <postfix program>          evaluate an operation tree, print the resulting object
  fmt <spec cps> <program>       `format(x, spec)` as screen cells
  fmtv <via> <spec cps> <program> the same reached through another entry point (`x.__format__(spec)`, an f-string
                                 `f"{x:{spec}}"` / `f"{x:<literal spec>}"`, `"{:{}}".format(x, spec)`, `"{:<literal>}".format(x)`,
                                 `format_map`): CPython hands the spec unchanged to `type(x).__format__`, so the model
                                 answers as for `fmt` (the entry point is not part of the model; the tie compares it)
  eq <program leaving two values> `a == b`
  make <c:col:cps …>              `CHText.make([chunks])`
  resize <n> <c:col:cps …>        `CHText.resize_chunks_list([chunks], n)`
  hist <stmt> ; <stmt> ; …        a history over several objects (see below)
  alias <n> <program leaving x b>  `u = x.fixed_len(n); u += b`; prints x and u
  pyslice <cps> <i|n> <j|n>      Python's own `s[i:j]`   (the specification function `pySlice`)
  pyidx <cps> <i>                Python's own `s[i]`     (`pyIndex`)

Postfix tokens: `s:<cps>`  `c:<col>:<cps>`  `ls:<n>`  `tp:<n>`  `mk:<n>`  `add`  `iadd`
`join:<l|t>:<n>` (stack: sep item1 … itemn)  `idx:<i>`  `sl:<i|n>:<j|n>`  `fl:<n>`  `iter`  `joinit` (stack: sep a)  `dupiadd` (`x += x`)  `dupiaddl` (`x += [x]`).
The program is turned into a `CHText.Expr` and handed to `CHText.eval` (the function the theorems
are about).
-/
open Ak Ak.Proto CHText

def popN (n : Nat) (st : List Expr) : Option (List Expr × List Expr) :=
  if n ≤ st.length then some ((st.take n).reverse, st.drop n) else none

def parseOptInt (s : String) : Option (Option Int) :=
  if s = "n" then some none else (parseInt s).map some

/-- one postfix token applied to the stack of expressions (top first) -/
def stepTok (st : List Expr) (tok : String) : Option (List Expr) :=
  match tok.splitOn ":" with
  | ["s", cps] => (parseCps cps).map fun s => Expr.str s :: st
  | ["c", col, cps] =>
    match col.toNat?, parseCps cps with
    | some c, some s => some (Expr.chunk c s :: st)
    | _, _ => none
  | ["ls", n] => do
    let (items, rest) ← popN (← n.toNat?) st
    some (Expr.list false items :: rest)
  | ["tp", n] => do
    let (items, rest) ← popN (← n.toNat?) st
    some (Expr.list true items :: rest)
  | ["mk", n] => do
    let (items, rest) ← popN (← n.toNat?) st
    some (Expr.mk items :: rest)
  | ["add"] => match st with
    | b :: a :: rest => some (Expr.add a b :: rest)
    | _ => none
  | ["iadd"] => match st with
    | b :: a :: rest => some (Expr.iadd a b :: rest)
    | _ => none
  | ["iter"] => match st with
    | a :: rest => some (Expr.iter a :: rest)
    | _ => none
  | ["joinit"] => match st with       -- `sep.join(a)`, the text / chunk `a` is the iterable
    | a :: sep :: rest => some (Expr.joinIt sep a :: rest)
    | _ => none
  | ["dupiadd"] => match st with      -- `x += x`: the operand is the target (a snapshot = the value)
    | a :: rest => some (Expr.iadd a a :: rest)
    | _ => none
  | ["dupiaddl"] => match st with     -- `x += [x]`
    | a :: rest => some (Expr.iadd a (Expr.list false [a]) :: rest)
    | _ => none
  | ["join", k, n] => do
    let (items, rest) ← popN (← n.toNat?) st
    match rest with
    | sep :: rest' => if k = "l" then some (Expr.join sep false items :: rest')
                      else if k = "t" then some (Expr.join sep true items :: rest') else none
    | [] => none
  | ["idx", i] => match st, parseInt i with
    | a :: rest, some k => some (Expr.idx a k :: rest)
    | _, _ => none
  | ["sl", i, j] => match st, parseOptInt i, parseOptInt j with
    | a :: rest, some x, some y => some (Expr.slice a x y :: rest)
    | _, _, _ => none
  | ["fl", n] => match st, parseInt n with
    | a :: rest, some k => some (Expr.fixedLen a k :: rest)
    | _, _ => none
  | _ => none

def parseProg (toks : List String) : Option (List Expr) :=
  toks.foldlM stepTok []

/-- run-length encoding of the reply tokens (`tok*count` for a run of 4 or more): replies with long
paddings stay short; the harness encodes the real objects the same way -/
def rle (toks : List String) : String :=
  let flush (acc : List String) (cur : Option (String × Nat)) : List String :=
    match cur with
    | none => acc
    | some (t, n) => if n ≥ 4 then (t ++ "*" ++ toString n) :: acc else List.replicate n t ++ acc
  let (acc, cur) := toks.foldl (fun (st : List String × Option (String × Nat)) x =>
    match st.2 with
    | some (t, n) => if x = t then (st.1, some (t, n + 1)) else (flush st.1 st.2, some (x, 1))
    | none => (st.1, some (x, 1))) ([], none)
  let out := (flush acc cur).reverse
  if out.isEmpty then "-" else ",".intercalate out

def showCpsR (cs : List Char) : String := rle (cs.map fun c => toString c.toNat)

def showChunk (c : Chunk) : String := toString c.col ++ ":" ++ showCpsR c.text

def showChunks (cs : List Chunk) : String :=
  if cs.isEmpty then "-" else "/".intercalate (cs.map showChunk)

/-- the `X` part of a reply is `str(x)` read back into cells by the harness; when the content itself
holds an ESC character that reading is not defined and both sides print `~` -/
def showCells (cs : Cells) : String :=
  if cs.any (fun x => x.1.toNat == 27) then "~"
  else rle (cs.map fun x => toString x.1.toNat ++ "." ++ toString x.2)

mutual
def showPart : Part → String
  | .str s => "S " ++ showCpsR s
  | .chunk c => "C " ++ showChunk c ++ " L " ++ toString c.text.length ++ " P " ++ showCpsR (c.cells.map (·.1))
      ++ " X " ++ showCells c.cells
  | .text t => "T " ++ toString t.scrlen ++ " " ++ showChunks t.chunks ++ " P " ++ showCpsR (t.cells.map (·.1))
      ++ " X " ++ showCells t.cells
  | .list tp ps => (if tp then "TP(" else "LS(") ++ showParts ps ++ ")"
def showParts : List Part → String
  | [] => ""
  | p :: ps => showPart p ++ ";" ++ showParts ps
end

def showFail {α} (f : α → String) : Except Fail α → String
  | .ok a => f a
  | .error (.py e) => "err " ++ e.name
  | .error .unmodelled => "unmodelled"

/-! histories: `hist <stmt> ; <stmt> ; …`, a statement = head token + operand tokens (postfix:
`s:<cps>` `c:<col>:<cps>` `o:<id>` `ls:<n>` `tp:<n>`); heads: `new` (all operands are the
arguments), `iadd:<id>`, `add:<id>`, `radd:<id>` (one operand), `join:<id>` (all operands are the
items), `sl:<id>:<i>:<j>`, `idx:<id>:<i>`, `fl:<id>:<n>`. Reply: the dump of all objects after
each statement (or the exception), joined by ` || `. -/

def popR (n : Nat) (st : List RPart) : Option (List RPart × List RPart) :=
  if n ≤ st.length then some ((st.take n).reverse, st.drop n) else none

def stepR (st : List RPart) (tok : String) : Option (List RPart) :=
  match tok.splitOn ":" with
  | ["s", cps] => (parseCps cps).map fun s => RPart.str s :: st
  | ["c", col, cps] =>
    match col.toNat?, parseCps cps with
    | some c, some s => some (RPart.chunk ⟨c, s⟩ :: st)
    | _, _ => none
  | ["o", id] => id.toNat?.map fun k => RPart.obj k :: st
  | ["ls", n] => do
    let (items, rest) ← popR (← n.toNat?) st
    some (RPart.list false items :: rest)
  | ["tp", n] => do
    let (items, rest) ← popR (← n.toNat?) st
    some (RPart.list true items :: rest)
  | _ => none

def parseStmt (toks : List String) : Option Stmt :=
  match toks with
  | [] => none
  | head :: ops => do
    let parts := (← ops.foldlM stepR []).reverse
    match head.splitOn ":", parts with
    | ["new"], args => some (Stmt.new args)
    | ["iadd", id], [p] => id.toNat?.map fun k => Stmt.iadd k p
    | ["add", id], [p] => id.toNat?.map fun k => Stmt.add k p
    | ["radd", id], [p] => id.toNat?.map fun k => Stmt.radd k p
    | ["join", id], items => id.toNat?.map fun k => Stmt.join k items
    | ["sl", id, i, j], [] => do some (Stmt.slice (← id.toNat?) (← parseOptInt i) (← parseOptInt j))
    | ["idx", id, i], [] => do some (Stmt.idx (← id.toNat?) (← parseInt i))
    | ["fl", id, n], [] => do some (Stmt.fixedLen (← id.toNat?) (← parseInt n))
    | _, _ => none

def splitStmts (toks : List String) : List (List String) :=
  let (cur, done) := toks.foldl (fun (acc : List String × List (List String)) t =>
    if t = ";" then ([], acc.1.reverse :: acc.2) else (t :: acc.1, acc.2)) ([], [])
  (cur.reverse :: done).reverse

def showStore (st : Store) : String :=
  if st.isEmpty then "-" else " ; ".intercalate (st.map fun t => showPart (.text t))

def parseChunks (toks : List String) : Option (List Chunk) :=
  toks.mapM fun tok =>
    match tok.splitOn ":" with
    | ["c", col, cps] =>
      match col.toNat?, parseCps cps with
      | some c, some s => some ⟨c, s⟩
      | _, _ => none
    | _ => none

def handle (line : String) : String :=
  match splitWs line with
  | "val" :: toks =>
    match parseProg toks with
    | some [e] => showFail showPart (eval e)
    | _ => "bad-op"
  | "fmt" :: spec :: toks =>
    match parseCps spec, parseProg toks with
    | some sp, some [e] => showFail (fun c => "F " ++ showCells c) (eval e >>= fun p => pyFormat p sp)
    | _, _ => "bad-op"
  | "fmtv" :: _via :: spec :: toks =>
    match parseCps spec, parseProg toks with
    | some sp, some [e] => showFail (fun c => "F " ++ showCells c) (eval e >>= fun p => pyFormat p sp)
    | _, _ => "bad-op"
  | "eq" :: toks =>
    match parseProg toks with
    | some [b, a] =>
      showFail (fun r => if r then "B 1 1 0" else "B 0 0 1")
        (eval a >>= fun x => eval b >>= fun y => pyEq x y)
    | _ => "bad-op"
  | "alias" :: n :: toks =>   -- `u = x.fixed_len(n); u += b`, then x and u: x is not changed
    match parseInt n, parseProg toks with
    | some k, some [b, a] =>
      showFail id (do
        let x ← eval a
        let u ← eval (Expr.iadd (Expr.fixedLen a k) b)
        pure (showPart x ++ " | " ++ showPart u))
    | _, _ => "bad-op"
  | "make" :: toks =>       -- `CHText.make([chunks])`
    match parseChunks toks with
    | some cs => showPart (.text (Text.make cs))
    | none => "bad-op"
  | "resize" :: n :: toks =>   -- `CHText.resize_chunks_list([chunks], n)` and `calc_chunks_len` of the result
    match parseInt n, parseChunks toks with
    | some k, some cs =>
      showExcept (fun r => "CS " ++ showChunks r ++ " L " ++ toString (calcChunksLen r)) (resizeChunks cs k)
    | _, _ => "bad-op"
  | "hist" :: toks =>
    match (splitStmts toks).mapM parseStmt with
    | some stmts => " || ".intercalate ((CHText.run [] stmts).map (showFail showStore))
    | none => "bad-op"
  | ["pyslice", s, i, j] =>
    match parseCps s, parseOptInt i, parseOptInt j with
    | some cs, some x, some y => "S " ++ showCpsR (pySlice cs x y)
    | _, _, _ => "bad-op"
  | ["pyidx", s, i] =>
    match parseCps s, parseInt i with
    | some cs, some k => showExcept (fun c => showCps [c]) (pyIndex cs k)
    | _, _ => "bad-op"
  | _ => "bad-op"

def main : IO Unit := run handle
