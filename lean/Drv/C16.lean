import AkVerif.Model.Proto
import AkVerif.Model.Interleave
import AkVerif.Gen.C16
open Ak Ak.Proto Interleave

def g : Cfg := Gen.C16.cfg

def parseHdrs (s : String) : Option Headers :=
  if s = "_" then some [] else
  (s.splitOn ";").mapM fun kv =>
    match kv.splitOn "=" with
    | [k, v] => match parseCps k, parseCps v with
      | some k', some v' => some (k', v')
      | _, _ => none
    | _ => none

def showSent (hs : Headers) : String :=
  match sentId g.name hs with
  | some v => showCps v
  | none => "none"

def showHdrs (hs : Headers) : String :=
  if hs.isEmpty then "_" else ";".intercalate (hs.map fun kv => showCps kv.1 ++ "=" ++ showCps kv.2)

/-- `#k` = the caller's dict number `k`, anything else = a dict built for this call -/
def parseSrc (s : String) : Option HdrSrc :=
  if s.startsWith "#" then (s.drop 1).toNat?.map HdrSrc.ref else (parseHdrs s).map HdrSrc.lit

/-- `c@headers` or `c@headers!kind` (the opener fails after it got the request: the model of the
request is the same, the id was assigned before) -/
def parseReq (w : World) (s0 : String) : Option ParReq :=
  let s := match s0.splitOn "!" with | a :: _ => a | [] => s0
  match s.splitOn "@" with
  | [c, h] => match c.toNat?, (parseSrc h).bind (·.read w) with
    | some c', some h' => some (c', h')
    | _, _ => none
  | _ => none

def parseThreads (w : World) (s : String) : Option (List (List ParReq)) :=
  (s.splitOn "|").mapM fun t => if t = "." then some [] else (t.splitOn "+").mapM (parseReq w)

/-- `none` | `auth:<value>` | `set:<value>` | `polite:<value>` -/
def parseAdapter (s : String) : Option (Option Adapter) :=
  if s = "none" then some none else
  match s.splitOn ":" with
  | ["auth", v] => (parseCps v).map fun x => some (.auth x)
  | ["set", v] => (parseCps v).map fun x => some (.setId x)
  | ["polite", v] => (parseCps v).map fun x => some (.politeId x)
  | _ => none

def className (kind : String) : List Char :=
  if kind = "bauth" then "BAuthConn".toList
  else if kind = "token" then "TokenAuthConn".toList
  else if kind = "client" then "ClientAuthConn".toList
  else "HttpConn".toList

def parseSched (s : String) : Option (List (Nat × Nat)) :=
  if s = "-" then some [] else
  (s.splitOn ",").mapM fun r =>
    match r.splitOn "*" with
    | [t, n] => match t.toNat?, n.toNat? with
      | some t', some n' => some (t', n')
      | _, _ => none
    | _ => none

def showSched (l : List (Nat × Nat)) : String :=
  if l.isEmpty then "-" else ",".intercalate (l.map fun tn => toString tn.1 ++ "*" ++ toString tn.2)

/-- `n` requests one after the other; first and last id sent -/
def burst (w : World) (c : Nat) : Nat → Option (List Char) → Option (List Char) →
    Except Err (World × Option (List Char) × Option (List Char))
  | 0, f, l => .ok (w, f, l)
  | n + 1, f, _ =>
    match w.request g c (.lit []) false with
    | .error e => .error e
    | .ok (w', hs) =>
      let v := sentId g.name hs
      burst w' c n (match f with | none => v | some x => some x) v

/-! bounded search for a schedule on which the *model* hands out a number twice (used by the
harness only to propose schedules that are then replayed on the real code) -/

def localInstr (p : List Instr) (pc : Nat) : Bool :=
  match p[pc]? with
  | some .nop => true
  | _ => false

/-- thread `t` runs its local instructions and then one more instruction; number of steps taken -/
def macroStep (p : List Instr) (s : St) (t : Nat) : Nat → Nat → St × Nat
  | 0, n => (s, n)
  | fuel + 1, n =>
    if idle p s t then (s, n)
    else if localInstr p (s.th t).pc then macroStep p (stepTh p s t) t fuel (n + 1)
    else (stepTh p s t, n + 1)

def allHanded (s : St) (k : Nat) : List Nat := (List.range k).flatMap fun t => (s.th t).handed

def hasDup : List Nat → Bool
  | [] => false
  | a :: l => l.contains a || hasDup l

/-- depth-first over the macro steps; `budget` = nodes still allowed; result: remaining budget and
a schedule (reversed) that ends with a repeated number -/
def dfs (p : List Instr) (k : Nat) : Nat → St → List (Nat × Nat) → Nat → Nat × Option (List (Nat × Nat))
  | 0, _, _, budget => (budget, none)
  | depth + 1, s, acc, budget =>
    if budget = 0 then (0, none) else
    let enabled := (List.range k).filter fun t => !(idle p s t)
    if enabled.isEmpty then
      (budget - 1, if hasDup (allHanded s k) then some acc else none)
    else
      enabled.foldl (fun (st : Nat × Option (List (Nat × Nat))) t =>
        match st with
        | (b, some r) => (b, some r)
        | (b, none) =>
          let (s', n) := macroStep p s t (p.length + 1) 0
          dfs p k depth s' ((t, n) :: acc) b) (budget - 1, none)

def doReq (w : World) (c h method : String) : World × String :=
  match c.toNat?, parseSrc h with
  | some c', some src =>
    match w.request g c' src (method == "post" || method == "put" || method == "patch") with
    | .ok (w', hs') =>
      (w', "sent " ++ showSent hs' ++
        (match src with
         | .ref k => match w'.dicts[k]? with
           | some d => " dict=" ++ showHdrs d
           | none => " dict=?"
         | .lit _ => ""))
    | .error e => (w, "err " ++ e.name)
  | _, _ => (w, "bad-op")

/-- `par` and `parraw` (the real side runs raw `_thread` workers; the model is the same) -/
def doPar (w : World) (c ths sch : String) : World × String :=
  match c.toNat?, parseThreads w ths, parseSched sch with
  | some c', some threads, some sched =>
    match w.conns[c']? with
    | none => (w, "err " ++ Err.indexError.name)
    | some cn => match w.par g cn.impl threads sched with
      | .ok (w', out) =>
        (w', "ok " ++ "|".intercalate (out.map fun t =>
          if t.isEmpty then "." else "+".intercalate (t.map showSent)))
      | .error e => (w, "err " ++ e.name)
  | _, _, _ => (w, "bad-op")

def handle (w : World) (line : String) : World × String :=
  match splitWs line with
  | ["reset"] => (World.empty, "ok")
  | "new" :: cp :: ids :: _form =>
    match parseCps cp with
    | some cp' => let (w', k) := w.newImpl cp' (ids == "1"); (w', "ok " ++ toString k)
    | none => (w, "bad-op")
  | ["wrap", c, kind, ad] =>
    match c.toNat?, parseAdapter ad with
    | some c', some a => match w.wrap g c' (className kind) a with
      | .ok (w', k) => (w', "ok " ++ toString k)
      | .error e => (w, "err " ++ e.name)
    | _, _ => (w, "bad-op")
  | ["addad", c, _kind, ad] =>     -- conn.add_adapter(<adapter>) on an existing connection
    match c.toNat?, parseAdapter ad with
    | some c', some a => match w.addAdapter c' a with
      | .ok w' => (w', "ok")
      | .error e => (w, "err " ++ e.name)
    | _, _ => (w, "bad-op")
  | ["log", _level] => (w, "ok")     -- the logging level is no input of anything that is sent
  | ["dict", h] =>
    match parseHdrs h with
    | some hs => let (w', k) := w.newDict hs; (w', "ok " ++ toString k)
    | none => (w, "bad-op")
  | ["req", c, h] => doReq w c h "get"
  | ["req", c, h, method] => doReq w c h method
  | ["req", c, h, method, fail] =>
    -- the opener raises after it was handed the request, or the answer cannot be processed: nothing of what
    -- the request did is undone (`World.requestOutcome`)
    match c.toNat?, parseSrc h with
    | some c', some src =>
      let o : Outcome := if fail = "raw" then .answered
        else if fail = "badjson" || fail = "badutf" || fail = "respad" then .processingRaised else .openerRaised
      match w.requestOutcome g c' src (method == "post" || method == "put" || method == "patch") o with
      | .ok (w', hs', raised) =>
        let name := if fail = "url" then "URLError" else if fail = "http" then "HTTPError"
          else if fail = "timeout" then "TimeoutError" else if fail = "disc" then "RemoteDisconnected"
          else if fail = "reset" then "ConnectionResetError" else if fail = "pipe" then "BrokenPipeError"
          else if fail = "badjson" then "JSONDecodeError" else if fail = "badutf" then "UnicodeDecodeError"
          else if fail = "respad" then "ValueError" else "RuntimeError"
        (w', "sent " ++ showSent hs' ++
          (match src with
           | .ref k => match w'.dicts[k]? with
             | some d => " dict=" ++ showHdrs d
             | none => " dict=?"
           | .lit _ => "") ++ (if raised then " raised " ++ name else ""))
      | .error e => (w, "err " ++ e.name)
    | _, _ => (w, "bad-op")
  | ["burst", c, n] =>
    match c.toNat?, n.toNat? with
    | some c', some n' => match burst w c' n' none none with
      | .ok (w', some f, some l) => (w', "ok " ++ showCps f ++ " " ++ showCps l)
      | .ok (w', _, _) => (w', "ok none none")
      | .error e => (w, "err " ++ e.name)
    | _, _ => (w, "bad-op")
  | ["par", c, ths, sch] => doPar w c ths sch
  | ["parraw", c, ths, sch] => doPar w c ths sch
  | ["enum", k, n, budget] =>
    match k.toNat?, n.toNat?, budget.toNat? with
    | some k', some n', some b =>
      let s0 := initSt 0 (fun i => if i < k' then n' else 0)
      match dfs g.prog k' (k' * n' * (g.prog.length + 2) + 1) s0 [] b with
      | (_, some r) => (w, "found " ++ showSched r.reverse)
      | (0, none) => (w, "none budget-exhausted")
      | (_, none) => (w, "none")
    | _, _, _ => (w, "bad-op")
  | _ => (w, "bad-op")

def main : IO Unit := runS handle World.empty
