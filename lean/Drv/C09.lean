import AkVerif.Model.Proto
import AkVerif.Model.Sgr
import AkVerif.Gen.C09
open Ak Ak.Proto Sgr

def cfg : SgrCfg := Gen.C09.sgr
def cls : CharClass := Gen.C09.stripClass
def fin : Char := Gen.C09.stripFinal

def parseIntList (s : String) : Option (List Int) :=
  if s = "-" then some [] else (s.splitOn ",").mapM parseInt

/-- `N` | `s:<cps>` | `i:<int>` | `t:<ints>` | `o` -/
def parseColor (t : String) : Option ColorSpec :=
  if t = "N" then some .none
  else if t = "o" then some .other
  else if t.startsWith "s:" then (parseCps (t.drop 2).toString).map .str
  else if t.startsWith "i:" then (parseInt (t.drop 2).toString).map .int
  else if t.startsWith "t:" then (parseIntList (t.drop 2).toString).map .tuple
  else none

def parseFlag (c : Char) : Option (Option Bool) :=
  if c = 'N' then some none else if c = 'F' then some (some false)
  else if c = 'T' then some (some true) else none

def parseSpec (fg bg eff nc : String) : Option Spec :=
  match parseColor fg, parseColor bg, eff.toList.mapM parseFlag with
  | some f, some b, some [e1, e2, e3, e4, e5] =>
    if nc = "0" then some ⟨f, b, e1, e2, e3, e4, e5, false⟩
    else if nc = "1" then some ⟨f, b, e1, e2, e3, e4, e5, true⟩
    else none
  | _, _, _ => none

/-- parts of a `cht` line: five tokens each; `P` = plain `str` part (`make_plain`) -/
def parseParts : Nat → List String → Option (List (Spec × List Char))
  | 0, [] => some []
  | n + 1, fg :: bg :: eff :: nc :: text :: rest =>
    let spec := if fg = "P" then some ⟨.none, .none, none, none, none, none, none, false⟩
                else parseSpec fg bg eff nc
    match spec, parseCps text, parseParts n rest with
    | some s, some t, some ps => some ((s, t) :: ps)
    | _, _, _ => none
  | _, _ => none

def showColour : Colour → String
  | .dflt => "d"
  | .basic k => "b" ++ toString k
  | .idx n => "x" ++ toString n

def showAttr (a : Attr) : String :=
  let b (x : Bool) := if x then "1" else "0"
  showColour a.fg ++ "/" ++ showColour a.bg ++ "/" ++ b a.bold ++ b a.faint ++ b a.underline ++
    b a.blink ++ b a.crossed

def groupCells : List (Char × Attr) → List (Attr × List Char)
  | [] => []
  | (c, a) :: rest =>
    match groupCells rest with
    | (a', cs) :: gs => if a = a' then (a, c :: cs) :: gs else (a, [c]) :: (a', cs) :: gs
    | [] => [(a, [c])]

def showBytes (l : List UInt8) : String := showNatList (l.map (·.toNat))

def handle (line : String) : String :=
  match splitWs line with
  | ["fmt", fg, bg, eff, nc, text] =>
    match parseSpec fg bg eff nc, parseCps text with
    | some s, some t => showExcept (fun c => showCps (render [c])) (mkChunk cfg s t)
    | _, _ => "bad-op"
  | ["bytes", fg, bg, eff, nc, payload] =>
    match parseSpec fg bg eff nc, parseNatList payload with
    | some s, some bs =>
      showExcept (fun (p, q) => showBytes (p ++ bs.map (·.toUInt8) ++ q)) (mkSeqBytes cfg s)
    | _, _ => "bad-op"
  | "cht" :: n :: rest =>
    match n.toNat? with
    | some k =>
      match parseParts k rest with
      | some parts =>
        showExcept (fun cs =>
          let t := buildChunks cs
          let s := render t
          showCps s ++ " " ++ showCps (plain t) ++ " " ++ showCps (strip cls fin s)) (mkChunks cfg parts)
      | none => "bad-op"
    | none => "bad-op"
  | ["pfmt", text] =>     -- `ColorFmt.get_plaintext_fmt()` = `ColorFmt(None)`
    match parseCps text with
    | some t =>
      showExcept (fun c => showCps (render [c]))
        (mkChunk cfg ⟨.none, .none, none, none, none, none, none, false⟩ t)
    | none => "bad-op"
  | ["strip", text] =>
    match parseCps text with
    | some t => "ok " ++ showCps (strip cls fin t)
    | none => "bad-op"
  | ["term", text] =>
    match parseCps text with
    | some t =>
      match interp t with
      | some (cells, a) =>
        let gs := (groupCells cells).map fun (a, cs) => showAttr a ++ "=" ++ showCps cs
        "ok " ++ showAttr a ++ " " ++ (if gs.isEmpty then "-" else "|".intercalate gs)
      | none => "bad"
    | none => "bad-op"
  | _ => "bad-op"

def main : IO Unit := run handle
