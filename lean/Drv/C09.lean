import AkVerif.Model.Proto
import AkVerif.Model.Sgr
import AkVerif.Model.SgrText
import AkVerif.Model.SgrResize
import AkVerif.Gen.C09
open Ak Ak.Proto Sgr SgrText

def cfg : SgrCfg := Gen.C09.sgr
def cls : CharClass := Gen.C09.stripClass
def fin : Char := Gen.C09.stripFinal

/-- `12`, `-3` (an `int`) or `2.5`, `-0.25`, `7.0` (a `float`: digits with one `.`) -/
def parseNum (s0 : String) : Option Num :=
  -- a member that is not a number: `N` None, `a` the str "a", `d` the str "1", `u` the tuple (1,), `o` an object()
  if s0 = "N" || s0 = "a" || s0 = "d" || s0 = "u" || s0 = "o" then some .other else
  -- `e3` an IntEnum member, `s3` an instance of an int subclass, `b1` a bool: ints with that value
  let s := if s0.startsWith "e" || s0.startsWith "s" || s0.startsWith "b" then (s0.drop 1).toString else s0
  match s.splitOn "." with
  | [_] => (parseInt s).map Num.int
  | [a, b] =>
    if b.isEmpty || !b.all Char.isDigit then none else
    match parseInt (a ++ b) with
    | some n => some (Num.flt n (10 ^ b.length))
    | none => none
  | _ => none

def parseNumList (s : String) : Option (List Num) :=
  if s = "-" then some [] else (s.splitOn ",").mapM parseNum

/-- `N` | `s:<cps>` | `i:<int>` | `f:<decimal>` | `t:<members>` | `l:<members>` (a list) | `o…` (another object); the *kinds* `ie:` (IntEnum
member), `is:` (instance of an int subclass), `tn:` (namedtuple), `ts:` (instance of a tuple
subclass) are ints / tuples to the code (`isinstance`), so they are `.int` / `.tuple` here -/
def parseColor (t : String) : Option ColorSpec :=
  if t = "N" then some .none
  else if t.startsWith "o" then some .other     -- `o` bytes, `od` / `od1` dict, `os` set, `of` frozenset, `oo` object(), `oc` complex
  else if t.startsWith "l:" then (parseNumList (t.drop 2).toString).map (.tuple .list)
  else if t.startsWith "lsub:" then (parseNumList (t.drop 5).toString).map (.tuple .list)
  else if t.startsWith "s:" then (parseCps (t.drop 2).toString).map .str
  else if t.startsWith "i:" then (parseInt (t.drop 2).toString).map .int
  else if t.startsWith "ie:" || t.startsWith "is:" || t.startsWith "ib:" then (parseInt (t.drop 3).toString).map .int
  else if t.startsWith "tn:" || t.startsWith "ts:" then (parseNumList (t.drop 3).toString).map (.tuple .tuple)
  else if t.startsWith "f:" then
    match parseNum (t.drop 2).toString with
    | some (.flt n d) => some (.float n d)
    | _ => none
  else if t.startsWith "t:" then (parseNumList (t.drop 2).toString).map (.tuple .tuple)
  else none

/-- a flag value: N None, F False, T True, 0 1 2 ints, e "", x "x", l [], L [0], z 0.0, h 1.5 -/
def parseFlag (c : Char) : Option PyVal :=
  if c = 'N' then some .none
  else if c = 'F' then some (.bool false)
  else if c = 'T' then some (.bool true)
  else if c = '0' then some (.int 0)
  else if c = '1' then some (.int 1)
  else if c = '2' then some (.int 2)
  else if c = 'e' then some (.str [])
  else if c = 'x' then some (.str ['x'])
  else if c = 'l' then some (.list 0)
  else if c = 'L' then some (.list 1)
  else if c = 'z' then some (.float 0 1)
  else if c = 'h' then some (.float 15 10)
  else none

def parseSpec (fg bg eff nc : String) : Option Spec :=
  match parseColor fg, parseColor bg, eff.toList.mapM parseFlag, nc.toList.mapM parseFlag with
  | some f, some b, some [e1, e2, e3, e4, e5], some [n] => some ⟨f, b, e1, e2, e3, e4, e5, n⟩
  | _, _, _, _ => none

/-- parts of a `cht` line: five tokens each; `P` = plain `str` part (`make_plain`) -/
def parseParts : Nat → List String → Option (List (Spec × List Char))
  | 0, [] => some []
  | n + 1, fg :: bg :: eff :: nc :: text :: rest =>
    let spec := if fg = "P" then some plainSpec
                else parseSpec fg bg eff nc
    match spec, parseCps text, parseParts n rest with
    | some s, some t, some ps => some ((s, t) :: ps)
    | _, _, _ => none
  | _, _ => none

def showColour : Colour → String
  | .dflt => "d"
  | .basic k => "b" ++ toString k
  | .idx n => "x" ++ toString n

def showAttr (a : Attr) : String :=
  let b (x : Bool) := if x then "1" else "0"
  showColour a.fg ++ "/" ++ showColour a.bg ++ "/" ++ b a.bold ++ b a.faint ++ b a.underline ++
    b a.blink ++ b a.crossed

def groupCells : List (Char × Attr) → List (Attr × List Char)
  | [] => []
  | (c, a) :: rest =>
    match groupCells rest with
    | (a', cs) :: gs => if a = a' then (a, c :: cs) :: gs else (a, [c]) :: (a', cs) :: gs
    | [] => [(a, [c])]

def showBytes (l : List UInt8) : String := showNatList (l.map (·.toNat))


/-! several calls in one process: `seq <n> (F <fg> <bg> <eff> <nc> <text> | B <fg> <bg> <eff> <nc> <bytes> | R <k> <text> | P <text>)*n` -/
def parseCalls : Nat → List String → Option (List Call)
  | 0, [] => some []
  | n + 1, "F" :: fg :: bg :: eff :: nc :: text :: rest =>
    match parseSpec fg bg eff nc, parseCps text, parseCalls n rest with
    | some s, some t, some cs => some (.fmt s t :: cs)
    | _, _, _ => none
  | n + 1, "B" :: fg :: bg :: eff :: nc :: payload :: rest =>
    match parseSpec fg bg eff nc, parseNatList payload, parseCalls n rest with
    | some s, some b, some cs => some (.bytes s (b.map (·.toUInt8)) :: cs)
    | _, _, _ => none
  | n + 1, "P" :: text :: rest =>
    match parseCps text, parseCalls n rest with
    | some t, some cs => some (.plain t :: cs)
    | _, _ => none
  | n + 1, "R" :: k :: text :: rest =>
    match k.toNat?, parseCps text, parseCalls n rest with
    | some k, some t, some cs => some (.again k t :: cs)
    | _, _, _ => none
  | _, _ => none

def showResult : CallResult → String
  | .str s => "s:" ++ showCps s
  | .bytes b => "b:" ++ showBytes b
  | .err e => "e:" ++ e.name
  | .noObject => "none"

/-! `CHText` values through a palette: `<k> (<fg> <bg> <eff> <nc>)*k` then the program -/
def parseSpecs : Nat → List String → Option (List Spec × List String)
  | 0, rest => some ([], rest)
  | n + 1, fg :: bg :: eff :: nc :: rest =>
    match parseSpec fg bg eff nc, parseSpecs n rest with
    | some s, some (ss, r) => some (s :: ss, r)
    | _, _ => none
  | _, _ => none

def parseHOp (tok : String) : Option HOp :=
  match tok.splitOn ":" with
  | ["a", col, cps] =>
    match col.toNat?, parseCps cps with
    | some c, some s => some (.app c s)
    | _, _ => none
  | ["p", cps] => (parseCps cps).map .str
  | ["self"] => some .self
  | ["selfl"] => some .selfList
  | ["cl"] => some .clone
  | ["r"] => some .look
  | _ => none

def showLook (pal : Palette) (t : CHText.Text) : Option String :=
  (renderText pal t).map fun s =>
    showCps s ++ " " ++ showCps (plainText t) ++ " " ++ showCps (strip cls fin s)

def joinLooks : List (Option String) → Option String
  | [] => some ""
  | [x] => x
  | x :: y :: rest =>
    match x, joinLooks (y :: rest) with
    | some a, some b => some (a ++ "|" ++ b)
    | _, _ => none

/-- postfix programs over `CHText.Expr` (the token language of `Drv/C08.lean`, without `iter`) -/
def popN (n : Nat) (st : List CHText.Expr) : Option (List CHText.Expr × List CHText.Expr) :=
  if n ≤ st.length then some ((st.take n).reverse, st.drop n) else none

def parseOptInt (s : String) : Option (Option Int) :=
  if s = "n" then some none else (parseInt s).map some

open CHText in
def stepTok (st : List Expr) (tok : String) : Option (List Expr) :=
  match tok.splitOn ":" with
  | ["s", cps] => (parseCps cps).map fun s => Expr.str s :: st
  | ["c", col, cps] =>
    match col.toNat?, parseCps cps with
    | some c, some s => some (Expr.chunk c s :: st)
    | _, _ => none
  | ["ls", n] => do
    let (items, rest) ← popN (← n.toNat?) st
    some (Expr.list false items :: rest)
  | ["tp", n] => do
    let (items, rest) ← popN (← n.toNat?) st
    some (Expr.list true items :: rest)
  | ["mk", n] => do
    let (items, rest) ← popN (← n.toNat?) st
    some (Expr.mk items :: rest)
  | ["add"] => match st with
    | b :: a :: rest => some (Expr.add a b :: rest)
    | _ => none
  | ["iadd"] => match st with
    | b :: a :: rest => some (Expr.iadd a b :: rest)
    | _ => none
  | ["dupiadd"] => match st with
    | a :: rest => some (Expr.iadd a a :: rest)
    | _ => none
  | ["dupiaddl"] => match st with
    | a :: rest => some (Expr.iadd a (Expr.list false [a]) :: rest)
    | _ => none
  | ["join", k, n] => do
    let (items, rest) ← popN (← n.toNat?) st
    match rest with
    | sep :: rest' => if k = "l" then some (Expr.join sep false items :: rest')
                      else if k = "t" then some (Expr.join sep true items :: rest') else none
    | [] => none
  | ["idx", i] => match st, parseInt i with
    | a :: rest, some k => some (Expr.idx a k :: rest)
    | _, _ => none
  | ["sl", i, j] => match st, parseOptInt i, parseOptInt j with
    | a :: rest, some x, some y => some (Expr.slice a x y :: rest)
    | _, _, _ => none
  | ["fl", n] => match st, parseInt n with
    | a :: rest, some k => some (Expr.fixedLen a k :: rest)
    | _, _ => none
  | _ => none

/-- the value of a program as a `CHText` (a chunk result is looked at through `str(chunk)`:
prefix, text and suffix even when the text is empty) -/
def showValue (pal : Palette) : Except CHText.Fail CHText.Part → String
  | .ok (.text t) => match showLook pal t with
    | some s => "ok " ++ s
    | none => "bad-pal"
  | .ok (.chunk c) => match toChunks pal [c] with
    | some scs => "ok " ++ showCps (render scs) ++ " " ++ showCps c.text ++ " " ++ showCps (strip cls fin (render scs))
    | none => "bad-pal"
  | .ok _ => "other"
  | .error (.py e) => "err " ++ e.name
  | .error .unmodelled => "unmodelled"

def withPalette (k : String) (rest : List String) (f : Palette → List String → String) : String :=
  match k.toNat? with
  | none => "bad-op"
  | some n =>
    match parseSpecs n rest with
    | none => "bad-op"
    | some (specs, toks) =>
      match mkPalette cfg specs with
      | .error e => "err " ++ e.name
      | .ok pal => if palOk pal then f pal toks else "bad-pal"


/-! ### values given as data: the chunk list the real object reports (`id:cps/id:cps/…`, `_` = no chunk)

The observable lines `cht` / `hist` / `ops` carry, after the token `@`, the chunk list(s) of the real
object(s) as data; the driver renders **that value** (`renderText`: `C09.value_shows` is about every
value), it does not evaluate the operations. What the operations should have produced is C08's
question; the model-evaluated variants (`chtm` / `histm` / `opsm`) are diagnostics only. -/

/-- one chunk of a given value: `id:cps` (the formatter with that colour id) or
`u=<prefix>=<suffix>:cps` (a chunk whose prefix/suffix pair no formatter of the line produced) -/
def parseGiven (tok : String) : Option Given :=
  match tok.splitOn ":" with
  | [col, cps] =>
    match col.splitOn "=" with
    | ["u", p, q] =>
      match parseCps p, parseCps q, parseCps cps with
      | some p, some q, some t => some (.raw p q t)
      | _, _, _ => none
    | [c] =>
      match c.toNat?, parseCps cps with
      | some c, some t => some (.byId c t)
      | _, _ => none
    | _ => none
  | _ => none

/-- one observation of a given value: `str plain strip <echo of the data>`, computed by the model
functions `renderGiven` / `givenChunks` (`C09.given_shows`); a raw chunk that fails the
well-formedness test `rawOk` is refused (`ill-formed-chunk`) -/
def showGiven (pal : Palette) (tok : String) : String :=
  let gs := if tok = "_" then some [] else (tok.splitOn "/").mapM parseGiven
  match gs with
  | none => "bad-op"
  | some gs =>
    if !gs.all Given.ok then "ill-formed-chunk"
    else
      match renderGiven pal gs, givenChunks pal gs with
      | some s, some cs =>
        showCps s ++ " " ++ showCps (plain cs) ++ " " ++ showCps (strip cls fin s) ++ " " ++ tok
      | _, _ => "bad-pal"

/-- the data tokens after `@`: `E:<Name>` = the real operations raised -/
def showData (pal : Palette) (data : List String) : String :=
  match data with
  | [tok] =>
    if tok.startsWith "E:" then "err " ++ (tok.drop 2).toString
    else "ok " ++ showGiven pal tok
  | _ => "ok " ++ "|".intercalate (data.map (showGiven pal))

def splitData (toks : List String) : List String × List String :=
  (toks.takeWhile (· ≠ "@"), (toks.dropWhile (· ≠ "@")).drop 1)

/-- palette of a line without the `palOk` test (rendering a given value does not need it) -/
def withSpecs (k : String) (rest : List String) (f : Palette → String) : String :=
  match k.toNat? with
  | none => "bad-op"
  | some n =>
    match parseSpecs n rest with
    | none => "bad-op"
    | some (specs, _) =>
      match mkPalette cfg specs with
      | .error e => "err " ++ e.name
      | .ok pal => f pal

/-! chunk lists through a list helper: `lst <src> <helper> <sink> <n> parts… @ <value>`
(`src`: `fmts` | `obj`; `helper`: `id` | `rs:<len>,<len>…` = `CHText.resize_chunks_list` once per
length; `sink`: `make` | `ctor` | `ctorl` | `join`) -/
def parseSource (s : String) : Option Source :=
  if s = "fmts" then some .fmts else if s = "obj" then some .obj else none

def parseHelper (s : String) : Option (List Nat) :=
  if s = "id" then some []
  else if s.startsWith "rs:" then ((s.drop 3).toString.splitOn ",").mapM String.toNat?
  else none

def parseSink (s : String) : Option Sink :=
  if s = "make" then some .make
  else if s = "ctor" || s = "ctorl" then some .ctor
  else if s = "join" then some .join
  else none

def handle (line : String) : String :=
  match splitWs line with
  | ["fmt", fg, bg, eff, nc, text] =>
    match parseSpec fg bg eff nc, parseCps text with
    | some s, some t => showExcept (fun c => showCps (render [c])) (mkChunk cfg s t)
    | _, _ => "bad-op"
  | ["bytes", fg, bg, eff, nc, payload] =>
    match parseSpec fg bg eff nc, parseNatList payload with
    | some s, some bs =>
      showExcept (fun (p, q) => showBytes (p ++ bs.map (·.toUInt8) ++ q)) (mkSeqBytes cfg s)
    | _, _ => "bad-op"
  | "cht" :: n :: rest0 =>       -- the formatters are the parts' own; the value comes as data
    let (rest, data) := splitData rest0
    match n.toNat? with
    | some k =>
      match parseParts k rest with
      | some parts =>
        match mkChunks cfg parts with
        | .error e => "err " ++ e.name
        | .ok cs => showData (cs.map fun c => (c.pre, c.suf)) data
      | none => "bad-op"
    | none => "bad-op"
  | "make" :: n :: rest0 =>      -- `CHText.make([chunks])`: the same formatters-of-the-parts palette
    let (rest, data) := splitData rest0
    match n.toNat? with
    | some k =>
      match parseParts k rest with
      | some parts =>
        match mkChunks cfg parts with
        | .error e => "err " ++ e.name
        | .ok cs => showData (cs.map fun c => (c.pre, c.suf)) data
      | none => "bad-op"
    | none => "bad-op"
  | "makem" :: n :: rest =>     -- diagnostic: the model merges the chunks itself (`mergeChunks`, `C09.make_shows`)
    match n.toNat? with
    | some k =>
      match parseParts k rest with
      | some parts => showExcept (fun cs => showCps (render (mergeChunks cs))) (mkChunks cfg parts)
      | none => "bad-op"
    | none => "bad-op"
  | "lst" :: src :: helper :: sink :: n :: rest0 =>   -- judged path: the value the real route reports, as data
    let (rest, data) := splitData rest0
    match parseSource src, parseHelper helper, parseSink sink, n.toNat? with
    | some _, some _, some _, some k =>
      match parseParts k rest with
      | some parts =>
        match mkChunks cfg parts with
        | .error e => "err " ++ e.name
        | .ok cs => showData (cs.map fun c => (c.pre, c.suf)) data
      | none => "bad-op"
    | _, _, _, _ => "bad-op"
  | "lstm" :: src :: helper :: sink :: n :: rest =>   -- diagnostic: the model runs helper and sink itself (`C09.resize_shows`)
    match parseSource src, parseHelper helper, parseSink sink, n.toNat? with
    | some sr, some lens, some sk, some k =>
      match parseParts k rest with
      | some parts => showExcept (fun cs => showCps (listStr sr lens sk cs)) (mkChunks cfg parts)
      | none => "bad-op"
    | _, _, _, _ => "bad-op"
  | ["route", fg, bg, eff, nc, rt, text, "@", l, r] =>
    -- a route from `fmt(text)` to a str; `l` / `r` = what the real route wrote around the text (data)
    match parseSpec fg bg eff nc, parseCps text with
    | some s, some t =>
      match mkChunk cfg s t with
      | .error e => "err " ++ e.name
      | .ok c =>
        if l.startsWith "E:" then "err " ++ (l.drop 2).toString
        else
          match parseCps l, parseCps r with
          | some l, some r =>
            let route := if rt = "str" || rt = "pct" then Route.direct else Route.viaText
            "ok " ++ showCps (routeStr l r c route)
          | _, _ => "bad-op"
    | _, _ => "bad-op"
  | ["first", entry, text] =>    -- the first call in a fresh process: the model has no "first time"
    match parseCps text with
    | some t =>
      if entry = "plain-fmt" then showExcept (fun c => showCps (render [c])) (mkChunk cfg plainSpec t)
      else if entry = "chunk-strip" || entry = "obj-strip" || entry = "cht-strip" then
        "ok " ++ showCps (strip cls fin t)
      else "bad-op"
    | none => "bad-op"
  | "hist" :: k :: rest0 =>
    let (rest, data) := splitData rest0
    withSpecs k rest fun pal => showData pal data
  | "ops" :: k :: rest0 =>
    let (rest, data) := splitData rest0
    withSpecs k rest fun pal => showData pal data
  | "chtm" :: n :: rest =>
    match n.toNat? with
    | some k =>
      match parseParts k rest with
      | some parts =>
        showExcept (fun cs =>
          let t := buildChunks cs
          let s := render t
          showCps s ++ " " ++ showCps (plain t) ++ " " ++ showCps (strip cls fin s)) (mkChunks cfg parts)
      | none => "bad-op"
    | none => "bad-op"
  | ["pfmt", text] =>     -- `ColorFmt.get_plaintext_fmt()` = `ColorFmt(None)`
    match parseCps text with
    | some t =>
      showExcept (fun c => showCps (render [c]))
        (mkChunk cfg plainSpec t)
    | none => "bad-op"
  | "seq" :: n :: rest =>
    match n.toNat? with
    | some k =>
      match parseCalls k rest with
      | some calls => "ok " ++ "|".intercalate ((runCalls cfg [] calls).map showResult)
      | none => "bad-op"
    | none => "bad-op"
  | "histm" :: k :: rest =>
    withPalette k rest fun pal toks =>
      match toks.mapM parseHOp with
      | none => "bad-op"
      | some ops =>
        match joinLooks ((histRun CHText.Text.empty ops).map (showLook pal)) with
        | some s => "ok " ++ s
        | none => "bad-pal"
  | "opsm" :: k :: rest =>
    withPalette k rest fun pal toks =>
      match toks.foldlM stepTok [] with
      | some [e] => showValue pal (CHText.eval e)
      | _ => "bad-op"
  | ["strip", text] =>
    match parseCps text with
    | some t => "ok " ++ showCps (strip cls fin t)
    | none => "bad-op"
  | ["term", text] =>
    match parseCps text with
    | some t =>
      match interp t with
      | some (cells, a) =>
        let gs := (groupCells cells).map fun (a, cs) => showAttr a ++ "=" ++ showCps cs
        "ok " ++ showAttr a ++ " " ++ (if gs.isEmpty then "-" else "|".intercalate gs)
      | none => "bad"
    | none => "bad-op"
  | _ => "bad-op"

def main : IO Unit := run handle
