import AkVerif.Model.Proto
import AkVerif.Model.HttpConn
open Ak Ak.Proto HttpConn

/-! Line protocol of C17 (see `harness/c17.py` for the grammar). The driver only resolves the
names used on the lines to heap references and prints replies; everything else is `HttpConn.step`. -/

structure St where
  heap : Heap
  lists : List (Nat × Nat)
  dicts : List (Nat × Nat)
  conns : List (Nat × Nat)
  callers : List (Nat × Nat)
  classes : List (Nat × Nat)
  datas : List (Nat × Nat)
  lastId : String   -- request-id facts of the last request (C16's business): reported on a line of its own

def St.init : St := ⟨Heap.empty, [], [], [], [], [], [], "none"⟩

def find (t : List (Nat × Nat)) (n : Nat) : Option Nat := (t.find? (·.1 = n)).map (·.2)

/-! JSON values on the wire: tokens joined by `|`: `N` `T` `F` `I<int>` `S<cps>` `A<n>` (n values
follow) `O<n>` (n times `K<cps>` and a value follow). -/

mutual
def parseJ : Nat → List String → Option (J × List String)
  | 0, _ => none
  | fuel + 1, t :: ts =>
    if t = "N" then some (.null, ts) else if t = "T" then some (.bool true, ts)
    else if t = "F" then some (.bool false, ts)
    else if t.startsWith "I" then (parseInt (t.drop 1).toString).map fun n => (.num n, ts)
    else if t.startsWith "S" then (parseCps (t.drop 1).toString).map fun c => (.str c, ts)
    else if t.startsWith "A" then
      match (t.drop 1).toString.toNat? with
      | some n => (parseJL fuel false n ts).map fun r => (.arr r.1, r.2)
      | none => none
    else if t.startsWith "O" then
      match (t.drop 1).toString.toNat? with
      | some n => (parseJL fuel true n ts).map fun r => (.obj r.1, r.2)
      | none => none
    else none
  | _, [] => none
def parseJL : Nat → Bool → Nat → List String → Option (JL × List String)
  | 0, _, _, _ => none
  | _ + 1, _, 0, ts => some (.nil, ts)
  | fuel + 1, false, n + 1, ts =>
    match parseJ fuel ts with
    | some (v, ts') => (parseJL fuel false n ts').map fun r => (.cons [] v r.1, r.2)
    | none => none
  | fuel + 1, true, n + 1, t :: ts =>
    if t.startsWith "K" then
      match parseCps (t.drop 1).toString, parseJ fuel ts with
      | some k, some (v, ts') => (parseJL fuel true n ts').map fun r => (.cons k v r.1, r.2)
      | _, _ => none
    else none
  | _ + 1, true, _ + 1, [] => none
end

def parseJson (s : String) : Option J :=
  let ts := s.splitOn "|"
  match parseJ (2 * ts.length + 2) ts with
  | some (v, []) => some v
  | _ => none

mutual
def showJ : J → List String
  | .null => ["N"]
  | .bool true => ["T"]
  | .bool false => ["F"]
  | .num n => ["I" ++ toString n]
  | .str s => ["S" ++ showCps s]
  | .arr l => ("A" ++ toString l.length) :: showJL false l
  | .obj kv => ("O" ++ toString kv.length) :: showJL true kv
  | .raw => ["R"]
def showJL : Bool → JL → List String
  | _, .nil => []
  | false, .cons _ v r => showJ v ++ showJL false r
  | true, .cons k v r => ("K" ++ showCps k) :: showJ v ++ showJL true r
end

def showJson (v : J) : String := "|".intercalate (showJ v)

def parseAdapter (st : St) (s : String) : Option Adapter :=
  match s.splitOn "/" with
  | ["p", p] => (parseCps p).map .pfx
  | ["b", l, p] => do some (mkBasic b64enc (← parseCps l) (← parseCps p))
  | ["c", i, p] => do some (mkClient b64enc (← parseCps i) (← parseCps p))
  | ["t", t] => (parseCps t).map mkToken
  | ["x", t] => (parseCps t).map .trace
  | ["X", t] => (parseCps t).map .trace      -- the same adapter, rebinding `req_args.headers` to a new dict first
  | ["q", k, v] => do some (.addParam (← parseCps k) (← parseCps v))
  | ["w", k] => (parseCps k).map .wrapData
  | ["N", c, mode, side, id] =>     -- an adapter that sends `target.get("/nested")` itself
    do some (.nested (← c.toNat?.bind (find st.conns)) (mode = "f") (side = "q") (← id.toNat?))
  | ["u", k] => (parseCps k).map .unwrap
  | ["k"] => some .count
  | ["f"] => some .compact
  | ["z"] => some .nullify
  | ["e", "q"] => some (.boom true)
  | ["e", "r"] => some (.boom false)
  | _ => none

def parseAdapters (st : St) (s : String) : Option (List Adapter) :=
  if s = "-" then some [] else (s.splitOn ";").mapM (parseAdapter st)

def parsePairs (s : String) : Option UDict :=
  if s = "-" then some [] else
  (s.splitOn ";").mapM fun kv =>
    match kv.splitOn "=" with
    | [k, v] => do some (← parseCps k, ← parseCps v)
    | _ => none

def parseVal (s : String) : Option HVal :=
  if s = "T" then some (.bool true) else if s = "F" then some (.bool false) else if s = "N" then some .pyNone
  else if s.startsWith "s" then (parseCps (s.drop 1).toString).map .str
  else if s.startsWith "i" then (parseInt (s.drop 1).toString).map .int
  else none

def parseTypedPairs (s : String) : Option Dict :=
  if s = "-" then some [] else
  (s.splitOn ";").mapM fun kv =>
    match kv.splitOn "=" with
    | [k, v] => do some (← parseCps k, ← parseVal v)
    | _ => none

def parseNames (t : List (Nat × Nat)) (s : String) : Option (List Nat) :=
  if s = "-" then some [] else (s.splitOn ";").mapM fun n => n.toNat?.bind (find t)

def parseCompsTok (s : String) : Option Comps :=
  if s = "n" then some none else if s = "e" then some (some [])
  else ((s.splitOn "+").mapM parseCps).map some

/-- wrappers `name=comps`, `name=comps=inner` or `name=comps=inner=flags`; inner: the name of the wrapper the body
calls (`self.<inner>(…)`), `*` (the body reaches get_conn() through the helper method `_shared_conn`) or `.` (none);
flags: `g` generator function, `y` generator function that delegates (`yield from`) to the helper generator
`_gen_conn`, `a` coroutine function, `d` the body drives the object that `self.<inner>(…)` returns itself -/
def parseWrappers (s : String) : Option (List (Str × Comps) × Bodies) :=
  if s = "-" then some ([], ⟨[], [], []⟩) else do
  let ws ← (s.splitOn "/").mapM fun w =>
    let go (m c i fl : String) : Option ((Str × Comps) × Option (Str × Str × Bool) × Bool × Option Str) := do
      let name ← parseCps m
      let comps ← parseCompsTok c
      let flags := fl.toList
      if !flags.all (fun ch => ch = 'g' || ch = 'y' || ch = 'a' || ch = 'd') then none
      let deferred := flags.any (fun ch => ch = 'g' || ch = 'y' || ch = 'a')
      let viaGen := flags.contains 'y'
      if i = "." then
        some ((name, comps), none, deferred, if viaGen then some "_gen_conn".toList else none)
      else if i = "*" then
        if viaGen then none else some ((name, comps), none, deferred, some "_shared_conn".toList)
      else
        if viaGen then none else
        some ((name, comps), some (name, ← parseCps i, flags.contains 'd'), deferred, none)
    match w.splitOn "=" with
    | [m, c] => go m c "." ""
    | [m, c, i] => go m c i ""
    | [m, c, i, fl] => go m c i fl
    | _ => none
  some (ws.map (·.1),
    ⟨ws.filterMap (·.2.1), ws.filterMap (fun x => if x.2.2.1 then some x.1.1 else none),
     ws.filterMap (fun x => x.2.2.2.map fun h => (x.1.1, h))⟩)

def parseTarget (st : St) (s : String) : Option Target :=
  match s.splitOn "=" with
  | ["c", n] => do some (.conn (← find st.conns (← n.toNat?)))
  | ["s", a] => do some (.addr (← parseCps a) true true)
  | ["a", a, f] => do some (.addr (← parseCps a) false (f = "1"))
  | ["d", a, f] => do some (.addr (← parseCps a) false (f = "1"))   -- dict form: same constructor arguments
  | _ => none

def parseOwn (st : St) (s : String) : Option Own :=
  match s.splitOn "=" with
  | ["n"] => some .none
  | ["o", a] => (parseAdapter st a).map .one
  | ["l", n] => do some (.list (← find st.lists (← n.toNat?)))
  | _ => none

def parseOptRef (t : List (Nat × Nat)) (s : String) : Option (Option Nat) :=
  if s = "n" then some none else do some (some (← find t (← s.toNat?)))

def parseBody (st : St) (s : String) : Option DataArg :=
  match s.splitOn "=" with
  | ["n"] => some .none
  | ["b", b] => (parseNatList b).map .bytes
  | ["s", t] => (parseCps t).map .str
  | ["j", n] => (n.toNat?.bind (find st.datas)).map .obj     -- a structured object of the caller, by name
  | _ => none

def parseVerb (s : String) : Option (Option Str) :=
  match s.splitOn "=" with
  | ["get"] => some (some "GET".toList)
  | ["post"] => some (some "POST".toList)
  | ["put"] => some (some "PUT".toList)
  | ["delete"] => some (some "DELETE".toList)
  | ["patch"] => some (some "PATCH".toList)
  | ["raw", "n"] => some none
  | ["raw", m] => (parseCps m).map some
  | _ => none

def parseComps (s : String) : Option (Option (List Str)) :=
  if s = "n" then some none else if s = "e" then some (some [])
  else ((s.splitOn ";").mapM parseCps).map some

def parseArgs (st : St) : List String → Option Args
  | [verb, path, params, body, headers, resp, raw] => do
    some { path := ← parseCps path, method := ← parseVerb verb, params := ← parseOptRef st.dicts params,
           data := ← parseBody st body, headers := ← parseOptRef st.dicts headers,
           resp := ← (if resp = "E" then some none else (parseJson resp).map some), raw := raw = "1" }
  | _ => none

def ltStr : Str → Str → Bool
  | [], [] => false
  | [], _ :: _ => true
  | _ :: _, [] => false
  | a :: r, b :: s => a.toNat < b.toNat || (a = b && ltStr r s)

def insertSorted (kv : Str × HVal) : Dict → Dict
  | [] => [kv]
  | x :: r => if ltStr kv.1 x.1 then kv :: x :: r else x :: insertSorted kv r

def sortDict (d : Dict) : Dict := d.foldl (fun acc kv => insertSorted kv acc) []

def showHVal : HVal → String
  | .str s => "s" ++ showCps s
  | .bytes s => "b" ++ showCps s
  | .genId => "g"
  | .int n => "i" ++ toString n
  | .bool true => "T"
  | .bool false => "F"
  | .pyNone => "N"

/-- runs of `/` collapsed (the joints address | prefixes | path are not spelled out by the property;
the exact url is answered by the diagnostic `lastid` line) -/
def collapseSlashes : Bool → Str → Str
  | _, [] => []
  | prev, c :: r =>
    if c = '/' then (if prev then collapseSlashes true r else '/' :: collapseSlashes true r)
    else c :: collapseSlashes false r

def canonUrl : Str → Str
  | ':' :: '/' :: '/' :: r => ':' :: '/' :: '/' :: collapseSlashes false r
  | c :: r => c :: canonUrl r
  | [] => []

def showSent (s : Sent) (same : Bool) (sent : Nat) : String :=
  match s.resp with
  | .error e => "err " ++ e.name ++ " n=" ++ toString sent ++ (if same then "" else " same=0")
  | .ok rv =>
  -- the request-id header is left out here: presence, value and number are answered by `lastid`
  let hs := ((sortDict s.headers).filter fun kv => lower kv.1 != Gen.C17.idHeaderLower).map
    fun kv => showCps kv.1 ++ ":" ++ showHVal kv.2
  "ok u=" ++ showCps (canonUrl s.url) ++ " m=" ++ showCps s.method
    ++ " h=" ++ (if hs.isEmpty then "-" else ";".intercalate hs)
    ++ " d=" ++ (match s.body with | none => "n" | some b => showNatList b)
    ++ " r=" ++ showJson rv
    ++ " nested=" ++ (if s.nested.isEmpty then "-" else ";".intercalate (s.nested.map fun u => showCps (canonUrl u)))
    ++ " same=" ++ (if same then "1" else "0")

def showIdInfo (s : Sent) : String :=
  "id=" ++ (match s.genId with | none => "n" | some n => toString n) ++ " h=" ++
    (match s.headers.find? fun kv => lower kv.1 = Gen.C17.idHeaderLower with
     | some kv => showHVal kv.2
     | none => "absent") ++ " u=" ++ showCps s.url

/-- the caller's objects: dictionaries and adapter lists -/
def userSnapshot (H : Heap) (upto : Heap) : List (Option Dict) × List (Option (List Adapter)) × List J :=
  (upto.userDicts.map (H.dicts[·]?), upto.userLists.map (H.lists[·]?), H.datas.take upto.datas.length)

def exec (st : St) (op : Op) (bind : St → Nat → St) : St × String :=
  let (H', r) := step { st.heap with lastSent := 0 } op
  let same := userSnapshot H' st.heap = userSnapshot st.heap st.heap
  let st' := { st with heap := H' }
  match r with
  | .ok .unit => (st', "ok")
  | .ok (.ref n) => (bind st' n, "ok")
  | .ok (.sent s) => ({ st' with lastId := showIdInfo s }, showSent s same H'.lastSent)
  | .error e =>
    let st' := match op with
      | .request .. | .call .. => { st' with lastId := "none" }
      | _ => st'

    let sent := match op with
      | .request .. | .call .. => " n=" ++ toString H'.lastSent
      | _ => ""
    (st', "err " ++ e.name ++ sent ++ (if same then "" else " same=0"))

def noBind (st : St) (_ : Nat) : St := st

def handle (st : St) (line : String) : St × String :=
  let bad := (st, "bad-op")
  match splitWs line with
  | ["reset"] => (St.init, "ok")
  | ["lastid"] => (st, st.lastId)
  | ["debuglog"] => (st, "ok")     -- the logger of ak.conn_http at DEBUG: nothing that is sent may change
  | ["list", name, as] =>
    match name.toNat?, parseAdapters st as with
    | some nm, some l => exec st (.newList l) fun s n => { s with lists := (nm, n) :: s.lists }
    | _, _ => bad
  | ["lappend", name, a] =>
    match name.toNat?.bind (find st.lists), parseAdapter st a with
    | some l, some ad => exec st (.listAppend l ad) noBind
    | _, _ => bad
  | ["dict", name, kvs] =>
    match name.toNat?, parsePairs kvs with
    | some nm, some d => exec st (.newDict d) fun s n => { s with dicts := (nm, n) :: s.dicts }
    | _, _ => bad
  | ["mk", name, target, own, cls] =>
    match name.toNat?, parseTarget st target, parseOwn st own with
    | some nm, some t, some o => exec st (.mk t o (cls = "H")) fun s n => { s with conns := (nm, n) :: s.conns }
    | _, _, _ => bad
  | ["add", name, a] =>
    match name.toNat?.bind (find st.conns), parseAdapter st a with
    | some c, some ad => exec st (.add c ad) noBind
    | _, _ => bad
  | ["data", name, v] =>
    match name.toNat?, parseJson v with
    | some nm, some (.str _) => (fun (_ : Nat) => bad) nm      -- a str body is `s=`
    | some nm, some j => exec st (.newData j) fun s n => { s with datas := (nm, n) :: s.datas }
    | _, _ => bad
  | ["pairs", name, _kind, kvs] =>
    match name.toNat?, parseTypedPairs kvs with
    | some nm, some d => exec st (.newParams d) fun s n => { s with dicts := (nm, n) :: s.dicts }
    | _, _ => bad
  | ["class", name, mro, bases, pmap, wrappers] =>
    -- the class's own name stands first in its mro: bind it to the reference it is going to get
    let self := st.heap.classes.length
    match name.toNat?, (if pmap = "~" then some none else (parsePairs pmap).map some), parseWrappers wrappers with
    | some nm, some pm, some ws =>
      match parseNames ((nm, self) :: st.classes) mro, parseNames st.classes bases with
      | some m, some b => exec st (.newClass b m pm ws.1 ws.2) fun s n => { s with classes := (nm, n) :: s.classes }
      | _, _ => bad
    | _, _, _ => bad
  | ["caller", name, target, cls] =>
    match name.toNat?, parseTarget st target, cls.toNat?.bind (find st.classes) with
    | some nm, some t, some c => exec st (.newCaller t c) fun s n => { s with callers := (nm, n) :: s.callers }
    | _, _, _ => bad
  | ["clone", name, k, own] =>
    match name.toNat?, k.toNat?.bind (find st.callers), parseOwn st own with
    | some nm, some kr, some o => exec st (.clone kr o) fun s n => { s with callers := (nm, n) :: s.callers }
    | _, _, _ => bad
  | ["connof", name, k] =>
    match name.toNat?, k.toNat?.bind (find st.callers) with
    | some nm, some kr => exec st (.connOf kr) fun s n => { s with conns := (nm, n) :: s.conns }
    | _, _ => bad
  | ["cached", name, k, pfx] =>
    match name.toNat?, k.toNat?.bind (find st.callers), parseCps pfx with
    | some nm, some kr, some p => exec st (.cached kr p) fun s n => { s with conns := (nm, n) :: s.conns }
    | _, _, _ => bad
  | "call" :: k :: m :: rest =>
    match k.toNat?.bind (find st.callers), parseCps m, parseArgs st rest with
    | some kr, some mn, some a => exec st (.call kr mn a) noBind
    | _, _, _ => bad
  | "req" :: c :: rest =>
    match c.toNat?.bind (find st.conns), parseArgs st rest with
    | some cr, some a => exec st (.request cr a) noBind
    | _, _ => bad
  | _ => bad

def main : IO Unit := runS handle St.init
