import AkVerif.Model.Proto
import AkVerif.Model.CliArgs
import AkVerif.Gen.C19
open Ak Ak.Proto CliGraph

/-! Line protocol of C19 (stateful: one `ArgParser` per case).

```
new <sw> <default|-> <decl>...     -> ok | err AssertionError     (sw = three bits: _no_log, _no_log_file, _help_if_no_args)
single <sw>                        -> ok                          (ArgParser without commands)
deps                               -> deps <name>:<dep>/<dep> ...        (internal, diagnostic)
opt <parser|*> <flag|flagoff|const=V|value|pos1|pos?|pos*|pos+>[!][@dest] [+keyword…] <string>...   (value=D: default D; '!': required=True)   -> ok | err ArgumentError | err ValueError | err AssertionError
parse <token>...                   -> ok <dest>=<value> ... | err SystemExit <code> | err <Exception>
parsev <token>...                  -> like parse, through parse_args() with sys.argv set
parse2 <token>...                  -> <reply of parse> | <reply of a second parse_args with the same list object>
lst <token>...                     -> L:<the caller's list after parse_args>                        (diagnostic)
```
strings are comma separated code points. After a failed `opt` the parser object is abandoned
(`poisoned`); without a successfully built parser every line answers `no-parser`. -/

inductive DSt where
  | empty
  | ready (ap : ArgP)
  | poisoned

def cfg : Cfg := Gen.C19.cfg

def isLower (c : Char) : Bool := 'a' ≤ c && c ≤ 'z'
def isWordCh (c : Char) : Bool := isLower c || c.isDigit || c = '_'

/-- option strings the model's `classify` is meant for: `-x`, `--name`, positional `name` -/
def optStringOk (pos : Bool) (s : Name) : Bool :=
  if pos then
    match s with
    | c :: r => isLower c && r.all isWordCh
    | [] => false
  else
    match s with
    | ['-', c] => isLower c
    | '-' :: '-' :: c :: r => isLower c && r.all (fun x => isWordCh x || x = '-')
    | _ => false

def tokOk (t : Name) : Bool :=
  t.all (fun c => c.isAlphanum || c = '-' || c = '=' || c = '_')

def ltName : Name → Name → Bool
  | [], [] => false
  | [], _ :: _ => true
  | _ :: _, [] => false
  | a :: as, b :: bs => a.toNat < b.toNat || (a == b && ltName as bs)

def insertSorted (p : Name × Val) : Ns → Ns
  | [] => [p]
  | q :: r => if ltName p.1 q.1 then p :: q :: r else q :: insertSorted p r

def sortNs (ns : Ns) : Ns := ns.foldl (fun acc p => insertSorted p acc) []

def showVal : Val → String
  | .bool true => "T"
  | .bool false => "F"
  | .none => "N"
  | .str s => "s:" ++ showCps s
  | .nat n => "n:" ++ toString n
  | .list l => "l:" ++ "/".intercalate (l.map showCps)

def showNs (ns : Ns) : String :=
  " ".intercalate ((sortNs ns).map fun p => showCps p.1 ++ "=" ++ showVal p.2)

def showFail : Fail → String
  | .exc e => "err " ++ e.name
  | .argumentError => "err ArgumentError"
  | .exit c => "err SystemExit " ++ toString c
  | .ood => "ood"

def parseStrs (l : List String) : Option (List Name) := l.mapM parseCps

def parseSw (t : String) : Option (Bool × Switches) :=
  match t.toList with
  | [a, b, c] =>
    if [a, b, c].all (fun x => x = '0' || x = '1') then
      some (a = '1', { noLogFile := b = '1', helpIfNoArgs := c = '1' })
    else none
  | _ => none

def showRes : Except Fail Ns → String
  | .ok ns => "ok " ++ showNs ns
  | .error e => showFail e

def showList (l : List (Option Name)) : String :=
  "L:" ++ "/".intercalate (l.map fun x => match x with | some n => showCps n | none => "N")

/-- `flag`, `flagoff`, `const=<cps>`, `value`, `pos1`, `pos?`, `pos*`, `pos+`, each optionally followed by `@<dest cps>` -/
def parseKind (t : String) : Option (Kind × Option Name × Bool × Option Name) :=
  let parts := t.splitOn "@"
  let dest : Option (Option Name) := match parts with
    | [_] => some none
    | [_, d] => (parseCps d).map some
    | _ => none
  let k0 := match parts with
    | k :: _ => k
    | [] => ""
  let req := k0.endsWith "!"
  let k := if req then (k0.dropEnd 1).toString else k0
  let kind : Option (Kind × Option Name) :=
    if k = "flag" then some (.flag, none) else if k = "flagoff" then some (.flagOff, none)
    else if k = "value" then some (.value, none)
    else if k = "pos1" then some (.pos .one, none) else if k = "pos?" then some (.pos .opt, none)
    else if k = "pos*" then some (.pos .star, none) else if k = "pos+" then some (.pos .plus, none)
    else if k.startsWith "const=" then (parseCps (k.drop 6).toString).map (fun v => (Kind.const v, none))
    else if k.startsWith "value=" then (parseCps (k.drop 6).toString).map (fun v => (Kind.value, some v))
    else none
  match kind, dest with
  | some (kd, df), some d => some (kd, d, req, df)
  | _, _ => none

def handle (s : DSt) (line : String) : DSt × String :=
  match splitWs line with
  | ["reset"] => (.empty, "ok")
  | "new" :: sw :: dflt :: decls =>
    match parseSw sw, (if dflt = "-" then some none else (parseCps dflt).map some), parseStrs decls with
    | some (noLog, sw), some d, some ds =>
      match build cfg noLog d (ds.map parseDecl) with
      | .ok st => (.ready { sw := sw, mode := .multi st }, "ok")
      | .error e => (.empty, "err " ++ e.name)
    | _, _, _ => (s, "bad-op")
  | ["single", sw] =>
    match parseSw sw with
    | some (noLog, sw) => (.ready { sw := sw, mode := .single (buildSingle cfg noLog) }, "ok")
    | none => (s, "bad-op")
  | ["deps"] =>
    match s with
    | .ready ap =>
      match ap.mode with
      | .multi st =>
        (s, " ".intercalate ("deps" :: st.parsers.map fun q =>
          showCps q.name ++ ":" ++ "/".intercalate (q.deps.reverse.map showCps)))
      | .single _ => (s, "deps")
    | .poisoned => (s, "poisoned")
    | .empty => (s, "no-parser")
  | "opt" :: target :: kind :: strs0 =>
    -- tokens `+help=…`, `+metavar`, `+type` … are keywords that do not decide the option's kind: opaque data,
    -- neither `declare` nor `addOption` inspects them
    let strs := strs0.filter (fun t => !t.startsWith "+")
    match s with
    | .empty => (s, "no-parser")
    | .poisoned => (s, "poisoned")
    | .ready ap =>
      match (if target = "*" then some none else (parseCps target).map some), parseKind kind, parseStrs strs with
      | some tg, some (k, dst, req, df), some ss =>
        if ss.isEmpty || !(ss.all (optStringOk k.isPos)) || (k.isPos && (ss.length != 1 || dst.isSome))
            || !ss.Nodup || (k.isPos && req) then (s, "bad-op")
        else
          match ap.addOption tg { strings := ss, kind := k, mutex := false, dest := dst, required := req, dflt := df } with
          | .ok ap' => (.ready ap', "ok")
          | .error (.exc e) => (s, "err " ++ e.name)      -- get_cmd_parser failed: nothing was touched
          | .error e => (.poisoned, showFail e)
      | _, _, _ => (s, "bad-op")
  | "parsev" :: toks =>          -- parse_args() reading sys.argv: the same vector, a private copy
    match s with
    | .empty => (s, "no-parser")
    | .poisoned => (s, "poisoned")
    | .ready ap =>
      match parseStrs toks with
      | some ts =>
        if !(ts.all tokOk) then (s, "bad-op")
        else (s, showRes (parseList cfg ap (ts.map some)).1)
      | none => (s, "bad-op")
  | "parse" :: toks =>
    match s with
    | .empty => (s, "no-parser")
    | .poisoned => (s, "poisoned")
    | .ready ap =>
      match parseStrs toks with
      | some ts =>
        if !(ts.all tokOk) then (s, "bad-op")
        else (s, showRes (parseList cfg ap (ts.map some)).1)
      | none => (s, "bad-op")
  | "parse2" :: toks =>
    match s with
    | .empty => (s, "no-parser")
    | .poisoned => (s, "poisoned")
    | .ready ap =>
      match parseStrs toks with
      | some ts =>
        if !(ts.all tokOk) then (s, "bad-op")
        else
          let r1 := parseList cfg ap (ts.map some)
          let r2 := parseList cfg ap r1.2
          (s, showRes r1.1 ++ " | " ++ showRes r2.1)
      | none => (s, "bad-op")
  | "lst" :: toks =>
    match s with
    | .empty => (s, "no-parser")
    | .poisoned => (s, "poisoned")
    | .ready ap =>
      match parseStrs toks with
      | some ts =>
        if !(ts.all tokOk) then (s, "bad-op")
        else (s, showList (parseList cfg ap (ts.map some)).2)
      | none => (s, "bad-op")
  | _ => (s, "bad-op")

def main : IO Unit := runS handle DSt.empty
