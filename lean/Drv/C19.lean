import AkVerif.Model.Proto
import AkVerif.Model.CliGraph
import AkVerif.Gen.C19
open Ak Ak.Proto CliGraph

/-! Line protocol of C19 (stateful: one `ArgParser` per case).

```
new <default|-> <decl>...          -> ok | err AssertionError
deps                               -> deps <name>:<dep>/<dep> ...        (internal, diagnostic)
opt <parser|*> <flag|value|pos> <string>...   -> ok | err ArgumentError | err ValueError
parse <token>...                   -> ok <dest>=<value> ... | err SystemExit <code> | err <Exception>
```
strings are comma separated code points. After a failed `opt` the parser object is abandoned
(`poisoned`); without a successfully built parser every line answers `no-parser`. -/

inductive DSt where
  | empty
  | ready (st : St)
  | poisoned

def cfg : Cfg := Gen.C19.cfg

def isLower (c : Char) : Bool := 'a' ≤ c && c ≤ 'z'
def isWordCh (c : Char) : Bool := isLower c || c.isDigit || c = '_'

/-- option strings the model's `classify` is meant for: `-x`, `--name`, positional `name` -/
def optStringOk (pos : Bool) (s : Name) : Bool :=
  if pos then
    match s with
    | c :: r => isLower c && r.all isWordCh
    | [] => false
  else
    match s with
    | ['-', c] => isLower c
    | '-' :: '-' :: c :: r => isLower c && r.all (fun x => isWordCh x || x = '-')
    | _ => false

def tokOk (t : Name) : Bool :=
  t.all (fun c => c.isAlphanum || c = '-' || c = '=' || c = '_') && t != ['-', '-']

def ltName : Name → Name → Bool
  | [], [] => false
  | [], _ :: _ => true
  | _ :: _, [] => false
  | a :: as, b :: bs => a.toNat < b.toNat || (a == b && ltName as bs)

def insertSorted (p : Name × Val) : Ns → Ns
  | [] => [p]
  | q :: r => if ltName p.1 q.1 then p :: q :: r else q :: insertSorted p r

def sortNs (ns : Ns) : Ns := ns.foldl (fun acc p => insertSorted p acc) []

def showVal : Val → String
  | .bool true => "T"
  | .bool false => "F"
  | .none => "N"
  | .str s => "s:" ++ showCps s
  | .nat n => "n:" ++ toString n
  | .list l => "l:" ++ "/".intercalate (l.map showCps)

def showNs (ns : Ns) : String :=
  " ".intercalate ((sortNs ns).map fun p => showCps p.1 ++ "=" ++ showVal p.2)

def showFail : Fail → String
  | .exc e => "err " ++ e.name
  | .argumentError => "err ArgumentError"
  | .exit c => "err SystemExit " ++ toString c
  | .ood => "ood"

def parseStrs (l : List String) : Option (List Name) := l.mapM parseCps

def handle (s : DSt) (line : String) : DSt × String :=
  match splitWs line with
  | ["reset"] => (.empty, "ok")
  | "new" :: dflt :: decls =>
    match (if dflt = "-" then some none else (parseCps dflt).map some), parseStrs decls with
    | some d, some ds =>
      match build cfg d (ds.map parseDecl) with
      | .ok st => (.ready st, "ok")
      | .error e => (.empty, "err " ++ e.name)
    | _, _ => (s, "bad-op")
  | ["deps"] =>
    match s with
    | .ready st =>
      (s, " ".intercalate ("deps" :: st.parsers.map fun q =>
        showCps q.name ++ ":" ++ "/".intercalate (q.deps.map showCps)))
    | .poisoned => (s, "poisoned")
    | .empty => (s, "no-parser")
  | "opt" :: target :: kind :: strs =>
    match s with
    | .empty => (s, "no-parser")
    | .poisoned => (s, "poisoned")
    | .ready st =>
      let k : Option Kind := if kind = "flag" then some .flag else if kind = "value" then some .value
        else if kind = "pos" then some .pos else none
      match (if target = "*" then some none else (parseCps target).map some), k, parseStrs strs with
      | some tg, some k, some ss =>
        if ss.isEmpty || !(ss.all (optStringOk (k == .pos))) || (k == .pos && ss.length != 1) then (s, "bad-op")
        else
          match addOption st tg { strings := ss, kind := k, mutex := false } with
          | .ok st' => (.ready st', "ok")
          | .error (.exc e) => (s, "err " ++ e.name)      -- get_cmd_parser failed: nothing was touched
          | .error e => (.poisoned, showFail e)
      | _, _, _ => (s, "bad-op")
  | "parse" :: toks =>
    match s with
    | .empty => (s, "no-parser")
    | .poisoned => (s, "poisoned")
    | .ready st =>
      match parseStrs toks with
      | some ts =>
        if !(ts.all tokOk) then (s, "bad-op")
        else match parseArgs cfg st ts with
          | .ok ns => (s, "ok " ++ showNs ns)
          | .error e => (s, showFail e)
      | none => (s, "bad-op")
  | _ => (s, "bad-op")

def main : IO Unit := runS handle DSt.empty
