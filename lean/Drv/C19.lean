import AkVerif.Model.Proto
import AkVerif.Model.CliArgs
import AkVerif.Gen.C19
open Ak Ak.Proto CliGraph

/-! Line protocol of C19 (stateful: one `ArgParser` per case).

```
new <sw> <default|-> <decl>...     -> ok | err AssertionError     (sw = three bits: _no_log, _no_log_file, _help_if_no_args)
single <sw>                        -> ok                          (ArgParser without commands)
deps                               -> deps <name>:<dep>/<dep> ...        (internal, diagnostic)
opt <parser|*> <flag|flagoff|const=V|value|ivalue|cvalue=A/B..|help|version=V|pos1|pos?|pos*|pos+>[!][@dest] [+keyword…] <string>...   (value=D: default D; ivalue: type=int; cvalue=A/B: choices=[A,B]; '!': required=True)   -> ok | err ArgumentError | err ValueError | err AssertionError
optg <parser> <mutex|plain> <kind as above> [+keyword…] <string>...   the same through get_cmd_parser(p).add_mutually_exclusive_group() / .add_argument_group()
parse <token>...                   -> ok <dest>=<value> ... | err SystemExit <code> | err SystemExit 0 V:<version text> | err <Exception>
parset <token>...                  -> like parse, the arguments passed as a tuple
parsev <token>...                  -> like parse, through parse_args() with sys.argv set
parse2 <token>...                  -> <reply of parse> | <reply of a second parse_args with the same list object>
lst <token>...                     -> L:<the caller's list after parse_args>
```
strings are comma separated code points. After a failed `opt` the parser object is abandoned
(`poisoned`); without a successfully built parser every line answers `no-parser`. -/

inductive DSt where
  | empty
  | ready (ap : ArgP)
  | poisoned

def cfg : Cfg := Gen.C19.cfg

def isLower (c : Char) : Bool := 'a' ≤ c && c ≤ 'z'
def isWordCh (c : Char) : Bool := isLower c || c.isDigit || c = '_'

/-- option strings the model's `classify` is meant for: `-x`, `--name`, positional `name` -/
def optStringOk (pos : Bool) (s : Name) : Bool :=
  if pos then
    match s with
    | c :: r => isLower c && r.all isWordCh
    | [] => false
  else
    match s with
    | ['-', c] => isLower c || c.isUpper
    | '-' :: '-' :: c :: r => isLower c && r.all (fun x => isWordCh x || x = '-')
    | _ => false

def tokOk (t : Name) : Bool :=
  t.all (fun c => c.isAlphanum || c = '-' || c = '=' || c = '_')

def ltName : Name → Name → Bool
  | [], [] => false
  | [], _ :: _ => true
  | _ :: _, [] => false
  | a :: as, b :: bs => a.toNat < b.toNat || (a == b && ltName as bs)

def insertSorted (p : Name × Val) : Ns → Ns
  | [] => [p]
  | q :: r => if ltName p.1 q.1 then p :: q :: r else q :: insertSorted p r

def sortNs (ns : Ns) : Ns := ns.foldl (fun acc p => insertSorted p acc) []

def showVal : Val → String
  | .bool true => "T"
  | .bool false => "F"
  | .none => "N"
  | .str s => "s:" ++ showCps s
  | .nat n => "n:" ++ toString n
  | .int i => "n:" ++ toString i
  | .list l => "l:" ++ "/".intercalate (l.map showCps)

def showNs (ns : Ns) : String :=
  " ".intercalate ((sortNs ns).map fun p => showCps p.1 ++ "=" ++ showVal p.2)

def showFail : Fail → String
  | .exc e => "err " ++ e.name
  | .argumentError => "err ArgumentError"
  | .exit c => "err SystemExit " ++ toString c
  | .version v => "err SystemExit 0 V:" ++ showCps v
  | .ood => "ood"

def parseStrs (l : List String) : Option (List Name) := l.mapM parseCps

def parseSw (t : String) : Option (Bool × Switches) :=
  match t.toList with
  | [a, b, c] =>
    if [a, b, c].all (fun x => x = '0' || x = '1') then
      some (a = '1', { noLogFile := b = '1', helpIfNoArgs := c = '1' })
    else none
  | _ => none

def showRes : Except Fail Ns → String
  | .ok ns => "ok " ++ showNs ns
  | .error e => showFail e

def showList (l : List (Option Name)) : String :=
  "L:" ++ "/".intercalate (l.map fun x => match x with | some n => showCps n | none => "N")

/-- `flag`, `flagoff`, `const=<cps>`, `value`, `pos1`, `pos?`, `pos*`, `pos+`, each optionally followed by `@<dest cps>` -/
def parseKind (t : String) : Option (Kind × Option Name × Bool × Option Name × Conv) :=
  let parts := t.splitOn "@"
  let dest : Option (Option Name) := match parts with
    | [_] => some none
    | [_, d] => (parseCps d).map some
    | _ => none
  let k0 := match parts with
    | k :: _ => k
    | [] => ""
  let req := k0.endsWith "!"
  let k := if req then (k0.dropEnd 1).toString else k0
  let kind : Option (Kind × Option Name × Conv) :=
    if k = "flag" then some (.flag, none, .str) else if k = "flagoff" then some (.flagOff, none, .str)
    else if k = "value" then some (.value, none, .str)
    else if k = "ivalue" then some (.value, none, .int)
    else if k.startsWith "cvalue=" then
      (((k.drop 7).toString.splitOn "/").mapM parseCps).map (fun l => (Kind.value, none, Conv.oneOf l))
    else if k = "help" then some (.help, none, .str)
    else if k.startsWith "version=" then (parseCps (k.drop 8).toString).map (fun v => (Kind.version v, none, .str))
    else if k = "pos1" then some (.pos .one, none, .str) else if k = "pos?" then some (.pos .opt, none, .str)
    else if k = "pos*" then some (.pos .star, none, .str) else if k = "pos+" then some (.pos .plus, none, .str)
    else if k.startsWith "const=" then (parseCps (k.drop 6).toString).map (fun v => (Kind.const v, none, .str))
    else if k.startsWith "value=" then (parseCps (k.drop 6).toString).map (fun v => (Kind.value, some v, .str))
    else none
  match kind, dest with
  | some (kd, df, cv), some d => some (kd, d, req, df, cv)
  | _, _ => none

/-- the checks on an `opt` / `optg` request (ASSUMPTIONS of the harness) and the spec it describes -/
def mkSpec (kind : String) (strs0 : List String) : Option OptSpec :=
  -- tokens `+help=…`, `+metavar`, `+type` … are keywords that do not decide the option's kind: opaque data,
  -- neither `declare` nor `addOption` inspects them
  let strs := strs0.filter (fun t => !t.startsWith "+")
  match parseKind kind, parseStrs strs with
  | some (k, dst, req, df, cv), some ss =>
    if ss.isEmpty || !(ss.all (optStringOk k.isPos)) || (k.isPos && (ss.length != 1 || dst.isSome))
        || !ss.Nodup || (k.isPos && req) || (k.isInfo && (req || dst.isSome)) then none
    else some { strings := ss, kind := k, mutex := false, dest := dst, required := req, dflt := df, conv := cv }
  | _, _ => none

def parseWith (s : DSt) (toks : List String) (f : ArgP → List (Option Name) → String) : DSt × String :=
  match s with
  | .empty => (s, "no-parser")
  | .poisoned => (s, "poisoned")
  | .ready ap =>
    match parseStrs toks with
    | some ts => if !(ts.all tokOk) then (s, "bad-op") else (s, f ap (ts.map some))
    | none => (s, "bad-op")

def handle (s : DSt) (line : String) : DSt × String :=
  match splitWs line with
  | ["reset"] => (.empty, "ok")
  | "new" :: sw :: dflt :: decls =>
    match parseSw sw, (if dflt = "-" then some none else (parseCps dflt).map some), parseStrs decls with
    | some (noLog, sw), some d, some ds =>
      match build cfg noLog d (ds.map parseDecl) with
      | .ok st => (.ready { sw := sw, mode := .multi st }, "ok")
      | .error e => (.empty, "err " ++ e.name)
    | _, _, _ => (s, "bad-op")
  | ["single", sw] =>
    match parseSw sw with
    | some (noLog, sw) => (.ready { sw := sw, mode := .single (buildSingle cfg noLog) }, "ok")
    | none => (s, "bad-op")
  | ["deps"] =>
    match s with
    | .ready ap =>
      match ap.mode with
      | .multi st =>
        (s, " ".intercalate ("deps" :: st.parsers.map fun q =>
          showCps q.name ++ ":" ++ "/".intercalate (q.deps.reverse.map showCps)))
      | .single _ => (s, "deps")
    | .poisoned => (s, "poisoned")
    | .empty => (s, "no-parser")
  | "opt" :: target :: kind :: strs0 =>
    match s with
    | .empty => (s, "no-parser")
    | .poisoned => (s, "poisoned")
    | .ready ap =>
      match (if target = "*" then some none else (parseCps target).map some), mkSpec kind strs0 with
      | some tg, some spec =>
        match ap.addOption tg spec with
        | .ok ap' => (.ready ap', "ok")
        | .error (.exc e) => (s, "err " ++ e.name)      -- get_cmd_parser failed: nothing was touched
        | .error e => (.poisoned, showFail e)
      | _, _ => (s, "bad-op")
  | "optg" :: target :: grp :: kind :: strs0 =>
    match s with
    | .empty => (s, "no-parser")
    | .poisoned => (s, "poisoned")
    | .ready ap =>
      -- one fresh group per request, so a mutually exclusive group has a single member and excludes nothing
      match parseCps target, mkSpec kind strs0, (grp = "mutex" || grp = "plain") with
      | some tg, some spec, true =>
        if spec.kind.isPos && grp = "mutex" then (s, "bad-op")     -- argparse: mutually exclusive arguments must be optional
        else
          match ap.addViaGroup tg spec with
          | .ok ap' => (.ready ap', "ok")
          | .error (.exc e) => (s, "err " ++ e.name)
          | .error e => (.poisoned, showFail e)
      | _, _, _ => (s, "bad-op")
  | "parsev" :: toks =>          -- parse_args() reading sys.argv: the same vector, a private copy
    parseWith s toks fun ap l => showRes (parseList cfg ap l).1
  | "parse" :: toks => parseWith s toks fun ap l => showRes (parseCall cfg ap false l).1
  | "parset" :: toks => parseWith s toks fun ap l => showRes (parseCall cfg ap true l).1
  | "parse2" :: toks =>
    parseWith s toks fun ap l =>
      let r1 := parseCall cfg ap false l
      let r2 := parseCall cfg ap false r1.2
      showRes r1.1 ++ " | " ++ showRes r2.1
  | "lst" :: toks => parseWith s toks fun ap l => showList (parseCall cfg ap false l).2
  | _ => (s, "bad-op")

def main : IO Unit := runS handle DSt.empty
