import AkVerif.Model.Proto
import AkVerif.Model.SrcPos
import AkVerif.Model.SrcPosCompose
import AkVerif.Gen.C04
open Ak Ak.Proto SrcPos

def B : Bases := Gen.C04.bases
def ws : Char → Bool := Gen.C04.isSpace

/-! request parsing -/

def parseEntry (s : String) : Option (Option Match) :=
  if s = "x" then some none else
  match parseNatList s with
  | some [a, b, c, d] => some (some ⟨a, b, c, d⟩)
  | _ => none

def parseRow (s : String) : Option (List (Option Match)) :=
  if s = "-" then some [] else (s.splitOn ":").mapM parseEntry

def parseLineTbl (s : String) : Option LineTbl :=
  match (s.splitOn "|").mapM parseRow with
  | some (n :: bs) => some ⟨n, bs⟩
  | _ => none

def parseTable (s : String) : Option (List LineTbl) :=
  if s = "!" then some [] else (s.splitOn ";").mapM parseLineTbl

def parseInput (kind data : String) : Option Input :=
  if kind = "s" then (parseCps data).map Input.str
  else if kind = "l" ∨ kind = "t" then     -- list of lines / any other iterable of lines
    if data = "!" then some (Input.lines []) else ((data.splitOn ";").mapM parseCps).map Input.lines
  else none

def parsePair (s : String) : Option (Nat × Nat) :=
  match (s.splitOn ":").mapM (·.toNat?) with
  | some [a, b] => some (a, b)
  | _ => none

def parseSyn (s : String) : Option (List (Nat × Nat)) :=
  if s = "-" then some [] else (s.splitOn ";").mapM parsePair

def parseKwEntry (s : String) : Option ((Nat × List Char) × Nat) :=
  match s.splitOn ":" with
  | [a, v, b] =>
    match a.toNat?, parseCps v, b.toNat? with
    | some a, some v, some b => some ((a, v), b)
    | _, _, _ => none
  | _ => none

def parseKw (s : String) : Option (List ((Nat × List Char) × Nat)) :=
  if s = "-" then some [] else (s.splitOn ";").mapM parseKwEntry

def parseCfg (spans syn kw endN : String) : Option Cfg :=
  match parseNatList spans, parseSyn syn, parseKw kw, endN.toNat? with
  | some a, some b, some c, some d => some ⟨a, b, c, d⟩
  | _, _, _, _ => none

def Forest.ofList : List Tree → Forest
  | [] => .nil
  | t :: ts => .cons t (Forest.ofList ts)

/-- `(t(te)e)` → tree; the stack holds the reversed child lists of the open nodes -/
def parseShape : List Char → List (List Tree) → Option Tree
  | [], [[r]] => some r
  | [], _ => none
  | c :: cs, st =>
    match st with
    | [] => none
    | top :: rest =>
      if c = '(' then parseShape cs ([] :: top :: rest)
      else if c = 't' then parseShape cs ((Tree.tok :: top) :: rest)
      else if c = 'e' then parseShape cs ((Tree.nul :: top) :: rest)
      else if c = ')' then
        match rest with
        | [] => none
        | up :: rest' => parseShape cs ((Tree.node (Forest.ofList top.reverse) :: up) :: rest')
      else none

/-! replies -/

def showSpan (s e : Pos) : String :=
  s!"{s.line}.{s.col}.{e.line}.{e.col}"

def showOrig : Except Err (List Char) → String
  | .ok t => showCps t
  | .error e => "!" ++ e.name

def showTokErr : TokErr → String
  | .lexical p => s!"err LexicalError {p.line} {p.col}"
  | .py e => "err " ++ e.name

def withOrig (inp : Input) (s e : Pos) : String :=
  showSpan s e ++ "/" ++ showOrig (getOrigText B (origLines inp) s e)

def showVal : Option (List Char) → String
  | none => "~"
  | some v => showCps v

def runTok (cfg : Cfg) (inp : Input) (tbl : List LineTbl) : Option (Except TokErr (List Tok)) :=
  let lines := tokLines ws inp
  if tableOk cfg.spanKinds lines tbl then
    some (tokenize B cfg (reOfTable cfg.spanKinds tbl) lines)
  else none

/-! composition with the LL model: the driver builds the parser (`LL.construct`) from the productions,
tokenizes with the C04 model and runs the positioned stack machine `runP` -/

def parseNames (s : String) : Option (List (List Char)) :=
  (s.splitOn "|").mapM parseCps

def parseAlt (s : String) : Option (List Nat) :=
  if s = "~" then some [] else (s.splitOn ".").mapM (·.toNat?)

def parseProdsIds (s : String) : Option (List (Nat × List (List Nat))) :=
  if s = "-" then some [] else
  (s.splitOn ";").mapM fun it =>
    match it.splitOn "=" with
    | [n, alts] =>
      match n.toNat?, (if alts = "" then some [] else (alts.splitOn "|").mapM parseAlt) with
      | some n, some a => some (n, a)
      | _, _ => none
    | _ => none

def parseSkipIds (s : String) : Option (Option (List Nat)) :=
  if s = "-" then some none
  else if s = "()" then some (some [])
  else (parseNatList s).map some

def namesOf (names : List (List Char)) (ids : List Nat) : Option (List (List Char)) :=
  ids.mapM fun i => names[i]?

def mkCtor (names : List (List Char)) (cfg : Cfg) (groups : List Nat) (skip : Option (List Nat))
    (start : Nat) (prods : List (Nat × List (List Nat))) (smart : Bool) : Option LL.CtorIn := do
  let groups ← namesOf names groups
  let syn ← cfg.synonyms.mapM fun (a, b) => do pure ((← names[a]?), (← names[b]?))
  let kw ← cfg.keywords.mapM fun ((a, v), b) => do pure (((← names[a]?), v), (← names[b]?))
  let skip ← match skip with
    | none => some none
    | some l => (namesOf names l).map some
  let start ← names[start]?
  let prods ← prods.mapM fun (n, alts) => do
    pure ((← names[n]?), (← alts.mapM fun a => namesOf names a))
  pure { groups := groups, syn := syn, kw := kw, skip := skip, start := start, prods := prods, smart := smart }

def showParseErr : ParseErr → String
  | .parsing p => s!"err ParsingError {p.line} {p.col}"
  | .py e => "err " ++ e.name

def handlePtree (smart spans syn kw endN ik idata tbl names groups skip start prods : String) : String :=
  match parseCfg spans syn kw endN, parseInput ik idata, parseTable tbl, parseNames names,
      parseNatList groups, parseSkipIds skip, start.toNat?, parseProdsIds prods with
  | some cfg, some inp, some tbl, some names, some groups, some skip, some start, some prods =>
    match mkCtor names cfg groups skip start prods (smart = "smart=1") with
    | none => "bad-op"
    | some ctor =>
      match LL.construct ctor with
      | .error e => "err " ++ e.name
      | .ok P =>
        -- hypotheses of `C04.parse_node_span`, checked on every request
        if ¬ parserOk P then "bad-grammar" else
        let lines := tokLines ws inp
        if ¬ tableOk cfg.spanKinds lines tbl then "bad-table" else
        match parseText B names cfg (reOfTable cfg.spanKinds tbl) P lines parseFuel with
        | .lex p => showTokErr (.lexical p)
        | .tokErr e => showTokErr (.py e)
        | .noNames => "bad-op"
        | .parsed (.error e) => showParseErr e
        | .parsed (.ok t) => "ok " ++ ";".intercalate (t.preorder.map fun sp => withOrig inp sp.s sp.e)
  | _, _, _, _, _, _, _, _ => "bad-op"

/-- a sequence of `get_orig_text` calls with several texts: the model has no memory, every call is answered
from its own text -/
def handleGseq (texts calls : String) : String :=
  match (texts.splitOn "|").mapM parseCps,
      (calls.splitOn ";").mapM (fun c => (c.splitOn ".").mapM (·.toNat?)) with
  | some texts, some calls =>
    let rs := calls.map fun c =>
      match c with
      | [ti, sl, sc, el, ec] =>
        match texts[ti]? with
        | some t => showOrig (getOrigText B (origLines (.str t)) ⟨sl, sc⟩ ⟨el, ec⟩)
        | none => "?"
      | _ => "?"
    "ok " ++ ";".intercalate rs
  | _, _ => "bad-op"

def handle (line : String) : String :=
  match splitWs line with
  | [op, _cfgid, spans, syn, kw, endN, ik, idata, tbl] =>
    if op = "tok" ∨ op = "tokv" then
      match parseCfg spans syn kw endN, parseInput ik idata, parseTable tbl with
      | some cfg, some inp, some tbl =>
        match runTok cfg inp tbl with
        | none => "bad-table"
        | some (.error x) => showTokErr x
        | some (.ok ts) =>
          if op = "tok" then "ok " ++ ";".intercalate (ts.map fun t => withOrig inp t.s t.e)
          else "ok " ++ ";".intercalate (ts.map fun t => s!"{t.name}:{showVal t.val}")
      | _, _, _ => "bad-op"
    else "bad-op"
  | ["got", ik, idata, sl, sc, el, ec] =>
    match parseInput ik idata, sl.toNat?, sc.toNat?, el.toNat?, ec.toNat? with
    | some inp, some sl, some sc, some el, some ec =>
      showExcept showCps (getOrigText B (origLines inp) ⟨sl, sc⟩ ⟨el, ec⟩)
    | _, _, _, _, _ => "bad-op"
  | [op, _cfgid, _gid, _smart, spans, syn, kw, endN, skip, ik, idata, tbl, shape] =>
    -- `tree`: the tree `parse` returned; `ctree`: its `clone()` — a copy carries the same spans
    if op ≠ "tree" ∧ op ≠ "ctree" then "bad-op" else
    match parseCfg spans syn kw endN, parseNatList skip, parseInput ik idata, parseTable tbl,
        parseShape shape.toList [[]] with
    | some cfg, some skip, some inp, some tbl, some tree =>
      match runTok cfg inp tbl with
      | none => "bad-table"
      | some (.error x) => showTokErr x
      | some (.ok ts) =>
        match spanT ((dropSkipped skip ts).map Tok.span) tree 0 with
        | .error e => "err " ++ e.name
        | .ok (_, _, all) => "ok " ++ ";".intercalate (all.map fun n => withOrig inp n.span.s n.span.e)
    | _, _, _, _, _ => "bad-op"
  | ["gseq", texts, calls] => handleGseq texts calls
  | ["plex", _cfgid, _gid, _smart, spans, syn, kw, endN, ik, idata, tbl] =>
    -- the tokenization outcome of `parse(text)`, whatever the grammar: LexicalError or "tokenized"
    match parseCfg spans syn kw endN, parseInput ik idata, parseTable tbl with
    | some cfg, some inp, some tbl =>
      match runTok cfg inp tbl with
      | none => "bad-table"
      | some (.error x) => showTokErr x
      | some (.ok _) => "ok"
    | _, _, _ => "bad-op"
  | ["ptree", _cfgid, _gid, smart, spans, syn, kw, endN, ik, idata, tbl, names, groups, skip, start, prods] =>
    handlePtree smart spans syn kw endN ik idata tbl names groups skip start prods
  | _ => "bad-op"

def main : IO Unit := run handle
