import AkVerif.Model.LLDriver
/-! driver of C02: the shared LL handler (grammar construction, parse, diagnostics) -/
def main : IO Unit := Ak.Proto.runS LL.Drv.handle {}
