import AkVerif.Lemmas.CliGraphInfo
/-!
# C19 — command options are inherited exactly along the declared command graph

Property theorems only. `cfg` is *generated from the source* (`Gen.C19`): the standard options of
`_mk_std_args` with and without `_no_log` (plus argparse's help option) and the collection the first
argument is compared with in `parse_args`.

Vocabulary: `ds` is the parsed `commands=` list, `Anc ds a c` the transitive closure of "`c` names `a`
as a parent", `WF [] ds` says names are non-empty and distinct and parents refer to earlier entries,
`adds` is the history of `add_argument` calls (`none` = on the `ArgParser`, `some p` = on
`get_cmd_parser(p)`), `Reach nl dflt ds adds st` says the constructor (`nl` = `_no_log`) and all those
calls succeeded. `extensions tbl t` are the option strings of a table that start with `t`
(argparse's abbreviation rule), `finishable tbl` says the table has no positional that must be given.
-/
namespace C19
open CliGraph Ak

def sV : Name := ['-', 'v']
def sVerbose : Name := ['-', '-', 'v', 'e', 'r', 'b', 'o', 's', 'e']
def sColor : Name := ['-', '-', 'c', 'o', 'l', 'o', 'r']
def sNoColor : Name := ['-', '-', 'n', 'o', '-', 'c', 'o', 'l', 'o', 'r']
def verbose : Name := ['v', 'e', 'r', 'b', 'o', 's', 'e']

/-- what the statement calls "the standard color and verbosity options" is what the source declares:
`--color`, `--no-color` (always) and `-v`, `--verbose` (unless `_no_log`) are option strings of every
fresh parser, the attribute `no_color` that `parse_args` reads exists and is false by default, and the
first-argument test of `parse_args` looks for `-h`/`--help` and for nothing else, and `parse_args` works on a
private copy of its argument. Re-decided when the source changes. -/
theorem std_shape :
    (∀ nl, ∀ s ∈ [sColor, sNoColor], s ∈ optStrings (std nl)) ∧
    (∀ s ∈ [sV, sVerbose], s ∈ optStrings (std false)) ∧
    (∀ nl, (defaults (std nl) []).get noColor = some (.bool false)) ∧
    cfg.helpFirst = [hShort, hLong] ∧ cfg.copiesArgs = true := by decide +kernel

/-! ### declaration strings -/

/-- **Declaration syntax.** A command written the documented way — optional `!`, a name without `:`
that does not itself start with `!`, then `:` and the comma separated parents (non-empty, without
commas, without surrounding blanks, all different) — is read as exactly that declaration; and whatever
the string, the parents that come out are non-empty and pairwise different (a set). -/
theorem decl_syntax :
    (∀ d : Decl, ':' ∉ d.name → d.name.head? ≠ some '!' →
      (∀ p ∈ d.parents, p ≠ [] ∧ ',' ∉ p ∧ strip p = p) → d.parents.Nodup → parseDecl (render d) = d) ∧
    (∀ s : Name, (parseDecl s).parents.Nodup ∧ ∀ p ∈ (parseDecl s).parents, p ≠ []) :=
  ⟨parseDecl_render, parseDecl_parents⟩

/-! ### construction -/

/-- **Closure.** For every non-empty list of declarations whose parents refer to earlier commands
(chains, forests, diamonds, a parent given together with one of its own ancestors, `!` sets …) the
constructor succeeds, and in every reachable state the dependents of a parser are exactly the commands
it is a proper ancestor of — the eager registration computes the transitive closure. -/
theorem closure (nl : Bool) (dflt : Option Name) (ds : List Decl) (hne : ds ≠ []) (hwf : WF [] ds) :
    (∃ st, build cfg nl dflt ds = .ok st) ∧
    ∀ adds st, Reach nl dflt ds adds st →
      names st.parsers = dnames ds ∧ ∀ q ∈ st.parsers, ∀ c, c ∈ q.deps ↔ Anc ds q.name c := by
  constructor
  · obtain ⟨ps, he, _⟩ := declareAll_ok (std := std nl) ds (inv_nil (std nl)) hwf
    have he' : declareAll (cfg.stdOf nl) [] ds = .ok ps := he
    have : build cfg nl dflt ds = .ok { parsers := ps, default := chooseDefault dflt ps } := by
      simp only [build, hne, if_false, he']
    exact ⟨_, this⟩
  · intro adds st hr
    obtain ⟨ps0, hinv, _, _, hp, _⟩ := reach_unfold hr
    rw [hp]
    constructor
    · rw [← hinv.names]
      simp only [names, List.map_map]
      exact List.map_congr_left (fun q _ => rfl)
    · intro q' hq' c
      obtain ⟨q, hq, rfl⟩ := List.mem_map.mp hq'
      exact hinv.deps q hq c

/-- The constructor succeeds **exactly** on the well-formed lists, and its only failure is
`AssertionError` (empty list, empty or repeated name, unknown / later / own name as a parent). -/
theorem build_ok_iff (nl : Bool) (dflt : Option Name) (ds : List Decl) :
    ((∃ st, build cfg nl dflt ds = .ok st) ↔ ds ≠ [] ∧ WF [] ds) ∧
    ∀ e, build cfg nl dflt ds = .error e → e = .assertion := by
  constructor
  · constructor
    · rintro ⟨st, h⟩
      obtain ⟨hne, hd, _⟩ := build_unfold h
      exact ⟨hne, declareAll_wf ds (inv_nil (std nl)) hd⟩
    · rintro ⟨hne, hwf⟩
      exact (closure nl dflt ds hne hwf).1
  · intro e h
    unfold build at h
    split at h
    · cases h; rfl
    · cases hd : declareAll (cfg.stdOf nl) [] ds with
      | error e' =>
        simp only [hd] at h
        cases h
        exact declareAll_err ds hd
      | ok ps => simp [hd] at h

/-- The parents of a declaration are a *set*: order and repetitions in `name:p1,p2,…` do not matter
(the code iterates over a Python `set`, whose order is arbitrary). -/
theorem declare_order_irrelevant (tbl : List OptSpec) (ps : List Parser) (d d' : Decl) (hn : d'.name = d.name)
    (hi : d'.internal = d.internal) (hp : ∀ p, p ∈ d'.parents ↔ p ∈ d.parents) :
    declare tbl ps d' = declare tbl ps d := by
  by_cases hok : d.name ≠ [] ∧ d.name ∉ names ps ∧ ∀ p ∈ d.parents, p ∈ names ps
  · obtain ⟨h1, h2, h3⟩ := hok
    rw [declare_eq tbl ps d h1 h2 h3,
      declare_eq tbl ps d' (hn ▸ h1) (hn ▸ h2) (fun p h => h3 p ((hp p).mp h)), hn, hi]
    congr 2
    apply List.map_congr_left
    intro q _
    have : touches d'.parents q = touches d.parents q := by
      apply Bool.eq_iff_iff.mpr
      simp only [touches, List.any_eq_true, decide_eq_true_eq]
      exact ⟨fun ⟨p, h, h'⟩ => ⟨p, (hp p).mp h, h'⟩, fun ⟨p, h, h'⟩ => ⟨p, (hp p).mpr h, h'⟩⟩
    rw [this]
  · have hok' : ¬ (d'.name ≠ [] ∧ d'.name ∉ names ps ∧ ∀ p ∈ d'.parents, p ∈ names ps) := by
      rw [hn]
      exact fun ⟨h1, h2, h3⟩ => hok ⟨h1, h2, fun p h => h3 p ((hp p).mpr h)⟩
    have e1 : ∀ d : Decl, ¬ (d.name ≠ [] ∧ d.name ∉ names ps ∧ ∀ p ∈ d.parents, p ∈ names ps) →
        declare tbl ps d = .error .assertion := by
      intro d hd
      cases h : declare tbl ps d with
      | ok r => exact absurd ((declare_ok_iff tbl ps d).mp ⟨r, h⟩) hd
      | error e => rw [declare_err h]
    rw [e1 d hok, e1 d' hok']

/-- **The driver's one-pass registration is the code-shaped loop** (a statement about two Lean definitions;
that the code-shaped one is the Python loop rests on the correspondence). In every state reached by declarations,
declaring one more command with all parents handled at once (`declare`, what is executed and what the
theorems are about) gives the same result — success or `AssertionError`, names, dependents — as the loop of
`_init_multicmd_parser`: parent by parent, each time every parser that lists the parent, with the
idempotent `register_dependent`. -/
theorem declare_follows_code {tbl : List OptSpec} {pre : List Decl} {ps : List Parser} (hinv : Inv tbl pre ps)
    (d : Decl) : declareByParent tbl ps d = declare tbl ps d := by
  by_cases hfresh : d.name ∈ names ps
  · simp [declareByParent, declare, hfresh]
  · apply declareByParent_eq
    intro q hq hm
    have := ((hinv.deps q hq d.name).mp hm).right_mem
    exact hfresh (hinv.names ▸ this)

/-! ### option tables -/

/-- **The option table of a parser.** In a reachable state a spec is in the table of the parser `q`
iff it is a standard option or was placed on the `ArgParser`, on `q` itself, or on a proper ancestor
of `q` — nothing is lost along diamonds, nothing leaks to unrelated parsers. -/
theorem options_iff {nl dflt ds adds st} (hr : Reach nl dflt ds adds st) :
    ∀ q ∈ st.parsers, ∀ o, o ∈ q.opts ↔ o ∈ std nl ∨ ∃ t, (t, o) ∈ adds ∧ Applies ds t q.name := by
  obtain ⟨ps0, hinv, _, _, hp, _⟩ := reach_unfold hr
  intro q' hq' o
  rw [hp] at hq'
  obtain ⟨q, hq, rfl⟩ := List.mem_map.mp hq'
  simp only [ext, hinv.opts q hq, List.mem_append, List.mem_map, List.mem_filter]
  constructor
  · rintro (h | ⟨a, ⟨h1, h2⟩, rfl⟩)
    · exact Or.inl h
    · exact Or.inr ⟨a.1, h1, (recvN_iff_applies hinv hq a.1).mp h2⟩
  · rintro (h | ⟨t, h1, h2⟩)
    · exact Or.inl h
    · exact Or.inr ⟨(t, o), ⟨h1, (recvN_iff_applies hinv hq t).mpr h2⟩, rfl⟩

/-- the same for option strings: what a command's parser can match is inherited exactly -/
theorem strings_iff {nl dflt ds adds st} (hr : Reach nl dflt ds adds st) :
    ∀ q ∈ st.parsers, ∀ x, x ∈ optStrings q.opts ↔
      x ∈ optStrings (std nl) ∨ ∃ t o, (t, o) ∈ adds ∧ o.isOpt = true ∧ x ∈ o.strings ∧ Applies ds t q.name := by
  intro q hq x
  rw [mem_optStrings, mem_optStrings]
  constructor
  · rintro ⟨o, ho, hio, hx⟩
    rcases (options_iff hr q hq o).mp ho with h | ⟨t, ht, ha⟩
    · exact Or.inl ⟨o, h, hio, hx⟩
    · exact Or.inr ⟨t, o, ht, hio, hx, ha⟩
  · rintro (⟨o, h, hio, hx⟩ | ⟨t, o, ht, hio, hx, ha⟩)
    · exact ⟨o, (options_iff hr q hq o).mpr (Or.inl h), hio, hx⟩
    · exact ⟨o, (options_iff hr q hq o).mpr (Or.inr ⟨t, ht, ha⟩), hio, hx⟩

/-- an option placed on the `ArgParser` itself is in the table of every parser -/
theorem added_to_all {nl dflt ds adds st} (hr : Reach nl dflt ds adds st) {o : OptSpec} (ho : (none, o) ∈ adds) :
    ∀ q ∈ st.parsers, o ∈ q.opts :=
  fun q hq => (options_iff hr q hq o).mpr (Or.inr ⟨none, ho, Or.inl rfl⟩)

/-- **No placement is refused without reason.** In a reachable state `add_argument` on the target `t`
succeeds iff the target is a declared name and no parser that receives the option (every parser; or
`t` and the commands below it) already has one of its option strings — positionals never fail. The
only failures are `ValueError` (unknown command) and `ArgumentError`; the new state is reachable. -/
theorem add_ok_iff {nl dflt ds adds st} (hr : Reach nl dflt ds adds st) (t : Option Name) (s : OptSpec) :
    ((∃ st', addOption st t s = .ok st') ↔
      (∀ p, t = some p → p ∈ dnames ds) ∧
      (s.isOpt = true → ∀ q ∈ st.parsers, Applies ds t q.name → ∀ x ∈ s.strings, x ∉ optStrings q.opts)) ∧
    (∀ e, addOption st t s = .error e → e = .exc .valueError ∨ e = .argumentError) ∧
    (∀ st', addOption st t s = .ok st' → Reach nl dflt ds (adds ++ [(t, s)]) st') := by
  obtain ⟨ps0, hinv, hwf, hne, hp, hd⟩ := reach_unfold hr
  have hnames : names st.parsers = dnames ds := ((closure nl dflt ds hne hwf).2 adds st hr).1
  refine ⟨?_, fun e h => addOption_err h, ?_⟩
  · rw [addOption_ok_iff, hnames]
    apply and_congr_right
    intro _
    apply imp_congr_right
    intro _
    constructor
    · intro h q hq ha
      rw [hp] at hq
      obtain ⟨q0, hq0, rfl⟩ := List.mem_map.mp hq
      apply h _ (hp ▸ List.mem_map.mpr ⟨q0, hq0, rfl⟩)
      rw [hp, recvN_map_ext, ext_name]
      exact (recvN_iff_applies hinv hq0 t).mpr ha
    · intro h q hq hrecv
      apply h q hq
      rw [hp] at hq hrecv
      obtain ⟨q0, hq0, rfl⟩ := List.mem_map.mp hq
      rw [recvN_map_ext, ext_name] at hrecv
      exact (recvN_iff_applies hinv hq0 t).mp hrecv
  · intro st' h
    obtain ⟨st0, hb, ha⟩ := hr
    refine ⟨st0, hb, ?_⟩
    rw [addAll_append adds [(t, s)] st0 st ha]
    simp only [addAll, h]

/-! ### from the table to `parse_args` -/

/-- **Dispatch.** Arguments that start with the name of a public command go to that command's
parser; its namespace gets `command=<name>` and the `no_color` post-processing. -/
theorem command_dispatch {nl dflt ds adds st} (hr : Reach nl dflt ds adds st) {q : Parser} (hq : q ∈ st.parsers)
    (hpub : q.internal = false) (h1 : q.name ≠ hShort) (h2 : q.name ≠ hLong) (rest : List Name) :
    parseArgs cfg st (q.name :: rest) =
      match runParser q rest with
      | .error e => .error e
      | .ok sub => post (mergeNs [(command, .str q.name)] sub) :=
  dispatch_reach hr hq hpub h1 h2 rest

/-- **Accepted (one direction, one option per command line).** If the option string `s` is in the table of
a public command without required arguments (`finishable`) then, by the kind of its spec:
`store_true` — `[cmd, s]` is parsed and the attribute is `True`; `store_false` — `False`;
`store_const` — the constant; `count` whose attribute starts at a number `n` — `n+1`;
a value option — `[cmd, s, w]` for a plain word `w`: parsed with the attribute `w` itself, or `int(w)` under
`type=int`; `SystemExit(2)` when `w` is no integer (`type=int`) or no member of `choices=[...]`.
(The attribute must not be `color`/`no_color` nor the name of a positional of the command.) -/
theorem parse_accepts {nl dflt ds adds st} (hr : Reach nl dflt ds adds st) {q : Parser} (hq : q ∈ st.parsers)
    (hpub : q.internal = false) (h1 : q.name ≠ hShort) (h2 : q.name ≠ hLong) (hfin : finishable q.opts = true)
    {s : Name} {o : OptSpec} (hs : s.head? = some '-') (hsd : s ≠ dd) (hf : findOpt q.opts s = some o)
    (hd : destOf o ≠ color ∧ destOf o ≠ noColor ∧ ∀ o' ∈ posSpecs q.opts, destOf o' ≠ destOf o) :
    (o.kind = .flag → ∃ ns, parseArgs cfg st [q.name, s] = .ok ns ∧ ns.get (destOf o) = some (.bool true)) ∧
    (o.kind = .flagOff → ∃ ns, parseArgs cfg st [q.name, s] = .ok ns ∧ ns.get (destOf o) = some (.bool false)) ∧
    (∀ v, o.kind = .const v → ∃ ns, parseArgs cfg st [q.name, s] = .ok ns ∧ ns.get (destOf o) = some (.str v)) ∧
    (∀ n, o.kind = .count → (defaults q.opts []).get (destOf o) = some (.nat n) →
      ∃ ns, parseArgs cfg st [q.name, s] = .ok ns ∧ ns.get (destOf o) = some (.nat (n + 1))) ∧
    (o.kind = .value → ∀ w, w ≠ dd → classify q.opts w = .word →
      (∀ v, convArg o.conv w = some v →
        ∃ ns, parseArgs cfg st [q.name, s, w] = .ok ns ∧ ns.get (destOf o) = some v) ∧
      (convArg o.conv w = none → parseArgs cfg st [q.name, s, w] = .error (.exit 2))) := by
  have hc := classify_exact hs hf
  have fin : ∀ {rest : List Name} {v : Val}, SingleOk q rest o v →
      ∃ ns, parseArgs cfg st (q.name :: rest) = .ok ns ∧ ns.get (destOf o) = some v := by
    intro rest v hso
    obtain ⟨ns, h, _, hv⟩ := parse_single hr hq hpub h1 h2 hso
    exact ⟨ns, h, hv hd.1 hd.2.1 hd.2.2⟩
  exact ⟨fun hk => fin (runParser_flag hfin hsd hc hk),
    fun hk => fin (runParser_flagOff hfin hsd hc hk),
    fun v hk => fin (runParser_const hfin hsd hc hk),
    fun n hk hdn => fin (runParser_count hfin hsd hc hk hdn),
    fun hk w hw hcw => ⟨fun v hcv => fin (runParser_value hfin hsd hc hk hw hcw hcv), fun hcv => by
      rw [command_dispatch hr hq hpub h1 h2,
        runParser_value_refused (posOk_of_finishable hfin) hsd hc hk hw hcw hcv [] rfl]⟩⟩

/-- **One owner per option string.** In a reachable state every option string of a parser's table is looked
up to the very spec that carries it: the standard option, or the one placed on the `ArgParser`, on the parser
or on a proper ancestor (`options_iff`) — argparse's conflict test lets no second owner in. So "the option was
placed on an ancestor" and "the command reads the string as that option" are the same thing, for every kind
of action. -/
theorem table_unique {nl dflt ds adds st} (hr : Reach nl dflt ds adds st) :
    ∀ q ∈ st.parsers, ∀ o ∈ q.opts, o.isOpt = true → ∀ s ∈ o.strings, findOpt q.opts s = some o :=
  reach_uniq hr

/-- **Help and version options are inherited like every other option.** Let `o` be an option with
`action='help'` or `action='version'` (any option strings: `--usage`, `-V`, `--about` …) placed on the
`ArgParser`, on the public command `q`, or on a command or internal `!` set that `q` names as a parent directly
or transitively. Then `q` *accepts* each of its option strings `s`: `[q, s, …]` ends with status 0 — `exit 0`
for help, the version text for version — whatever follows `s` (unknown options, stray words, missing
required options or positionals are reported only at the end of the scan), provided no ambiguous
abbreviation follows before `--` (that test precedes all actions). A command that is *not* below the owner
answers `SystemExit(2)` by `parse_rejects` / `parse_rejects_short`. -/
theorem info_inherited {nl dflt ds adds st} (hr : Reach nl dflt ds adds st) {q : Parser} (hq : q ∈ st.parsers)
    (hpub : q.internal = false) (h1 : q.name ≠ hShort) (h2 : q.name ≠ hLong) (hpos : posOk q.opts = true)
    {t : Option Name} {o : OptSpec} (ho : (t, o) ∈ adds) (hap : Applies ds t q.name) (hio : o.isOpt = true)
    {s : Name} (hs : s ∈ o.strings) (hh : s.head? = some '-') (hsd : s ≠ dd)
    (rest : List Name) (ha : ambiguousIn q.opts rest = false) :
    (o.kind = .help → parseArgs cfg st (q.name :: s :: rest) = .error (.exit 0)) ∧
    (∀ v, o.kind = .version v → parseArgs cfg st (q.name :: s :: rest) = .error (.version v)) := by
  have hmem : o ∈ q.opts := (options_iff hr q hq o).mpr (Or.inr ⟨t, ho, hap⟩)
  have hf : findOpt q.opts s = some o := table_unique hr q hq o hmem hio s hs
  have hc := classify_exact hh hf
  have key : ∀ e, infoExit o.kind = some e → parseArgs cfg st (q.name :: s :: rest) = .error e := by
    intro e hk
    rw [command_dispatch hr hq hpub h1 h2, runParser_info_head hpos hsd hc hk rest ha]
  exact ⟨fun hk => key _ (by rw [hk]; rfl), fun v hk => key _ (by rw [hk]; rfl)⟩

/-- the same for the standard help option (argparse's own `-h`/`--help`, which every command parser gets from
`common_options`) and, generally, for whatever help / version spec the table holds under `s` -/
theorem info_accepted {nl dflt ds adds st} (hr : Reach nl dflt ds adds st) {q : Parser} (hq : q ∈ st.parsers)
    (hpub : q.internal = false) (h1 : q.name ≠ hShort) (h2 : q.name ≠ hLong) (hpos : posOk q.opts = true)
    {s : Name} {o : OptSpec} (hh : s.head? = some '-') (hsd : s ≠ dd) (hf : findOpt q.opts s = some o)
    (rest : List Name) (ha : ambiguousIn q.opts rest = false) :
    (o.kind = .help → parseArgs cfg st (q.name :: s :: rest) = .error (.exit 0)) ∧
    (∀ v, o.kind = .version v → parseArgs cfg st (q.name :: s :: rest) = .error (.version v)) := by
  have hc := classify_exact hh hf
  have key : ∀ e, infoExit o.kind = some e → parseArgs cfg st (q.name :: s :: rest) = .error e := by
    intro e hk
    rw [command_dispatch hr hq hpub h1 h2, runParser_info_head hpos hsd hc hk rest ha]
  exact ⟨fun hk => key _ (by rw [hk]; rfl), fun v hk => key _ (by rw [hk]; rfl)⟩

/-- **Rejected.** `[cmd, --option]` ends in `SystemExit(2)` whenever no option string of the command's
table starts with `--option` (argparse would otherwise read it as an abbreviation, see `abbrev_unique`). -/
theorem parse_rejects {nl dflt ds adds st} (hr : Reach nl dflt ds adds st) {q : Parser} (hq : q ∈ st.parsers)
    (hpub : q.internal = false) (h1 : q.name ≠ hShort) (h2 : q.name ≠ hLong) (hpos : posOk q.opts = true)
    {c : Char} {r : Name} (heq : '=' ∉ ('-' :: '-' :: c :: r))
    (hab : ∀ x ∈ optStrings q.opts, ¬ ('-' :: '-' :: c :: r) <+: x) :
    parseArgs cfg st [q.name, '-' :: '-' :: c :: r] = .error (.exit 2) := by
  have hn : ('-' :: '-' :: c :: r) ∉ optStrings q.opts := fun h => hab _ h (List.prefix_refl _)
  rw [command_dispatch hr hq hpub h1 h2,
    runParser_unknown hpos (by simp [dd]) (classify_unknown_long heq hn hab)]

/-- the same for a short option `-x` -/
theorem parse_rejects_short {nl dflt ds adds st} (hr : Reach nl dflt ds adds st) {q : Parser} (hq : q ∈ st.parsers)
    (hpub : q.internal = false) (h1 : q.name ≠ hShort) (h2 : q.name ≠ hLong) (hpos : posOk q.opts = true)
    {c : Char} (hc1 : c ≠ '-') (hc2 : c ≠ '=') (hc3 : c.isDigit = false)
    (hn : ['-', c] ∉ optStrings q.opts) :
    parseArgs cfg st [q.name, ['-', c]] = .error (.exit 2) := by
  rw [command_dispatch hr hq hpub h1 h2,
    runParser_unknown hpos (by simp [dd, hc1]) (classify_unknown_short hc1 hc2 hc3 hn)]

/-- **Abbreviations follow inheritance.** A long option `--name` (no `=`) that is not itself an option
string of the command's table but is the beginning of exactly one of them — own, inherited, added to the
`ArgParser` or standard — is read exactly like that option string, whatever follows. -/
theorem abbrev_unique {nl dflt ds adds st} (hr : Reach nl dflt ds adds st) {q : Parser} (hq : q ∈ st.parsers)
    (hpub : q.internal = false) (h1 : q.name ≠ hShort) (h2 : q.name ≠ hLong)
    {c : Char} {r x : Name} (heq : '=' ∉ ('-' :: '-' :: c :: r))
    (hn : ('-' :: '-' :: c :: r) ∉ optStrings q.opts)
    (hx : extensions q.opts ('-' :: '-' :: c :: r) = [x]) (rest : List Name) :
    parseArgs cfg st (q.name :: ('-' :: '-' :: c :: r) :: rest) = parseArgs cfg st (q.name :: x :: rest) := by
  have hm : x ∈ extensions q.opts ('-' :: '-' :: c :: r) := by rw [hx]; exact List.mem_singleton.mpr rfl
  obtain ⟨hxs, hpre⟩ := extensions_mem hm
  obtain ⟨o, ho⟩ := findOpt_isSome_iff.mpr hxs
  obtain ⟨_, hhead⟩ := isSingle_of_long_prefix hpre
  have hcx := classify_exact hhead ho
  have hct : classify q.opts ('-' :: '-' :: c :: r) = _ := (classify_abbrev heq hn hx).trans hcx
  have hxd : x ≠ dd := by
    obtain ⟨t, rfl⟩ := hpre
    simp [dd]
  rw [command_dispatch hr hq hpub h1 h2, command_dispatch hr hq hpub h1 h2,
    runParser_head_congr (by simp [dd]) hxd hct hcx rest]

/-- … and one that is the beginning of several option strings of the table is an error
(`ambiguous option`), wherever it stands before `--` — even after `-h`. An option inherited from a parent
can therefore make an abbreviation ambiguous in the descendants only. -/
theorem abbrev_ambiguous {nl dflt ds adds st} (hr : Reach nl dflt ds adds st) {q : Parser} (hq : q ∈ st.parsers)
    (hpub : q.internal = false) (h1 : q.name ≠ hShort) (h2 : q.name ≠ hLong) (hpos : posOk q.opts = true)
    {c : Char} {r x y : Name} {l : List Name} (heq : '=' ∉ ('-' :: '-' :: c :: r))
    (hn : ('-' :: '-' :: c :: r) ∉ optStrings q.opts)
    (hx : extensions q.opts ('-' :: '-' :: c :: r) = x :: y :: l) (pre rest : List Name) (hpre : dd ∉ pre) :
    parseArgs cfg st (q.name :: (pre ++ ('-' :: '-' :: c :: r) :: rest)) = .error (.exit 2) := by
  rw [command_dispatch hr hq hpub h1 h2,
    runParser_ambiguous hpos (by simp [dd]) (classify_ambiguous heq hn hx) pre rest hpre]

/-- **Inherited exactly (end to end).** Let `t = --name` (no `=`) be such that every option of the
command's table it could stand for is a flag, and let the command have no positional that must be given.
Then `[cmd, t]` is parsed to a namespace **iff** `t` is an option string of the table or the beginning of
exactly one — and by `strings_iff` the option strings of the table are the standard ones and those placed
on the `ArgParser`, on the command or on a direct or transitive parent. Otherwise `parse_args` exits. -/
theorem accepts_iff {nl dflt ds adds st} (hr : Reach nl dflt ds adds st) {q : Parser} (hq : q ∈ st.parsers)
    (hpub : q.internal = false) (h1 : q.name ≠ hShort) (h2 : q.name ≠ hLong) (hfin : finishable q.opts = true)
    {c : Char} {r : Name} (heq : '=' ∉ ('-' :: '-' :: c :: r))
    (hflag : ∀ o ∈ q.opts, o.isOpt = true → (∃ x ∈ o.strings, ('-' :: '-' :: c :: r) <+: x) → o.kind = .flag) :
    ((∃ ns, parseArgs cfg st [q.name, '-' :: '-' :: c :: r] = .ok ns) ↔
      (('-' :: '-' :: c :: r) ∈ optStrings q.opts ∨ (extensions q.opts ('-' :: '-' :: c :: r)).length = 1)) ∧
    ((¬ (('-' :: '-' :: c :: r) ∈ optStrings q.opts ∨ (extensions q.opts ('-' :: '-' :: c :: r)).length = 1)) →
      parseArgs cfg st [q.name, '-' :: '-' :: c :: r] = .error (.exit 2)) := by
  have hpos := posOk_of_finishable hfin
  have hdd : ('-' :: '-' :: c :: r) ≠ dd := by simp [dd]
  -- an option string of the table that starts with `t` belongs to a flag
  have flag_of : ∀ x o, findOpt q.opts x = some o → ('-' :: '-' :: c :: r) <+: x → o.kind = .flag := by
    intro x o ho hp
    obtain ⟨hm, hio, hxs⟩ := findOpt_some ho
    exact hflag o hm hio ⟨x, hxs, hp⟩
  have okflag : ∀ x, x ≠ dd → x.head? = some '-' → ∀ o, findOpt q.opts x = some o → o.kind = .flag →
      ∃ ns, parseArgs cfg st [q.name, x] = .ok ns := by
    intro x hxd hxh o ho hk
    obtain ⟨ns, h, _⟩ := parse_single hr hq hpub h1 h2 (runParser_flag hfin hxd (classify_exact hxh ho) hk)
    exact ⟨ns, h⟩
  by_cases hmem : ('-' :: '-' :: c :: r) ∈ optStrings q.opts
  · obtain ⟨o, ho⟩ := findOpt_isSome_iff.mpr hmem
    have hok := okflag _ hdd rfl o ho (flag_of _ o ho (List.prefix_refl _))
    exact ⟨⟨fun _ => Or.inl hmem, fun _ => hok⟩, fun h => absurd (Or.inl hmem) h⟩
  · cases hx : extensions q.opts ('-' :: '-' :: c :: r) with
    | nil =>
      have hrej := parse_rejects hr hq hpub h1 h2 hpos heq (extensions_nil_iff.mp hx)
      refine ⟨⟨fun ⟨ns, h⟩ => (by rw [hrej] at h; cases h), fun h => ?_⟩, fun _ => hrej⟩
      rcases h with h | h
      · exact absurd h hmem
      · simp at h
    | cons x l =>
      cases l with
      | nil =>
        have hm : x ∈ extensions q.opts ('-' :: '-' :: c :: r) := by rw [hx]; exact List.mem_singleton.mpr rfl
        obtain ⟨hxs, hpre⟩ := extensions_mem hm
        obtain ⟨o, ho⟩ := findOpt_isSome_iff.mpr hxs
        obtain ⟨_, hhead⟩ := isSingle_of_long_prefix hpre
        have hxd : x ≠ dd := by
          obtain ⟨t, rfl⟩ := hpre
          simp [dd]
        have hok := okflag x hxd hhead o ho (flag_of x o ho hpre)
        rw [← abbrev_unique hr hq hpub h1 h2 heq hmem hx []] at hok
        exact ⟨⟨fun _ => Or.inr rfl, fun _ => hok⟩, fun h => absurd (Or.inr rfl) h⟩
      | cons y l' =>
        have hrej := abbrev_ambiguous hr hq hpub h1 h2 hpos heq hmem hx [] [] (by simp)
        simp only [List.nil_append] at hrej
        refine ⟨⟨fun ⟨ns, h⟩ => (by rw [hrej] at h; cases h), fun h => ?_⟩, fun _ => hrej⟩
        rcases h with h | h
        · exact absurd h hmem
        · simp at h

/-! ### the standard options -/

/-- decided on the generated table: `s` is an option string of every fresh parser, its attribute is `d`
and its kind is the one named by `tag` (0: counter starting at 0, 1: flag, 2: optional choice) -/
def stdIs (nl : Bool) (s d : Name) (tag : Nat) : Bool :=
  s.head? == some '-' && s != dd &&
  match findOpt (std nl) s with
  | some o =>
    destOf o == d &&
    (match o.kind, tag with
      | .count, 0 => (defaults (std nl) []).get d == some (.nat 0)
      | .flag, 1 => true
      | .optChoice _ _, 2 => true
      | _, _ => false)
  | none => false

private theorem std_single {nl : Bool} {q : Parser} {extra : List OptSpec} (he : q.opts = std nl ++ extra)
    (hfin : finishable q.opts = true) {s d : Name} {tag : Nat} (hu : stdIs nl s d tag = true) :
    ∃ o v, destOf o = d ∧ SingleOk q [s] o v ∧
      (tag = 0 → v = .nat 1) ∧ (tag = 1 → v = .bool true) ∧ (tag = 2 → v = .none) := by
  unfold stdIs at hu
  simp only [Bool.and_eq_true, beq_iff_eq, bne_iff_ne, ne_eq] at hu
  obtain ⟨⟨hhead, hdd⟩, hu⟩ := hu
  cases hf : findOpt (std nl) s with
  | none => simp [hf] at hu
  | some o =>
    simp only [hf, Bool.and_eq_true, beq_iff_eq] at hu
    obtain ⟨hdest, hu⟩ := hu
    have hc : classify q.opts s = .opt o (isSingle s) none :=
      classify_exact hhead (he ▸ findOpt_append_left hf)
    cases hk : o.kind with
    | count =>
      cases tag with
      | zero =>
        simp only [hk, beq_iff_eq] at hu
        have hd0 : (defaults q.opts []).get (destOf o) = some (.nat 0) := by
          rw [he, defaults_append, hdest]; exact defaults_get hu _
        exact ⟨o, _, hdest, runParser_count hfin hdd hc hk hd0, fun _ => rfl, (fun h => nomatch h), (fun h => nomatch h)⟩
      | succ n => simp [hk] at hu
    | flag =>
      match tag, hu with
      | 1, _ => exact ⟨o, _, hdest, runParser_flag hfin hdd hc hk, (fun h => nomatch h), fun _ => rfl, (fun h => nomatch h)⟩
      | 0, hu => simp [hk] at hu
      | n + 2, hu => simp [hk] at hu
    | optChoice ch d' =>
      match tag, hu with
      | 2, _ => exact ⟨o, _, hdest, runParser_optChoice hfin hdd hc hk, (fun h => nomatch h), (fun h => nomatch h), fun _ => rfl⟩
      | 0, hu => simp [hk] at hu
      | 1, hu => simp [hk] at hu
      | n + 3, hu => simp [hk] at hu
    | value => simp [hk] at hu
    | flagOff => simp [hk] at hu
    | const v => simp [hk] at hu
    | help => simp [hk] at hu
    | version v => simp [hk] at hu
    | pos n => simp [hk] at hu

/-- **Standard options.** In every reachable parser, for every public command without a required
positional (and without a positional called `verbose`, `color` or `no_color`):
`--color` and `--no-color` are accepted, and so are `-v` and `--verbose` unless the `ArgParser` was built
with `_no_log`; `-v` makes `verbose` 1, `--no-color` makes `color` `False`, `--color` alone makes it
`None`, and the helper attribute `no_color` never reaches the caller. -/
theorem std_accepted {nl dflt ds adds st} (hr : Reach nl dflt ds adds st) {q : Parser} (hq : q ∈ st.parsers)
    (hpub : q.internal = false) (h1 : q.name ≠ hShort) (h2 : q.name ≠ hLong) (hfin : finishable q.opts = true)
    (hpc : ∀ o' ∈ posSpecs q.opts, destOf o' ≠ verbose ∧ destOf o' ≠ color ∧ destOf o' ≠ noColor) :
    (nl = false → ∀ s ∈ [sV, sVerbose], ∃ ns, parseArgs cfg st [q.name, s] = .ok ns ∧
      ns.get verbose = some (.nat 1) ∧ ns.get noColor = none) ∧
    (∃ ns, parseArgs cfg st [q.name, sNoColor] = .ok ns ∧ ns.get color = some (.bool false) ∧ ns.get noColor = none) ∧
    (∃ ns, parseArgs cfg st [q.name, sColor] = .ok ns ∧ ns.get color = some .none ∧ ns.get noColor = none) := by
  obtain ⟨extra, he⟩ := reach_opts hr hq
  have hnc := reach_noColor hr hq
  have hv : ∀ s ∈ [sV, sVerbose], stdIs false s verbose 0 = true := by decide +kernel
  have hn : ∀ nl, stdIs nl sNoColor noColor 1 = true := by decide +kernel
  have hc : ∀ nl, stdIs nl sColor color 2 = true := by decide +kernel
  refine ⟨?_, ?_, ?_⟩
  · intro hnl s hs
    subst hnl
    obtain ⟨o, v, hd, hso, hv0, _, _⟩ := std_single he hfin (hv s hs)
    rw [hv0 rfl] at hso
    obtain ⟨ns, hp, hno, hval⟩ := parse_single hr hq hpub h1 h2 hso
    refine ⟨ns, hp, ?_, hno⟩
    rw [← hd]
    exact hval (by rw [hd]; decide) (by rw [hd]; decide) (fun o' ho' => hd ▸ (hpc o' ho').1)
  · obtain ⟨o, v, hd, hso, _, hv1, _⟩ := std_single he hfin (hn nl)
    rw [hv1 rfl] at hso
    obtain ⟨sub, hs, hhas, hval, _⟩ := hso.ok
    obtain ⟨ns, hp, hno, _, _, hcol, _⟩ := parse_sub hr hq hpub h1 h2 hs (hhas _ (has_of_get hnc))
    refine ⟨ns, hp, hcol (.bool true) ?_ rfl, hno⟩
    rw [← hd]
    exact hval (fun o' ho' => hd ▸ (hpc o' ho').2.2)
  · obtain ⟨o, v, hd, hso, _, _, hv2⟩ := std_single he hfin (hc nl)
    rw [hv2 rfl] at hso
    obtain ⟨sub, hs, hhas, hval, hoth⟩ := hso.ok
    obtain ⟨ns, hp, hno, _, _, _, hcol⟩ := parse_sub hr hq hpub h1 h2 hs (hhas _ (has_of_get hnc))
    refine ⟨ns, hp, hcol (.bool false) .none ?_ rfl ?_, hno⟩
    · rw [hoth noColor (by rw [hd]; decide) (fun o' ho' => (hpc o' ho').2.2)]
      exact hnc
    · rw [← hd]
      exact hval (fun o' ho' => hd ▸ (hpc o' ho').2.1)

/-- **`-vv…v`.** Unless built with `_no_log`, every public command (without a required positional, without
a positional called `verbose`) reads a cluster of `k+2` letters `v` as `verbose = k+2`. -/
theorem verbose_cluster {dflt ds adds st} (hr : Reach false dflt ds adds st) {q : Parser} (hq : q ∈ st.parsers)
    (hpub : q.internal = false) (h1 : q.name ≠ hShort) (h2 : q.name ≠ hLong) (hfin : finishable q.opts = true)
    (hpc : ∀ o' ∈ posSpecs q.opts, destOf o' ≠ verbose) (k : Nat)
    (hn : ('-' :: List.replicate (k + 2) 'v') ∉ optStrings q.opts) :
    ∃ ns, parseArgs cfg st [q.name, '-' :: List.replicate (k + 2) 'v'] = .ok ns ∧
      ns.get verbose = some (.nat (k + 2)) := by
  obtain ⟨extra, he⟩ := reach_opts hr hq
  have hv : (findOpt (std false) sV).map (fun o => (o.kind, o.mutex, destOf o)) = some (.count, false, verbose) ∧
      (defaults (std false) []).get verbose = some (.nat 0) := by decide +kernel
  cases hf : findOpt (std false) sV with
  | none => simp [hf] at hv
  | some o =>
    simp only [hf, Option.map_some, Option.some.injEq, Prod.mk.injEq] at hv
    obtain ⟨⟨hk, hm, hd⟩, hd0⟩ := hv
    have ho : findOpt q.opts ['-', 'v'] = some o := he ▸ findOpt_append_left hf
    have hd0' : (defaults q.opts []).get (destOf o) = some (.nat 0) := by
      rw [he, defaults_append, hd]; exact defaults_get hd0 _
    obtain ⟨sub, hs, hval, hhas⟩ := runParser_count_cluster hfin (by decide) (by decide) hk hm ho k hn hd0'
      (fun o' ho' => hd ▸ hpc o' ho')
    obtain ⟨ns, hp, _, hkv, _⟩ := parse_sub hr hq hpub h1 h2 hs (hhas _ (has_of_get (reach_noColor hr hq)))
    exact ⟨ns, hp, hkv verbose _ (by decide) (by decide) (hd ▸ hval)⟩

/-- **`--` ends the options.** For a public command whose only positional is a `nargs='*'` one, the arguments
`-- w1 w2 …` are accepted whatever the words look like (option strings, `--`, `-h` …) and the positional
receives exactly those words. -/
theorem dd_words {nl dflt ds adds st} (hr : Reach nl dflt ds adds st) {q : Parser} (hq : q ∈ st.parsers)
    (hpub : q.internal = false) (h1 : q.name ≠ hShort) (h2 : q.name ≠ hLong)
    {o : OptSpec} (hp : posSpecs q.opts = [o]) (hn : posN o = .star)
    (hreq : ∀ o' ∈ q.opts, o'.required = false)
    (hd : destOf o ≠ color ∧ destOf o ≠ noColor) (ws : List Name) :
    ∃ ns, parseArgs cfg st (q.name :: dd :: ws) = .ok ns ∧ ns.get (destOf o) = some (.list ws) := by
  have hmr : ∀ u, missingReq q.opts u = false := by
    intro u
    unfold missingReq
    apply Bool.eq_false_iff.mpr
    intro hc
    obtain ⟨o', ho', hoo⟩ := List.any_eq_true.mp hc
    simp [hreq o' ho'] at hoo
  obtain ⟨sub, hs, hval, hoth⟩ := runParser_dd hp hn hmr ws
  have hnc : Has sub noColor := by
    apply has_of_get (v := .bool false)
    rw [hoth noColor (Ne.symm hd.2)]
    exact reach_noColor hr hq
  obtain ⟨ns, hpa, _, hkv, _⟩ := parse_sub hr hq hpub h1 h2 hs hnc
  exact ⟨ns, hpa, hkv _ _ hd.1 hd.2 hval⟩

/-- **`required=True`.** A command whose table holds a required option — its own, one inherited from a
parent or an internal set, or one added to the `ArgParser` — rejects an argument list that supplies none
of the options (here: the empty one). The acceptance theorems above therefore ask for `finishable`, which
excludes required options; with them, exactly the argument lists that supply them can be accepted. -/
theorem required_enforced {nl dflt ds adds st} (hr : Reach nl dflt ds adds st) {q : Parser} (hq : q ∈ st.parsers)
    (hpub : q.internal = false) (h1 : q.name ≠ hShort) (h2 : q.name ≠ hLong) (hpos : posOk q.opts = true)
    {o : OptSpec} (ho : o ∈ q.opts) (hio : o.isOpt = true) (hreq : o.required = true) :
    parseArgs cfg st [q.name] = .error (.exit 2) := by
  have hm : missingReq q.opts [] = true := by
    unfold missingReq
    exact List.any_eq_true.mpr ⟨o, ho, by simp [hio, hreq]⟩
  rw [command_dispatch hr hq hpub h1 h2, runParser_eq hpos]
  simp [ambiguousIn, runP, finish, PS.init, hm]

/-! ### the default command -/

/-- the default command is the explicit one, else the first public (non-`!`) declaration -/
theorem default_is_first_public {nl dflt ds adds st} (hr : Reach nl dflt ds adds st) :
    (∀ d, dflt = some d → st.default = some d) ∧
    (dflt = none → st.default = ((ds.filter (fun d => !d.internal)).map (·.name)).head?) := by
  obtain ⟨ps0, hinv, _, _, _, hd⟩ := reach_unfold hr
  rw [hd]
  refine ⟨fun d h => by rw [h]; rfl, fun h => ?_⟩
  · rw [h]
    simp only [chooseDefault]
    congr 1
    have hs := hinv.skel
    simp only [skel, dskel] at hs
    have : publicNames ps0 = ((ps0.map (fun q => (q.name, q.internal))).filter (fun p => !p.2)).map (·.1) := by
      simp [publicNames, names, List.filter_map, List.map_map, Function.comp_def]
    rw [this, hs]
    simp [List.filter_map, List.map_map, Function.comp_def]

/-- **Default command — what the code guarantees** (`_partial`: the statement of the property is
"arguments that do not start with a *command* name are parsed as the default command"; the code, and
therefore this theorem, treats the names of internal `!` option sets as command names too — see
`internal_name_gap`, `default_cmd_full_if_public_test`; known finding c19b).
In every state (reachable or not): arguments that are empty or whose first word is neither
`-h`/`--help` nor the name of any declared parser — `-`, `--`, the empty string, `h`, `help`, a name that
merely contains or is contained in a command name … — are parsed exactly as if the default command had
been written in front of them. -/
theorem default_cmd_partial {st : St} {q : Parser} (hq : q ∈ st.parsers)
    (hpub : q.internal = false) (hd : st.default = some q.name) (argv : List Name)
    (h : ∀ a, argv.head? = some a → a ∉ [hShort, hLong] ∧ a ∉ names st.parsers) :
    parseArgs cfg st argv = parseArgs cfg st (q.name :: argv) := by
  rw [parseArgs_eq, parseArgs_eq, List.map_cons, withDefault_keep _ (Or.inr (mem_firstArgNames hq hpub)),
    withDefault_insert, hd]
  intro a ha
  have ha' : argv.head? = some a := by
    cases argv with
    | nil => simp at ha
    | cons x r => simpa using ha
  rw [std_shape.2.2.2.1]
  exact ⟨(h a ha').1, fun hm => (h a ha').2 (firstArgNames_sub hm)⟩

/-- **An option in front.** Command names never start with `-` here (`hnames`; argparse would treat such a
"command" as an option anyway). Then every argument list whose first element starts with `-` and is not
`-h`/`--help` — `--version`, `--about`, `-V`, an option of the default command, an unknown option, `-`, `--` —
is parsed as the default command: no further option name is special to `parse_args`. -/
theorem default_cmd_option_first {st : St} {q : Parser} (hq : q ∈ st.parsers)
    (hpub : q.internal = false) (hd : st.default = some q.name)
    (hnames : ∀ p ∈ st.parsers, p.name.head? ≠ some '-')
    (a : Name) (rest : List Name) (ha : a.head? = some '-') (h1 : a ≠ hShort) (h2 : a ≠ hLong) :
    parseArgs cfg st (a :: rest) = parseArgs cfg st (q.name :: a :: rest) := by
  apply default_cmd_partial hq hpub hd
  intro b hb
  have hba : b = a := by simpa using hb.symm
  subst hba
  refine ⟨by simp [h1, h2], fun hm => ?_⟩
  obtain ⟨p, hp, hn⟩ := List.mem_map.mp hm
  exact hnames p hp (hn ▸ ha)

/-- **The full statement holds as soon as the first argument is compared with the public command
names only** (`cfg.allParsers = false`, the two-line repair proposed for c19b; vacuous for the code as
it is): then every first word that is not a public command name — internal `!` names included — leads
to the default command. -/
theorem default_cmd_full_if_public_test {st : St} {q : Parser} (hfix : cfg.allParsers = false)
    (hq : q ∈ st.parsers) (hpub : q.internal = false) (hd : st.default = some q.name) (argv : List Name)
    (h : ∀ a, argv.head? = some a → a ∉ [hShort, hLong] ∧ a ∉ publicNames st.parsers) :
    parseArgs cfg st argv = parseArgs cfg st (q.name :: argv) := by
  have hfa : firstArgNames cfg st = publicNames st.parsers := by
    unfold firstArgNames; rw [hfix]; rfl
  rw [parseArgs_eq, parseArgs_eq, List.map_cons, withDefault_keep _ (Or.inr (mem_firstArgNames hq hpub)),
    withDefault_insert, hd]
  intro a ha
  have ha' : argv.head? = some a := by
    cases argv with
    | nil => simp at ha
    | cons x r => simpa using ha
  rw [std_shape.2.2.2.1, hfa]
  exact h a ha'

/-- **The gap (known finding c19b).** The code compares the first argument with *all* parser names
(`cfg.allParsers = true`, read from the source). Then, when the first word is the name of an internal
`!` option set, the default command is *not* inserted: `parse_args` exits with "invalid choice". -/
theorem internal_name_gap {nl dflt ds adds st} (hall : cfg.allParsers = true) (hr : Reach nl dflt ds adds st)
    {q : Parser} (hq : q ∈ st.parsers)
    (hint : q.internal = true) (h1 : q.name ≠ hShort) (h2 : q.name ≠ hLong) (rest : List Name) :
    parseArgs cfg st (q.name :: rest) = .error (.exit 2) := by
  have hn := reach_names_nodup hr
  have hfa : firstArgNames cfg st = names st.parsers := by
    unfold firstArgNames; rw [if_pos hall]
  rw [parseArgs_eq, List.map_cons, withDefault_keep _ (Or.inr (hfa ▸ List.mem_map.mpr ⟨q, hq, rfl⟩)),
    dispatch_internal hn hq hint h1 h2]

/-! ### repeated calls, switches, the single-command parser -/

/-- **Any sequence; the caller's object is left alone** (6b8603f). `parse_args` works on a private copy: what
the caller passed — list or tuple — is the same afterwards (no default command inserted, no `--help` appended),
and a tuple is parsed exactly like the list with the same elements. In both modes, for every state. -/
theorem caller_sequence_untouched (ap : ArgP) (l : List (Option Name)) :
    (∀ t, (parseCall cfg ap t l).2 = l) ∧ (parseCall cfg ap true l).1 = (parseCall cfg ap false l).1 := by
  have hc := std_shape.2.2.2.2
  exact ⟨fun t => by rw [parseCall_copy hc], by rw [parseCall_copy hc, parseCall_copy hc]⟩

/-- **No memory between calls.** Passing the same list object to `parse_args` twice gives the same result both
times (proved for the copying code and for the older in-place code alike: there the list the first call
modified parses the same way). -/
theorem parse_twice (ap : ArgP) (l : List (Option Name)) :
    (parseCall cfg ap false (parseCall cfg ap false l).2).1 = (parseCall cfg ap false l).1 :=
  parseCall_twice cfg ap l

/-- `_no_log_file` adds the attribute `_no_log_file=True` to every namespace and changes nothing else;
without it the attribute is whatever the parser produced (normally absent). -/
theorem no_log_file_attr (sw : Switches) {sub ns : Ns} (h : afterParse sw (.ok sub) = .ok ns) :
    (sw.noLogFile = true → ns.get noLogFileAttr = some (.bool true)) ∧
    (sw.noLogFile = false → ns.get noLogFileAttr = sub.get noLogFileAttr) ∧
    (∀ k, k ≠ noLogFileAttr → k ≠ color → k ≠ noColor → ns.get k = sub.get k) := by
  unfold afterParse at h
  simp only [] at h
  obtain ⟨_, _, h3⟩ := post_spec h
  have c1 : noLogFileAttr ≠ color := by decide
  have c2 : noLogFileAttr ≠ noColor := by decide
  refine ⟨fun ht => ?_, fun hf => ?_, fun k k1 k2 k3 => ?_⟩
  · rw [h3 _ c1 c2, if_pos ht, get_set_self]
  · rw [h3 _ c1 c2]; simp [hf]
  · rw [h3 k k2 k3]
    split
    · exact get_set_ne _ k1 _
    · rfl

/-- `_help_if_no_args`: an empty argument sequence is parsed as `['--help']` — the multi-command parser exits with
status 0 — and the caller's (empty) sequence stays empty. -/
theorem help_if_no_args (sw : Switches) (st : St) (h : sw.helpIfNoArgs = true) (t : Bool) :
    parseCall cfg { sw := sw, mode := .multi st } t [] = (.error (.exit 0), []) := by
  have hk : (helpLong : Name) ∈ cfg.helpFirst := by rw [std_shape.2.2.2.1]; decide
  rw [parseCall_copy std_shape.2.2.2.2]
  congr 1
  unfold parseList prepare
  simp only [List.isEmpty_nil, h, Bool.and_self, if_true, withDefault_keep [] (Or.inl hk)]
  simp [dispatch, afterParse]

/-- **The single-command `ArgParser`** (no `commands=`): there is no default command and no dispatch — the
arguments go to the one parser (`parseList` is the work on the method's private list, to which only
`_help_if_no_args` adds something; the caller's object: `caller_sequence_untouched`); the standard
options are accepted and post-processed exactly as in a command of a multi-command parser. -/
theorem single_mode {nl : Bool} {adds : List OptSpec} {p : Parser} (hr : ReachS nl adds p) (sw : Switches) :
    (∀ l, parseList cfg { sw := sw, mode := .single p } l =
      (afterParse sw (runParser p ((prepare sw l).filterMap id)), prepare sw l)) ∧
    (finishable p.opts = true → (∀ o' ∈ posSpecs p.opts, destOf o' ≠ color ∧ destOf o' ≠ noColor) →
      ∃ ns, (parseList cfg { sw := sw, mode := .single p } [some sNoColor]).1 = .ok ns ∧
        ns.get color = some (.bool false) ∧ ns.get noColor = none) := by
  refine ⟨fun l => rfl, fun hfin hpc => ?_⟩
  have he := reachS_opts hr
  have hn : ∀ nl, stdIs nl sNoColor noColor 1 = true := by decide +kernel
  obtain ⟨o, v, hd, hso, _, hv1, _⟩ := std_single he hfin (hn nl)
  rw [hv1 rfl] at hso
  obtain ⟨sub, hs, hhas, hval, _⟩ := hso.ok
  have hsub : sub.get noColor = some (.bool true) := by
    rw [← hd]; exact hval (fun o' ho' => hd ▸ (hpc o' ho').2)
  have hrun : (parseList cfg { sw := sw, mode := .single p } [some sNoColor]).1 = afterParse sw (.ok sub) := by
    unfold parseList prepare
    simp only [List.isEmpty_cons, Bool.false_and, Bool.false_eq_true, if_false, List.filterMap_cons, id,
      List.filterMap_nil, hs]
  have hg : ∀ s : Ns, s.get noColor = some (.bool true) → ∃ ns, post s = .ok ns ∧
      ns.get color = some (.bool false) ∧ ns.get noColor = none := by
    intro s hsg
    obtain ⟨ns, hns⟩ := post_ok (has_of_get hsg)
    obtain ⟨g1, ⟨v0, hv0, ht, _⟩, _⟩ := post_spec hns
    rw [hsg] at hv0
    cases hv0
    exact ⟨ns, hns, ht rfl, g1⟩
  rw [hrun]
  unfold afterParse
  simp only []
  apply hg
  split
  · rw [get_set_ne _ (by decide)]; exact hsub
  · exact hsub

/-! ### non-vacuity and the counterexample -/

section Examples

def n (s : String) : Name := s.toList

/-- the diamond of the repaired defect plus an internal set: `a; b:a; c:a; d:b,c; !o; e:o,d` -/
def dsDiamond : List Decl := [
  ⟨n "a", false, []⟩, ⟨n "b", false, [n "a"]⟩, ⟨n "c", false, [n "a"]⟩,
  ⟨n "d", false, [n "b", n "c"]⟩, ⟨n "o", true, []⟩, ⟨n "e", false, [n "o", n "d"]⟩]

def flag (s : String) : OptSpec := { strings := [n s], kind := .flag, mutex := false }

def addsDiamond : List (Option Name × OptSpec) :=
  [(some (n "a"), flag "--fa"), (some (n "c"), flag "--fc"), (some (n "o"), flag "--fo"), (none, flag "--all"),
   (some (n "a"), flag "--arg-one"), (some (n "b"), flag "--arg-two"),
   (some (n "a"), { strings := [n "-q"], kind := .flag, mutex := false }),
   (some (n "a"), { strings := [n "-o", n "--out"], kind := .value, mutex := false }),
   (some (n "a"), { strings := [n "items"], kind := .pos .star, mutex := false }),
   -- help / version actions on an internal set and on the root; an ordinary flag called `--version`
   (some (n "o"), { strings := [n "-V", n "--about"], kind := .version (n "tool-1.2"), mutex := false }),
   (some (n "a"), { strings := [n "--usage"], kind := .help, mutex := false }),
   (some (n "a"), flag "--version"),
   -- `type=int` and `choices=[...]` on the root
   (some (n "a"), { strings := [n "--num"], kind := .value, mutex := false, conv := .int }),
   (some (n "a"), { strings := [n "--lvl"], kind := .value, mutex := false, conv := .oneOf [n "lo", n "hi"] })]

def stDiamond : Except Fail St :=
  match build cfg false none dsDiamond with
  | .ok st => addAll st addsDiamond
  | .error e => .error (.exc e)

/-- the hypotheses are satisfiable: the diamond is well-formed and reachable … -/
example : ∃ st, Reach false none dsDiamond addsDiamond st := by
  have hok : stDiamond.toOption.isSome = true := by decide +kernel
  cases h : stDiamond with
  | error e => simp [h, Except.toOption] at hok
  | ok st => exact ⟨st, reach_of_eval h⟩

/-- … and its dependents maps are the descendant sets, in declaration order -/
example : (match stDiamond with
      | .ok st => st.parsers.map (fun q => (q.name, q.deps.reverse))
      | .error _ => []) =
    [(n "a", [n "b", n "c", n "d", n "e"]), (n "b", [n "d", n "e"]), (n "c", [n "d", n "e"]),
     (n "d", [n "e"]), (n "o", [n "e"]), (n "e", [])] := by decide +kernel

def parseDiamond (argv : List String) : Except Fail Ns :=
  match stDiamond with
  | .ok st => parseArgs cfg st (argv.map n)
  | .error e => .error e

def okWith (r : Except Fail Ns) (k : String) (v : Val) : Bool :=
  match r with
  | .ok ns => ns.get (n k) == some v
  | .error _ => false

example : WF [] dsDiamond := by decide +kernel
example : okWith (parseDiamond ["d", "--fa"]) "fa" (.bool true) = true := by decide +kernel
example : okWith (parseDiamond ["e", "--fa", "--fc", "--fo", "--all", "-v"]) "verbose" (.nat 1) = true := by decide +kernel
example : parseDiamond ["b", "--fc"] = .error (.exit 2) := by decide +kernel
example : parseDiamond ["d", "--fo"] = .error (.exit 2) := by decide +kernel
example : okWith (parseDiamond ["w1", "w2"]) "items" (.list [n "w1", n "w2"]) = true := by decide +kernel
example : okWith (parseDiamond ["--fa"]) "command" (.str (n "a")) = true := by decide +kernel
-- abbreviations follow inheritance: `--arg` is `--arg-one` in `a`, ambiguous in `b` (even after -h), unknown in `o`'s world
example : okWith (parseDiamond ["a", "--arg"]) "arg_one" (.bool true) = true := by decide +kernel
example : parseDiamond ["b", "-h", "--arg"] = .error (.exit 2) := by decide +kernel
example : okWith (parseDiamond ["b", "--arg-t"]) "arg_two" (.bool true) = true := by decide +kernel
-- clusters, attached values, `--`, first words inside '-h--help'
example : okWith (parseDiamond ["d", "-qvvofile", "--", "-x", "--"]) "items" (.list [n "-x", n "--"]) = true := by decide +kernel
example : okWith (parseDiamond ["d", "-qvvofile"]) "verbose" (.nat 2) = true := by decide +kernel
example : okWith (parseDiamond ["d", "-qvvofile"]) "out" (.str (n "file")) = true := by decide +kernel
example : okWith (parseDiamond ["--", "x"]) "items" (.list [n "x"]) = true := by decide +kernel
example : okWith (parseDiamond ["-", "help", "h", ""]) "items" (.list [n "-", n "help", n "h", n ""]) = true := by decide +kernel
example : okWith (parseDiamond ["a", "--no-color"]) "color" (.bool false) = true := by decide +kernel
-- help / version actions are inherited (status 0, the version text), also with rubbish behind them; strangers exit 2
example : parseDiamond ["e", "--about"] = .error (.version (n "tool-1.2")) := by decide +kernel
example : parseDiamond ["e", "-V", "--zz", "w"] = .error (.version (n "tool-1.2")) := by decide +kernel
example : parseDiamond ["e", "-qV"] = .error (.version (n "tool-1.2")) := by decide +kernel
example : parseDiamond ["d", "--about"] = .error (.exit 2) := by decide +kernel
example : parseDiamond ["d", "--usage"] = .error (.exit 0) := by decide +kernel
example : parseDiamond ["e", "--zz", "--usage"] = .error (.exit 0) := by decide +kernel
example : parseDiamond ["e", "--usage=1"] = .error (.exit 2) := by decide +kernel
example : parseDiamond ["e", "-Vo"] = .error (.exit 2) := by decide +kernel        -- `-o` finds no value: before any action
-- `type=int`, `choices=[...]` are inherited with the option
example : parseDiamond ["d", "--num", "x1"] = .error (.exit 2) := by decide +kernel
example : okWith (parseDiamond ["e", "--lvl", "hi"]) "lvl" (.str (n "hi")) = true := by decide +kernel
example : parseDiamond ["e", "--lvl", "mid"] = .error (.exit 2) := by decide +kernel
-- an option in front, whatever its name: the default command
example : okWith (parseDiamond ["--version"]) "command" (.str (n "a")) = true := by decide +kernel
example : okWith (parseDiamond ["--version"]) "version" (.bool true) = true := by decide +kernel
example : parseDiamond ["--usage"] = .error (.exit 0) := by decide +kernel
example : parseDiamond ["--about"] = .error (.exit 2) := by decide +kernel
example : parseDecl (n "!cmd2: cmd1 ,,opts, cmd1") = ⟨n "cmd2", true, [n "opts", n "cmd1"]⟩ := by decide +kernel
example : render ⟨n "cmd2", false, [n "cmd1", n "opts_set1"]⟩ = n "cmd2:cmd1,opts_set1" := by decide +kernel

end Examples

/-- **Counterexample to the full default-command statement (known finding c19b).** With
`commands=[('!o',…), ('a:o',…)]` and a positional `items` on `a`, the word `o` does not start with a
command name, the default command `a` accepts it (`['a','o']` gives `items=['o']`), yet `['o']` exits. -/
theorem default_cmd_internal_name_counterexample (hall : cfg.allParsers = true) :
    ∃ st, Reach false none [⟨['o'], true, []⟩, ⟨['a'], false, [['o']]⟩]
        [(some ['a'], { strings := [['i', 't', 'e', 'm', 's']], kind := .pos .star, mutex := false })] st ∧
      st.default = some ['a'] ∧
      parseArgs cfg st [['o']] = .error (.exit 2) ∧
      (∃ ns, parseArgs cfg st [['a'], ['o']] = .ok ns ∧
        ns.get ['i', 't', 'e', 'm', 's'] = some (.list [['o']])) := by
  have _ := hall
  -- evaluated by the kernel for the code as it is; if the source compares with the public names only,
  -- `hall` is contradictory and nothing is claimed
  first
  | have hb : ∃ st0, build cfg false none [⟨['o'], true, []⟩, ⟨['a'], false, [['o']]⟩] = .ok st0 ∧
        ∃ st, addAll st0 [(some ['a'], { strings := [['i', 't', 'e', 'm', 's']], kind := .pos .star, mutex := false })] = .ok st ∧
        st.default = some ['a'] ∧ parseArgs cfg st [['o']] = .error (.exit 2) ∧
        (parseArgs cfg st [['a'], ['o']]).toOption.bind (fun ns => ns.get ['i', 't', 'e', 'm', 's']) =
          some (.list [['o']]) := by
      refine ⟨_, rfl, _, rfl, ?_, ?_, ?_⟩ <;> decide +kernel
    obtain ⟨st0, h0, st, h1, h2, h3, h4⟩ := hb
    refine ⟨st, ⟨st0, h0, h1⟩, h2, h3, ?_⟩
    cases hp : parseArgs cfg st [['a'], ['o']] with
    | error e => simp [hp, Except.toOption] at h4
    | ok ns => exact ⟨ns, rfl, by simpa [hp, Except.toOption] using h4⟩
  | exact absurd hall (by decide)

/-- **Options added through a group are not inherited (known finding `group_options_not_inherited`).**
`get_cmd_parser('a').add_mutually_exclusive_group().add_argument('--fx', …)` (or `add_argument_group()`) uses
argparse's own group object, whose `add_argument` is not `AkArgumentParser.add_argument`: with
`commands=[('a',…), ('b:a',…)]` the command `a` accepts `--fx`, its child `b` exits with status 2 — although
`--fx` is "an option added to a command's parser" that `b` names as a parent. -/
theorem group_option_not_inherited_counterexample :
    ∃ st0 st, build cfg false none [⟨['a'], false, []⟩, ⟨['b'], false, [['a']]⟩] = .ok st0 ∧
      addViaGroup st0 ['a'] { strings := [['-', '-', 'f', 'x']], kind := .flag, mutex := false } = .ok st ∧
      (∃ ns, parseArgs cfg st [['a'], ['-', '-', 'f', 'x']] = .ok ns ∧ ns.get ['f', 'x'] = some (.bool true)) ∧
      parseArgs cfg st [['b'], ['-', '-', 'f', 'x']] = .error (.exit 2) := by
  have hb : ∃ st0, build cfg false none [⟨['a'], false, []⟩, ⟨['b'], false, [['a']]⟩] = .ok st0 ∧
      ∃ st, addViaGroup st0 ['a'] { strings := [['-', '-', 'f', 'x']], kind := .flag, mutex := false } = .ok st ∧
      (parseArgs cfg st [['a'], ['-', '-', 'f', 'x']]).toOption.bind (fun ns => ns.get ['f', 'x']) = some (.bool true) ∧
      parseArgs cfg st [['b'], ['-', '-', 'f', 'x']] = .error (.exit 2) := by
    refine ⟨_, rfl, _, rfl, ?_, ?_⟩ <;> decide +kernel
  obtain ⟨st0, h0, st, h1, h2, h3⟩ := hb
  refine ⟨st0, st, h0, h1, ?_, h3⟩
  cases hp : parseArgs cfg st [['a'], ['-', '-', 'f', 'x']] with
  | error e => simp [hp, Except.toOption] at h2
  | ok ns => exact ⟨ns, rfl, by simpa [hp, Except.toOption] using h2⟩

end C19
