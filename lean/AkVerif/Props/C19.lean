import AkVerif.Gen.C19
import AkVerif.Lemmas.CliGraphArgs
/-!
# C19 — command options are inherited exactly along the declared command graph

Property theorems only. `cfg`/`std` are *generated from the source* (`Gen.C19`): the standard options
of `_mk_std_args` (plus argparse's help option of `common_options`) and the collection the first
argument is compared with in `parse_args`.

Vocabulary: `ds` is the parsed `commands=` list, `Anc ds a c` the transitive closure of "`c` names `a`
as a parent", `WF [] ds` says names are non-empty and distinct and parents refer to earlier entries,
`adds` is the history of `add_argument` calls (`none` = on the `ArgParser`, `some p` = on
`get_cmd_parser(p)`), `Reach dflt ds adds st` says the constructor and all those calls succeeded.
-/
namespace C19
open CliGraph Ak

abbrev cfg : Cfg := Gen.C19.cfg
abbrev std : List OptSpec := Gen.C19.std

/-- a reachable `ArgParser`: built from `ds`, then every `add_argument` of `adds` succeeded -/
def Reach (dflt : Option Name) (ds : List Decl) (adds : List (Option Name × OptSpec)) (st : St) : Prop :=
  ∃ st0, build cfg dflt ds = .ok st0 ∧ addAll st0 adds = .ok st

def hShort : Name := ['-', 'h']
def hLong : Name := ['-', '-', 'h', 'e', 'l', 'p']

/-- what the statement calls "the standard color and verbosity options" is what the source declares:
`-v`, `--verbose`, `--color`, `--no-color` are option strings of every fresh command parser, the
attribute `no_color` that `parse_args` reads exists and is false by default,
and the first-argument test of `parse_args` looks for `-h`/`--help`. Re-decided when the source changes. -/
theorem std_shape :
    (∀ s ∈ [['-', 'v'], ['-', '-', 'v', 'e', 'r', 'b', 'o', 's', 'e'], ['-', '-', 'c', 'o', 'l', 'o', 'r'],
        ['-', '-', 'n', 'o', '-', 'c', 'o', 'l', 'o', 'r']], s ∈ optStrings std) ∧
    (defaults std []).get noColor = some (.bool false) ∧
    cfg.helpFirst = [hShort, hLong] := by decide +kernel

/-! ### declaration strings -/

/-- **Declaration syntax.** A command written the documented way — optional `!`, a name without `:`
that does not itself start with `!`, then `:` and the comma separated parents (non-empty, without
commas, without surrounding blanks, all different) — is read as exactly that declaration; and whatever
the string, the parents that come out are non-empty and pairwise different (a set). -/
theorem decl_syntax :
    (∀ d : Decl, ':' ∉ d.name → d.name.head? ≠ some '!' →
      (∀ p ∈ d.parents, p ≠ [] ∧ ',' ∉ p ∧ strip p = p) → d.parents.Nodup → parseDecl (render d) = d) ∧
    (∀ s : Name, (parseDecl s).parents.Nodup ∧ ∀ p ∈ (parseDecl s).parents, p ≠ []) :=
  ⟨parseDecl_render, parseDecl_parents⟩

/-! ### construction -/

private theorem build_unfold {dflt : Option Name} {ds : List Decl} {st0 : St} (h : build cfg dflt ds = .ok st0) :
    ds ≠ [] ∧ declareAll std [] ds = .ok st0.parsers ∧
      st0.default = chooseDefault dflt st0.parsers := by
  unfold build at h
  by_cases hne : ds = []
  · simp [hne] at h
  · simp only [hne, if_false] at h
    cases hd : declareAll cfg.std [] ds with
    | error e => simp [hd] at h
    | ok ps =>
      simp only [hd] at h
      cases h
      exact ⟨hne, hd, rfl⟩

private theorem reach_unfold {dflt : Option Name} {ds : List Decl} {adds : List (Option Name × OptSpec)} {st : St}
    (h : Reach dflt ds adds st) :
    ∃ ps0, Inv std ds ps0 ∧ WF [] ds ∧ ds ≠ [] ∧ st.parsers = ps0.map (ext ps0 adds) ∧
      st.default = chooseDefault dflt ps0 := by
  obtain ⟨st0, hb, ha⟩ := h
  obtain ⟨hne, hd, hdf⟩ := build_unfold hb
  have hwf : WF [] ds := declareAll_wf ds (inv_nil std) hd
  obtain ⟨ps', he, hinv⟩ := declareAll_ok ds (inv_nil std) hwf
  rw [hd] at he
  cases he
  obtain ⟨h1, h2⟩ := addAll_ok st0.parsers adds [] st0 st (ext_nil _).symm ha
  exact ⟨st0.parsers, by simpa using hinv, hwf, hne, by simpa using h2, h1.trans hdf⟩

private theorem reach_nodup {ds : List Decl} {ps0 : List Parser} {adds : List (Option Name × OptSpec)}
    (hinv : Inv std ds ps0) (hwf : WF [] ds) : (names (ps0.map (ext ps0 adds))).Nodup := by
  have : names (ps0.map (ext ps0 adds)) = names ps0 := by
    simp only [names, List.map_map]
    exact List.map_congr_left (fun q _ => rfl)
  rw [this, hinv.names]
  simpa using wf_nodup ds [] hwf (by simp)

/-- **Closure.** For every non-empty list of declarations whose parents refer to earlier commands
(chains, forests, diamonds, a parent given together with one of its own ancestors, `!` sets …) the
constructor succeeds, and in every reachable state the dependents of a parser are exactly the commands
it is a proper ancestor of — the eager registration computes the transitive closure. -/
theorem closure (dflt : Option Name) (ds : List Decl) (hne : ds ≠ []) (hwf : WF [] ds) :
    (∃ st, build cfg dflt ds = .ok st) ∧
    ∀ adds st, Reach dflt ds adds st →
      names st.parsers = dnames ds ∧ ∀ q ∈ st.parsers, ∀ c, c ∈ q.deps ↔ Anc ds q.name c := by
  constructor
  · obtain ⟨ps, he, _⟩ := declareAll_ok (std := std) ds (inv_nil std) hwf
    have he' : declareAll cfg.std [] ds = .ok ps := he
    have : build cfg dflt ds = .ok { parsers := ps, default := chooseDefault dflt ps } := by
      simp only [build, hne, if_false, he']
    exact ⟨_, this⟩
  · intro adds st hr
    obtain ⟨ps0, hinv, _, _, hp, _⟩ := reach_unfold hr
    rw [hp]
    constructor
    · rw [← hinv.names]
      simp only [names, List.map_map]
      exact List.map_congr_left (fun q _ => rfl)
    · intro q' hq' c
      obtain ⟨q, hq, rfl⟩ := List.mem_map.mp hq'
      exact hinv.deps q hq c

/-- The constructor succeeds **exactly** on the well-formed lists, and its only failure is
`AssertionError` (empty list, empty or repeated name, unknown / later / own name as a parent). -/
theorem build_ok_iff (dflt : Option Name) (ds : List Decl) :
    ((∃ st, build cfg dflt ds = .ok st) ↔ ds ≠ [] ∧ WF [] ds) ∧
    ∀ e, build cfg dflt ds = .error e → e = .assertion := by
  constructor
  · constructor
    · rintro ⟨st, h⟩
      obtain ⟨hne, hd, _⟩ := build_unfold h
      exact ⟨hne, declareAll_wf ds (inv_nil std) hd⟩
    · rintro ⟨hne, hwf⟩
      exact (closure dflt ds hne hwf).1
  · intro e h
    unfold build at h
    split at h
    · cases h; rfl
    · cases hd : declareAll cfg.std [] ds with
      | error e' =>
        simp only [hd] at h
        cases h
        exact declareAll_err ds hd
      | ok ps => simp [hd] at h

/-- The parents of a declaration are a *set*: order and repetitions in `name:p1,p2,…` do not matter
(the code iterates over a Python `set`, whose order is arbitrary). -/
theorem declare_order_irrelevant (ps : List Parser) (d d' : Decl) (hn : d'.name = d.name)
    (hi : d'.internal = d.internal) (hp : ∀ p, p ∈ d'.parents ↔ p ∈ d.parents) :
    declare std ps d' = declare std ps d := by
  by_cases hok : d.name ≠ [] ∧ d.name ∉ names ps ∧ ∀ p ∈ d.parents, p ∈ names ps
  · obtain ⟨h1, h2, h3⟩ := hok
    rw [declare_eq std ps d h1 h2 h3,
      declare_eq std ps d' (hn ▸ h1) (hn ▸ h2) (fun p h => h3 p ((hp p).mp h)), hn, hi]
    congr 2
    apply List.map_congr_left
    intro q _
    have : touches d'.parents q = touches d.parents q := by
      apply Bool.eq_iff_iff.mpr
      simp only [touches, List.any_eq_true, decide_eq_true_eq]
      exact ⟨fun ⟨p, h, h'⟩ => ⟨p, (hp p).mp h, h'⟩, fun ⟨p, h, h'⟩ => ⟨p, (hp p).mpr h, h'⟩⟩
    rw [this]
  · have hok' : ¬ (d'.name ≠ [] ∧ d'.name ∉ names ps ∧ ∀ p ∈ d'.parents, p ∈ names ps) := by
      rw [hn]
      exact fun ⟨h1, h2, h3⟩ => hok ⟨h1, h2, fun p h => h3 p ((hp p).mpr h)⟩
    have e1 : ∀ d : Decl, ¬ (d.name ≠ [] ∧ d.name ∉ names ps ∧ ∀ p ∈ d.parents, p ∈ names ps) →
        declare std ps d = .error .assertion := by
      intro d hd
      cases h : declare std ps d with
      | ok r => exact absurd ((declare_ok_iff std ps d).mp ⟨r, h⟩) hd
      | error e => rw [declare_err h]
    rw [e1 d hok, e1 d' hok']

/-! ### option tables -/

/-- **The option table of a parser.** In a reachable state a spec is in the table of the parser `q`
iff it is a standard option or was placed on the `ArgParser`, on `q` itself, or on a proper ancestor
of `q` — nothing is lost along diamonds, nothing leaks to unrelated parsers. -/
theorem options_iff {dflt ds adds st} (hr : Reach dflt ds adds st) :
    ∀ q ∈ st.parsers, ∀ o, o ∈ q.opts ↔ o ∈ std ∨ ∃ t, (t, o) ∈ adds ∧ Applies ds t q.name := by
  obtain ⟨ps0, hinv, _, _, hp, _⟩ := reach_unfold hr
  intro q' hq' o
  rw [hp] at hq'
  obtain ⟨q, hq, rfl⟩ := List.mem_map.mp hq'
  simp only [ext, hinv.opts q hq, List.mem_append, List.mem_map, List.mem_filter]
  constructor
  · rintro (h | ⟨a, ⟨h1, h2⟩, rfl⟩)
    · exact Or.inl h
    · exact Or.inr ⟨a.1, h1, (recvN_iff_applies hinv hq a.1).mp h2⟩
  · rintro (h | ⟨t, h1, h2⟩)
    · exact Or.inl h
    · exact Or.inr ⟨(t, o), ⟨h1, (recvN_iff_applies hinv hq t).mpr h2⟩, rfl⟩

/-- an option placed on the `ArgParser` itself is in the table of every parser -/
theorem added_to_all {dflt ds adds st} (hr : Reach dflt ds adds st) {o : OptSpec} (ho : (none, o) ∈ adds) :
    ∀ q ∈ st.parsers, o ∈ q.opts :=
  fun q hq => (options_iff hr q hq o).mpr (Or.inr ⟨none, ho, Or.inl rfl⟩)

private theorem reach_opts {dflt ds adds st} (hr : Reach dflt ds adds st) {q : Parser} (hq : q ∈ st.parsers) :
    ∃ extra, q.opts = std ++ extra := by
  obtain ⟨ps0, hinv, _, _, hp, _⟩ := reach_unfold hr
  rw [hp] at hq
  obtain ⟨q0, hq0, rfl⟩ := List.mem_map.mp hq
  exact ⟨(adds.filter (fun a => recvN ps0 a.1 q0.name)).map (·.2), by simp only [ext, hinv.opts q0 hq0]⟩

private theorem reach_noColor {dflt ds adds st} (hr : Reach dflt ds adds st) {q : Parser} (hq : q ∈ st.parsers) :
    Has (defaults q.opts []) noColor := by
  obtain ⟨extra, he⟩ := reach_opts hr hq
  rw [he, defaults_append]
  exact has_defaults (has_of_get std_shape.2.1) _

/-- **No placement is refused without reason.** In a reachable state `add_argument` on the target `t`
succeeds iff the target is a declared name and no parser that receives the option (every parser; or
`t` and the commands below it) already has one of its option strings — positionals never fail. The
only failures are `ValueError` (unknown command) and `ArgumentError`; the new state is reachable. -/
theorem add_ok_iff {dflt ds adds st} (hr : Reach dflt ds adds st) (t : Option Name) (s : OptSpec) :
    ((∃ st', addOption st t s = .ok st') ↔
      (∀ p, t = some p → p ∈ dnames ds) ∧
      (s.isOpt = true → ∀ q ∈ st.parsers, Applies ds t q.name → ∀ x ∈ s.strings, x ∉ optStrings q.opts)) ∧
    (∀ e, addOption st t s = .error e → e = .exc .valueError ∨ e = .argumentError) ∧
    (∀ st', addOption st t s = .ok st' → Reach dflt ds (adds ++ [(t, s)]) st') := by
  obtain ⟨ps0, hinv, hwf, hne, hp, hd⟩ := reach_unfold hr
  have hnames : names st.parsers = dnames ds := ((closure dflt ds hne hwf).2 adds st hr).1
  refine ⟨?_, fun e h => addOption_err h, ?_⟩
  · rw [addOption_ok_iff, hnames]
    apply and_congr_right
    intro _
    apply imp_congr_right
    intro _
    constructor
    · intro h q hq ha
      rw [hp] at hq
      obtain ⟨q0, hq0, rfl⟩ := List.mem_map.mp hq
      apply h _ (hp ▸ List.mem_map.mpr ⟨q0, hq0, rfl⟩)
      rw [hp, recvN_map_ext, ext_name]
      exact (recvN_iff_applies hinv hq0 t).mpr ha
    · intro h q hq hrecv
      apply h q hq
      rw [hp] at hq hrecv
      obtain ⟨q0, hq0, rfl⟩ := List.mem_map.mp hq
      rw [recvN_map_ext, ext_name] at hrecv
      exact (recvN_iff_applies hinv hq0 t).mp hrecv
  · intro st' h
    obtain ⟨st0, hb, ha⟩ := hr
    refine ⟨st0, hb, ?_⟩
    have happ : ∀ (as bs : List (Option Name × OptSpec)) (s0 s1 : St), addAll s0 as = .ok s1 →
        addAll s0 (as ++ bs) = addAll s1 bs := by
      intro as bs
      induction as with
      | nil => intro s0 s1 h; simp only [addAll] at h; cases h; rfl
      | cons a as ih =>
        intro s0 s1 h
        have e1 : addAll s0 (a :: as) = match addOption s0 a.1 a.2 with
            | .error e => .error e
            | .ok st' => addAll st' as := rfl
        have e2 : addAll s0 (a :: as ++ bs) = match addOption s0 a.1 a.2 with
            | .error e => .error e
            | .ok st' => addAll st' (as ++ bs) := rfl
        rw [e1] at h
        rw [e2]
        cases ha' : addOption s0 a.1 a.2 with
        | error e => simp [ha'] at h
        | ok s2 => simp only [ha'] at h ⊢; exact ih s2 s1 h
    rw [happ adds [(t, s)] st0 st ha]
    simp only [addAll, h]

/-! ### from the table to `parse_args` -/

/-- **Dispatch.** Arguments that start with the name of a public command go to that command's
parser; its namespace gets `command=<name>` and the `no_color` post-processing. -/
theorem command_dispatch {dflt ds adds st} (hr : Reach dflt ds adds st) {q : Parser} (hq : q ∈ st.parsers)
    (hpub : q.internal = false) (h1 : q.name ≠ hShort) (h2 : q.name ≠ hLong) (rest : List Name) :
    parseArgs cfg st (q.name :: rest) =
      match runParser q rest with
      | .error e => .error e
      | .ok sub => post (mergeNs [(command, .str q.name)] sub) := by
  obtain ⟨ps0, hinv, hwf, _, hp, _⟩ := reach_unfold hr
  have hn : (names st.parsers).Nodup := hp ▸ reach_nodup hinv hwf
  unfold parseArgs
  rw [withDefault_keep rest (Or.inr (mem_firstArgNames hq hpub))]
  exact dispatch_public hn hq hpub h1 h2 rest

private theorem parse_of_run {dflt ds adds st} (hr : Reach dflt ds adds st) {q : Parser} (hq : q ∈ st.parsers)
    (hpub : q.internal = false) (h1 : q.name ≠ hShort) (h2 : q.name ≠ hLong) (rest : List Name)
    (h : ∃ ns, runParser q rest = .ok ns ∧ ∀ k, Has (defaults q.opts []) k → Has ns k) :
    ∃ ns, parseArgs cfg st (q.name :: rest) = .ok ns := by
  obtain ⟨sub, hs, hk⟩ := h
  rw [command_dispatch hr hq hpub h1 h2, hs]
  exact post_ok (has_mergeNs (hk _ (reach_noColor hr hq)) _)

/-- **Accepted.** `[cmd, option]` is parsed (a namespace, no `SystemExit`) whenever the option string
is in the command's table as a flag; a value option is parsed when a word follows. -/
theorem parse_accepts {dflt ds adds st} (hr : Reach dflt ds adds st) {q : Parser} (hq : q ∈ st.parsers)
    (hpub : q.internal = false) (h1 : q.name ≠ hShort) (h2 : q.name ≠ hLong)
    {s : Name} {o : OptSpec} (hs : s.head? = some '-') (hf : findOpt q.opts s = some o) :
    (o.kind = .flag → ∃ ns, parseArgs cfg st [q.name, s] = .ok ns) ∧
    (o.kind = .value → ∀ w, classify q.opts w = .word → ∃ ns, parseArgs cfg st [q.name, s, w] = .ok ns) := by
  have hc := classify_known hs hf
  exact ⟨fun hk => parse_of_run hr hq hpub h1 h2 [s] (runParser_flag hc hk),
    fun hk w hw => parse_of_run hr hq hpub h1 h2 [s, w] (runParser_value hc hk hw)⟩

/-- **Rejected.** `[cmd, --option]` ends in `SystemExit(2)` whenever the option string is not in the
command's table (and abbreviates no option string of that table — argparse would expand it). -/
theorem parse_rejects {dflt ds adds st} (hr : Reach dflt ds adds st) {q : Parser} (hq : q ∈ st.parsers)
    (hpub : q.internal = false) (h1 : q.name ≠ hShort) (h2 : q.name ≠ hLong)
    {c : Char} {r : Name} (heq : '=' ∉ ('-' :: '-' :: c :: r))
    (hn : ('-' :: '-' :: c :: r) ∉ optStrings q.opts)
    (hab : ∀ x ∈ optStrings q.opts, ¬ ('-' :: '-' :: c :: r) <+: x) :
    parseArgs cfg st [q.name, '-' :: '-' :: c :: r] = .error (.exit 2) := by
  rw [command_dispatch hr hq hpub h1 h2, runParser_unknown (classify_unknown_long heq hn hab)]

/-- the same for a short option `-x` -/
theorem parse_rejects_short {dflt ds adds st} (hr : Reach dflt ds adds st) {q : Parser} (hq : q ∈ st.parsers)
    (hpub : q.internal = false) (h1 : q.name ≠ hShort) (h2 : q.name ≠ hLong)
    {c : Char} (hc1 : c ≠ '-') (hc2 : c ≠ '=') (hc3 : c.isDigit = false)
    (hn : ['-', c] ∉ optStrings q.opts) (hab : ∀ x ∈ optStrings q.opts, ¬ ['-', c] <+: x) :
    parseArgs cfg st [q.name, ['-', c]] = .error (.exit 2) := by
  rw [command_dispatch hr hq hpub h1 h2, runParser_unknown (classify_unknown_short hc1 hc2 hc3 hn hab)]

/-- the standard option string `s` is declared by the source with a kind for which `[cmd, s]` is a
complete use (decided on the generated table) -/
def goodStd (s : Name) : Bool :=
  s.head? == some '-' &&
  match findOpt std s with
  | some o =>
    (match o.kind with
      | .count => (defaults std []).get (destOf o) == some (.nat 0)
      | .optChoice _ _ => true
      | .flag => true
      | _ => false)
  | none => false

/-- **Standard options.** `-v`, `--verbose`, `--color` and `--no-color` are accepted by every public
command of every reachable parser, whatever was declared and added. -/
theorem std_accepted {dflt ds adds st} (hr : Reach dflt ds adds st) {q : Parser} (hq : q ∈ st.parsers)
    (hpub : q.internal = false) (h1 : q.name ≠ hShort) (h2 : q.name ≠ hLong) :
    ∀ s ∈ [['-', 'v'], ['-', '-', 'v', 'e', 'r', 'b', 'o', 's', 'e'], ['-', '-', 'c', 'o', 'l', 'o', 'r'],
        ['-', '-', 'n', 'o', '-', 'c', 'o', 'l', 'o', 'r']],
      ∃ ns, parseArgs cfg st [q.name, s] = .ok ns := by
  obtain ⟨extra, he⟩ := reach_opts hr hq
  have hall : ∀ s ∈ [['-', 'v'], ['-', '-', 'v', 'e', 'r', 'b', 'o', 's', 'e'], ['-', '-', 'c', 'o', 'l', 'o', 'r'],
      ['-', '-', 'n', 'o', '-', 'c', 'o', 'l', 'o', 'r']], goodStd s = true := by decide +kernel
  intro s hs
  have hg := hall s hs
  unfold goodStd at hg
  simp only [Bool.and_eq_true, beq_iff_eq] at hg
  obtain ⟨hhead, hg⟩ := hg
  cases hf : findOpt std s with
  | none => simp [hf] at hg
  | some o =>
    simp only [hf] at hg
    have hc : classify q.opts s = .opt o none := classify_known hhead (he ▸ findOpt_append_left hf)
    cases hk : o.kind with
    | count =>
      simp only [hk, beq_iff_eq] at hg
      have hverb : (defaults q.opts []).get (destOf o) = some (.nat 0) := by
        rw [he, defaults_append]; exact defaults_get hg _
      exact parse_of_run hr hq hpub h1 h2 _ (runParser_count hc hk hverb)
    | optChoice ch d => exact parse_of_run hr hq hpub h1 h2 _ (runParser_optChoice hc hk)
    | flag => exact parse_of_run hr hq hpub h1 h2 _ (runParser_flag hc hk)
    | value => simp [hk] at hg
    | help => simp [hk] at hg
    | pos => simp [hk] at hg

/-- **Inherited exactly (end to end).** Let `s = --name` be an option string that every placement
uses as a flag, that is not a standard option string and is no proper prefix of any option string in
play. Then a public command `q` parses `[q, s]` to a namespace **iff** `s` was placed on the
`ArgParser`, on `q`, or on a direct or transitive parent of `q`; otherwise `parse_args` exits. -/
theorem accepts_iff {dflt ds adds st} (hr : Reach dflt ds adds st) {q : Parser} (hq : q ∈ st.parsers)
    (hpub : q.internal = false) (h1 : q.name ≠ hShort) (h2 : q.name ≠ hLong)
    {c : Char} {r : Name} (heq : '=' ∉ ('-' :: '-' :: c :: r))
    (hflag : ∀ t o, (t, o) ∈ adds → ('-' :: '-' :: c :: r) ∈ o.strings → o.kind = .flag)
    (hstd : ('-' :: '-' :: c :: r) ∉ optStrings std)
    (hab : ∀ x, (x ∈ optStrings std ∨ ∃ t o, (t, o) ∈ adds ∧ x ∈ o.strings) →
      ('-' :: '-' :: c :: r) <+: x → x = '-' :: '-' :: c :: r) :
    ((∃ ns, parseArgs cfg st [q.name, '-' :: '-' :: c :: r] = .ok ns) ↔
      ∃ t o, (t, o) ∈ adds ∧ ('-' :: '-' :: c :: r) ∈ o.strings ∧ Applies ds t q.name) ∧
    ((¬ ∃ t o, (t, o) ∈ adds ∧ ('-' :: '-' :: c :: r) ∈ o.strings ∧ Applies ds t q.name) →
      parseArgs cfg st [q.name, '-' :: '-' :: c :: r] = .error (.exit 2)) := by
  have hopt := options_iff hr q hq
  -- membership of the string in the table, in terms of the placements
  have hmem : ('-' :: '-' :: c :: r) ∈ optStrings q.opts ↔
      ∃ t o, (t, o) ∈ adds ∧ ('-' :: '-' :: c :: r) ∈ o.strings ∧ Applies ds t q.name := by
    rw [mem_optStrings]
    constructor
    · rintro ⟨o, ho, hio, hso⟩
      rcases (hopt o).mp ho with h | ⟨t, ht, ha⟩
      · exact absurd (mem_optStrings.mpr ⟨o, h, hio, hso⟩) hstd
      · exact ⟨t, o, ht, hso, ha⟩
    · rintro ⟨t, o, ht, hso, ha⟩
      refine ⟨o, (hopt o).mpr (Or.inr ⟨t, ht, ha⟩), ?_, hso⟩
      simp [OptSpec.isOpt, hflag t o ht hso]
  have hrej : ('-' :: '-' :: c :: r) ∉ optStrings q.opts →
      parseArgs cfg st [q.name, '-' :: '-' :: c :: r] = .error (.exit 2) := by
    intro hn
    apply parse_rejects hr hq hpub h1 h2 heq hn
    intro x hx hpre
    obtain ⟨o, ho, hio, hxo⟩ := mem_optStrings.mp hx
    have : x = '-' :: '-' :: c :: r := by
      apply hab x _ hpre
      rcases (hopt o).mp ho with h | ⟨t, ht, _⟩
      · exact Or.inl (mem_optStrings.mpr ⟨o, h, hio, hxo⟩)
      · exact Or.inr ⟨t, o, ht, hxo⟩
    exact hn (this ▸ hx)
  refine ⟨⟨?_, ?_⟩, fun h => hrej (fun hm => h (hmem.mp hm))⟩
  · rintro ⟨ns, hns⟩
    apply hmem.mp
    apply Classical.byContradiction
    intro hn
    rw [hrej hn] at hns
    cases hns
  · intro h
    obtain ⟨o, hfo⟩ := findOpt_isSome_iff.mpr (hmem.mpr h)
    obtain ⟨ho, _, hso⟩ := findOpt_some hfo
    have hk : o.kind = .flag := by
      rcases (hopt o).mp ho with h' | ⟨t, ht, _⟩
      · exact absurd (mem_optStrings.mpr ⟨o, h', (findOpt_some hfo).2.1, hso⟩) hstd
      · exact hflag t o ht hso
    exact (parse_accepts hr hq hpub h1 h2 rfl hfo).1 hk

/-! ### the default command -/

/-- the default command is the explicit one, else the first public (non-`!`) declaration -/
theorem default_is_first_public {dflt ds adds st} (hr : Reach dflt ds adds st) :
    (∀ d, dflt = some d → st.default = some d) ∧
    (dflt = none → st.default = ((ds.filter (fun d => !d.internal)).map (·.name)).head?) := by
  obtain ⟨ps0, hinv, _, _, _, hd⟩ := reach_unfold hr
  rw [hd]
  refine ⟨fun d h => by rw [h]; rfl, fun h => ?_⟩
  · rw [h]
    simp only [chooseDefault]
    congr 1
    have hs := hinv.skel
    simp only [skel, dskel] at hs
    have : publicNames ps0 = ((ps0.map (fun q => (q.name, q.internal))).filter (fun p => !p.2)).map (·.1) := by
      simp [publicNames, names, List.filter_map, List.map_map, Function.comp_def]
    rw [this, hs]
    simp [List.filter_map, List.map_map, Function.comp_def]

/-- **Default command — what the code guarantees** (`_partial`: the statement of the property is
"arguments that do not start with a *command* name are parsed as the default command"; the code, and
therefore this theorem, treats the names of internal `!` option sets as command names too — see
`internal_name_gap`, `default_cmd_full_if_public_test`; known finding c19b).
In every state (reachable or not): arguments that are empty or whose first word is neither
`-h`/`--help` nor the name of any declared parser are parsed exactly as if the default command had
been written in front of them. -/
theorem default_cmd_partial {st : St} {q : Parser} (hq : q ∈ st.parsers)
    (hpub : q.internal = false) (hd : st.default = some q.name) (argv : List Name)
    (h : ∀ a, argv.head? = some a → a ∉ [hShort, hLong] ∧ a ∉ names st.parsers) :
    parseArgs cfg st argv = parseArgs cfg st (q.name :: argv) := by
  unfold parseArgs
  rw [withDefault_keep argv (Or.inr (mem_firstArgNames hq hpub)), withDefault_insert argv, hd]
  · intro a ha
    rw [std_shape.2.2]
    exact ⟨(h a ha).1, fun hm => (h a ha).2 (firstArgNames_sub hm)⟩

/-- **The full statement holds as soon as the first argument is compared with the public command
names only** (`cfg.allParsers = false`, the two-line repair proposed for c19b; vacuous for the code as
it is): then every first word that is not a public command name — internal `!` names included — leads
to the default command. -/
theorem default_cmd_full_if_public_test {st : St} {q : Parser} (hfix : cfg.allParsers = false)
    (hq : q ∈ st.parsers) (hpub : q.internal = false) (hd : st.default = some q.name) (argv : List Name)
    (h : ∀ a, argv.head? = some a → a ∉ [hShort, hLong] ∧ a ∉ publicNames st.parsers) :
    parseArgs cfg st argv = parseArgs cfg st (q.name :: argv) := by
  have hfa : firstArgNames cfg st = publicNames st.parsers := by
    unfold firstArgNames; rw [hfix]; rfl
  unfold parseArgs
  rw [withDefault_keep argv (Or.inr (mem_firstArgNames hq hpub)), withDefault_insert argv, hd]
  · intro a ha
    rw [std_shape.2.2, hfa]
    exact h a ha

/-- **The gap (known finding c19b).** The code compares the first argument with *all* parser names
(`cfg.allParsers = true`, read from the source). Then, when the first word is the name of an internal
`!` option set, the default command is *not* inserted: `parse_args` exits with "invalid choice". -/
theorem internal_name_gap {dflt ds adds st} (hall : cfg.allParsers = true) (hr : Reach dflt ds adds st)
    {q : Parser} (hq : q ∈ st.parsers)
    (hint : q.internal = true) (h1 : q.name ≠ hShort) (h2 : q.name ≠ hLong) (rest : List Name) :
    parseArgs cfg st (q.name :: rest) = .error (.exit 2) := by
  obtain ⟨ps0, hinv, hwf, _, hp, _⟩ := reach_unfold hr
  have hn : (names st.parsers).Nodup := hp ▸ reach_nodup hinv hwf
  have hfa : firstArgNames cfg st = names st.parsers := by
    unfold firstArgNames; rw [if_pos hall]
  unfold parseArgs
  rw [withDefault_keep rest (Or.inr (hfa ▸ List.mem_map.mpr ⟨q, hq, rfl⟩))]
  have h1' : q.name ≠ ['-', 'h'] := h1
  have h2' : q.name ≠ ['-', '-', 'h', 'e', 'l', 'p'] := h2
  simp only [dispatch, h1', h2', or_self, if_false, findParser_internal hn hq hint]

/-! ### non-vacuity and the counterexample -/

section Examples

def n (s : String) : Name := s.toList

/-- the diamond of the repaired defect plus an internal set: `a; b:a; c:a; d:b,c; !o; e:o,d` -/
def dsDiamond : List Decl := [
  ⟨n "a", false, []⟩, ⟨n "b", false, [n "a"]⟩, ⟨n "c", false, [n "a"]⟩,
  ⟨n "d", false, [n "b", n "c"]⟩, ⟨n "o", true, []⟩, ⟨n "e", false, [n "o", n "d"]⟩]

def flag (s : String) : OptSpec := { strings := [n s], kind := .flag, mutex := false }

def addsDiamond : List (Option Name × OptSpec) :=
  [(some (n "a"), flag "--fa"), (some (n "c"), flag "--fc"), (some (n "o"), flag "--fo"), (none, flag "--all"),
   (some (n "a"), { strings := [n "items"], kind := .pos, mutex := false })]

def stDiamond : Except Fail St :=
  match build cfg none dsDiamond with
  | .ok st => addAll st addsDiamond
  | .error e => .error (.exc e)

private theorem reach_of_eval {dflt ds adds st}
    (h : (match build cfg dflt ds with
      | .ok st0 => addAll st0 adds
      | .error e => .error (.exc e)) = .ok st) : Reach dflt ds adds st := by
  cases hb : build cfg dflt ds with
  | error e => simp [hb] at h
  | ok st0 => exact ⟨st0, hb, by simpa [hb] using h⟩

/-- the hypotheses are satisfiable: the diamond is well-formed and reachable … -/
example : ∃ st, Reach none dsDiamond addsDiamond st := by
  have hok : stDiamond.toOption.isSome = true := by decide +kernel
  cases h : stDiamond with
  | error e => simp [h, Except.toOption] at hok
  | ok st => exact ⟨st, reach_of_eval h⟩

/-- … and its dependents maps are the descendant sets, in declaration order -/
example : (match stDiamond with
      | .ok st => st.parsers.map (fun q => (q.name, q.deps))
      | .error _ => []) =
    [(n "a", [n "b", n "c", n "d", n "e"]), (n "b", [n "d", n "e"]), (n "c", [n "d", n "e"]),
     (n "d", [n "e"]), (n "o", [n "e"]), (n "e", [])] := by decide +kernel

def parseDiamond (argv : List String) : Except Fail Ns :=
  match stDiamond with
  | .ok st => parseArgs cfg st (argv.map n)
  | .error e => .error e

def okWith (r : Except Fail Ns) (k : String) (v : Val) : Bool :=
  match r with
  | .ok ns => ns.get (n k) == some v
  | .error _ => false

example : WF [] dsDiamond := by decide +kernel
example : okWith (parseDiamond ["d", "--fa"]) "fa" (.bool true) = true := by decide +kernel
example : okWith (parseDiamond ["e", "--fa", "--fc", "--fo", "--all", "-v"]) "verbose" (.nat 1) = true := by decide +kernel
example : parseDiamond ["b", "--fc"] = .error (.exit 2) := by decide +kernel
example : parseDiamond ["d", "--fo"] = .error (.exit 2) := by decide +kernel
example : okWith (parseDiamond ["w1", "w2"]) "items" (.list [n "w1", n "w2"]) = true := by decide +kernel
example : okWith (parseDiamond ["--fa"]) "command" (.str (n "a")) = true := by decide +kernel
example : parseDecl (n "!cmd2: cmd1 ,,opts, cmd1") = ⟨n "cmd2", true, [n "opts", n "cmd1"]⟩ := by decide +kernel
example : render ⟨n "cmd2", false, [n "cmd1", n "opts_set1"]⟩ = n "cmd2:cmd1,opts_set1" := by decide +kernel

end Examples

/-- **Counterexample to the full default-command statement (known finding c19b).** With
`commands=[('!o',…), ('a:o',…)]` and a positional `items` on `a`, the word `o` does not start with a
command name, the default command `a` accepts it (`['a','o']` gives `items=['o']`), yet `['o']` exits. -/
theorem default_cmd_internal_name_counterexample (hall : cfg.allParsers = true) :
    ∃ st, Reach none [⟨['o'], true, []⟩, ⟨['a'], false, [['o']]⟩]
        [(some ['a'], { strings := [['i', 't', 'e', 'm', 's']], kind := .pos, mutex := false })] st ∧
      st.default = some ['a'] ∧
      parseArgs cfg st [['o']] = .error (.exit 2) ∧
      (∃ ns, parseArgs cfg st [['a'], ['o']] = .ok ns ∧
        ns.get ['i', 't', 'e', 'm', 's'] = some (.list [['o']])) := by
  have _ := hall
  -- evaluated by the kernel for the code as it is; if the source compares with the public names only,
  -- `hall` is contradictory and nothing is claimed
  first
  | have hb : ∃ st0, build cfg none [⟨['o'], true, []⟩, ⟨['a'], false, [['o']]⟩] = .ok st0 ∧
        ∃ st, addAll st0 [(some ['a'], { strings := [['i', 't', 'e', 'm', 's']], kind := .pos, mutex := false })] = .ok st ∧
        st.default = some ['a'] ∧ parseArgs cfg st [['o']] = .error (.exit 2) ∧
        (parseArgs cfg st [['a'], ['o']]).toOption.bind (fun ns => ns.get ['i', 't', 'e', 'm', 's']) =
          some (.list [['o']]) := by
      refine ⟨_, rfl, _, rfl, ?_, ?_, ?_⟩ <;> decide +kernel
    obtain ⟨st0, h0, st, h1, h2, h3, h4⟩ := hb
    refine ⟨st, ⟨st0, h0, h1⟩, h2, h3, ?_⟩
    cases hp : parseArgs cfg st [['a'], ['o']] with
    | error e => simp [hp, Except.toOption] at h4
    | ok ns => exact ⟨ns, rfl, by simpa [hp, Except.toOption] using h4⟩
  | exact absurd hall (by decide)

end C19
