import AkVerif.Gen.C09
import AkVerif.Lemmas.SgrText
import AkVerif.Lemmas.SgrHist
import AkVerif.Lemmas.SgrResize
/-!
# C09 — emitted escape sequences are well-formed, self-contained and strippable

Property theorems only. `cfg`, `cls`, `fin` are the constants *generated from the source*
(`Gen.C09`: colour table, effect codes, the string literals of `_ColorSequences`, the character
class and the final character of the pattern in `strip_colors`). Three facts about them are
re-decided by the kernel whenever the source changes (`sgr_std`, `strip_final`, `strip_class`);
everything else is proved for all formatter arguments and all escape-free texts.

Vocabulary (`Model/Sgr.lean`): `interp s = some (cells, a)` — a terminal in default state that
receives `s` shows `cells` (character, attributes) and is left with attributes `a`; `none` — `s`
contains a lone ESC, an unterminated or an unknown sequence. `wantedAttr spec` — the attributes the
caller asked for (`none` = an invalid colour value). `NoEsc t` — `t` has no ESC character.
-/
namespace C09
open Sgr SgrText Ak

abbrev cfg : SgrCfg := Gen.C09.sgr
abbrev cls : CharClass := Gen.C09.stripClass
abbrev fin : Char := Gen.C09.stripFinal

/-- the constants in the source are the standard SGR ones: `ESC [ … m`, `;` between parameters,
`3x`/`4x` with the names in ECMA-48 order, `38:5:n`/`48:5:n`, effects 1 2 4 5 9, reset `ESC [ 0 m` -/
theorem sgr_std : cfg = Sgr.std := by decide +kernel

/-- the pattern of `strip_colors` ends with the final character of the emitted sequences, and that
character is not in the pattern's class (so the greedy star stops at it) -/
theorem strip_final : cfg.final = [fin] ∧ cls.mem fin = false := by decide +kernel

/-- key fact for stripping: every character that can stand between `ESC [` and the final
character of an emitted sequence (digits, `:` and `;`) is in the class of the pattern -/
theorem strip_class : ∀ c ∈ ';' :: codeAlphabet, cls.mem c = true := by decide +kernel

private theorem fin_m : fin = 'm' := by decide +kernel

/-! ## which values are accepted -/

/-- constructing a formatter yields a prefix/suffix pair or raises `ValueError`, nothing else -/
theorem mkSeq_total (s : Spec) :
    (∃ p q, mkSeq cfg s = .ok (p, q)) ∨ mkSeq cfg s = .error .valueError := by
  rw [sgr_std]
  cases h : wantedAttr s with
  | none => exact Or.inr (mkSeq_invalid s h)
  | some a => obtain ⟨p, q, hpq, _⟩ := mkSeq_shows s a h; exact Or.inl ⟨p, q, hpq⟩

/-- every colour value of the documented grammar is accepted (with any effects) -/
theorem valid_ok (s : Spec) (a : Attr) (h : wantedAttr s = some a) :
    ∃ p q, mkSeq cfg s = .ok (p, q) := by
  rw [sgr_std]
  obtain ⟨p, q, hpq, _⟩ := mkSeq_shows s a h
  exact ⟨p, q, hpq⟩

/-- anything else raises `ValueError` (unless `no_color` is set: then the colour arguments are
ignored, `wantedAttr` is `some default`) -/
theorem invalid_raises (s : Spec) (h : wantedAttr s = none) :
    mkSeq cfg s = .error .valueError := by
  rw [sgr_std]; exact mkSeq_invalid s h

/-- the valid colour values spelled out: `None`, the eight names, `0..255`, `(r,g,b)` - a tuple or a
list - with all components `int`s in `0..5`, and `g<decimal digits>` with value at most 23. Every
other value of any type (floats, sequences of another length or with a `float` / `None` / `str` /
other member, `dict`, `set`, `bytes`, any other object) is outside: by `invalid_raises` it raises
`ValueError` -/
theorem colour_domain (c : ColorSpec) :
    (wantedColour c).isSome = true ↔
      c = .none ∨ (∃ s ∈ stdNames, c = .str s) ∨ (∃ n : Int, 0 ≤ n ∧ n ≤ 255 ∧ c = .int n) ∨
      (∃ k, ∃ r g b : Int, (0 ≤ r ∧ r ≤ 5 ∧ 0 ≤ g ∧ g ≤ 5 ∧ 0 ≤ b ∧ b ≤ 5) ∧
        c = .tuple k [.int r, .int g, .int b]) ∨
      (∃ ds n, parseDec ds = some n ∧ n ≤ 23 ∧ c = .str ('g' :: ds)) :=
  wantedColour_domain c

/-- the parameter emitted for a colour: `3k`/`4k` for the k-th name, `38:5:n`/`48:5:n` with
`n` = the int itself, `16+36r+6g+b` for a tuple, `232+N` for `gN` (`n` is inside `wantedColour`) -/
theorem color_code (isBg : Bool) (c : ColorSpec) (col : Colour) (hc : c ≠ .none)
    (h : wantedColour c = some col) :
    seqElement cfg isBg c = .ok (elemOf isBg col) ∧
    parseParam (elemOf isBg col) = some (if isBg then .bg col else .fg col) := by
  rw [sgr_std, seqElement_spec isBg c hc, h]
  refine ⟨rfl, ?_⟩
  rcases wantedColour_wf c col h with ⟨h1, _⟩ | ⟨_, hwf⟩
  · exact absurd h1 hc
  · cases col with
    | dflt => exact absurd hwf (by simp [WFc])
    | basic k => simpa [actOf] using (basic_ok isBg k hwf).1
    | idx n => simpa [actOf] using (idx_ok isBg n hwf).1

/-! ## flag values -/

/-- effect flags and `no_color` act through their truth value only: with valid colours, an effect is
requested exactly when its argument is truthy (`1`, `2`, `"x"`, `[0]`, `1.5`, `True` — not `None`,
`False`, `0`, `0.0`, `""`, `[]`), and a truthy `no_color` of any kind switches everything off -/
theorem flags_by_truthiness (s : Spec) :
    (truthy s.noColorArg = true → wantedAttr s = some Attr.default ∧ mkSeq cfg s = .ok ([], [])) ∧
    (truthy s.noColorArg = false → ∀ a, wantedAttr s = some a →
      a.bold = truthy s.bold ∧ a.faint = truthy s.faint ∧ a.underline = truthy s.underline ∧
      a.blink = truthy s.blink ∧ a.crossed = truthy s.crossed) := by
  constructor
  · intro h
    have hn : s.noColor = true := h
    exact ⟨by simp [wantedAttr, hn], mkSeq_nocolor cfg s hn⟩
  · intro h a ha
    have hn : s.noColor = false := h
    obtain ⟨_, _, he⟩ := wantedAttr_colours s a hn ha
    rw [he]; simp

/-- two argument lists that differ only in the *kind* of the flag values (same truth values) make
the same formatter, for text and for bytes -/
theorem flag_kinds_irrelevant (s s' : Spec) (hfg : s.fg = s'.fg) (hbg : s.bg = s'.bg)
    (h1 : truthy s.bold = truthy s'.bold) (h2 : truthy s.faint = truthy s'.faint)
    (h3 : truthy s.underline = truthy s'.underline) (h4 : truthy s.blink = truthy s'.blink)
    (h5 : truthy s.crossed = truthy s'.crossed) (h6 : truthy s.noColorArg = truthy s'.noColorArg) :
    mkSeq cfg s = mkSeq cfg s' ∧ mkSeqBytes cfg s = mkSeqBytes cfg s' := by
  have hflag : ∀ e, truthy (s.flag e) = truthy (s'.flag e) := by
    intro e; cases e <;> simp [Spec.flag, h1, h2, h3, h4, h5]
  have he : effectCodes cfg s = effectCodes cfg s' := by simp only [effectCodes, hflag]
  have hn : s.noColor = s'.noColor := h6
  have : mkSeq cfg s = mkSeq cfg s' := by
    unfold mkSeq colorCodes
    rw [hn, hfg, hbg, he]
  exact ⟨this, by simp [mkSeqBytes, this]⟩

/-! ## formatters that must not emit anything -/

/-- a `no_color` formatter adds nothing: the output is the text itself, without any ESC -/
theorem nocolor_no_esc (s : Spec) (t : List Char) (h : s.noColor = true) (ht : NoEsc t) :
    ∃ c, mkChunk cfg s t = .ok c ∧ render [c] = t ∧ NoEsc (render [c]) := by
  refine ⟨⟨[], t, []⟩, ?_, by simp [render], by simpa [render] using ht⟩
  simp [mkChunk, mkSeq_nocolor cfg s h, Except.map]

/-- neither does a formatter that asks for nothing (`ColorFmt(None)`, effects `None`/`False`) -/
theorem plain_no_esc (s : Spec) (t : List Char) (h : wantedAttr s = some Attr.default) (ht : NoEsc t) :
    ∃ c, mkChunk cfg s t = .ok c ∧ render [c] = t ∧ NoEsc (render [c]) := by
  refine ⟨⟨[], t, []⟩, ?_, by simp [render], by simpa [render] using ht⟩
  rw [sgr_std]
  simp [mkChunk, plain_emits_nothing s h, Except.map]

/-! ## what the terminal shows -/

/-- one chunk: every character of the text is shown with exactly the requested attributes and the
terminal is back in default state at the end -/
theorem chunk_shows (s : Spec) (a : Attr) (t : List Char) (h : wantedAttr s = some a) (ht : NoEsc t) :
    ∃ c, mkChunk cfg s t = .ok c ∧
      interp (render [c]) = some (t.map (fun x => (x, a)), Attr.default) := by
  rw [sgr_std]
  obtain ⟨p, q, hpq, hp, hq⟩ := mkSeq_shows s a h
  refine ⟨⟨p, t, q⟩, by simp [mkChunk, hpq, Except.map], ?_⟩
  have := run_chunk ⟨p, t, q⟩ a ⟨hp, hq, ht⟩ []
  simpa [interp, render, run, prepend] using this

/-- no bleeding: whatever follows a chunk is interpreted exactly as by a terminal in default state -/
theorem chunk_resets (s : Spec) (a : Attr) (t rest : List Char) (h : wantedAttr s = some a)
    (ht : NoEsc t) :
    ∃ c, mkChunk cfg s t = .ok c ∧
      interp (render [c] ++ rest) = prepend (t.map fun x => (x, a)) (interp rest) := by
  rw [sgr_std]
  obtain ⟨p, q, hpq, hp, hq⟩ := mkSeq_shows s a h
  refine ⟨⟨p, t, q⟩, by simp [mkChunk, hpq, Except.map], ?_⟩
  have := run_chunk ⟨p, t, q⟩ a ⟨hp, hq, ht⟩ rest
  simpa [interp, render] using this

/-- a `CHText` built from any parts (also with empty texts, also when neighbours with equal
prefixes are merged): the screen shows the texts of the parts in order, each with the attributes
requested for it, the terminal ends in default state, and it is in default state after every chunk
of the result (the text cut after any number of chunks still ends in default state) -/
theorem text_shows (parts : List (Spec × List Char)) (cells : List (Char × Attr))
    (hw : wantedCells parts = some cells) (ht : ∀ p ∈ parts, NoEsc p.2) :
    ∃ cs, mkChunks cfg parts = .ok cs ∧
      interp (render (buildChunks cs)) = some (cells, Attr.default) ∧
      ∀ k, ∃ shown, interp (render ((buildChunks cs).take k)) = some (shown, Attr.default) := by
  rw [sgr_std]
  obtain ⟨gs, hgs, hgood, hcells⟩ := mkChunks_good parts cells hw ht
  refine ⟨_, hgs, ?_, ?_⟩
  · have := buildGo_none_shows gs hgood []
    simpa [interp, buildChunks, run, prepend, hcells] using this
  · intro k
    apply render_resets
    have hall : AllChunks (fun p q => ∃ a, PreShows p a ∧ SufResets q a) (gs.map Prod.fst) := by
      intro c hc
      obtain ⟨g, hg, rfl⟩ := List.mem_map.mp hc
      obtain ⟨h1, h2, h3⟩ := hgood g hg
      exact ⟨⟨g.2, h1, h2⟩, h3⟩
    have := buildGo_inv _ none (gs.map Prod.fst) (by simp) hall
    intro c hc
    exact this c (List.mem_of_mem_take hc)

/-- a part with an invalid colour value makes the construction raise `ValueError` -/
theorem text_invalid (parts : List (Spec × List Char)) (hw : wantedCells parts = none) :
    mkChunks cfg parts = .error .valueError := by
  rw [sgr_std]; exact mkChunks_invalid parts hw

/-! ## strip_colors -/

/-- text without ESC is left alone -/
theorem strip_plain (t : List Char) (ht : NoEsc t) : strip cls fin t = t := by
  have := strip_text cls fin t [] ht
  simpa [strip_nil] using this

private theorem strippable (s : Spec) (p q : List Char) (h : mkSeq Sgr.std s = .ok (p, q)) :
    Strippable cls fin p ∧ Strippable cls fin q :=
  mkSeq_strippable cls fin strip_class fin_m strip_final.2 s p q h

/-- `strip_colors(str(fmt(text))) == text` for every formatter that can be constructed -/
theorem strip_chunk (s : Spec) (t : List Char) (c : Chunk) (h : mkChunk cfg s t = .ok c) (ht : NoEsc t) :
    strip cls fin (render [c]) = t := by
  rw [sgr_std] at h
  simp only [mkChunk] at h
  cases hs : mkSeq Sgr.std s with
  | error e => simp [hs, Except.map] at h
  | ok pq =>
    obtain ⟨p, q⟩ := pq
    simp [hs, Except.map] at h; subst h
    obtain ⟨hp, hq⟩ := strippable s p q hs
    simp only [render, List.append_nil, List.append_assoc]
    rw [hp, strip_text cls fin t q ht]
    have := hq []
    simp only [List.append_nil] at this
    rw [this]; simp [strip_nil]

/-- `strip_colors(str(x)) == x.plain_text()` for every `CHText` `x`, and the plain text is the
concatenation of the parts' texts -/
theorem strip_render (parts : List (Spec × List Char)) (cs : List Chunk)
    (h : mkChunks cfg parts = .ok cs) (ht : ∀ p ∈ parts, NoEsc p.2) :
    strip cls fin (render (buildChunks cs)) = plain (buildChunks cs) ∧
    plain (buildChunks cs) = parts.flatMap Prod.snd := by
  rw [sgr_std] at h
  obtain ⟨hall, hplain⟩ :=
    mkChunks_inv (fun p q => Strippable cls fin p ∧ Strippable cls fin q) strippable parts cs h ht
  have hb : AllChunks _ (buildChunks cs) := buildGo_inv _ none cs (by simp) hall
  have := Sgr.strip_render cls fin (buildChunks cs) hb []
  refine ⟨by simpa [strip_nil] using this, ?_⟩
  rw [buildChunks, plain_buildGo]; simpa using hplain

/-- the same inside a longer string: coloured text embedded between escape-free text `u` and
anything `v` is replaced by its plain text, and stripping continues with `v` -/
theorem strip_text (parts : List (Spec × List Char)) (cs : List Chunk) (u v : List Char)
    (h : mkChunks cfg parts = .ok cs) (ht : ∀ p ∈ parts, NoEsc p.2) (hu : NoEsc u) :
    strip cls fin (u ++ render (buildChunks cs) ++ v) =
      u ++ plain (buildChunks cs) ++ strip cls fin v := by
  rw [sgr_std] at h
  obtain ⟨hall, _⟩ :=
    mkChunks_inv (fun p q => Strippable cls fin p ∧ Strippable cls fin q) strippable parts cs h ht
  have hb : AllChunks _ (buildChunks cs) := buildGo_inv _ none cs (by simp) hall
  rw [List.append_assoc, Sgr.strip_text cls fin u _ hu, Sgr.strip_render cls fin _ hb v]
  simp

/-- the same for *any* list of chunks whose prefix/suffix pairs were made by formatters, however
the `CHText` operations (slicing, joining, padding, merging, …) arranged their texts — empty texts
and unmerged neighbours included: each chunk's text is shown with the attributes of its formatter,
the terminal ends in default state, and stripping gives the plain text -/
theorem chunks_show (gs : List (Chunk × Attr))
    (h : ∀ g ∈ gs, NoEsc g.1.text ∧
      ∃ s, wantedAttr s = some g.2 ∧ mkSeq cfg s = .ok (g.1.pre, g.1.suf)) :
    interp (render (gs.map Prod.fst)) = some (cellsOf gs, Attr.default) ∧
    strip cls fin (render (gs.map Prod.fst)) = plain (gs.map Prod.fst) := by
  rw [sgr_std] at h
  constructor
  · have hg : ∀ g ∈ gs, Good g.1 g.2 := by
      intro g hgm
      obtain ⟨ht, s, hw, hs⟩ := h g hgm
      obtain ⟨p, q, hpq, hp, hq⟩ := mkSeq_shows s g.2 hw
      rw [hs] at hpq
      cases hpq
      exact ⟨hp, hq, ht⟩
    have := render_shows gs hg []
    simpa [interp, run, prepend] using this
  · have hall : AllChunks (fun p q => Strippable cls fin p ∧ Strippable cls fin q) (gs.map Prod.fst) := by
      intro c hc
      obtain ⟨g, hgm, rfl⟩ := List.mem_map.mp hc
      obtain ⟨ht, s, _, hs⟩ := h g hgm
      exact ⟨mkSeq_strippable cls fin strip_class fin_m strip_final.2 s _ _ hs, ht⟩
    have := Sgr.strip_render cls fin _ hall []
    simpa [strip_nil] using this

/-! ## any `CHText` value, histories of one object, several calls in one process -/

/-- `CHText` values of the C08 model (`Model/CHText.lean`: chunks = colour id + text) rendered with
the sequences of the formatters the colour ids stand for. For **every** value `t` — whatever tree of
operations (`+`, `+=`, `join`, slicing, `fixed_len`, iteration, …; `CHText.eval`) produced it,
canonical or not — whose plain text has no ESC: if it can be rendered at all (all colour ids are in
the palette), the terminal shows exactly the cells of `t`, each with the attributes requested from
the formatter of its colour id, ends in default state, and `strip_colors(str(t)) == t.plain_text()`. -/
theorem value_shows (specs : List Spec) (pal : Palette) (attrs : List Attr)
    (hp : mkPalette cfg specs = .ok pal) (ha : wantedAttrs specs = some attrs)
    (t : CHText.Text) (s : List Char) (hr : renderText pal t = some s) (hne : NoEsc (plainText t)) :
    ∃ screen, screenOf attrs t.cells = some screen ∧
      interp s = some (screen, Attr.default) ∧ strip cls fin s = plainText t := by
  rw [sgr_std] at hp
  have hg := palGood_of_specs cls fin strip_class fin_m strip_final.2 specs pal attrs hp ha
  simp only [renderText] at hr
  cases hc : toChunks pal t.chunks with
  | none => simp [hc] at hr
  | some scs =>
    simp [hc] at hr; subst hr
    obtain ⟨screen, h1, h2, h3⟩ := toChunks_shows cls fin pal attrs hg t.chunks scs hc hne
    refine ⟨screen, h1, ?_, ?_⟩
    · have := h2 []
      simpa [interp, run, prepend] using this
    · have := h3 []
      simpa [strip_nil, plainText, CHText.Text.cells] using this

/-- **the judged path of the driver.** The observable `cht` / `make` / `hist` / `ops` lines carry the
chunk list the real object reports, and the driver answers with `renderGiven` of that list. For every
given list whose chunks are escape-free and either name a formatter of the line's (valid) palette or
are `raw` chunks passing the well-formedness test the driver makes (`rawOk`: the prefix is one SGR
sequence of parameters the terminal accepts, the suffix one that resets from there): the terminal
shows exactly the given characters, each chunk's with the attributes of its formatter (raw: of its
prefix), is in default state after every chunk (the rendering cut after any number of chunks ends in
default state) and at the end, and stripping gives the concatenated chunk texts. -/
theorem given_shows (specs : List Spec) (pal : Palette) (attrs : List Attr)
    (hp : mkPalette cfg specs = .ok pal) (ha : wantedAttrs specs = some attrs)
    (gs : List Given) (s : List Char) (hr : renderGiven pal gs = some s)
    (hok : ∀ g ∈ gs, g.ok = true) (hne : ∀ g ∈ gs, NoEsc g.text) :
    ∃ screen cs, givenChunks pal gs = some cs ∧ s = render cs ∧
      givenScreen attrs gs = some screen ∧ screen.map Prod.fst = gs.flatMap Given.text ∧
      interp s = some (screen, Attr.default) ∧
      (∀ k, ∃ shown, interp (render (cs.take k)) = some (shown, Attr.default)) ∧
      strip cls fin s = gs.flatMap Given.text ∧ plain cs = gs.flatMap Given.text := by
  rw [sgr_std] at hp
  have hg := palGood_of_specs cls fin strip_class fin_m strip_final.2 specs pal attrs hp ha
  simp only [renderGiven] at hr
  cases hc : givenChunks pal gs with
  | none => simp [hc] at hr
  | some cs =>
    simp [hc] at hr; subst hr
    obtain ⟨screen, h1, h2, h3, h4, h5⟩ :=
      SgrText.given_shows cls fin strip_class fin_m strip_final.2 pal attrs hg gs cs hc hok hne
    have hint : interp (render cs) = some (screen, Attr.default) := by
      have := h2 []
      simpa [interp, run, prepend] using this
    have hchars : screen.map Prod.fst = gs.flatMap Given.text := by
      clear h2 h3 h4 h5 hint hc hok hne
      induction gs generalizing screen with
      | nil => simp [givenScreen] at h1; subst h1; rfl
      | cons g gs ih =>
        simp only [givenScreen] at h1
        cases hga : g.attr attrs with
        | none => simp [hga] at h1
        | some a =>
          cases hrest : givenScreen attrs gs with
          | none => simp [hga, hrest] at h1
          | some r =>
            simp [hga, hrest] at h1; subst h1
            simp [ih r hrest, List.map_map, Function.comp_def]
    refine ⟨screen, cs, rfl, rfl, h1, hchars, hint, ?_, ?_, h5⟩
    · intro k
      apply render_resets
      intro c hcm
      exact h3 c (List.mem_of_mem_take hcm)
    · have := h4 []
      simpa [strip_nil] using this

/-- the same function on `CHText` values: `renderText` (the subject of `value_shows`) is
`renderGiven` of the value's own chunks, so the judged path and the theorem about every value of
the C08 model speak about one rendering -/
theorem given_of_value (pal : Palette) (t : CHText.Text) :
    renderText pal t = renderGiven pal (t.chunks.map fun c => Given.byId c.col c.text) := by
  simp only [renderText, renderGiven, toChunks_given]

/-- a palette with an invalid colour value cannot be made: `ValueError` -/
theorem palette_invalid (specs : List Spec) (h : wantedAttrs specs = none) :
    mkPalette cfg specs = .error .valueError := by
  rw [sgr_std]; exact mkPalette_invalid specs h

/-- the CHText model (C08) identifies a chunk's type with a colour id, the code compares prefix
strings. For every palette the driver accepts (`palOk`: prefixes non-empty and pairwise different)
both agree: building a `CHText` from chunk objects the way the code does (`buildChunks`: drop empty
texts, merge when the *prefixes* are equal) gives exactly the chunk list of the model's constructor
(`CHText.fromChunks`: merge when the *ids* are equal) seen through the palette -/
theorem abstraction_sound (pal : Palette) (h : palOk pal = true) (cs : List CHText.Chunk)
    (hids : ∀ d ∈ cs, d.col < pal.length + 1) :
    ∃ objs out, toChunks pal cs = some objs ∧
      toChunks pal (CHText.fromChunks cs).chunks = some out ∧ buildChunks objs = out := by
  have hinj := palOk_inj pal h
  have hcols : ∀ d ∈ (CHText.fromChunks cs).chunks, d.col < pal.length + 1 := by
    intro d hd
    rcases appendChunks_cols CHText.Text.empty cs d hd with ⟨e, he, _⟩ | ⟨e, he, hcol⟩
    · simp [CHText.Text.empty] at he
    · rw [hcol]; exact hids e he
  refine ⟨_, _, toChunks_eq_map pal cs hids, toChunks_eq_map pal _ hcols, ?_⟩
  exact fromChunks_map (prefixOf pal) (suffixOf pal) _ hinj cs
    (fun d hd => List.mem_range.mpr (hids d hd))

/-- one object, any history of `+=` (chunk, str, itself, a list holding itself), `CHText(x)` and
observations in between: at **every** observation the object holds exactly the cells appended so far
(`histCells`: plain list concatenation), and its rendering shows them with the requested attributes,
ends in default state and strips to its plain text. What is rendered depends on the current value
only — never on whether or when the object was rendered before. -/
theorem hist_shows (specs : List Spec) (pal : Palette) (attrs : List Attr)
    (hp : mkPalette cfg specs = .ok pal) (ha : wantedAttrs specs = some attrs) (ops : List HOp) :
    (histRun CHText.Text.empty ops).map CHText.Text.cells = histCells [] ops ∧
    ∀ t ∈ histRun CHText.Text.empty ops, ∀ s, renderText pal t = some s → NoEsc (plainText t) →
      ∃ screen, screenOf attrs t.cells = some screen ∧
        interp s = some (screen, Attr.default) ∧ strip cls fin s = plainText t :=
  ⟨histRun_cells CHText.Text.empty ops, fun t _ s hr hne => value_shows specs pal attrs hp ha t s hr hne⟩

/-- the package keeps no state between calls: in any sequence of calls in one process the answer to
a call is what the same call answers alone — a formatter is constructed (or `ValueError` is raised)
from its own arguments only, an object used again formats with the arguments it was made from, and
the shared plain-text formatter never adds anything -/
theorem calls_stateless (calls : List Call) (i : Nat) :
    (∀ s t, calls[i]? = some (.fmt s t) →
      (runCalls cfg [] calls)[i]? = some (callFmt cfg s t).1) ∧
    (∀ s b, calls[i]? = some (.bytes s b) →
      (runCalls cfg [] calls)[i]? = some (callBytes cfg s b)) ∧
    (∀ k t s t0, calls[i]? = some (.again k t) → k < i → calls[k]? = some (.fmt s t0) →
      (runCalls cfg [] calls)[i]? =
        some (match mkSeq cfg s with
              | .ok (p, q) => .str (p ++ t ++ q)
              | .error _ => .noObject)) ∧
    (∀ t, calls[i]? = some (.plain t) → (runCalls cfg [] calls)[i]? = some (.str t)) := by
  refine ⟨?_, ?_, ?_, ?_⟩
  · intro s t h
    simpa [answer] using runCalls_get cfg [] calls i _ h
  · intro s b h
    simpa [answer] using runCalls_get cfg [] calls i _ h
  · intro k t s t0 h hk hk0
    have := runCalls_get cfg [] calls i _ h
    rw [this]
    have hobj : ((calls.take i).map (objOf cfg))[k]? = some (objOf cfg (.fmt s t0)) := by
      simp [List.getElem?_map, hk, hk0]
    simp only [answer, List.nil_append, callAgain, hobj, objOf, callFmt]
    cases mkSeq cfg s with
    | error e => rfl
    | ok pq => obtain ⟨p, q⟩ := pq; rfl
  · intro t h
    have := runCalls_get cfg [] calls i _ h
    rw [this]
    have hp : mkSeq cfg plainSpec = .ok ([], []) := by
      rw [sgr_std]; exact plain_emits_nothing plainSpec (by decide)
    simp [answer, callFmt, hp]

/-- hence an invalid colour value raises `ValueError` wherever the call stands, whatever valid or
invalid calls (with equal-looking values or not) came before it -/
theorem invalid_raises_always (calls : List Call) (i : Nat) (s : Spec) (t : List Char)
    (h : calls[i]? = some (.fmt s t)) (hw : wantedAttr s = none) :
    (runCalls cfg [] calls)[i]? = some (.err .valueError) := by
  rw [(calls_stateless calls i).1 s t h]
  simp [callFmt, invalid_raises s hw]

/-! ## the other constructor and the routes from a formatter's result to a string -/

/-- `CHText.make([chunks])` (neighbours of the same type merged, empty chunks kept): the screen shows
the texts of the chunks in order, each with the attributes requested for *its* formatter — an empty
chunk never lends its colour to a neighbour —, default state after every chunk of the result and at
the end, and stripping gives the concatenated texts -/
theorem make_shows (parts : List (Spec × List Char)) (cells : List (Char × Attr))
    (hw : wantedCells parts = some cells) (ht : ∀ p ∈ parts, NoEsc p.2) :
    ∃ cs, mkChunks cfg parts = .ok cs ∧
      interp (render (mergeChunks cs)) = some (cells, Attr.default) ∧
      (∀ k, ∃ shown, interp (render ((mergeChunks cs).take k)) = some (shown, Attr.default)) ∧
      strip cls fin (render (mergeChunks cs)) = parts.flatMap Prod.snd := by
  rw [sgr_std]
  obtain ⟨gs, hgs, hgood, hcells⟩ := mkChunks_good parts cells hw ht
  have hstr := mkChunks_inv (fun p q => Strippable cls fin p ∧ Strippable cls fin q) strippable parts _ hgs ht
  refine ⟨_, hgs, ?_, ?_, ?_⟩
  · cases gs with
    | nil => simp [mergeChunks, render, interp, run, cellsOf] at hcells ⊢; exact hcells
    | cons g gs =>
      have := mergeGo_shows gs (fun x hx => hgood x (by simp [hx])) g.1 g.2 (hgood g (by simp)) []
      simp only [List.map_cons, mergeChunks]
      simpa [interp, run, prepend, cellsOf, ← hcells] using this
  · intro k
    apply render_resets
    have hall : AllChunks (fun p q => ∃ a, PreShows p a ∧ SufResets q a) (gs.map Prod.fst) := by
      intro c hc
      obtain ⟨g, hg, rfl⟩ := List.mem_map.mp hc
      obtain ⟨h1, h2, h3⟩ := hgood g hg
      exact ⟨⟨g.2, h1, h2⟩, h3⟩
    have hm : AllChunks (fun p q => ∃ a, PreShows p a ∧ SufResets q a) (mergeChunks (gs.map Prod.fst)) := by
      cases hgl : gs.map Prod.fst with
      | nil => intro c hc; simp [mergeChunks] at hc
      | cons c cs =>
        rw [hgl] at hall
        exact mergeGo_inv _ c cs (hall c (by simp)) (fun x hx => hall x (by simp [hx]))
    intro c hc
    exact hm c (List.mem_of_mem_take hc)
  · obtain ⟨hall, hplain⟩ := hstr
    have hm : AllChunks (fun p q => Strippable cls fin p ∧ Strippable cls fin q) (mergeChunks (gs.map Prod.fst)) ∧
        plain (mergeChunks (gs.map Prod.fst)) = plain (gs.map Prod.fst) := by
      cases hgl : gs.map Prod.fst with
      | nil => exact ⟨by intro c hc; simp [mergeChunks] at hc, rfl⟩
      | cons c cs =>
        rw [hgl] at hall
        exact ⟨mergeGo_inv _ c cs (hall c (by simp)) (fun x hx => hall x (by simp [hx])),
          by simp [mergeChunks, plain_mergeGo, plain]⟩
    have := Sgr.strip_render cls fin _ hm.1 []
    rw [← hplain, ← hm.2]
    simpa [strip_nil] using this

/-- every route from `x = fmt(text)` to a string — `str(x)`, `'%s' % x` (the chunk itself) or
`f"{x}"`, `format(x, spec)`, `x + s`, `s + x` (through `CHText(x)`) — with whatever the route writes
to the left and to the right of the chunk (fill characters of the format spec, the added `str`):
the text is shown with the requested attributes, **everything around it with default attributes**,
the terminal ends in default state, and stripping gives left + text + right. A chunk's own
`__format__` is the `CHText` one of the one-chunk text: the same `routeStr`. -/
theorem route_shows (s : Spec) (a : Attr) (t l r : List Char) (rt : Route)
    (h : wantedAttr s = some a) (ht : NoEsc t) (hl : NoEsc l) (hr : NoEsc r) :
    ∃ c, mkChunk cfg s t = .ok c ∧
      interp (routeStr l r c rt) =
        some (l.map (fun x => (x, Attr.default)) ++ t.map (fun x => (x, a)) ++
              r.map (fun x => (x, Attr.default)), Attr.default) ∧
      strip cls fin (routeStr l r c rt) = l ++ t ++ r := by
  rw [sgr_std]
  obtain ⟨p, q, hpq, hp, hq⟩ := mkSeq_shows s a h
  obtain ⟨hsp, hsq⟩ := strippable s p q hpq
  refine ⟨⟨p, t, q⟩, by simp [mkChunk, hpq, Except.map], ?_, ?_⟩
  · exact routeStr_shows l r ⟨p, t, q⟩ a rt ⟨hp, hq, ht⟩ hl hr
  · exact routeStr_strip cls fin l r ⟨p, t, q⟩ rt hsp hsq hl hr ht

/-! ## chunk lists that pass through a public list helper before they are rendered -/

/-- `CHText.resize_chunks_list(chunks, new_len)` (any number of times, any lengths) between the
formatters and the string: the chunks come from the formatters themselves or from the `chunks` of
`CHText(*parts)`, the returned list is printed through `CHText.make(res)`, `CHText(*res)` or chunk by
chunk. The screen shows the requested cells cut to the new length - a chunk cut in the middle keeps
exactly its formatter's attributes - or **followed by blanks in default state**: the padding is
never inside the sequences of the last coloured chunk. Default state after every chunk of the
result and at the end; stripping gives the shown characters. -/
theorem resize_shows (parts : List (Spec × List Char)) (cells : List (Char × Attr))
    (hw : wantedCells parts = some cells) (ht : ∀ p ∈ parts, NoEsc p.2)
    (src : Source) (lens : List Nat) (sink : Sink) :
    ∃ cs, mkChunks cfg parts = .ok cs ∧
      interp (listStr src lens sink cs) = some (fitAll cells lens, Attr.default) ∧
      (∀ n, ∃ shown, interp (render ((listChunks src lens sink cs).take n)) = some (shown, Attr.default)) ∧
      strip cls fin (listStr src lens sink cs) = (fitAll cells lens).map Prod.fst := by
  rw [sgr_std]
  obtain ⟨gs, hgs, hgood, hcells⟩ := mkChunks_good parts cells hw ht
  obtain ⟨hstr, _⟩ :=
    mkChunks_inv (fun p q => Strippable cls fin p ∧ Strippable cls fin q) strippable parts _ hgs ht
  have hshows : Shows cls fin (gs.map Prod.fst) cells :=
    ⟨gs, rfl, fun g hg => ⟨hgood g hg, (hstr g.1 (List.mem_map_of_mem hg)).1.1,
      (hstr g.1 (List.mem_map_of_mem hg)).1.2⟩, hcells⟩
  exact ⟨_, hgs, (listChunks_shows src lens sink hshows).screen⟩

/-- the two modes of the helper spelled out on the screen: a longer length appends blanks with default
attributes to the unchanged cells, a shorter one keeps the first `n` cells unchanged -/
theorem resize_modes (cells : List (Char × Attr)) (n : Nat) :
    (cells.length ≤ n → fitCells cells n = cells ++ List.replicate (n - cells.length) (' ', Attr.default)) ∧
    (n ≤ cells.length → fitCells cells n = cells.take n) := by
  constructor
  · intro h; simp only [fitCells]; rw [List.take_of_length_le h]
  · intro h
    have : n - cells.length = 0 := by omega
    simp [fitCells, this]

/-! ## bytes -/

/-- `ColorBytes` emits the same sequences as `ColorFmt`: all their characters are ASCII, so the
encoded prefix/suffix are the same code units one by one; and it raises exactly when `ColorFmt` does -/
theorem bytes_same (s : Spec) :
    (∀ p q, mkSeq cfg s = .ok (p, q) →
      mkSeqBytes cfg s = .ok (p.map toByte, q.map toByte) ∧ ∀ c ∈ p ++ q, c.toNat < 128) ∧
    (∀ e, mkSeq cfg s = .error e → mkSeqBytes cfg s = .error e) := by
  constructor
  · intro p q h
    have hch : ∀ c ∈ p ++ q, c.toNat < 128 := fun c hc =>
      seqAlphabet_ascii c (mkSeq_chars s p q (by rw [← sgr_std]; exact h) c hc)
    refine ⟨?_, hch⟩
    simp only [mkSeqBytes, h, Except.map]
    rw [encodeUtf8_ascii p (fun c hc => hch c (by simp [hc])),
      encodeUtf8_ascii q (fun c hc => hch c (by simp [hc]))]
  · intro e h
    simp [mkSeqBytes, h, Except.map]

/-! Non-vacuity: concrete formatters evaluated by the kernel (the hypotheses are satisfiable and
the conclusions are the expected literal sequences). -/

private def red : Spec := ⟨.str "RED".toList, .none, .none, .none, .none, .none, .none, .bool false⟩
private def fancy : Spec :=
  ⟨.tuple .list [.int 1, .int 2, .int 3], .str "g5".toList, .bool true, .none, .bool false, .list 0, .str "x".toList, .int 0⟩

example : wantedAttr red = some ⟨.basic 1, .dflt, false, false, false, false, false⟩ := by decide +kernel
example : (mkChunk cfg red "x".toList).map (fun c => render [c]) =
    .ok [ESC, '[', '3', '1', 'm', 'x', ESC, '[', '0', 'm'] := by decide +kernel
example : wantedAttr fancy = some ⟨.idx 67, .idx 237, true, false, false, false, true⟩ := by decide +kernel
example : (mkChunk cfg fancy "ab".toList).map (fun c => render [c]) =
    .ok ([ESC] ++ "[38:5:67;48:5:237;1;9mab".toList ++ [ESC] ++ "[0m".toList) := by decide +kernel
example : interp ([ESC] ++ "[38:5:67;48:5:237;1;9mab".toList ++ [ESC] ++ "[0m".toList) =
    some ([('a', ⟨.idx 67, .idx 237, true, false, false, false, true⟩),
           ('b', ⟨.idx 67, .idx 237, true, false, false, false, true⟩)], Attr.default) := by decide +kernel
example : strip cls fin ([ESC] ++ "[38:5:67;48:5:237;1;9mab".toList ++ [ESC] ++ "[0m".toList) = "ab".toList := by
  decide +kernel
example : wantedAttr { red with fg := .int 256 } = none := by decide +kernel
example : mkSeq cfg { red with fg := .str "g24".toList } = .error .valueError := by decide +kernel
example : mkSeq cfg { red with bg := .tuple .tuple [.int 0, .int 6, .int 0] } = .error .valueError := by decide +kernel
example : mkSeq cfg { red with bg := .tuple .tuple [.other, .int 1, .int 2] } = .error .valueError := by decide +kernel
example : mkSeq cfg { red with fg := .tuple .list [.int 1, .flt 2 1, .int 3] } = .error .valueError := by decide +kernel
example : mkSeq cfg { red with fg := .other } = .error .valueError := by decide +kernel
example : wantedColour (.tuple .list [.int 1, .int 2, .int 3]) = wantedColour (.tuple .tuple [.int 1, .int 2, .int 3]) := by
  decide +kernel
example : interp ([ESC] ++ "[31mx".toList) = some ([('x', ⟨.basic 1, .dflt, false, false, false, false, false⟩)],
    ⟨.basic 1, .dflt, false, false, false, false, false⟩) := by decide +kernel   -- colour would bleed
example : interp ([ESC] ++ "[38;5;1mx".toList) = none := by decide +kernel     -- not in the modelled subset

private def onBlue : Spec := ⟨.none, .str "BLUE".toList, .none, .none, .none, .none, .none, .bool false⟩
-- padding a list that ends with a coloured chunk: the blanks stand after the reset sequence
example : (mkChunks cfg [(red, "ab".toList), (onBlue, "t0".toList)]).map (listStr .fmts [6] .make) =
    .ok ([ESC] ++ "[31mab".toList ++ [ESC] ++ "[0m".toList ++ [ESC] ++ "[44mt0".toList ++ [ESC] ++ "[0m  ".toList) := by
  decide +kernel
-- truncation inside the second chunk (the statement after the loop appends an empty plain chunk)
example : (mkChunks cfg [(red, "ab".toList), (onBlue, "t0".toList)]).map (listStr .obj [3] .join) =
    .ok ([ESC] ++ "[31mab".toList ++ [ESC] ++ "[0m".toList ++ [ESC] ++ "[44mt".toList ++ [ESC] ++ "[0m".toList) := by
  decide +kernel
example : fitAll [('a', Attr.default)] [3, 2] = [('a', Attr.default), (' ', Attr.default)] := by decide +kernel

end C09
