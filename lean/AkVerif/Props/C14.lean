import AkVerif.Lemmas.ColorsConfReentrant
import AkVerif.Lemmas.ColorsConfMulti
import AkVerif.Lemmas.ColorsConfFlatten
import AkVerif.Lemmas.ColorsConfMultiSrc
/-!
# C14 — syntax colors resolve by inheritance, independent of registration order

Property theorems only.  A *history* is `run classes noColor cfg ops`: the constructor
`ColorsConfig(cfg, no_color=noColor)` (explicit configuration, then `BUILT_IN_CONFIG`) followed by any
list of operations `add` (`add_new_items`), `reg` (`register_color_conf_component`), `pal`
(creation of a palette of a class from the table `classes`, which registers the defaults of the class
and of its `PARENT_PALETTES` on first use) and `get`.  Every theorem is about the state `w` reached by
an arbitrary history that did not raise (`= .ok w`); `C14.no_error_*` say when a history does not raise.

The *final set of descriptions* of `w` is `descOf w.conf.map`: for every registered id the parsed form
of the description string that was registered first (`final_set`, `explicit_wins`).
`Resolves`/`SpecColor` (Model/ColorsConf.lean, part 5) are the declarative reading of the statement.
-/
namespace C14
open ColorsConf Ak

/-- the final set of descriptions held by the configuration of `w` -/
abbrev finalDescs (w : World) : Id → Option Desc := descOf w.conf.map

/-- the attributes `resolve` has left in the entry of `id` (`none`: unknown or still pending) -/
def resolvedOf (w : World) (id : Id) : Option Resolved :=
  ((lookup w.conf.map id).bind (·.res)).map (·.eff)

/-- **Resolution is the declarative one.** After any history (any split of the descriptions between the
constructor and later registrations, any order, palettes created in between) `get_color(id)` is what
`SpecColor` reads off the final set of descriptions alone: the formatter of the attributes
`Resolves` derives along the whole reference chain (own colour/background/modifiers override, `""`
inherits, `"-"` is the terminal default), the default syntax for an unknown id, no effect when the
chain does not end in a description without reference. -/
theorem resolve_spec (classes : List ClassDef) (nc : Bool) (cfg : Cfg) (ops : List Op) (w : World)
    (h : run classes nc cfg ops = .ok w) (id : Id) :
    SpecColor nc (finalDescs w) id (getColor w.conf id) := by
  obtain ⟨hg, hnc⟩ := run_good h
  have := getColor_spec hg.conf.good id
  rwa [hnc] at this

/-- the same for the stored attributes: an entry is resolved exactly when its id `Resolves`, with exactly
those attributes, and its formatter is the formatter of those attributes -/
theorem resolve_entries (classes : List ClassDef) (nc : Bool) (cfg : Cfg) (ops : List Op) (w : World)
    (h : run classes nc cfg ops = .ok w) (id : Id) (r : Resolved) :
    Resolves (finalDescs w) id r ↔
      ∃ e f, lookup w.conf.map id = some e ∧ e.res = some ⟨r, f⟩ ∧ mkFmt nc r = .ok f := by
  obtain ⟨hg, hnc⟩ := run_good h
  constructor
  · intro hr
    obtain ⟨e, rr, hl, hres⟩ := hg.conf.good.complete id r hr
    obtain ⟨h1, h2⟩ := hg.conf.good.sound id e rr hl hres
    have : rr.eff = r := h1.det hr
    obtain ⟨eff, f⟩ := rr
    simp at this; subst this
    exact ⟨e, f, hl, hres, by rw [← hnc]; exact h2⟩
  · rintro ⟨e, f, hl, hres, _⟩
    exact (hg.conf.good.sound id e ⟨r, f⟩ hl hres).1

/-- … and as a function: following the parent chain with enough fuel computes the stored attributes
(for any amount of fuel above some bound) -/
theorem resolve_fn (classes : List ClassDef) (nc : Bool) (cfg : Cfg) (ops : List Op) (w : World)
    (h : run classes nc cfg ops = .ok w) (id : Id) :
    ∃ n, ∀ k, n ≤ k → resolveSpec (finalDescs w) k id = resolvedOf w id := by
  obtain ⟨hg, _⟩ := run_good h
  cases hr : resolvedOf w id with
  | some r =>
    have hres : Resolves (finalDescs w) id r := by
      unfold resolvedOf at hr
      cases hl : lookup w.conf.map id with
      | none => simp [hl] at hr
      | some e =>
        cases he : e.res with
        | none => simp [hl, he] at hr
        | some rr =>
          simp [hl, he] at hr
          rw [← hr]
          exact (hg.conf.good.sound id e rr hl he).1
    obtain ⟨n, hn⟩ := resolveSpec_complete hres
    exact ⟨n, fun k hk => resolveSpec_mono_le hk hn⟩
  | none =>
    refine ⟨0, fun k _ => ?_⟩
    cases hk : resolveSpec (finalDescs w) k id with
    | none => rfl
    | some r =>
      obtain ⟨e, rr, hl, hres⟩ := hg.conf.good.complete id r (resolveSpec_sound k id r hk)
      simp [resolvedOf, hl, hres] at hr

/-- **The final set.** The parsed description of an id is the parsed form of its registered string, and
for histories without palette creation the registered string is the first one offered in the sequence
explicit configuration, built-ins, later registrations (first registration wins). -/
theorem final_set (classes : List ClassDef) (nc : Bool) (cfg : Cfg) (ops : List Op) (w : World)
    (h : run classes nc cfg ops = .ok w) :
    (∀ id, finalDescs w id = (strOf w.conf.map id).bind parsed) ∧
    ((∀ op ∈ ops, op.plain = true) →
      strOf w.conf.map = dictGet (flatten cfg ++ (flatten Gen.C14.builtin ++ ops.flatMap opItems))) := by
  obtain ⟨hg, _⟩ := run_good h
  exact ⟨hg.conf.good.parsed.descOf, fun hpl => run_plain_strs hpl h⟩

/-- **Closed form of the inheritance.** `Resolves` gives `id` attributes exactly when its reference chain
ends in a description without reference, and then: the colour is the first colour slot along the chain
(own description first) that is not `""` — a colour, or the terminal default for `"-"`; the same for the
background; the modifiers are those of the whole chain, nearer descriptions laid over farther ones. -/
theorem closed_form (dm : Id → Option Desc) (id : Id) (r : Resolved) :
    Resolves dm id r ↔
      ∃ ds, Chain dm id ds ∧ r.fg = firstSpec (ds.map (·.fg)) ∧ r.bg = firstSpec (ds.map (·.bg)) ∧
        r.mods = chainMods ds := by
  constructor
  · intro h
    induction h with
    | @root id d hd hp =>
      refine ⟨[d], .root hd hp, ?_, ?_, rfl⟩
      · cases hfg : d.fg <;> simp [effOf, pickColor, firstSpec, hfg]
      · cases hbg : d.bg <;> simp [effOf, pickColor, firstSpec, hbg]
    | @step id p d pr hd hp _ ih =>
      obtain ⟨ds, hc, hfg, hbg, hm⟩ := ih
      refine ⟨d :: ds, .step hd hp hc, ?_, ?_, ?_⟩
      · cases hf : d.fg <;> simp [effOf, pickColor, firstSpec, hf, hfg]
      · cases hb : d.bg <;> simp [effOf, pickColor, firstSpec, hb, hbg]
      · cases ds with
        | nil => cases hc
        | cons d' ds' => simp [effOf, chainMods, hm]
  · rintro ⟨ds, hc, hfg, hbg, hm⟩
    induction hc generalizing r with
    | @root id d hd hp =>
      have : r = effOf none d := by
        obtain ⟨fg, bg, mods⟩ := r
        simp only [effOf] at *
        simp only [chainMods] at hm
        subst hm
        congr 1
        · cases hf : d.fg <;> simp [pickColor, firstSpec, hf] at hfg ⊢ <;> exact hfg
        · cases hb : d.bg <;> simp [pickColor, firstSpec, hb] at hbg ⊢ <;> exact hbg
      rw [this]; exact .root hd hp
    | @step id p d ds hd hp hc' ih =>
      have hpr := ih ⟨firstSpec (ds.map (·.fg)), firstSpec (ds.map (·.bg)), chainMods ds⟩ rfl rfl rfl
      have : r = effOf (some ⟨firstSpec (ds.map (·.fg)), firstSpec (ds.map (·.bg)), chainMods ds⟩) d := by
        obtain ⟨fg, bg, mods⟩ := r
        simp only [effOf] at *
        cases ds with
        | nil => cases hc'
        | cons d' ds' =>
          simp only [chainMods] at hm
          subst hm
          congr 1
          · cases hf : d.fg <;> simp [pickColor, firstSpec, hf] at hfg ⊢ <;> exact hfg
          · cases hb : d.bg <;> simp [pickColor, firstSpec, hb] at hbg ⊢ <;> exact hbg
      rw [this]; exact .step hd hp hpr

/-- two states with the same final set of descriptions give every id the same formatter -/
theorem same_set_same_colors (classes : List ClassDef) (nc : Bool) (cfg1 cfg2 : Cfg) (ops1 ops2 : List Op)
    (w1 w2 : World) (h1 : run classes nc cfg1 ops1 = .ok w1) (h2 : run classes nc cfg2 ops2 = .ok w2)
    (hsame : finalDescs w1 = finalDescs w2) (id : Id) :
    getColor w1.conf id = getColor w2.conf id := by
  have a := resolve_spec classes nc cfg1 ops1 w1 h1 id
  have b := resolve_spec classes nc cfg2 ops2 w2 h2 id
  rw [hsame] at a
  exact a.det b

/-- **Order and batching do not matter.** Two histories (no palette creation) that register the same
items, all with distinct ids (also distinct from the built-in ids), in any order and in any split between
the constructor argument and later registrations, give every id the same formatter. -/
theorem order_indep (classes : List ClassDef) (nc : Bool) (cfg1 cfg2 : Cfg) (ops1 ops2 : List Op)
    (w1 w2 : World) (h1 : run classes nc cfg1 ops1 = .ok w1) (h2 : run classes nc cfg2 ops2 = .ok w2)
    (hp1 : ∀ op ∈ ops1, op.plain = true) (hp2 : ∀ op ∈ ops2, op.plain = true)
    (hperm : (flatten cfg1 ++ ops1.flatMap opItems).Perm (flatten cfg2 ++ ops2.flatMap opItems))
    (hnd : ((flatten cfg1 ++ ops1.flatMap opItems ++ flatten Gen.C14.builtin).map (·.1)).Nodup)
    (id : Id) :
    getColor w1.conf id = getColor w2.conf id := by
  apply same_set_same_colors classes nc cfg1 cfg2 ops1 ops2 w1 w2 h1 h2
  funext x
  rw [(final_set classes nc cfg1 ops1 w1 h1).1, (final_set classes nc cfg2 ops2 w2 h2).1,
    (final_set classes nc cfg1 ops1 w1 h1).2 hp1, (final_set classes nc cfg2 ops2 w2 h2).2 hp2]
  congr 1
  have e1 : ∀ (a b c : List (Id × Str)), (a ++ (b ++ c)).Perm (a ++ c ++ b) := by
    intro a b c
    rw [List.append_assoc]
    exact List.Perm.append_left a List.perm_append_comm
  have hp : (flatten cfg1 ++ (flatten Gen.C14.builtin ++ ops1.flatMap opItems)).Perm
      (flatten cfg2 ++ (flatten Gen.C14.builtin ++ ops2.flatMap opItems)) :=
    (e1 _ _ _).trans ((hperm.append_right _).trans (e1 _ _ _).symm)
  apply dictGet_perm hp
  exact (((e1 _ _ _).map (·.1)).nodup_iff).mpr hnd

/-- **The explicit configuration wins.** An id described in the constructor's argument keeps that
description whatever is registered afterwards (built-ins, components, palette classes): the final set
holds the parsed form of the explicit string. -/
theorem explicit_wins (classes : List ClassDef) (nc : Bool) (cfg : Cfg) (ops : List Op) (w : World)
    (h : run classes nc cfg ops = .ok w) (id : Id) (s : Str) (hs : dictGet (flatten cfg) id = some s) :
    strOf w.conf.map id = some s ∧ ∃ d, parseInitStr s = .ok d ∧ finalDescs w id = some d := by
  obtain ⟨hg, _⟩ := run_good h
  unfold run at h
  cases h1 : newConf nc cfg with
  | error err => simp [h1] at h
  | ok c =>
    simp only [h1] at h
    obtain ⟨hgc, _, hstr⟩ := newConf_good (classes := classes) h1
    obtain ⟨_, hl⟩ := runOps_good ops ⟨c, []⟩ w ⟨hgc, fun k s hk => by simp [cacheGet] at hk⟩ h
    have hc : strOf c.map id = some s := by rw [hstr]; simp [firstStr, hs]
    have hw : strOf w.conf.map id = some s := hl.strs id s hc
    refine ⟨hw, ?_⟩
    unfold strOf at hw
    cases hlk : lookup w.conf.map id with
    | none => simp [hlk] at hw
    | some e =>
      simp [hlk] at hw
      exact ⟨e.desc, by rw [← hw]; exact hg.conf.good.parsed id e hlk, by simp [finalDescs, descOf, hlk]⟩

/-- every description, once registered, stays (built-ins win over later components, an earlier component
wins over a later one) -/
theorem first_registration_wins (classes : List ClassDef) (nc : Bool) (cfg : Cfg) (ops1 ops2 : List Op)
    (w1 w2 : World) (h1 : run classes nc cfg ops1 = .ok w1) (h2 : runOps classes w1 ops2 = .ok w2)
    (id : Id) (s : Str) (hs : strOf w1.conf.map id = some s) : strOf w2.conf.map id = some s := by
  obtain ⟨hg, _⟩ := run_good h1
  exact (runOps_good ops2 w1 w2 hg h2).2.strs id s hs

/-- `Dangling dm id`: the reference chain of `id` reaches an id that `dm` does not describe -/
inductive Dangling (dm : Id → Option Desc) : Id → Prop
  | here {id : Id} : dm id = none → Dangling dm id
  | step {id p : Id} {d : Desc} : dm id = some d → d.parent = some p → Dangling dm p → Dangling dm id

theorem Dangling.not_resolvable {dm : Id → Option Desc} {id : Id} (h : Dangling dm id) :
    ¬ Resolvable dm id := by
  induction h with
  | here hn => rintro ⟨r, hr⟩; obtain ⟨d, hd⟩ := hr.known; rw [hn] at hd; cases hd
  | step hd hp _ ih => exact fun hr => ih (Resolvable.parent hd hp hr)

/-- **Unknown, then known.** A registered id whose chain reaches an unknown id is uncoloured; as soon as
later registrations complete the chain it gets the formatter of the completed chain; and from then on
nothing that is registered later changes it. -/
theorem unknown_then_known (classes : List ClassDef) (nc : Bool) (cfg : Cfg) (ops1 ops2 : List Op)
    (w1 w2 : World) (h1 : run classes nc cfg ops1 = .ok w1) (h2 : runOps classes w1 ops2 = .ok w2)
    (id : Id) (hreg : (finalDescs w1 id).isSome) :
    (Dangling (finalDescs w1) id → getColor w1.conf id = []) ∧
    (∀ r f, Resolves (finalDescs w2) id r → mkFmt nc r = .ok f → getColor w2.conf id = f) ∧
    (∀ r, Resolves (finalDescs w1) id r →
      Resolves (finalDescs w2) id r ∧ getColor w2.conf id = getColor w1.conf id) := by
  obtain ⟨hg1, hnc1⟩ := run_good h1
  obtain ⟨hg2, hl⟩ := runOps_good ops2 w1 w2 hg1 h2
  have hnc2 : w2.conf.noColor = nc := hl.nc.trans hnc1
  have hreg2 : (finalDescs w2 id).isSome := by
    cases hl1 : lookup w1.conf.map id with
    | none => simp [finalDescs, descOf, hl1] at hreg
    | some e =>
      have := hl.strs id e.initStr (by simp [strOf, hl1])
      unfold strOf at this
      cases hl2 : lookup w2.conf.map id with
      | none => simp [hl2] at this
      | some e2 => simp [finalDescs, descOf, hl2]
  have spec1 := getColor_spec hg1.conf.good id
  have spec2 := getColor_spec hg2.conf.good id
  rw [hnc1] at spec1
  rw [hnc2] at spec2
  unfold SpecColor at spec1 spec2
  simp only [finalDescs] at hreg hreg2
  simp only [hreg, hreg2, if_true] at spec1 spec2
  have hsub : ∀ x d, finalDescs w1 x = some d → finalDescs w2 x = some d := by
    intro x d hx
    have p1 := hg1.conf.good.parsed.descOf x
    have p2 := hg2.conf.good.parsed.descOf x
    simp only [finalDescs] at hx ⊢
    rw [p1] at hx
    rw [p2]
    cases hsx : strOf w1.conf.map x with
    | none => simp [hsx] at hx
    | some s =>
      rw [hl.strs x s hsx]
      rw [hsx] at hx
      exact hx
  refine ⟨?_, ?_, ?_⟩
  · intro hd
    rcases spec1 with ⟨r, hr, _⟩ | ⟨_, hf⟩
    · exact absurd ⟨r, hr⟩ hd.not_resolvable
    · exact hf
  · intro r f hr hf
    rcases spec2 with ⟨r', hr', hf'⟩ | ⟨hn, _⟩
    · rw [hr'.det hr] at hf'
      rw [hf] at hf'
      cases hf'; rfl
    · exact absurd ⟨r, hr⟩ hn
  · intro r hr
    have hr2 : Resolves (finalDescs w2) id r := hr.mono hsub
    refine ⟨hr2, ?_⟩
    rcases spec1 with ⟨r1, hr1, hf1⟩ | ⟨hn, _⟩
    · rcases spec2 with ⟨r2', hr2', hf2⟩ | ⟨hn2, _⟩
      · rw [hr1.det hr] at hf1
        rw [hr2'.det hr2] at hf2
        rw [hf1] at hf2
        exact (Except.ok.inj hf2).symm
      · exact absurd ⟨r, hr2⟩ hn2
    · exact absurd ⟨r, hr⟩ hn

/-! ### one palette obtained twice (what C10 calls *late resolution*)

`P` is obtained in state `w` (`w1`, `s1`), then anything happens (`ops`: e.g. another palette `Q` is
obtained, which registers the defaults of `Q`'s classes), then `P` is obtained again (`w3`, `s2`). -/

/-- both palettes are snapshots of `get_color` in the state right after they were obtained, and the second
state is a later state of the first configuration -/
theorem palette_twice (classes : List ClassDef) (nc : Bool) (cfg : Cfg) (ops0 ops : List Op) (w w1 w2 w3 : World)
    (k : Nat) (s1 s2 : Snap) (h : run classes nc cfg ops0 = .ok w)
    (hp1 : getPalette classes w k false = .ok (w1, s1)) (hops : runOps classes w1 ops = .ok w2)
    (hp2 : getPalette classes w2 k false = .ok (w3, s2)) :
    ∃ cd, classes[k]? = some cd ∧ s1 = snapOf w1.conf cd.accessors ∧ s2 = snapOf w3.conf cd.accessors ∧
      Good nc w1.conf.map ∧ Good nc w3.conf.map ∧ Later w1.conf w3.conf ∧ w1.conf.noColor = nc := by
  obtain ⟨hg, hnc⟩ := run_good h
  obtain ⟨hg1, hl1, cd, hcd, hs1⟩ := getPalette_spec hg hp1
  obtain ⟨hg2, hl2⟩ := runOps_good ops w1 w2 hg1 hops
  obtain ⟨hg3, hl3, cd', hcd', hs2⟩ := getPalette_spec hg2 hp2
  rw [hcd] at hcd'; cases hcd'
  have n1 : w1.conf.noColor = nc := hl1.nc.trans hnc
  have n3 : w3.conf.noColor = nc := (hl3.nc.trans hl2.nc).trans n1
  refine ⟨cd, hcd, by simpa using hs1, by simpa using hs2, ?_, ?_, hl2.trans hl3, n1⟩
  · rw [← n1]; exact hg1.conf.good
  · rw [← n3]; exact hg3.conf.good

/-- **When does the second palette differ from the first?** Accessor by accessor (syntax id `x`):
* if `x` was described with a complete chain when `P` was first obtained, its formatter is the same;
* if `x` is still not described when `P` is obtained again and the default syntax had a complete chain, the same;
* if `x` was described but its chain was incomplete (it referred, directly or not, to an id that no
  registration had supplied yet), the formatter differs **iff** the registrations in between completed the
  chain to attributes with a visible effect. -/
theorem palette_after_palette (classes : List ClassDef) (nc : Bool) (cfg : Cfg) (ops0 ops : List Op)
    (w w1 w2 w3 : World) (k : Nat) (s1 s2 : Snap) (h : run classes nc cfg ops0 = .ok w)
    (hp1 : getPalette classes w k false = .ok (w1, s1)) (hops : runOps classes w1 ops = .ok w2)
    (hp2 : getPalette classes w2 k false = .ok (w3, s2)) (x : Id) :
    (Settled (finalDescs w1) x → getColor w3.conf x = getColor w1.conf x) ∧
    (finalDescs w3 x = none → Settled (finalDescs w1) Gen.C14.dfltId → getColor w3.conf x = getColor w1.conf x) ∧
    ((finalDescs w1 x).isSome = true → ¬ Resolvable (finalDescs w1) x →
      (getColor w3.conf x ≠ getColor w1.conf x ↔
        ∃ r f, Resolves (finalDescs w3) x r ∧ mkFmt nc r = .ok f ∧ f ≠ [])) := by
  obtain ⟨cd, _, _, _, hg1, hg3, hl, n1⟩ := palette_twice classes nc cfg ops0 ops w w1 w2 w3 k s1 s2 h hp1 hops hp2
  have n3 : w3.conf.noColor = nc := hl.nc.trans n1
  have g1 : Good w1.conf.noColor w1.conf.map := by rw [n1]; exact hg1
  have g3 : Good w3.conf.noColor w3.conf.map := by rw [n3]; exact hg3
  refine ⟨fun hs => getColor_settled g1 g3 hl hs, fun hun hs => getColor_unknown_settled g1 g3 hl hun hs, ?_⟩
  intro hreg hn
  have := getColor_late_iff g1 g3 hl hreg hn
  rwa [n1] at this

/-- the whole palette is unchanged when each of its syntax ids was settled (or is still unknown, with the
default syntax settled) -/
theorem palette_unchanged (classes : List ClassDef) (nc : Bool) (cfg : Cfg) (ops0 ops : List Op)
    (w w1 w2 w3 : World) (k : Nat) (s1 s2 : Snap) (h : run classes nc cfg ops0 = .ok w)
    (hp1 : getPalette classes w k false = .ok (w1, s1)) (hops : runOps classes w1 ops = .ok w2)
    (hp2 : getPalette classes w2 k false = .ok (w3, s2))
    (hall : ∀ cd, classes[k]? = some cd → ∀ a ∈ cd.accessors,
      Settled (finalDescs w1) a.2 ∨ (finalDescs w3 a.2 = none ∧ Settled (finalDescs w1) Gen.C14.dfltId)) :
    s2 = s1 := by
  obtain ⟨cd, hcd, e1, e2, _⟩ := palette_twice classes nc cfg ops0 ops w w1 w2 w3 k s1 s2 h hp1 hops hp2
  rw [e1, e2]
  unfold snapOf
  apply List.map_congr_left
  intro a ha
  obtain ⟨n, x⟩ := a
  have p := palette_after_palette classes nc cfg ops0 ops w w1 w2 w3 k s1 s2 h hp1 hops hp2 x
  rcases hall cd hcd (n, x) ha with hs | ⟨hun, hs⟩
  · simp [p.1 hs]
  · simp [p.2.1 hun hs]

/-- **Colour names are recognised in their exact spelling only.** A token is read as a named colour only if,
blanks stripped, it is literally one of the generated `_COLORS_NAMES`; so an id that differs from a colour name
by case or by a character (`red`, `Magenta`, `g24`, `RED_`) is never a colour — in the first section it is a
reference to the syntax of that name (`near_miss_is_reference`). -/
theorem named_colors_exact (s : Str) (c : Str) (h : parseColorImpl s = some (.col (.named c))) :
    c = strip s ∧ c ∈ Gen.C14.colorNames := by
  unfold parseColorImpl at h
  simp only at h
  split at h
  · rename_i hmem
    split at h
    · cases h
    · split at h
      · cases h
      · cases h; exact ⟨rfl, hmem⟩
  · split at h
    · split at h
      · cases h
      · split at h
        · split at h
          · split at h
            · cases h
            · cases h
          · cases h
        · cases h
    · split at h
      · rename_i i hi
        cases hn : natRange i 0 255 with
        | none => simp [hn] at h
        | some n => simp [hn] at h
      · cases h

/-- a slash-less token that is not a colour (exact spelling, number, tuple), holds no comma and is not a
modifier name (exact spelling) is a reference to the syntax called exactly like the token -/
theorem near_miss_is_reference (t : Str) (h1 : splitOn '/' t = [t]) (h2 : parseColorImpl t = none)
    (h3 : ',' ∉ t) (h4 : dictGet Gen.C14.modifiers t = none) :
    parseColorsPart t = some ⟨some t, none, none⟩ := by
  unfold parseColorsPart
  simp [h1, h2, h3, h4]

/-- **`no_color`.** A configuration created with `no_color` hands out effect-free formatters only, through
`get_color` and through every palette; and a palette requested with `no_color` is effect-free under any
configuration. -/
theorem nocolor (classes : List ClassDef) (nc : Bool) (cfg : Cfg) (ops : List Op) (w : World)
    (h : run classes nc cfg ops = .ok w) :
    (nc = true → ∀ id, getColor w.conf id = []) ∧
    (∀ k pnc w' s, getPalette classes w k pnc = .ok (w', s) → (nc = true ∨ pnc = true) →
      ∀ x ∈ s, x.2.2 = []) := by
  obtain ⟨hg, hnc⟩ := run_good h
  have plain : ∀ (c : Conf), Good c.noColor c.map → c.noColor = true → ∀ id, getColor c id = [] := by
    intro c hgc hc id
    have := getColor_spec hgc id
    unfold SpecColor at this
    simp only [hc, mkFmt, if_true] at this
    rcases this with ⟨r, _, hf⟩ | ⟨_, hf⟩
    · exact (Except.ok.inj hf).symm
    · exact hf
  refine ⟨fun hn id => plain w.conf hg.conf.good (hnc.trans hn) id, ?_⟩
  intro k pnc w' s hp hor x hx
  obtain ⟨hg', hl, cd, _, hs⟩ := getPalette_spec hg hp
  cases pnc with
  | true =>
    simp at hs
    subst hs
    simp [plainSnap] at hx
    obtain ⟨a, b, _, rfl⟩ := hx
    rfl
  | false =>
    simp at hs
    subst hs
    have hn : nc = true := by rcases hor with h | h; exact h; cases h
    simp [snapOf] at hx
    obtain ⟨a, b, _, rfl⟩ := hx
    exact plain w'.conf hg'.conf.good (hl.nc.trans (hnc.trans hn)) b

/-- **Palettes reflect the current state.** Whatever happened before (registrations, earlier palettes of
the same class, cached or not), a palette obtained now maps each accessor to what `get_color` answers
for its syntax id in the state right after the call — hence (by `resolve_spec`) to the formatter the
final set of descriptions determines. -/
theorem cache_fresh (classes : List ClassDef) (nc : Bool) (cfg : Cfg) (ops : List Op) (w : World)
    (h : run classes nc cfg ops = .ok w) (k : Nat) (w' : World) (s : Snap)
    (hp : getPalette classes w k false = .ok (w', s)) :
    ∃ cd, classes[k]? = some cd ∧ s = snapOf w'.conf cd.accessors ∧
      ∀ a ∈ cd.accessors, SpecColor nc (finalDescs w') a.2 (getColor w'.conf a.2) := by
  obtain ⟨hg, hnc⟩ := run_good h
  obtain ⟨hg', hl, cd, hcd, hs⟩ := getPalette_spec hg hp
  refine ⟨cd, hcd, by simpa using hs, ?_⟩
  intro a _
  have := getColor_spec hg'.conf.good a.2
  rwa [hl.nc.trans hnc] at this

/-- **Valid, acyclic sets never raise.** A history without palette creation, with pairwise different
component names, in which every offered description string is accepted by the parser and whose final set
of descriptions (first registration wins over explicit configuration, built-ins, later registrations) is
acyclic, runs to the end: no `ValueError` from the parser or from `ColorFmt`, no circular-dependency
assertion, no `KeyError`, and the model's fuel is never exhausted.  (Together with the theorems above:
for every such history the formatters are exactly the declarative ones.) -/
theorem no_error (classes : List ClassDef) (nc : Bool) (cfg : Cfg) (ops : List Op)
    (hpl : ∀ op ∈ ops, op.plain = true) (hnames : (regNames ops).Nodup)
    (hvalid : ∀ kv ∈ flatten cfg ++ (flatten Gen.C14.builtin ++ ops.flatMap opItems), (parsed kv.2).isSome = true)
    (hac : Acyclic (fun id =>
      (dictGet (flatten cfg ++ (flatten Gen.C14.builtin ++ ops.flatMap opItems)) id).bind parsed)) :
    ∃ w, run classes nc cfg ops = .ok w :=
  run_total hpl hnames (fun kv hkv => parsed_isSome (hvalid kv hkv)) hac

/-- a single registration on any reachable state: valid new descriptions and an acyclic result are enough -/
theorem no_error_add (classes : List ClassDef) (nc : Bool) (cfg : Cfg) (ops : List Op) (w : World)
    (h : run classes nc cfg ops = .ok w) (items : List (Id × Str))
    (hvalid : ∀ kv ∈ items, (parsed kv.2).isSome = true)
    (hac : Acyclic (fun id => (firstStr (strOf w.conf.map) items id).bind parsed)) :
    ∃ c', addNewItems w.conf items = .ok c' :=
  addNewItems_total (run_good h).1.conf.good (fun kv hkv => parsed_isSome (hvalid kv hkv)) hac

/-- every colour the description parser lets through is accepted by `ColorFmt` (so `resolve` cannot raise
`ValueError` on a parsed description, whatever it inherits) -/
theorem parsed_colors_accepted (s : Str) (d : Desc) (h : parseInitStr s = .ok d) (par : Option Resolved)
    (hpar : ∀ p, par = some p → resOk p = true) (nc : Bool) :
    resOk (effOf par d) = true ∧ ∃ f, mkFmt nc (effOf par d) = .ok f :=
  ⟨effOf_ok hpar (parseInitStr_ok h), mkFmt_ok nc (effOf_ok hpar (parseInitStr_ok h))⟩

/-! ### the configuration as the global one, synced palettes

`runAll` is a whole case of the protocol: the constructor followed by operations on the configuration
(`.op`) and on the module state of `ak.color`: `setGlobal` (`set_global_colors_config(conf)`), `syn k`
(`P_k(synced=True)`), `sget k` (reading the accessors of that synced palette). -/

/-- as long as the configuration is not made the global one, a case is exactly a history `run` of the
theorems above (nothing of the global machinery interferes) -/
theorem global_off_same (classes : List ClassDef) (nc : Bool) (cfg : Cfg) (ops : List Op) :
    runAll classes nc cfg (ops.map GOp.op) =
      mapE (fun w => (⟨w, false, []⟩ : GWorld)) (run classes nc cfg ops) := by
  unfold runAll run
  cases newConf nc cfg with
  | error e => rfl
  | ok c => exact runG_off ops ⟨⟨c, []⟩, false, []⟩ rfl

/-- `resolve_spec` and `cache_fresh` for every case, global or not: `get_color` is the declarative one and a
palette obtained from the configuration equals `get_color` of its syntax ids -/
theorem resolve_spec_global (classes : List ClassDef) (nc : Bool) (cfg : Cfg) (ops : List GOp) (g : GWorld)
    (h : runAll classes nc cfg ops = .ok g) :
    (∀ id, SpecColor nc (descOf g.w.conf.map) id (getColor g.w.conf id)) ∧
    (∀ k g' s, getPaletteG classes g k false = .ok (g', s) →
      ∃ cd, classes[k]? = some cd ∧ s = snapOf g'.w.conf cd.accessors) := by
  unfold runAll at h
  cases h1 : newConf nc cfg with
  | error err => simp [h1] at h
  | ok c =>
    simp only [h1] at h
    obtain ⟨hgc, hnc, _⟩ := newConf_good (classes := classes) h1
    have hi0 : GInv classes ⟨⟨c, []⟩, false, []⟩ :=
      ⟨⟨hgc, fun k s hk => by simp [cacheGet] at hk⟩, fun hf => by cases hf⟩
    obtain ⟨hi, hl⟩ := runG_inv ops _ g hi0 h
    refine ⟨fun id => ?_, fun k g' s hp => ?_⟩
    · have := getColor_spec hi.good.conf.good id
      rwa [hl.nc, hnc] at this
    · obtain ⟨_, _, _, cd, hcd, hs⟩ := getPaletteG_spec hi hp
      exact ⟨cd, hcd, by simpa using hs⟩

/-- **Synced palettes follow the global configuration.** After any case, if the configuration is the global
one, every synced palette (created before or after it became global) shows for each accessor what
`get_color` answers now — i.e. the formatter determined by the current final set of descriptions. -/
theorem synced_fresh (classes : List ClassDef) (nc : Bool) (cfg : Cfg) (ops : List GOp) (g : GWorld)
    (h : runAll classes nc cfg ops = .ok g) (hglob : g.isGlobal = true) (k : Nat) (s : Snap)
    (hs : cacheGet g.synced k = some s) :
    ∃ cd, classes[k]? = some cd ∧ s = snapOf g.w.conf cd.accessors ∧
      ∀ a ∈ cd.accessors, SpecColor nc (descOf g.w.conf.map) a.2 (getColor g.w.conf a.2) := by
  have hspec := (resolve_spec_global classes nc cfg ops g h).1
  unfold runAll at h
  cases h1 : newConf nc cfg with
  | error err => simp [h1] at h
  | ok c =>
    simp only [h1] at h
    obtain ⟨hgc, _, _⟩ := newConf_good (classes := classes) h1
    have hi0 : GInv classes ⟨⟨c, []⟩, false, []⟩ :=
      ⟨⟨hgc, fun k s hk => by simp [cacheGet] at hk⟩, fun hf => by cases hf⟩
    obtain ⟨hi, _⟩ := runG_inv ops _ g hi0 h
    obtain ⟨cd, hcd, hsn⟩ := hi.fresh hglob k s hs
    exact ⟨cd, hcd, hsn, fun a _ => hspec a.2⟩

/-- **Every palette class is a component of its own.** In every reachable state a class that counts as
registered (it is identified by the class itself — here its index —, not by its name) has every id of its
`SYNTAX_DEFAULTS` described in the configuration; and registering a class that has defaults makes it count as
registered.  So no class's defaults are ever skipped because another class (of whatever name) was registered. -/
theorem registered_class_described (classes : List ClassDef) (nc : Bool) (cfg : Cfg) (ops : List GOp) (g : GWorld)
    (h : runAll classes nc cfg ops = .ok g) :
    (∀ (k : Nat) (cd : ClassDef) (dflt : Cfg), Src.cls k ∈ g.w.conf.sources → classes[k]? = some cd →
      cd.defaults = some dflt → ∀ kv ∈ flatten dflt, (strOf g.w.conf.map kv.1).isSome = true) ∧
    (∀ (k : Nat) (cd : ClassDef) (dflt : Cfg) (g' : GWorld), classes[k]? = some cd → cd.defaults = some dflt →
      registerClassG classes (gFuel classes) g k = .ok g' →
      Src.cls k ∈ g'.w.conf.sources ∧ ∀ kv ∈ flatten dflt, (strOf g'.w.conf.map kv.1).isSome = true) := by
  unfold runAll at h
  cases h1 : newConf nc cfg with
  | error err => simp [h1] at h
  | ok c =>
    simp only [h1] at h
    obtain ⟨hgc, _, _⟩ := newConf_good (classes := classes) h1
    have hi0 : GInv classes ⟨⟨c, []⟩, false, []⟩ :=
      ⟨⟨hgc, fun k s hk => by simp [cacheGet] at hk⟩, fun hf => by cases hf⟩
    have hsrc0 : c.sources = [] := by
      unfold newConf at h1
      cases h2 : addNewItems ⟨nc, [], [], []⟩ (flatten cfg) with
      | error err => simp [h2] at h1
      | ok c1 =>
        simp only [h2] at h1
        rw [addNewItems_sources h1, addNewItems_sources h2]
    have hs0 : SrcInv classes (⟨⟨c, []⟩, false, []⟩ : GWorld).w.conf := by
      intro k cd dflt hk
      simp only [hsrc0] at hk
      cases hk
    obtain ⟨hi, _⟩ := runG_inv ops _ g hi0 h
    have hs := runG_srcInv ops _ g hi0 hs0 h
    refine ⟨fun k cd dflt hk hcd hdf => hs.described hk hcd hdf, ?_⟩
    intro k cd dflt g' hcd hdf hr
    have hin := registerClassG_self hcd hdf hr
    exact ⟨hin, (registerClassG_srcInv _ g k g' hi.good hs hr).described hin hcd hdf⟩

/-- **A synced palette shows the current state, resolved or not.** While the configuration is the global one,
an accessor of a synced palette whose syntax id is described but has an incomplete chain is uncoloured —
whatever the default syntax looks like and whatever the accessor showed while the id was still unknown. -/
theorem synced_pending_uncoloured (classes : List ClassDef) (nc : Bool) (cfg : Cfg) (ops : List GOp) (g : GWorld)
    (h : runAll classes nc cfg ops = .ok g) (hglob : g.isGlobal = true) (k : Nat) (s : Snap)
    (hs : cacheGet g.synced k = some s) (a : Str) (x : Id) (f : Str) (hmem : (a, x, f) ∈ s)
    (hreg : (descOf g.w.conf.map x).isSome = true) (hpend : ¬ Resolvable (descOf g.w.conf.map) x) : f = [] := by
  obtain ⟨cd, _, hsn, _⟩ := synced_fresh classes nc cfg ops g h hglob k s hs
  rw [hsn] at hmem
  simp only [snapOf, List.mem_map] at hmem
  obtain ⟨⟨a', x'⟩, _, heq⟩ := hmem
  simp only [Prod.mk.injEq] at heq
  obtain ⟨_, hx, hf⟩ := heq
  subst hx
  rw [← hf]
  have sp := (resolve_spec_global classes nc cfg ops g h).1 x'
  unfold SpecColor at sp
  simp only [hreg, if_true] at sp
  rcases sp with ⟨r, hr, _⟩ | ⟨_, hf'⟩
  · exact absurd ⟨r, hr⟩ hpend
  · exact hf'

/-! ### the explicit domain on which nothing raises — palettes, global configuration and synced palettes included

`Ctx classes offers safe` (decidable, `ctxb`): parents of a class have smaller indices; every description that
can be offered (`offers`: explicit configuration, built-ins, items of operations, class defaults) is accepted
by the parser and the union of all offered references is acyclic; the classes in `safe` (those that may get a
synced palette) have, among themselves and their ancestors, no class with defaults below another class with
defaults.  `OpsOK`: operations offer only `offers`, use fresh component names and existing class indices,
create synced palettes only for `safe` classes and read only synced palettes that exist. -/

/-- **no exception on the domain**, for every case of the protocol -/
theorem no_error_global (classes : List ClassDef) (offers : List (Id × Str)) (safe : List Nat)
    (cx : Ctx classes offers safe) (nc : Bool) (cfg : Cfg) (ops : List GOp)
    (hcfg : ∀ kv ∈ flatten cfg, kv ∈ offers) (hbi : ∀ kv ∈ flatten Gen.C14.builtin, kv ∈ offers)
    (hok : OpsOK classes offers safe [] [] ops) : ∃ g, runAll classes nc cfg ops = .ok g :=
  runAll_total cx nc cfg ops hcfg hbi hok

/-- in particular histories `run` that create palettes never raise on the domain (no synced palettes: `safe`
may be empty, classes with defaults may have parents with defaults) -/
theorem no_error_pal (classes : List ClassDef) (offers : List (Id × Str))
    (cx : Ctx classes offers []) (nc : Bool) (cfg : Cfg) (ops : List Op)
    (hcfg : ∀ kv ∈ flatten cfg, kv ∈ offers) (hbi : ∀ kv ∈ flatten Gen.C14.builtin, kv ∈ offers)
    (hok : OpsOK classes offers [] [] [] (ops.map GOp.op)) : ∃ w, run classes nc cfg ops = .ok w := by
  obtain ⟨g, hg⟩ := runAll_total cx nc cfg (ops.map GOp.op) hcfg hbi hok
  rw [global_off_same] at hg
  cases hr : run classes nc cfg ops with
  | ok w => exact ⟨w, rfl⟩
  | error e => simp [hr, mapE] at hg

/-- **outside the domain: the re-entrant registration.** When the configuration is made the global one while
the first synced palette belongs to a class `K` with defaults whose only parent `P` has defaults that offer
an id unknown to the configuration (neither class registered yet), `set_global_colors_config` never returns
normally: registering `P` modifies the global configuration, the nested re-sync registers `K`, and `K`'s own
registration then hits `assert src_obj not in self.registered_sources` (`SyncSafe` excludes exactly this
shape: a class with defaults below a synced class that has an ancestor with defaults). -/
theorem setGlobal_reentrant_raises (classes : List ClassDef) (nc : Bool) (cfg : Cfg) (ops : List GOp) (g : GWorld)
    (h : runAll classes nc cfg ops = .ok g) (K P : Nat) (cdK cdP : ClassDef) (cfgK cfgP : Cfg)
    (rest : List Nat) (id : Id) (s : Str)
    (hK : classes[K]? = some cdK) (hP : classes[P]? = some cdP)
    (hKp : cdK.parents = [P]) (hKd : cdK.defaults = some cfgK)
    (hPp : cdP.parents = []) (hPd : cdP.defaults = some cfgP)
    (hkeys : g.synced.map (·.1) = K :: rest)
    (hKs : Src.cls K ∉ g.w.conf.sources) (hPs : Src.cls P ∉ g.w.conf.sources)
    (hnew : strOf g.w.conf.map id = none) (hit : dictGet (flatten cfgP) id = some s) :
    ∀ r, stepG classes g .setGlobal ≠ .ok r := by
  intro r hr
  unfold runAll at h
  cases h1 : newConf nc cfg with
  | error err => simp [h1] at h
  | ok c =>
    simp only [h1] at h
    obtain ⟨hgc, _, _⟩ := newConf_good (classes := classes) h1
    have hi0 : GInv classes ⟨⟨c, []⟩, false, []⟩ :=
      ⟨⟨hgc, fun k s hk => by simp [cacheGet] at hk⟩, fun hf => by cases hf⟩
    obtain ⟨hi, _⟩ := runG_inv ops _ g hi0 h
    simp only [stepG] at hr
    cases h2 : syncTop classes { g with isGlobal := true } with
    | error e => simp [h2] at hr
    | ok g' =>
      exact setGlobal_reentrant hi.good.conf.good hK hP hKp hKd hPp hPd hkeys hKs hPs hnew hit g' h2

/-- **Sub-palettes of a compound palette are palettes of the current state.** `P_k(conf, nc).get_sub_palette(P_j)`
— the compound palette obtained from the configuration now, then the palette of class `j` it hands out — maps
every accessor of `j` to what `get_color` answers in the state right after the call, whatever was handed out
before (to this or any other configuration) and whatever was registered in between. -/
theorem sub_palette_fresh (classes : List ClassDef) (nc : Bool) (cfg : Cfg) (ops : List GOp) (g g1 g2 : GWorld)
    (h : runAll classes nc cfg ops = .ok g) (k j : Nat) (pnc : Bool) (s0 s : Snap)
    (hk : getPaletteG classes g k pnc = .ok (g1, s0)) (hj : getPaletteG classes g1 j pnc = .ok (g2, s)) :
    ∃ cd, classes[j]? = some cd ∧
      s = (if pnc then plainSnap cd.accessors else snapOf g2.w.conf cd.accessors) ∧
      ∀ a ∈ cd.accessors, SpecColor nc (descOf g2.w.conf.map) a.2 (getColor g2.w.conf a.2) := by
  unfold runAll at h
  cases h1 : newConf nc cfg with
  | error err => simp [h1] at h
  | ok c =>
    simp only [h1] at h
    obtain ⟨hgc, hnc, _⟩ := newConf_good (classes := classes) h1
    have hi0 : GInv classes ⟨⟨c, []⟩, false, []⟩ :=
      ⟨⟨hgc, fun k s hk => by simp [cacheGet] at hk⟩, fun hf => by cases hf⟩
    obtain ⟨hi, hl0⟩ := runG_inv ops _ g hi0 h
    obtain ⟨hi1, hl1, _, _⟩ := getPaletteG_spec hi hk
    obtain ⟨hi2, hl2, _, cd, hcd, hs⟩ := getPaletteG_spec hi1 hj
    refine ⟨cd, hcd, hs, fun a _ => ?_⟩
    have := getColor_spec hi2.good.conf.good a.2
    rwa [hl2.nc, hl1.nc, hl0.nc, hnc] at this

/-! ### several configurations taking turns as the global one

`runM` (through `KOp.m` of part 8) is what the driver executes: configurations are created (`new`), operated on (`on i`), made the global
one (`setGlobal i` *replaces* the global index), synced palettes are created from the current global
configuration (`syn`) and read (`sget`). -/

/-- a case with a single configuration is a case `runAll` of the theorems above -/
theorem single_conf_same (classes : List ClassDef) (nc : Bool) (cfg : Cfg) (ops : List GOp) :
    runM classes ⟨[], [], none, []⟩ (.new nc cfg :: ops.map liftOp) = mapE toM (runAll classes nc cfg ops) := by
  unfold runM runAll
  simp only [stepM]
  cases h1 : newConf nc cfg with
  | error e => rfl
  | ok c =>
    simp only
    obtain ⟨hgc, _, _⟩ := newConf_good (classes := classes) h1
    have hi0 : GInv classes ⟨⟨c, []⟩, false, []⟩ :=
      ⟨⟨hgc, fun k s hk => by simp [cacheGet] at hk⟩, fun hf => by cases hf⟩
    exact runM_single ops ⟨⟨c, []⟩, false, []⟩ hi0

/-- **A registration into a configuration that is not the current global one is inert** for everything
global: the synced palettes keep their values, the global index stays, no other configuration changes —
also when that configuration *was* the global one earlier. -/
theorem non_global_registration_inert (classes : List ClassDef) (m m' : MWorld) (i : Nat) (o : Op) (r : Option Snap)
    (h : stepM classes m (.on i o) = .ok (m', r)) (hng : m.glob ≠ some i) :
    m'.synced = m.synced ∧ m'.glob = m.glob ∧ ∀ j, j ≠ i → m'.confs[j]? = m.confs[j]? :=
  stepM_on_inert h hng

/-- **Synced palettes show the CURRENT global configuration**: after any case — configurations created,
replaced as the global one, registered into in any order — every synced palette maps each accessor to what
`get_color` of the configuration that is the global one *now* answers, i.e. to the formatter its final set of
descriptions determines; and every configuration of the case resolves declaratively. -/
theorem synced_follow_current_global (classes : List ClassDef) (ops : List MOp) (m : MWorld)
    (h : runM classes ⟨[], [], none, []⟩ ops = .ok m) :
    (∀ (i : Nat) (c : Conf), m.confs[i]? = some c → ∀ id, SpecColor c.noColor (descOf c.map) id (getColor c id)) ∧
    (∀ (j : Nat) (c : Conf), m.glob = some j → m.confs[j]? = some c → ∀ k s, cacheGet m.synced k = some s →
      ∃ cd, classes[k]? = some cd ∧ s = snapOf c cd.accessors ∧
        ∀ a ∈ cd.accessors, SpecColor c.noColor (descOf c.map) a.2 (getColor c a.2)) := by
  have hi := runM_inv ops _ m (minv_empty classes) h
  refine ⟨fun i c hc id => getColor_spec (hi.confs i c hc).good id, ?_⟩
  intro j c hg hc k s hk
  obtain ⟨cd, hcd, hs⟩ := hi.fresh j c hg hc k s hk
  exact ⟨cd, hcd, hs, fun a _ => getColor_spec (hi.confs j c hc).good a.2⟩

/-- **Registration through a no-colour palette is a registration — in the configuration it is called with.** After
any case with any number of configurations (`runM`, what the driver executes), `P_k(conf_i, no_color=True)` registers
the class (and its parent palettes) in configuration `i` — whatever the per-class no-colour palette object, shared by
all configurations, already holds from a request through ANOTHER configuration: afterwards the class counts as
registered in configuration `i`, every id of its `SYNTAX_DEFAULTS` is described there, and the palette handed out is
effect-free. -/
theorem nocolor_palette_registers (classes : List ClassDef) (ops : List MOp) (m m' : MWorld)
    (h : runM classes ⟨[], [], none, []⟩ ops = .ok m) (i k : Nat) (r : Option Snap) (cd : ClassDef) (dflt : Cfg)
    (hcd : classes[k]? = some cd) (hdf : cd.defaults = some dflt)
    (hp : stepM classes m (.on i (.pal k true)) = .ok (m', r)) :
    ∃ c' s, m'.confs[i]? = some c' ∧ r = some s ∧ Src.cls k ∈ c'.sources ∧
      (∀ kv ∈ flatten dflt, (strOf c'.map kv.1).isSome = true) ∧ ∀ x ∈ s, x.2.2 = [] := by
  have hi := runM_inv ops _ m (minv_empty classes) h
  have hs := runM_msrc ops _ m (minv_empty classes) (msrc_empty classes) h
  simp only [stepM] at hp
  cases hc : m.confs[i]? with
  | none => simp [hc] at hp
  | some c =>
    simp only [hc, stepG] at hp
    cases h1 : getPaletteG classes (viewOf m i c) k true with
    | error e => simp [h1] at hp
    | ok gs =>
      obtain ⟨g', s⟩ := gs
      simp [h1] at hp
      obtain ⟨hm, hr⟩ := hp
      subst hm
      obtain ⟨hin, hdesc, hplain⟩ := getPaletteG_nocolor_registers (hi.view hc) (hs i c hc) hcd hdf h1
      exact ⟨g'.w.conf, s, by simp only [putBack]; exact getElem?_set_self' hc, hr.symm, hin, hdesc, hplain⟩

/-- the configuration an operation of part 8 can modify -/
def kTarget (k : KWorld) : KOp → Option Nat
  | .m op => opTarget k.m op
  | _ => none

/-- **A kept `conf.get_palette()` belongs to its configuration.** The kept palettes are part of the state the driver
executes (`KWorld.kept`: configuration index and accessor attributes as built).  Whatever one operation does —
aimed at another configuration, swapping the global configuration, creating or re-syncing synced palettes, keeping
or reading another palette —: (1) every kept entry stays exactly as it was built; (2) a configuration the operation
is not aimed at is left exactly as it was; (3) `get_palette()` keeps the accessor attributes `get_color` gives at
that moment and changes nothing else; (4) reading kept palette `n` changes nothing and answers with the attributes
as built and with `get_color(id)` of the configuration it was obtained from, as that configuration is now — the global
index and the other configurations do not enter the answer. -/
theorem kept_palette_own_configuration (classes : List ClassDef) (k k' : KWorld) (op : KOp) (r : KReply)
    (h : stepK classes k op = .ok (k', r)) :
    (∀ (n : Nat) e, k.kept[n]? = some e → k'.kept[n]? = some e) ∧
    (∀ (i : Nat) c, k.m.confs[i]? = some c → kTarget k op ≠ some i → k'.m.confs[i]? = some c) ∧
    (∀ i, op = .gpal i → ∃ c, k.m.confs[i]? = some c ∧ k'.m = k.m ∧
      k'.kept = k.kept ++ [(i, snapOf c Gen.C14.gpAccessors)] ∧ r = ⟨some (snapOf c Gen.C14.gpAccessors), none⟩) ∧
    (∀ (n : Nat) id, op = .gread n id → k' = k ∧ ∃ (i : Nat) (s : Snap) (c : Conf), k.kept[n]? = some (i, s) ∧ k.m.confs[i]? = some c ∧
      r = ⟨some s, some (getColor c id)⟩) := by
  cases op with
  | m o =>
    simp only [stepK] at h
    cases h1 : stepM classes k.m o with
    | error e => simp [h1] at h
    | ok ms =>
      obtain ⟨m', s⟩ := ms
      simp [h1] at h
      obtain ⟨hk, _⟩ := h; subst hk
      refine ⟨fun n e he => he, fun i c hc ht => stepM_other_conf h1 ht hc, fun i hi => (by cases hi),
        fun n id hi => by cases hi⟩
  | gpal j =>
    simp only [stepK] at h
    cases hc : k.m.confs[j]? with
    | none => simp [hc] at h
    | some c =>
      simp [hc] at h
      obtain ⟨hk, hr⟩ := h; subst hk; subst hr
      refine ⟨fun n e he => ?_, fun i c' hc' _ => hc', fun i hi => ?_, fun n id hi => by cases hi⟩
      · simp only
        rw [List.getElem?_append, if_pos (lt_of_getElem? he)]; exact he
      · cases hi
        exact ⟨c, hc, rfl, rfl, rfl⟩
  | gread n id =>
    simp only [stepK] at h
    cases hk : k.kept[n]? with
    | none => simp [hk] at h
    | some e =>
      obtain ⟨i, s⟩ := e
      simp only [hk] at h
      cases hc : k.m.confs[i]? with
      | none => simp [keptItem, hc] at h
      | some c =>
        simp [keptItem, hc] at h
        obtain ⟨hk', hr⟩ := h; subst hk'; subst hr
        refine ⟨fun n e he => he, fun i c' hc' _ => hc', fun i hi => (by cases hi), fun n' id' hi => ?_⟩
        cases hi
        exact ⟨rfl, i, s, c, hk, hc, rfl⟩

/-- kept entries survive a whole sequence of operations unchanged -/
theorem kept_entries_fixed (classes : List ClassDef) : ∀ (ops : List KOp) (k k' : KWorld),
    runK classes k ops = .ok k' → ∀ (n : Nat) e, k.kept[n]? = some e → k'.kept[n]? = some e := by
  intro ops
  induction ops with
  | nil => intro k k' h n e he; simp [runK] at h; subst h; exact he
  | cons op ops ih =>
    intro k k' h n e he
    unfold runK at h
    cases h1 : stepK classes k op with
    | error x => simp [h1] at h
    | ok kr =>
      obtain ⟨k1, r⟩ := kr
      simp [h1] at h
      exact ih k1 k' h n e ((kept_palette_own_configuration classes k k1 op r h1).1 n e he)

/-! ### flat or nested spelling of the descriptions; groups called like a syntax -/

/-- **Flat or nested.** A case depends on the constructor's dictionary only through its flattened form: every
(nested) dictionary behaves exactly as its flat spelling `{"A.B.C": …}`, and two dictionaries that flatten to the
same items are interchangeable — in the constructor and as the argument of `register_color_conf_component`. -/
theorem nested_same_as_flat (classes : List ClassDef) (nc : Bool) (cfg : Cfg) :
    (∀ ops, runAll classes nc cfg ops = runAll classes nc (flatCfg (flatten cfg)) ops) ∧
    (∀ ops, run classes nc cfg ops = run classes nc (flatCfg (flatten cfg)) ops) ∧
    (∀ cfg', flatten cfg' = flatten cfg →
      (∀ ops, runAll classes nc cfg' ops = runAll classes nc cfg ops) ∧
      (∀ c src, registerComponent c cfg' src = registerComponent c cfg src)) := by
  have e : newConf nc (flatCfg (flatten cfg)) = newConf nc cfg := by
    simp only [newConf, flatten_flatCfg]
  refine ⟨fun ops => by simp only [runAll, e], fun ops => by simp only [run, e], fun cfg' h => ⟨fun ops => ?_, fun c src => ?_⟩⟩
  · simp only [runAll, newConf, h]
  · simp only [registerComponent, h]

/-- **Built-in syntaxes stay unless described explicitly.** A built-in id that is not an id of the flattened
explicit configuration keeps its built-in description after every case (palettes, global configuration, synced
palettes included), whatever else the explicit configuration contains. -/
theorem builtin_kept (classes : List ClassDef) (nc : Bool) (cfg : Cfg) (ops : List GOp) (g : GWorld)
    (h : runAll classes nc cfg ops = .ok g) (id : Id) (s : Str)
    (hb : dictGet (flatten Gen.C14.builtin) id = some s) (hc : dictGet (flatten cfg) id = none) :
    strOf g.w.conf.map id = some s ∧ ∃ d, parseInitStr s = .ok d ∧ descOf g.w.conf.map id = some d := by
  unfold runAll at h
  cases h1 : newConf nc cfg with
  | error err => simp [h1] at h
  | ok c =>
    simp only [h1] at h
    obtain ⟨hgc, _, hstr⟩ := newConf_good (classes := classes) h1
    have hi0 : GInv classes ⟨⟨c, []⟩, false, []⟩ :=
      ⟨⟨hgc, fun k s hk => by simp [cacheGet] at hk⟩, fun hf => by cases hf⟩
    obtain ⟨hi, hl⟩ := runG_inv ops _ g hi0 h
    have hcs : strOf c.map id = some s := by rw [hstr]; simp [firstStr, hc, hb]
    have hw : strOf g.w.conf.map id = some s := hl.strs id s hcs
    refine ⟨hw, ?_⟩
    unfold strOf at hw
    cases hlk : lookup g.w.conf.map id with
    | none => simp [hlk] at hw
    | some e =>
      simp [hlk] at hw
      exact ⟨e.desc, by rw [← hw]; exact hi.good.conf.good.parsed id e hlk, by simp [descOf, hlk]⟩

/-- **A group called like a built-in syntax does not replace it.** If the explicit configuration uses the key `id`
(a built-in id, no dot in it) for groups only — `{"ERROR": {"CODE": …}}` —, never for a description string, the
built-in description of `id` is in the final set, exactly as with the flat spelling `{"ERROR.CODE": …}`. -/
theorem group_named_like_builtin (classes : List ClassDef) (nc : Bool) (items : CfgItems) (ops : List GOp)
    (g : GWorld) (h : runAll classes nc (.dict items) ops = .ok g) (id : Id) (s : Str)
    (hb : dictGet (flatten Gen.C14.builtin) id = some s) (hdot : '.' ∉ id)
    (hgrp : ∀ t, (id, Gen.C14.Cfg.str t) ∉ cfgEntries items) :
    strOf g.w.conf.map id = some s ∧ ∃ d, parseInitStr s = .ok d ∧ descOf g.w.conf.map id = some d :=
  builtin_kept classes nc (.dict items) ops g h id s hb (flatten_group_key_none items id hdot hgrp)

/-! Non-vacuity: concrete histories evaluated by the kernel.  `B` refers to `A` (registered later) and
selects the terminal default foreground with `-`; `C` refers to `B`.  Before `A` is known both are
uncoloured, afterwards `B` = ESC[44;1m (background and bold inherited, foreground default) and
`C` = ESC[32;44;4m (bold switched off again, underline added). -/
def exCfg : Cfg :=
  .dict (.cons ['B'] (.str "A:-".toList) (.cons ['C'] (.str "B:GREEN:no_bold,underline".toList) .nil))
def exOps : List Op := [.get ['C'], .add [(['A'], "RED/BLUE:bold".toList)]]
def exOps' : List Op := [.add [(['A'], "RED/BLUE:bold".toList)], .get ['C']]
def exClasses : List ClassDef :=
  [⟨[], some (.dict (.cons ['A'] (.str "RED/BLUE:bold".toList) .nil)), [(['t', 'e', 'x', 't'], ['T', 'E', 'X', 'T']), (['a', 'c', 'c'], ['C'])]⟩]

def colorsAfter (r : Except Err World) (ids : List Id) : Option (List Str) :=
  match r with
  | .ok w => some (ids.map (getColor w.conf))
  | .error _ => none

example : colorsAfter (run [] false exCfg []) [['B'], ['C']] = some [[], []] := by decide +kernel
example : colorsAfter (run [] false exCfg exOps) [['A'], ['B'], ['C'], ['?']] =
    some [Char.ofNat 27 :: "[31;44;1m".toList, Char.ofNat 27 :: "[44;1m".toList,
          Char.ofNat 27 :: "[32;44;4m".toList, []] := by decide +kernel
/-- the same items, all in the constructor's argument, in another order -/
example : colorsAfter (run [] false
      (.dict (.cons ['A'] (.str "RED/BLUE:bold".toList) (.cons ['C'] (.str "B:GREEN:no_bold,underline".toList)
        (.cons ['B'] (.str "A:-".toList) .nil)))) []) [['A'], ['B'], ['C'], ['?']] =
    colorsAfter (run [] false exCfg exOps) [['A'], ['B'], ['C'], ['?']] := by decide +kernel
/-- the hypotheses of `order_indep` hold for `exOps` / `exOps'` -/
example : (flatten exCfg ++ exOps.flatMap opItems).Perm (flatten exCfg ++ exOps'.flatMap opItems) ∧
    ((flatten exCfg ++ exOps.flatMap opItems ++ flatten Gen.C14.builtin).map (·.1)).Nodup := by
  decide +kernel
/-- a palette class whose defaults complete the chain: the palette sees the completed chain -/
example : (match run exClasses false exCfg [.pal 0 false] with
    | .ok w => (match getPalette exClasses w 0 false with
      | .ok (_, s) => some s
      | .error _ => none)
    | .error _ => none) =
    some [(['t', 'e', 'x', 't'], ['T', 'E', 'X', 'T'], []),
          (['a', 'c', 'c'], ['C'], Char.ofNat 27 :: "[32;44;4m".toList)] := by decide +kernel
/-- under `no_color` the same history hands out effect-free formatters only -/
example : colorsAfter (run [] true exCfg exOps) [['A'], ['B'], ['C'], ['?']] = some [[], [], [], []] := by
  decide +kernel
/-- a cycle makes the constructor raise `AssertionError` (outside the quantifier of the property) -/
example : (match run [] false (.dict (.cons ['A'] (.str ['B']) (.cons ['B'] (.str ['A']) .nil))) [] with
    | .ok _ => none
    | .error e => some e) = some .assertion := by decide +kernel

/-- the hypotheses of `no_error` hold for `exCfg` / `exOps` -/
example : (∀ op ∈ exOps, op.plain = true) ∧ (regNames exOps).Nodup ∧
    (∀ kv ∈ flatten exCfg ++ (flatten Gen.C14.builtin ++ exOps.flatMap opItems), (parsed kv.2).isSome = true) ∧
    Acyclic (fun id =>
      (dictGet (flatten exCfg ++ (flatten Gen.C14.builtin ++ exOps.flatMap opItems)) id).bind parsed) :=
  ⟨by decide +kernel, by decide +kernel, by decide +kernel,
   acyclic_of_check
     (rank := chainDepth (flatten exCfg ++ (flatten Gen.C14.builtin ++ exOps.flatMap opItems)) 20)
     (by decide +kernel)⟩

/-- a synced palette created while another configuration is the global one, a second one created
afterwards; the chain of `C` is completed by the defaults of class 0 when the configuration becomes the
global one, and `A` is overridden … no: registered first by class 0, so the later `add` does not change it -/
def syncedAfter (r : Except Err GWorld) (k : Nat) : Option Snap :=
  match r with
  | .ok g => if g.isGlobal then cacheGet g.synced k else none
  | .error _ => none

example : syncedAfter (runAll exClasses false exCfg
      [.syn 0, .setGlobal, .op (.add [(['A'], "GREEN".toList)]), .sget 0]) 0 =
    some [(['t', 'e', 'x', 't'], ['T', 'E', 'X', 'T'], []),
          (['a', 'c', 'c'], ['C'], Char.ofNat 27 :: "[32;44;4m".toList)] := by decide +kernel

/-- late resolution, the shape of C10's finding: the explicit configuration makes `TABLE.BORDER` refer to
`RECORD.TITLE`, which only the class of palette `Q` registers.  `P` obtained first has a plain border; after `Q`
was obtained, `P` obtained again has the coloured one (hypothesis and right-hand side of the `iff` of
`palette_after_palette` hold: the chain was incomplete, `Q`'s defaults complete it to GREEN). -/
def lateClasses : List ClassDef :=
  [⟨[], none, [("border".toList, "TABLE.BORDER".toList)]⟩,
   ⟨[], some (.dict (.cons "RECORD.TITLE".toList (.str "GREEN".toList) .nil)), []⟩]
def lateCfg : Cfg := .dict (.cons "TABLE.BORDER".toList (.str "RECORD.TITLE".toList) .nil)
def paletteOf (r : Except Err World) (k : Nat) : Option Snap :=
  match r with
  | .ok w => (match getPalette lateClasses w k false with
    | .ok (_, s) => some s
    | .error _ => none)
  | .error _ => none
example : paletteOf (run lateClasses false lateCfg []) 0 =
    some [("border".toList, "TABLE.BORDER".toList, [])] := by decide +kernel
example : paletteOf (run lateClasses false lateCfg [.pal 0 false, .pal 1 false]) 0 =
    some [("border".toList, "TABLE.BORDER".toList, Char.ofNat 27 :: "[32m".toList)] := by decide +kernel

/-- the domain of `no_error_global` is inhabited: two classes (class 1 lists class 0 as parent, only class 0
has defaults), a synced palette of class 1 created before the configuration becomes the global one -/
def safeClasses : List ClassDef :=
  [⟨[], some (.dict (.cons ['A'] (.str "RED/BLUE:bold".toList) .nil)), [(['a', 'c', 'c'], ['C'])]⟩,
   ⟨[0], none, [(['b'], ['B'])]⟩]
def safeOffers : List (Id × Str) :=
  flatten exCfg ++ flatten Gen.C14.builtin ++ [(['A'], "RED/BLUE:bold".toList), (['Z'], "C:underline".toList)]
def safeOps : List GOp :=
  [.syn 1, .op (.pal 0 false), .setGlobal, .sget 1, .op (.add [(['Z'], "C:underline".toList)]), .syn 0, .sget 0]
example : ctxb safeClasses safeOffers [0, 1] (chainDepth safeOffers 20) = true := by decide +kernel
example : (∀ kv ∈ flatten exCfg, kv ∈ safeOffers) ∧ (∀ kv ∈ flatten Gen.C14.builtin, kv ∈ safeOffers) ∧
    OpsOK safeClasses safeOffers [0, 1] [] [] safeOps := by
  refine ⟨by decide +kernel, by decide +kernel, ?_⟩
  simp only [safeOps, OpsOK]
  decide +kernel
/-- … and the shape of `setGlobal_reentrant_raises`, evaluated: `AssertionError` -/
def reClasses : List ClassDef :=
  [⟨[], some (.dict (.cons "P1.X".toList (.str "RED".toList) .nil)), []⟩,
   ⟨[0], some (.dict (.cons "K.Y".toList (.str "P1.X:bold".toList) .nil)), [(['y'], "K.Y".toList)]⟩]
example : (match runAll reClasses false (.dict .nil) [.syn 1, .setGlobal] with
    | .ok _ => none
    | .error e => some e) = some .assertion := by decide +kernel

/-- seed m6's shape: the default syntax is RED, the synced accessor `x -> DEMO.X` shows RED while `DEMO.X` is
unknown, nothing once `DEMO.X` is registered but pending (a batch that resolves nothing), GREEN+bold once
`DEMO.BASE` arrives -/
def pendClasses : List ClassDef := [⟨[], none, [(['x'], "DEMO.X".toList)]⟩]
def pendCfg : Cfg := .dict (.cons "TEXT".toList (.str "RED".toList) .nil)
example : syncedAfter (runAll pendClasses false pendCfg [.setGlobal, .syn 0]) 0 =
    some [(['x'], "DEMO.X".toList, Char.ofNat 27 :: "[31m".toList)] := by decide +kernel
example : syncedAfter (runAll pendClasses false pendCfg
      [.setGlobal, .syn 0, .op (.add [("DEMO.X".toList, "DEMO.BASE:bold".toList)])]) 0 =
    some [(['x'], "DEMO.X".toList, [])] := by decide +kernel
example : syncedAfter (runAll pendClasses false pendCfg
      [.setGlobal, .syn 0, .op (.add [("DEMO.X".toList, "DEMO.BASE:bold".toList)]),
       .op (.add [("DEMO.BASE".toList, "GREEN".toList)])]) 0 =
    some [(['x'], "DEMO.X".toList, Char.ofNat 27 :: "[32;1m".toList)] := by decide +kernel

/-- seed m10's shape: configuration 0 (`DEMO.X` RED) is the global one, then configuration 1 (`DEMO.X`
BLUE, bold) replaces it; a registration into configuration 0 and a palette obtained from it afterwards leave the
synced palette on configuration 1's colours -/
def twoOps : List MOp :=
  [.new false (.dict (.cons "DEMO.X".toList (.str "RED".toList) .nil)),
   .new false (.dict (.cons "DEMO.X".toList (.str "BLUE:bold".toList) .nil)),
   .setGlobal 0, .syn 0, .setGlobal 1,
   .on 0 (.add [("FRESH".toList, "GREEN".toList)]), .on 0 (.pal 0 false)]
def syncedOfM (r : Except Err MWorld) (k : Nat) : Option Snap :=
  match r with
  | .ok m => cacheGet m.synced k
  | .error _ => none
example : syncedOfM (runM pendClasses ⟨[], [], none, []⟩ (twoOps.take 4)) 0 =
    some [(['x'], "DEMO.X".toList, Char.ofNat 27 :: "[31m".toList)] := by decide +kernel
example : syncedOfM (runM pendClasses ⟨[], [], none, []⟩ twoOps) 0 =
    some [(['x'], "DEMO.X".toList, Char.ofNat 27 :: "[34;1m".toList)] := by decide +kernel

/-- the blank spelling is the same description: the parser strips colour tokens, rgb components and listed
modifiers (seed m12's shapes, evaluated) -/
example : parseInitStr "RED :bold".toList = parseInitStr "RED:bold".toList ∧
    parseInitStr " GREEN".toList = parseInitStr "GREEN".toList ∧
    parseInitStr "P: CYAN".toList = parseInitStr "P:CYAN".toList ∧
    parseInitStr "P: - :no_bold".toList = parseInitStr "P:-:no_bold".toList ∧
    parseInitStr "( 1, 2, 3 ) / g4 :crossed , blink".toList = parseInitStr "(1,2,3)/g4:crossed,blink".toList ∧
    parseInitStr "RED :bold".toList = .ok ⟨none, .col (.named "RED".toList), .unspec, [("bold".toList, true)]⟩ := by
  decide +kernel

/-- seed m16's shapes: `red`, `Magenta`, `g24`, `Bold` are references in the first section; in the second
section (where only colours or modifiers may stand) they are rejected, exactly as the code does -/
example : (parseInitStr "red:bold".toList = .ok ⟨some "red".toList, .unspec, .unspec, [("bold".toList, true)]⟩) ∧
    (parseInitStr "Magenta".toList = .ok ⟨some "Magenta".toList, .unspec, .unspec, []⟩) ∧
    (parseInitStr "g24".toList = .ok ⟨some "g24".toList, .unspec, .unspec, []⟩) ∧
    (parseInitStr "Bold:RED".toList = .ok ⟨some "Bold".toList, .col (.named "RED".toList), .unspec, []⟩) ∧
    (parseInitStr "A:red".toList = .error .valueError) ∧ (parseInitStr "red:GREEN".toList =
      .ok ⟨some "red".toList, .col (.named "GREEN".toList), .unspec, []⟩) := by decide +kernel

-- groups called like a syntax: `{"ERROR": {"CODE": "ERROR:/g2"}, "NAME": {"SHORT": "NAME:no_bold"}}`
def grpCfg : Cfg :=
  .dict (.cons "ERROR".toList (.dict (.cons "CODE".toList (.str "ERROR:/g2".toList) .nil))
    (.cons "NAME".toList (.dict (.cons "SHORT".toList (.str "NAME:no_bold".toList) .nil)) .nil))
example : flatten grpCfg = [("ERROR.CODE".toList, "ERROR:/g2".toList), ("NAME.SHORT".toList, "NAME:no_bold".toList)] ∧
    dictGet (flatten grpCfg) "ERROR".toList = none ∧
    dictGet (flatten Gen.C14.builtin) "ERROR".toList = some "RED:bold".toList ∧
    (∀ kv ∈ flatten Gen.C14.builtin, '.' ∉ kv.1) := by decide +kernel
example : colorsAfter (run [] false grpCfg []) ["ERROR".toList, "ERROR.CODE".toList, "NAME.SHORT".toList] =
    some ["\x1b[31;1m".toList, "\x1b[31;48:5:234;1m".toList, "\x1b[32m".toList] := by decide +kernel

-- the per-class no-colour palette exists already (left by configuration 0) when configuration 1 asks for it:
-- the class is registered in configuration 1 all the same
def ncClasses : List ClassDef :=
  [⟨[], some (.dict (.cons "C.A".toList (.str "RED:bold".toList) .nil)), [(['a'], "C.A".toList)]⟩]
example : (match runM ncClasses ⟨[], [], none, []⟩
      [.new false (.dict .nil), .new false (.dict .nil), .on 0 (.pal 0 true), .on 1 (.pal 0 true)] with
    | .ok m => (m.ncCache.map (·.1), m.confs.map fun c => (decide (Src.cls 0 ∈ c.sources), getColor c "C.A".toList))
    | .error _ => ([], [])) =
    ([0], [(true, "\x1b[31;1m".toList), (true, "\x1b[31;1m".toList)]) := by decide +kernel

-- a kept `get_palette()` of configuration 0 after configuration 1 became the global one and configuration 0 changed
example : (match runK pendClasses ⟨⟨[], [], none, []⟩, []⟩
      [.m (.new false pendCfg), .m (.new false (.dict .nil)), .m (.setGlobal 0), .gpal 0, .m (.setGlobal 1),
       .m (.on 0 (.add [("X".toList, "TEXT:bold".toList)]))] with
    | .ok k =>
      (match stepK pendClasses k (.gread 0 "X".toList) with
       | .ok (_, r) => (k.kept.map (·.1), k.m.glob, r.item)
       | .error _ => ([], none, none))
    | .error _ => ([], none, none)) = ([0], some 1, some "\x1b[31;1m".toList) := by decide +kernel

end C14
