import AkVerif.Lemmas.ColorsConf
