import AkVerif.Lemmas.LLTerm
/-! # C03 (under construction) -/
namespace C03
end C03
