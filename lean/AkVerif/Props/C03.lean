import AkVerif.Lemmas.LLC03
import AkVerif.Lemmas.LLSession
import AkVerif.Lemmas.LLTransfer2
import AkVerif.Lemmas.LLCtorRec
import AkVerif.Lemmas.LLTmpl
import AkVerif.Lemmas.LLCtorRecG
import AkVerif.Lemmas.LLCtorN
import AkVerif.Lemmas.LLUserSets
import AkVerif.Lemmas.LLTmplC02
/-!
# C03 — left-recursive grammars are rejected; accepted grammars always terminate

Property theorems only.  Model: `LL.recCheck` (`_verify_grammar_structure_part2`, with the repaired
treatment of an already examined nullable symbol), `LL.construct`, `LL.Parser.parse` = `LL.run`.
`Reach1 G N X Y` is "`X → α Y β` is a rule of the dictionary `G` with every symbol of `α` in `N`";
`Plus` its transitive closure.

The check runs on the factorised dictionary; `user_cycle_iff` transfers its verdict to the
dictionary the user wrote (both `smart_factorization` values).
-/
namespace C03
open LL Ak

/-- **The recursion check is exact**, for every dictionary with distinct keys whose symbols are
terminals or keys, every nullable list and **every order** in which the start symbols are taken
(so for every assignment of names): `GrammarIsRecursive` iff some symbol reaches itself without
consuming a token; `ok` iff there is no such symbol; nothing else is ever answered (no `KeyError`,
no `IndexError`, the fuel always suffices). -/
theorem recCheck_iff {σ : Type} [DecidableEq σ] (G : Prods σ) (terms nulls order : List σ)
    (hnd : (G.map (·.1)).Nodup) (hdisj : ∀ k ∈ G.map (·.1), k ∉ terms)
    (hknown : ∀ X rules, (X, rules) ∈ G → ∀ r ∈ rules, ∀ s ∈ r.rhs, s ∈ terms ∨ s ∈ G.map (·.1))
    (hord : ∀ k ∈ G.map (·.1), k ∈ order) (hord' : ∀ s ∈ order, s ∈ terms ∨ s ∈ G.map (·.1)) :
    (recCheck G terms nulls order = .error .grammarIsRecursive ↔ ∃ X, Plus (Reach1 G nulls) X X) ∧
    (recCheck G terms nulls order = .ok () ↔ ¬ ∃ X, Plus (Reach1 G nulls) X X) :=
  recCheck_rec_iff hnd hdisj hknown hord hord'

/-- a grammar the constructor accepts has no cycle (in its factorised dictionary, with the nullable
set the constructor computed) -/
theorem accepted_no_cycle (inp : CtorIn) (P : Parser) (hP : construct inp = .ok P) :
    ¬ ∃ X, Plus (Reach1 P.prods P.nullables) X X := by
  have hB := construct_built hP
  have h1 := verifyPart1_ok hB.hV
  obtain ⟨hnd, _⟩ := built_struct hB
  have hknown : ∀ X rules, (X, rules) ∈ P.prods → ∀ r ∈ rules, ∀ s ∈ r.rhs,
      s ∈ P.terminals ∨ s ∈ P.prods.map (·.1) :=
    fun X rules hm r hr s hs => h1.known s (mem_psyms.2 ⟨X, rules, hm, r, hr, hs⟩)
  exact ((recCheck_rec_iff hnd (fun k hk => h1.disjoint k hk) hknown (fun k hk => mem_sortedKeys.2 hk)
    (fun s hs => Or.inr (mem_sortedKeys.1 hs))).2).1 hB.hR

/-- **Factorisation neither creates nor hides left recursion**: for a constructed parser, the
factorised dictionary (with the nullable set the constructor computed) has a cycle iff the *user's*
dictionary has one w.r.t. its own least nullable set (`nullables` applied to the user's dictionary;
proved least: `LL.nullables_least`).  Uses: nullables agree on non-helper symbols, every helper has
an expansion, helper chains are well-founded (path length). -/
theorem user_cycle_iff (inp : CtorIn) (P : Parser) (hP : construct inp = .ok P) (NU : List Sym)
    (hNU : nullables P.userProds = .ok NU) :
    (∃ X, Plus (Reach1 P.prods P.nullables) X X) ↔ (∃ X, Plus (Reach1 P.userProds NU) X X) :=
  built_cycle_iff (construct_built hP) hNU

/-- an accepted grammar is not left recursive — stated on the productions **the user supplied** -/
theorem accepted_user_acyclic (inp : CtorIn) (P : Parser) (hP : construct inp = .ok P) (NU : List Sym)
    (hNU : nullables P.userProds = .ok NU) : ¬ ∃ X, Plus (Reach1 P.userProds NU) X X :=
  LL.accepted_user_acyclic hP hNU

/-- never a false alarm: when the constructor's stages before the check succeed (terminal names,
`_create_productions`, `_factorize_productions`, nullables) and the check answers
`GrammarIsRecursive`, some symbol of the **user's** grammar reaches itself without consuming a token.
(The stages are explicit hypotheses because `construct` also has other error exits.) -/
theorem rejected_user_cyclic (inp : CtorIn) (U G : Prods Sym) (S NG NU : List Sym)
    (hD : (tokenNames inp).any (fun t => hasDunder t.name) = false)
    (hU : createProds 0 inp.prods [] = .ok U)
    (hF : factorize (tokenNames inp) U inp.smart = .ok (G, S))
    (hNG : nullables G = .ok NG) (hNU : nullables U = .ok NU)
    (hrec : recCheck G (sadd (tokenNames inp) endSym) NG (sortedKeys G) = .error .grammarIsRecursive) :
    ∃ X, Plus (Reach1 U NU) X X :=
  LL.rejected_user_cyclic hD hU hF hNG hNU hrec

/-- **Between part 1 of the structure check and the recursion check nothing can fail**: once
`_verify_grammar_structure_part1` has passed (every right-hand side symbol is a terminal or a key, the start symbol
is a key), `_get_nullables`, `_calc_first_sets`, `_calc_follow_sets` and `_make_llone_table` all return — no
`KeyError`, no failed `assert non_term in nullables`, the fuel of the three loops suffices.  Generic lemma:
`LL.sets_total`. -/
theorem later_stages_total (terms : List Sym) (start : Sym) (G : Prods Sym)
    (hV : verifyPart1 terms start G = .ok ()) (hend : endSym ∈ terms) :
    ∃ N F W Tb, nullables G = .ok N ∧ firstSets terms N G = .ok F ∧
      followSets terms N F G start endSym = .ok W ∧ mkTable terms N F W G = .ok Tb :=
  LL.later_stages_total hV hend

/-- **The first sentence of the property, at the level of the constructor**: when the stages of the constructor
that raise *other* exceptions succeed (`hD` terminal names without `__` — else `AssertionError`; `hskip` skip set —
else `GrammarError`; `hU` `_create_productions` and `hF` `_factorize_productions` — else `AssertionError`; `hV`
`_verify_grammar_structure_part1` — else `GrammarError`), the constructor raises `GrammarIsRecursive` **iff** some
symbol of the productions the user wrote reaches itself without consuming a token (`NU` = least nullable set of the
user's dictionary; `hNU` always holds for some `NU`: `nullables_total`), and it returns a parser iff there is no
such symbol.  Both `smart_factorization` values, every assignment of names.  No hypothesis on nullables / FIRST /
FOLLOW / the table of the factorised dictionary any more: they cannot fail (`later_stages_total`).
The hypotheses are met by every input the constructor accepts (`ctor_recursive_hyps_met`). -/
theorem ctor_recursive_iff (inp : CtorIn) (skip : List Sym) (U G : Prods Sym) (S NU : List Sym)
    (hD : (tokenNames inp).any (fun t => hasDunder t.name) = false)
    (hskip : skipSet inp (tokenNames inp) = .ok skip)
    (hU : createProds 0 inp.prods [] = .ok U)
    (hF : factorize (tokenNames inp) U inp.smart = .ok (G, S))
    (hV : verifyPart1 (sadd (tokenNames inp) endSym) (parseSym inp.start) G = .ok ())
    (hNU : nullables U = .ok NU) :
    (construct inp = .error .grammarIsRecursive ↔ ∃ X, Plus (Reach1 U NU) X X) ∧
    ((∃ P, construct inp = .ok P) ↔ ¬ ∃ X, Plus (Reach1 U NU) X X) :=
  construct_rec_iff' hD hskip hU hF hV hNU

/-- `_get_nullables` is total: the hypothesis `hNU` of `ctor_recursive_iff` can always be met -/
theorem nullables_total (U : Prods Sym) : ∃ NU, nullables U = .ok NU := LL.nullables_total U

/-- **The hypotheses of `ctor_recursive_iff` are satisfiable and are met whenever the constructor returns a
parser**: every stage named there succeeded, with `U`, `G`, … the fields of the parser. -/
theorem ctor_recursive_hyps_met (inp : CtorIn) (P : Parser) (hP : construct inp = .ok P) :
    (tokenNames inp).any (fun t => hasDunder t.name) = false ∧
    skipSet inp (tokenNames inp) = .ok P.skip ∧
    createProds 0 inp.prods [] = .ok P.userProds ∧
    factorize (tokenNames inp) P.userProds inp.smart = .ok (P.prods, P.suffix) ∧
    verifyPart1 (sadd (tokenNames inp) endSym) (parseSym inp.start) P.prods = .ok () ∧
    nullables P.prods = .ok P.nullables ∧
    firstSets (sadd (tokenNames inp) endSym) P.nullables P.prods = .ok P.first ∧
    followSets (sadd (tokenNames inp) endSym) P.nullables P.first P.prods (parseSym inp.start) endSym = .ok P.follow ∧
    mkTable (sadd (tokenNames inp) endSym) P.nullables P.first P.follow P.prods = .ok P.table ∧
    ∃ NU, nullables P.userProds = .ok NU :=
  construct_stages_of_ok hP

/-- **The same iff for dictionaries written with production templates** (`ProdSequence`, `ListProds`,
`MapProds`): `constructGN nonull T` is the constructor the driver executes — the templates' generated productions
are the data `T`, `nonull` the item symbols of the list templates without a delimiter; `U` is the
**expanded** dictionary (`createProdsT T`: every template key replaced by the productions it generates — the
dictionary the harness's reference left-recursion test runs on).  Besides the stages of `ctor_recursive_iff`:
`hVT` — the templates' own `verify_grammar` passes (no item of a delimiter-less list is nullable; otherwise the
constructor raises `GrammarError` *before* the recursion check: `ctor_grammarError_templates`);
`hpl`: no name of the dictionary has the shape of a helper name `X__Snn` (decidable). -/
theorem ctor_recursive_iff_templates (nonull : List (List Char)) (T : Tmpl) (inp : CtorIn) (skip : List Sym)
    (U G : Prods Sym) (S NG NU : List Sym) (hpl : PlainNames inp.prods)
    (hD : (tokenNames inp).any (fun t => hasDunder t.name) = false)
    (hskip : skipSet inp (tokenNames inp) = .ok skip)
    (hU : createProdsT T 0 inp.prods [] = .ok U)
    (hF : factorize (tokenNames inp) U inp.smart = .ok (G, S))
    (hV : verifyPart1 (sadd (tokenNames inp) endSym) (parseSym inp.start) G = .ok ())
    (hN : nullables G = .ok NG)
    (hVT : ∀ n ∈ nonull, parseSym n ∉ NG)
    (hNU : nullables U = .ok NU) :
    (constructGN nonull T inp = .error .grammarIsRecursive ↔ ∃ X, Plus (Reach1 U NU) X X) ∧
    ((∃ P, constructGN nonull T inp = .ok P) ↔ ¬ ∃ X, Plus (Reach1 U NU) X X) :=
  constructGN_rec_iff' hpl hD hskip hU hF hV hN hVT hNU

/-- **`ListProds.verify_grammar` comes first**: a list template without a delimiter whose item symbol is nullable
makes the constructor raise `GrammarError` — whether or not the expanded grammar (`L → I L | ε`, left recursive
through the nullable `I`) would also fail the recursion check. -/
theorem ctor_grammarError_templates (nonull : List (List Char)) (T : Tmpl) (inp : CtorIn) (skip : List Sym)
    (U G : Prods Sym) (S NG : List Sym)
    (hD : (tokenNames inp).any (fun t => hasDunder t.name) = false)
    (hskip : skipSet inp (tokenNames inp) = .ok skip)
    (hU : createProdsT T 0 inp.prods [] = .ok U)
    (hF : factorize (tokenNames inp) U inp.smart = .ok (G, S))
    (hV : verifyPart1 (sadd (tokenNames inp) endSym) (parseSym inp.start) G = .ok ())
    (hN : nullables G = .ok NG) (n : List Char) (hn : n ∈ nonull) (hnull : parseSym n ∈ NG) :
    constructGN nonull T inp = .error .grammarError :=
  constructGN_grammarError hD hskip hU hF hV hN hn hnull

/-- an accepted dictionary with templates is not left recursive — stated on the **expanded** productions
(unconditional) -/
theorem accepted_user_acyclic_templates (nonull : List (List Char)) (T : Tmpl) (inp : CtorIn) (P : Parser)
    (hP : constructGN nonull T inp = .ok P)
    (hpl : PlainNames inp.prods) (NU : List Sym) (hNU : nullables P.userProds = .ok NU) :
    ¬ ∃ X, Plus (Reach1 P.userProds NU) X X :=
  acceptedG_user_acyclic (constructGN_ok hP) hpl hNU

/-- **Stack bound** (generic): under the hypotheses of the termination theorem, a stack satisfying
the invariant has at most `(|tokens| + 1) · (R + 1)` frames, `R` bounding the ranks of its symbols:
from the bottom frame to the top one the pairs `(|tokens| − start, rank sym)` strictly decrease
(a child opened at its parent's start position means the parent's collected values are all
nullable, hence `parent ▷ child`). -/
theorem stack_bound {σ : Type} [DecidableEq σ] (C : TCtx σ) (hC : TCtxOK C) (R : Nat)
    (st : List (Frame σ)) (h : TStack C st) (hR : ∀ f ∈ st, C.rank f.sym ≤ R) :
    st.length ≤ (C.toks.length + 1) * (R + 1) :=
  tstack_bound hC R st h hR

/-- **Stack bound, composed**: for an accepted grammar there is a constant `B` such that every
stack reached by the parse loop on any input has at most `(|tokens| + 1) · B` frames — the stack
never grows without bound. -/
theorem stack_bound_parse (inp : CtorIn) (P : Parser) (hP : construct inp = .ok P) :
    ∃ B, ∀ (raw : List (List Char × List Char)) (n : Nat) (st : List (Frame Sym)),
      iter P.cfg (P.tokens raw) n (initStack startSym P.start endSym) = .cont st →
        st.length ≤ ((P.tokens raw).length + 1) * B :=
  stack_bound_of_built (construct_built hP).core (built_struct (construct_built hP)).1

/-- **Termination of the parse loop** (generic), for every table — ambiguous or not — and every
token list: if the computed nullable set is closed under the rules, a rank decreases along
"can start with, behind nullables", and table entries are non-empty lists of rules of the symbol
(`TCtxOK`), then from any one-frame stack satisfying the invariant `run` does not run out of fuel. -/
theorem run_terminates {σ : Type} [DecidableEq σ] (C : TCtx σ) (hC : TCtxOK C) (b : Frame σ)
    (h : TStack C [b]) : ∃ k, ∀ fuel, k ≤ fuel → run C.G C.toks fuel [b] ≠ .error .outOfFuel :=
  LL.run_terminates hC b h

/-- **Termination, composed**: every grammar the constructor accepts (any names, both
`smart_factorization` values) terminates on every input; `TCtxOK` is discharged from the model:
closure from the exit of the nullable loop, the rank from `recCheck … = ok` (order of
"blackening"), the table from `mkTable`. No assumption on the input. -/
theorem parse_terminates (inp : CtorIn) (P : Parser) (hP : construct inp = .ok P)
    (raw : List (List Char × List Char)) :
    ∃ k, ∀ fuel, k ≤ fuel → P.parse raw fuel ≠ .error .outOfFuel :=
  parse_terminates_of_built (construct_built hP).core (built_struct (construct_built hP)).1 raw

/-- **Totality**: on every input `parse` returns a tree or raises `ParsingError` — it neither loops
nor hits one of the `IndexError` places of the loop (`tokens[cur]` behind `$END$`, an empty stack,
`prod_rs[cur_prod_id]`, the final `assert`). -/
theorem parse_total (inp : CtorIn) (P : Parser) (hP : construct inp = .ok P)
    (raw : List (List Char × List Char)) :
    ∃ k, ∀ fuel, k ≤ fuel → (∃ t, P.parse raw fuel = .ok t) ∨ P.parse raw fuel = .error .parsingError :=
  parse_total_of_built (construct_built hP).core (built_struct (construct_built hP)).1
    (built_struct (construct_built hP)).2 raw

/-- **Termination, totality and the stack bound for dictionaries with production templates**
(`ProdSequence`, `ListProds`, `MapProds`; whatever productions the templates generate — they are data `T`, no
condition on them; `constructGN nonull T`: the constructor the driver executes): a dictionary the constructor accepts has no cycle, and `parse` returns a tree or raises
`ParsingError` on every input with a stack below `(|tokens|+1)·B`.  (A `ProdSequence` with a nullable member,
`S → S__ELEMENT S`, is therefore never accepted.) -/
theorem templates_total (nonull : List (List Char)) (T : Tmpl) (inp : CtorIn) (P : Parser)
    (hP : constructGN nonull T inp = .ok P) :
    (¬ ∃ X, Plus (Reach1 P.prods P.nullables) X X) ∧
    (∀ raw, ∃ k, ∀ fuel, k ≤ fuel →
      (∃ t, P.parse raw fuel = .ok t) ∨ P.parse raw fuel = .error .parsingError) ∧
    (∃ B, ∀ raw n st, iter P.cfg (P.tokens raw) n (initStack startSym P.start endSym) = .cont st →
      st.length ≤ ((P.tokens raw).length + 1) * B) :=
  ⟨accepted_no_cycle_G (constructGN_ok hP), fun raw => parse_total_G (constructGN_ok hP) raw,
    stack_bound_G (constructGN_ok hP)⟩

/-- **Totality of `parse(text, start_symbol_name=s)`**, any `s`: `AssertionError` when `s` is not a key
of the factorised dictionary, otherwise a tree or `ParsingError` — the explicit start symbol cannot
make the loop run away either. -/
theorem parse_from_total (inp : CtorIn) (P : Parser) (hP : construct inp = .ok P) (s : List Char)
    (raw : List (List Char × List Char)) :
    ∃ k, ∀ fuel, k ≤ fuel → (∃ t, P.parseFrom s raw fuel = .ok t) ∨
      P.parseFrom s raw fuel = .error .parsingError ∨ P.parseFrom s raw fuel = .error .assertion :=
  parseFrom_total (construct_built hP) s raw

/-- **Totality of `parse(text, start_symbol_name=s)` on a dictionary with templates**, any `s`. -/
theorem parse_from_total_templates (nonull : List (List Char)) (T : Tmpl) (inp : CtorIn) (P : Parser)
    (hP : constructGN nonull T inp = .ok P) (s : List Char) (raw : List (List Char × List Char)) :
    ∃ k, ∀ fuel, k ≤ fuel → (∃ t, P.parseFrom s raw fuel = .ok t) ∨
      P.parseFrom s raw fuel = .error .parsingError ∨ P.parseFrom s raw fuel = .error .assertion :=
  parseFrom_total_G (constructG_built (constructGN_ok hP)) s raw

/-! Non-vacuity: the defect witness `E → A E X | Y ; A → Z | ε` (left recursion hidden behind the
earlier-sorted nullable `A`) is rejected with `GrammarIsRecursive` by the model of the repaired
check, for both settings; its cycle `E ▷ E` is exhibited; the same grammar without the recursion is
accepted and parses. -/
def witness (smart : Bool) : CtorIn :=
  { groups := ["SPACE".toList, "X".toList, "Y".toList, "Z".toList], syn := [], kw := [], skip := none,
    start := "E".toList,
    prods := [("E".toList, [["A".toList, "E".toList, "X".toList], ["Y".toList]]),
              ("A".toList, [["Z".toList], []])],
    smart := smart }

def isRec (inp : CtorIn) : Bool :=
  match construct inp with
  | .error .grammarIsRecursive => true
  | _ => false

example : isRec (witness true) = true := by decide +kernel
example : isRec (witness false) = true := by decide +kernel

def wG : Prods Sym :=
  [(Sym.user "E", [⟨[Sym.user "A", Sym.user "E", Sym.user "X"], 0⟩, ⟨[Sym.user "Y"], 1⟩]),
   (Sym.user "A", [⟨[Sym.user "Z"], 2⟩, ⟨[], 3⟩])]

example : Plus (Reach1 wG [Sym.user "A"]) (Sym.user "E") (Sym.user "E") :=
  Plus.one ⟨[⟨[Sym.user "A", Sym.user "E", Sym.user "X"], 0⟩, ⟨[Sym.user "Y"], 1⟩],
    ⟨[Sym.user "A", Sym.user "E", Sym.user "X"], 0⟩, 1, by simp [wG], by simp, by simp, by simp⟩

def okInp : CtorIn :=
  { (witness true) with prods := [("E".toList, [["A".toList, "Y".toList, "E".toList], ["Y".toList]]),
                                   ("A".toList, [["Z".toList], []])] }

example : (match construct okInp with
    | .ok P => (match P.parse [("Y".toList, "y".toList), ("Y".toList, "y".toList)] 1000 with
                | .ok _ => true | .error _ => false)
    | .error _ => false) = true := by decide +kernel

/-! `ListProds.verify_grammar` comes before the recursion check: `L = ListProds(None, 'I', None, None)` expands to
`L → I L | ε`; with `I → a | ε` (nullable item) the expanded dictionary is left recursive, the constructor without the
templates' stage answers `GrammarIsRecursive`, the real constructor — and `constructGN` with `nonull = [I]` — answers
`GrammarError`; with a non-nullable item both accept. -/
def listInp (nullableItem : Bool) : CtorIn :=
  { groups := ["SPACE".toList, "a".toList], syn := [], kw := [], skip := none, start := "L".toList,
    prods := [("L".toList, [["I".toList, "L".toList], []]),
              ("I".toList, if nullableItem then [["a".toList], []] else [["a".toList]])],
    smart := true }

def listT : Tmpl := ⟨["L".toList], []⟩

example : (match constructGN ["I".toList] listT (listInp true), constructG listT (listInp true) with
    | .error .grammarError, .error .grammarIsRecursive => true
    | _, _ => false) = true := by decide +kernel
example : (match constructGN ["I".toList] listT (listInp false) with
    | .ok P => (match P.parse [("a".toList, "a".toList), ("a".toList, "a".toList)] 1000 with
                | .ok _ => true | .error _ => false)
    | .error _ => false) = true := by decide +kernel

end C03
