import AkVerif.Lemmas.XlsRows
import AkVerif.Lemmas.XlsSort
import AkVerif.Lemmas.XlsCoord
import AkVerif.Lemmas.XlsWf
import AkVerif.Lemmas.XlsConv
import AkVerif.Lemmas.XlsReader
import AkVerif.Lemmas.XlsKey
/-!
# C18 — objects read from a sheet match their source cells

Property theorems only; all of them are about `Xls.iterTable` / `Xls.attrOrigin`, the functions
the driver `Drv/C18.lean` runs, for every sheet, rule set, end rule and every converter
(`cv : Conv V` is a parameter).

Vocabulary (definitions in `Lemmas/Xls*.lean`):
* `AttrOk cv titles known look rule (value, origin)` — the attribute value is what its own
  reported origin says: a coordinate ↦ the conversion of the cell `look` finds in the column the
  rule names; "skipped"/"n/a" ↦ the declared default of a rule whose column is missing / which is
  external; a `{title: coordinate}` map ↦ per title the conversion (dict) or its truth value (set)
  of the cell of that range column, and the titles are exactly the range columns.
* `cellAt s c` — the first cell of the sheet (row by row) whose coordinate is `c`.
* `Holder p rows i j cell` — `cell` is the cell that holds the value of column `j` for data row `i`:
  the cell of that row (plain table, `p = none`), or for a ladder table the cell of the nearest
  row above whose cells `p..j` are not all blank.
-/
namespace C18
open Xls Ak

/-- Title binding. A successful binding has one slot per rule; an external attribute has no
column; a plain attribute is bound to the last column carrying its title, or — only if it has a
default — to nothing when no column carries it; a ranged attribute is bound to the range columns
(`range_columns`), each through the last column carrying that title, and may be empty only if
it is optional. `known` are the titles named by the rules of all rule sets of the reader
(`Cfg.known`; for `iter_table` / `read_table`: of the one rule set). -/
theorem bind_sound {V : Type} (titles known : List Key) (rules : List (Rule V)) (slots : List Slot)
    (h : bindTitles titles known rules = .ok slots) :
    slots.length = rules.length ∧
    ∀ (i : Nat) (rule : Rule V) (sl : Slot), rules[i]? = some rule → slots[i]? = some sl →
      match rule with
      | .ext _ => sl = .none
      | .col t _ d =>
        (∃ j, sl = .at j ∧ titles[j]? = some t ∧ ∀ j', j < j' → titles[j']? ≠ some t) ∨
        (sl = .none ∧ t ∉ titles ∧ d.isSome = true)
      | .range _ _ opt =>
        ∃ ids, sl = .range (rangeNames known titles) ids ∧
          ids.length = (rangeNames known titles).length ∧
          (∀ (m : Nat) (n : Key), (rangeNames known titles)[m]? = some n →
            ∃ j, ids[m]? = some j ∧ titles[j]? = some n ∧ ∀ j', j < j' → titles[j']? ≠ some n) ∧
          (rangeNames known titles = [] → opt = true) := by
  obtain ⟨hlen, hall⟩ := bindTitles_spec titles known rules slots h
  refine ⟨hlen, ?_⟩
  intro i rule sl hr hs
  have hb := hall i rule sl hr hs
  cases rule with
  | ext d => simp only [bindRule] at hb; cases hb; rfl
  | col t ct d =>
    simp only [bindRule] at hb
    cases hl : lookupLast titles t with
    | some j =>
      rw [hl] at hb; cases hb
      obtain ⟨h1, h2⟩ := lookupLast_some titles t j hl
      exact Or.inl ⟨j, rfl, h1, h2⟩
    | none =>
      rw [hl] at hb
      simp only [] at hb
      split at hb
      · rename_i hd; cases hb; exact Or.inr ⟨rfl, lookupLast_none titles t hl, hd⟩
      · cases hb
  | range kind ct opt =>
    simp only [bindRule] at hb
    split at hb
    · cases hb
    · rename_i hne
      split at hb
      · rename_i ids hids
        cases hb
        obtain ⟨h1, h2⟩ := lookupAllLast_spec titles _ ids hids
        refine ⟨ids, rfl, h1, ?_, ?_⟩
        · intro m n hm
          obtain ⟨j, hj, hl⟩ := h2 m n hm
          obtain ⟨g1, g2⟩ := lookupLast_some titles n j hl
          exact ⟨j, hj, g1, g2⟩
        · intro hnil
          rw [hnil] at hne
          cases opt with
          | true => rfl
          | false => simp at hne
      · cases hb

/-- Binding fails only with `ValueError`, and only because a plain attribute without default has
no column or a ranged attribute that is not optional has no range column. -/
theorem bind_error {V : Type} (titles known : List Key) (rules : List (Rule V)) (e : Err)
    (h : bindTitles titles known rules = .error e) :
    e = .valueError ∧
    ∃ rule ∈ rules,
      (∃ t ct, rule = .col t ct none ∧ t ∉ titles) ∨
      (∃ kind ct, rule = .range kind ct false ∧ rangeNames known titles = []) := by
  unfold bindTitles at h
  induction rules with
  | nil => simp [mapE] at h
  | cons r rs ih =>
    simp only [mapE] at h
    split at h
    · rename_i e' he
      cases h
      refine ⟨bindRule_error titles known r e he, r, by simp, ?_⟩
      cases r with
      | ext d => simp [bindRule] at he
      | col t ct d =>
        simp only [bindRule] at he
        cases hl : lookupLast titles t with
        | some j => rw [hl] at he; cases he
        | none =>
          rw [hl] at he
          cases d with
          | some d => simp at he
          | none => exact Or.inl ⟨t, ct, rfl, lookupLast_none titles t hl⟩
      | range kind ct opt =>
        simp only [bindRule] at he
        split at he
        · rename_i hc
          cases opt with
          | true => simp at hc
          | false =>
            refine Or.inr ⟨kind, ct, rfl, ?_⟩
            simpa using hc
        · split at he
          · cases he
          · rename_i hn
            obtain ⟨ids, hids⟩ := lookupAllLast_of_mem titles (rangeNames known titles)
              (fun n hn => (rangeNames_mem known titles n hn).1)
            rw [hids] at hn; cases hn
    · split at h
      · rename_i e' he
        cases h
        obtain ⟨h1, rule, hr, h2⟩ := ih he
        exact ⟨h1, rule, by simp [hr], h2⟩
      · cases h

/-- Range detection: the columns of a ranged attribute are the first maximal run of titled
columns whose title no rule names (blank titles and named columns end the run); `known` = the
titles named by the rules of *any* rule set of the reader (`Cfg.known`, `reader_known`). -/
theorem range_columns (known titles : List Key) :
    ∃ pre post, titles = pre ++ rangeNames known titles ++ post ∧
      (∀ t ∈ pre, isRangeCol known t = false) ∧
      (∀ t ∈ rangeNames known titles, isRangeCol known t = true) ∧
      (∀ t rest, post = t :: rest → isRangeCol known t = false) :=
  rangeNames_run known titles

/-- One result per data row, in sheet order. Whatever `iter_table` yields (`objs`, then the
exception `err` if one ended it): either nothing was yielded because the sheet has no title row or
the titles cannot be bound; or the sheet is blank rows, the title row, then `data ++ tail` where no
row of `data` fires the end rule, there are exactly as many results as rows in `data`, the `i`-th
result is `construct` of the `i`-th row of `data` (with the ladder substitution `curRows`; for a
plain table that is the row itself; `callIdxs`: with the number of earlier `__init__` runs, i.e. the
number of the call of the default factories), and `data` is everything up to the first row the end rule
fires on (or the end of the sheet) when no exception ended the iteration, resp. up to the row on
which the end rule, the ladder substitution or `construct` raised that exception. -/
theorem one_per_row {V : Type} (cv : Conv V) (cfg : Cfg V) (s : Sheet)
    (objs : List (Option (Obj V))) (err : Option Err) (h : iterTable cv cfg s = ⟨objs, err⟩) :
    (objs = [] ∧ ((∀ r ∈ s, rowEmpty r = true) ∧ err = none ∨ err = some .valueError)) ∨
    ∃ pre title data tail slots curs,
      s = pre ++ title :: (data ++ tail) ∧ (∀ r ∈ pre, rowEmpty r = true) ∧ rowEmpty title = false ∧
      bindTitles (title.map fun c => titleOf c.val) cfg.known cfg.rules = .ok slots ∧
      (∀ r ∈ data, endFires cfg.stop r = .ok false) ∧
      (err = none → tail = [] ∨ ∃ t rest, tail = t :: rest ∧ endFires cfg.stop t = .ok true) ∧
      (∀ e, err = some e → ∃ t rest, tail = t :: rest ∧
        (endFires cfg.stop t = .error e ∨
         (endFires cfg.stop t = .ok false ∧
          (curRow (ladderPos cfg (title.map fun c => titleOf c.val)) (lastPrev none curs) t = .error e ∨
           ∃ cur, curRow (ladderPos cfg (title.map fun c => titleOf c.val)) (lastPrev none curs) t = .ok cur ∧
             construct cv cfg.numId cfg.rules slots (kAfter cfg.numId slots 0 curs) cur = .error e)))) ∧
      objs.length = data.length ∧
      curRows (ladderPos cfg (title.map fun c => titleOf c.val)) none data = .ok curs ∧
      (cfg.ladder = false → curs = data) ∧
      ∀ (i : Nat) cur kk o, curs[i]? = some cur →
        (callIdxs cfg.numId slots 0 curs)[i]? = some kk → objs[i]? = some o →
        construct cv cfg.numId cfg.rules slots kk cur = .ok o := by
  rcases iterTable_spec cv cfg s objs err h with ⟨h1, h2, h3⟩ | ⟨pre, title, rest, h1, h2, h3, h4⟩
  · exact Or.inl ⟨h2, Or.inl ⟨h1, h3⟩⟩
  · rcases h4 with ⟨e, he, ho, hee⟩ | ⟨slots, hs, hd⟩
    · refine Or.inl ⟨ho, Or.inr ?_⟩
      rw [hee, (bind_error _ _ _ e he).1]
    · obtain ⟨data, tail, curs, g1, g2, g3, g4, g5, g6, g7⟩ := dataRows_spec cv cfg slots _ rest 0 none objs err hd
      have hcl := (curRows_step _ data none curs g3).1
      refine Or.inr ⟨pre, title, data, tail, slots, curs, by rw [h1, g1], h2, h3, hs, g2, g6, g7,
        by omega, g3, ?_, g5⟩
      intro hl
      simp only [ladderPos, hl, Bool.false_eq_true, if_false] at g3
      rw [curRows_plain] at g3
      cases g3; rfl

/-- Values match their reported origins. For every object yielded as `i`-th result and each of its
attributes `(value, origin)` (there is one per rule, in rule order): `AttrOk` holds with respect to
the titles of the title row and the cells that hold the values for data row `i` (`Holder`). In
particular an origin that is a coordinate is the coordinate of a cell of the sheet in the column
titled as the rule says, in row `i` after the title row (plain table) or the nearest row above that
holds the value (ladder), and the attribute is the conversion of exactly that cell; an attribute
without cell has its declared default: the result of call number `o.serial` of the declared factory
(`fresh_defaults`: a different call for every object). -/
theorem value_at_origin {V : Type} (cv : Conv V) (cfg : Cfg V) (s : Sheet)
    (objs : List (Option (Obj V))) (err : Option Err) (h : iterTable cv cfg s = ⟨objs, err⟩)
    (i : Nat) (o : Obj V) (ho : objs[i]? = some (some o)) :
    ∃ pre title rest, s = pre ++ title :: rest ∧ (∀ r ∈ pre, rowEmpty r = true) ∧
      rowEmpty title = false ∧ o.attrs.length = cfg.rules.length ∧ o.serial ≤ i ∧
      ∀ (k : Nat) (a : AVal V × Origin), o.attrs[k]? = some a →
        ∃ rule, cfg.rules[k]? = some rule ∧
          AttrOk cv (title.map fun c => titleOf c.val) cfg.known
            (Holder (ladderPos cfg (title.map fun c => titleOf c.val)) rest i) o.serial rule a := by
  rcases one_per_row cv cfg s objs err h with ⟨h1, _⟩ | ⟨pre, title, data, tail, slots, curs, h1, h2, h3, h4, h5, _, _, h8, h9, _, h11⟩
  · rw [h1] at ho; simp at ho
  · have hi : i < data.length := by have := getElem?_lt_of_some _ _ _ ho; omega
    have hcl := (curRows_step _ data none curs h9).1
    have hic : i < curs.length := by omega
    have hkl := callIdxs_length cfg.numId slots curs 0
    have hik : i < (callIdxs cfg.numId slots 0 curs).length := by omega
    have hkk : (callIdxs cfg.numId slots 0 curs)[i]? = some (callIdxs cfg.numId slots 0 curs)[i] := by
      simp [hik]
    have hcon := h11 i curs[i] _ (some o) (by simp [hic]) hkk ho
    obtain ⟨hslen, hsall⟩ := bindTitles_spec _ _ _ _ h4
    obtain ⟨hal, hser, hattr⟩ := construct_attr cv cfg.numId cfg.rules slots _ curs[i] o hcon hslen
    have hbound := (callIdxs_bounds cfg.numId slots curs 0 i _ hkk).2
    refine ⟨pre, title, data ++ tail, h1, h2, h3, hal, by omega, ?_⟩
    intro k a ha
    obtain ⟨r, sl, src, hr, hsl, hsrc, hinit⟩ := hattr k a ha
    refine ⟨r, hr, ?_⟩
    rw [hser]
    have hok := attr_ok cv _ cfg.known curs[i] r sl src a (hsall k r sl hr hsl) hsrc _ hinit
    refine AttrOk.mono cv _ _ _ _ ?_ _ r a hok
    intro j c hjc
    exact Holder.append _ data tail i j c hi (curRows_holder _ data curs h9 i curs[i] j c (by simp [hic]) hjc)

/-- A ranged *set* attribute holds exactly the titles whose cell, converted by the set's own element
converter, is truthy — whatever the converter makes of a cell, a blank one included (an element converter
for which a blank cell is a truthy value, e.g. `CellBool(true_values=[None, ''], …)`, makes the blank
cells of the group members). For an object yielded as `i`-th result whose `k`-th attribute is a set `ks`:
the rule is a ranged rule with some element converter `ct`, the reported origin is a `{title: coordinate}`
map, every member of the set has an origin, and for every title `key` that `get_attr_origin(attr, key)`
answers with a coordinate `c`: `c` is the coordinate of the cell holding the value of a column titled `key`
for that row, that cell converts (to `v`), and `key ∈ ks` exactly if `v` is truthy. -/
theorem set_member_at_origin {V : Type} (cv : Conv V) (cfg : Cfg V) (s : Sheet)
    (objs : List (Option (Obj V))) (err : Option Err) (h : iterTable cv cfg s = ⟨objs, err⟩)
    (i : Nat) (o : Obj V) (ho : objs[i]? = some (some o))
    (k : Nat) (ks : List Key) (org : Origin) (ha : o.attrs[k]? = some (.set ks, org)) :
    ∃ pre title rest kind ct opt, s = pre ++ title :: rest ∧ (∀ r ∈ pre, rowEmpty r = true) ∧
      rowEmpty title = false ∧ cfg.rules[k]? = some (.range kind ct opt) ∧
      (∀ key ∈ ks, ∃ c, attrOrigin org (some key) = .ok c) ∧
      ∀ key c, attrOrigin org (some key) = .ok c →
        ∃ (j : Nat) (cell : Cell) (v : V), (title.map fun c => titleOf c.val)[j]? = some key ∧
          Holder (ladderPos cfg (title.map fun c => titleOf c.val)) rest i j cell ∧ cell.coord = c ∧
          cv.conv ct cell.val = .ok v ∧ (key ∈ ks ↔ cv.truthy v = true) := by
  obtain ⟨pre, title, rest, h1, h2, h3, _, _, hall⟩ := value_at_origin cv cfg s objs err h i o ho
  obtain ⟨rule, hr, hok⟩ := hall k _ ha
  unfold AttrOk at hok
  cases org with
  | na => obtain ⟨d, _, hv⟩ := hok; cases hv
  | skipped => obtain ⟨t, ct, d, _, _, hv⟩ := hok; cases hv
  | cell c => obtain ⟨t, ct, d, j, cell, v, _, _, _, _, _, _, hv⟩ := hok; cases hv
  | range items =>
    obtain ⟨kind, ct, opt, hrule, hkeys, _, hmem⟩ := hok
    subst hrule
    have horg : ∀ key c, attrOrigin (.range items) (some key) = .ok c → dictGet items key = some c := by
      intro key c hc
      simp only [attrOrigin] at hc
      split at hc
      · rename_i c' hc'; cases hc; exact hc'
      · cases hc
    refine ⟨pre, title, rest, kind, ct, opt, h1, h2, h3, hr, ?_, ?_⟩
    · intro key hk
      obtain ⟨c, hc⟩ := hmem key hk
      exact ⟨c, by simp only [attrOrigin, hc]⟩
    · intro key c hc
      obtain ⟨j, cell, v, ht, _, _, hlook, hco, hconv, hkind⟩ := hkeys key c (horg key c hc)
      refine ⟨j, cell, v, ht, hlook, hco, hconv, ?_⟩
      cases kind with
      | dict => obtain ⟨d, hd, _⟩ := hkind; cases hd
      | set => obtain ⟨ks', hks, hiff⟩ := hkind; cases hks; exact hiff

/-- Every object gets its own call of the declared default factories: the objects of a table are
made by different runs of `__init__` (`serial`), later objects by later runs — so a default that is
`d serial` (`value_at_origin`) is a fresh result of the factory for each object (a counter
advances from object to object, `list` gives every object its own list), never a value shared
with, or computed before, another object. -/
theorem fresh_defaults {V : Type} (cv : Conv V) (cfg : Cfg V) (s : Sheet)
    (objs : List (Option (Obj V))) (err : Option Err) (h : iterTable cv cfg s = ⟨objs, err⟩)
    (i i' : Nat) (o o' : Obj V) (hii : i < i') (ho : objs[i]? = some (some o))
    (ho' : objs[i']? = some (some o')) : o.serial < o'.serial := by
  rcases one_per_row cv cfg s objs err h with ⟨h1, _⟩ | ⟨pre, title, data, tail, slots, curs, _, _, _, h4, _, _, _, h8, h9, _, h11⟩
  · rw [h1] at ho; simp at ho
  · have hi' : i' < data.length := by have := getElem?_lt_of_some _ _ _ ho'; omega
    have hcl := (curRows_step _ data none curs h9).1
    have hkl := callIdxs_length cfg.numId slots curs 0
    have hic : i < curs.length := by omega
    have hic' : i' < curs.length := by omega
    have hkk : (callIdxs cfg.numId slots 0 curs)[i]? = some (callIdxs cfg.numId slots 0 curs)[i] := by
      simp [show i < (callIdxs cfg.numId slots 0 curs).length by omega]
    have hkk' : (callIdxs cfg.numId slots 0 curs)[i']? = some (callIdxs cfg.numId slots 0 curs)[i'] := by
      simp [show i' < (callIdxs cfg.numId slots 0 curs).length by omega]
    have hcon := h11 i curs[i] _ (some o) (by simp [hic]) hkk ho
    have hcon' := h11 i' curs[i'] _ (some o') (by simp [hic']) hkk' ho'
    obtain ⟨_, _, _, hser⟩ := construct_some cv _ _ _ _ _ o hcon
    obtain ⟨_, _, _, hser'⟩ := construct_some cv _ _ _ _ _ o' hcon'
    rw [hser, hser']
    exact callIdxs_lt cfg.numId slots curs 0 i i' _ _ curs[i] hii hkk hkk' (by simp [hic])
      (construct_some_ranInit cv _ _ _ _ _ o hcon)

/-- One call per use, none otherwise. The defaults of an object are the results of call number
`o.serial` of the declared factories (`value_at_origin`), and `o.serial` is exactly the number of
earlier data rows of the table for which `__init__` ran — each of which took every default once:
nothing else calls a factory. -/
theorem default_calls {V : Type} (cv : Conv V) (cfg : Cfg V) (s : Sheet)
    (objs : List (Option (Obj V))) (err : Option Err) (h : iterTable cv cfg s = ⟨objs, err⟩)
    (i : Nat) (o : Obj V) (ho : objs[i]? = some (some o)) :
    ∃ pre title data tail slots curs, s = pre ++ title :: (data ++ tail) ∧
      bindTitles (title.map fun c => titleOf c.val) cfg.known cfg.rules = .ok slots ∧
      curRows (ladderPos cfg (title.map fun c => titleOf c.val)) none data = .ok curs ∧
      o.serial = ((curs.take i).filter (ranInit cfg.numId slots)).length := by
  rcases one_per_row cv cfg s objs err h with ⟨h1, _⟩ | ⟨pre, title, data, tail, slots, curs, h1, _, _, h4, _, _, _, h8, h9, _, h11⟩
  · rw [h1] at ho; simp at ho
  · have hi : i < data.length := by have := getElem?_lt_of_some _ _ _ ho; omega
    have hcl := (curRows_step _ data none curs h9).1
    have hkl := callIdxs_length cfg.numId slots curs 0
    have hic : i < curs.length := by omega
    have hkk : (callIdxs cfg.numId slots 0 curs)[i]? = some (callIdxs cfg.numId slots 0 curs)[i] := by
      simp [show i < (callIdxs cfg.numId slots 0 curs).length by omega]
    have hcon := h11 i curs[i] _ (some o) (by simp [hic]) hkk ho
    obtain ⟨_, _, _, hser⟩ := construct_some cv _ _ _ _ _ o hcon
    refine ⟨pre, title, data, tail, slots, curs, h1, h4, h9, ?_⟩
    rw [hser, callIdxs_count cfg.numId slots curs 0 i _ hkk]
    simp

/-- … none otherwise: an optional attribute whose column is in the sheet is bound to that column
whatever its default is, and its value is computed from the cell without the default. Declaring a
default (a counter, a sequence shared with other attributes, …) for a column that is present has no
effect on the read, and the read has none on the factory (`unusedDefaults`: its next call is call
number 0). -/
theorem default_unused {V : Type} (cv : Conv V) (titles known : List Key) (t : Key) (ct : Nat)
    (d d' : Option (Nat → V)) (j : Nat) (hb : bindRule titles known (.col t ct d) = .ok (.at j)) :
    bindRule titles known (.col t ct d') = .ok (.at j) ∧
    ∀ (k k' : Nat) (c : Cell), initAttr cv k (.col t ct d) (.cell c) = initAttr cv k' (.col t ct d') (.cell c) := by
  constructor
  · simp only [bindRule] at hb ⊢
    cases hl : lookupLast titles t with
    | some j' => rw [hl] at hb; exact hb
    | none =>
      rw [hl] at hb
      simp only [] at hb
      split at hb <;> cases hb
  · intro k k' c; rfl

/-- `None` results. A data row yields `None` instead of an object only if the class has key
attributes and either every key attribute is a plain column whose cell for that row (`Holder`) is
blank (`cell.value is None`), or the object could be built and the value of every key attribute —
which is what its own origin says (`AttrOk`) — is `None`. -/
theorem none_result {V : Type} (cv : Conv V) (cfg : Cfg V) (s : Sheet)
    (objs : List (Option (Obj V))) (err : Option Err) (h : iterTable cv cfg s = ⟨objs, err⟩)
    (i : Nat) (ho : objs[i]? = some none) :
    0 < cfg.numId ∧
    ∃ pre title rest, s = pre ++ title :: rest ∧ (∀ r ∈ pre, rowEmpty r = true) ∧
      rowEmpty title = false ∧
      ((∀ k, k < cfg.numId → k < cfg.rules.length →
          ∃ t ct d j cell, cfg.rules[k]? = some (.col t ct d) ∧
            (title.map fun c => titleOf c.val)[j]? = some t ∧
            Holder (ladderPos cfg (title.map fun c => titleOf c.val)) rest i j cell ∧
            cell.val = .blank) ∨
       (cfg.numId ≤ cfg.rules.length ∧ ∀ k, k < cfg.numId →
          ∃ rule a kk, cfg.rules[k]? = some rule ∧
            AttrOk cv (title.map fun c => titleOf c.val) cfg.known
              (Holder (ladderPos cfg (title.map fun c => titleOf c.val)) rest i) kk rule a ∧
            a.1.isNone cv = true)) := by
  rcases one_per_row cv cfg s objs err h with ⟨h1, _⟩ | ⟨pre, title, data, tail, slots, curs, h1, h2, h3, h4, h5, _, _, h8, h9, _, h11⟩
  · rw [h1] at ho; simp at ho
  · have hi : i < data.length := by have := getElem?_lt_of_some _ _ _ ho; omega
    have hcl := (curRows_step _ data none curs h9).1
    have hic : i < curs.length := by omega
    have hkl := callIdxs_length cfg.numId slots curs 0
    have hik : i < (callIdxs cfg.numId slots 0 curs).length := by omega
    have hkk : (callIdxs cfg.numId slots 0 curs)[i]? = some (callIdxs cfg.numId slots 0 curs)[i] := by
      simp [hik]
    have hcon := h11 i curs[i] _ none (by simp [hic]) hkk ho
    obtain ⟨hslen, hsall⟩ := bindTitles_spec _ _ _ _ h4
    obtain ⟨hn, srcs, hsrcs, hcase⟩ := construct_none cv cfg.numId cfg.rules slots _ curs[i] hcon
    have hsl := mapE_length _ _ _ hsrcs
    have hold : ∀ (j : Nat) (c : Cell), curs[i][j]? = some c →
        Holder (ladderPos cfg (title.map fun c => titleOf c.val)) (data ++ tail) i j c :=
      fun j c hjc => Holder.append _ data tail i j c hi
        (curRows_holder _ data curs h9 i curs[i] j c (by simp [hic]) hjc)
    refine ⟨hn, pre, title, data ++ tail, h1, h2, h3, ?_⟩
    rcases hcase with hblank | ⟨attrs, hz, hle, hnone⟩
    · left
      intro k hk hkr
      have hks : k < srcs.length := by omega
      have hmem : srcs[k] ∈ srcs.take cfg.numId :=
        mem_take_of_lt srcs cfg.numId k _ hk (by simp [hks])
      obtain ⟨c, hc, hb⟩ := hblank _ hmem
      obtain ⟨sl, hsl', hso⟩ := mapE_get _ _ _ hsrcs k srcs[k] (by simp [hks])
      rw [hc] at hso
      obtain ⟨j, hj, hcj⟩ := srcOf_cell _ _ _ hso
      subst hj
      have hb' := (bind_sound _ _ _ _ h4).2 k cfg.rules[k] (.at j) (by simp [hkr]) hsl'
      cases hr : cfg.rules[k] with
      | ext d => rw [hr] at hb'; cases hb'
      | range kind ct opt => rw [hr] at hb'; obtain ⟨ids, hids, _⟩ := hb'; cases hids
      | col t ct d =>
        rw [hr] at hb'
        rcases hb' with ⟨j', hj', ht, _⟩ | ⟨hno, _⟩
        · cases hj'
          exact ⟨t, ct, d, j, c, by simp [hkr, hr], ht, hold j c hcj, hb⟩
        · cases hno
    · right
      refine ⟨hle, ?_⟩
      intro k hk
      obtain ⟨hal, hget⟩ := zipInit_spec cv _ cfg.rules srcs attrs hz
      have hka : k < attrs.length := by omega
      have hmem : attrs[k] ∈ attrs.take cfg.numId :=
        mem_take_of_lt attrs cfg.numId k _ hk (by simp [hka])
      obtain ⟨r, s', hr, hs', hinit⟩ := hget k attrs[k] (by simp [hka])
      obtain ⟨sl, hsl', hso⟩ := mapE_get _ _ _ hsrcs k s' hs'
      have hok := attr_ok cv _ cfg.known curs[i] r sl s' attrs[k] (hsall k r sl hr hsl') hso _ hinit
      exact ⟨r, attrs[k], _, hr, AttrOk.mono cv _ _ _ _ hold _ r _ hok, hnone _ hmem⟩

/-- Rows without a key. If the class has key attributes and the key cells of a (substituted) data
row are all blank (`cell.value is None`), the row is answered with `None` — whatever the other cells
of the row hold and whatever the converters would make of them (`cv` is arbitrary: nothing is
converted), so a heading or totals line never ends the table with a conversion error. -/
theorem blank_key_row {V : Type} (cv : Conv V) (numId : Nat) (rules : List (Rule V))
    (slots : List Slot) (k : Nat) (row : Row) (srcs : List Src)
    (hs : mapE (srcOf row) slots = .ok srcs) (hn : 0 < numId)
    (hb : ∀ s ∈ srcs.take numId, ∃ c, s = .cell c ∧ c.val = .blank) :
    construct cv numId rules slots k row = .ok none :=
  construct_keyless cv numId rules slots k row srcs hs hn hb

/-- A key attribute that is not read from a column (known finding `key_attr_not_plain_column`; the model
reproduces what the code does). If one of the first `_NUM_ID_ATTRS` attributes is external, an optional attribute
whose column is missing, or ranged — its slot is not a column position — and the key cells before it are blank
(always, when it is the first key attribute), `construct` raises `AttributeError` (`None.value` /
`tuple.value` in `cell.value is None for cell in cells[:_NUM_ID_ATTRS]`) instead of making an object, and
the iteration of the table ends at that row. `only_value_errors` excludes such rule sets (`RulesOk`). -/
theorem key_not_column_fails {V : Type} (cv : Conv V) (numId : Nat) (rules : List (Rule V))
    (slots : List Slot) (k : Nat) (row : Row) (srcs : List Src) (hs : mapE (srcOf row) slots = .ok srcs)
    (i : Nat) (hi : i < numId)
    (hblank : ∀ i', i' < i → ∃ c, srcs[i']? = some (.cell c) ∧ c.val = .blank)
    (hslot : ∃ sl, slots[i]? = some sl ∧ ∀ j, sl ≠ .at j) :
    construct cv numId rules slots k row = .error .attributeError :=
  construct_key_not_column cv numId rules slots k row srcs hs i hi hblank hslot

/-- The wording of the property for a worksheet whose coordinates are pairwise distinct: an
attribute whose reported origin (`get_attr_origin(attr)`, resp. `get_attr_origin(attr, key)` of a
ranged attribute) is the coordinate `c` is the conversion of *the* cell of the sheet at `c`. -/
theorem origin_cell_lookup {V : Type} (cv : Conv V) (cfg : Cfg V) (s : Sheet)
    (hnd : (s.flatten.map fun x => x.coord).Nodup)
    (objs : List (Option (Obj V))) (err : Option Err) (h : iterTable cv cfg s = ⟨objs, err⟩)
    (i : Nat) (o : Obj V) (ho : objs[i]? = some (some o))
    (k : Nat) (val : AVal V) (org : Origin) (ha : o.attrs[k]? = some (val, org)) :
    (∀ c, org = .cell c → attrOrigin org none = .ok c ∧
      ∃ t ct d cell v, cfg.rules[k]? = some (.col t ct d) ∧ cellAt s c = some cell ∧
        cv.conv ct cell.val = .ok v ∧ val = .plain v) ∧
    (∀ items key c, org = .range items → attrOrigin org (some key) = .ok c →
      ∃ kind ct opt cell v, cfg.rules[k]? = some (.range kind ct opt) ∧ cellAt s c = some cell ∧
        cv.conv ct cell.val = .ok v ∧
        match kind with
        | .dict => ∃ d, val = .dict d ∧ dictGet d key = some v
        | .set => ∃ ks, val = .set ks ∧ (key ∈ ks ↔ cv.truthy v = true)) := by
  obtain ⟨pre, title, rest, h1, _, _, _, _, hall⟩ := value_at_origin cv cfg s objs err h i o ho
  obtain ⟨rule, hr, hok⟩ := hall k (val, org) ha
  have hmem : ∀ (j : Nat) (cell : Cell),
      Holder (ladderPos cfg (title.map fun c => titleOf c.val)) rest i j cell → cell ∈ s.flatten := by
    rintro j cell ⟨i', row, _, g2, g3, _⟩
    rw [h1]
    simp only [List.flatten_append, List.flatten_cons, List.mem_append, List.mem_flatten]
    exact Or.inr (Or.inr ⟨row, List.mem_of_getElem? g2, List.mem_of_getElem? g3⟩)
  constructor
  · intro c hc
    subst hc
    refine ⟨rfl, ?_⟩
    obtain ⟨t, ct, d, j, cell, v, g1, _, _, g4, g5, g6, g7⟩ := hok
    refine ⟨t, ct, d, cell, v, g1 ▸ hr, ?_, g6, g7⟩
    unfold cellAt
    rw [← g5]
    exact find_of_nodup _ hnd cell (hmem j cell g4)
  · intro items key c hc hkey
    subst hc
    obtain ⟨kind, ct, opt, g1, g2, _, _⟩ := hok
    simp only [attrOrigin] at hkey
    split at hkey
    · rename_i c' hc'
      cases hkey
      obtain ⟨j, cell, v, _, _, _, f4, f5, f6, f7⟩ := g2 key c hc'
      refine ⟨kind, ct, opt, cell, v, g1 ▸ hr, ?_, f6, f7⟩
      unfold cellAt
      rw [← f5]
      exact find_of_nodup _ hnd cell (hmem j cell f4)
    · cases hkey

/-- The hypothesis of `origin_cell_lookup` holds for every worksheet whose cells carry the usual
coordinates (`A1`, `B1`, … `Z1`, `AA1`, …: `mkSheet`, what the driver and the harness' worksheet
use): they are pairwise distinct. -/
theorem sheet_coordinates_distinct (rows : List (List Val)) :
    ((mkSheet rows).flatten.map fun x => x.coord).Nodup :=
  nodup_mkSheet rows

/-- The text `get_attr_origin(attr)` gives for a whole ranged attribute whose reported cells are
`items` (`{title: coordinate}`, see `value_at_origin`): the "skipped column" text when there is no
range column, the coordinate when there is one, otherwise `lo:hi` where `lo` and `hi` are
coordinates of cells of the range, the least and the greatest one in the order of
`_coord_sort_key` (`ltCoord`: shorter column name first, then the column name, then the row
number). When the cells lie in several rows (ladder table whose leading columns are the range)
this is a summary by two source cells, not a list of them. -/
theorem range_origin_text (items : List (Key × List Char)) :
    ∃ text, attrOrigin (.range items) none = .ok text ∧
      ((items.map fun kc => kc.2) = [] ∧ text = Gen.C18.skippedOrigin ∨
       (∃ c, (items.map fun kc => kc.2) = [c] ∧ text = c) ∨
       (2 ≤ (items.map fun kc => kc.2).length ∧ ∃ lo hi, text = lo ++ ':' :: hi ∧
          lo ∈ (items.map fun kc => kc.2) ∧ hi ∈ (items.map fun kc => kc.2) ∧
          ∀ c ∈ (items.map fun kc => kc.2), ltCoord c lo = false ∧ ltCoord hi c = false)) :=
  ⟨_, rfl, rangeDescr_spec _⟩

/-- The property-relevant case: the source cells of the ranged attribute lie in one row `r` of a
worksheet with the usual coordinates, in the columns `cols` (at least two, in any order, contiguous
or not, beyond column `Z` or not). Then the text is `<leftmost cell>:<rightmost cell>`. -/
theorem range_origin_text_row (items : List (Key × List Char)) (r : Nat) (cols : List Nat)
    (hrow : (items.map fun kc => kc.2) = cols.map (mkCoord r)) (h2 : 2 ≤ cols.length) :
    ∃ lo hi, lo ∈ cols ∧ hi ∈ cols ∧ (∀ c ∈ cols, lo ≤ c ∧ c ≤ hi) ∧
      attrOrigin (.range items) none = .ok (mkCoord r lo ++ ':' :: mkCoord r hi) := by
  obtain ⟨lo, hi, h1, h3, h4, h5⟩ := rangeDescr_single_row r cols h2
  refine ⟨lo, hi, h1, h3, h4, ?_⟩
  simp only [attrOrigin, hrow, h5]

/-- the witness of the repaired defect: a range from column `B` to column `AB` of row 2 -/
example : rangeDescr (sortCoords ((List.range 27).map fun k => mkCoord 1 (k + 1))) = "B2:AB2".toList := by
  decide +kernel

/-- Ladder tables. If `s'` is the sheet `s` with the blank leading cells of its data rows filled in
(`fillSheet`, described by `fill_cells`), then reading `s` as a ladder yields exactly what reading
`s'` as a plain table yields: the same results in the same order, the same values, the same
exception if any — and the same reported origins, i.e. the coordinates of the cells of `s` that
hold the values (a filled cell *is* the cell it was copied from, coordinate included). -/
theorem ladder_eq_filled {V : Type} (cv : Conv V) (stop : Stop) (numId : Nat) (rules : List (Rule V))
    (extra : List Key) (s s' : Sheet) (hf : fillSheet stop s = .ok s') :
    iterTable cv ⟨stop, true, numId, rules, extra⟩ s = iterTable cv ⟨stop, false, numId, rules, extra⟩ s' :=
  iterTable_fill cv stop numId rules extra s s' hf

/-- What the filled sheet is. The blank rows before the title row, the title row, and everything
from the first row on which the end rule fires (evaluated on the sheet as given) are unchanged;
each data row before that keeps its length, and its cell in column `j` is the `Holder`: the cell
itself unless the cells from the first titled column up to `j` are all blank, in which case it is
the cell of the nearest row above for which that is not so (the first data row is never filled). -/
theorem fill_cells (stop : Stop) (s s' : Sheet) (hf : fillSheet stop s = .ok s') :
    ((∀ r ∈ s, rowEmpty r = true) ∧ s' = s) ∨
    ∃ pre title data tail curs,
      s = pre ++ title :: (data ++ tail) ∧ s' = pre ++ title :: (curs ++ tail) ∧
      (∀ r ∈ pre, rowEmpty r = true) ∧ rowEmpty title = false ∧
      (∀ r ∈ data, endFires stop r = .ok false) ∧
      (∀ t rest, tail = t :: rest → endFires stop t ≠ .ok false) ∧
      curs.length = data.length ∧
      ∀ (i : Nat) (row cur : Row), data[i]? = some row → curs[i]? = some cur →
        cur.length = row.length ∧
        ∀ (j : Nat) (cell : Cell), cur[j]? = some cell →
          Holder (firstTitled (title.map fun c => titleOf c.val)) (data ++ tail) i j cell := by
  induction s generalizing s' with
  | nil => simp [fillSheet] at hf; subst hf; exact Or.inl ⟨by simp, rfl⟩
  | cons row rest ih =>
    simp only [fillSheet] at hf
    by_cases hre : rowEmpty row = true
    · simp only [hre, if_true] at hf
      split at hf
      · cases hf
      · rename_i r hr
        cases hf
        rcases ih r hr with ⟨h1, h2⟩ | ⟨pre, title, data, tail, curs, h1, h2, h3, h4⟩
        · refine Or.inl ⟨?_, by rw [h2]⟩
          intro x hx
          simp only [List.mem_cons] at hx
          rcases hx with hx | hx
          · exact hx ▸ hre
          · exact h1 x hx
        · refine Or.inr ⟨row :: pre, title, data, tail, curs, by simp [h1], by simp [h2], ?_, h4⟩
          intro x hx
          simp only [List.mem_cons] at hx
          rcases hx with hx | hx
          · exact hx ▸ hre
          · exact h3 x hx
    · have hre' : rowEmpty row = false := by
        cases hr : rowEmpty row with
        | false => rfl
        | true => exact absurd hr hre
      simp only [hre', Bool.false_eq_true, if_false] at hf
      split at hf
      · cases hf
      · rename_i r hr
        cases hf
        obtain ⟨data, tail, curs, g1, g2, g3, g4, g5⟩ := fillRows_spec stop _ rest none r hr
        obtain ⟨hcl, h0, hstep⟩ := curRows_step _ data none curs g5
        refine Or.inr ⟨[], row, data, tail, curs, by simp [g1], by simp [g2], by simp, hre', g3, g4,
          hcl, ?_⟩
        intro i drow cur hd hc
        refine ⟨?_, fun j cell hj =>
          Holder.append _ data tail i j cell (getElem?_lt_of_some _ _ _ hd)
            (curRows_holder _ data curs g5 i cur j cell hc hj)⟩
        cases i with
        | zero =>
          obtain ⟨cur0, hc0, hcr⟩ := h0 drow hd
          rw [hc] at hc0; cases hc0
          exact (curRow_keeps _ _ _ _ hcr).1
        | succ i =>
          have hlt : i < curs.length := by have := getElem?_lt_of_some _ _ _ hc; omega
          obtain ⟨cur', hc', hcr⟩ := hstep i drow curs[i] hd (by simp [hlt])
          rw [hc] at hc'; cases hc'
          exact (curRow_keeps _ _ _ _ hcr).1

/-- A rectangular sheet (what `openpyxl` yields) can always be filled: `ladder_eq_filled` applies. -/
theorem fill_total (stop : Stop) (n : Nat) (s : Sheet) (hrect : ∀ r ∈ s, r.length = n) :
    ∃ s', fillSheet stop s = .ok s' := by
  induction s with
  | nil => exact ⟨[], rfl⟩
  | cons row rest ih =>
    simp only [fillSheet]
    obtain ⟨r, hr⟩ := ih (fun x hx => hrect x (by simp [hx]))
    obtain ⟨r2, hr2⟩ := fillRows_total stop (firstTitled (row.map fun c => titleOf c.val)) n rest none
      (fun x hx => hrect x (by simp [hx])) (by simp)
    split
    · exact ⟨row :: r, by simp [hr]⟩
    · exact ⟨row :: r2, by simp [hr2]⟩

/-- `read_table` is `list(iter_table(…))`: it returns exactly the results `iter_table` yields when no
exception ends the iteration (so every theorem above speaks about its result), and otherwise raises
that exception. `TableReader.read_list` is `read_table` with the default end rule, never a ladder. -/
theorem read_table_sound {V : Type} (cv : Conv V) (cfg : Cfg V) (s : Sheet) :
    (∀ objs, readTable cv cfg s = .ok objs ↔ iterTable cv cfg s = ⟨objs, none⟩) ∧
    (∀ e, readTable cv cfg s = .error e ↔ ∃ objs, iterTable cv cfg s = ⟨objs, some e⟩) ∧
    (∀ numId rules, readList cv numId rules s = readTable cv ⟨.blankAll, false, numId, rules, []⟩ s) := by
  refine ⟨?_, ?_, fun _ _ => rfl⟩
  · intro objs
    unfold readTable readAll
    cases h : iterTable cv cfg s with
    | mk o e =>
      cases e with
      | none => simp
      | some e => simp
  · intro e
    unfold readTable readAll
    cases h : iterTable cv cfg s with
    | mk o e' =>
      cases e' with
      | none => simp
      | some e' => simp

/-- Several objects per row. What `XlsTableReader(rules_1, …, rules_n).iter_table` yields for its
`j`-th rule set is what `iter_table` yields for that rule set alone, configured with the same end
rule and ladder flag and with the reader's known titles (`reader_known`): the `j`-th result of
every yielded row is the result of that row there, and if no exception ended the reader's iteration
there are exactly as many. So every theorem above holds for every object a multi-object reader
yields. -/
theorem reader_rows {V : Type} (cv : Conv V) (r : Reader V) (j : Nat) (c : Cfg V)
    (hc : r.cfgs[j]? = some c) (s : Sheet) :
    (∀ (i : Nat) res, (iterTableM cv r s).rows[i]? = some res →
      ∃ o, res[j]? = some o ∧ (iterTable cv c s).objs[i]? = some o) ∧
    ((iterTableM cv r s).err = none →
      (iterTable cv c s).err = none ∧
      (iterTable cv c s).objs.length = (iterTableM cv r s).rows.length) :=
  iterTableM_proj cv r j c hc s

/-- In a reader every rule set sees, as known titles, the titles named by the rules of *all* rule
sets of the reader: for a ranged attribute of one object a column that belongs to another object is
a named column (it is not part of the range and it ends the run, `range_columns`). -/
theorem reader_known {V : Type} (r : Reader V) (c : Cfg V) (hc : c ∈ r.cfgs) :
    c.stop = r.stop ∧ c.ladder = r.ladder ∧ (∃ st ∈ r.sets, c.numId = st.1 ∧ c.rules = st.2) ∧
    ∀ st ∈ r.sets, ∀ t ∈ knownTitles st.2, t ∈ c.known := by
  unfold Reader.cfgs at hc
  obtain ⟨st0, hst0, hceq⟩ := List.mem_map.mp hc
  subst hceq
  refine ⟨rfl, rfl, ⟨st0, hst0, rfl, rfl⟩, ?_⟩
  intro st hst t ht
  unfold Cfg.known Reader.cfgOf
  exact List.mem_append_right _ (mem_allKnown r.sets st t hst ht)

/-- No spurious exceptions. On a well-formed request — a rectangular sheet with at least one column,
every key attribute read from a column that exists (the other attributes may be external, optional,
ranged, in any position), a key not longer than the attribute list, converters that fail with `ValueError` only — the iteration either runs to the
end of the table or is ended by `ValueError` (a missing required column or a cell its converter
rejects): no `IndexError`, `AttributeError`, `AssertionError`, `TypeError` or `KeyError`. -/
theorem only_value_errors {V : Type} (cv : Conv V) (cfg : Cfg V) (n : Nat) (hn : 0 < n) (s : Sheet)
    (hrect : ∀ r ∈ s, r.length = n) (hw : RulesOk cv cfg (titlesOf s)) :
    (iterTable cv cfg s).err = none ∨ (iterTable cv cfg s).err = some .valueError := by
  cases h : (iterTable cv cfg s).err with
  | none => exact Or.inl rfl
  | some e => rw [iterTable_error_wf cv cfg n hn s hrect hw e h]; exact Or.inr rfl

/-- The converters of the package (`stdConvFn`; the driver runs `iterTable stdConv`), spelled out:
`cell_str`, `cell_int`, `cell_bool` (tables generated from the source), `cell_list`, `cell_set`. -/
theorem std_conv_spec (v : Val) :
    stdConvFn 0 v = (match v with | .blank => .ok .none | v => .ok (.str (strip v.str))) ∧
    stdConvFn 1 v = (match v with | .blank => .ok .none | .int n => .ok (.int n)
                                  | .text _ => .error .valueError) ∧
    stdConvFn 2 v =
      (if inTable Gen.C18.trueInts Gen.C18.trueStrs Gen.C18.trueNone v then .ok (.bool true)
       else if inTable Gen.C18.falseInts Gen.C18.falseStrs Gen.C18.falseNone v then .ok (.bool false)
       else .error .valueError) ∧
    stdConvFn 6 v = (match v with | .blank => .ok .none | .text s => .ok (.list (listItems s))
                                  | .int _ => .error .valueError) ∧
    stdConvFn 7 v = (match v with | .blank => .ok .none | .text s => .ok (.set (setOf (listItems s)))
                                  | .int _ => .error .valueError) := by
  refine ⟨?_, ?_, ?_, ?_, ?_⟩
  case refine_3 =>
    have h0 : inTable stdBool.noneInts stdBool.noneStrs stdBool.noneNone v = false := by cases v <;> rfl
    show cellBool stdBool v = _
    unfold cellBool
    rw [h0]
    rfl
  all_goals cases v <;> simp [stdConvFn]

/-- `CellBool` with constructor options (`true_values`, `false_values`, `none_values`), for all tables: a
value of the none table is `None` whatever the other tables say, else a value of the true table is `True`,
else a value of the false table is `False`, and nothing else is accepted. `cell_bool` (converter 2) and the
`CellBool` objects with options that the check reads sheets with (converters 9-12, `optBool`) are this
function; with the options `true_values=[None, '']` (converter 9) a blank cell is `True`, a truthy value. -/
theorem bool_conv_spec (t : BoolTables) (v : Val) :
    (inTable t.noneInts t.noneStrs t.noneNone v = true → cellBool t v = .ok .none) ∧
    (inTable t.noneInts t.noneStrs t.noneNone v = false →
      (inTable t.trueInts t.trueStrs t.trueNone v = true → cellBool t v = .ok (.bool true)) ∧
      (inTable t.trueInts t.trueStrs t.trueNone v = false →
        (inTable t.falseInts t.falseStrs t.falseNone v = true → cellBool t v = .ok (.bool false)) ∧
        (inTable t.falseInts t.falseStrs t.falseNone v = false → cellBool t v = .error .valueError))) ∧
    stdConvFn 2 v = cellBool stdBool v ∧
    (∀ ct t', optBool ct = some t' → stdConvFn ct v = cellBool t' v) ∧
    (∃ t', optBool 9 = some t' ∧ cellBool t' .blank = .ok (.bool true)) ∧
    stdTruthy (.bool true) = true := by
  refine ⟨(cellBool_spec t v).1, (cellBool_spec t v).2, rfl, ?_, ⟨_, rfl, by decide⟩, rfl⟩
  intro ct t' h
  unfold optBool at h
  split at h <;> first | (cases h; rfl) | cases h

/-- … and what their results look like: a string value is stripped (stripping it again changes
nothing: no leading or trailing white space), every item of a list / set value is non-empty,
stripped and free of `,` and newline; a failed conversion is always a `ValueError`. -/
theorem std_conv_shape (ct : Nat) (hct : ct ≤ 12) (v : Val) :
    (∀ s, stdConvFn ct v = .ok (.str s) → strip s = s) ∧
    (∀ l, stdConvFn ct v = .ok (.list l) ∨ stdConvFn ct v = .ok (.set l) →
      ∀ i ∈ l, i ≠ [] ∧ strip i = i ∧ ',' ∉ i ∧ '\n' ∉ i) ∧
    (∀ e, stdConvFn ct v = .error e → e = .valueError) := by
  refine ⟨?_, ?_, fun e h => stdConv_error ct hct v e h⟩
  · intro s h
    unfold stdConvFn at h
    match ct, hct with
    | 0, _ | 3, _ =>
      simp only [] at h
      split at h
      · cases h
      · cases v <;> simp at h <;> (subst h; first | rfl | exact strip_strip _)
    | 5, _ => cases v <;> simp at h <;> (subst h; first | rfl | exact strip_strip _)
    | 1, _ | 4, _ =>
      simp only [] at h
      split at h
      · cases h
      · cases v <;> simp at h
    | 2, _ | 9, _ | 10, _ | 11, _ | 12, _ =>
      rcases cellBool_ok _ v _ h with h' | h' | h' <;> cases h'
    | 6, _ | 7, _ | 8, _ => cases v <;> simp at h
  · intro l h i hi
    unfold stdConvFn at h
    match ct, hct with
    | 0, _ | 3, _ =>
      simp only [] at h
      rcases h with h | h <;> (split at h; cases h; cases v <;> simp at h)
    | 5, _ => rcases h with h | h <;> (cases v <;> simp at h)
    | 1, _ | 4, _ =>
      simp only [] at h
      rcases h with h | h <;> (split at h; cases h; cases v <;> simp at h)
    | 2, _ | 9, _ | 10, _ | 11, _ | 12, _ =>
      rcases h with h | h <;> (rcases cellBool_ok _ v _ h with h' | h' | h' <;> cases h')
    | 6, _ | 8, _ =>
      rcases h with h | h
      · cases v with
        | blank => simp at h; try (subst h; cases hi)
        | int n => simp at h
        | text s => simp at h; subst h; exact listItems_spec s i hi
      · cases v <;> simp at h
    | 7, _ =>
      rcases h with h | h
      · cases v <;> simp at h
      · cases v with
        | blank => simp at h
        | int n => simp at h
        | text s =>
          simp at h; subst h
          exact listItems_spec s i ((mem_setOf _ _).mp hi)

/-- `only_value_errors` for the package's converters: a well-formed request that uses them can only
be ended by `ValueError`. -/
theorem std_only_value_errors (cfg : Cfg StdV) (n : Nat) (hn : 0 < n) (s : Sheet)
    (hrect : ∀ r ∈ s, r.length = n) (hct : ∀ r ∈ cfg.rules, ∀ ct, r.ct? = some ct → ct ≤ 12)
    (hnum : cfg.numId ≤ cfg.rules.length)
    (hkeys : ∀ k, k < cfg.numId → ∃ t ct d, cfg.rules[k]? = some (.col t ct d) ∧ t ∈ titlesOf s) :
    (iterTable stdConv cfg s).err = none ∨ (iterTable stdConv cfg s).err = some .valueError :=
  only_value_errors stdConv cfg n hn s hrect
    ⟨fun r hr ct hc v e he => stdConv_error ct (hct r hr ct hc) v e he, hnum, hkeys⟩

/-! ## Non-vacuity: the hypotheses are satisfiable on concrete sheets (evaluated by the kernel) -/

section examples

private def ladderSheet : Sheet := mkSheet
  [[.text "Year".toList, .text "Mon".toList, .text "Id".toList],
   [.int 2000, .text "Jan".toList, .int 1],
   [.blank, .text "Feb".toList, .int 2],
   [.blank, .blank, .int 3],
   [.blank, .blank, .blank],
   [.text "trailing".toList, .blank, .blank]]

private def ladderRules : List (Rule StdV) :=
  [.col "Id".toList 1 none, .col "Year".toList 1 none, .col "Mon".toList 0 none,
   .ext (fun k => .int (42 + k))]

/-- three objects; the third one takes year and month from rows 2 and 3 (origins A2, B3) -/
example : (iterTable stdConv ⟨.blankAll, true, 1, ladderRules, []⟩ ladderSheet).objs.map
    (fun o => o.map fun o => o.attrs.map fun a => (attrOrigin a.2 none)) =
    [some [.ok "C2".toList, .ok "A2".toList, .ok "B2".toList, .ok Gen.C18.naOrigin],
     some [.ok "C3".toList, .ok "A2".toList, .ok "B3".toList, .ok Gen.C18.naOrigin],
     some [.ok "C4".toList, .ok "A2".toList, .ok "B3".toList, .ok Gen.C18.naOrigin]] := by
  decide +kernel

example : (iterTable stdConv ⟨.blankAll, true, 1, ladderRules, []⟩ ladderSheet).err = none := by
  decide +kernel

/-- with the rule 'blank first' the ladder ends at the first "same as above" row: one object -/
example : (iterTable stdConv ⟨.blankFirst, true, 1, ladderRules, []⟩ ladderSheet).objs.length = 1 := by
  decide +kernel

/-- the filled sheet exists and differs from the sheet (hypothesis of `ladder_eq_filled`) -/
example : ∃ s', fillSheet .blankAll ladderSheet = .ok s' ∧ s' ≠ ladderSheet ∧
    iterTable stdConv ⟨.blankAll, false, 1, ladderRules, []⟩ s' =
      iterTable stdConv ⟨.blankAll, true, 1, ladderRules, []⟩ ladderSheet := by
  obtain ⟨s', hs'⟩ := fill_total .blankAll 3 ladderSheet (by decide +kernel)
  refine ⟨s', hs', ?_, (ladder_eq_filled stdConv .blankAll 1 ladderRules [] ladderSheet s' hs').symm⟩
  intro heq
  rw [heq] at hs'
  revert hs'
  decide +kernel

/-- the hypotheses of `std_only_value_errors` hold for this request -/
example : (iterTable stdConv ⟨.blankAll, true, 1, ladderRules, []⟩ ladderSheet).err = none ∨
    (iterTable stdConv ⟨.blankAll, true, 1, ladderRules, []⟩ ladderSheet).err = some .valueError := by
  refine std_only_value_errors ⟨.blankAll, true, 1, ladderRules, []⟩ 3 (by decide) ladderSheet
    (by decide +kernel) ?_ (by decide) ?_
  · intro r hr ct hc
    simp only [ladderRules, List.mem_cons, List.not_mem_nil, or_false] at hr
    rcases hr with rfl | rfl | rfl | rfl <;> simp [Rule.ct?] at hc <;> omega
  · intro k hk
    have : k = 0 := by simp only [] at hk; omega
    subst this
    exact ⟨"Id".toList, 1, none, rfl, by decide +kernel⟩

private def rangeSheet : Sheet := mkSheet
  [[.blank, .blank, .blank, .blank],
   [.text "id".toList, .text " math ".toList, .text "cs".toList, .text "name".toList],
   [.int 0, .int 1, .blank, .text "Arnold".toList]]

/-- a ranged set attribute (of `cell_int` cells): bound to the run `math, cs`, value `{math}`,
origin `B3:C3` -/
example : (iterTable stdConv ⟨.blankAll, false, 0,
      [.col "id".toList 1 none, .range .set 1 false, .col "name".toList 0 none,
       .col "status".toList 1 (some fun _ => .int 7)], []⟩ rangeSheet).objs.map
    (fun o => o.map fun o => o.attrs.map fun a => (a.1, attrOrigin a.2 none)) =
    [some [(.plain (.int 0), .ok "A3".toList), (.set ["math".toList], .ok "B3:C3".toList),
           (.plain (.str "Arnold".toList), .ok "D3".toList),
           (.plain (.int 7), .ok Gen.C18.skippedOrigin)]] := by
  decide +kernel

private def optOutSheet : Sheet := mkSheet
  [[.text "id".toList, .text "news".toList, .text "ads".toList, .text "name".toList],
   [.int 1, .blank, .text "x".toList, .text "Ann".toList],
   [.int 2, .text [], .blank, .text "Bob".toList]]

/-- a ranged set attribute whose element converter makes a blank cell `True` (converter 9, "opt-out" columns):
the blank cells of the group are members (hypotheses of `set_member_at_origin` with a blank source cell) -/
example : (iterTable stdConv ⟨.blankAll, false, 1,
      [.col "id".toList 1 none, .range .set 9 false, .col "name".toList 0 none], []⟩ optOutSheet).objs.map
    (fun o => o.map fun o => o.attrs.map fun a => (a.1, attrOrigin a.2 (some "news".toList))) =
    [some [(.plain (.int 1), .error .valueError), (.set ["news".toList], .ok "B2".toList),
           (.plain (.str "Ann".toList), .error .valueError)],
     some [(.plain (.int 2), .error .valueError), (.set ["news".toList, "ads".toList], .ok "B3".toList),
           (.plain (.str "Bob".toList), .error .valueError)]] := by
  decide +kernel

/-- the first attribute need not come from a column: external, ranged and missing optional first
attributes (the rule sets of the repaired anchor-cell defect) yield one object per data row -/
example : (iterTable stdConv ⟨.blankAll, false, 0,
      [.ext (fun _ => .str "file".toList), .range .set 1 true, .col "gone".toList 1 (some fun _ => .none),
       .col "id".toList 1 none, .col "name".toList 0 none], []⟩ rangeSheet).objs.map
      (fun o => o.map fun o => o.attrs.map fun a => a.1) =
    [some [.plain (.str "file".toList), .set ["math".toList], .plain .none, .plain (.int 0),
           .plain (.str "Arnold".toList)]] := by
  decide +kernel

/-- two objects per row: the ranged attribute of the first object does not swallow the column
`name` of the second one (its run is `math, cs`); the counter default of the second object starts at 10 -/
example : (iterTableM stdConv ⟨.blankAll, false,
      [(1, [.col "id".toList 1 none, .range .set 1 false]),
       (0, [.col "name".toList 0 none, .ext (fun k => .int (10 + k))])]⟩ rangeSheet).rows.map
      (fun res => res.map fun o => o.map fun o => o.attrs.map fun a => a.1) =
    [[some [.plain (.int 0), .set ["math".toList]],
      some [.plain (.str "Arnold".toList), .plain (.int 10)]]] := by
  decide +kernel

/-- a counter as default factory: every object gets the next number -/
example : (iterTable stdConv ⟨.blankAll, true, 1, ladderRules, []⟩ ladderSheet).objs.map
      (fun o => o.map fun o => (o.serial, (o.attrs.map fun a => a.1)[3]?)) =
    [some (0, some (.plain (.int 42))), some (1, some (.plain (.int 43))),
     some (2, some (.plain (.int 44)))] := by
  decide +kernel

/-- an external first key attribute (`_NUM_ID_ATTRS = 2`, `src` external, then `id`, `name`): the first data row
raises `AttributeError`, nothing is yielded (`key_not_column_fails` with `i = 0`) -/
example : (iterTable stdConv ⟨.blankAll, false, 2,
      [.ext (fun _ => .str "f.xlsx".toList), .col "id".toList 1 none, .col "name".toList 0 none], []⟩
      rangeSheet).objs.length = 0 ∧
    (iterTable stdConv ⟨.blankAll, false, 2,
      [.ext (fun _ => .str "f.xlsx".toList), .col "id".toList 1 none, .col "name".toList 0 none], []⟩
      rangeSheet).err = some .attributeError := by
  decide +kernel

/-- a missing column without default is rejected with `ValueError` (hypothesis of `bind_error`) -/
example : bindTitles ["id".toList] ["id".toList, "x".toList]
    [Rule.col "id".toList 1 (none : Option (Nat → StdV)), .col "x".toList 1 none]
    = .error .valueError := by decide +kernel

end examples

end C18
