import AkVerif.Model.PPrint
namespace C11
end C11
