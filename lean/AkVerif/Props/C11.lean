import AkVerif.Lemmas.PPrintMain
import AkVerif.Lemmas.PPrintParse
import AkVerif.Lemmas.PPrintWidth
import AkVerif.Lemmas.PPrintKinds
/-!
# C11 — pretty-printed JSON-like data reads back as the same data

Property theorems only. `gen` is the chunk generator of `PrettyPrinter` (the function the driver
runs), `text` the plain text of the result, `groupLines` the line iteration. `jsonConsts` /
`pyConsts` are the two keyword tables read from the source; the theorems hold for **every** choice
of the layout numbers `L` (one-line limits, wrap limit, indentation), in particular for
`PPrint.limits`, the numbers read from the source, and at every offset.

Domain (`WF`): strings and keys without `"`, `\` and control characters; every int (its text is
computed by `showInt`, the model of `str(int)`, and read back as the same integer: `int_text`);
a float is the text `str()` printed, required to follow the JSON number grammar and not to be an
integer text (true of every finite float); no hypothesis on shapes, sizes, nesting.
`norm v` = `v` with the entries of every dict in sorted key order (`norm_perm`, `keys_sorted`).
-/
namespace C11
open PPrint

/-- the keyword tables of the source are three distinct non-empty words each (re-decided by the
kernel whenever the source changes) -/
theorem consts_ok : jsonConsts.ok = true ∧ pyConsts.ok = true := by decide

/-- The domain is a test: `wfB` decides `WF` (for both modes). The driver evaluates it on every
request and refuses values outside the domain, so every value of the correspondence run satisfies
the hypothesis of the theorems below. -/
theorem wf_checked (sk : Bool) (v : J) : wfB sk v = true ↔ WF sk v := wfB_iff sk v

/-- `DistinctKeys` (the hypothesis of `keys_sorted`; true of every Python dict) is a test as well:
the driver evaluates `distinctB` on every request and refuses a value with a repeated key. -/
theorem distinct_checked (v : J) : distinctB v = true ↔ DistinctKeys v := distinctB_iff v

/-- a value of the JSON-mode domain (string keys only) is in the Python-mode domain -/
theorem json_domain_in_python_domain (v : J) (h : WF true v) : WF false v := by
  have key : ∀ k, keyOk true k = true → keyOk false k = true := by
    intro k hk; cases k <;> simp_all [keyOk]
  induction v using J.ind with
  | hs s => simpa [WF] using h
  | hi n => simp [WF]
  | hn t => simpa [WF] using h
  | hk k => simp [WF]
  | hl xs ih =>
    have h' := (WFList_iff true xs).mp (by simpa [WF] using h)
    simp only [WF, WFList_iff]
    exact fun x hx => ih x hx (h' x hx)
  | hd kvs ih =>
    have h' := (WFEntries_iff true kvs).mp (by simpa [WF] using h)
    simp only [WF, WFEntries_iff]
    exact fun e he => ⟨key _ (h' e he).1, ih e he (h' e he).2⟩

/-- Nothing is lost, duplicated or reordered, in any layout: the tokens of the printed text are
exactly the tokens of `norm v` — every element of every container once, in order, one comma
between neighbours, every key followed by its colon and its value. Covers the one-line, the
wrapped and the one-item-per-line layouts and every combination of them under nesting.
JSON mode: values with string keys; Python mode: also int and `True`/`False`/`None` keys. -/
theorem no_loss (L : Limits) (v : J) (off : Nat) :
    (WF true v → lex jsonConsts (text (gen jsonConsts L v off)) = some (toks (norm v))) ∧
    (WF false v → lex pyConsts (text (gen pyConsts L v off)) = some (toks (norm v))) := by
  constructor
  · intro h
    have := lex_gen jsonConsts consts_ok.1 L v h off [] Delim_nil
    simpa [lex, lexGo, finish] using this
  · intro h
    have := lex_gen pyConsts consts_ok.2 L v h off [] Delim_nil
    simpa [lex, lexGo, finish] using this

/-- Round trip: the JSON-mode text read with the JSON reader (JSON keywords, string keys only), and
the Python-mode text read with the Python keywords, give the value back (dict entries in the
printer's key order). -/
theorem read_render (L : Limits) (v : J) (off : Nat) :
    (WF true v → read jsonConsts (text (gen jsonConsts L v off)) = some (norm v)) ∧
    (WF false v → read pyConsts (text (gen pyConsts L v off)) = some (norm v)) := by
  constructor
  · intro h
    have h1 := (no_loss L v off).1 h
    have := parse_toks true (norm v) (WF_norm true v h)
    rw [PPrint.read, h1]
    exact this
  · intro h
    have h1 := (no_loss L v off).2 h
    have := parse_toks false (norm v) (WF_norm false v h)
    rw [PPrint.read, h1]
    exact this

/-- Ints are inside the model: an int is printed as `showInt n` (decimal digits, `-` for negatives,
no leading zero — what `str(int)` gives; compared with the real printer in the correspondence), this
text is a JSON number, and both readers turn it back into the integer `n`. -/
theorem int_text (L : Limits) (n : Int) (off : Nat) :
    text (gen jsonConsts L (.int n) off) = showInt n ∧ text (gen pyConsts L (.int n) off) = showInt n ∧
    numOk (showInt n) = true ∧
    read jsonConsts (showInt n) = some (.int n) ∧ read pyConsts (showInt n) = some (.int n) := by
  have h := read_render L (.int n) off
  have e1 : text (gen jsonConsts L (.int n) off) = showInt n := by simp [gen, simpleChunk]
  have e2 : text (gen pyConsts L (.int n) off) = showInt n := by simp [gen, simpleChunk]
  rw [e1, e2] at h
  exact ⟨e1, e2, numOk_showInt n, by simpa [norm] using h.1 (by simp [WF]),
    by simpa [norm] using h.2 (by simp [WF])⟩

/-- `norm v` is the same value: equal up to the order of the entries of dicts (what Python's `==`
compares) -/
theorem norm_perm (v : J) : Eqv v (norm v) := norm_eqv v

/-- The key order of the printer (`kLt`, the model of `_mk_type_sort_value`), spelled out: int keys
come first, by value; then string keys, by code point (`keyLt`); then the keyword keys in the order
`False`, `None`, `True` (their names). -/
theorem key_order :
    (∀ a b : Int, kLt (.int a) (.int b) = decide (a < b)) ∧
    (∀ s t, kLt (.str s) (.str t) = keyLt s t) ∧
    (∀ n s, kLt (.int n) (.str s) = true ∧ kLt (.str s) (.int n) = false) ∧
    (∀ n k, kLt (.int n) (.kw k) = true ∧ kLt (.kw k) (.int n) = false) ∧
    (∀ s k, kLt (.str s) (.kw k) = true ∧ kLt (.kw k) (.str s) = false) ∧
    kLt (.kw .ff) (.kw .nul) = true ∧ kLt (.kw .nul) (.kw .tt) = true ∧ kLt (.kw .ff) (.kw .tt) = true := by
  refine ⟨fun _ _ => rfl, fun _ _ => rfl, fun _ _ => ⟨rfl, rfl⟩, fun _ _ => ⟨rfl, rfl⟩,
    fun _ _ => ⟨rfl, rfl⟩, by decide, by decide, by decide⟩

/-- in `norm v` — hence, by `no_loss`, in the printed text — the entries of every dict come in
strictly increasing key order (`key_order`) -/
theorem keys_sorted (v : J) (h : DistinctKeys v) : KeysSorted (norm v) := norm_keysSorted v h

/-- No memory inside one object (and the model, a pure function, has none between calls): the order in
which the entries of a dict are printed is a function of that dict alone. `norm` of a list is the list of
the `norm`s of its items, `norm` of a dict sorts its own entries, each value normalised by itself; and the
keys that Python takes for equal (`True`/`1`, `False`/`0`: equal, of equal hash) are different keys of
different ranks here — the number before every string, the constant after every string — whatever other
dicts the value holds and whatever was printed before. (A printer that remembers the sort value of `True`
for the key `1` of a sibling dict breaks the tie on exactly these values.) -/
theorem order_is_local :
    (∀ xs : List J, norm (.list xs) = .list (xs.map norm)) ∧
    (∀ kvs : List (Key × J), norm (.dict kvs) = .dict (sortE (kvs.map fun kv => (kv.1, norm kv.2)))) ∧
    (∀ s, kLt (.int 1) (.str s) = true ∧ kLt (.str s) (.kw .tt) = true ∧
          kLt (.int 0) (.str s) = true ∧ kLt (.str s) (.kw .ff) = true) := by
  refine ⟨fun xs => ?_, fun kvs => ?_, fun _ => ⟨rfl, rfl, rfl, rfl⟩⟩
  · have h : ∀ ys : List J, normList ys = ys.map norm := by
      intro ys
      induction ys with
      | nil => simp [normList]
      | cons y ys ih => simp [normList, ih]
    simp [norm, h]
  · have h : ∀ es : List (Key × J), normEntries es = es.map fun kv => (kv.1, norm kv.2) := by
      intro es
      induction es with
      | nil => simp [normEntries]
      | cons e es ih => obtain ⟨k, v⟩ := e; simp [normEntries, ih]
    simp [norm, h]

/-- The line iteration and the text agree: joining the lines of `_gen_ch_lines` with line feeds is
the plain text (no line is lost at the end, no empty line appears). `groupLines` is a function of
the chunk list: the lines are values, so the statement covers every order in which a caller
collects, keeps and renders them (the driver answers all of those requests with this one
function and is compared with the real object consumed in each of those ways). -/
theorem lines (c : Consts) (L : Limits) (v : J) (off : Nat) :
    joinLines (groupLines (gen c L v off)) = text (gen c L v off) :=
  joinLines_groupLines_gen c L v off

/-- Each line owns its chunks: the lines closed by a new-line marker are exactly the lines of the
chunks before the marker and are not changed by anything generated afterwards; the rest of the
chunk list only appends further lines. -/
theorem lines_own_chunks (a b : List (Option Chunk)) :
    groupLines (a ++ none :: b) = groupLines (a ++ [none]) ++ groupLines b :=
  groupLinesGo_split [] a b

/-- … so the text rebuilt from the line iteration reads back as the value too -/
theorem read_lines (L : Limits) (v : J) (off : Nat) :
    (WF true v → read jsonConsts (joinLines (groupLines (gen jsonConsts L v off))) = some (norm v)) ∧
    (WF false v → read pyConsts (joinLines (groupLines (gen pyConsts L v off))) = some (norm v)) := by
  rw [lines, lines]
  exact read_render L v off

/-- The model renders the entries of a dict in insertion order and sorts the rendered entries;
the code sorts the keys and renders in that order. Both give the same list: the rendering of an
entry depends on its value and the offset only. -/
theorem sort_then_render (c : Consts) (L : Limits) (kvs : List (Key × J)) (off : Nat) :
    sortE (genEntries c L kvs off) = (sortE kvs).map (fun kv => (kv.1, gen c L kv.2 off)) := by
  rw [genEntries_eq, sortE_map (fun kv => gen c L kv.2 off)]

/-- Long containers are wrapped: a non-empty list / dict that comes out without a line break is
the one-line layout and ends left of the one-line limit counted from its offset; everything longer
is spread over several lines (contrapositive). -/
theorem one_line_fits (c : Consts) (L : Limits) (off : Nat) :
    (∀ xs : List J, xs ≠ [] → none ∉ gen c L (.list xs) off →
      off + (text (gen c L (.list xs) off)).length < L.oneLineList) ∧
    (∀ kvs : List (Key × J), kvs ≠ [] → none ∉ gen c L (.dict kvs) off →
      off + (text (gen c L (.dict kvs) off)).length < L.oneLineDict) :=
  ⟨fun xs hne h => list_one_line_fits c L xs off hne h,
   fun kvs hne h => dict_one_line_fits c L kvs off hne h⟩

/-- The colour side: every chunk carries the syntax class of the palette method that made it, and
the class agrees with the text — a `name` chunk is a quoted key, a `number` chunk is a number text
(JSON grammar), a `keyword` chunk is one of the three literals of the mode; brackets, separators,
indentation and strings are `text`. (Colours never take part in `text`, which reads `Chunk.text`
only.) -/
theorem chunk_classes (c : Consts) (L : Limits) (sk : Bool) (v : J) (off : Nat) (h : WF sk v) :
    ∀ ch, some ch ∈ gen c L v off → ChunkOk c ch :=
  gen_chunkOk c L sk v h off

/-- The reader is a function on texts and reads the canonical tokens of every value back, so two
values with the same printed text have the same `norm` (the text determines the value). -/
theorem text_determines_value (L : Limits) (v w : J) (off off' : Nat) (hv : WF false v) (hw : WF false w)
    (h : text (gen pyConsts L v off) = text (gen pyConsts L w off')) : norm v = norm w := by
  have a := (read_render L v off).2 hv
  have b := (read_render L w off' ).2 hw
  rw [h, b] at a
  exact (Option.some.inj a).symm

/-! Non-vacuity: a value that is in the domain and exercises the layouts, evaluated by the kernel.
The examples about `limits` (the numbers of the source) are true for any numbers, so a changed
threshold re-checks them; the exact text is pinned for the numbers the source had when this file
was written (`limits0`). -/

/-- one-line limits 200, wrap limit 150, indentation 2 -/
def limits0 : Limits := ⟨200, 200, 150, 2⟩

/-- a dict (unsorted keys) holding a list that must be wrapped, a nested dict and constants -/
def sample : J :=
  .dict [(.str "zz".toList, .list (List.replicate 8 (.str "abcdefghijklmnopqrstuvwxyz0123".toList))),
         (.str "b".toList, .dict [(.str "k".toList, .num "-1.5e+22".toList), (.str "a".toList, .kw .nul),
                             (.str "i".toList, .int (-12345678901234567890))]),
         (.str "a b".toList, .list [.kw .tt, .list [], .dict [], .list [.kw .ff]])]

example : WF true sample := by
  simp only [sample, WF, WFEntries, WFList, List.replicate]
  decide

example : wfB true sample = true := by decide +kernel

/-- Python mode only: int, string and keyword keys in one dict (insertion order as in the run of the
real code below) -/
def samplePy : J :=
  .dict [(.kw .tt, .str "yes".toList), (.str "a".toList, .int 1), (.int 10, .kw .nul),
         (.int (-3), .list [.kw .tt, .list [.int 1]]), (.kw .nul, .int 2), (.kw .ff, .int 0),
         (.str "B".toList, .dict [])]

example : wfB false samplePy = true ∧ wfB true samplePy = false := by decide +kernel

example : distinctB samplePy = true ∧ distinctB sample = true := by decide +kernel

example : DistinctKeys samplePy := by
  simp only [samplePy, DistinctKeys, DistinctKeysD, DistinctKeysL]
  decide

/-- the exact Python-mode text of the real printer for `samplePy`: ints, strings, then
`False` / `None` / `True` -/
example : text (gen pyConsts limits0 samplePy 0) =
    "{\n  -3: [\n    True,\n    [1]\n  ],\n  10: None,\n  \"B\": {},\n  \"a\": 1,\n  False: 0,\n  None: 2,\n  True: \"yes\"\n}".toList := by
  decide +kernel

example : (read pyConsts (text (gen pyConsts limits samplePy 0))).map toks = some (toks (norm samplePy)) := by
  decide +kernel

example : DistinctKeys sample := by
  simp only [sample, DistinctKeys, DistinctKeysD, DistinctKeysL, List.replicate]
  decide

example : (lex jsonConsts (text (gen jsonConsts limits sample 0))) = some (toks (norm sample)) := by
  decide +kernel

example : (read pyConsts (text (gen pyConsts limits sample 0))).map toks = some (toks (norm sample)) := by
  decide +kernel

/-- the exact text the real printer produces for `sample` (copied from a run of the real code):
keys sorted, the 8 strings wrapped over 2 lines, the nested dict on one line -/
example : text (gen jsonConsts limits0 sample 0) =
    "{\n  \"a b\": [\n    true,\n    [],\n    {},\n    [false]\n  ],\n  \"b\": {\"a\": null, \"i\": -12345678901234567890, \"k\": -1.5e+22},\n  \"zz\": [\n    \"abcdefghijklmnopqrstuvwxyz0123\", \"abcdefghijklmnopqrstuvwxyz0123\", \"abcdefghijklmnopqrstuvwxyz0123\", \"abcdefghijklmnopqrstuvwxyz0123\",\n    \"abcdefghijklmnopqrstuvwxyz0123\", \"abcdefghijklmnopqrstuvwxyz0123\", \"abcdefghijklmnopqrstuvwxyz0123\", \"abcdefghijklmnopqrstuvwxyz0123\"\n  ]\n}".toList := by
  decide +kernel

example : (groupLines (gen jsonConsts limits0 sample 0)).length = 13 := by decide +kernel

end C11
