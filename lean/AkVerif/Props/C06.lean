import AkVerif.Model.Ghist
/-! # C06 — under construction -/
namespace C06
end C06
