import AkVerif.Lemmas.GhistReport
/-!
# C06 — the history report attributes every matching commit to the right build per branch

Property theorems only.  They are about `Ghist.report` / `Ghist.rgraph`, the functions the driver `Drv/C06.lean`
executes, for an arbitrary component plug `pl` (so they also cover the multi-repository reports of C07).
Histories are lists of commits in topological order (`Hist.Topo`: parents have smaller ids — what the harness
feeds, and what git guarantees up to renumbering).
-/
namespace C06
open Ghist Ak

/-! ## C06.order — branch ordering -/

/-- `BranchName.cmp` is a strict order: irreflexive … -/
theorem order_irrefl (a : List Item) : ltKey a a = false := ltKey_irrefl a

/-- … asymmetric … -/
theorem order_asymm (a b : List Item) (h : ltKey a b = true) : ltKey b a = false := ltKey_asymm a b h

/-- … transitive … -/
theorem order_trans (a b c : List Item) (h1 : ltKey a b = true) (h2 : ltKey b c = true) : ltKey a c = true :=
  ltKey_trans a b c h1 h2

/-- … and "not below" is transitive too (strict weak order; in fact total: unordered keys are equal) -/
theorem order_weak (a b c : List Item) (h1 : ltKey b a = false) (h2 : ltKey c b = false) : ltKey c a = false :=
  not_ltKey_trans a b c h1 h2

theorem order_total (a b : List Item) (h1 : ltKey a b = false) (h2 : ltKey b a = false) : a = b :=
  ltKey_total a b h1 h2

/-- numeric-aware: two names that agree up to a numeric item are ordered by that number
(`release/1.2 < release/1.10`), whatever follows -/
theorem order_numeric (pre s t : List Item) (a b : Nat) (h : a < b) :
    ltKey (pre ++ Item.int a :: s) (pre ++ Item.int b :: t) = true := by
  induction pre with
  | nil =>
    simp only [List.nil_append, ltKey, cmpKey, cmpItem]
    have : (a : Int) - (b : Int) ≠ 0 := by omega
    simp only [this, ne_eq, not_false_eq_true, if_true, decide_eq_true_eq]
    omega
  | cons x pre ih =>
    simp only [List.cons_append, ltKey, cmpKey, cmpItem_self, ne_eq, not_true_eq_false, if_false]
    exact ih

/-- a number sorts below any word (`release/2 < release/beta`) -/
theorem order_num_lt_word (pre s t : List Item) (a : Nat) (w : List Char) :
    ltKey (pre ++ Item.int a :: s) (pre ++ Item.str w :: t) = true := by
  induction pre with
  | nil => simp [ltKey, cmpKey, cmpItem]
  | cons x pre ih =>
    simp only [List.cons_append, ltKey, cmpKey, cmpItem_self, ne_eq, not_true_eq_false, if_false]
    exact ih

/-- the sort items of a name are what the docstring of `BranchName` says -/
example : branchKey "origin/release/10.250".toList =
    [.str "origin".toList, .str "release".toList, .int 10, .int 250] := by decide
example : branchKey "release/ABA12.5U1".toList =
    [.str "release".toList, .str "ABA12".toList, .str "5U1".toList] := by decide
example : ltKey (branchKey "origin/release/1.2".toList) (branchKey "origin/release/1.10".toList) = true := by decide

theorem splitItems_word (w : List Char) (hw : ∀ c ∈ w, isSep c = false) (c : Char) (hc : isSep c = true)
    (t cur : List Char) (hne : w ≠ [] ∨ cur ≠ []) :
    splitItems (w ++ c :: t) cur = (cur.reverse ++ w) :: splitItems t [] := by
  induction w generalizing cur with
  | nil =>
    have hcur : cur ≠ [] := by rcases hne with h | h; exact absurd rfl h; exact h
    have : cur.isEmpty = false := by cases cur <;> simp_all
    simp [splitItems, hc, this]
  | cons x w ih =>
    have hx : isSep x = false := hw x (by simp)
    simp only [List.cons_append, splitItems, hx, Bool.false_eq_true, if_false]
    rw [ih (fun c hc => hw c (by simp [hc])) (x :: cur) (Or.inr (by simp))]
    simp

/-- every release branch sorts below master: the first sort item of a release branch is the remote name, the
first item of master is the sentinel `"zzzzzzzzzzzzzz"`.  Hypothesis (as in the design): the remote name is a
single chunk that is a number or sorts below the sentinel (`origin` does). -/
theorem order_release_lt_master (remote rest ref : List Char) (hne : remote ≠ [])
    (hsep : ∀ c ∈ remote, isSep c = false)
    (hlt : isNum remote = true ∨ strLt remote sentinel = true) :
    ltKey (branchKey (remote ++ Gen.Ghist.release ++ rest)) (Item.str sentinel :: branchKey ref) = true := by
  have hrel : ∃ c t, Gen.Ghist.release = c :: t ∧ isSep c = true := ⟨'/', "release/".toList, by decide, by decide⟩
  obtain ⟨c, t, hct, hc⟩ := hrel
  have : branchKey (remote ++ Gen.Ghist.release ++ rest) = mkItem remote :: branchKey (t ++ rest) := by
    unfold branchKey
    rw [hct, List.append_assoc, List.cons_append, splitItems_word remote hsep c hc (t ++ rest) [] (Or.inl hne)]
    simp
  rw [this]
  simp only [ltKey, cmpKey, mkItem]
  rcases hlt with hn | hs
  · simp [hn, cmpItem]
  · by_cases hn : isNum remote = true
    · simp [hn, cmpItem]
    · have hsa := strLt_asymm remote sentinel hs
      simp [hn, cmpItem, hs, hsa]

example : "origin".toList ≠ [] ∧ (∀ c ∈ "origin".toList, isSep c = false) ∧
    strLt "origin".toList sentinel = true := by decide

/-- the branches are read in sorted order: the sorted list is a permutation of the release/master refs and no
later branch is strictly below an earlier one -/
theorem order_sorted {π} (h : Hist π) :
    (branchesOf h).Perm (releaseBranches h.remote h.refs) ∧
    Sorted (fun a b : Branch => ltKey a.key b.key) (branchesOf h) :=
  ⟨sortBy_perm _ _,
   sortBy_sorted _ (fun a b => ltKey_asymm a.key b.key) (fun a b c => not_ltKey_trans a.key b.key c.key) _⟩

/-! ## C06.no_nonmatching / at most once -/

/-- no commit that does not match is listed — under any build of any branch, the "not merged" entry included -/
theorem no_nonmatching {π β} (h : Hist π) (hT : h.Topo) (pl : Plug π β) (rep : List RepBranch)
    (hr : report h pl = .ok rep) :
    ∀ B ∈ rep, ∀ b ∈ B.builds, ∀ c ∈ b.commits, h.isMatch c = true := by
  obtain ⟨g, hg, hrep, _⟩ := report_branch hr
  have hf := rgraph_facts hT hg
  intro B hB b hb c hc
  rw [hrep] at hB
  obtain ⟨rb, _, rfl⟩ := List.mem_map.mp hB
  simp only [repBranch] at hb
  obtain ⟨b0, _, rfl⟩ := List.mem_map.mp hb
  obtain ⟨i, _, rc, h1, h2, h3⟩ := (mem_repBuild_commits g.rcs b0 c).mp hc
  rw [← h3, ← hf.rcExp i rc h1, h2]

/-- **partial** (C06.at_most_once): inside one reported branch no commit is repeated under a build, and no commit
is listed under two different builds that have a build commit.
Full statement (kept for the record): `∀ B ∈ rep, ∀ c, c is listed at most once in B`, the "not merged" entry
included.  Missing: a commit under "not merged" is not also listed under a build — it follows from
`not_merged_exact` (such a commit is not reachable from the head) and `only_matching` (commits under builds are). -/
theorem at_most_once_partial {π β} (h : Hist π) (hT : h.Topo) (pl : Plug π β) (rep : List RepBranch)
    (hr : report h pl = .ok rep) :
    ∀ B ∈ rep,
      (∀ b ∈ B.builds, b.commits.Nodup) ∧
      (∀ (i j : Nat) (b1 b2 : RepBuild), i ≠ j → B.builds[i]? = some b1 → B.builds[j]? = some b2 →
        b1.notMerged = false → b2.notMerged = false → ∀ c ∈ b1.commits, c ∉ b2.commits) := by
  obtain ⟨g, hg, hrep, hbr⟩ := report_branch hr
  have hf := rgraph_facts hT hg
  intro B hB
  rw [hrep] at hB
  obtain ⟨rb, hrb, rfl⟩ := List.mem_map.mp hB
  have hrb' : rb ∈ g.all := by
    rw [hbr] at hrb
    exact List.mem_reverse.mp (List.mem_filter.mp hrb).1
  have hfb := hf.facts rb hrb'
  constructor
  · intro b hb
    simp only [repBranch] at hb
    obtain ⟨b0, hb0, rfl⟩ := List.mem_map.mp hb
    have hb0' := (mem_buildsList rb b0).mp hb0
    exact explicitCommits_nodup g.rcs hf.rcInj _ (descending_nodup _ (hfb.nodup b0 hb0'))
  · intro i j b1 b2 hij h1 h2 hn1 hn2 c hc1 hc2
    simp only [repBranch, List.getElem?_map] at h1 h2
    cases ha : (buildsList rb)[i]? with
    | none => rw [ha] at h1; cases h1
    | some a =>
      cases hb : (buildsList rb)[j]? with
      | none => rw [hb] at h2; cases h2
      | some b =>
        rw [ha] at h1; rw [hb] at h2
        simp only [Option.map_some, Option.some.injEq] at h1 h2
        subst h1; subst h2
        have hna : a.rcommit.isSome = true := by
          simp only [repBuild] at hn1; cases hx : a.rcommit <;> simp_all
        have hnb : b.rcommit.isSome = true := by
          simp only [repBuild] at hn2; cases hx : b.rcommit <;> simp_all
        have hne := buildsList_distinct hfb i j a b hij ha hb hna hnb
        obtain ⟨r1, hr1, rc1, hg1, _, hc1'⟩ := (mem_repBuild_commits g.rcs a c).mp hc1
        obtain ⟨r2, hr2, rc2, hg2, _, hc2'⟩ := (mem_repBuild_commits g.rcs b c).mp hc2
        have : r1 = r2 := hf.rcInj r1 r2 rc1 rc2 hg1 hg2 (by rw [hc1', hc2'])
        subst this
        exact hfb.disj a b ((mem_buildsList rb a).mp (List.mem_of_getElem? ha))
          ((mem_buildsList rb b).mp (List.mem_of_getElem? hb)) hna hnb hne r1 hr1 hr2

/-! ## Non-vacuity: a concrete history (merge, two branches, head of the second inside the first) evaluated by the
kernel — the hypotheses `Hist.Topo` and `report … = .ok …` are satisfiable and the report is not empty. -/

def exHist : Hist Unit :=
  { commits := [⟨[], [], true, ()⟩, ⟨[0], [⟨1, 2, 7, 7⟩], false, ()⟩, ⟨[0], [], true, ()⟩,
                ⟨[2, 1], [⟨1, 2, 9, 9⟩], false, ()⟩, ⟨[3], [], true, ()⟩, ⟨[1], [], true, ()⟩],
    remote := "origin".toList,
    refs := [("origin/master".toList, 4), ("origin/release/1.2".toList, 5), ("origin/feature/x".toList, 2)] }

example : exHist.Topo := Hist.topo_of_topoB _ (by decide)


example : report exHist Plug.none = .ok
    [⟨"master".toList, [⟨true, fakeNM, none, [5]⟩, ⟨false, fakeNB, some 4, [4]⟩,
                        ⟨false, ⟨1, 2, 9, 9⟩, some 3, [2, 0]⟩]⟩,
     ⟨"release/1.2".toList, [⟨false, fakeNB, some 5, [5]⟩, ⟨false, ⟨1, 2, 7, 7⟩, some 1, [0]⟩]⟩] := by
  decide +kernel

end C06
