import AkVerif.Lemmas.GhistReport
import AkVerif.Lemmas.GhistTotal
import AkVerif.Lemmas.GhistWindow
import AkVerif.Lemmas.GhistTags
import AkVerif.Lemmas.GhistShown
import AkVerif.Lemmas.GhistAnalyse
import AkVerif.Lemmas.GhistRefs
/-!
# C06 — the history report attributes every matching commit to the right build per branch

Property theorems only.  They are about `Ghist.report` / `Ghist.rgraph`, the functions the driver `Drv/C06.lean`
executes, for an arbitrary component plug `pl` (so they also cover the multi-repository reports of C07).
Histories are lists of commits in topological order (`Hist.Topo`: parents have smaller ids — what the harness
feeds, and what git guarantees up to renumbering).
-/
namespace C06
open Ghist Ak

/-! ## C06.order — branch ordering -/

/-- `BranchName.cmp` is a strict order: irreflexive … -/
theorem order_irrefl (a : List Item) : ltKey a a = false := ltKey_irrefl a

/-- … asymmetric … -/
theorem order_asymm (a b : List Item) (h : ltKey a b = true) : ltKey b a = false := ltKey_asymm a b h

/-- … transitive … -/
theorem order_trans (a b c : List Item) (h1 : ltKey a b = true) (h2 : ltKey b c = true) : ltKey a c = true :=
  ltKey_trans a b c h1 h2

/-- … and "not below" is transitive too (strict weak order; in fact total: unordered keys are equal) -/
theorem order_weak (a b c : List Item) (h1 : ltKey b a = false) (h2 : ltKey c b = false) : ltKey c a = false :=
  not_ltKey_trans a b c h1 h2

theorem order_total (a b : List Item) (h1 : ltKey a b = false) (h2 : ltKey b a = false) : a = b :=
  ltKey_total a b h1 h2

/-- numeric-aware: two names that agree up to a numeric item are ordered by that number
(`release/1.2 < release/1.10`), whatever follows -/
theorem order_numeric (pre s t : List Item) (a b : Nat) (h : a < b) :
    ltKey (pre ++ Item.int a :: s) (pre ++ Item.int b :: t) = true := by
  induction pre with
  | nil =>
    simp only [List.nil_append, ltKey, cmpKey, cmpItem]
    have : (a : Int) - (b : Int) ≠ 0 := by omega
    simp only [this, ne_eq, not_false_eq_true, if_true, decide_eq_true_eq]
    omega
  | cons x pre ih =>
    simp only [List.cons_append, ltKey, cmpKey, cmpItem_self, ne_eq, not_true_eq_false, if_false]
    exact ih

/-- a number sorts below any word (`release/2 < release/beta`) -/
theorem order_num_lt_word (pre s t : List Item) (a : Nat) (w : List Char) :
    ltKey (pre ++ Item.int a :: s) (pre ++ Item.str w :: t) = true := by
  induction pre with
  | nil => simp [ltKey, cmpKey, cmpItem]
  | cons x pre ih =>
    simp only [List.cons_append, ltKey, cmpKey, cmpItem_self, ne_eq, not_true_eq_false, if_false]
    exact ih

/-- a name whose sort items are a proper prefix of another's sorts first (`release/1.2 < release/1.2.1`) -/
theorem order_prefix (pre s : List Item) (x : Item) : ltKey pre (pre ++ x :: s) = true := by
  induction pre with
  | nil =>
    have : cmpKey [] (x :: s) < 0 := by
      simp only [cmpKey, List.length_nil, List.length_cons]
      omega
    simpa [ltKey] using this
  | cons y pre ih =>
    simp only [List.cons_append, ltKey, cmpKey, cmpItem_self, ne_eq, not_true_eq_false, if_false]
    exact ih

/-- a name is split into sort items at exactly the separator characters the translator read from
`BranchName._mk_sort_items` (and the blank they are replaced by): … these and no others are separators, … -/
example (c : Char) : isSep c = true ↔ c ∈ Gen.Ghist.seps ∨ c = ' ' := by
  simp [isSep]

/-- … a word (a non-empty run of non-separators) followed by a separator is one item, whatever follows, … -/
theorem order_split_at_separator (w : List Char) (hne : w ≠ []) (hw : ∀ c ∈ w, isSep c = false) (c : Char)
    (hc : isSep c = true) (rest : List Char) : branchKey (w ++ c :: rest) = mkItem w :: branchKey rest := by
  unfold branchKey
  rw [splitItems_word w hw c hc rest [] (Or.inl hne)]
  simp

/-- … a separator at the start (or after another separator) makes no item, … -/
theorem order_split_skip (c : Char) (hc : isSep c = true) (rest : List Char) :
    branchKey (c :: rest) = branchKey rest := by
  simp [branchKey, splitItems, hc]

/-- … and a word is not split anywhere else -/
theorem order_split_word (w : List Char) (hne : w ≠ []) (hw : ∀ c ∈ w, isSep c = false) :
    branchKey w = [mkItem w] := by
  have : ∀ (w cur : List Char), (∀ c ∈ w, isSep c = false) → (w ≠ [] ∨ cur ≠ []) →
      splitItems w cur = [cur.reverse ++ w] := by
    intro w
    induction w with
    | nil =>
      intro cur _ h
      have hc : cur ≠ [] := by rcases h with h | h; exact absurd rfl h; exact h
      have : cur.isEmpty = false := by cases cur <;> simp_all
      simp [splitItems, this]
    | cons x w ih =>
      intro cur hw _
      have hx : isSep x = false := hw x (by simp)
      simp only [splitItems, hx, Bool.false_eq_true, if_false]
      rw [ih (x :: cur) (fun c hc => hw c (by simp [hc])) (Or.inr (by simp))]
      simp
  unfold branchKey
  rw [this w [] hw (Or.inl hne)]
  simp

example : ltKey (branchKey "origin/release/abc-9.1".toList) (branchKey "origin/release/abc-10.1".toList) = true := by
  decide
example : ltKey (branchKey "origin/release/5.9".toList) (branchKey "origin/release/5.10".toList) = true := by decide
example : ltKey (branchKey "origin/release/v_9".toList) (branchKey "origin/release/v_10".toList) = true := by decide
example : ltKey (branchKey "origin/release/9/x".toList) (branchKey "origin/release/10/x".toList) = true := by decide

/-- the sort items of a name are what the docstring of `BranchName` says -/
example : branchKey "origin/release/10.250".toList =
    [.str "origin".toList, .str "release".toList, .int 10, .int 250] := by decide
example : branchKey "release/ABA12.5U1".toList =
    [.str "release".toList, .str "ABA12".toList, .str "5U1".toList] := by decide
example : ltKey (branchKey "origin/release/1.2".toList) (branchKey "origin/release/1.10".toList) = true := by decide
example : ltKey (branchKey "origin/release/1.2".toList) (branchKey "origin/release/1.2.1".toList) = true := by decide

/-- every release branch sorts below master: the first sort item of a release branch is the remote name, the
first item of master is the sentinel `"zzzzzzzzzzzzzz"`.  Hypothesis (as in the design): the remote name is a
single chunk that is a number or sorts below the sentinel (`origin` does). -/
theorem order_release_lt_master (remote rest ref : List Char) (hne : remote ≠ [])
    (hsep : ∀ c ∈ remote, isSep c = false)
    (hlt : isNum remote = true ∨ strLt remote sentinel = true) :
    ltKey (branchKey (remote ++ Gen.Ghist.release ++ rest)) (Item.str sentinel :: branchKey ref) = true := by
  have hrel : ∃ c t, Gen.Ghist.release = c :: t ∧ isSep c = true := ⟨'/', "release/".toList, by decide, by decide⟩
  obtain ⟨c, t, hct, hc⟩ := hrel
  have : branchKey (remote ++ Gen.Ghist.release ++ rest) = mkItem remote :: branchKey (t ++ rest) := by
    unfold branchKey
    rw [hct, List.append_assoc, List.cons_append, splitItems_word remote hsep c hc (t ++ rest) [] (Or.inl hne)]
    simp
  rw [this]
  simp only [ltKey, cmpKey, mkItem]
  rcases hlt with hn | hs
  · simp [hn, cmpItem]
  · by_cases hn : isNum remote = true
    · simp [hn, cmpItem]
    · have hsa := strLt_asymm remote sentinel hs
      simp [hn, cmpItem, hs, hsa]

example : "origin".toList ≠ [] ∧ (∀ c ∈ "origin".toList, isSep c = false) ∧
    strLt "origin".toList sentinel = true := by decide

/-- the branches are read in sorted order: the sorted list is a permutation of the release/master refs and no
later branch is strictly below an earlier one -/
theorem order_sorted {π} (h : Hist π) :
    (branchesOf h).Perm (releaseBranches h.remote h.refs) ∧
    Sorted (fun a b : Branch => ltKey a.key b.key) (branchesOf h) :=
  ⟨sortBy_perm _ _,
   sortBy_sorted _ (fun a b => ltKey_asymm a.key b.key) (fun a b c => not_ltKey_trans a.key b.key c.key) _⟩

/-! ## C06.tags — which commits are builds

The driver turns the tag names of a commit into build numbers with `tagBN` (the model of `parse_buildtag` +
`finalize_build_tag_info`; the literal pieces of the two regular expressions are read from the source).  `Digits ds` :
`ds` is a non-empty run of decimal digits, `digitsVal ds 0` its value. -/

/-- `build_<n>_release_<major>_<minor>_success` is the tag of build `major.minor.n` of that release line, whatever
version file the commit has -/
theorem tag_release (ds dM dm : List Char) (hd : Digits ds) (hM : Digits dM) (hm : Digits dm)
    (saved : Option (Nat × Nat)) :
    tagBN saved (Gen.Ghist.tagPre ++ ds ++ Gen.Ghist.tagSep ++ (Gen.Ghist.brPre ++ dM ++ Gen.Ghist.brSep ++ dm) ++
      Gen.Ghist.tagSuf) =
      .ok (some ⟨digitsVal dM 0, digitsVal dm 0, digitsVal ds 0, digitsVal ds 0⟩) :=
  tagBN_release hd hM hm saved

/-- a successful-build tag whose branch part does not name a release line (`build_<n>_master_success`) is build
`major.minor.n` with major.minor from the version file saved in the commit -/
theorem tag_saved_version (ds w : List Char) (hd : Digits ds) (hw : parseBranchStr w = none) (M m : Nat) :
    tagBN (some (M, m)) (Gen.Ghist.tagPre ++ ds ++ Gen.Ghist.tagSep ++ w ++ Gen.Ghist.tagSuf) =
      .ok (some ⟨M, m, digitsVal ds 0, digitsVal ds 0⟩) :=
  tagBN_saved hd hw M m

/-- the same tag on a commit without a version file is a build all the same, with unknown major.minor (the code's `'?'`,
which sorts after every number) -/
theorem tag_unknown_version (ds w : List Char) (hd : Digits ds) (hw : parseBranchStr w = none) :
    tagBN none (Gen.Ghist.tagPre ++ ds ++ Gen.Ghist.tagSep ++ w ++ Gen.Ghist.tagSuf) =
      .ok (some ⟨unknownNum, unknownNum, digitsVal ds 0, digitsVal ds 0⟩) :=
  tagBN_unknown hd hw

/-- tags that do not start with `build_` or do not end with `_success` do not make a commit a build -/
theorem tag_ignored (saved : Option (Nat × Nat)) (s : List Char)
    (h : (¬ ∃ r, s = Gen.Ghist.tagPre ++ r) ∨ (¬ ∃ r, s = r ++ Gen.Ghist.tagSuf)) : tagBN saved s = .ok none :=
  tagBN_ignored saved s h

/-! ## C06.match — which commits match

The driver computes the match flag of a commit with `occursIn text message` (the model of the predicate in
`ProjectRepo.build_report_rgraph`). -/

/-- a commit matches exactly when the search text occurs in its message as a contiguous piece: the text is taken as
given (nothing stripped, no case folding, no pattern syntax, line breaks are ordinary characters) -/
theorem match_is_substring (text msg : List Char) :
    occursIn text msg = true ↔ ∃ a b, msg = a ++ text ++ b := occursIn_iff text msg

example : occursIn "BUG-1 ".toList "BUG-10 fix".toList = false := by decide
example : occursIn "BUG-1 ".toList "the BUG-1 fix".toList = true := by decide
example : occursIn "bug-1".toList "BUG-1 fix".toList = false := by decide
example : occursIn "a.b".toList "axb".toList = false := by decide
example : occursIn "".toList "anything".toList = true := by decide

example : tagBN none "build_4154_release_10_240_success".toList = .ok (some ⟨10, 240, 4154, 4154⟩) := by decide
example : tagBN (some (10, 250)) "build_4155_master_success".toList = .ok (some ⟨10, 250, 4155, 4155⟩) := by decide
example : tagBN (some (3, 4)) "build_5_release_1_2_3_success".toList = .ok (some ⟨3, 4, 5, 5⟩) := by decide
example : tagBN none "build_7_release_1_1_failed".toList = .ok none := by decide
example : tagBN none "build_x7_release_1_1_success".toList = .ok none := by decide
example : tagBN none "v1.7".toList = .ok none := by decide

/-! ## C06.refs — where the tags and the heads come from

`ProjectRepo` learns the tags of the commits and the heads of the branches from `GitRepo.iter_refs`, which reads the git
directory: one file per loose ref and the text file `packed-refs`.  The driver request `repd` carries such a directory
(`RefStore`) and the model reads it (`storedHist`) before it makes the report.  `packedText hdrs recs nl` is the text git
writes: comment lines, then per ref one line `<hexsha> <name>` and, for an annotated tag, a line `^<hexsha of the
commit>`; `nl` says whether the last line ends with a line break. -/

/-- every record of a packed-refs file is read — the first, the middle ones and the **last** one, whether or not a `^`
line follows it and whether or not the file ends with a line break — in the order of the file, each with the hexsha of
its commit (the `^` line wins), and nothing else is read: only the refs outside the wanted prefixes are left out -/
theorem packed_refs_records (P : List (List Char)) (hdrs : List (List Char))
    (hh : ∀ l ∈ hdrs, IsHeader l ∧ '\n' ∉ l) (recs : List PRec) (hwf : ∀ r ∈ recs, r.WF) (nl : Bool)
    (loose : List (List Char × List Char)) :
    packedRefs { packed := some (packedText hdrs recs nl), loose := loose } P =
      .ok ((recs.filter (PRec.below P)).map PRec.entry) :=
  packedLoop_packedText P hdrs hh recs hwf nl

/-- what a git directory says about a ref: its file, or — when it has no file — its record in packed-refs -/
def StoredAt (st : RefStore) (recs : List PRec) (n s : List Char) : Prop :=
  (n, s) ∈ st.loose ∨ (n ∉ st.loose.map (·.1) ∧ ∃ r ∈ recs, r.name = n ∧ r.commit = s)

section
variable (st : RefStore) (hnd : (st.loose.map (·.1)).Nodup)
  (hdrs : List (List Char)) (hh : ∀ l ∈ hdrs, IsHeader l ∧ '\n' ∉ l) (recs : List PRec) (hwf : ∀ r ∈ recs, r.WF)
  (nl : Bool) (hp : st.packed = some (packedText hdrs recs nl) ∨ (st.packed = none ∧ recs = []))
include hnd hh hwf hp

/-- the refs `make_buildtags_map` / `make_branch_refs_map` get for a prefix are exactly the refs the directory stores
below it, each with the hexsha of its commit: a loose ref with what its file says (an outdated record of the same name
in packed-refs is not used), a packed one with its record — none is lost, none is invented -/
theorem stored_refs_exact (pre : List Char) (hpre : ("refs/".toList).isPrefixOf pre = true) :
    ∃ l, refsBelow st pre = .ok l ∧ ∀ n s, (n, s) ∈ l ↔ (pre.isPrefixOf n = true ∧ StoredAt st recs n s) := by
  refine ⟨_, refsBelow_packedText st pre hpre hnd hdrs hh recs hwf nl hp, ?_⟩
  intro n s
  simp only [List.mem_append, List.mem_filter, List.mem_map, StoredAt, PRec.below, List.any_cons, List.any_nil,
    Bool.or_false, Bool.not_eq_true', List.contains_eq_mem, decide_eq_false_iff_not, PRec.entry, Prod.mk.injEq]
  constructor
  · rintro (⟨h1, h2⟩ | ⟨r, ⟨⟨hr, hb⟩, hnl⟩, rfl, rfl⟩)
    · exact ⟨h2, Or.inl h1⟩
    · refine ⟨hb, Or.inr ⟨?_, r, hr, rfl, rfl⟩⟩
      rintro ⟨x, hx, hxn⟩
      exact hnl ⟨x, ⟨hx, by rw [hxn]; exact hb⟩, hxn⟩
  · rintro ⟨hb, h1 | ⟨hnl, r, hr, rfl, rfl⟩⟩
    · exact Or.inl ⟨h1, hb⟩
    · refine Or.inr ⟨r, ⟨⟨hr, hb⟩, ?_⟩, rfl, rfl⟩
      rintro ⟨x, ⟨hx, _⟩, hxn⟩
      exact hnl ⟨x, hx, hxn⟩

/-- builds are the tagged commits: the tag names the model gives the commit with hexsha `sha` (they are parsed into
build numbers by `tagBN` afterwards) are exactly the names `t` whose ref `refs/tags/t` the directory stores at `sha` -/
theorem stored_tag_names :
    ∃ l, refsBelow st tagsPrefix = .ok l ∧
      ∀ t sha, t ∈ tagNamesAt l sha ↔ StoredAt st recs (tagsPrefix ++ t) sha := by
  obtain ⟨l, hl, hm⟩ := stored_refs_exact st hnd hdrs hh recs hwf nl hp tagsPrefix (by decide)
  refine ⟨l, hl, ?_⟩
  intro t sha
  simp only [tagNamesAt, List.mem_map, List.mem_filter, decide_eq_true_eq]
  constructor
  · rintro ⟨⟨n, s⟩, ⟨hr, rfl⟩, rfl⟩
    obtain ⟨hb, hst⟩ := (hm n s).mp hr
    have : tagsPrefix ++ n.drop tagsPrefix.length = n :=
      List.prefix_iff_eq_append.mp (List.isPrefixOf_iff_prefix.mp hb)
    simpa [this] using hst
  · intro hst
    refine ⟨(tagsPrefix ++ t, sha), ⟨(hm _ _).mpr ⟨?_, hst⟩, rfl⟩, by simp⟩
    exact List.isPrefixOf_iff_prefix.mpr (List.prefix_append _ _)

end

/-- non-vacuity: the usual comment line is a header, hexshas and ref names make well-formed records -/
def exSha (c : Char) : List Char := List.replicate 40 c

example : IsHeader "# pack-refs with: peeled fully-peeled sorted ".toList ∧
    '\n' ∉ "# pack-refs with: peeled fully-peeled sorted ".toList :=
  ⟨⟨" pack-refs with: peeled fully-peeled sorted".toList, by decide, by decide⟩, by decide⟩

def exRecs : List PRec :=
  [⟨"refs/remotes/origin/release/1.0".toList, exSha 'c', none⟩,
   ⟨"refs/tags/build_10_release_1_0_success".toList, exSha 'b', none⟩,
   ⟨"refs/tags/build_9_release_1_0_success".toList, exSha '0', some (exSha 'a')⟩]

example : ∀ r ∈ exRecs, r.WF := by
  intro r hr
  simp only [exRecs, List.mem_cons, List.not_mem_nil, or_false] at hr
  rcases hr with rfl | rfl | rfl <;>
    exact ⟨by decide, ⟨_, _, rfl, by decide, by decide⟩, by decide, by decide,
      by intro p hp; first | (cases hp; exact ⟨by decide, by decide⟩) | cases hp⟩

/-- the build tag in the last record, annotated, no line break after its `^` line: it is read, with the commit of the
`^` line -/
example : refsBelow { packed := some (packedText ["# pack-refs with: peeled fully-peeled sorted ".toList] exRecs false),
                      loose := [] } tagsPrefix =
    .ok [("refs/tags/build_10_release_1_0_success".toList, exSha 'b'),
         ("refs/tags/build_9_release_1_0_success".toList, exSha 'a')] := by decide +kernel

/-! ## the report and the branches

`rgraph h pl = .ok g` : the graph the report is printed from.  `g.all` holds the result of every release/master
branch in the order they were read (`branchesOf h`, lower-sorted first); the report shows them reversed and without
the branches that have no build.  `IsBranch h g j b B` : `B` is what the report shows for the `j`-th branch `b`;
`lower h j` are the branches sorted below it. -/

def lower {π} (h : Hist π) (j : Nat) : List Branch := (branchesOf h).take j

/-- no build tag of the repository has the number of a pseudo build ("not merged" 9999.9999.9999, "not built"
8888.8888.8888): the printed report recognises the pseudo builds by these numbers -/
def NoFakeTags {π} (h : Hist π) : Prop :=
  ∀ (c : Nat) (cm : Commit π), h.commits[c]? = some cm → fakeNM ∉ cm.tags ∧ fakeNB ∉ cm.tags

def IsBranch {π β} (h : Hist π) (g : Graph β) (j : Nat) (b : Branch) (B : RepBranch) : Prop :=
  (branchesOf h)[j]? = some b ∧ ∃ rb, g.all[j]? = some rb ∧ B = repBranch g.rcs rb

/-- the report lists one entry per release/master branch that has something to show, master (the highest-sorted
branch) first, under the branch's name -/
theorem report_branches {π β} (h : Hist π) (hT : h.Topo) (hW : h.InWindow) (pl : Plug π β) (rep : List RepBranch)
    (hr : report h pl = .ok rep) :
    ∃ g, rgraph h pl = .ok g ∧ g.all.length = (branchesOf h).length ∧
      rep = ((g.all.map (repBranch g.rcs)).reverse.filter fun B => !B.builds.isEmpty) ∧
      ∀ j b B, IsBranch h g j b B → B.name = b.name := by
  obtain ⟨g, hg, hrep, hbr⟩ := report_branch hr
  obtain ⟨hlen, hsem⟩ := rgraph_sem hT (rgraph_nw hT hW hg)
  refine ⟨g, hg, hlen, ?_, ?_⟩
  · rw [hrep, hbr, ← List.map_reverse, List.filter_map]
    congr 1
    apply List.filter_congr
    intro rb _
    simp [repBranch, buildsList]
    have hl := (sortBy_perm (fun a b : RB β => decide (b.iid < a.iid)) rb.rbuilds).length_eq
    cases h1 : rb.rbuilds with
    | nil => simp [sortBy]
    | cons x xs =>
      rw [h1] at hl
      cases h2 : sortBy (fun a b : RB β => decide (b.iid < a.iid)) (x :: xs) with
      | nil => rw [h2] at hl; simp at hl
      | cons y ys => rfl
  · rintro j b B ⟨hb, rb, hrb, rfl⟩
    exact (hsem j b rb hb hrb).2

/-- **C06.no_nonmatching** — no commit that does not match is listed, under any build of any branch, the "not
merged" entry included -/
theorem no_nonmatching {π β} (h : Hist π) (hT : h.Topo) (hW : h.InWindow) (pl : Plug π β) (rep : List RepBranch)
    (hr : report h pl = .ok rep) :
    ∀ B ∈ rep, ∀ b ∈ B.builds, ∀ c ∈ b.commits, h.isMatch c = true := by
  obtain ⟨g, hg, hrep, _⟩ := report_branch hr
  have hf := rgraph_facts hT (rgraph_nw hT hW hg)
  intro B hB b hb c hc
  rw [hrep] at hB
  obtain ⟨rb, _, rfl⟩ := List.mem_map.mp hB
  simp only [repBranch] at hb
  obtain ⟨b0, _, rfl⟩ := List.mem_map.mp hb
  obtain ⟨i, _, rc, h1, h2, h3⟩ := (mem_repBuild_commits g.rcs b0 c).mp hc
  rw [← h3, ← hf.rcExp i rc h1, h2]

section
variable {π β : Type} (h : Hist π) (hT : h.Topo) (hW : h.InWindow) (pl : Plug π β) (g : Graph β)
variable (hg : rgraph h pl = .ok g) (j : Nat) (b : Branch) (B : RepBranch) (hB : IsBranch h g j b B)
include hT hW hg hB

/-- **C06.only_matching** — every build of a branch in the report stands at a build of the branch in the sense of
the property (a tagged commit or the head, reachable from the head, not part of a lower-sorted branch), and every
commit listed under it matches and is contained in that build (so it is reachable from the head) -/
theorem only_matching :
    ∀ bd ∈ B.builds, bd.notMerged = false → ∃ e, bd.commit = some e ∧ SpecBuild h (lower h j) b e ∧
      ∀ c ∈ bd.commits, h.isMatch c = true ∧ Anc h c e ∧ Anc h c b.head := by
  have hg := rgraph_nw hT hW hg
  obtain ⟨hb, rb, hrb, rfl⟩ := hB
  have hs := ((rgraph_sem hT hg).2 j b rb hb hrb).1
  have hf := rgraph_facts hT hg
  intro bd hbd hnm
  obtain ⟨bd0, hbd0, rfl⟩ := (mem_repBranch_builds g.rcs rb bd).mp hbd
  have hsome : bd0.rcommit.isSome = true := by
    simp only [repBuild] at hnm; cases hx : bd0.rcommit <;> simp_all
  obtain ⟨hrc0, rc, hrc, hspec, hl⟩ := hs.buildSpec bd0 hbd0 hsome
  refine ⟨rc.commit, by simp [repBuild, hrc0, hrc], hspec, ?_⟩
  intro c hc
  have hlist := (listed_iff_mem g.rcs bd0 c).mp hc
  obtain ⟨r, _, rcr, h1, h2, h3⟩ := hlist
  have hanc := (hl c ⟨r, ‹_›, rcr, h1, h2, h3⟩).1
  exact ⟨by rw [← h3, ← hf.rcExp r rcr h1, h2], hanc, hanc.trans hspec.2.1⟩

/-- **C06.under_minimal_build** — a listed commit sits under an earliest build that contains it: no other build of
the branch that contains the commit is an ancestor of the build it is listed under -/
theorem under_minimal_build :
    ∀ bd ∈ B.builds, bd.notMerged = false → ∀ e, bd.commit = some e → ∀ c ∈ bd.commits,
      ∀ e', SpecBuild h (lower h j) b e' → Anc h c e' → Anc h e' e → e' = e := by
  have hg := rgraph_nw hT hW hg
  obtain ⟨hb, rb, hrb, rfl⟩ := hB
  have hs := ((rgraph_sem hT hg).2 j b rb hb hrb).1
  intro bd hbd hnm e he c hc e' hspec' hce' hee'
  obtain ⟨bd0, hbd0, rfl⟩ := (mem_repBranch_builds g.rcs rb bd).mp hbd
  have hsome : bd0.rcommit.isSome = true := by
    simp only [repBuild] at hnm; cases hx : bd0.rcommit <;> simp_all
  obtain ⟨hrc0, rc, hrc, _, hl⟩ := hs.buildSpec bd0 hbd0 hsome
  have : e = rc.commit := by simpa [repBuild, hrc0, hrc] using he.symm
  subst this
  exact (hl c ((listed_iff_mem g.rcs bd0 c).mp hc)).2 e' hspec' hce' hee'

/-- **C06.exactly_once** (existence; uniqueness is `at_most_once`) — a matching commit that is contained in some
build of the branch is listed under a build of the branch -/
theorem exactly_once :
    ∀ e', SpecBuild h (lower h j) b e' → ∀ c, Anc h c e' → h.isMatch c = true →
      ∃ bd ∈ B.builds, bd.notMerged = false ∧ c ∈ bd.commits := by
  have hg := rgraph_nw hT hW hg
  obtain ⟨hb, rb, hrb, rfl⟩ := hB
  have hs := ((rgraph_sem hT hg).2 j b rb hb hrb).1
  intro e' hspec' c hc hm
  obtain ⟨bd0, hbd0, hsome, hl⟩ := hs.complete e' hspec' c hc hm
  refine ⟨repBuild g.rcs bd0, (mem_repBranch_builds g.rcs rb _).mpr ⟨bd0, hbd0, rfl⟩, ?_,
    (listed_iff_mem g.rcs bd0 c).mpr hl⟩
  simp only [repBuild]; cases hx : bd0.rcommit <;> simp_all

/-- **C06.not_merged_exact** — the "not merged" entry lists exactly the matching commits of lower-sorted branches
that are not reachable from this head, and it is present whenever there is such a commit -/
theorem not_merged_exact :
    (∀ bd ∈ B.builds, bd.notMerged = true → ∀ c, c ∈ bd.commits ↔ SpecNotMerged h (lower h j) b c) ∧
    (∀ c, SpecNotMerged h (lower h j) b c → ∃ bd ∈ B.builds, bd.notMerged = true) := by
  have hg := rgraph_nw hT hW hg
  obtain ⟨hb, rb, hrb, rfl⟩ := hB
  have hs := ((rgraph_sem hT hg).2 j b rb hb hrb).1
  constructor
  · intro bd hbd hnm c
    obtain ⟨bd0, hbd0, rfl⟩ := (mem_repBranch_builds g.rcs rb bd).mp hbd
    have hnone : bd0.rcommit = none := by
      simp only [repBuild] at hnm; cases hx : bd0.rcommit <;> simp_all
    rw [listed_iff_mem]
    exact hs.notMerged bd0 hbd0 hnone c
  · intro c hc
    obtain ⟨bd0, hbd0, hnone⟩ := hs.nmExists c hc
    exact ⟨repBuild g.rcs bd0, (mem_repBranch_builds g.rcs rb _).mpr ⟨bd0, hbd0, rfl⟩, by simp [repBuild, hnone]⟩

/-- **C06.at_most_once** — inside one branch of the report no commit is repeated under a build, and no commit is
listed under two different entries (builds or "not merged"): every commit is listed at most once -/
theorem at_most_once :
    (∀ bd ∈ B.builds, bd.commits.Nodup) ∧
    (∀ (i1 i2 : Nat) (b1 b2 : RepBuild), B.builds[i1]? = some b1 → B.builds[i2]? = some b2 →
      ∀ c, c ∈ b1.commits → c ∈ b2.commits → i1 = i2) := by
  have hom := only_matching h hT hW pl g hg j b B hB
  have hnm := (not_merged_exact h hT hW pl g hg j b B hB).1
  have hg := rgraph_nw hT hW hg
  obtain ⟨hb, rb, hrb, rfl⟩ := hB
  have hf := rgraph_facts hT hg
  have hfb := hf.facts rb (List.mem_of_getElem? hrb)
  constructor
  · intro bd hbd
    obtain ⟨bd0, hbd0, rfl⟩ := (mem_repBranch_builds g.rcs rb bd).mp hbd
    exact explicitCommits_nodup g.rcs hf.rcInj _ (descending_nodup _ (hfb.nodup bd0 hbd0))
  · intro i1 i2 b1 b2 h1 h2 c hc1 hc2
    apply Classical.byContradiction
    intro hij
    have hm1 : b1 ∈ (repBranch g.rcs rb).builds := List.mem_of_getElem? h1
    have hm2 : b2 ∈ (repBranch g.rcs rb).builds := List.mem_of_getElem? h2
    simp only [repBranch, List.getElem?_map] at h1 h2
    cases ha : (buildsList rb)[i1]? with
    | none => rw [ha] at h1; cases h1
    | some a1 =>
      cases hb' : (buildsList rb)[i2]? with
      | none => rw [hb'] at h2; cases h2
      | some a2 =>
        rw [ha] at h1; rw [hb'] at h2
        simp only [Option.map_some, Option.some.injEq] at h1 h2
        subst h1; subst h2
        have hmem1 := (mem_buildsList rb a1).mp (List.mem_of_getElem? ha)
        have hmem2 := (mem_buildsList rb a2).mp (List.mem_of_getElem? hb')
        cases hn1 : a1.rcommit with
        | none =>
          have hN1 : (repBuild g.rcs a1).notMerged = true := by simp [repBuild, hn1]
          have hs1 := (hnm _ hm1 hN1 c).mp hc1
          cases hn2 : a2.rcommit with
          | none => exact buildsList_one_pseudo hfb i1 i2 a1 a2 hij ha hb' hn1 hn2
          | some x =>
            have hN2 : (repBuild g.rcs a2).notMerged = false := by simp [repBuild, hn2]
            obtain ⟨e, _, _, hall⟩ := hom _ hm2 hN2
            exact hs1.2.2 (hall c hc2).2.2
        | some x =>
          have hN1 : (repBuild g.rcs a1).notMerged = false := by simp [repBuild, hn1]
          cases hn2 : a2.rcommit with
          | none =>
            have hN2 : (repBuild g.rcs a2).notMerged = true := by simp [repBuild, hn2]
            have hs2 := (hnm _ hm2 hN2 c).mp hc2
            obtain ⟨e, _, _, hall⟩ := hom _ hm1 hN1
            exact hs2.2.2 (hall c hc1).2.2
          | some y =>
            have hna : a1.rcommit.isSome = true := by rw [hn1]; rfl
            have hnb : a2.rcommit.isSome = true := by rw [hn2]; rfl
            have hne := buildsList_distinct hfb i1 i2 a1 a2 hij ha hb' hna hnb
            obtain ⟨r1, hr1, rc1, hg1, _, hc1'⟩ := (mem_repBuild_commits g.rcs a1 c).mp hc1
            obtain ⟨r2, hr2, rc2, hg2, _, hc2'⟩ := (mem_repBuild_commits g.rcs a2 c).mp hc2
            have : r1 = r2 := hf.rcInj r1 r2 rc1 rc2 hg1 hg2 (by rw [hc1', hc2'])
            subst this
            exact hfb.disj a1 a2 hmem1 hmem2 hna hnb hne r1 hr1 hr2

/-- **C06.build_title** — what the report shows as the title of a build of the branch: a build at a commit without
build tags is the head of the branch and shows as "not built"; a build at a tagged commit shows one of the build
numbers of its tags, the smallest one -/
theorem build_title :
    ∀ bd ∈ B.builds, bd.notMerged = false → ∃ e cm, bd.commit = some e ∧ h.commits[e]? = some cm ∧
      ((cm.tags = [] ∧ e = b.head ∧ bd.bn = fakeNB) ∨
       (cm.tags ≠ [] ∧ bd.bn ∈ cm.tags ∧ ∀ t ∈ cm.tags, BN.lt t bd.bn = false)) := by
  have hg := rgraph_nw hT hW hg
  obtain ⟨hb, rb, hrb, rfl⟩ := hB
  have hs := ((rgraph_sem hT hg).2 j b rb hb hrb).1
  intro bd hbd hnm
  obtain ⟨bd0, hbd0, rfl⟩ := (mem_repBranch_builds g.rcs rb bd).mp hbd
  have hsome : bd0.rcommit.isSome = true := by
    simp only [repBuild] at hnm; cases hx : bd0.rcommit <;> simp_all
  obtain ⟨hrc0, rc, hrc, hspec, _⟩ := hs.buildSpec bd0 hbd0 hsome
  have hbg : bd0 ∈ g.builds :=
    (rgraph_bumpsOk hT (RelInv.trivial _ _) hg).2 rb (List.mem_of_getElem? hrb) bd0 hbd0 hsome
  obtain ⟨rc', cm, h1, h2, isHead, h3⟩ := rgraph_bnShown hT hg bd0 hbg
  rw [hrc] at h1; cases h1
  refine ⟨rc.commit, cm, by simp [repBuild, hrc0, hrc], h2, ?_⟩
  show _ ∨ (_ ∧ bd0.bn ∈ cm.tags ∧ ∀ t ∈ cm.tags, BN.lt t bd0.bn = false)
  by_cases ht : cm.tags = []
  · left
    have hsort : sortBy BN.lt cm.tags = [] := by rw [ht]; rfl
    simp only [buildNums, hsort, List.isEmpty_nil, Bool.and_true] at h3
    refine ⟨ht, ?_, ?_⟩
    · rcases hspec.1 with h4 | h4
      · rw [Hist.tagged_of_get h2, ht] at h4; cases h4
      · exact h4
    · cases isHead <;> simp at h3
      exact h3.symm
  · right
    have hne : (sortBy BN.lt cm.tags).isEmpty = false := by
      cases hsl : sortBy BN.lt cm.tags with
      | nil =>
        have := (sortBy_perm BN.lt cm.tags).length_eq
        rw [hsl] at this
        exact absurd (List.length_eq_zero_iff.mp this.symm) ht
      | cons _ _ => rfl
    simp only [buildNums, hne, Bool.and_false, Bool.false_eq_true, if_false] at h3
    exact ⟨ht, head_sorted_min h3⟩

/-- **C06.pseudo_title** — which entry carries which title.  The printed report decides the title from the build number:
"- not merged -" for `fakeNM`, "- not built -" for `fakeNB`, the number otherwise.  When no tag of the repository has
one of these two numbers (`NoFakeTags`; a tag 9999.9999.9999 would be titled "- not merged -", a tagged build
8888.8888.8888 "- not built -"), an entry is titled "not merged" exactly when it is the pseudo build — which has no
commit of its own — every other entry has a build commit, and an entry is titled "not built" exactly when its build
commit carries no build tag (by `build_title` it is the head of the branch then) -/
theorem pseudo_title (hnf : NoFakeTags h) :
    ∀ bd ∈ B.builds, (bd.notMerged = true ↔ bd.bn = fakeNM) ∧ (bd.notMerged = true → bd.commit = none) ∧
      (bd.notMerged = false → ∃ e, bd.commit = some e) ∧
      (bd.bn = fakeNB ↔ ∃ e cm, bd.commit = some e ∧ h.commits[e]? = some cm ∧ cm.tags = []) := by
  have hbt := build_title h hT hW pl g hg j b B hB
  have hk := rgraph_kinds hT hg
  obtain ⟨hb, rb, hrb, rfl⟩ := hB
  intro bd hbd
  have hne : fakeNB ≠ fakeNM := by decide
  obtain ⟨bd0, hbd0, rfl⟩ := (mem_repBranch_builds g.rcs rb bd).mp hbd
  have hpseudo : (repBuild g.rcs bd0).notMerged = true → (repBuild g.rcs bd0).commit = none ∧ (repBuild g.rcs bd0).bn = fakeNM := by
    intro hnm
    have hnone : bd0.rcommit = none := by
      simp only [repBuild] at hnm; cases hx : bd0.rcommit <;> simp_all
    rcases hk rb (List.mem_of_getElem? hrb) bd0 hbd0 with ⟨h1, _⟩ | ⟨_, h2⟩
    · rw [hnone] at h1; cases h1
    · exact ⟨by simp [repBuild, hnone], h2⟩
  have hreal : (repBuild g.rcs bd0).notMerged = false → (repBuild g.rcs bd0).bn ≠ fakeNM := by
    intro hnm
    obtain ⟨e, cm, _, hcm, h1 | h1⟩ := hbt _ hbd hnm
    · rw [h1.2.2]; exact hne
    · intro heq
      exact (hnf e cm hcm).1 (heq ▸ h1.2.1)
  refine ⟨⟨fun hnm => (hpseudo hnm).2, ?_⟩, fun hnm => (hpseudo hnm).1, ?_, ?_⟩
  · intro hbn
    cases hnm : (repBuild g.rcs bd0).notMerged with
    | true => rfl
    | false => exact absurd hbn (hreal hnm)
  · intro hnm
    obtain ⟨e, _, he, _⟩ := hbt _ hbd hnm
    exact ⟨e, he⟩
  · constructor
    · intro hbn
      cases hnm : (repBuild g.rcs bd0).notMerged with
      | true => rw [(hpseudo hnm).2] at hbn; exact absurd hbn.symm hne
      | false =>
        obtain ⟨e, cm, he, hcm, h1 | h1⟩ := hbt _ hbd hnm
        · exact ⟨e, cm, he, hcm, h1.1⟩
        · exact absurd (hbn ▸ h1.2.1) (hnf e cm hcm).2
    · rintro ⟨e, cm, he, hcm, ht⟩
      cases hnm : (repBuild g.rcs bd0).notMerged with
      | true => rw [(hpseudo hnm).1] at he; cases he
      | false =>
        obtain ⟨e', cm', he', hcm', h1 | h1⟩ := hbt _ hbd hnm
        · exact h1.2.2
        · rw [he] at he'; cases he'
          rw [hcm] at hcm'; cases hcm'
          exact absurd ht h1.1

end

/-! ## totality -/

/-- the report is always produced: on a history numbered in topological order whose refs point to existing commits
the model never runs into one of the code's `KeyError`s / assertions and never out of fuel, whatever the commit
times are (component plug: any plug that does not raise on bumps with an invariant `J` it maintains; `Plug.none` for a
single repository) -/
theorem report_total {π β} (h : Hist π) (hT : h.Topo) (pl : Plug π β) (J : β → Prop) (hpl : PlugTotal pl J)
    (hrefs : ∀ r ∈ h.refs, r.2 < h.commits.length) : ∃ rep, report h pl = .ok rep := by
  have hheads := heads_of_refs hrefs
  obtain ⟨g, hg, _⟩ := rgraph_total hT hpl hheads
  exact ⟨g.branches.map (repBranch g.rcs), by simp only [report, hg]⟩

theorem report_total_single (h : Hist Unit) (hT : h.Topo) (hrefs : ∀ r ∈ h.refs, r.2 < h.commits.length) :
    ∃ rep, report h Plug.none = .ok rep := report_total h hT Plug.none _ plugTotal_none hrefs

/-! ## Non-vacuity: a concrete history (merge, two branches, head of the second inside the first) evaluated by the
kernel — the hypotheses `Hist.Topo` and `report … = .ok …` are satisfiable and the report is not empty. -/

def exHist : Hist Unit :=
  { commits := [⟨[], [], true, (), 0⟩, ⟨[0], [⟨1, 2, 7, 7⟩], false, (), 86400⟩, ⟨[0], [], true, (), 2 * 86400⟩,
                ⟨[2, 1], [⟨1, 2, 9, 9⟩], false, (), 20 * 86400⟩, ⟨[3], [], true, (), 29 * 86400⟩,
                ⟨[1], [], true, (), 3 * 86400⟩],
    remote := "origin".toList,
    refs := [("origin/master".toList, 4), ("origin/release/1.2".toList, 5), ("origin/feature/x".toList, 2)] }

example : exHist.Topo := Hist.topo_of_topoB _ (by decide)

example : exHist.InWindow := Hist.inWindow_of_B (by decide)

example : NoFakeTags exHist := by
  intro c cm hc
  have hall : ∀ cm ∈ exHist.commits, fakeNM ∉ cm.tags ∧ fakeNB ∉ cm.tags := by decide
  exact hall cm (List.mem_of_getElem? hc)

example : report exHist Plug.none = .ok
    [⟨"master".toList, [⟨true, fakeNM, none, [5]⟩, ⟨false, fakeNB, some 4, [4]⟩,
                        ⟨false, ⟨1, 2, 9, 9⟩, some 3, [2, 0]⟩]⟩,
     ⟨"release/1.2".toList, [⟨false, fakeNB, some 5, [5]⟩, ⟨false, ⟨1, 2, 7, 7⟩, some 1, [0]⟩]⟩] := by
  decide +kernel

/-- outside the window the hypothesis is needed: with the head of `master` more than 30 days older than the builds
of `release/1.2`, `master` is treated as obsolete and not reported at all -/
def exOld : Hist Unit :=
  { exHist with commits := [⟨[], [], true, (), 40 * 86400⟩, ⟨[0], [⟨1, 2, 7, 7⟩], false, (), 41 * 86400⟩,
                            ⟨[0], [], true, (), 2 * 86400⟩, ⟨[2, 1], [⟨1, 2, 9, 9⟩], false, (), 3 * 86400⟩,
                            ⟨[3], [], true, (), 4 * 86400⟩, ⟨[1], [], true, (), 42 * 86400⟩] }

example : report exOld Plug.none = .ok
    [⟨"release/1.2".toList, [⟨false, fakeNB, some 5, [5]⟩, ⟨false, ⟨1, 2, 7, 7⟩, some 1, [0]⟩]⟩] := by
  decide +kernel

end C06
