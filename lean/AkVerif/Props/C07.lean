import AkVerif.Lemmas.GhistRepos
import AkVerif.Lemmas.GhistElig
import AkVerif.Lemmas.GhistReport
import AkVerif.Lemmas.GhistPar
import AkVerif.Lemmas.GhistIncl
import AkVerif.Lemmas.GhistBnAll
import AkVerif.Lemmas.GhistWindow
import AkVerif.Lemmas.GhistPlugTotal
/-!
# C07 — component builds are reported at the first parent build that ships them

Property theorems only, about the functions the driver `Drv/C07.lean` executes (`Ghist.sortRepos`,
`Ghist.analyse`).  Repositories are natural numbers (ranks of the names in `sorted()` order); `deps a` are the
keys of `_COMPONENTS_VERSIONS_LOCATIONS` of repository `a` — components that are not among the supplied
repositories are ignored (`Edge` asks for `b ∈ ids`).
-/
namespace C07
open Ghist Ak

/-- **C07.repo_order** — repositories are analysed components first: the order returned is a permutation of the
supplied repositories in which every component of a repository stands strictly before it. -/
theorem repo_order (ids : List Nat) (deps : Nat → List Nat) (hnd : ids.Nodup) (l : List Nat)
    (h : sortRepos ids deps = .ok l) :
    l.Perm ids ∧ ∀ (l1 l2 : List Nat) (a : Nat), l = l1 ++ a :: l2 → ∀ b, b ∈ deps a → b ∈ ids → b ∈ l1 := by
  rcases sortRepos_spec (ids := ids) (deps := deps) hnd with ⟨l', h1, h2, h3⟩ | ⟨h1, _⟩
  · rw [h] at h1; cases h1
    exact ⟨h2, fun l1 l2 a hl b hb hbi => topoR_reverse_split l h3 l1 l2 a hl b ⟨hb, hbi⟩⟩
  · rw [h] at h1; cases h1

/-- … whatever order they were supplied in: the result depends only on the set of repositories -/
theorem repo_order_independent (ids ids' : List Nat) (deps : Nat → List Nat) (hp : ids.Perm ids') :
    sortRepos ids deps = sortRepos ids' deps := sortRepos_perm hp

/-- **C07.cycle_rejected** — `ValueError` is raised exactly when the dependency graph restricted to the supplied
repositories has a cycle (a repository listing itself included) … -/
theorem cycle_rejected (ids : List Nat) (deps : Nat → List Nat) (hnd : ids.Nodup) :
    sortRepos ids deps = .error .valueError ↔ Cyclic ids deps := by
  constructor
  · intro h
    rcases sortRepos_spec (ids := ids) (deps := deps) hnd with ⟨l', h1, _, _⟩ | ⟨_, hc⟩
    · rw [h] at h1; cases h1
    · exact hc
  · intro ⟨a, hp⟩
    rcases sortRepos_spec (ids := ids) (deps := deps) hnd with ⟨l', _, h2, h3⟩ | ⟨h1, _⟩
    · exfalso
      have ha : a ∈ ids := by
        cases hp with
        | one e => -- a → a
          exact e.2
        | cons e hp' =>
          -- the path comes back to `a`, so its last edge ends in `a`
          have : ∀ {x y : Nat}, DPath ids deps x y → y ∈ ids := by
            intro x y h; induction h with
            | one e => exact e.2
            | cons _ _ ih => exact ih
          exact this hp'
      have hal : a ∈ l'.reverse := List.mem_reverse.mpr (h2.mem_iff.mpr ha)
      have hnd' : l'.reverse.Nodup := (List.reverse_perm l').nodup_iff.mpr (h2.nodup_iff.mpr hnd)
      exact TopoR.acyclic h3 hnd' a hal hp
    · exact h1

/-- … and nothing else can go wrong: the ordering returns a list or raises `ValueError` (the DFS never runs out of
fuel, no other exception) -/
theorem repo_order_total (ids : List Nat) (deps : Nat → List Nat) (hnd : ids.Nodup) :
    (∃ l, sortRepos ids deps = .ok l) ∨ sortRepos ids deps = .error .valueError := by
  rcases sortRepos_spec (ids := ids) (deps := deps) hnd with ⟨l', h1, _, _⟩ | ⟨h1, _⟩
  · exact Or.inl ⟨l', h1⟩
  · exact Or.inr h1

/-! ## included_at and bumps

`comps` are the graphs of the component repositories handed to the analysis of a parent repository with history
`h`; `g` is the parent's graph, `regs` the `included_at` entries it registers in the builds of its components.
`RbAnc gC x t` — in the component's graph `gC` the build `t` is `x` or has `x` among the builds reachable through
parent builds: *the version `t` contains the build `x`* (containment relative to the component's report graph; that
this graph mirrors git ancestry inside one release line is C06's subject and is not re-proved here). -/

/-- **partial** (C07.included_first) — the registration loop records a component build `x` as included at
(parent, branch, build number) exactly for the reported builds `b` of that branch whose bump of the component has a
new version `t` that contains `x` while none of the previous versions `f ∈ from_rbuilds` — the versions contained in
the parent builds of `b`, see `bumps_recorded` — contains it.  This holds for every shape of the component's build
graph (after the repair 88b742a).
Missing for the full statement: (1) that the parent builds `RB.parents` found by `_find_new_rcommits_in_build` are
the nearest reported builds below `b` in git ancestry, so that "previous versions" = "versions pinned by the earlier
builds of the branch"; (2) that `bn_map` sends a pinned version to the latest reported component build it contains. -/
theorem included_first_partial (comps : List (Nat × Graph Bumps)) (repo : Nat) (g : Graph Bumps) (regs : List Reg)
    (hregs : registrations repo comps g = .ok regs) (r : Reg) :
    r ∈ regs ↔ ∃ rb ∈ g.branches, ∃ cg ∈ comps, ∃ b ∈ rb.rbuilds, b.bn ≠ fakeNM ∧
      ∃ bump t, b.bumps.lookup cg.1 = some bump ∧ bump.toRb = some t ∧
        RbAnc cg.2 r.iid t ∧ (∀ f ∈ bump.fromRbs, ¬ RbAnc cg.2 r.iid f) ∧
        r = ⟨cg.1, r.iid, repo, rb.name, b.bn⟩ := by
  rw [mem_registrations hregs r]
  constructor
  · rintro ⟨rb, hrb, cg, hcg, b, hb, l, hl, hrl⟩
    have hshape : r = ⟨cg.1, r.iid, repo, rb.name, b.bn⟩ := by
      unfold regsOfBuild at hl
      split at hl
      · cases hl; cases hrl
      · split at hl
        · cases hl; cases hrl
        · split at hl
          · cases hl
          · cases hl
            obtain ⟨x, _, rfl⟩ := List.mem_map.mp hrl
            rfl
    rw [hshape] at hrl
    obtain ⟨hnm, bump, t, h1, h2, h3, h4⟩ := (regsOfBuild_mem hl r.iid).mp hrl
    exact ⟨rb, hrb, cg, hcg, b, hb, hnm, bump, t, h1, h2, h3, h4, hshape⟩
  · rintro ⟨rb, hrb, cg, hcg, b, hb, hnm, bump, t, h1, h2, h3, h4, hshape⟩
    -- the registration of this build does not fail: it is part of a successful run
    have hok : ∃ l, regsOfBuild repo rb.name cg.1 cg.2 b = .ok l := by
      unfold registrations at hregs
      cases hx : regsOfBuild repo rb.name cg.1 cg.2 b with
      | ok l => exact ⟨l, rfl⟩
      | error e =>
        exfalso
        have hmem : regsOfBuild repo rb.name cg.1 cg.2 b ∈ (g.branches.flatMap fun rb =>
            comps.flatMap fun cg => (sortBy (fun a b : RB Bumps => a.iid < b.iid) rb.rbuilds).map fun b =>
              regsOfBuild repo rb.name cg.1 cg.2 b) := by
          simp only [List.mem_flatMap, List.mem_map]
          exact ⟨rb, hrb, cg, hcg, b, (mem_sortBy _ _ _).mpr hb, rfl⟩
        rw [hx] at hmem
        have : ∀ (l : List (Except Err (List Reg))) (e : Err), .error e ∈ l → ∀ out, concatM l ≠ .ok out := by
          intro l
          induction l with
          | nil => intro e he; cases he
          | cons a l ih =>
            intro e he out hc
            simp only [concatM] at hc
            rcases List.mem_cons.mp he with h5 | h5
            · subst h5; simp at hc
            · cases a with
              | error e' => simp at hc
              | ok xs =>
                cases hcl : concatM l with
                | error e' => rw [hcl] at hc; simp at hc
                | ok ys => exact ih e h5 ys hcl
        exact this _ e hmem regs hregs
    obtain ⟨l, hl⟩ := hok
    refine ⟨rb, hrb, cg, hcg, b, hb, l, hl, ?_⟩
    rw [hshape]
    exact (regsOfBuild_mem hl r.iid).mpr ⟨hnm, bump, t, h1, h2, h3, h4⟩

section
variable (comps : List (Nat × Graph Bumps)) (h : Hist Pins) (hT : h.Topo) (hW : h.InWindow) (hcw : CompWindow comps h) (g : Graph Bumps)
variable (hgw : rgraph h (mkPlug comps) = .ok g)
include hT hW hcw hgw

/-- the bumps stored in a build are the ones `_mk_bumps_info` computes from the pins of the build's commit and the
bumps of its parent builds: for each component, `from_rbuilds` are the component builds the parent builds contain
(their `to_rbuild`, or their own `from_rbuilds` when they pin an unknown version), `to_buildnum` is the pinned version
and `to_rbuild` its entry in the component's `bn_map` — or, for a version unknown there, the newest build in
`from_rbuilds` -/
theorem bumps_recorded :
    ∀ b ∈ g.builds, ∃ rc cm pbs, g.rcs[b.iid]? = some rc ∧ h.commits[rc.commit]? = some cm ∧
      Resolved g.builds b.parents pbs ∧
      ∀ comp bump, (comp, bump) ∈ b.bumps → ∃ gC v, (comp, gC) ∈ relevantComps comps ∧
        cm.pins.lookup comp = some v ∧ bump.toBn = ⟨v.1, v.2.1, v.2.2, v.2.2⟩ ∧
        (∀ x, x ∈ bump.fromRbs ↔ ∃ pb ∈ pbs, ∃ b0, pb.bumps.lookup comp = some b0 ∧
          (b0.toRb = some x ∨ (b0.toRb = none ∧ x ∈ b0.fromRbs))) ∧
        ((∃ e, gC.bnMapAll.lookup bump.toBn = some e ∧ bump.toRb = some e.2) ∨
         (gC.bnMapAll.lookup bump.toBn = none ∧
           ((bump.fromRbs = [] ∧ bump.toRb = none) ∨ ∃ m, maxOf bump.fromRbs = some m ∧ bump.toRb = some m))) := by
  have hg := rgraph_nw hT hW hgw
  intro b hb
  obtain ⟨rc, cm, pbs, h1, h2, h3, rel, hrel, h4⟩ := (rgraph_bumpsOk hT (compWindow_full hcw) hg).1 b hb
  refine ⟨rc, cm, pbs, h1, h2, h3, ?_⟩
  intro comp bump hm
  rw [mkPlug_mkBumps_full hrel] at h4
  obtain ⟨gC, v, h5, h6, h7⟩ := mkBumps_mem h4 comp bump hm
  obtain ⟨h8, h9, h10⟩ := mkBump_spec h7
  refine ⟨gC, v, (mem_sortBy _ _ _).mp h5, h6, h9, ?_, h10⟩
  intro x
  rw [h8, mem_fromSet]
  simp only [List.mem_map]
  constructor
  · rintro ⟨_, ⟨pb, hpb, rfl⟩, b0, hb0⟩; exact ⟨pb, hpb, b0, hb0⟩
  · rintro ⟨pb, hpb, b0, hb0⟩; exact ⟨_, ⟨pb, hpb, rfl⟩, b0, hb0⟩

/-- the version pinned by a parent build is one of the previous versions (`from_rbuilds`) of the build -/
theorem parent_version_in_from (b1 b2 : RB Bumps) (hb1 : b1 ∈ g.builds) (hb2 : b2 ∈ g.builds)
    (hpar : b1.iid ∈ b2.parents) (comp : Nat) (bump1 bump2 : Bump) (t1 : Nat)
    (h1 : b1.bumps.lookup comp = some bump1) (ht1 : bump1.toRb = some t1)
    (h2 : b2.bumps.lookup comp = some bump2) : t1 ∈ bump2.fromRbs := by
  have hg := rgraph_nw hT hW hgw
  obtain ⟨rc, cm, pbs, _, _, hres, hall⟩ := bumps_recorded comps h hT hW hcw g hgw b2 hb2
  obtain ⟨gC', v, _, _, _, hfrom, _⟩ := hall comp bump2 (lookup_some_mem h2)
  rw [hfrom]
  -- `b1` is among the resolved parent builds: ids of builds are unique
  have hinc := (rgraph_facts hT hg).bldInc
  have hb1res : b1 ∈ pbs := by
    clear hall hfrom
    generalize b2.parents = is at hres hpar
    induction hres with
    | nil => cases hpar
    | @cons i pb is' pbs' hm hi _ ih =>
      rcases List.mem_cons.mp hpar with h5 | h5
      · have : pb = b1 := by
          have e1 := build?_of_mem (rp := { (Repo.empty : Repo Bumps) with builds := g.builds }) hinc hm
          have e2 := build?_of_mem (rp := { (Repo.empty : Repo Bumps) with builds := g.builds }) hinc hb1
          rw [hi, ← h5] at e1
          rw [e1] at e2
          exact Option.some.inj e2
        rw [this]; simp
      · exact List.mem_cons_of_mem _ (ih h5)
  exact ⟨b1, hb1res, bump1, h1, Or.inl ht1⟩

/-- `b1` lies below `b2` along parent builds -/
inductive BuildChain (builds : List (RB Bumps)) : RB Bumps → RB Bumps → Prop
  | one {b1 b2 : RB Bumps} : b1 ∈ builds → b2 ∈ builds → b1.iid ∈ b2.parents → BuildChain builds b1 b2
  | step {b1 bm b2 : RB Bumps} : BuildChain builds b1 bm → b2 ∈ builds → bm.iid ∈ b2.parents →
      BuildChain builds b1 b2

/-- **partial** (C07.included_only_first) — "and at no other parent build": a component build contained in the
version pinned by a build `b1` is not registered again by any build `b2` above `b1` along parent builds.
Hypotheses (the property's quantifier, stated on the recorded bumps): every build of the parent pins a version of the
component known to its `bn_map` (`hpin`), and the pinned version never decreases along a path, read as containment —
the new version contains every previous version (`hmono`).
Missing: (1), (2) of `included_first_partial`, to identify "above along parent builds" with "later build of the branch
in git ancestry". -/
theorem included_only_first_partial (comp : Nat) (gC : Graph Bumps)
    (hpin : ∀ b ∈ g.builds, ∃ bump t, b.bumps.lookup comp = some bump ∧ bump.toRb = some t)
    (hmono : ∀ b ∈ g.builds, ∀ bump t, b.bumps.lookup comp = some bump → bump.toRb = some t →
      ∀ f ∈ bump.fromRbs, RbAnc gC f t)
    (b1 b2 : RB Bumps) (hch : BuildChain g.builds b1 b2) (bump1 : Bump) (t1 : Nat)
    (h1 : b1.bumps.lookup comp = some bump1) (ht1 : bump1.toRb = some t1)
    (repo : Nat) (name : List Char) (l : List Reg)
    (hl : regsOfBuild repo name comp gC b2 = .ok l) (x : Nat) (hx : RbAnc gC x t1) :
    (⟨comp, x, repo, name, b2.bn⟩ : Reg) ∉ l := by
  have hg := rgraph_nw hT hW hgw
  -- along the chain `x` stays contained in a previous version of every build, hence in its version
  have key : ∀ {b2 : RB Bumps}, BuildChain g.builds b1 b2 →
      ∃ bump2 t2, b2.bumps.lookup comp = some bump2 ∧ bump2.toRb = some t2 ∧
        (∃ f ∈ bump2.fromRbs, RbAnc gC x f) ∧ RbAnc gC x t2 := by
    intro b2 hc
    induction hc with
    | one hb1 hb2 hpar =>
      obtain ⟨bump2, t2, h2, ht2⟩ := hpin _ hb2
      have hin := parent_version_in_from comps h hT hW hcw g hgw _ _ hb1 hb2 hpar comp bump1 bump2 t1 h1 ht1 h2
      exact ⟨bump2, t2, h2, ht2, ⟨t1, hin, hx⟩, RbAnc.trans hx (hmono _ hb2 bump2 t2 h2 ht2 t1 hin)⟩
    | step hc' hb2 hpar ih =>
      rename_i bm b2'
      obtain ⟨bumpm, tm, hm1, hm2, _, hxm⟩ := ih
      have hbm : bm ∈ g.builds := by
        cases hc' with
        | one _ h _ => exact h
        | step _ h _ => exact h
      obtain ⟨bump2, t2, h2, ht2⟩ := hpin _ hb2
      have hin := parent_version_in_from comps h hT hW hcw g hgw _ _ hbm hb2 hpar comp bumpm bump2 tm hm1 hm2 h2
      exact ⟨bump2, t2, h2, ht2, ⟨tm, hin, hxm⟩, RbAnc.trans hxm (hmono _ hb2 bump2 t2 h2 ht2 tm hin)⟩
  obtain ⟨bump2, t2, h2, _, ⟨f, hf, hxf⟩, _⟩ := key hch
  intro hin
  obtain ⟨_, bump, t, h3, _, _, h4⟩ := (regsOfBuild_mem hl x).mp hin
  rw [h2] at h3; cases h3
  exact h4 f hf hxf

/-- the parent builds recorded in a build are the nearest builds of the same branch below it in git ancestry
(this is (1) of `included_first_partial`, proved for every history) -/
theorem parent_builds_nearest : ∀ rb ∈ g.all, BrPar h g.rcs rb := rgraph_par hT (rgraph_nw hT hW hgw)

/-- **partial** (C07.included_first / included_only_first, spec level on the parent side) — for a reported build
`bd` of a parent branch, at commit `e`, whose pinned version of the component is `t`: a component build `x` is
registered at `bd` exactly when `t` contains `x` and no *reported* build of the branch that is a proper git ancestor
of `e` pins a version that contains `x` — `bd` is the first reported build of the branch that ships `x`.
Hypotheses (the quantifier): every reported build of the branch pins a version of the component that is known to its
`bn_map` (`hpin`), and along git ancestry the pinned version never decreases, read as containment (`hmono`).
Missing for the full statement: eligible commits that are *not* reported (they have trivial bumps, see
`bump_build_reported_partial`, so their version is the one of the nearest reported build below — not yet carried to
this theorem), and the meaning of `RbAnc` / `bn_map` in terms of the component's git history. -/
theorem included_first_reported_partial (rb : RBranch Bumps) (hrb : rb ∈ g.all) (comp : Nat) (gC : Graph Bumps)
    (hpin : ∀ bx ∈ rb.rbuilds, ∀ ex, BuildAt g.rcs bx ex →
      ∃ bump t, bx.bumps.lookup comp = some bump ∧ bump.toRb = some t)
    (hmono : ∀ bp ∈ rb.rbuilds, ∀ bq ∈ rb.rbuilds, ∀ ep eq, BuildAt g.rcs bp ep → BuildAt g.rcs bq eq →
      Anc h ep eq → ∀ bumpp tp bumpq tq, bp.bumps.lookup comp = some bumpp → bumpp.toRb = some tp →
        bq.bumps.lookup comp = some bumpq → bumpq.toRb = some tq → RbAnc gC tp tq)
    (bd : RB Bumps) (hbd : bd ∈ rb.rbuilds) (e : Nat) (hbe : BuildAt g.rcs bd e) (hbn : bd.bn ≠ fakeNM)
    (bump : Bump) (t : Nat) (hb1 : bd.bumps.lookup comp = some bump) (hb2 : bump.toRb = some t)
    (repo : Nat) (l : List Reg) (hl : regsOfBuild repo rb.name comp gC bd = .ok l) (x : Nat) :
    (⟨comp, x, repo, rb.name, bd.bn⟩ : Reg) ∈ l ↔
      RbAnc gC x t ∧ ∀ bp ∈ rb.rbuilds, ∀ ep, BuildAt g.rcs bp ep → ep ≠ e → Anc h ep e →
        ∀ bumpp tp, bp.bumps.lookup comp = some bumpp → bumpp.toRb = some tp → ¬ RbAnc gC x tp := by
  have hg := rgraph_nw hT hW hgw
  have hpar := parent_builds_nearest comps h hT hW hcw g hgw rb hrb bd hbd e hbe
  have hinb : ∀ bx ∈ rb.rbuilds, ∀ ex, BuildAt g.rcs bx ex → bx ∈ g.builds := by
    intro bx hbx ex hex
    exact (rgraph_bumpsOk hT (RelInv.trivial _ _) hg).2 rb hrb bx hbx (by rw [hex.1]; rfl)
  have hbdg := hinb bd hbd e hbe
  rw [regsOfBuild_mem hl x]
  constructor
  · rintro ⟨_, bump', t', h1, h2, h3, h4⟩
    rw [hb1] at h1; cases h1
    rw [hb2] at h2; cases h2
    refine ⟨h3, ?_⟩
    intro bp hbp ep hbep hne hanc bumpp tp hp1 hp2 hcontra
    -- a nearest build `bm` of the branch above `bp` and below `e`
    have key : ∀ (k : Nat) (bq : RB Bumps) (eq : Nat), bq ∈ rb.rbuilds → BuildAt g.rcs bq eq → eq ≠ e → Anc h eq e →
        e - eq ≤ k → ∃ bm ∈ rb.rbuilds, ∃ em, BuildAt g.rcs bm em ∧ em ≠ e ∧ Anc h em e ∧ Anc h eq em ∧
          ∀ br ∈ rb.rbuilds, ∀ er, BuildAt g.rcs br er → er ≠ em → er ≠ e → Anc h er e → ¬ Anc h em er := by
      intro k
      induction k with
      | zero =>
        intro bq eq _ _ hqe hqa hk
        have := hqa.le hT
        exact absurd (by omega) hqe
      | succ k ih =>
        intro bq eq hbq hbeq hqe hqa hk
        classical
        by_cases hmax : ∀ br ∈ rb.rbuilds, ∀ er, BuildAt g.rcs br er → er ≠ eq → er ≠ e → Anc h er e → ¬ Anc h eq er
        · exact ⟨bq, hbq, eq, hbeq, hqe, hqa, .refl _, hmax⟩
        · have : ∃ br ∈ rb.rbuilds, ∃ er, BuildAt g.rcs br er ∧ er ≠ eq ∧ er ≠ e ∧ Anc h er e ∧ Anc h eq er := by
            apply Classical.byContradiction
            intro hno
            apply hmax
            intro br hbr er hber h5 h6 h7 h8
            exact hno ⟨br, hbr, er, hber, h5, h6, h7, h8⟩
          obtain ⟨br, hbr, er, hber, h5, h6, h7, h8⟩ := this
          have hlt : eq < er := by
            have := h8.le hT
            rcases Nat.lt_or_ge eq er with h9 | h9
            · exact h9
            · exact absurd (by omega) h5
          have hle := h7.le hT
          obtain ⟨bm, hbm, em, h10, h11, h12, h13, h14⟩ := ih br er hbr hber h6 h7 (by omega)
          exact ⟨bm, hbm, em, h10, h11, h12, h8.trans h13, h14⟩
    obtain ⟨bm, hbm, em, hbem, hme, hma, hpm, hmmax⟩ := key (e - ep) bp ep hbp hbep hne hanc (Nat.le_refl _)
    have hmpar : bm.iid ∈ bd.parents := (hpar.2 bm.iid).mpr ⟨bm, hbm, rfl, em, hbem, hme, hma, hmmax⟩
    obtain ⟨bumpm, tm, hm1, hm2⟩ := hpin bm hbm em hbem
    have hin := parent_version_in_from comps h hT hW hcw g hgw bm bd (hinb bm hbm em hbem) hbdg hmpar comp bumpm bump tm
      hm1 hm2 hb1
    have hcont := hmono bp hbp bm hbm ep em hbep hbem hpm bumpp tp bumpm tm hp1 hp2 hm1 hm2
    exact h4 tm hin (RbAnc.trans hcontra hcont)
  · rintro ⟨h3, h4⟩
    refine ⟨hbn, bump, t, hb1, hb2, h3, ?_⟩
    intro f hf hxf
    -- `f` is the version of a parent build, which is a reported build of the branch below `e`
    obtain ⟨rc, cm, pbs, _, _, hres, hall⟩ := bumps_recorded comps h hT hW hcw g hgw bd hbdg
    obtain ⟨gC', v, _, _, _, hfrom, _⟩ := hall comp bump (lookup_some_mem hb1)
    obtain ⟨pb, hpb, b0, hb0, hcase⟩ := (hfrom f).mp hf
    -- `pb` is one of the resolved parent builds
    have hpbpar : pb.iid ∈ bd.parents ∧ pb ∈ g.builds := by
      clear hall hfrom
      generalize bd.parents = is at hres
      induction hres with
      | nil => cases hpb
      | @cons i pb' is' pbs' hm hi _ ih =>
        rcases List.mem_cons.mp hpb with h5 | h5
        · subst h5; exact ⟨by simp [hi], hm⟩
        · obtain ⟨h6, h7⟩ := ih h5
          exact ⟨List.mem_cons_of_mem _ h6, h7⟩
    obtain ⟨bp, hbp, hbpi, ep, hbep, hne, hanc, _⟩ := (hpar.2 pb.iid).mp hpbpar.1
    have hinc := (rgraph_facts hT hg).bldInc
    have hbpg := hinb bp hbp ep hbep
    have hpbeq : pb = bp := by
      have e1 := build?_of_mem (rp := { (Repo.empty : Repo Bumps) with builds := g.builds }) hinc hpbpar.2
      have e2 := build?_of_mem (rp := { (Repo.empty : Repo Bumps) with builds := g.builds }) hinc hbpg
      rw [hbpi] at e2
      rw [e1] at e2
      exact Option.some.inj e2
    subst hpbeq
    obtain ⟨bumpp, tp, hp1, hp2⟩ := hpin pb hbp ep hbep
    rw [hb0] at hp1; cases hp1
    rcases hcase with h5 | ⟨h5, _⟩
    · rw [hp2] at h5; cases h5
      exact h4 pb hbp ep hbep hne hanc b0 f hb0 hp2 hxf
    · rw [hp2] at h5; cases h5

/-- **partial** (C07.bump_build_reported) — every eligible commit of a branch (tagged or head, reachable from the
head, not part of a lower-sorted branch) is a build of the branch in the report, unless it does not match and all the
bumps computed for it — from its pins and the bumps of the at most one parent build found — are trivial (the pinned
version's latest reported build is the one the parent build already contains): a parent build whose pin moves
across report-related component builds is reported even without a matching commit of its own.
Missing: (1) of `included_first_partial` — that the parent build found is the nearest reported build below. -/
theorem bump_build_reported_partial (j : Nat) (b : Branch) (rb : RBranch Bumps)
    (hb : (branchesOf h)[j]? = some b) (hrb : g.all[j]? = some rb) (e : Nat)
    (he : SpecBuild h ((branchesOf h).take j) b e) :
    (∃ bd ∈ rb.rbuilds, bd.rcommit = some bd.iid ∧ ∃ rc, g.rcs[bd.iid]? = some rc ∧ rc.commit = e) ∨
    (h.isMatch e = false ∧
      (relevantComps comps = [] ∨
       ∃ (cm : Commit Pins) (pbs : List (RB Bumps)) (bumps : Bumps), h.commits[e]? = some cm ∧ pbs.length ≤ 1 ∧
         (∀ pb ∈ pbs, pb ∈ g.builds) ∧
         mkBumps (sortBy (fun a b => a.1 < b.1) (relevantComps comps)) cm.pins (pbs.map (·.bumps)) = .ok bumps ∧
         ∀ cb ∈ bumps, cb.2.trivial = true)) := by
  have hg := rgraph_nw hT hW hgw
  rcases rgraph_elig hT (compWindow_full hcw) hg j b rb hb hrb e he with h1 | ⟨h1, h2⟩
  · exact Or.inl h1
  · right
    refine ⟨h1, ?_⟩
    rcases h2 with h2 | ⟨cm, pbs, bumps, rel, hrel, h3, h4, h5, h6, h7⟩
    · left
      exact mkPlug_relInit_nil h2
    · right
      rw [mkPlug_mkBumps_full hrel] at h6
      refine ⟨cm, pbs, bumps, h3, h4, h5, h6, ?_⟩
      intro cb hcb
      simp only [mkPlug] at h7
      cases hct : cb.2.trivial with
      | true => rfl
      | false =>
        have : (bumps.any fun cb => !cb.2.trivial) = true :=
          List.any_eq_true.mpr ⟨cb, hcb, by simp [hct]⟩
        rw [this] at h7; cases h7

end

/-! Non-vacuity: `app(0) → lib(2), util(4)`, `lib → util` is ordered `util, lib, app` from every supply order;
`app → lib → app` and a self-dependency are rejected. -/
example : sortRepos [0, 2, 4] (fun i => if i = 0 then [2, 4, 9] else if i = 2 then [4] else []) = .ok [4, 2, 0] := by
  decide
example : sortRepos [4, 0, 2] (fun i => if i = 0 then [2, 4, 9] else if i = 2 then [4] else []) = .ok [4, 2, 0] := by
  decide
example : sortRepos [0, 2] (fun i => if i = 0 then [2] else [0]) = .error .valueError := by decide
example : sortRepos [3] (fun _ => [3]) = .error .valueError := by decide

/-! ## included_at at specification level on the parent side

`pinRb h comp gC e` is the reported build of the component that the version pinned in commit `e` names (through the
component's `bn_map`); `RbAnc gC x t` — the version `t` contains the component build `x`.  For the `j`-th branch `b`
of the parent (`rb` its result), under the property's quantifier for that branch:
* `hpin`  — every eligible commit of the branch (tagged or head, new in the branch) pins a version of the component
            that names a build known to the component's `bn_map`;
* `hmono` — along git ancestry the pinned version never decreases, read as containment. -/

section
variable (comps : List (Nat × Graph Bumps)) (h : Hist Pins) (hT : h.Topo) (hW : h.InWindow) (hcw : CompWindow comps h) (g : Graph Bumps)
variable (hgw : rgraph h (mkPlug comps) = .ok g)
variable (j : Nat) (b : Branch) (rb : RBranch Bumps)
variable (hb : (branchesOf h)[j]? = some b) (hrb : g.all[j]? = some rb)
variable (comp : Nat) (gC : Graph Bumps) (hcomp : ∀ g', (comp, g') ∈ comps → g' = gC) (hin : (comp, gC) ∈ comps)
variable (hpin : ∀ e', SpecBuild h ((branchesOf h).take j) b e' → ∃ t, pinRb h comp gC e' = some t)
variable (hmono : ∀ e1 e2, SpecBuild h ((branchesOf h).take j) b e1 → SpecBuild h ((branchesOf h).take j) b e2 →
  Anc h e1 e2 → ∀ t1 t2, pinRb h comp gC e1 = some t1 → pinRb h comp gC e2 = some t2 → RbAnc gC t1 t2)
include hT hW hcw hgw hb hrb hcomp hin hpin

/-- the bump of the component recorded in a reported build names the version pinned in the build's commit -/
theorem reported_bump (bx : RB Bumps) (hbx : bx ∈ rb.rbuilds) (ex : Nat) (hex : BuildAt g.rcs bx ex) :
    SpecBuild h ((branchesOf h).take j) b ex ∧
    ∃ bump t, bx.bumps.lookup comp = some bump ∧ bump.toRb = some t ∧ pinRb h comp gC ex = some t := by
  have hg := rgraph_nw hT hW hgw
  have hsem := ((rgraph_sem hT hg).2 j b rb hb hrb).1
  obtain ⟨_, rc0, hrc0, hspec, _⟩ := hsem.buildSpec bx hbx (by rw [hex.1]; rfl)
  obtain ⟨hrcm, rc1, hrc1, hce⟩ := hex
  rw [hrc0] at hrc1; cases hrc1
  rw [hce] at hspec
  refine ⟨hspec, ?_⟩
  obtain ⟨t, ht⟩ := hpin ex hspec
  have hbg : bx ∈ g.builds :=
    (rgraph_bumpsOk hT (RelInv.trivial _ _) hg).2 rb (List.mem_of_getElem? hrb) bx hbx (by rw [hrcm]; rfl)
  obtain ⟨rc, cm, pbs, h1, h2, _, rel, hrel, h4⟩ := (rgraph_bumpsOk hT (compWindow_full hcw) hg).1 bx hbg
  rw [mkPlug_mkBumps_full hrel] at h4
  rw [hrc0] at h1; cases h1
  rw [hce] at h2
  simp only [pinRb, h2] at ht
  cases hv : cm.pins.lookup comp with
  | none => rw [hv] at ht; cases ht
  | some v =>
    rw [hv] at ht
    obtain ⟨bump, h5, h6, _⟩ := bump_of_pin hcomp hin h4 hv ht
    refine ⟨bump, t, h5, h6, ?_⟩
    simp only [pinRb, h2, hv, ht]

/-- an eligible commit that is not reported pins the same component build as a reported build of the branch properly
below it (its bump is trivial) -/
theorem skipped_version (e' : Nat) (hspec' : SpecBuild h ((branchesOf h).take j) b e')
    (hnr : ¬ ∃ bx ∈ rb.rbuilds, BuildAt g.rcs bx e') (t' : Nat) (hpe' : pinRb h comp gC e' = some t') :
    ∃ pb ∈ rb.rbuilds, ∃ ep, BuildAt g.rcs pb ep ∧ ep ≠ e' ∧ Anc h ep e' ∧ pinRb h comp gC ep = some t' := by
  have hg := rgraph_nw hT hW hgw
  have hA := reported_bump comps h hT hW hcw g hgw j b rb hb hrb comp gC hcomp hin hpin
  rcases rgraph_skip hT (compWindow_full hcw) hg j b rb hb hrb e' hspec' with hrep | ⟨_, hsk⟩
  · exact absurd hrep hnr
  · have hrel : (comp, gC) ∈ sortBy (fun a b : Nat × Graph Bumps => decide (a.1 < b.1)) (relevantComps comps) := by
      apply (mem_sortBy _ _ _).mpr
      simp only [relevantComps, List.mem_filter]
      refine ⟨hin, ?_⟩
      have := pinRb_bnMap_ne hpe'
      cases hbm : gC.bnMapAll with
      | nil => exact absurd hbm this
      | cons y ys => simp
    rcases hsk with ⟨hrelf, _⟩ | ⟨cm', pbs, bumps, rel', hrel', hcm', _, hpbs, _, hmk, hnt⟩
    · have hemp := mkPlug_relInit_nil hrelf
      have := (mem_sortBy _ _ _).mp hrel
      rw [hemp] at this; cases this
    · simp only [pinRb, hcm'] at hpe'
      cases hv : cm'.pins.lookup comp with
      | none => rw [hv] at hpe'; cases hpe'
      | some v =>
        rw [hv] at hpe'
        rw [mkPlug_mkBumps_full hrel'] at hmk
        simp only [mkPlug] at hnt
        obtain ⟨bump', h3, h4, h5⟩ := bump_of_pin hcomp hin hmk hv hpe'
        have htriv : bump'.trivial = true := by
          cases hct : bump'.trivial with
          | true => rfl
          | false =>
            have : (bumps.any fun cb => !cb.2.trivial) = true :=
              List.any_eq_true.mpr ⟨(comp, bump'), lookup_some_mem h3, by simp [hct]⟩
            rw [this] at hnt; cases hnt
        simp only [Bump.trivial, h4] at htriv
        have hin' : t' ∈ bump'.fromRbs := by simpa using htriv
        rw [h5, mem_fromSet] at hin'
        obtain ⟨pbb, hpbb, b0, hb0, hcase⟩ := hin'
        obtain ⟨pb, hpb, rfl⟩ := List.mem_map.mp hpbb
        obtain ⟨⟨hpbr, hpbc⟩, rcp, hrcp, hnep, hancp⟩ := hpbs pb hpb
        have hbap : BuildAt g.rcs pb rcp.commit := ⟨hpbc, rcp, hrcp, rfl⟩
        obtain ⟨_, bumpp, tp, h6, h7, h8⟩ := hA pb hpbr rcp.commit hbap
        rw [hb0] at h6; cases h6
        rcases hcase with h9 | ⟨h9, _⟩
        · rw [h7] at h9; cases h9
          exact ⟨pb, hpbr, rcp.commit, hbap, hnep, hancp, h8⟩
        · rw [h7] at h9; cases h9

end

section
variable (comps : List (Nat × Graph Bumps)) (h : Hist Pins) (hT : h.Topo) (hW : h.InWindow) (hcw : CompWindow comps h) (g : Graph Bumps)
variable (hgw : rgraph h (mkPlug comps) = .ok g)
variable (j : Nat) (b : Branch) (rb : RBranch Bumps)
variable (hb : (branchesOf h)[j]? = some b) (hrb : g.all[j]? = some rb)
variable (comp : Nat) (gC : Graph Bumps) (hcomp : ∀ g', (comp, g') ∈ comps → g' = gC) (hin : (comp, gC) ∈ comps)
variable (hpin : ∀ e', SpecBuild h ((branchesOf h).take j) b e' → ∃ t, pinRb h comp gC e' = some t)
variable (hmono : ∀ e1 e2, SpecBuild h ((branchesOf h).take j) b e1 → SpecBuild h ((branchesOf h).take j) b e2 →
  Anc h e1 e2 → ∀ t1 t2, pinRb h comp gC e1 = some t1 → pinRb h comp gC e2 = some t2 → RbAnc gC t1 t2)
include hT hW hcw hgw hb hrb hcomp hin hpin hmono

/-- **partial** (C07.included_first + included_only_first, specification level on the parent side) — a reported
build `bd` of the branch, at commit `e`, registers the component build `x` exactly when the version pinned in `e`
contains `x` and the version pinned in no other eligible commit of the branch (tagged or head, new in the branch —
reported or not) that is a proper git ancestor of `e` contains it: `bd` is the first build of the branch that ships
`x`, and no later build registers it again.
Missing for the full statement: what `RbAnc gC` / the component's `bn_map` mean in the component's git history (the
component side: for one release line, containment of reported builds = git ancestry; `parent_builds_nearest` is the
main ingredient and holds for every repository, the `bn_map` part is not proved). -/
theorem included_first_spec_partial (bd : RB Bumps) (hbd : bd ∈ rb.rbuilds) (e : Nat) (hbe : BuildAt g.rcs bd e)
    (hbn : bd.bn ≠ fakeNM) (repo : Nat) (l : List Reg) (hl : regsOfBuild repo rb.name comp gC bd = .ok l) (x : Nat) :
    (⟨comp, x, repo, rb.name, bd.bn⟩ : Reg) ∈ l ↔
      ∃ t, pinRb h comp gC e = some t ∧ RbAnc gC x t ∧
        ∀ e', SpecBuild h ((branchesOf h).take j) b e' → e' ≠ e → Anc h e' e →
          ∀ t', pinRb h comp gC e' = some t' → ¬ RbAnc gC x t' := by
  have hg := rgraph_nw hT hW hgw
  have hrbm : rb ∈ g.all := List.mem_of_getElem? hrb
  have hA := reported_bump comps h hT hW hcw g hgw j b rb hb hrb comp gC hcomp hin hpin
  obtain ⟨hspece, bump, t, hb1, hb2, hpe⟩ := hA bd hbd e hbe
  -- the hypotheses of the theorem about reported builds
  have hpin' : ∀ bx ∈ rb.rbuilds, ∀ ex, BuildAt g.rcs bx ex →
      ∃ bump t, bx.bumps.lookup comp = some bump ∧ bump.toRb = some t := by
    intro bx hbx ex hex
    obtain ⟨_, bump', t', h1, h2, _⟩ := hA bx hbx ex hex
    exact ⟨bump', t', h1, h2⟩
  have hmono' : ∀ bp ∈ rb.rbuilds, ∀ bq ∈ rb.rbuilds, ∀ ep eq, BuildAt g.rcs bp ep → BuildAt g.rcs bq eq →
      Anc h ep eq → ∀ bumpp tp bumpq tq, bp.bumps.lookup comp = some bumpp → bumpp.toRb = some tp →
        bq.bumps.lookup comp = some bumpq → bumpq.toRb = some tq → RbAnc gC tp tq := by
    intro bp hbp bq hbq ep eq hep heq hanc bumpp tp bumpq tq h1 h2 h3 h4
    obtain ⟨hsp, bp', tp', h5, h6, h7⟩ := hA bp hbp ep hep
    obtain ⟨hsq, bq', tq', h8, h9, h10⟩ := hA bq hbq eq heq
    rw [h1] at h5; cases h5
    rw [h2] at h6; cases h6
    rw [h3] at h8; cases h8
    rw [h4] at h9; cases h9
    exact hmono ep eq hsp hsq hanc tp tq h7 h10
  rw [included_first_reported_partial comps h hT hW hcw g hgw rb hrbm comp gC hpin' hmono' bd hbd e hbe hbn bump t hb1 hb2
    repo l hl x]
  constructor
  · rintro ⟨h1, h2⟩
    refine ⟨t, hpe, h1, ?_⟩
    intro e' hspec' hne hanc t' hpe' hcontra
    -- `e'` is reported, or it pins the same build as a reported build below it
    classical
    by_cases hrep : ∃ bx ∈ rb.rbuilds, BuildAt g.rcs bx e'
    · obtain ⟨bx, hbx, hbex⟩ := hrep
      obtain ⟨_, bump', t'', h3, h4, h5⟩ := hA bx hbx e' hbex
      rw [hpe'] at h5; cases h5
      exact h2 bx hbx e' hbex hne hanc bump' t' h3 h4 hcontra
    · obtain ⟨pb, hpbr, ep, hbap, hnep, hancp, hpep⟩ :=
        skipped_version comps h hT hW hcw g hgw j b rb hb hrb comp gC hcomp hin hpin e' hspec' hrep t' hpe'
      obtain ⟨_, bumpp, tp, h6, h7, h8⟩ := hA pb hpbr ep hbap
      rw [hpep] at h8; cases h8
      have hlt1 := hancp.le hT
      have hlt2 := hanc.le hT
      refine h2 pb hpbr ep hbap ?_ (hancp.trans hanc) bumpp t' h6 h7 hcontra
      intro heq
      have : e' = e := by
        have h9 : e ≤ e' := by rw [← heq]; exact hlt1
        omega
      exact hne this
  · rintro ⟨t0, hpe0, h1, h2⟩
    rw [hpe] at hpe0; cases hpe0
    refine ⟨h1, ?_⟩
    intro bp hbp ep hbep hne hanc bumpp tp hp1 hp2
    obtain ⟨hsp, bump', t', h3, h4, h5⟩ := hA bp hbp ep hbep
    rw [hp1] at h3; cases h3
    rw [hp2] at h4; cases h4
    exact h2 ep hsp hne hanc tp h5

/-- **partial** (C07.included_first, existence) — if the version pinned in some eligible commit `e0` of the branch
contains the component build `x`, there is a *reported* build of the branch, at an eligible commit `e` below (or at)
`e0`, whose version contains `x` while no eligible commit properly below `e` does: the first build that ships `x` is
always reported (`bump_build_reported`), so by `included_first_spec_partial` `x` is registered there and only there.
Missing: as for `included_first_spec_partial`. -/
theorem included_first_exists_partial (x : Nat) : ∀ (e0 : Nat), SpecBuild h ((branchesOf h).take j) b e0 →
    ∀ t0, pinRb h comp gC e0 = some t0 → RbAnc gC x t0 →
    ∃ bd ∈ rb.rbuilds, ∃ e, BuildAt g.rcs bd e ∧ Anc h e e0 ∧ ∃ t, pinRb h comp gC e = some t ∧ RbAnc gC x t ∧
      ∀ e', SpecBuild h ((branchesOf h).take j) b e' → e' ≠ e → Anc h e' e →
        ∀ t', pinRb h comp gC e' = some t' → ¬ RbAnc gC x t' := by
  have hg := rgraph_nw hT hW hgw
  have hA := reported_bump comps h hT hW hcw g hgw j b rb hb hrb comp gC hcomp hin hpin
  intro e0
  induction e0 using Nat.strongRecOn with
  | _ e0 ih =>
    intro hspec0 t0 hp0 hx0
    classical
    by_cases hmin : ∀ e', SpecBuild h ((branchesOf h).take j) b e' → e' ≠ e0 → Anc h e' e0 →
        ∀ t', pinRb h comp gC e' = some t' → ¬ RbAnc gC x t'
    · -- `e0` is minimal: it must be reported
      by_cases hrep : ∃ bx ∈ rb.rbuilds, BuildAt g.rcs bx e0
      · obtain ⟨bx, hbx, hbex⟩ := hrep
        exact ⟨bx, hbx, e0, hbex, .refl _, t0, hp0, hx0, hmin⟩
      · exfalso
        obtain ⟨pb, hpbr, ep, hbap, hnep, hancp, hpep⟩ :=
          skipped_version comps h hT hW hcw g hgw j b rb hb hrb comp gC hcomp hin hpin e0 hspec0 hrep t0 hp0
        obtain ⟨hsp, _⟩ := hA pb hpbr ep hbap
        exact hmin ep hsp hnep hancp t0 hpep hx0
    · -- an eligible commit properly below contains `x` already: descend
      have : ∃ e', SpecBuild h ((branchesOf h).take j) b e' ∧ e' ≠ e0 ∧ Anc h e' e0 ∧
          ∃ t', pinRb h comp gC e' = some t' ∧ RbAnc gC x t' := by
        apply Classical.byContradiction
        intro hno
        apply hmin
        intro e' h1 h2 h3 t' h4 h5
        exact hno ⟨e', h1, h2, h3, t', h4, h5⟩
      obtain ⟨e', h1, h2, h3, t', h4, h5⟩ := this
      have hlt : e' < e0 := by
        have := h3.le hT
        rcases Nat.lt_or_ge e' e0 with h6 | h6
        · exact h6
        · exact absurd (by omega) h2
      obtain ⟨bd, hbd, e, h6, h7, h8⟩ := ih e' hlt h1 t' h4 h5
      exact ⟨bd, hbd, e, h6, h7.trans h3, h8⟩

end

/-! ## included_at in git terms, for a component release line

The component's history `hC` (graph `gC`), its `jC`-th branch `bC` (result `rbC`); the parent's history `h` (graph
`g`, built with the component graphs `comps ∋ (comp, gC)`), its `j`-th branch `b` (result `rb`). -/

/-- the eligible parent commit `e` pins the version of the component that is a build tag of the component commit
`cv` — a commit of the component branch `bC` (first read there) with a reported component build at or below it -/
def PinsTo (h hC : Hist Pins) (comp : Nat) (gC : Graph Bumps) (preC : List Branch) (bC : Branch)
    (rbC : RBranch Bumps) (e cv : Nat) : Prop :=
  ∃ cm v cmv, h.commits[e]? = some cm ∧ cm.pins.lookup comp = some v ∧ hC.commits[cv]? = some cmv ∧
    (⟨v.1, v.2.1, v.2.2, v.2.2⟩ : BN) ∈ cmv.tags ∧ SpecBuild hC preC bC cv ∧
    ∃ bt ∈ rbC.rbuilds, ∃ et, BuildAt gC.rcs bt et ∧ Anc hC et cv

section
variable (comps : List (Nat × Graph Bumps)) (h : Hist Pins) (hT : h.Topo) (hW : h.InWindow) (hcw : CompWindow comps h) (g : Graph Bumps)
variable (hgw : rgraph h (mkPlug comps) = .ok g)
variable (j : Nat) (b : Branch) (rb : RBranch Bumps)
variable (hb : (branchesOf h)[j]? = some b) (hrb : g.all[j]? = some rb)
variable (comp : Nat) (gC : Graph Bumps) (hcomp : ∀ g', (comp, g') ∈ comps → g' = gC) (hin : (comp, gC) ∈ comps)
variable (hC : Hist Pins) (hTC : hC.Topo) (huC : TagsUnique hC) (plC : Plug Pins Bumps)
variable (hWC : hC.InWindow) (hgCw : rgraph hC plC = .ok gC) (hlenC : gC.rcs.length ≤ Gen.Ghist.fakeStart)
variable (jC : Nat) (bC : Branch) (rbC : RBranch Bumps)
variable (hbC : (branchesOf hC)[jC]? = some bC) (hrbC : gC.all[jC]? = some rbC)
variable (hpins : ∀ e', SpecBuild h ((branchesOf h).take j) b e' →
  ∃ cv, PinsTo h hC comp gC ((branchesOf hC).take jC) bC rbC e' cv)
variable (hmonoC : ∀ e1 e2, SpecBuild h ((branchesOf h).take j) b e1 → SpecBuild h ((branchesOf h).take j) b e2 →
  Anc h e1 e2 → ∀ cv1 cv2, PinsTo h hC comp gC ((branchesOf hC).take jC) bC rbC e1 cv1 →
    PinsTo h hC comp gC ((branchesOf hC).take jC) bC rbC e2 cv2 → Anc hC cv1 cv2)
include hT hW hcw hgw hb hrb hcomp hin hTC huC hWC hgCw hlenC hbC hrbC hpins hmonoC

/-- **partial** (C07.included_first + included_only_first in git terms, one component release line) — a reported
build `bd` of the parent branch, at commit `e` which pins the component version tagged on component commit `cv`,
has the reported component build at commit `ex` (same component branch) in its registrations exactly when `ex` is a
git ancestor of (or equal to) `cv` and of no component commit pinned by an eligible parent commit properly below `e`:
the component build is recorded at exactly the first build of the parent branch whose pinned version contains it.
Hypotheses = the property's quantifier for this branch pair: every eligible parent commit pins a build tag of a
commit of the component branch that has a reported build at or below it (`hpins`), the pinned commit never goes back
along git ancestry (`hmonoC`), component build numbers are unique to their commits (`huC`), fewer than 10^9 report
commits (`hlenC`).
Missing for the full statement: pins into several component release lines (the code links component builds inside
one branch only — the case the statement does not spell out), and eligible parent commits whose pinned version
contains no reported component build at all. -/
theorem included_first_git_partial (bd : RB Bumps) (hbd : bd ∈ rb.rbuilds) (e : Nat) (hbe : BuildAt g.rcs bd e)
    (hbn : bd.bn ≠ fakeNM) (cv : Nat) (hpe : PinsTo h hC comp gC ((branchesOf hC).take jC) bC rbC e cv)
    (bx : RB Bumps) (hbx : bx ∈ rbC.rbuilds) (ex : Nat) (hex : BuildAt gC.rcs bx ex)
    (repo : Nat) (l : List Reg) (hl : regsOfBuild repo rb.name comp gC bd = .ok l) :
    (⟨comp, bx.iid, repo, rb.name, bd.bn⟩ : Reg) ∈ l ↔
      Anc hC ex cv ∧ ∀ e', SpecBuild h ((branchesOf h).take j) b e' → e' ≠ e → Anc h e' e →
        ∀ cv', PinsTo h hC comp gC ((branchesOf hC).take jC) bC rbC e' cv' → ¬ Anc hC ex cv' := by
  have hg := rgraph_nw hT hW hgw
  have hgC := rgraph_nw hTC hWC hgCw
  -- what a pin means for `pinRb`
  have hpinrb : ∀ e' cv', PinsTo h hC comp gC ((branchesOf hC).take jC) bC rbC e' cv' →
      ∃ t, pinRb h comp gC e' = some t ∧
        (∀ by' ∈ rbC.rbuilds, ∀ ey, BuildAt gC.rcs by' ey → (RbAnc gC by'.iid t ↔ Anc hC ey cv')) ∧
        ∃ bi ∈ rbC.rbuilds, bi.iid = t ∧ ∃ ei, BuildAt gC.rcs bi ei ∧ Anc hC ei cv' := by
    rintro e' cv' ⟨cm, v, cmv, h1, h2, h3, h4, h5, bt, hbt, et, hbet, hanc⟩
    obtain ⟨en, hen, _⟩ := (version_contains_iff hTC huC hgC hlenC hbC hrbC h3 h4 h5 hbt hbet).mpr hanc
    refine ⟨en.2, by simp [pinRb, h1, h2, hen], ?_, version_build hTC huC hgC hbC hrbC h3 h4 h5 hen⟩
    intro by' hby ey hbey
    rw [← version_contains_iff hTC huC hgC hlenC hbC hrbC h3 h4 h5 hby hbey]
    constructor
    · intro hr; exact ⟨en, hen, hr⟩
    · rintro ⟨en', hen', hr⟩; rw [hen] at hen'; cases hen'; exact hr
  have hpin : ∀ e', SpecBuild h ((branchesOf h).take j) b e' → ∃ t, pinRb h comp gC e' = some t := by
    intro e' hs
    obtain ⟨cv', hp⟩ := hpins e' hs
    obtain ⟨t, ht, _⟩ := hpinrb e' cv' hp
    exact ⟨t, ht⟩
  have hmono : ∀ e1 e2, SpecBuild h ((branchesOf h).take j) b e1 → SpecBuild h ((branchesOf h).take j) b e2 →
      Anc h e1 e2 → ∀ t1 t2, pinRb h comp gC e1 = some t1 → pinRb h comp gC e2 = some t2 → RbAnc gC t1 t2 := by
    intro e1 e2 hs1 hs2 hanc t1 t2 ht1 ht2
    obtain ⟨cv1, hp1⟩ := hpins e1 hs1
    obtain ⟨cv2, hp2⟩ := hpins e2 hs2
    obtain ⟨t1', h1, _, bi, hbi, hbit, ei, hbei, hei⟩ := hpinrb e1 cv1 hp1
    obtain ⟨t2', h2, hiff2, _⟩ := hpinrb e2 cv2 hp2
    rw [ht1] at h1; cases h1
    rw [ht2] at h2; cases h2
    rw [← hbit]
    exact (hiff2 bi hbi ei hbei).mpr (hei.trans (hmonoC e1 e2 hs1 hs2 hanc cv1 cv2 hp1 hp2))
  rw [included_first_spec_partial comps h hT hW hcw g hgw j b rb hb hrb comp gC hcomp hin hpin hmono bd hbd e hbe hbn
    repo l hl bx.iid]
  obtain ⟨t, ht, hifft, _⟩ := hpinrb e cv hpe
  constructor
  · rintro ⟨t0, ht0, h1, h2⟩
    rw [ht] at ht0; cases ht0
    refine ⟨(hifft bx hbx ex hex).mp h1, ?_⟩
    intro e' hs' hne hanc cv' hp' hcontra
    obtain ⟨t', ht', hifft', _⟩ := hpinrb e' cv' hp'
    exact h2 e' hs' hne hanc t' ht' ((hifft' bx hbx ex hex).mpr hcontra)
  · rintro ⟨h1, h2⟩
    refine ⟨t, ht, (hifft bx hbx ex hex).mpr h1, ?_⟩
    intro e' hs' hne hanc t' ht' hcontra
    obtain ⟨cv', hp'⟩ := hpins e' hs'
    obtain ⟨t'', ht'', hifft', _⟩ := hpinrb e' cv' hp'
    rw [ht'] at ht''; cases ht''
    exact h2 e' hs' hne hanc cv' hp' ((hifft' bx hbx ex hex).mp hcontra)

end

/-! ## totality of the multi-repository analysis -/

/-- **C07.analysis_total** — `ReposCollection.make_reports_data` either raises the `ValueError` of a dependency cycle or
returns its reports and `included_at` registrations: for repositories with different ids, histories numbered in
topological order, refs that point to existing commits and at most 10^9 commits per repository, none of the code's
`KeyError` / `AttributeError` / `TypeError` / assertions is reachable and no fuel runs out — whatever the commit
times, the pinned versions (known to the component or not) and the shapes of the build graphs are. -/
theorem analysis_total (repos : List RepoIn) (hnd : (repos.map (·.id)).Nodup)
    (hT : ∀ r ∈ repos, r.hist.Topo)
    (hrefs : ∀ r ∈ repos, ∀ ref ∈ r.hist.refs, ref.2 < r.hist.commits.length)
    (hlen : ∀ r ∈ repos, r.hist.commits.length ≤ Gen.Ghist.fakeStart) :
    (∃ res, analyse repos = .ok res) ∨
    (analyse repos = .error .valueError ∧ Cyclic (repos.map (·.id)) (depsOf repos)) := by
  unfold analyse
  rcases sortRepos_spec (ids := repos.map (·.id)) (deps := depsOf repos) hnd with ⟨l, h1, hp, _⟩ | ⟨h1, hc⟩
  · left
    simp only [h1]
    refine analyseAll_total repos hT hrefs hlen l [] [] ?_ (hp.nodup_iff.mpr hnd) (by simp) ⟨by simp, by simp⟩
    intro i hi
    obtain ⟨r, hr, hri⟩ := List.mem_map.mp (hp.mem_iff.mp hi)
    exact ⟨r, hr, hri⟩
  · right
    rw [h1]
    exact ⟨rfl, hc⟩

/-! Non-vacuity of the included_at part: a component whose history has a diamond of reported builds
(10.20.1 ← 10.20.2, 10.20.3 ← 10.20.4; report commits numbered 0, 2, 1, 3 by the DFS) and a parent that pins 10.20.2
at build 5.1.1 and 10.20.4 at build 5.1.2: the first build ships 10.20.1 and 10.20.2, the second one only what is
new (10.20.3, 10.20.4) — the diamond does not make 10.20.1 appear again. -/
def exLib : Hist Pins :=
  { commits := [⟨[], [⟨10, 20, 1, 1⟩], true, [], 0⟩, ⟨[0], [⟨10, 20, 2, 2⟩], true, [], 0⟩, ⟨[0], [⟨10, 20, 3, 3⟩], true, [], 0⟩,
                ⟨[1, 2], [⟨10, 20, 4, 4⟩], false, [], 0⟩],
    remote := "origin".toList, refs := [("origin/release/10.20".toList, 3)] }

def exApp : Hist Pins :=
  { commits := [⟨[], [⟨5, 1, 1, 1⟩], false, [(2, (10, 20, 2))], 0⟩, ⟨[0], [⟨5, 1, 2, 2⟩], false, [(2, (10, 20, 4))], 0⟩],
    remote := "origin".toList, refs := [("origin/release/5.1".toList, 1)] }

example : (analyse [⟨0, [2], exApp⟩, ⟨2, [], exLib⟩]).map (fun r => (r.1.map (·.id), r.2)) = .ok ([2, 0],
    [⟨2, 0, 0, "release/5.1".toList, ⟨5, 1, 1, 1⟩⟩, ⟨2, 2, 0, "release/5.1".toList, ⟨5, 1, 1, 1⟩⟩,
     ⟨2, 1, 0, "release/5.1".toList, ⟨5, 1, 2, 2⟩⟩, ⟨2, 3, 0, "release/5.1".toList, ⟨5, 1, 2, 2⟩⟩]) := by
  decide +kernel

/-- the hypotheses of `included_first_spec_partial` on this example: both eligible commits of the parent branch pin a
version known to the component's `bn_map` (builds 2 and 3 of the component), and build 3 has build 2 among its parent
builds (so the later pin contains the earlier one) -/
example : (rgraph exLib (mkPlug [])).map (fun g =>
    (pinRb exApp 2 g 0, pinRb exApp 2 g 1, (g.findBuild 3).map (·.parents))) = .ok (some 2, some 3, some [1, 2]) := by
  decide +kernel

end C07
