import AkVerif.Lemmas.GhistRepos
/-!
# C07 — component builds are reported at the first parent build that ships them

Property theorems only, about the functions the driver `Drv/C07.lean` executes (`Ghist.sortRepos`,
`Ghist.analyse`).  Repositories are natural numbers (ranks of the names in `sorted()` order); `deps a` are the
keys of `_COMPONENTS_VERSIONS_LOCATIONS` of repository `a` — components that are not among the supplied
repositories are ignored (`Edge` asks for `b ∈ ids`).
-/
namespace C07
open Ghist Ak

/-- **C07.repo_order** — repositories are analysed components first: the order returned is a permutation of the
supplied repositories in which every component of a repository stands strictly before it. -/
theorem repo_order (ids : List Nat) (deps : Nat → List Nat) (hnd : ids.Nodup) (l : List Nat)
    (h : sortRepos ids deps = .ok l) :
    l.Perm ids ∧ ∀ (l1 l2 : List Nat) (a : Nat), l = l1 ++ a :: l2 → ∀ b, b ∈ deps a → b ∈ ids → b ∈ l1 := by
  rcases sortRepos_spec (ids := ids) (deps := deps) hnd with ⟨l', h1, h2, h3⟩ | ⟨h1, _⟩
  · rw [h] at h1; cases h1
    exact ⟨h2, fun l1 l2 a hl b hb hbi => topoR_reverse_split l h3 l1 l2 a hl b ⟨hb, hbi⟩⟩
  · rw [h] at h1; cases h1

/-- … whatever order they were supplied in: the result depends only on the set of repositories -/
theorem repo_order_independent (ids ids' : List Nat) (deps : Nat → List Nat) (hp : ids.Perm ids') :
    sortRepos ids deps = sortRepos ids' deps := sortRepos_perm hp

/-- **C07.cycle_rejected** — `ValueError` is raised exactly when the dependency graph restricted to the supplied
repositories has a cycle (a repository listing itself included) … -/
theorem cycle_rejected (ids : List Nat) (deps : Nat → List Nat) (hnd : ids.Nodup) :
    sortRepos ids deps = .error .valueError ↔ Cyclic ids deps := by
  constructor
  · intro h
    rcases sortRepos_spec (ids := ids) (deps := deps) hnd with ⟨l', h1, _, _⟩ | ⟨_, hc⟩
    · rw [h] at h1; cases h1
    · exact hc
  · intro ⟨a, hp⟩
    rcases sortRepos_spec (ids := ids) (deps := deps) hnd with ⟨l', _, h2, h3⟩ | ⟨h1, _⟩
    · exfalso
      have ha : a ∈ ids := by
        cases hp with
        | one e => -- a → a
          exact e.2
        | cons e hp' =>
          -- the path comes back to `a`, so its last edge ends in `a`
          have : ∀ {x y : Nat}, DPath ids deps x y → y ∈ ids := by
            intro x y h; induction h with
            | one e => exact e.2
            | cons _ _ ih => exact ih
          exact this hp'
      have hal : a ∈ l'.reverse := List.mem_reverse.mpr (h2.mem_iff.mpr ha)
      have hnd' : l'.reverse.Nodup := (List.reverse_perm l').nodup_iff.mpr (h2.nodup_iff.mpr hnd)
      exact TopoR.acyclic h3 hnd' a hal hp
    · exact h1

/-- … and nothing else can go wrong: the ordering returns a list or raises `ValueError` (the DFS never runs out of
fuel, no other exception) -/
theorem repo_order_total (ids : List Nat) (deps : Nat → List Nat) (hnd : ids.Nodup) :
    (∃ l, sortRepos ids deps = .ok l) ∨ sortRepos ids deps = .error .valueError := by
  rcases sortRepos_spec (ids := ids) (deps := deps) hnd with ⟨l', h1, _, _⟩ | ⟨h1, _⟩
  · exact Or.inl ⟨l', h1⟩
  · exact Or.inr h1

/-! Non-vacuity: `app(0) → lib(2), util(4)`, `lib → util` is ordered `util, lib, app` from every supply order;
`app → lib → app` and a self-dependency are rejected. -/
example : sortRepos [0, 2, 4] (fun i => if i = 0 then [2, 4, 9] else if i = 2 then [4] else []) = .ok [4, 2, 0] := by
  decide
example : sortRepos [4, 0, 2] (fun i => if i = 0 then [2, 4, 9] else if i = 2 then [4] else []) = .ok [4, 2, 0] := by
  decide
example : sortRepos [0, 2] (fun i => if i = 0 then [2] else [0]) = .error .valueError := by decide
example : sortRepos [3] (fun _ => [3]) = .error .valueError := by decide

end C07
