import AkVerif.Lemmas.GhistRepos
import AkVerif.Lemmas.GhistElig
import AkVerif.Lemmas.GhistReport
import AkVerif.Lemmas.GhistPar
import AkVerif.Lemmas.GhistIncl
import AkVerif.Lemmas.GhistBnAll
import AkVerif.Lemmas.GhistWindow
import AkVerif.Lemmas.GhistPlugTotal
import AkVerif.Lemmas.GhistInclSpec
import AkVerif.Lemmas.GhistExample
import AkVerif.Lemmas.GhistPending
import AkVerif.Model.GhistTags
/-!
# C07 — component builds are reported at the first parent build that ships them

Property theorems only, about the functions the driver `Drv/C07.lean` executes (`Ghist.sortRepos`,
`Ghist.analyse`).  Repositories are natural numbers (ranks of the names in `sorted()` order); `deps a` are the
keys of `_COMPONENTS_VERSIONS_LOCATIONS` of repository `a` — components that are not among the supplied
repositories are ignored (`Edge` asks for `b ∈ ids`).
-/
namespace C07
open Ghist Ghist.Incl Ghist.Ex Ak

/-- **C07.repo_order** — repositories are analysed components first: the order returned is a permutation of the
supplied repositories in which every component of a repository stands strictly before it. -/
theorem repo_order (ids : List Nat) (deps : Nat → List Nat) (hnd : ids.Nodup) (l : List Nat)
    (h : sortRepos ids deps = .ok l) :
    l.Perm ids ∧ ∀ (l1 l2 : List Nat) (a : Nat), l = l1 ++ a :: l2 → ∀ b, b ∈ deps a → b ∈ ids → b ∈ l1 := by
  rcases sortRepos_spec (ids := ids) (deps := deps) hnd with ⟨l', h1, h2, h3⟩ | ⟨h1, _⟩
  · rw [h] at h1; cases h1
    exact ⟨h2, fun l1 l2 a hl b hb hbi => topoR_reverse_split l h3 l1 l2 a hl b ⟨hb, hbi⟩⟩
  · rw [h] at h1; cases h1

/-- … whatever order they were supplied in: the result depends only on the set of repositories -/
theorem repo_order_independent (ids ids' : List Nat) (deps : Nat → List Nat) (hp : ids.Perm ids') :
    sortRepos ids deps = sortRepos ids' deps := sortRepos_perm hp

/-- **C07.cycle_rejected** — `ValueError` is raised exactly when the dependency graph restricted to the supplied
repositories has a cycle (a repository listing itself included) … -/
theorem cycle_rejected (ids : List Nat) (deps : Nat → List Nat) (hnd : ids.Nodup) :
    sortRepos ids deps = .error .valueError ↔ Cyclic ids deps := by
  constructor
  · intro h
    rcases sortRepos_spec (ids := ids) (deps := deps) hnd with ⟨l', h1, _, _⟩ | ⟨_, hc⟩
    · rw [h] at h1; cases h1
    · exact hc
  · intro ⟨a, hp⟩
    rcases sortRepos_spec (ids := ids) (deps := deps) hnd with ⟨l', _, h2, h3⟩ | ⟨h1, _⟩
    · exfalso
      have ha : a ∈ ids := by
        cases hp with
        | one e => -- a → a
          exact e.2
        | cons e hp' =>
          -- the path comes back to `a`, so its last edge ends in `a`
          have : ∀ {x y : Nat}, DPath ids deps x y → y ∈ ids := by
            intro x y h; induction h with
            | one e => exact e.2
            | cons _ _ ih => exact ih
          exact this hp'
      have hal : a ∈ l'.reverse := List.mem_reverse.mpr (h2.mem_iff.mpr ha)
      have hnd' : l'.reverse.Nodup := (List.reverse_perm l').nodup_iff.mpr (h2.nodup_iff.mpr hnd)
      exact TopoR.acyclic h3 hnd' a hal hp
    · exact h1

/-- … and nothing else can go wrong: the ordering returns a list or raises `ValueError` (the DFS never runs out of
fuel, no other exception) -/
theorem repo_order_total (ids : List Nat) (deps : Nat → List Nat) (hnd : ids.Nodup) :
    (∃ l, sortRepos ids deps = .ok l) ∨ sortRepos ids deps = .error .valueError := by
  rcases sortRepos_spec (ids := ids) (deps := deps) hnd with ⟨l', h1, _, _⟩ | ⟨h1, _⟩
  · exact Or.inl ⟨l', h1⟩
  · exact Or.inr h1

/-! ## included_at and bumps

`comps` are the graphs of the component repositories handed to the analysis of a parent repository with history
`h`; `g` is the parent's graph, `regs` the `included_at` entries it registers in the builds of its components.
`RbAnc gC x t` — in the component's graph `gC` the build `t` is `x` or has `x` among the builds reachable through
parent builds: *the version `t` contains the build `x`* (containment relative to the component's report graph; that
this graph mirrors git ancestry inside one release line is C06's subject and is not re-proved here). -/

/-- **partial** (C07.included_first) — the registration loop records a component build `x` as included at
(parent, branch, build number) exactly for the reported builds `b` of that branch whose bump of the component has a
new version `t` that contains `x` while none of the previous versions `f ∈ from_rbuilds` — the versions contained in
the parent builds of `b`, see `bumps_recorded` — contains it.  This holds for every shape of the component's build
graph (after the repair 88b742a).
Missing for the full statement: (1) that the parent builds `RB.parents` found by `_find_new_rcommits_in_build` are
the nearest reported builds below `b` in git ancestry, so that "previous versions" = "versions pinned by the earlier
builds of the branch"; (2) that `bn_map` sends a pinned version to the latest reported component build it contains. -/
theorem included_first_partial (comps : List (Nat × Graph Bumps)) (repo : Nat) (g : Graph Bumps) (regs : List Reg)
    (hregs : registrations repo comps g = .ok regs) (r : Reg) :
    r ∈ regs ↔ ∃ rb ∈ g.branches, ∃ cg ∈ comps, ∃ b ∈ rb.rbuilds, b.bn ≠ fakeNM ∧
      ∃ bump t, b.bumps.lookup cg.1 = some bump ∧ bump.toRb = some t ∧
        RbAnc cg.2 r.iid t ∧ (∀ f ∈ bump.fromRbs, ¬ RbAnc cg.2 r.iid f) ∧
        r = ⟨cg.1, r.iid, repo, rb.name, b.bn⟩ := by
  rw [mem_registrations hregs r]
  constructor
  · rintro ⟨rb, hrb, cg, hcg, b, hb, l, hl, hrl⟩
    have hshape : r = ⟨cg.1, r.iid, repo, rb.name, b.bn⟩ := by
      unfold regsOfBuild at hl
      split at hl
      · cases hl; cases hrl
      · split at hl
        · cases hl; cases hrl
        · split at hl
          · cases hl
          · cases hl
            obtain ⟨x, _, rfl⟩ := List.mem_map.mp hrl
            rfl
    rw [hshape] at hrl
    obtain ⟨hnm, bump, t, h1, h2, h3, h4⟩ := (regsOfBuild_mem hl r.iid).mp hrl
    exact ⟨rb, hrb, cg, hcg, b, hb, hnm, bump, t, h1, h2, h3, h4, hshape⟩
  · rintro ⟨rb, hrb, cg, hcg, b, hb, hnm, bump, t, h1, h2, h3, h4, hshape⟩
    -- the registration of this build does not fail: it is part of a successful run
    have hok : ∃ l, regsOfBuild repo rb.name cg.1 cg.2 b = .ok l := by
      unfold registrations at hregs
      cases hx : regsOfBuild repo rb.name cg.1 cg.2 b with
      | ok l => exact ⟨l, rfl⟩
      | error e =>
        exfalso
        have hmem : regsOfBuild repo rb.name cg.1 cg.2 b ∈ (g.branches.flatMap fun rb =>
            comps.flatMap fun cg => (sortBy (fun a b : RB Bumps => a.iid < b.iid) rb.rbuilds).map fun b =>
              regsOfBuild repo rb.name cg.1 cg.2 b) := by
          simp only [List.mem_flatMap, List.mem_map]
          exact ⟨rb, hrb, cg, hcg, b, (mem_sortBy _ _ _).mpr hb, rfl⟩
        rw [hx] at hmem
        have : ∀ (l : List (Except Err (List Reg))) (e : Err), .error e ∈ l → ∀ out, concatM l ≠ .ok out := by
          intro l
          induction l with
          | nil => intro e he; cases he
          | cons a l ih =>
            intro e he out hc
            simp only [concatM] at hc
            rcases List.mem_cons.mp he with h5 | h5
            · subst h5; simp at hc
            · cases a with
              | error e' => simp at hc
              | ok xs =>
                cases hcl : concatM l with
                | error e' => rw [hcl] at hc; simp at hc
                | ok ys => exact ih e h5 ys hcl
        exact this _ e hmem regs hregs
    obtain ⟨l, hl⟩ := hok
    refine ⟨rb, hrb, cg, hcg, b, hb, l, hl, ?_⟩
    rw [hshape]
    exact (regsOfBuild_mem hl r.iid).mpr ⟨hnm, bump, t, h1, h2, h3, h4⟩

section
variable (comps : List (Nat × Graph Bumps)) (h : Hist Pins) (hT : h.Topo) (hW : h.InWindow) (hcw : CompWindow comps h) (g : Graph Bumps)
variable (hgw : rgraph h (mkPlug comps) = .ok g)
include hT hW hcw hgw

/-- the bumps stored in a build are the ones `_mk_bumps_info` computes from the pins of the build's commit and the
bumps of its parent builds: for each component, `from_rbuilds` are the component builds the parent builds contain
(their `to_rbuild`, or their own `from_rbuilds` when they pin an unknown version), `to_buildnum` is the pinned version
and `to_rbuild` its entry in the component's `bn_map` — or, for a version unknown there, the newest build in
`from_rbuilds` -/
theorem bumps_recorded :
    ∀ b ∈ g.builds, ∃ rc cm pbs, g.rcs[b.iid]? = some rc ∧ h.commits[rc.commit]? = some cm ∧
      Resolved g.builds b.parents pbs ∧
      ∀ comp bump, (comp, bump) ∈ b.bumps → ∃ gC v, (comp, gC) ∈ relevantComps comps ∧
        cm.pins.lookup comp = some v ∧ bump.toBn = ⟨v.1, v.2.1, v.2.2, v.2.2⟩ ∧
        (∀ x, x ∈ bump.fromRbs ↔ ∃ pb ∈ pbs, ∃ b0, pb.bumps.lookup comp = some b0 ∧
          (b0.toRb = some x ∨ (b0.toRb = none ∧ x ∈ b0.fromRbs))) ∧
        ((∃ e, gC.bnMapAll.lookup bump.toBn = some e ∧ bump.toRb = some e.2) ∨
         (gC.bnMapAll.lookup bump.toBn = none ∧
           ((bump.fromRbs = [] ∧ bump.toRb = none) ∨ ∃ m, maxOf bump.fromRbs = some m ∧ bump.toRb = some m))) := by
  apply Ghist.Incl.bumps_recorded <;> assumption

/-- the version pinned by a parent build is one of the previous versions (`from_rbuilds`) of the build -/
theorem parent_version_in_from (b1 b2 : RB Bumps) (hb1 : b1 ∈ g.builds) (hb2 : b2 ∈ g.builds)
    (hpar : b1.iid ∈ b2.parents) (comp : Nat) (bump1 bump2 : Bump) (t1 : Nat)
    (h1 : b1.bumps.lookup comp = some bump1) (ht1 : bump1.toRb = some t1)
    (h2 : b2.bumps.lookup comp = some bump2) : t1 ∈ bump2.fromRbs := by
  exact Ghist.Incl.parent_version_in_from comps h hT hW hcw g hgw b1 b2 hb1 hb2 hpar comp bump1 bump2 t1 h1 ht1 h2

/-- **partial** (C07.included_only_first) — "and at no other parent build": a component build contained in the
version pinned by a build `b1` is not registered again by any build `b2` above `b1` along parent builds.
Hypotheses (the property's quantifier, stated on the recorded bumps): every build of the parent pins a version of the
component known to its `bn_map` (`hpin`), and the pinned version never decreases along a path, read as containment —
the new version contains every previous version (`hmono`).
Missing: (1), (2) of `included_first_partial`, to identify "above along parent builds" with "later build of the branch
in git ancestry". -/
theorem included_only_first_partial (comp : Nat) (gC : Graph Bumps)
    (hpin : ∀ b ∈ g.builds, ∃ bump t, b.bumps.lookup comp = some bump ∧ bump.toRb = some t)
    (hmono : ∀ b ∈ g.builds, ∀ bump t, b.bumps.lookup comp = some bump → bump.toRb = some t →
      ∀ f ∈ bump.fromRbs, RbAnc gC f t)
    (b1 b2 : RB Bumps) (hch : BuildChain g.builds b1 b2) (bump1 : Bump) (t1 : Nat)
    (h1 : b1.bumps.lookup comp = some bump1) (ht1 : bump1.toRb = some t1)
    (repo : Nat) (name : List Char) (l : List Reg)
    (hl : regsOfBuild repo name comp gC b2 = .ok l) (x : Nat) (hx : RbAnc gC x t1) :
    (⟨comp, x, repo, name, b2.bn⟩ : Reg) ∉ l := by
  apply Ghist.Incl.included_only_first_partial <;> assumption

/-- the parent builds recorded in a build are the nearest builds of the same branch below it in git ancestry
(this is (1) of `included_first_partial`, proved for every history) -/
theorem parent_builds_nearest : ∀ rb ∈ g.all, BrPar h g.rcs rb := by
  apply Ghist.Incl.parent_builds_nearest <;> assumption

/-- **partial** (C07.included_first / included_only_first, spec level on the parent side) — for a reported build
`bd` of a parent branch, at commit `e`, whose pinned version of the component is `t`: a component build `x` is
registered at `bd` exactly when `t` contains `x` and no *reported* build of the branch that is a proper git ancestor
of `e` pins a version that contains `x` — `bd` is the first reported build of the branch that ships `x`.
Hypotheses (the quantifier): every reported build of the branch pins a version of the component that is known to its
`bn_map` (`hpin`), and along git ancestry the pinned version never decreases, read as containment (`hmono`).
Missing for the full statement: eligible commits that are *not* reported (they have trivial bumps, see
`bump_build_reported_partial`, so their version is the one of the nearest reported build below — not yet carried to
this theorem), and the meaning of `RbAnc` / `bn_map` in terms of the component's git history. -/
theorem included_first_reported_partial (rb : RBranch Bumps) (hrb : rb ∈ g.all) (comp : Nat) (gC : Graph Bumps)
    (hpin : ∀ bx ∈ rb.rbuilds, ∀ ex, BuildAt g.rcs bx ex →
      ∃ bump, bx.bumps.lookup comp = some bump ∧ ((∃ t, bump.toRb = some t) ∨ (bump.toRb = none ∧ bump.fromRbs = [])))
    (hmono : ∀ bp ∈ rb.rbuilds, ∀ bq ∈ rb.rbuilds, ∀ ep eq, BuildAt g.rcs bp ep → BuildAt g.rcs bq eq →
      Anc h ep eq → ∀ bumpp tp, bp.bumps.lookup comp = some bumpp → bumpp.toRb = some tp →
        ∃ bumpq tq, bq.bumps.lookup comp = some bumpq ∧ bumpq.toRb = some tq ∧ RbAnc gC tp tq)
    (bd : RB Bumps) (hbd : bd ∈ rb.rbuilds) (e : Nat) (hbe : BuildAt g.rcs bd e) (hbn : bd.bn ≠ fakeNM)
    (bump : Bump) (t : Nat) (hb1 : bd.bumps.lookup comp = some bump) (hb2 : bump.toRb = some t)
    (repo : Nat) (l : List Reg) (hl : regsOfBuild repo rb.name comp gC bd = .ok l) (x : Nat) :
    (⟨comp, x, repo, rb.name, bd.bn⟩ : Reg) ∈ l ↔
      RbAnc gC x t ∧ ∀ bp ∈ rb.rbuilds, ∀ ep, BuildAt g.rcs bp ep → ep ≠ e → Anc h ep e →
        ∀ bumpp tp, bp.bumps.lookup comp = some bumpp → bumpp.toRb = some tp → ¬ RbAnc gC x tp := by
  apply Ghist.Incl.included_first_reported_partial <;> assumption

/-- **partial** (C07.bump_build_reported) — every eligible commit of a branch (tagged or head, reachable from the
head, not part of a lower-sorted branch) is a build of the branch in the report, unless it does not match and all the
bumps computed for it — from its pins and the bumps of the at most one parent build found — are trivial (the pinned
version's latest reported build is the one the parent build already contains): a parent build whose pin moves
across report-related component builds is reported even without a matching commit of its own.
Missing: (1) of `included_first_partial` — that the parent build found is the nearest reported build below. -/
theorem bump_build_reported_partial (j : Nat) (b : Branch) (rb : RBranch Bumps)
    (hb : (branchesOf h)[j]? = some b) (hrb : g.all[j]? = some rb) (e : Nat)
    (he : SpecBuild h ((branchesOf h).take j) b e) :
    (∃ bd ∈ rb.rbuilds, bd.rcommit = some bd.iid ∧ ∃ rc, g.rcs[bd.iid]? = some rc ∧ rc.commit = e) ∨
    (h.isMatch e = false ∧
      (relevantComps comps = [] ∨
       ∃ (cm : Commit Pins) (pbs : List (RB Bumps)) (bumps : Bumps), h.commits[e]? = some cm ∧ pbs.length ≤ 1 ∧
         (∀ pb ∈ pbs, pb ∈ g.builds) ∧
         mkBumps (sortBy (fun a b => a.1 < b.1) (relevantComps comps)) cm.pins (pbs.map (·.bumps)) = .ok bumps ∧
         ∀ cb ∈ bumps, cb.2.trivial = true)) := by
  apply Ghist.Incl.bump_build_reported_partial <;> assumption

end

/-! ## included_at at specification level on the parent side

`pinRb h comp gC e` is the reported build of the component that the version pinned in commit `e` names (through the
component's `bn_map`), `none` when the version names nothing there — it contains no reported build of the component,
or is not a version of the component at all; `RbAnc gC x t` — the version `t` contains the component build `x`.  For
the `j`-th branch `b` of the parent (`rb` its result), under the property's quantifier for that branch:
* `hne`   — the component has reported builds (a non-empty `bn_map`);
* `hpinv` — every eligible commit of the branch (tagged or head, new in the branch) pins some version of the component;
* `hmono` — along git ancestry the pinned version never decreases, read as containment: what an earlier eligible commit
            ships, a later one ships too. -/

section
variable (comps : List (Nat × Graph Bumps)) (h : Hist Pins) (hT : h.Topo) (hW : h.InWindow) (hcw : CompWindow comps h) (g : Graph Bumps)
variable (hgw : rgraph h (mkPlug comps) = .ok g)
variable (j : Nat) (b : Branch) (rb : RBranch Bumps)
variable (hb : (branchesOf h)[j]? = some b) (hrb : g.all[j]? = some rb)
variable (comp : Nat) (gC : Graph Bumps) (hcomp : ∀ g', (comp, g') ∈ comps → g' = gC) (hin : (comp, gC) ∈ comps)
variable (hne : gC.bnMapAll ≠ [])
variable (hpinv : ∀ e', SpecBuild h ((branchesOf h).take j) b e' →
  ∃ cm v, h.commits[e']? = some cm ∧ cm.pins.lookup comp = some v)
variable (hmono : ∀ e1 e2, SpecBuild h ((branchesOf h).take j) b e1 → SpecBuild h ((branchesOf h).take j) b e2 →
  Anc h e1 e2 → ∀ t1, pinRb h comp gC e1 = some t1 → ∃ t2, pinRb h comp gC e2 = some t2 ∧ RbAnc gC t1 t2)

include hT hW hcw hgw hb hrb hcomp hin hne hpinv hmono

/-- the bump of the component recorded in a reported build names the build that the version pinned in the build's
commit names; when the version names nothing, nothing was shipped before either -/
theorem reported_bump : ∀ (ex : Nat) (bx : RB Bumps), bx ∈ rb.rbuilds → BuildAt g.rcs bx ex →
    SpecBuild h ((branchesOf h).take j) b ex ∧
    ∃ bump, bx.bumps.lookup comp = some bump ∧ bump.toRb = pinRb h comp gC ex ∧
      (pinRb h comp gC ex = none → bump.fromRbs = []) := by
  apply Ghist.Incl.reported_bump <;> assumption

/-- an eligible commit that is not reported pins the same component build as a reported build of the branch properly
below it (its bump is trivial) -/
theorem skipped_version (e' : Nat) (hspec' : SpecBuild h ((branchesOf h).take j) b e')
    (hnr : ¬ ∃ bx ∈ rb.rbuilds, BuildAt g.rcs bx e') (t' : Nat) (hpe' : pinRb h comp gC e' = some t') :
    ∃ pb ∈ rb.rbuilds, ∃ ep, BuildAt g.rcs pb ep ∧ ep ≠ e' ∧ Anc h ep e' ∧ pinRb h comp gC ep = some t' := by
  apply Ghist.Incl.skipped_version <;> assumption

/-- **partial** (C07.included_first + included_only_first, specification level on the parent side; the git meaning
of `RbAnc gC` / `pinRb` is `included_first_git_partial`) — a reported build `bd` of the
branch, at commit `e`, registers the component build `x` exactly when the version pinned in `e` contains `x` and the
version pinned in no other eligible commit of the branch (tagged or head, new in the branch — reported or not) that
is a proper git ancestor of `e` contains it: `bd` is the first build of the branch that ships `x`, and no later build
registers it again. -/
theorem included_first_spec_partial (bd : RB Bumps) (hbd : bd ∈ rb.rbuilds) (e : Nat) (hbe : BuildAt g.rcs bd e)
    (hbn : bd.bn ≠ fakeNM) (repo : Nat) (l : List Reg) (hl : regsOfBuild repo rb.name comp gC bd = .ok l) (x : Nat) :
    (⟨comp, x, repo, rb.name, bd.bn⟩ : Reg) ∈ l ↔
      ∃ t, pinRb h comp gC e = some t ∧ RbAnc gC x t ∧
        ∀ e', SpecBuild h ((branchesOf h).take j) b e' → e' ≠ e → Anc h e' e →
          ∀ t', pinRb h comp gC e' = some t' → ¬ RbAnc gC x t' := by
  apply Ghist.Incl.included_first_spec <;> assumption

/-- **partial** (C07.included_first, existence; as for `included_first_spec_partial`) — if the version pinned in some eligible commit `e0` of the branch contains the
component build `x`, there is a *reported* build of the branch, at an eligible commit `e` below (or at) `e0`, whose
version contains `x` while no eligible commit properly below `e` does: the first build that ships `x` is always
reported, so by `included_first_spec` `x` is registered there and only there. -/
theorem included_first_exists_partial (x : Nat) : ∀ (e0 : Nat), SpecBuild h ((branchesOf h).take j) b e0 →
    ∀ t0, pinRb h comp gC e0 = some t0 → RbAnc gC x t0 →
    ∃ bd ∈ rb.rbuilds, ∃ e, BuildAt g.rcs bd e ∧ Anc h e e0 ∧ ∃ t, pinRb h comp gC e = some t ∧ RbAnc gC x t ∧
      ∀ e', SpecBuild h ((branchesOf h).take j) b e' → e' ≠ e → Anc h e' e →
        ∀ t', pinRb h comp gC e' = some t' → ¬ RbAnc gC x t' := by
  apply Ghist.Incl.included_first_exists <;> assumption

end

/-! ## included_at in git terms

The component's history `hC` (graph `gC`), its `jC`-th branch `bC` (result `rbC`); the parent's history `h` (graph
`g`, built with the component graphs `comps ∋ (comp, gC)`), its `j`-th branch `b` (result `rb`). -/

section
variable (comps : List (Nat × Graph Bumps)) (h : Hist Pins) (hT : h.Topo) (hW : h.InWindow) (hcw : CompWindow comps h) (g : Graph Bumps)
variable (hgw : rgraph h (mkPlug comps) = .ok g)
variable (j : Nat) (b : Branch) (rb : RBranch Bumps)
variable (hb : (branchesOf h)[j]? = some b) (hrb : g.all[j]? = some rb)
variable (comp : Nat) (gC : Graph Bumps) (hcomp : ∀ g', (comp, g') ∈ comps → g' = gC) (hin : (comp, gC) ∈ comps)
variable (hC : Hist Pins) (hTC : hC.Topo) (huC : TagsUnique hC) (plC : Plug Pins Bumps)
variable (hWC : hC.InWindow) (hgCw : rgraph hC plC = .ok gC) (hlenC : gC.rcs.length ≤ Gen.Ghist.fakeStart)
variable (jC : Nat) (bC : Branch) (rbC : RBranch Bumps)
variable (hbC : (branchesOf hC)[jC]? = some bC) (hrbC : gC.all[jC]? = some rbC)
variable (hpins : ∀ e', SpecBuild h ((branchesOf h).take j) b e' →
  (∃ cv, PinsAt h hC comp ((branchesOf hC).take jC) bC e' cv) ∨ PinsNothing h hC comp gC e')
variable (hmonoC : ∀ e1 e2, SpecBuild h ((branchesOf h).take j) b e1 → SpecBuild h ((branchesOf h).take j) b e2 →
  Anc h e1 e2 → ∀ cv1, PinsAt h hC comp ((branchesOf hC).take jC) bC e1 cv1 → HasBuild hC gC rbC cv1 →
    ∃ cv2, PinsAt h hC comp ((branchesOf hC).take jC) bC e2 cv2 ∧ Anc hC cv1 cv2)
include hT hW hcw hgw hb hrb hcomp hin hTC huC hWC hgCw hlenC hbC hrbC hpins hmonoC

/-- **partial** (C07.included_first + included_only_first in git terms) — a reported build `bd` of the parent branch,
at commit `e`, has the reported component build at commit `ex` of the component branch `bC` in its registrations
exactly when `e` pins the build tag of a component commit `cv` of that branch with `ex` a git ancestor of (or equal
to) `cv`, and no eligible parent commit properly below `e` pins a commit of the branch that `ex` is an ancestor of:
the component build is recorded at exactly the first build of the parent branch whose pinned version contains it.
Hypotheses = the property's quantifier for this pair of branches: every eligible parent commit pins either a build
tag of a commit of the component branch `bC` (`PinsAt`; the commit may have no reported build at or below it) or a
version that ships no reported component build at all — a version of another release line without report-related
builds, or no build tag of the component (`PinsNothing`); the pinned commit never goes back along git ancestry once
it has a reported build below it (`hmonoC`); component build numbers are unique to their commits (`huC`); fewer
than 10^9 report commits (`hlenC`); commit times inside the cut-off windows (`hW`, `hcw`, `hWC`).
Missing for the full statement: parent branches whose pins move from one component release line *with* reported
builds to another one (the code links component builds inside one release line only: such a parent build registers
the builds of the new line, the statement of the property does not spell this case out). -/
theorem included_first_git_partial (bd : RB Bumps) (hbd : bd ∈ rb.rbuilds) (e : Nat) (hbe : BuildAt g.rcs bd e)
    (hbn : bd.bn ≠ fakeNM) (bx : RB Bumps) (hbx : bx ∈ rbC.rbuilds) (ex : Nat) (hex : BuildAt gC.rcs bx ex)
    (repo : Nat) (l : List Reg) (hl : regsOfBuild repo rb.name comp gC bd = .ok l) :
    (⟨comp, bx.iid, repo, rb.name, bd.bn⟩ : Reg) ∈ l ↔
      (∃ cv, PinsAt h hC comp ((branchesOf hC).take jC) bC e cv ∧ Anc hC ex cv) ∧
      ∀ e', SpecBuild h ((branchesOf h).take j) b e' → e' ≠ e → Anc h e' e →
        ∀ cv', PinsAt h hC comp ((branchesOf hC).take jC) bC e' cv' → ¬ Anc hC ex cv' := by
  apply Ghist.Incl.included_first_git <;> assumption

end

/-! ## pending bumps of the "not merged" pseudo build -/

/-- **C07.pending_from_latest** — the pending bumps of the "not merged" pseudo build `fake` of a branch are computed from
the bumps of the *last* build `lb` of the branch: the build created last by the DFS (greatest iid), which is a git
ancestor of no other build of the branch — whatever the build numbers are (`RB.bn` does not occur: a branch that starts
with builds numbered from a VERSION file above the release line's, or a counter that was reset, changes nothing).  That
build is also the only parent build of the pseudo build.  A branch without builds has a pseudo build without bumps.
(Commit times inside the cut-off window `hW`, as for the other theorems of this file.) -/
theorem pending_from_latest (comps : List (Nat × Graph Bumps)) (h : Hist Pins) (hT : h.Topo) (hW : h.InWindow)
    (g : Graph Bumps) (hgw : rgraph h (mkPlug comps) = .ok g) :
    ∀ rb ∈ g.all, ∀ fake ∈ rb.rbuilds, fake.rcommit = none →
      (∃ lb ∈ rb.rbuilds, lb.rcommit = some lb.iid ∧
        (∀ x ∈ rb.rbuilds, x.rcommit ≠ none → x.iid ≤ lb.iid) ∧
        (∀ x ∈ rb.rbuilds, ∀ ex el, BuildAt g.rcs x ex → BuildAt g.rcs lb el → Anc h el ex → ex = el) ∧
        fake.parents = [lb.iid] ∧
        pendingBumps (sortBy (fun a b => a.1 < b.1) (relevantComps comps)) lb.bumps = .ok fake.bumps) ∨
      ((∀ x ∈ rb.rbuilds, x.rcommit = none) ∧ fake.parents = [] ∧ fake.bumps = []) := by
  have hg := rgraph_nw hT hW hgw
  intro rb hrb fake hfk hnone
  rcases rgraph_pending hT hg rb hrb fake hfk hnone with ⟨lb, hlb, h1, h2, h3, h4⟩ | h5
  · left
    refine ⟨lb, hlb, h1, h2, ?_, h3, h4⟩
    rintro x hx ex el ⟨hxn, rcx, hrx, hcx⟩ ⟨_, rcl, hrl, hcl⟩ hanc
    have hle := rgraph_iid_mono hT hg lb.iid x.iid rcl rcx hrl hrx (by rw [hcl, hcx]; exact hanc)
    have hge := h2 x hx (by rw [hxn]; simp)
    have heq : x.iid = lb.iid := by omega
    rw [heq, hrl] at hrx
    cases hrx
    rw [← hcx, ← hcl]
  · right; exact h5

/-- **C07.pending_bump_from_pin** — every pending bump `pb` computed from the bumps of a build starts from the version
that build pins (`to_buildnum` of its bump of the component, which names the reported component build `incl`) and
leads to the latest build `lat` of the component branch that holds `incl` (the component's own pseudo build counts);
it is recorded only when `lat` is another build than `incl`, i.e. when something is pending. -/
theorem pending_bump_from_pin (cvm : List (Nat × Graph Bumps)) (bumps r : Bumps) (hr : pendingBumps cvm bumps = .ok r)
    (comp : Nat) (pb : Bump) (hm : (comp, pb) ∈ r) :
    ∃ pbump incl gC cb e lat, (comp, pbump) ∈ bumps ∧ pbump.toRb = some incl ∧ cvm.lookup comp = some gC ∧
      gC.findBuild incl = some cb ∧ gC.bnMapAll.lookup cb.bn = some e ∧ gC.latestOf e.1 = some lat ∧
      pb = ⟨[pbump.toBn], lat.bn, [incl], some lat.iid⟩ ∧ lat.iid ≠ incl :=
  pendingBumps_mem cvm bumps r hr comp pb hm

/-! ## totality of the multi-repository analysis -/

/-- **C07.analysis_total** — `ReposCollection.make_reports_data` either raises the `ValueError` of a dependency cycle or
returns its reports and `included_at` registrations: for repositories with different ids, histories numbered in
topological order, refs that point to existing commits and at most 10^9 commits per repository, none of the code's
`KeyError` / `AttributeError` / `TypeError` / assertions is reachable and no fuel runs out — whatever the commit
times, the pinned versions (known to the component or not) and the shapes of the build graphs are. -/
theorem analysis_total (repos : List RepoIn) (hnd : (repos.map (·.id)).Nodup)
    (hT : ∀ r ∈ repos, r.hist.Topo)
    (hrefs : ∀ r ∈ repos, ∀ ref ∈ r.hist.refs, ref.2 < r.hist.commits.length)
    (hlen : ∀ r ∈ repos, r.hist.commits.length ≤ Gen.Ghist.fakeStart) :
    (∃ res, analyse repos = .ok res) ∨
    (analyse repos = .error .valueError ∧ Cyclic (repos.map (·.id)) (depsOf repos)) := by
  unfold analyse
  rcases sortRepos_spec (ids := repos.map (·.id)) (deps := depsOf repos) hnd with ⟨l, h1, hp, _⟩ | ⟨h1, hc⟩
  · left
    simp only [h1]
    refine analyseAll_total repos hT hrefs hlen l [] [] ?_ (hp.nodup_iff.mpr hnd) (by simp) ⟨by simp, by simp⟩
    intro i hi
    obtain ⟨r, hr, hri⟩ := List.mem_map.mp (hp.mem_iff.mp hi)
    exact ⟨r, hr, hri⟩
  · right
    rw [h1]
    exact ⟨rfl, hc⟩

/-! ## which entries are members of the collection, which commits are builds -/

/-- **C07.skipped_not_member** — an entry the constructor skips (a path whose id has no repository class) is no member of
the collection the ordering and the analysis work on — whoever names it as a component; every other entry is -/
theorem skipped_not_member {α} (supplied : List (α × Bool)) (x : α) :
    x ∈ keptRepos supplied ↔ (x, true) ∈ supplied := by
  simp [keptRepos]

/-- **C07.saved_detector** — for a repository that keeps its build number in a file, a commit is a build exactly when the
number saved in it differs from the number saved in every one of its parents (whatever their order), and its build
number is then the saved one -/
theorem saved_detector (sv : List BN) (parents : List Nat) (c : Nat) (b : BN) (hc : sv[c]? = some b) :
    (savedTags sv parents c = [b] ↔ ∀ p ∈ parents, sv[p]? ≠ some b) ∧
    (savedTags sv parents c = [] ↔ ∃ p ∈ parents, sv[p]? = some b) := by
  have hall : savedIsBuild sv parents c = true ↔ ∀ p ∈ parents, sv[p]? ≠ some b := by
    simp [savedIsBuild, hc]
  have hex : (∃ p ∈ parents, sv[p]? = some b) ↔ ¬ ∀ p ∈ parents, sv[p]? ≠ some b := by
    constructor
    · rintro ⟨p, hp, he⟩ h; exact h p hp he
    · intro h
      apply Classical.byContradiction
      intro hno
      exact h (fun p hp he => hno ⟨p, hp, he⟩)
  by_cases hb : savedIsBuild sv parents c = true
  · have hv : savedTags sv parents c = [b] := by unfold savedTags; rw [if_pos hb, hc]
    rw [hv]
    constructor
    · exact ⟨fun _ => hall.mp hb, fun _ => rfl⟩
    · constructor
      · intro h; cases h
      · intro h; exact absurd (hall.mp hb) (hex.mp h)
  · have hv : savedTags sv parents c = [] := by unfold savedTags; rw [if_neg hb]
    rw [hv]
    constructor
    · constructor
      · intro h; cases h
      · intro h; exact absurd (hall.mpr h) hb
    · exact ⟨fun _ => hex.mpr (fun h => hb (hall.mpr h)), fun _ => rfl⟩

/-! ## what the driver prints is what the theorems are about -/

/-- **C07.analysis_registrations** — the link between the run of the driver (`analyse`, whose result the driver prints:
the repositories in analysis order, and under every build the entries `includedAt regs repo iid` = the registrations
`regs` filtered by component and build) and the objects of the theorems above: the repositories are analysed in the
order `sortRepos` returns; the graph of the `k`-th one is `rgraph` of its history with the plug made from the graphs
of the repositories analysed before it that it names as components (`compsOf`) — the `g`, `comps`, `gC` of the
theorems — and an entry is in `regs` exactly when `regsOfBuild` of a build `b` of a reported branch of an analysed
repository, for one of its components, produces it. -/
theorem analysis_registrations (repos : List RepoIn) (as : List Analysed) (regs : List Reg)
    (h : analyse repos = .ok (as, regs)) :
    sortRepos (repos.map (·.id)) (depsOf repos) = .ok (as.map (·.id)) ∧
    (∀ k a, as[k]? = some a → ∃ rr, repos.find? (fun x => x.id == a.id) = some rr ∧
      rgraph rr.hist (mkPlug (compsOf (as.take k) rr)) = .ok a.graph) ∧
    ∀ r, r ∈ regs ↔ ∃ k a rr, as[k]? = some a ∧ repos.find? (fun x => x.id == a.id) = some rr ∧
      ∃ rb ∈ a.graph.branches, ∃ cg ∈ compsOf (as.take k) rr, ∃ b ∈ rb.rbuilds, ∃ l,
        regsOfBuild a.id rb.name cg.1 cg.2 b = .ok l ∧ r ∈ l := by
  unfold analyse at h
  split at h
  · cases h
  · rename_i order hord
    obtain ⟨steps, h1, h2, h3, h4⟩ := analyseAll_steps repos order [] [] as regs h
    simp only [List.nil_append] at h1 h2 h4
    subst h1 h2
    have htake : ∀ k, (steps.map (·.1)).take k = (steps.take k).map (·.1) := fun k => by rw [List.map_take]
    refine ⟨by rw [hord, ← h3]; simp [List.map_map], ?_, ?_⟩
    · intro k a hk
      simp only [List.getElem?_map] at hk
      cases hs : steps[k]? with
      | none => rw [hs] at hk; cases hk
      | some st =>
        rw [hs] at hk
        simp only [Option.map_some, Option.some.injEq] at hk
        subst hk
        obtain ⟨rr, hf, hg, _⟩ := h4 k st.1 st.2 hs
        exact ⟨rr, hf, by rw [htake]; exact hg⟩
    · intro r
      simp only [List.mem_flatMap]
      constructor
      · rintro ⟨st, hst, hr⟩
        obtain ⟨k, hk⟩ := List.mem_iff_getElem?.mp hst
        obtain ⟨rr, hf, _, hrs⟩ := h4 k st.1 st.2 hk
        refine ⟨k, st.1, rr, by simp [List.getElem?_map, hk], hf, ?_⟩
        rw [htake]
        exact (mem_registrations hrs r).mp hr
      · rintro ⟨k, a, rr, hk, hf, hreg⟩
        simp only [List.getElem?_map] at hk
        cases hs : steps[k]? with
        | none => rw [hs] at hk; cases hk
        | some st =>
          rw [hs] at hk
          simp only [Option.map_some, Option.some.injEq] at hk
          subst hk
          obtain ⟨rr', hf', _, hrs⟩ := h4 k st.1 st.2 hs
          rw [hf] at hf'; cases hf'
          rw [htake] at hreg
          exact ⟨st, List.mem_of_getElem? hs, (mem_registrations hrs r).mpr hreg⟩

/-! Non-vacuity of the included_at part: a component whose history has a diamond of reported builds
(10.20.1 ← 10.20.2, 10.20.3 ← 10.20.4; report commits numbered 0, 2, 1, 3 by the DFS) and a parent that pins 10.20.2
at build 5.1.1 and 10.20.4 at build 5.1.2: the first build ships 10.20.1 and 10.20.2, the second one only what is
new (10.20.3, 10.20.4) — the diamond does not make 10.20.1 appear again. -/
example : (analyse [⟨0, [2], exApp⟩, ⟨2, [], exLib⟩]).map (fun r => (r.1.map (·.id), r.2)) = .ok ([2, 0],
    [⟨2, 0, 0, "release/5.1".toList, ⟨5, 1, 1, 1⟩⟩, ⟨2, 2, 0, "release/5.1".toList, ⟨5, 1, 1, 1⟩⟩,
     ⟨2, 1, 0, "release/5.1".toList, ⟨5, 1, 2, 2⟩⟩, ⟨2, 3, 0, "release/5.1".toList, ⟨5, 1, 2, 2⟩⟩]) := by
  decide +kernel

/-- the hypotheses of `included_first_spec_partial` on this example: both eligible commits of the parent branch pin a
version known to the component's `bn_map` (builds 2 and 3 of the component), and build 3 has build 2 among its parent
builds (so the later pin contains the earlier one) -/
example : (rgraph exLib (mkPlug [])).map (fun g =>
    (pinRb exApp 2 g 0, pinRb exApp 2 g 1, (g.findBuild 3).map (·.parents))) = .ok (some 2, some 3, some [1, 2]) := by
  decide +kernel

/-! ### the hypotheses of the conditional theorems hold on this example

The objects (`Lemmas/GhistExample.lean`) are the ones the driver computes, see `analysis_registrations`: `gLib` is the
graph of the component, `gApp` the graph of the parent built with it, `bApp` / `rbApp` the parent's release branch and
its result. -/

/-- **non-vacuity** of the hypotheses shared by `reported_bump`, `skipped_version`, `included_first_spec_partial`,
`included_first_exists_partial` (and, as a part of them, of `bumps_recorded` … `bump_build_reported_partial`): on the
diamond example they all hold, so the theorem applies to the builds of the parent branch -/
example (bd : RB Bumps) (hbd : bd ∈ rbApp.rbuilds) (e : Nat) (hbe : BuildAt gApp.rcs bd e) (hbn : bd.bn ≠ fakeNM)
    (l : List Reg) (hl : regsOfBuild 0 rbApp.name 2 gLib bd = .ok l) (x : Nat) :
    (⟨2, x, 0, rbApp.name, bd.bn⟩ : Reg) ∈ l ↔
      ∃ t, pinRb exApp 2 gLib e = some t ∧ RbAnc gLib x t ∧
        ∀ e', SpecBuild exApp ((branchesOf exApp).take 0) bApp e' → e' ≠ e → Anc exApp e' e →
          ∀ t', pinRb exApp 2 gLib e' = some t' → ¬ RbAnc gLib x t' := by
  refine included_first_spec_partial [(2, gLib)] exApp exApp_topo exApp_window exApp_compWindow gApp gApp_ok 0 bApp rbApp
    bApp_ok rbApp_ok 2 gLib (by intro g' hg'; simpa using hg') (by simp) gLib_ne ?_ ?_ bd hbd e hbe hbn 0 l hl x
  · intro e' hs
    rcases specBuild_le hs with rfl | rfl
    · exact ⟨_, _, rfl, rfl⟩
    · exact ⟨_, _, rfl, rfl⟩
  · intro e1 e2 hs1 hs2 hanc t1 ht1
    have hle := hanc.le exApp_topo
    rcases specBuild_le hs1 with rfl | rfl <;> rcases specBuild_le hs2 with rfl | rfl
    · rw [pin0] at ht1; cases ht1; exact ⟨2, pin0, rb22⟩
    · rw [pin0] at ht1; cases ht1; exact ⟨3, pin1, rb23⟩
    · omega
    · rw [pin1] at ht1; cases ht1; exact ⟨3, pin1, rb33⟩

/-- … and the window is not empty: the branch has a reported build at commit 1 whose registrations are the two
component builds that are new in its version -/
example : (rbApp.rbuilds.map fun b => (b.rcommit, b.bn, (regsOfBuild 0 rbApp.name 2 gLib b).toOption.map (·.map (·.iid)))) =
    [(some 0, ⟨5, 1, 1, 1⟩, some [0, 2]), (some 1, ⟨5, 1, 2, 2⟩, some [1, 3])] := by decide +kernel

/-- **non-vacuity** of `included_first_git_partial`: all its hypotheses hold on the diamond example — the parent's
eligible commits 0 and 1 pin the build tags of the component commits 1 and 3 of the component's release branch
(`PinsAt`, `hpins`), the pinned commit never goes back (`hmonoC`: 1 is a git ancestor of 3), the component's build
numbers are unique (`TagsUnique`), the times are inside the windows — so the theorem applies to every reported build of
the parent branch and every reported build of the component branch -/
example (bd : RB Bumps) (hbd : bd ∈ rbApp.rbuilds) (e : Nat) (hbe : BuildAt gApp.rcs bd e) (hbn : bd.bn ≠ fakeNM)
    (bx : RB Bumps) (hbx : bx ∈ rbLib.rbuilds) (ex : Nat) (hex : BuildAt gLib.rcs bx ex)
    (l : List Reg) (hl : regsOfBuild 0 rbApp.name 2 gLib bd = .ok l) :
    (⟨2, bx.iid, 0, rbApp.name, bd.bn⟩ : Reg) ∈ l ↔
      (∃ cv, PinsAt exApp exLib 2 ((branchesOf exLib).take 0) bLib e cv ∧ Anc exLib ex cv) ∧
      ∀ e', SpecBuild exApp ((branchesOf exApp).take 0) bApp e' → e' ≠ e → Anc exApp e' e →
        ∀ cv', PinsAt exApp exLib 2 ((branchesOf exLib).take 0) bLib e' cv' → ¬ Anc exLib ex cv' := by
  refine included_first_git_partial [(2, gLib)] exApp exApp_topo exApp_window exApp_compWindow gApp gApp_ok 0 bApp rbApp
    bApp_ok rbApp_ok 2 gLib (by intro g' hg'; simpa using hg') (by simp) exLib exLib_topo exLib_tagsUnique (mkPlug [])
    exLib_window gLib_ok gLib_len 0 bLib rbLib bLib_ok rbLib_ok ?_ ?_ bd hbd e hbe hbn bx hbx ex hex 0 l hl
  · intro e' hs
    rcases specBuild_le hs with rfl | rfl
    · exact Or.inl ⟨1, pinsAt0⟩
    · exact Or.inl ⟨3, pinsAt1⟩
  · intro e1 e2 hs1 hs2 hanc cv1 hp1 _
    have hle := hanc.le exApp_topo
    rcases specBuild_le hs1 with rfl | rfl <;> rcases specBuild_le hs2 with rfl | rfl
    · rw [pinsAt0_eq hp1]; exact ⟨1, pinsAt0, .refl 1⟩
    · rw [pinsAt0_eq hp1]; exact ⟨3, pinsAt1, anc13⟩
    · omega
    · rw [pinsAt1_eq hp1]; exact ⟨3, pinsAt1, .refl 3⟩

/-- … and the component branch of that example has the four reported builds the theorem speaks about, at the component
commits 0, 2, 1, 3 (in DFS order) -/
example : rbLib.rbuilds.map (fun b => (b.iid, b.rcommit, b.bn)) =
    [(0, some 0, ⟨10, 20, 1, 1⟩), (1, some 1, ⟨10, 20, 3, 3⟩), (2, some 2, ⟨10, 20, 2, 2⟩), (3, some 3, ⟨10, 20, 4, 4⟩)] := by
  decide +kernel

/-- **non-vacuity** of `pending_from_latest` / `pending_bump_from_pin`: a parent branch whose first build was made by
the master job (60.2.5, numbered from the VERSION file) and whose second build is 5.1.1 — the build numbers go DOWN along
the history; the second build pins 10.20.2 while the component has newer reported builds.  The pseudo build has the
build with the greatest iid (5.1.1, not the one with the greatest number) as its parent, and its pending bump leads from
10.20.2 to the component's latest build 10.20.4. -/
example : (rgraph (⟨[⟨[], [⟨60, 2, 5, 5⟩], false, [(2, (10, 20, 1))], 0⟩, ⟨[0], [⟨5, 1, 1, 1⟩], false, [(2, (10, 20, 2))], 0⟩],
      "origin".toList, [("origin/release/5.1".toList, 1)]⟩ : Hist Pins) (mkPlug [(2, gLib)])).map
    (fun g => g.all.flatMap fun rb => rb.rbuilds.map fun b => (b.iid, b.rcommit, b.bn, b.parents)) =
    .ok [(0, some 0, ⟨60, 2, 5, 5⟩, []), (1, some 1, ⟨5, 1, 1, 1⟩, [0]),
         (1000000000, none, ⟨9999, 9999, 9999, 9999⟩, [1])] := by
  decide +kernel

example : (rgraph (⟨[⟨[], [⟨60, 2, 5, 5⟩], false, [(2, (10, 20, 1))], 0⟩, ⟨[0], [⟨5, 1, 1, 1⟩], false, [(2, (10, 20, 2))], 0⟩],
      "origin".toList, [("origin/release/5.1".toList, 1)]⟩ : Hist Pins) (mkPlug [(2, gLib)])).map
    (fun g => g.all.flatMap fun rb => rb.rbuilds.map fun b => (b.iid, b.bumps.map fun cb => (cb.2.fromBns, cb.2.toBn))) =
    .ok [(0, [([], ⟨10, 20, 1, 1⟩)]), (1, [([⟨10, 20, 1, 1⟩], ⟨10, 20, 2, 2⟩)]),
         (1000000000, [([⟨10, 20, 2, 2⟩], ⟨10, 20, 4, 4⟩)])] := by
  decide +kernel

end C07
