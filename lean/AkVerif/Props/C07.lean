import AkVerif.Lemmas.GhistRepos
import AkVerif.Lemmas.GhistElig
import AkVerif.Lemmas.GhistReport
import AkVerif.Lemmas.GhistPar
/-!
# C07 — component builds are reported at the first parent build that ships them

Property theorems only, about the functions the driver `Drv/C07.lean` executes (`Ghist.sortRepos`,
`Ghist.analyse`).  Repositories are natural numbers (ranks of the names in `sorted()` order); `deps a` are the
keys of `_COMPONENTS_VERSIONS_LOCATIONS` of repository `a` — components that are not among the supplied
repositories are ignored (`Edge` asks for `b ∈ ids`).
-/
namespace C07
open Ghist Ak

/-- **C07.repo_order** — repositories are analysed components first: the order returned is a permutation of the
supplied repositories in which every component of a repository stands strictly before it. -/
theorem repo_order (ids : List Nat) (deps : Nat → List Nat) (hnd : ids.Nodup) (l : List Nat)
    (h : sortRepos ids deps = .ok l) :
    l.Perm ids ∧ ∀ (l1 l2 : List Nat) (a : Nat), l = l1 ++ a :: l2 → ∀ b, b ∈ deps a → b ∈ ids → b ∈ l1 := by
  rcases sortRepos_spec (ids := ids) (deps := deps) hnd with ⟨l', h1, h2, h3⟩ | ⟨h1, _⟩
  · rw [h] at h1; cases h1
    exact ⟨h2, fun l1 l2 a hl b hb hbi => topoR_reverse_split l h3 l1 l2 a hl b ⟨hb, hbi⟩⟩
  · rw [h] at h1; cases h1

/-- … whatever order they were supplied in: the result depends only on the set of repositories -/
theorem repo_order_independent (ids ids' : List Nat) (deps : Nat → List Nat) (hp : ids.Perm ids') :
    sortRepos ids deps = sortRepos ids' deps := sortRepos_perm hp

/-- **C07.cycle_rejected** — `ValueError` is raised exactly when the dependency graph restricted to the supplied
repositories has a cycle (a repository listing itself included) … -/
theorem cycle_rejected (ids : List Nat) (deps : Nat → List Nat) (hnd : ids.Nodup) :
    sortRepos ids deps = .error .valueError ↔ Cyclic ids deps := by
  constructor
  · intro h
    rcases sortRepos_spec (ids := ids) (deps := deps) hnd with ⟨l', h1, _, _⟩ | ⟨_, hc⟩
    · rw [h] at h1; cases h1
    · exact hc
  · intro ⟨a, hp⟩
    rcases sortRepos_spec (ids := ids) (deps := deps) hnd with ⟨l', _, h2, h3⟩ | ⟨h1, _⟩
    · exfalso
      have ha : a ∈ ids := by
        cases hp with
        | one e => -- a → a
          exact e.2
        | cons e hp' =>
          -- the path comes back to `a`, so its last edge ends in `a`
          have : ∀ {x y : Nat}, DPath ids deps x y → y ∈ ids := by
            intro x y h; induction h with
            | one e => exact e.2
            | cons _ _ ih => exact ih
          exact this hp'
      have hal : a ∈ l'.reverse := List.mem_reverse.mpr (h2.mem_iff.mpr ha)
      have hnd' : l'.reverse.Nodup := (List.reverse_perm l').nodup_iff.mpr (h2.nodup_iff.mpr hnd)
      exact TopoR.acyclic h3 hnd' a hal hp
    · exact h1

/-- … and nothing else can go wrong: the ordering returns a list or raises `ValueError` (the DFS never runs out of
fuel, no other exception) -/
theorem repo_order_total (ids : List Nat) (deps : Nat → List Nat) (hnd : ids.Nodup) :
    (∃ l, sortRepos ids deps = .ok l) ∨ sortRepos ids deps = .error .valueError := by
  rcases sortRepos_spec (ids := ids) (deps := deps) hnd with ⟨l', h1, _, _⟩ | ⟨h1, _⟩
  · exact Or.inl ⟨l', h1⟩
  · exact Or.inr h1

/-! ## included_at and bumps

`comps` are the graphs of the component repositories handed to the analysis of a parent repository with history
`h`; `g` is the parent's graph, `regs` the `included_at` entries it registers in the builds of its components.
`RbAnc gC x t` — in the component's graph `gC` the build `t` is `x` or has `x` among the builds reachable through
parent builds: *the version `t` contains the build `x`* (containment relative to the component's report graph; that
this graph mirrors git ancestry inside one release line is C06's subject and is not re-proved here). -/

/-- **partial** (C07.included_first) — the registration loop records a component build `x` as included at
(parent, branch, build number) exactly for the reported builds `b` of that branch whose bump of the component has a
new version `t` that contains `x` while none of the previous versions `f ∈ from_rbuilds` — the versions contained in
the parent builds of `b`, see `bumps_recorded` — contains it.  This holds for every shape of the component's build
graph (after the repair 88b742a).
Missing for the full statement: (1) that the parent builds `RB.parents` found by `_find_new_rcommits_in_build` are
the nearest reported builds below `b` in git ancestry, so that "previous versions" = "versions pinned by the earlier
builds of the branch"; (2) that `bn_map` sends a pinned version to the latest reported component build it contains. -/
theorem included_first_partial (comps : List (Nat × Graph Bumps)) (repo : Nat) (g : Graph Bumps) (regs : List Reg)
    (hregs : registrations repo comps g = .ok regs) (r : Reg) :
    r ∈ regs ↔ ∃ rb ∈ g.branches, ∃ cg ∈ comps, ∃ b ∈ rb.rbuilds, b.bn ≠ fakeNM ∧
      ∃ bump t, b.bumps.lookup cg.1 = some bump ∧ bump.toRb = some t ∧
        RbAnc cg.2 r.iid t ∧ (∀ f ∈ bump.fromRbs, ¬ RbAnc cg.2 r.iid f) ∧
        r = ⟨cg.1, r.iid, repo, rb.name, b.bn⟩ := by
  rw [mem_registrations hregs r]
  constructor
  · rintro ⟨rb, hrb, cg, hcg, b, hb, l, hl, hrl⟩
    have hshape : r = ⟨cg.1, r.iid, repo, rb.name, b.bn⟩ := by
      unfold regsOfBuild at hl
      split at hl
      · cases hl; cases hrl
      · split at hl
        · cases hl; cases hrl
        · split at hl
          · cases hl
          · cases hl
            obtain ⟨x, _, rfl⟩ := List.mem_map.mp hrl
            rfl
    rw [hshape] at hrl
    obtain ⟨hnm, bump, t, h1, h2, h3, h4⟩ := (regsOfBuild_mem hl r.iid).mp hrl
    exact ⟨rb, hrb, cg, hcg, b, hb, hnm, bump, t, h1, h2, h3, h4, hshape⟩
  · rintro ⟨rb, hrb, cg, hcg, b, hb, hnm, bump, t, h1, h2, h3, h4, hshape⟩
    -- the registration of this build does not fail: it is part of a successful run
    have hok : ∃ l, regsOfBuild repo rb.name cg.1 cg.2 b = .ok l := by
      unfold registrations at hregs
      cases hx : regsOfBuild repo rb.name cg.1 cg.2 b with
      | ok l => exact ⟨l, rfl⟩
      | error e =>
        exfalso
        have hmem : regsOfBuild repo rb.name cg.1 cg.2 b ∈ (g.branches.flatMap fun rb =>
            comps.flatMap fun cg => (sortBy (fun a b : RB Bumps => a.iid < b.iid) rb.rbuilds).map fun b =>
              regsOfBuild repo rb.name cg.1 cg.2 b) := by
          simp only [List.mem_flatMap, List.mem_map]
          exact ⟨rb, hrb, cg, hcg, b, (mem_sortBy _ _ _).mpr hb, rfl⟩
        rw [hx] at hmem
        have : ∀ (l : List (Except Err (List Reg))) (e : Err), .error e ∈ l → ∀ out, concatM l ≠ .ok out := by
          intro l
          induction l with
          | nil => intro e he; cases he
          | cons a l ih =>
            intro e he out hc
            simp only [concatM] at hc
            rcases List.mem_cons.mp he with h5 | h5
            · subst h5; simp at hc
            · cases a with
              | error e' => simp at hc
              | ok xs =>
                cases hcl : concatM l with
                | error e' => rw [hcl] at hc; simp at hc
                | ok ys => exact ih e h5 ys hcl
        exact this _ e hmem regs hregs
    obtain ⟨l, hl⟩ := hok
    refine ⟨rb, hrb, cg, hcg, b, hb, l, hl, ?_⟩
    rw [hshape]
    exact (regsOfBuild_mem hl r.iid).mpr ⟨hnm, bump, t, h1, h2, h3, h4⟩

section
variable (comps : List (Nat × Graph Bumps)) (h : Hist Pins) (hT : h.Topo) (g : Graph Bumps)
variable (hg : rgraph h (mkPlug comps) = .ok g)
include hT hg

/-- the bumps stored in a build are the ones `_mk_bumps_info` computes from the pins of the build's commit and the
bumps of its parent builds: for each component, `from_rbuilds` are the component builds the parent builds contain
(their `to_rbuild`, or their own `from_rbuilds` when they pin an unknown version), `to_buildnum` is the pinned version
and `to_rbuild` its entry in the component's `bn_map` — or, for a version unknown there, the newest build in
`from_rbuilds` -/
theorem bumps_recorded :
    ∀ b ∈ g.builds, ∃ rc cm pbs, g.rcs[b.iid]? = some rc ∧ h.commits[rc.commit]? = some cm ∧
      Resolved g.builds b.parents pbs ∧
      ∀ comp bump, (comp, bump) ∈ b.bumps → ∃ gC v, (comp, gC) ∈ relevantComps comps ∧
        cm.pins.lookup comp = some v ∧ bump.toBn = ⟨v.1, v.2.1, v.2.2, v.2.2⟩ ∧
        (∀ x, x ∈ bump.fromRbs ↔ ∃ pb ∈ pbs, ∃ b0, pb.bumps.lookup comp = some b0 ∧
          (b0.toRb = some x ∨ (b0.toRb = none ∧ x ∈ b0.fromRbs))) ∧
        ((∃ e, gC.bnMapAll.lookup bump.toBn = some e ∧ bump.toRb = some e.2) ∨
         (gC.bnMapAll.lookup bump.toBn = none ∧
           ((bump.fromRbs = [] ∧ bump.toRb = none) ∨ ∃ m, maxOf bump.fromRbs = some m ∧ bump.toRb = some m))) := by
  intro b hb
  obtain ⟨rc, cm, pbs, h1, h2, h3, h4⟩ := (rgraph_bumpsOk hT hg).1 b hb
  refine ⟨rc, cm, pbs, h1, h2, h3, ?_⟩
  intro comp bump hm
  simp only [mkPlug] at h4
  obtain ⟨gC, v, h5, h6, h7⟩ := mkBumps_mem h4 comp bump hm
  obtain ⟨h8, h9, h10⟩ := mkBump_spec h7
  refine ⟨gC, v, (mem_sortBy _ _ _).mp h5, h6, h9, ?_, h10⟩
  intro x
  rw [h8, mem_fromSet]
  simp only [List.mem_map]
  constructor
  · rintro ⟨_, ⟨pb, hpb, rfl⟩, b0, hb0⟩; exact ⟨pb, hpb, b0, hb0⟩
  · rintro ⟨pb, hpb, b0, hb0⟩; exact ⟨_, ⟨pb, hpb, rfl⟩, b0, hb0⟩

/-- the version pinned by a parent build is one of the previous versions (`from_rbuilds`) of the build -/
theorem parent_version_in_from (b1 b2 : RB Bumps) (hb1 : b1 ∈ g.builds) (hb2 : b2 ∈ g.builds)
    (hpar : b1.iid ∈ b2.parents) (comp : Nat) (bump1 bump2 : Bump) (t1 : Nat)
    (h1 : b1.bumps.lookup comp = some bump1) (ht1 : bump1.toRb = some t1)
    (h2 : b2.bumps.lookup comp = some bump2) : t1 ∈ bump2.fromRbs := by
  obtain ⟨rc, cm, pbs, _, _, hres, hall⟩ := bumps_recorded comps h hT g hg b2 hb2
  obtain ⟨gC', v, _, _, _, hfrom, _⟩ := hall comp bump2 (lookup_some_mem h2)
  rw [hfrom]
  -- `b1` is among the resolved parent builds: ids of builds are unique
  have hinc := (rgraph_facts hT hg).bldInc
  have hb1res : b1 ∈ pbs := by
    clear hall hfrom
    generalize b2.parents = is at hres hpar
    induction hres with
    | nil => cases hpar
    | @cons i pb is' pbs' hm hi _ ih =>
      rcases List.mem_cons.mp hpar with h5 | h5
      · have : pb = b1 := by
          have e1 := build?_of_mem (rp := { (Repo.empty : Repo Bumps) with builds := g.builds }) hinc hm
          have e2 := build?_of_mem (rp := { (Repo.empty : Repo Bumps) with builds := g.builds }) hinc hb1
          rw [hi, ← h5] at e1
          rw [e1] at e2
          exact Option.some.inj e2
        rw [this]; simp
      · exact List.mem_cons_of_mem _ (ih h5)
  exact ⟨b1, hb1res, bump1, h1, Or.inl ht1⟩

/-- `b1` lies below `b2` along parent builds -/
inductive BuildChain (builds : List (RB Bumps)) : RB Bumps → RB Bumps → Prop
  | one {b1 b2 : RB Bumps} : b1 ∈ builds → b2 ∈ builds → b1.iid ∈ b2.parents → BuildChain builds b1 b2
  | step {b1 bm b2 : RB Bumps} : BuildChain builds b1 bm → b2 ∈ builds → bm.iid ∈ b2.parents →
      BuildChain builds b1 b2

/-- **partial** (C07.included_only_first) — "and at no other parent build": a component build contained in the
version pinned by a build `b1` is not registered again by any build `b2` above `b1` along parent builds.
Hypotheses (the property's quantifier, stated on the recorded bumps): every build of the parent pins a version of the
component known to its `bn_map` (`hpin`), and the pinned version never decreases along a path, read as containment —
the new version contains every previous version (`hmono`).
Missing: (1), (2) of `included_first_partial`, to identify "above along parent builds" with "later build of the branch
in git ancestry". -/
theorem included_only_first_partial (comp : Nat) (gC : Graph Bumps)
    (hpin : ∀ b ∈ g.builds, ∃ bump t, b.bumps.lookup comp = some bump ∧ bump.toRb = some t)
    (hmono : ∀ b ∈ g.builds, ∀ bump t, b.bumps.lookup comp = some bump → bump.toRb = some t →
      ∀ f ∈ bump.fromRbs, RbAnc gC f t)
    (b1 b2 : RB Bumps) (hch : BuildChain g.builds b1 b2) (bump1 : Bump) (t1 : Nat)
    (h1 : b1.bumps.lookup comp = some bump1) (ht1 : bump1.toRb = some t1)
    (repo : Nat) (name : List Char) (l : List Reg)
    (hl : regsOfBuild repo name comp gC b2 = .ok l) (x : Nat) (hx : RbAnc gC x t1) :
    (⟨comp, x, repo, name, b2.bn⟩ : Reg) ∉ l := by
  -- along the chain `x` stays contained in a previous version of every build, hence in its version
  have key : ∀ {b2 : RB Bumps}, BuildChain g.builds b1 b2 →
      ∃ bump2 t2, b2.bumps.lookup comp = some bump2 ∧ bump2.toRb = some t2 ∧
        (∃ f ∈ bump2.fromRbs, RbAnc gC x f) ∧ RbAnc gC x t2 := by
    intro b2 hc
    induction hc with
    | one hb1 hb2 hpar =>
      obtain ⟨bump2, t2, h2, ht2⟩ := hpin _ hb2
      have hin := parent_version_in_from comps h hT g hg _ _ hb1 hb2 hpar comp bump1 bump2 t1 h1 ht1 h2
      exact ⟨bump2, t2, h2, ht2, ⟨t1, hin, hx⟩, RbAnc.trans hx (hmono _ hb2 bump2 t2 h2 ht2 t1 hin)⟩
    | step hc' hb2 hpar ih =>
      rename_i bm b2'
      obtain ⟨bumpm, tm, hm1, hm2, _, hxm⟩ := ih
      have hbm : bm ∈ g.builds := by
        cases hc' with
        | one _ h _ => exact h
        | step _ h _ => exact h
      obtain ⟨bump2, t2, h2, ht2⟩ := hpin _ hb2
      have hin := parent_version_in_from comps h hT g hg _ _ hbm hb2 hpar comp bumpm bump2 tm hm1 hm2 h2
      exact ⟨bump2, t2, h2, ht2, ⟨tm, hin, hxm⟩, RbAnc.trans hxm (hmono _ hb2 bump2 t2 h2 ht2 tm hin)⟩
  obtain ⟨bump2, t2, h2, _, ⟨f, hf, hxf⟩, _⟩ := key hch
  intro hin
  obtain ⟨_, bump, t, h3, _, _, h4⟩ := (regsOfBuild_mem hl x).mp hin
  rw [h2] at h3; cases h3
  exact h4 f hf hxf

/-- the parent builds recorded in a build are the nearest builds of the same branch below it in git ancestry
(this is (1) of `included_first_partial`, proved for every history) -/
theorem parent_builds_nearest : ∀ rb ∈ g.all, BrPar h g.rcs rb := rgraph_par hT hg

/-- **partial** (C07.included_first / included_only_first, spec level on the parent side) — for a reported build
`bd` of a parent branch, at commit `e`, whose pinned version of the component is `t`: a component build `x` is
registered at `bd` exactly when `t` contains `x` and no *reported* build of the branch that is a proper git ancestor
of `e` pins a version that contains `x` — `bd` is the first reported build of the branch that ships `x`.
Hypotheses (the quantifier): every reported build of the branch pins a version of the component that is known to its
`bn_map` (`hpin`), and along git ancestry the pinned version never decreases, read as containment (`hmono`).
Missing for the full statement: eligible commits that are *not* reported (they have trivial bumps, see
`bump_build_reported_partial`, so their version is the one of the nearest reported build below — not yet carried to
this theorem), and the meaning of `RbAnc` / `bn_map` in terms of the component's git history. -/
theorem included_first_reported_partial (rb : RBranch Bumps) (hrb : rb ∈ g.all) (comp : Nat) (gC : Graph Bumps)
    (hpin : ∀ bx ∈ rb.rbuilds, ∀ ex, BuildAt g.rcs bx ex →
      ∃ bump t, bx.bumps.lookup comp = some bump ∧ bump.toRb = some t)
    (hmono : ∀ bp ∈ rb.rbuilds, ∀ bq ∈ rb.rbuilds, ∀ ep eq, BuildAt g.rcs bp ep → BuildAt g.rcs bq eq →
      Anc h ep eq → ∀ bumpp tp bumpq tq, bp.bumps.lookup comp = some bumpp → bumpp.toRb = some tp →
        bq.bumps.lookup comp = some bumpq → bumpq.toRb = some tq → RbAnc gC tp tq)
    (bd : RB Bumps) (hbd : bd ∈ rb.rbuilds) (e : Nat) (hbe : BuildAt g.rcs bd e) (hbn : bd.bn ≠ fakeNM)
    (bump : Bump) (t : Nat) (hb1 : bd.bumps.lookup comp = some bump) (hb2 : bump.toRb = some t)
    (repo : Nat) (l : List Reg) (hl : regsOfBuild repo rb.name comp gC bd = .ok l) (x : Nat) :
    (⟨comp, x, repo, rb.name, bd.bn⟩ : Reg) ∈ l ↔
      RbAnc gC x t ∧ ∀ bp ∈ rb.rbuilds, ∀ ep, BuildAt g.rcs bp ep → ep ≠ e → Anc h ep e →
        ∀ bumpp tp, bp.bumps.lookup comp = some bumpp → bumpp.toRb = some tp → ¬ RbAnc gC x tp := by
  have hpar := parent_builds_nearest comps h hT g hg rb hrb bd hbd e hbe
  have hinb : ∀ bx ∈ rb.rbuilds, ∀ ex, BuildAt g.rcs bx ex → bx ∈ g.builds := by
    intro bx hbx ex hex
    exact (rgraph_bumpsOk hT hg).2 rb hrb bx hbx (by rw [hex.1]; rfl)
  have hbdg := hinb bd hbd e hbe
  rw [regsOfBuild_mem hl x]
  constructor
  · rintro ⟨_, bump', t', h1, h2, h3, h4⟩
    rw [hb1] at h1; cases h1
    rw [hb2] at h2; cases h2
    refine ⟨h3, ?_⟩
    intro bp hbp ep hbep hne hanc bumpp tp hp1 hp2 hcontra
    -- a nearest build `bm` of the branch above `bp` and below `e`
    have key : ∀ (k : Nat) (bq : RB Bumps) (eq : Nat), bq ∈ rb.rbuilds → BuildAt g.rcs bq eq → eq ≠ e → Anc h eq e →
        e - eq ≤ k → ∃ bm ∈ rb.rbuilds, ∃ em, BuildAt g.rcs bm em ∧ em ≠ e ∧ Anc h em e ∧ Anc h eq em ∧
          ∀ br ∈ rb.rbuilds, ∀ er, BuildAt g.rcs br er → er ≠ em → er ≠ e → Anc h er e → ¬ Anc h em er := by
      intro k
      induction k with
      | zero =>
        intro bq eq _ _ hqe hqa hk
        have := hqa.le hT
        exact absurd (by omega) hqe
      | succ k ih =>
        intro bq eq hbq hbeq hqe hqa hk
        classical
        by_cases hmax : ∀ br ∈ rb.rbuilds, ∀ er, BuildAt g.rcs br er → er ≠ eq → er ≠ e → Anc h er e → ¬ Anc h eq er
        · exact ⟨bq, hbq, eq, hbeq, hqe, hqa, .refl _, hmax⟩
        · have : ∃ br ∈ rb.rbuilds, ∃ er, BuildAt g.rcs br er ∧ er ≠ eq ∧ er ≠ e ∧ Anc h er e ∧ Anc h eq er := by
            apply Classical.byContradiction
            intro hno
            apply hmax
            intro br hbr er hber h5 h6 h7 h8
            exact hno ⟨br, hbr, er, hber, h5, h6, h7, h8⟩
          obtain ⟨br, hbr, er, hber, h5, h6, h7, h8⟩ := this
          have hlt : eq < er := by
            have := h8.le hT
            rcases Nat.lt_or_ge eq er with h9 | h9
            · exact h9
            · exact absurd (by omega) h5
          have hle := h7.le hT
          obtain ⟨bm, hbm, em, h10, h11, h12, h13, h14⟩ := ih br er hbr hber h6 h7 (by omega)
          exact ⟨bm, hbm, em, h10, h11, h12, h8.trans h13, h14⟩
    obtain ⟨bm, hbm, em, hbem, hme, hma, hpm, hmmax⟩ := key (e - ep) bp ep hbp hbep hne hanc (Nat.le_refl _)
    have hmpar : bm.iid ∈ bd.parents := (hpar.2 bm.iid).mpr ⟨bm, hbm, rfl, em, hbem, hme, hma, hmmax⟩
    obtain ⟨bumpm, tm, hm1, hm2⟩ := hpin bm hbm em hbem
    have hin := parent_version_in_from comps h hT g hg bm bd (hinb bm hbm em hbem) hbdg hmpar comp bumpm bump tm
      hm1 hm2 hb1
    have hcont := hmono bp hbp bm hbm ep em hbep hbem hpm bumpp tp bumpm tm hp1 hp2 hm1 hm2
    exact h4 tm hin (RbAnc.trans hcontra hcont)
  · rintro ⟨h3, h4⟩
    refine ⟨hbn, bump, t, hb1, hb2, h3, ?_⟩
    intro f hf hxf
    -- `f` is the version of a parent build, which is a reported build of the branch below `e`
    obtain ⟨rc, cm, pbs, _, _, hres, hall⟩ := bumps_recorded comps h hT g hg bd hbdg
    obtain ⟨gC', v, _, _, _, hfrom, _⟩ := hall comp bump (lookup_some_mem hb1)
    obtain ⟨pb, hpb, b0, hb0, hcase⟩ := (hfrom f).mp hf
    -- `pb` is one of the resolved parent builds
    have hpbpar : pb.iid ∈ bd.parents ∧ pb ∈ g.builds := by
      clear hall hfrom
      generalize bd.parents = is at hres
      induction hres with
      | nil => cases hpb
      | @cons i pb' is' pbs' hm hi _ ih =>
        rcases List.mem_cons.mp hpb with h5 | h5
        · subst h5; exact ⟨by simp [hi], hm⟩
        · obtain ⟨h6, h7⟩ := ih h5
          exact ⟨List.mem_cons_of_mem _ h6, h7⟩
    obtain ⟨bp, hbp, hbpi, ep, hbep, hne, hanc, _⟩ := (hpar.2 pb.iid).mp hpbpar.1
    have hinc := (rgraph_facts hT hg).bldInc
    have hbpg := hinb bp hbp ep hbep
    have hpbeq : pb = bp := by
      have e1 := build?_of_mem (rp := { (Repo.empty : Repo Bumps) with builds := g.builds }) hinc hpbpar.2
      have e2 := build?_of_mem (rp := { (Repo.empty : Repo Bumps) with builds := g.builds }) hinc hbpg
      rw [hbpi] at e2
      rw [e1] at e2
      exact Option.some.inj e2
    subst hpbeq
    obtain ⟨bumpp, tp, hp1, hp2⟩ := hpin pb hbp ep hbep
    rw [hb0] at hp1; cases hp1
    rcases hcase with h5 | ⟨h5, _⟩
    · rw [hp2] at h5; cases h5
      exact h4 pb hbp ep hbep hne hanc b0 f hb0 hp2 hxf
    · rw [hp2] at h5; cases h5

/-- **partial** (C07.bump_build_reported) — every eligible commit of a branch (tagged or head, reachable from the
head, not part of a lower-sorted branch) is a build of the branch in the report, unless it does not match and all the
bumps computed for it — from its pins and the bumps of the at most one parent build found — are trivial (the pinned
version's latest reported build is the one the parent build already contains): a parent build whose pin moves
across report-related component builds is reported even without a matching commit of its own.
Missing: (1) of `included_first_partial` — that the parent build found is the nearest reported build below. -/
theorem bump_build_reported_partial (j : Nat) (b : Branch) (rb : RBranch Bumps)
    (hb : (branchesOf h)[j]? = some b) (hrb : g.all[j]? = some rb) (e : Nat)
    (he : SpecBuild h ((branchesOf h).take j) b e) :
    (∃ bd ∈ rb.rbuilds, bd.rcommit = some bd.iid ∧ ∃ rc, g.rcs[bd.iid]? = some rc ∧ rc.commit = e) ∨
    (h.isMatch e = false ∧
      (relevantComps comps = [] ∨
       ∃ (cm : Commit Pins) (pbs : List (RB Bumps)) (bumps : Bumps), h.commits[e]? = some cm ∧ pbs.length ≤ 1 ∧
         (∀ pb ∈ pbs, pb ∈ g.builds) ∧
         mkBumps (sortBy (fun a b => a.1 < b.1) (relevantComps comps)) cm.pins (pbs.map (·.bumps)) = .ok bumps ∧
         ∀ cb ∈ bumps, cb.2.trivial = true)) := by
  rcases rgraph_elig hT hg j b rb hb hrb e he with h1 | ⟨h1, h2⟩
  · exact Or.inl h1
  · right
    refine ⟨h1, ?_⟩
    rcases h2 with h2 | ⟨cm, pbs, bumps, h3, h4, h5, h6, h7⟩
    · left
      simp only [mkPlug, Bool.not_eq_eq_eq_not, Bool.not_false] at h2
      have hemp : (sortBy (fun a b : Nat × Graph Bumps => decide (a.1 < b.1)) (relevantComps comps)) = [] := by
        simpa using h2
      have := (sortBy_perm (fun a b : Nat × Graph Bumps => decide (a.1 < b.1)) (relevantComps comps)).length_eq
      rw [hemp] at this
      exact List.length_eq_zero_iff.mp this.symm
    · right
      refine ⟨cm, pbs, bumps, h3, h4, h5, h6, ?_⟩
      intro cb hcb
      simp only [mkPlug] at h7
      cases hct : cb.2.trivial with
      | true => rfl
      | false =>
        have : (bumps.any fun cb => !cb.2.trivial) = true :=
          List.any_eq_true.mpr ⟨cb, hcb, by simp [hct]⟩
        rw [this] at h7; cases h7

end

/-! Non-vacuity: `app(0) → lib(2), util(4)`, `lib → util` is ordered `util, lib, app` from every supply order;
`app → lib → app` and a self-dependency are rejected. -/
example : sortRepos [0, 2, 4] (fun i => if i = 0 then [2, 4, 9] else if i = 2 then [4] else []) = .ok [4, 2, 0] := by
  decide
example : sortRepos [4, 0, 2] (fun i => if i = 0 then [2, 4, 9] else if i = 2 then [4] else []) = .ok [4, 2, 0] := by
  decide
example : sortRepos [0, 2] (fun i => if i = 0 then [2] else [0]) = .error .valueError := by decide
example : sortRepos [3] (fun _ => [3]) = .error .valueError := by decide

/-! Non-vacuity of the included_at part: a component whose history has a diamond of reported builds
(10.20.1 ← 10.20.2, 10.20.3 ← 10.20.4; report commits numbered 0, 2, 1, 3 by the DFS) and a parent that pins 10.20.2
at build 5.1.1 and 10.20.4 at build 5.1.2: the first build ships 10.20.1 and 10.20.2, the second one only what is
new (10.20.3, 10.20.4) — the diamond does not make 10.20.1 appear again. -/
def exLib : Hist Pins :=
  { commits := [⟨[], [⟨10, 20, 1, 1⟩], true, []⟩, ⟨[0], [⟨10, 20, 2, 2⟩], true, []⟩, ⟨[0], [⟨10, 20, 3, 3⟩], true, []⟩,
                ⟨[1, 2], [⟨10, 20, 4, 4⟩], false, []⟩],
    remote := "origin".toList, refs := [("origin/release/10.20".toList, 3)] }

def exApp : Hist Pins :=
  { commits := [⟨[], [⟨5, 1, 1, 1⟩], false, [(2, (10, 20, 2))]⟩, ⟨[0], [⟨5, 1, 2, 2⟩], false, [(2, (10, 20, 4))]⟩],
    remote := "origin".toList, refs := [("origin/release/5.1".toList, 1)] }

example : (analyse [⟨0, [2], exApp⟩, ⟨2, [], exLib⟩]).map (fun r => (r.1.map (·.id), r.2)) = .ok ([2, 0],
    [⟨2, 0, 0, "release/5.1".toList, ⟨5, 1, 1, 1⟩⟩, ⟨2, 2, 0, "release/5.1".toList, ⟨5, 1, 1, 1⟩⟩,
     ⟨2, 1, 0, "release/5.1".toList, ⟨5, 1, 2, 2⟩⟩, ⟨2, 3, 0, "release/5.1".toList, ⟨5, 1, 2, 2⟩⟩]) := by
  decide +kernel

end C07
