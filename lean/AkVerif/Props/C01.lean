import AkVerif.Lemmas.LLCompose
/-!
# C01 — every parse result is a valid derivation of the user's grammar

Property theorems only.  The model: `LL.construct` (`Model/LLGrammar.lean`, the constructor of
`LLParser`: factorisation incl. the smart undo, nullables/FIRST/FOLLOW, table) and `LL.Parser.parse`
= `LL.run` (`Model/LLParse.lean`, the backtracking stack machine); the driver executes exactly these.
-/
namespace C01
open LL Ak

/-- **Soundness of the parse loop**, for every table (ambiguous or not), every token list, every
fuel and every reachable stack: if the factorised grammar `P` relates to the user's grammar `U`
as `FactOK` says and the table lists only productions of the symbol (`TableWF`), then whatever
`run` returns was produced from a stack `[b]` whose node `b.sym → cs` is valid for the *user's*
grammar (suffix nodes spliced away), the leaves of `cs` are exactly the tokens
`toks[b.start : b.cur]`, and the answer is the first child.  Roll-back re-establishes the
invariant because `switch_to_next_prod` resets exactly `values` and the cursor. -/
theorem run_sound {σ : Type} [DecidableEq σ] {G : Cfg σ} {U P : Gram σ} {toks : List (Tok σ)}
    (hF : FactOK G U P) (hT : TableWF G P) (fuel : Nat) (st : List (Frame σ)) (r : Tree σ)
    (hst : StackOK G U P toks st) (h : run G toks fuel st = .ok r) :
    ∃ b cs, StackOK G U P toks [b] ∧ Valid G U P (.node b.sym cs) ∧
      yieldL cs = seg toks b.start b.cur ∧ cs.head? = some r := by
  obtain ⟨st', hso, b, cs, hst', hv, hy, hh⟩ := LL.run_sound hF hT fuel st r hst h
  subst hst'
  exact ⟨b, cs, hso, hv, hy, hh⟩

/-- every list stored by `_make_llone_table` at `(X, t)` is non-empty and consists of rules of `X`
(so `parse_table.get` never hands the loop a foreign or an empty alternative list) -/
theorem table_wf {σ : Type} [DecidableEq σ] (G : Prods σ) (terms nulls : List σ) (first follow : SetMap σ)
    (T : Table σ) (h : mkTable terms nulls first follow G = .ok T) (X t : σ) (l : List (Rule σ))
    (hl : dget (X, t) T = some l) :
    l ≠ [] ∧ ∀ r ∈ l, ∃ rules, (X, rules) ∈ G ∧ r ∈ rules :=
  mkTable_inv h (X, t) l (dget_mem hl)

/-- **The property, composed** for the parser the constructor builds (both `smart_factorization`
values, any synonyms / keywords / skip set), for every token list and fuel: a returned tree is
rooted at the start symbol, is a derivation tree of the *user's* productions whose leaves are
terminals, contains no helper (suffix) symbol, and its leaves are exactly the non-skipped tokens
(names after synonyms/keywords, values), `$END$` removed.

Hypotheses besides `construct inp = .ok P`:
* `hsu`  — the start symbol is one of the user's symbols (the constructor only checks that it is
           a key of the *factorised* dictionary);
* `hEnd` — no lexeme is named `$END$` (synonyms/keywords do not map to the reserved name);
* `hR : FactRel P` — what factorisation must guarantee (suffix symbols only in last position;
  every flattened expansion of a user symbol is one of the user's alternatives; user symbols
  stay keys; suffix symbols are fresh keys).  **This is the part that is not yet derived from the
  model of `_factorize_productions`** (hence `_partial`); full statement: the same theorem
  without `hR`, with `hR` replaced by "no right-hand side names a `__S` symbol".  Until then the
  factorisation step is covered by the correspondence (prods_map, suffix set and every tree
  compared with the real code) and the oracle. -/
theorem parse_valid_partial (inp : CtorIn) (P : Parser) (hP : construct inp = .ok P)
    (hR : FactRel P) (hsu : P.start ∈ pkeys P.userProds)
    (raw : List (List Char × List Char))
    (hEnd : ∀ tok ∈ (P.tokens raw).dropLast, tok.name ≠ endSym)
    (fuel : Nat) (t : Tree Sym) (h : P.parse raw fuel = .ok t) :
    t.name = P.start ∧ Derives P.terminals P.userProds t ∧ NoHelper P.suffix t ∧
      t.yield = (P.tokens raw).dropLast :=
  parse_sound_of_rel (construct_built hP) hR hsu raw hEnd fuel t h

/-! Non-vacuity: the nested-common-prefix grammar `A → x y z | x y | x` (start `A`), both
`smart_factorization` values, input `x y`: the constructor succeeds and `parse` returns a tree
(evaluated by the kernel); with `smart=False` the returned tree went through a two-level splice. -/
def exInp (smart : Bool) : CtorIn :=
  { groups := ["SPACE".toList, "x".toList, "y".toList, "z".toList], syn := [], kw := [], skip := none,
    start := "A".toList,
    prods := [("A".toList, [["x".toList, "y".toList, "z".toList], ["x".toList, "y".toList], ["x".toList]])],
    smart := smart }

def exRaw : List (List Char × List Char) :=
  [("x".toList, "x".toList), ("SPACE".toList, " ".toList), ("y".toList, "y".toList)]

def parsesTo (smart : Bool) (names : List (List Char)) : Bool :=
  match construct (exInp smart) with
  | .ok P =>
    match P.parse exRaw 1000 with
    | .ok t => decide (t.name = P.start) && decide (t.children.map Tree.name = names.map parseSym)
                && decide (t.yield.map (·.name) = names.map parseSym)
    | .error _ => false
  | .error _ => false

example : parsesTo true ["x".toList, "y".toList] = true := by decide +kernel
example : parsesTo false ["x".toList, "y".toList] = true := by decide +kernel
example : (match construct (exInp false) with
    | .ok P => decide (P.suffix.length = 2)
    | .error _ => false) = true := by decide +kernel

end C01
