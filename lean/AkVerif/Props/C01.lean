import AkVerif.Lemmas.LLFactAll
import AkVerif.Lemmas.LLSession
import AkVerif.Lemmas.LLExpand3
import AkVerif.Lemmas.LLTokens
import AkVerif.Lemmas.LLTmpl
import AkVerif.Lemmas.LLCtorN
import AkVerif.Lemmas.LLSeqFlat
import AkVerif.Lemmas.LLTmplC02
/-!
# C01 — every parse result is a valid derivation of the user's grammar

Property theorems only.  The model: `LL.construct` (`Model/LLGrammar.lean`, the constructor of
`LLParser`: factorisation incl. the smart undo, nullables/FIRST/FOLLOW, table, recursion check)
and `LL.Parser.parse` = `LL.run` (`Model/LLParse.lean`, the backtracking stack machine); the
driver executes exactly these definitions.
-/
namespace C01
open LL Ak

/-- **Soundness of the parse loop**, for every table (ambiguous or not), every token list, every
fuel and every reachable stack: if the factorised grammar `P` relates to the user's grammar `U`
as `FactOK` says and the table lists only productions of the symbol (`TableWF`), then whatever
`run` returns was produced from a stack `[b]` whose node `b.sym → cs` is valid for the *user's*
grammar (suffix nodes spliced away), the leaves of `cs` are exactly the tokens
`toks[b.start : b.cur]`, and the answer is the first child.  Roll-back re-establishes the
invariant because `switch_to_next_prod` resets exactly `values` and the cursor. -/
theorem run_sound {σ : Type} [DecidableEq σ] {G : Cfg σ} {U P : Gram σ} {toks : List (Tok σ)}
    (hF : FactOK G U P) (hT : TableWF G P) (fuel : Nat) (st : List (Frame σ)) (r : Tree σ)
    (hst : StackOK G U P toks st) (h : run G toks fuel st = .ok r) :
    ∃ b cs, StackOK G U P toks [b] ∧ Valid G U P (.node b.sym cs) ∧
      yieldL cs = seg toks b.start b.cur ∧ cs.head? = some r := by
  obtain ⟨st', hso, b, cs, hst', hv, hy, hh⟩ := LL.run_sound hF hT fuel st r hst h
  subst hst'
  exact ⟨b, cs, hso, hv, hy, hh⟩

/-- every list stored by `_make_llone_table` at `(X, t)` is non-empty and consists of rules of `X`
(so `parse_table.get` never hands the loop a foreign or an empty alternative list) -/
theorem table_wf {σ : Type} [DecidableEq σ] (G : Prods σ) (terms nulls : List σ) (first follow : SetMap σ)
    (T : Table σ) (h : mkTable terms nulls first follow G = .ok T) (X t : σ) (l : List (Rule σ))
    (hl : dget (X, t) T = some l) :
    l ≠ [] ∧ ∀ r ∈ l, ∃ rules, (X, rules) ∈ G ∧ r ∈ rules :=
  mkTable_inv h (X, t) l (dget_mem hl)

/-- **Factorisation is correct**, for `_factorize_productions` with and without the smart undo:
whenever it succeeds on a well-formed user dictionary `U` (distinct keys, keys and right-hand
side symbols are no helper symbols; terminals are no helper symbols), the result `(G, S)` satisfies
* helper symbols (`S`) occur only in last position of rules,
* `flatIn`: every expansion of a non-helper symbol obtained by recursively replacing trailing
  helper symbols by their rules is one of the user's alternatives of that symbol,
* `flatOut`: every alternative of the user arises this way,
* the user's symbols are exactly the non-helper keys, helper symbols are fresh keys,
* the keys of `G` are distinct. -/
theorem factorize_ok (terms : List Sym) (U G : Prods Sym) (S : List Sym) (smart : Bool)
    (hU : UserWF U) (hterm : ∀ t ∈ terms, t.path = []) (h : factorize terms U smart = .ok (G, S)) :
    FactRelD U G S ∧ (G.map (·.1)).Nodup :=
  factRelD_factorize hU hterm h

/-- **Factorisation keeps the order of the alternatives** (both settings): reading the rules of a
user symbol `X` in the factorised dictionary from left to right and replacing every trailing helper
symbol by the expansions of its rules, recursively and in order (`ExpandsAll`), reproduces exactly the
list of the user's alternatives of `X`, in the user's order — so the priority of alternatives (which
decides the tree of an ambiguous text) is the one the user wrote. -/
theorem factorize_ordered (terms : List Sym) (U G : Prods Sym) (S : List Sym) (smart : Bool)
    (hU : UserWF U) (hterm : ∀ t ∈ terms, t.path = []) (h : factorize terms U smart = .ok (G, S))
    (X : Sym) (rulesU : List (Rule Sym)) (hX : (X, rulesU) ∈ U) :
    ∃ rulesG, dget X G = some rulesG ∧ ExpandsAll G S (rulesG.map (·.rhs)) (rulesU.map (·.rhs)) :=
  factorize_expands hU hterm h X rulesU hX

/-- **The property, composed** for the parser the constructor builds (both `smart_factorization`
values, any synonyms / keywords / skip set), for every token list and every fuel: a returned tree
is rooted at the start symbol, is a derivation tree of the *user's* productions whose leaves are
terminals (a childless node = an empty production), contains no helper (suffix) symbol, and its
leaves are exactly the non-skipped tokens (names after synonyms/keywords, values), `$END$` removed.

Hypotheses besides `construct inp = .ok P` (which includes the constructor's assertions: no `__`
name among the keys, the right-hand side symbols and the terminals):
* `hstart` — the start symbol is a key of `productions` (the constructor only checks that it is a key
             of the factorised dictionary, which also contains the helper symbols).
* `hEnd`   — no lexeme is named `$END$` (synonyms/keywords do not map to the reserved name). -/
theorem parse_valid (inp : CtorIn) (P : Parser) (hP : construct inp = .ok P)
    (hstart : inp.start ∈ inp.prods.map (·.1))
    (raw : List (List Char × List Char))
    (hEnd : ∀ tok ∈ (P.tokens raw).dropLast, tok.name ≠ endSym)
    (fuel : Nat) (t : Tree Sym) (h : P.parse raw fuel = .ok t) :
    t.name = P.start ∧ Derives P.terminals P.userProds t ∧ NoHelper P.suffix t ∧
      t.yield = (P.tokens raw).dropLast := by
  have hB := construct_built hP
  have h1 := verifyPart1_ok hB.hV
  obtain ⟨hD, _⟩ := factRelD_of_built hB
  exact parse_sound_of_rel hB.core (factRel_of_D h1 hD) (start_user_of_built hB hstart) raw hEnd fuel t h

/-- **The hypothesis `hEnd` follows from the constructor's arguments**: when the lexemes come from the
tokenizer's groups and `$END$` is not among `get_all_token_names()` (no group, synonym target or
keyword target is called `$END$`), no token before the final one is named `$END$` — every name
`tokenize` can produce (synonyms first, then keywords on the renamed token) is one of those names. -/
theorem tokens_no_end (inp : CtorIn) (P : Parser) (hP : construct inp = .ok P)
    (hend : endSym ∉ tokenNames inp) (raw : List (List Char × List Char))
    (hraw : ∀ r ∈ raw, r.1 ∈ inp.groups) :
    ∀ tok ∈ (P.tokens raw).dropLast, tok.name ≠ endSym :=
  LL.tokens_no_end (construct_built hP).hsyn (construct_built hP).hkw hend hraw

/-- **The same for `parse(text, start_symbol_name=s)`** with `s` any key of `productions`: the tree is
rooted at `s` and is a derivation of the user's grammar from `s` (the documented "parse a fragment"
feature runs the same loop on the same table from `$START$ → s $END$`). -/
theorem parse_from_valid (inp : CtorIn) (P : Parser) (hP : construct inp = .ok P) (s : List Char)
    (hs : s ∈ inp.prods.map (·.1)) (raw : List (List Char × List Char))
    (hEnd : ∀ tok ∈ (P.tokens raw).dropLast, tok.name ≠ endSym)
    (fuel : Nat) (t : Tree Sym) (h : P.parseFrom s raw fuel = .ok t) :
    t.name = parseSym s ∧ Derives P.terminals P.userProds t ∧ NoHelper P.suffix t ∧
      t.yield = (P.tokens raw).dropLast :=
  parseFrom_sound (construct_built hP) s hs raw hEnd fuel t h

/-! Facts about the *model* that the statements above and the correspondence rely on are lemmas, not property
theorems (they say nothing about the parser by themselves): `LL.name_parseSym` (decoding a Python name into a
structured symbol and printing it back is the identity), `LL.handle_keeps_state` / `LL.handle_slots_prefix` (the
driver's state is the list of constructed parsers plus an index; only `g` / `use` / `reset` change it, and `g` only
appends — so in the model a call's answer cannot depend on earlier calls; that the *real* parser object behaves
this way is what the call sequences of the correspondence test), `LL.constructG_none` (`constructG` without
templates is `construct`). -/

/-- **The property for dictionaries with production templates** (`ProdSequence`, `ListProds`, `MapProds`;
the productions a template generates enter the model as data `T`, their derivation is C05's subject;
`constructGN nonull T` is the constructor the driver executes: `constructG T` plus the templates' own
`verify_grammar` stage, `nonull` = item symbols of the delimiter-less list templates): the
returned tree is a derivation of the expanded dictionary.  `PlainNames`: no name of the dictionary has the shape
of a factorisation helper (`X__Snn`) — automatic for names without `__`, a decidable condition on the generated
names (`S__ELEMENT`, `L__TAIL`, … satisfy it).  The tree is the *un-flattened* one: a `ProdSequence` symbol `S` is
the right-recursive chain `S → S__ELEMENT S | ()`; see `seq_flatten_yield` for what the real code returns. -/
theorem parse_valid_templates (nonull : List (List Char)) (T : Tmpl) (inp : CtorIn) (P : Parser)
    (hP : constructGN nonull T inp = .ok P)
    (hpl : PlainNames inp.prods) (hstart : inp.start ∈ inp.prods.map (·.1))
    (raw : List (List Char × List Char))
    (hEnd : ∀ tok ∈ (P.tokens raw).dropLast, tok.name ≠ endSym)
    (fuel : Nat) (t : Tree Sym) (h : P.parse raw fuel = .ok t) :
    t.name = P.start ∧ Derives P.terminals P.userProds t ∧ NoHelper P.suffix t ∧
      t.yield = (P.tokens raw).dropLast :=
  parse_valid_G (constructGN_ok hP) hpl hstart raw hEnd fuel t h

/-- **`parse(text, start_symbol_name=s)` on a dictionary with templates**, `s` any key of `productions` (a template
key included): the tree is rooted at `s` and is a derivation of the expanded dictionary from `s`. -/
theorem parse_from_valid_templates (nonull : List (List Char)) (T : Tmpl) (inp : CtorIn) (P : Parser)
    (hP : constructGN nonull T inp = .ok P) (hpl : PlainNames inp.prods) (s : List Char)
    (hs : s ∈ inp.prods.map (·.1)) (raw : List (List Char × List Char))
    (hEnd : ∀ tok ∈ (P.tokens raw).dropLast, tok.name ≠ endSym)
    (fuel : Nat) (t : Tree Sym) (h : P.parseFrom s raw fuel = .ok t) :
    t.name = parseSym s ∧ Derives P.terminals P.userProds t ∧ NoHelper P.suffix t ∧
      t.yield = (P.tokens raw).dropLast :=
  parseFrom_sound_G (constructG_built (constructGN_ok hP)) hpl s hs raw hEnd fuel t h

/-- **Flattened `ProdSequence` nodes lose nothing.**  The real `parse` returns the node of a `ProdSequence` symbol
with the list of the matched members as its value (`_process_seq_telement`); the model returns the chain and the
driver prints it flattened (`Drv.showTree`: `[S member member …]`, members taken out of the chain by `Drv.seqChain`).
`LL.flatF seqs fuel t` is that flattening as a tree (the traversal of `Drv.showTreeF`, `none` exactly where the
driver would print its fallback `?`).  For every derivation tree `t` of the dictionary (what `parse` returns, by
`parse_valid_templates`) with fewer than 10⁷ nodes, when the symbols named in `seqs` have the productions a
`ProdSequence` generates (`SeqOK`: `S → E S | ()`, `E` a non-terminal with one-symbol productions):
the flattening succeeds at every sequence node of the tree (no fallback), keeps the root, **keeps the yield — the
leaves with their values, in order** — and what the driver prints is the plain rendering of the flattened tree. -/
theorem seq_flatten_yield (terms : List Sym) (U : Prods Sym) (seqs : List (List Char))
    (hS : SeqOK terms U seqs) (t : Tree Sym) (hd : Derives terms U t) (hn : t.nodes < 10000000) :
    ∃ t', flatF seqs 10000000 t = some t' ∧ t'.name = t.name ∧ t'.yield = t.yield ∧
      Drv.showTree seqs t = showPlain seqs 10000000 t' :=
  showTree_derives hS t hd hn

/-! Non-vacuity of `SeqOK` and of the flattening: `S = ProdSequence(a, b)`, i.e. `S → S__ELEMENT S | ()`,
`S__ELEMENT → a | b`; on `a b a` the model's tree is a three-link chain, the flattened tree is `[S a b a]` with the
same three leaves. -/
def seqInp : CtorIn :=
  { groups := ["SPACE".toList, "a".toList, "b".toList], syn := [], kw := [], skip := none,
    start := "S".toList,
    prods := [("S".toList, [["S__ELEMENT".toList, "S".toList], []]),
              ("S__ELEMENT".toList, [["a".toList], ["b".toList]])],
    smart := true }

def seqT : Tmpl := ⟨["S".toList], ["S__ELEMENT".toList]⟩

example : (match constructGN [] seqT seqInp with
    | .ok P =>
      decide (SeqOK P.terminals P.userProds ["S".toList]) && decide (PlainNames seqInp.prods) &&
      (match P.parse [("a".toList, "a".toList), ("b".toList, "b".toList), ("a".toList, "a".toList)] 1000 with
       | .ok t =>
         (match flatF ["S".toList] 100 t with
          | some t' => decide (t'.children.map Tree.name = ["a", "b", "a"].map Sym.user) &&
                       decide (t'.yield.map (·.name) = t.yield.map (·.name)) &&
                       decide (t.children.length = 2)
          | none => false)
       | .error _ => false)
    | .error _ => false) = true := by decide +kernel

/-! Non-vacuity: the nested-common-prefix grammar `A → x y z | x y | x` (start `A`), both
`smart_factorization` values, input `x y`: the constructor succeeds and `parse` returns a tree
(evaluated by the kernel); with `smart=False` the returned tree went through a two-level splice. -/
def exInp (smart : Bool) : CtorIn :=
  { groups := ["SPACE".toList, "x".toList, "y".toList, "z".toList], syn := [], kw := [], skip := none,
    start := "A".toList,
    prods := [("A".toList, [["x".toList, "y".toList, "z".toList], ["x".toList, "y".toList], ["x".toList]])],
    smart := smart }

def exRaw : List (List Char × List Char) :=
  [("x".toList, "x".toList), ("SPACE".toList, " ".toList), ("y".toList, "y".toList)]

def parsesTo (inp : CtorIn) (raw : List (List Char × List Char)) (names : List (List Char)) : Bool :=
  match construct inp with
  | .ok P =>
    match P.parse raw 1000 with
    | .ok t => decide (t.name = P.start) && decide (t.children.map Tree.name = names.map parseSym)
                && decide (t.yield.map (·.name) = names.map parseSym)
    | .error _ => false
  | .error _ => false

example : parsesTo (exInp true) exRaw ["x".toList, "y".toList] = true := by decide +kernel
example : parsesTo (exInp false) exRaw ["x".toList, "y".toList] = true := by decide +kernel
example : (match construct (exInp false) with
    | .ok P => decide (P.suffix.length = 2)
    | .error _ => false) = true := by decide +kernel
example : (exInp true).start ∈ (exInp true).prods.map (·.1) := by decide

/-! The reserved-name assertion matters: `E → A b | A c | E__S00 ; A → a` mentions the helper symbol
the factorisation creates for `E`.  Before the repair a1a7d93 the real constructor accepted it and
`parse("b")` returned the node `E → b`, none of the user's productions (the model without the
assertion reproduced exactly that).  Now the constructor — and the model — answer `AssertionError`. -/
def badInp : CtorIn :=
  { groups := ["SPACE".toList, "a".toList, "b".toList, "c".toList], syn := [], kw := [], skip := none,
    start := "E".toList,
    prods := [("E".toList, [["A".toList, "b".toList], ["A".toList, "c".toList], ["E__S00".toList]]),
              ("A".toList, [["a".toList]])],
    smart := true }

example : (match construct badInp with | .error .assertion => true | _ => false) = true := by decide +kernel

/-! `hstart` cannot be dropped: with `start_symbol_name = "E__S00"` (a key of the factorised
dictionary, so the constructor accepts) the root of the returned tree is the helper symbol. -/
def badStart : CtorIn :=
  { badInp with start := "E__S00".toList,
                prods := [("E".toList, [["a".toList, "b".toList], ["a".toList, "c".toList]])],
                smart := false }

example : (match construct badStart with
    | .ok P => (match P.parse [("b".toList, "b".toList)] 1000 with
                | .ok t => decide (t.name = parseSym "E__S00".toList) && decide (t.name ∈ P.suffix)
                | .error _ => false)
    | .error _ => false) = true := by decide +kernel

end C01
