import AkVerif.Gen.C10
import AkVerif.Lemmas.PaletteLazy
/-!
# C10 — rendering is pure: colours never change layout and output has no memory

Property theorems only.  `cfg` is the class table *generated from the source* (`Gen.C10`): built-in
syntax ids, every palette class of the package with its `SYNTAX_DEFAULTS`, `PARENT_PALETTES` and
accessors, and the way `PPEnumFieldType` keys its cell cache.  The two facts about it that the
history theorems rest on (`cfg_ok`, `key_by_object`) are re-decided by the kernel whenever the
source changes: on the tree before `fix: key enum cell cache by palette object` the second one is
false and `history_free` / `nocolor_no_esc` / `strip_eq` stop checking.

A *history* is any list of operations (`Op`: create / drop a configuration, release memory with any
closed keep-set, replace the global configuration, create / drop an enum field type, render any
shape under any configuration, coloured or not) run from the fresh interpreter state with any
allocator that returns addresses not in use (`ValidAlloc`).
-/
namespace C10
open PaletteState Render Ak

abbrev cfg : Cfg := Gen.C10.cfg

/-- the generated class table is well formed: the default syntax id is built in, every built-in and
default description is well formed, defaults of palette classes refer to built-in ids only -/
theorem cfg_ok : cfgOk cfg = true := by decide +kernel

/-- `PPEnumFieldType` keys its cell cache by the palette object (which the cache keeps alive), not by
its address -/
theorem key_by_object : cfg.keyByObj = true := by decide

/-- the state after some history, for some allocator -/
def Reachable (s : State) : Prop :=
  ∃ (alloc : Alloc) (ops : List Op), ValidAlloc alloc ∧ s = run cfg alloc (initState cfg) ops

private theorem le_foldl_max (l : List Nat) : ∀ (init : Nat), init ≤ l.foldl max init ∧ ∀ x ∈ l, x ≤ l.foldl max init := by
  induction l with
  | nil => intro init; simp
  | cons y ys ih =>
    intro init
    obtain ⟨h1, h2⟩ := ih (max init y)
    refine ⟨Nat.le_trans (Nat.le_max_left _ _) h1, ?_⟩
    intro x hx
    simp only [List.mem_cons] at hx
    rcases hx with rfl | hx
    · exact Nat.le_trans (Nat.le_max_right _ _) h1
    · exact h2 x hx

/-- the allocator of the driver (reuse the smallest free address) is one of the allocators the theorems
quantify over -/
theorem driver_alloc_valid : ValidAlloc reuseAlloc := by
  intro l
  simp only [reuseAlloc]
  split
  · intro hin
    have := (le_foldl_max l 0).2 _ hin
    omega
  · rename_i h
    simpa using h

/-- every cache entry of a reachable state refers to a live palette of the right kind and holds what
would be recomputed (`PaletteState.Inv`) -/
theorem reachable_inv {s : State} (h : Reachable s) : Inv cfg s := by
  obtain ⟨alloc, ops, hal, rfl⟩ := h
  have hinit : ∃ c, mkConf cfg false [] = .ok c := by
    have h0 : (match mkConf cfg false [] with | .ok _ => true | .error _ => false) = true := by decide +kernel
    cases hm : mkConf cfg false [] with
    | ok c => exact ⟨c, rfl⟩
    | error e => rw [hm] at h0; cases h0
  exact run_inv cfg_ok key_by_object hal ops _ (initState_inv cfg_ok hinit)

private theorem colorChunks_plain (s : State) (p : Addr) (top : ClassId) :
    ∀ (chs : List SChunk) (cs : List Chunk), colorChunks s p top chs = .ok cs →
      plainOf cs = chs.flatMap (·.text) := by
  intro chs
  induction chs with
  | nil => intro cs h; simp [colorChunks] at h; subst h; rfl
  | cons ch rest ih =>
    intro cs h
    simp only [colorChunks, bind, Except.bind] at h
    cases h1 : tagColor s p top ch.tag with
    | error e => simp [h1] at h
    | ok col =>
      simp only [h1] at h
      cases h2 : colorChunks s p top rest with
      | error e => simp [h2] at h
      | ok cs' =>
        simp only [h2] at h
        cases h
        simp [ih cs' h2]

private theorem colorLines_plain (s : State) (p : Addr) (top : ClassId) :
    ∀ (ls : List SLine) (out : List (List Chunk)), colorLines s p top ls = .ok out →
      out.map plainOf = ls.map fun l => l.chunks.flatMap (·.text) := by
  intro ls
  induction ls with
  | nil => intro out h; simp [colorLines] at h; subst h; rfl
  | cons l rest ih =>
    intro out h
    simp only [colorLines, bind, Except.bind] at h
    cases h1 : colorChunks s p top l.chunks with
    | error e => simp [h1] at h
    | ok cs =>
      simp only [h1] at h
      cases h2 : colorLines s p top rest with
      | error e => simp [h2] at h
      | ok out' =>
        simp only [h2] at h
        cases h
        have e1 := colorChunks_plain s p top l.chunks cs h1
        simp only [List.map_cons, ih out' h2]
        cases l.kind <;> simp [plainOf_mergeAdj, e1]

private theorem render_plain {alloc : Alloc} {k : ConfId} {nc : Bool} {sh : Shape} {s s' : State}
    {out : List (List Chunk)} (h : render cfg alloc k nc sh s = .ok (s', out)) :
    out.map plainOf = sh.lines.map fun l => l.chunks.flatMap (·.text) := by
  unfold render at h
  simp only [bind, Except.bind] at h
  cases h1 : mkPalette cfg alloc sh.top k nc s with
  | error e => simp [h1] at h
  | ok r =>
    obtain ⟨s1, p⟩ := r
    simp only [h1] at h
    cases h2 : getSubs cfg alloc p sh.subs s1 with
    | error e => simp [h2] at h
    | ok s2 =>
      simp only [h2] at h
      cases h3 : colorLines s2 p sh.top sh.lines with
      | error e => simp [h3] at h
      | ok lines =>
        simp only [h3] at h
        cases h
        exact colorLines_plain s2 p sh.top sh.lines out h3

/-- **Colours never change the layout.** Whatever the two states, allocators, configurations and
colour modes: two renderings of the same shape have the same visible characters — line by line and
as a whole text. (No hypothesis on the states: this holds even with stale caches.) -/
theorem layout_indep {a₁ a₂ : Alloc} {k₁ k₂ : ConfId} {nc₁ nc₂ : Bool} {sh : Shape} {s₁ s₁' s₂ s₂' : State}
    {o₁ o₂ : List (List Chunk)}
    (h₁ : render cfg a₁ k₁ nc₁ sh s₁ = .ok (s₁', o₁)) (h₂ : render cfg a₂ k₂ nc₂ sh s₂ = .ok (s₂', o₂)) :
    o₁.map plainOf = o₂.map plainOf ∧
    plainOf (wholeOf '\n' o₁) = plainOf (wholeOf '\n' o₂) := by
  have e : o₁.map plainOf = o₂.map plainOf := by rw [render_plain h₁, render_plain h₂]
  exact ⟨e, plainOf_wholeOf_congr '\n' o₁ o₂ e⟩

/-- **History-free rendering.** After any history, with any allocator: a rendering of a shape under
configuration `k` equals the shape painted by a function of the configuration's description alone
(`pureColorAt`: the colour `get_color` gives to the syntax id of the accessor of the palette class that serves
the chunk — the class named by the tag, or the one `SUB_PALETTES_MAP` of the object's palette class `sh.top`
substitutes for it, `resolveTag`) — always for no-colour
renderings; for coloured ones when every description of the configuration was resolved at its
creation (`closed`) and no accessor used waits for another palette class (`tagStableAt`).
The configuration may have learnt new syntax ids during the rendering (`c'`), its `closed` flag and
colour mode never change. -/
theorem history_free {s s' : State} (hs : Reachable s) {alloc : Alloc} (hal : ValidAlloc alloc)
    {k : ConfId} {nc : Bool} {sh : Shape} {out : List (List Chunk)}
    (h : render cfg alloc k nc sh s = .ok (s', out)) :
    ∃ c c', s.confs.lookup k = some c ∧ s'.confs.lookup k = some c' ∧ c'.closed = c.closed ∧
      c'.noColor = c.noColor ∧
      ((nc = false → c.closed = true ∧ ∀ t ∈ sh.tags, tagStableAt cfg sh.top t = true) →
        out = paintLines (pureColorAt cfg sh.top c' nc) sh.lines) := by
  obtain ⟨c, c', h1, h2, h3, h4, h5, _⟩ := (render_spec cfg_ok key_by_object hal (reachable_inv hs) h).2
  exact ⟨c, c', h1, h2, h3, h4, h5⟩

/-- **History-free rendering, any configuration.** After any history: a coloured rendering that does not
teach the configuration a new syntax id (every palette class it needs is registered already — e.g. any
second rendering of an object of the same kind) equals the shape painted by the pure function of the
configuration's description. No hypothesis on the configuration (dangling references allowed) nor
on the accessors: stale palettes are never used, because the palette cache is dropped whenever the
syntax map changes and a cached palette only memoises sub-palettes made from the same map. -/
theorem history_free_steady {s s' : State} (hs : Reachable s) {alloc : Alloc} (hal : ValidAlloc alloc)
    {k : ConfId} {sh : Shape} {out : List (List Chunk)}
    (h : render cfg alloc k false sh s = .ok (s', out)) :
    ∃ c c', s.confs.lookup k = some c ∧ s'.confs.lookup k = some c' ∧
      (c'.smap.length = c.smap.length → c'.smap = c.smap ∧ out = paintLines (pureColorAt cfg sh.top c' false) sh.lines) := by
  have hinv := reachable_inv hs
  obtain ⟨c, c', h1, h2, _, _, _, h6⟩ := (render_spec cfg_ok key_by_object hal hinv h).2
  refine ⟨c, c', h1, h2, fun hl => ⟨?_, h6 rfl hl⟩⟩
  -- the map only grows
  unfold render at h
  simp only [bind, Except.bind] at h
  cases e1 : mkPalette cfg alloc sh.top k false s with
  | error e => simp [e1] at h
  | ok r =>
    obtain ⟨s1, p⟩ := r
    simp only [e1] at h
    obtain ⟨hinv1, hfr1, _, _⟩ := mkPalette_spec cfg_ok hal hinv e1
    cases e2 : getSubs cfg alloc p sh.subs s1 with
    | error e => simp [e2] at h
    | ok s2 =>
      simp only [e2] at h
      obtain ⟨hinv2, hfr2⟩ := getSubs_spec cfg_ok hal p sh.subs s1 s2 hinv1 e2
      cases e3 : colorLines s2 p sh.top sh.lines with
      | error e => simp [e3] at h
      | ok lines =>
        simp only [e3] at h
        cases h
        obtain ⟨_, hconfs3⟩ := fill_inv (cfg := cfg) p sh.tags s2 hinv2
        obtain ⟨c2, q1, _, _, _, q5⟩ := (hfr1.trans hfr2).confs k c h1
        rw [hconfs3, q1] at h2
        cases h2
        exact (q5 hl).1

/-- **No memory across histories.** Two renderings of the same shape — in different reachable states,
under configurations that ended up with the same descriptions — are identical. -/
theorem same_description_same_output {s₁ s₁' s₂ s₂' : State} (hs₁ : Reachable s₁) (hs₂ : Reachable s₂)
    {a₁ a₂ : Alloc} (ha₁ : ValidAlloc a₁) (ha₂ : ValidAlloc a₂) {k₁ k₂ : ConfId} {nc : Bool} {sh : Shape}
    {o₁ o₂ : List (List Chunk)} {c₁ c₂ : Conf}
    (h₁ : render cfg a₁ k₁ nc sh s₁ = .ok (s₁', o₁)) (h₂ : render cfg a₂ k₂ nc sh s₂ = .ok (s₂', o₂))
    (hc₁ : s₁'.confs.lookup k₁ = some c₁) (hc₂ : s₂'.confs.lookup k₂ = some c₂)
    (hsame : c₁.smap = c₂.smap ∧ c₁.noColor = c₂.noColor)
    (hclosed : nc = false → c₁.closed = true ∧ c₂.closed = true ∧ ∀ t ∈ sh.tags, tagStableAt cfg sh.top t = true) :
    o₁ = o₂ := by
  obtain ⟨d₁, d₁', _, e₁, f₁, _, g₁⟩ := history_free hs₁ ha₁ h₁
  obtain ⟨d₂, d₂', _, e₂, f₂, _, g₂⟩ := history_free hs₂ ha₂ h₂
  rw [hc₁] at e₁; cases e₁
  rw [hc₂] at e₂; cases e₂
  rw [g₁ (fun hf => ⟨by rw [← f₁]; exact (hclosed hf).1, (hclosed hf).2.2⟩),
      g₂ (fun hf => ⟨by rw [← f₂]; exact (hclosed hf).2.1, (hclosed hf).2.2⟩)]
  have : pureColor cfg c₁ nc = pureColor cfg c₂ nc := by
    funext t
    cases t <;> simp only [pureColor]
    all_goals (split; rfl; split; rfl; split; rfl; exact getColor_congr _ c₂ c₁ hsame.1 hsame.2 _)
  have : pureColorAt cfg sh.top c₁ nc = pureColorAt cfg sh.top c₂ nc := by
    funext t; simp only [pureColorAt, this]
  rw [this]

private theorem pureColor_nc (top : ClassId) (c : Conf) (t : Tag) : pureColorAt cfg top c true t = [] := by
  cases t <;> simp [pureColorAt, resolveTag, pureColor]

private theorem allPlain_paint (col : Tag → Color) (hcol : ∀ t, col t = []) (ls : List SLine) :
    ∀ l ∈ paintLines col ls, AllPlain l := by
  intro l hl
  simp only [paintLines, List.mem_map] at hl
  obtain ⟨sl, _, rfl⟩ := hl
  have base : AllPlain (paintChunks col sl.chunks) := by
    intro c hc
    simp only [paintChunks, List.mem_map] at hc
    obtain ⟨ch, _, rfl⟩ := hc
    exact hcol _
  unfold paintLine
  cases sl.kind
  · exact base
  · exact allPlain_mergeAdj _ base

private theorem esc_notin_joinCells (out : List (List Chunk)) (hlines : ∀ l ∈ out, esc ∉ plainOf l) :
    esc ∉ (joinCells '\n' out).map Prod.fst := by
  induction out with
  | nil => simp [joinCells]
  | cons l rest ih =>
    cases rest with
    | nil =>
      simp only [joinCells]
      rw [← plainOf_eq_cells]; exact hlines l (by simp)
    | cons l2 r2 =>
      simp only [joinCells, List.map_append, List.map_cons, List.mem_append, List.mem_cons, not_or]
      refine ⟨by rw [← plainOf_eq_cells]; exact hlines l (by simp), by decide, ?_⟩
      exact ih (fun x hx => hlines x (by simp [hx]))

/-- **A sub-palette follows the compound palette that makes it, substituted or not.** After any history,
`get_sub_palette(c)` of a compound palette `p` gives a palette of the class that `SUB_PALETTES_MAP` of `p`'s class
substitutes for `c` (`c` itself when the map does not mention it), with `p`'s own `no_color` flag and — when
coloured — made from `p`'s own configuration; a sub-palette of a no-colour palette has no colour at all.
(Seeded change C10-m20 — the substituted class is constructed without `no_color` — breaks exactly this.) -/
theorem sub_palette_follows_parent {s s' : State} (hs : Reachable s) {alloc : Alloc} (hal : ValidAlloc alloc)
    {p b : Addr} {c : ClassId} (h : getSub cfg alloc p c s = .ok (s', b)) :
    ∃ pp pb, s'.heap.lookup p = some pp ∧ s'.heap.lookup b = some pb ∧ pb.cls = subCls cfg pp.cls c ∧
      pb.noColor = pp.noColor ∧ (pp.noColor = false → pb.conf = pp.conf) ∧
      (pp.noColor = true → ∀ col ∈ pb.colors, col = []) := by
  obtain ⟨hinv', _, hmemo⟩ := getSub_spec cfg_ok hal (reachable_inv hs) h
  obtain ⟨pp, pb, h1, h2, h3, h4, h5⟩ := hinv'.subs p c b hmemo
  obtain ⟨_, _, _, _, hnc, _⟩ := hinv'.pals b pb h2
  exact ⟨pp, pb, h1, h2, h3, h4, h5, fun hp => hnc (h4.trans hp)⟩

/-- **Palette classes without substitutions.** For an object printed with a palette class whose
`SUB_PALETTES_MAP` is empty (every palette class of the package) the tags are served by the classes they name:
`pureColorAt` / `tagStableAt` are the plain `pureColor` / `tagStable`. -/
theorem no_substitution_no_change {top : ClassId} {ci : ClassInfo} (hci : cfg.classes[top]? = some ci)
    (hsub : ci.subMap = []) (c : Conf) (nc : Bool) (t : Tag) :
    pureColorAt cfg top c nc t = pureColor cfg c nc t ∧ tagStableAt cfg top t = tagStable cfg t := by
  simp only [pureColorAt, tagStableAt, resolveTag_id hci hsub t, and_self]

/-- **No-colour output has no escape sequence.** After any history a no-colour rendering consists of
chunks without prefix: the text printed is exactly the plain text, so it contains an ESC only if the
content itself does. -/
theorem nocolor_no_esc {s s' : State} (hs : Reachable s) {alloc : Alloc} (hal : ValidAlloc alloc)
    {k : ConfId} {sh : Shape} {out : List (List Chunk)}
    (h : render cfg alloc k true sh s = .ok (s', out)) :
    (∀ l ∈ out, AllPlain l) ∧
    strOf (wholeOf '\n' out) = plainOf (wholeOf '\n' out) ∧
    ((∀ l ∈ sh.lines, ∀ ch ∈ l.chunks, esc ∉ ch.text) → esc ∉ strOf (wholeOf '\n' out)) := by
  obtain ⟨c, c', _, _, _, _, g⟩ := history_free hs hal h
  have hout := g (by simp)
  have hplain : ∀ l ∈ out, AllPlain l := by
    rw [hout]; exact allPlain_paint _ (pureColor_nc sh.top c') sh.lines
  have hwhole : AllPlain (wholeOf '\n' out) :=
    allPlain_buildText _ (allPlain_joinLines '\n' out hplain)
  refine ⟨hplain, strOf_allPlain _ hwhole, ?_⟩
  intro hesc
  rw [strOf_allPlain _ hwhole, plainOf_eq_cells, cellsOf_wholeOf]
  -- the characters are those of the lines and the separators
  have hlines : ∀ l ∈ out, esc ∉ plainOf l := by
    intro l hl
    have hm : plainOf l ∈ out.map plainOf := List.mem_map.mpr ⟨l, hl, rfl⟩
    rw [render_plain h] at hm
    obtain ⟨sl, hsl, he⟩ := List.mem_map.mp hm
    rw [← he]
    intro hin
    obtain ⟨ch, hch, hin'⟩ := List.mem_flatMap.mp hin
    exact hesc sl hsl ch hch hin'
  exact esc_notin_joinCells out hlines

/-! Well-formed prefixes: what `strip_colors` needs. -/

private def Good (c : Chunk) : Prop := ValidPrefix c.pre ∧ esc ∉ c.text

private theorem good_mergeAdj (cs : List Chunk) (h : ∀ c ∈ cs, Good c) : ∀ c ∈ mergeAdj cs, Good c := by
  induction cs with
  | nil => simp [mergeAdj]
  | cons c rest ih =>
    have hc := h c (by simp)
    have hr := ih (fun d hd => h d (by simp [hd]))
    simp only [mergeAdj]
    split
    · intro x hx; simp at hx; subst hx; exact hc
    · rename_i d ds hm
      rw [hm] at hr
      have hd := hr d (by simp)
      split
      · intro x hx
        simp at hx
        rcases hx with rfl | hx
        · exact ⟨hc.1, by simp only [List.mem_append, not_or]; exact ⟨hc.2, hd.2⟩⟩
        · exact hr x (by simp [hx])
      · intro x hx
        simp at hx
        rcases hx with rfl | rfl | hx
        · exact hc
        · exact hd
        · exact hr x (by simp [hx])

private theorem good_appendRev (acc : List Chunk) (c : Chunk) (ha : ∀ d ∈ acc, Good d) (hc : Good c) :
    ∀ d ∈ appendRev acc c, Good d := by
  unfold appendRev
  split
  · exact ha
  · cases acc with
    | nil => intro x hx; simp at hx; subst hx; exact hc
    | cons d ds =>
      have hd := ha d (by simp)
      simp only []
      split
      · intro x hx
        simp at hx
        rcases hx with rfl | hx
        · exact ⟨hd.1, by simp only [List.mem_append, not_or]; exact ⟨hd.2, hc.2⟩⟩
        · exact ha x (by simp [hx])
      · intro x hx
        simp at hx
        rcases hx with rfl | rfl | hx
        · exact hc
        · exact hd
        · exact ha x (by simp [hx])

private theorem good_buildText (cs : List Chunk) (h : ∀ c ∈ cs, Good c) : ∀ c ∈ buildText cs, Good c := by
  have : ∀ (cs acc : List Chunk), (∀ d ∈ acc, Good d) → (∀ c ∈ cs, Good c) → ∀ d ∈ cs.foldl appendRev acc, Good d := by
    intro cs
    induction cs with
    | nil => intro acc ha _; exact ha
    | cons c cs ih =>
      intro acc ha hc
      exact ih _ (good_appendRev acc c ha (hc c (by simp))) (fun d hd => hc d (by simp [hd]))
  intro c hc
  simp only [buildText, List.mem_reverse] at hc
  exact this cs [] (by simp) h c hc

private theorem good_joinLines (ls : List (List Chunk)) (h : ∀ l ∈ ls, ∀ c ∈ l, Good c) :
    ∀ c ∈ joinLines '\n' ls, Good c := by
  induction ls with
  | nil => simp [joinLines]
  | cons l rest ih =>
    cases rest with
    | nil => exact h l (by simp)
    | cons l2 r2 =>
      intro c hc
      simp only [joinLines, List.mem_append, List.mem_cons] at hc
      rcases hc with hc | rfl | hc
      · exact h l (by simp) c hc
      · exact ⟨Or.inl rfl, by decide⟩
      · exact ih (fun x hx => h x (by simp [hx])) c (by simpa [joinLines] using hc)

private theorem tagColor_valid {s : State} (hinv : Inv cfg s) (p : Addr) (top : ClassId) (t : Tag) {col : Color}
    (h : tagColor s p top t = .ok col) : ValidPrefix col := by
  have pal : ∀ a pa i, getPal s a = .ok pa → nth pa.colors i = .ok col → ValidPrefix col := by
    intro a pa i hpa hn
    unfold getPal at hpa
    split at hpa
    · rename_i q hq
      cases hpa
      obtain ⟨_, _, _, hv, _⟩ := hinv.pals a pa hq
      exact hv col (List.mem_of_getElem? (nth_some hn))
    · cases hpa
  cases t with
  | plain => simp [tagColor] at h; subst h; left; rfl
  | pal c i =>
    simp only [tagColor, bind, Except.bind] at h
    by_cases hcp : c = top
    · simp only [hcp, if_true] at h
      cases hg : getPal s p with
      | error e => simp [hg] at h
      | ok pa => simp only [hg] at h; exact pal p pa i hg h
    · simp only [hcp, if_false] at h
      cases ha : subAddr s p c with
      | error e => simp [ha] at h
      | ok a =>
        simp only [ha] at h
        cases hg : getPal s a with
        | error e => simp [hg] at h
        | ok pa => simp only [hg] at h; exact pal a pa i hg h
  | enum e v c i =>
    simp only [tagColor, bind, Except.bind] at h
    cases ha : subAddr s p c with
    | error er => simp [ha] at h
    | ok a =>
      simp only [ha] at h
      split at h
      · cases h
      · rename_i ec hen
        split at h
        · rename_i cols hhit
          obtain ⟨q, hq, hcols⟩ := hinv.enums key_by_object e ec a v cols hen hhit
          obtain ⟨_, _, _, hv, _⟩ := hinv.pals a q hq
          rw [hcols] at h
          exact hv col (List.mem_of_getElem? (nth_some h))
        · cases hg : getPal s a with
          | error er => simp [hg] at h
          | ok pa => simp only [hg] at h; exact pal a pa i hg h

private theorem colorChunks_good {s : State} (hinv : Inv cfg s) (p : Addr) (top : ClassId) :
    ∀ (chs : List SChunk) (cs : List Chunk), (∀ ch ∈ chs, esc ∉ ch.text) → colorChunks s p top chs = .ok cs →
      ∀ c ∈ cs, Good c := by
  intro chs
  induction chs with
  | nil => intro cs _ h; simp [colorChunks] at h; subst h; simp
  | cons ch rest ih =>
    intro cs hesc h
    simp only [colorChunks, bind, Except.bind] at h
    cases h1 : tagColor s p top ch.tag with
    | error e => simp [h1] at h
    | ok col =>
      simp only [h1] at h
      cases h2 : colorChunks s p top rest with
      | error e => simp [h2] at h
      | ok cs' =>
        simp only [h2] at h
        cases h
        intro c hc
        simp at hc
        rcases hc with rfl | hc
        · exact ⟨tagColor_valid hinv p top ch.tag h1, hesc ch (by simp)⟩
        · exact ih cs' (fun x hx => hesc x (by simp [hx])) h2 c hc

private theorem colorLines_good {s : State} (hinv : Inv cfg s) (p : Addr) (top : ClassId) :
    ∀ (ls : List SLine) (out : List (List Chunk)), (∀ l ∈ ls, ∀ ch ∈ l.chunks, esc ∉ ch.text) →
      colorLines s p top ls = .ok out → ∀ l ∈ out, ∀ c ∈ l, Good c := by
  intro ls
  induction ls with
  | nil => intro out _ h; simp [colorLines] at h; subst h; simp
  | cons l rest ih =>
    intro out hesc h
    simp only [colorLines, bind, Except.bind] at h
    cases h1 : colorChunks s p top l.chunks with
    | error e => simp [h1] at h
    | ok cs =>
      simp only [h1] at h
      cases h2 : colorLines s p top rest with
      | error e => simp [h2] at h
      | ok out' =>
        simp only [h2] at h
        cases h
        have g1 := colorChunks_good hinv p top l.chunks cs (hesc l (by simp)) h1
        intro x hx
        simp at hx
        rcases hx with rfl | hx
        · cases l.kind
          · exact g1
          · exact good_mergeAdj cs g1
        · exact ih out' (fun y hy => hesc y (by simp [hy])) h2 x hx

private theorem render_good {alloc : Alloc} (hal : ValidAlloc alloc) {k : ConfId} {nc : Bool} {sh : Shape}
    {s s' : State} {out : List (List Chunk)} (hinv : Inv cfg s)
    (hesc : ∀ l ∈ sh.lines, ∀ ch ∈ l.chunks, esc ∉ ch.text)
    (h : render cfg alloc k nc sh s = .ok (s', out)) : ∀ l ∈ out, ∀ c ∈ l, Good c := by
  unfold render at h
  simp only [bind, Except.bind] at h
  cases h1 : mkPalette cfg alloc sh.top k nc s with
  | error e => simp [h1] at h
  | ok r =>
    obtain ⟨s1, p⟩ := r
    simp only [h1] at h
    obtain ⟨hinv1, _, _⟩ := mkPalette_spec cfg_ok hal hinv h1
    cases h2 : getSubs cfg alloc p sh.subs s1 with
    | error e => simp [h2] at h
    | ok s2 =>
      simp only [h2] at h
      obtain ⟨hinv2, _⟩ := getSubs_spec cfg_ok hal p sh.subs s1 s2 hinv1 h2
      cases h3 : colorLines s2 p sh.top sh.lines with
      | error e => simp [h3] at h
      | ok lines =>
        simp only [h3] at h
        cases h
        exact colorLines_good hinv2 p sh.top sh.lines out hesc h3

/-- the pattern of `strip_colors` read from the source: it ends in `m`, `m` is not in its class, and the
class contains every parameter character the package emits (ASCII digits, `;`, `:`) -/
theorem strip_pattern_ok : Gen.C10.stripFinal = 'm' ∧ Gen.C10.stripClass.mem 'm' = false ∧
    ∀ c, isSgrParam c = true → Gen.C10.stripClass.mem c = true := by
  refine ⟨by decide, by decide +kernel, ?_⟩
  intro c hc
  simp only [isSgrParam, Bool.or_eq_true, beq_iff_eq] at hc
  simp only [Sgr.CharClass.mem, Bool.or_eq_true, List.any_eq_true]
  rcases hc with (hd | rfl) | rfl
  · right
    refine ⟨(48, 57), by decide +kernel, ?_⟩
    simp only [Char.isDigit, Bool.and_eq_true, decide_eq_true_eq] at hd
    simp only [Bool.and_eq_true, decide_eq_true_eq]
    have h1 : (48 : Nat) ≤ c.toNat := by have := hd.1; exact UInt32.le_iff_toNat_le.mp this
    have h2 : c.toNat ≤ 57 := by have := hd.2; exact UInt32.le_iff_toNat_le.mp this
    exact ⟨h1, h2⟩
  · left; decide +kernel
  · left; decide +kernel

/-- **Stripping the colours gives the no-colour rendering.** After any histories: the coloured
rendering of a shape with ESC-free content, passed through the model of `CHText.strip_colors` (C09's
`Sgr.strip` over the character class generated from the source; executed by the driver on every coloured
whole text), is character for character the no-colour rendering of the same shape — whatever the
configurations. -/
theorem strip_eq {s₁ s₁' s₂ s₂' : State} (hs₁ : Reachable s₁) (hs₂ : Reachable s₂)
    {a₁ a₂ : Alloc} (ha₁ : ValidAlloc a₁) (ha₂ : ValidAlloc a₂) {k₁ k₂ : ConfId} {nc₁ : Bool} {sh : Shape}
    {o₁ o₂ : List (List Chunk)}
    (hesc : ∀ l ∈ sh.lines, ∀ ch ∈ l.chunks, esc ∉ ch.text)
    (h₁ : render cfg a₁ k₁ nc₁ sh s₁ = .ok (s₁', o₁)) (h₂ : render cfg a₂ k₂ true sh s₂ = .ok (s₂', o₂)) :
    Sgr.strip Gen.C10.stripClass Gen.C10.stripFinal (strOf (wholeOf '\n' o₁)) = strOf (wholeOf '\n' o₂) := by
  have g := good_buildText _ (good_joinLines o₁ (render_good ha₁ (reachable_inv hs₁) hesc h₁))
  rw [show wholeOf '\n' o₁ = buildText (joinLines '\n' o₁) from rfl]
  rw [strip_pattern_ok.1]
  rw [strip_strOf Gen.C10.stripClass strip_pattern_ok.2.2 strip_pattern_ok.2.1 _
    (fun c hc => (g c hc).1) (fun c hc => (g c hc).2)]
  rw [(nocolor_no_esc hs₂ ha₂ h₂).2.1]
  exact (layout_indep h₁ h₂).2

private theorem reachable_both {s : State} (h : Reachable s) : Inv cfg s ∧ ResOk s := by
  obtain ⟨alloc, ops, hal, rfl⟩ := h
  have hinit : ∃ c, mkConf cfg false [] = .ok c := by
    have h0 : (match mkConf cfg false [] with | .ok _ => true | .error _ => false) = true := by decide +kernel
    cases hm : mkConf cfg false [] with
    | ok c => exact ⟨c, rfl⟩
    | error e => rw [hm] at h0; cases h0
  exact run_inv_resOk cfg_ok key_by_object hal ops _ (initState_inv cfg_ok hinit) (initState_resOk cfg)

private theorem lines_of_holder {s s1 : State} {alloc : Alloc} (hal : ValidAlloc alloc) (hinv : Inv cfg s)
    {p : Addr} {conf : ConfId} {top : ClassId} {nc : Bool} (hho : HolderOk s p conf top nc)
    {ls : List LLine} {outs : List (List Chunk)} (h : stepLines cfg alloc p top ls s = .ok (s1, outs)) :
    ∃ pp c', s1.heap.lookup p = some pp ∧ s1.confs.lookup pp.conf = some c' ∧ (nc = false → pp.conf = conf) ∧
      ((nc = false → c'.closed = true ∧ ∀ l ∈ ls, ∀ ch ∈ l.line.chunks, tagStableAt cfg top ch.tag = true) →
        outs = ls.map fun l => paintLine (pureColorAt cfg top c' nc) l.line) := by
  obtain ⟨pp, hp, hcls, hnc, hconf⟩ := hho
  obtain ⟨hinv1, hfr⟩ := stepLines_spec cfg_ok hal p top ls s s1 outs hinv h
  have hp1 := hfr.heap p pp hp
  have hlive := hinv1.live p pp hp1
  cases hk : s1.confs.lookup pp.conf with
  | none => simp [hk] at hlive
  | some c' =>
    refine ⟨pp, c', hp1, hk, hconf, ?_⟩
    intro hst
    apply stepLines_pure cfg_ok key_by_object hal p top (pureColorAt cfg top c' nc) hinv1 ls s s1 outs hinv h (Frame.refl s1)
    intro l hl ch hch col hcol
    subst hcls
    exact tagColor_pure key_by_object hinv1 hk hp1 hnc (fun _ => rfl) ch.tag
      (fun hf => ⟨(hst hf).1, (hst hf).2 l hl ch hch⟩) hcol

/-- **A lazy result has no memory either (line iterators).** After any history — whatever was rendered,
registered, collected or made global between the request `r = obj.ch_text(...)`, `iter(r)` and this `next` —
the lines an iterator generates now are the object's next lines painted by the pure function of the
configuration the result was requested for (always without colours; with colours for a configuration that was
resolved at creation, accessors that do not wait for another palette class). Iterators of the same object do
not influence each other: the statement is per iterator, for every interleaving. -/
theorem lazy_lines_history_free {s s' : State} (hs : Reachable s) {alloc : Alloc} (hal : ValidAlloc alloc)
    {i : IterId} {n : Nat} {outs : List (List Chunk)} (h : nextIter cfg alloc i n s = .ok (s', outs)) :
    ∃ it pp c', s.iters.lookup i = some it ∧ s'.heap.lookup it.p = some pp ∧ s'.confs.lookup pp.conf = some c' ∧
      (it.nc = false → pp.conf = it.conf) ∧
      ((it.nc = false → c'.closed = true ∧ ∀ l ∈ it.rest.take n, ∀ ch ∈ l.line.chunks, tagStableAt cfg it.top ch.tag = true) →
        outs = (it.rest.take n).map fun l => paintLine (pureColorAt cfg it.top c' it.nc) l.line) := by
  obtain ⟨hinv, hro⟩ := reachable_both hs
  unfold nextIter at h
  split at h
  · cases h
  · rename_i it hit
    simp only [bind, Except.bind] at h
    cases h1 : stepLines cfg alloc it.p it.top (it.rest.take n) s with
    | error e => simp [h1] at h
    | ok r1 =>
      obtain ⟨s1, ls⟩ := r1
      simp only [h1] at h
      cases h
      obtain ⟨pp, c', e1, e2, e3, e4⟩ := lines_of_holder hal hinv (hro.its i it hit) h1
      exact ⟨it, pp, c', hit, e1, e2, e3, e4⟩

/-- **A lazy result has no memory either (whole text).** The first `str(r)` of a result, whenever it happens,
is the whole text of the object's lines painted by the pure function of the configuration the result was
requested for (same conditions as `lazy_lines_history_free`). -/
theorem lazy_whole_history_free {s s' : State} (hs : Reachable s) {alloc : Alloc} (hal : ValidAlloc alloc)
    {r : ResId} {w : List Chunk} (h : strRes cfg alloc r s = .ok (s', w)) :
    ∃ res, s.results.lookup r = some res ∧ (res.memo = none →
      ∃ pp c', s'.heap.lookup res.p = some pp ∧ s'.confs.lookup pp.conf = some c' ∧
        (res.nc = false → pp.conf = res.conf) ∧
        ((res.nc = false → c'.closed = true ∧ ∀ l ∈ res.lines, ∀ ch ∈ l.line.chunks, tagStableAt cfg res.top ch.tag = true) →
          w = wholeOf '\n' (res.lines.map fun l => paintLine (pureColorAt cfg res.top c' res.nc) l.line))) := by
  obtain ⟨hinv, hro⟩ := reachable_both hs
  unfold strRes at h
  split at h
  · cases h
  · rename_i res hres
    refine ⟨res, hres, ?_⟩
    intro hmemo
    rw [hmemo] at h
    simp only [bind, Except.bind] at h
    cases h1 : stepLines cfg alloc res.p res.top res.lines s with
    | error e => simp [h1] at h
    | ok r1 =>
      obtain ⟨s1, ls⟩ := r1
      simp only [h1] at h
      cases h
      obtain ⟨pp, c', e1, e2, e3, e4⟩ := lines_of_holder hal hinv (hro.res r res hres) h1
      exact ⟨pp, c', e1, e2, e3, fun hst => by rw [e4 hst]⟩

/-- **Line by line = whole, for what the model runs.** After any history: `str(r)` makes the whole text of a
result; an iterator made afterwards over the same result and consumed completely yields lines whose join is
exactly that whole text (same chunks, hence same characters and same colours) — for every configuration,
closed or not, with no hypothesis on the accessors: the second generation reads the same palette objects,
memoised sub-palettes and cached cells as the first. (The list identity `cellsOf (wholeOf sep ls) = joinCells sep
ls`, valid for any lines, is `Render.cellsOf_wholeOf`.) -/
theorem lines_eq_whole {s s1 s2 s3 : State} (hs : Reachable s) {alloc : Alloc} (hal : ValidAlloc alloc)
    {r : ResId} {i : IterId} {n : Nat} {res : Res} {w : List Chunk} {outs : List (List Chunk)}
    (hres : s.results.lookup r = some res) (hmemo : res.memo = none) (hn : res.lines.length ≤ n)
    (h1 : strRes cfg alloc r s = .ok (s1, w)) (h2 : mkIter i r s1 = .ok s2)
    (h3 : nextIter cfg alloc i n s2 = .ok (s3, outs)) :
    w = wholeOf '\n' outs ∧ cellsOf w = joinCells '\n' outs := by
  obtain ⟨hinv, _⟩ := reachable_both hs
  -- the first generation
  unfold strRes at h1
  rw [hres] at h1
  simp only [hmemo, bind, Except.bind] at h1
  cases g1 : stepLines cfg alloc res.p res.top res.lines s with
  | error e => simp [g1] at h1
  | ok r1 =>
    obtain ⟨sa, ls⟩ := r1
    simp only [g1] at h1
    cases h1
    obtain ⟨hinva, _⟩ := stepLines_spec cfg_ok hal _ _ _ s _ _ hinv g1
    -- the iterator copies palette and lines of the result
    unfold mkIter at h2
    simp only [] at h2
    rw [lookup_cons_eq] at h2
    simp only [] at h2
    cases h2
    unfold nextIter at h3
    simp only [] at h3
    rw [lookup_cons_eq] at h3
    simp only [bind, Except.bind] at h3
    have htake : res.lines.take n = res.lines := List.take_of_length_le hn
    rw [htake] at h3
    split at h3
    · cases h3
    · rename_i v g2
      obtain ⟨sb, ls2⟩ := v
      cases h3
      have := stepLines_again cfg_ok key_by_object hal hal res.p res.top res.lines s sa _ sb ls ls2 hinv
        (inv_lazy_irrel hinva _ _) g1 (frame_lazy sa _ _) g2
      rw [this]
      exact ⟨rfl, cellsOf_wholeOf '\n' ls⟩

private theorem paintLines_congr (f g : Tag → Color) (ls : List SLine)
    (h : ∀ l ∈ ls, ∀ ch ∈ l.chunks, f ch.tag = g ch.tag) : paintLines f ls = paintLines g ls := by
  simp only [paintLines]
  apply List.map_congr_left
  intro l hl
  have : paintChunks f l.chunks = paintChunks g l.chunks := by
    simp only [paintChunks]
    apply List.map_congr_left
    intro ch hch
    rw [h l hl ch hch]
  simp only [paintLine, this]

/-- **A after B = A alone.** Two renderings of the same shape, in any two reachable states (after any two
histories, e.g. one of them empty), under closed configurations that may have learnt different syntax ids
meanwhile: if the two configurations give the same colour to the syntax ids that the shape uses, the outputs
are identical. What else was registered, rendered, cached or collected before does not matter. -/
theorem same_colors_same_output {s₁ s₁' s₂ s₂' : State} (hs₁ : Reachable s₁) (hs₂ : Reachable s₂)
    {a₁ a₂ : Alloc} (ha₁ : ValidAlloc a₁) (ha₂ : ValidAlloc a₂) {k₁ k₂ : ConfId} {nc : Bool} {sh : Shape}
    {o₁ o₂ : List (List Chunk)} {c₁ c₂ : Conf}
    (h₁ : render cfg a₁ k₁ nc sh s₁ = .ok (s₁', o₁)) (h₂ : render cfg a₂ k₂ nc sh s₂ = .ok (s₂', o₂))
    (hc₁ : s₁'.confs.lookup k₁ = some c₁) (hc₂ : s₂'.confs.lookup k₂ = some c₂)
    (hsame : ∀ t ∈ sh.tags, pureColorAt cfg sh.top c₁ nc t = pureColorAt cfg sh.top c₂ nc t)
    (hclosed : nc = false → c₁.closed = true ∧ c₂.closed = true ∧ ∀ t ∈ sh.tags, tagStableAt cfg sh.top t = true) :
    o₁ = o₂ := by
  obtain ⟨d₁, d₁', _, e₁, f₁, _, g₁⟩ := history_free hs₁ ha₁ h₁
  obtain ⟨d₂, d₂', _, e₂, f₂, _, g₂⟩ := history_free hs₂ ha₂ h₂
  rw [hc₁] at e₁; cases e₁
  rw [hc₂] at e₂; cases e₂
  rw [g₁ (fun hf => ⟨by rw [← f₁]; exact (hclosed hf).1, (hclosed hf).2.2⟩),
      g₂ (fun hf => ⟨by rw [← f₂]; exact (hclosed hf).2.1, (hclosed hf).2.2⟩)]
  apply paintLines_congr
  intro l hl ch hch
  apply hsame
  simp only [Shape.tags, List.mem_flatMap, List.mem_map]
  exact ⟨l, hl, ch, hch, rfl⟩

/-- **Registrations never change a colour a closed configuration already gives.** Whatever palette class
registers its defaults in a configuration of a reachable state whose descriptions were all resolved at creation
(this is the only way a configuration's syntax map ever changes after its creation): every syntax id the
configuration knew keeps its colour, and an id that is still unknown afterwards keeps falling back to the same
default colour. So "A after B" and "A alone" can only differ in ids that B's palette classes define and A uses
without defining them (the accessors excluded by `tagStable`). -/
theorem registration_keeps_colors {s : State} (hs : Reachable s) {k : ConfId} {c c' : Conf}
    (hk : s.confs.lookup k = some c) (hclosed : c.closed = true) {cls : ClassId}
    (hreg : registerCls cfg cls c = .ok c') (x : SyntId)
    (hx : (c.smap.lookup x).isSome ∨ (c'.smap.lookup x).isNone) :
    getColor cfg.dfltId c' x = getColor cfg.dfltId c x := by
  have hc := (reachable_inv hs).confs k c hk
  obtain ⟨_, hstep⟩ := registerCls_ok cfg_ok hc hreg
  exact getColor_ext cfg.dfltId (hc.builtin _ (cfgOk_dflt cfg_ok)) (hc.closed hclosed) hstep.sub hstep.len hstep.nc x hx

/-- **The memoised whole text of a result cannot be changed from outside.** Once `str(r)` has made the text, every
later `str(r)` / `plain_text()` / `len()` returns that very text and leaves the state as it is: in the model a
result hands out values, never the memo itself (what `fixed_len`, `get_ch_text`, `+` and slices of the real
`CHTextResult` must do: seeded change C10-m15 breaks it). -/
theorem whole_memo_stable {s s1 s2 : State} {alloc : Alloc} {r : ResId} {w w' : List Chunk}
    (h1 : strRes cfg alloc r s = .ok (s1, w)) (h2 : strRes cfg alloc r s1 = .ok (s2, w')) : w' = w ∧ s2 = s1 := by
  have hmemo : ∃ res, s1.results.lookup r = some res ∧ res.memo = some w := by
    unfold strRes at h1
    split at h1
    · cases h1
    · rename_i res hres
      split at h1
      · rename_i w0 hm
        cases h1
        exact ⟨res, hres, hm⟩
      · simp only [bind, Except.bind] at h1
        split at h1
        · cases h1
        · rename_i v _
          cases h1
          exact ⟨_, lookup_cons_eq _ _ _, rfl⟩
  obtain ⟨res, hres, hm⟩ := hmemo
  unfold strRes at h2
  rw [hres] at h2
  simp only [hm] at h2
  cases h2
  exact ⟨rfl, rfl⟩

private theorem lookup_map_keep {κ ν : Type} [BEq κ] [LawfulBEq κ] (f : κ × ν → κ × ν) (hf : ∀ e, (f e).1 = e.1) (k : κ) :
    ∀ (l : List (κ × ν)), List.lookup k (l.map f) = (List.lookup k l).map (fun v => (f (k, v)).2) := by
  intro l
  induction l with
  | nil => rfl
  | cons e l ih =>
    obtain ⟨k0, v0⟩ := e
    have he : f (k0, v0) = (k0, (f (k0, v0)).2) := by
      have := hf (k0, v0)
      exact Prod.ext this rfl
    simp only [List.map_cons]
    rw [he]
    by_cases hk : k = k0
    · subst hk; simp
    · rw [lookup_cons_ne _ _ hk, lookup_cons_ne _ _ hk, ih]

/-- **`set_global_colors_config` re-syncs every synced palette.** Right after a configuration is made global,
every palette object synced with the global configuration (`P(synced=True)`, any class) has exactly the colours
the new global configuration gives to its accessors — nothing of the former global configuration is left. -/
theorem set_global_resyncs {s s' : State} {k : ConfId} (h : setGlobal cfg k s = .ok s')
    {cls : ClassId} {cols : List Color} {ci : ClassInfo} {c : Conf}
    (hs : s'.synced.lookup cls = some cols) (hci : cfg.classes[cls]? = some ci) (hc : s'.confs.lookup k = some c)
    (hgp : (cfg.classes[cfg.gpClass]?).isSome) : s'.global = k ∧ cols = snapshot cfg ci c := by
  unfold setGlobal at h
  simp only [bind, Except.bind] at h
  cases hg : getConf s k with
  | error e => simp [hg] at h
  | ok c0 =>
    simp only [hg] at h
    cases h
    obtain ⟨e1, _, _, _, _, _, e7⟩ := syncGp_fields cfg { regSynced cfg k (s.synced.map (·.1)) s with global := k }
    rw [e1] at hc
    refine ⟨e7, ?_⟩
    unfold syncGp at hs
    simp only [] at hs hc
    rw [hc] at hs
    cases hg2 : cfg.classes[cfg.gpClass]? with
    | none => simp [hg2] at hgp
    | some cg =>
      simp only [hg2] at hs
      rw [lookup_map_keep _ (fun e => by cases cfg.classes[e.1]? <;> rfl)] at hs
      cases hl : List.lookup cls (regSynced cfg k (s.synced.map (·.1)) s).synced with
      | none => simp [hl] at hs
      | some v =>
        simp only [hl, Option.map_some, hci] at hs
        cases hs
        rfl

/-- **The synced `global_palette` has no memory either.** After any history its attributes are the
colours that the global configuration in force gives to its syntax ids (whatever configurations were
global before, whatever was registered meanwhile). -/
theorem gp_synced {s : State} (hs : Reachable s) :
    ∃ c, s.confs.lookup s.global = some c ∧
      ∀ ci, cfg.classes[cfg.gpClass]? = some ci → s.gp = ci.localSyntax.map (getColor cfg.dfltId c) := by
  have hinv := reachable_inv hs
  cases hg : s.confs.lookup s.global with
  | none => have := hinv.glob; simp [hg] at this
  | some c => exact ⟨c, rfl, fun ci hci => hinv.gp c ci hg hci⟩

/-! ## Checked examples

A one-line "table": a border chunk (accessor `border` of `TablePalette`, class 3), a cell of enum type 0
for value 0 (accessor `name_good` of `EnumPalette`, class 5, through the cell cache), a border chunk.
The sub-palettes are requested in the order `RecordPalette`, `EnumPalette`, `TitlePalette`. -/

private def plainDescr (fg : String) : Descr := ⟨none, .elem fg.toList, .inherit, [none, none, none, none, none]⟩
private def aliasDescr (parent : String) : Descr := ⟨some parent.toList, .inherit, .inherit, [none, none, none, none, none]⟩

private def sh : Shape :=
  ⟨3, [1, 5, 2], [⟨.raw, [⟨.pal 3 1, "|".toList⟩, ⟨.enum 0 0 5 4, "one".toList⟩, ⟨.pal 3 1, "|".toList⟩]⟩]⟩

/-- configuration 1 = `{"TEXT": "RED"}` renders the table, is dropped, memory is collected (CPython:
`del conf; gc.collect()`), configuration 2 = `{"TEXT": "GREEN"}` is created -/
private def afterDrop (cf : Cfg) : State :=
  let s := run cf reuseAlloc (initState cf)
    [.newEnum 0, .newConf 1 false [("TEXT".toList, plainDescr "31")], .render 1 false sh]
  match newConf cf 2 false [("TEXT".toList, plainDescr "32")] (collect cf (dropConf 1 s)) with
  | .ok s' => s'
  | .error _ => s

/-- is the rendering of `sh` under configuration `k` the pure function of the configuration? -/
private def pureRendering (cf : Cfg) (k : ConfId) (s : State) : Bool × List (List Chunk) :=
  match render cf reuseAlloc k false sh s with
  | .ok (s', out) =>
    match s'.confs.lookup k with
    | some c' => (decide (out = paintLines (pureColorAt cf sh.top c' false) sh.lines), out)
    | none => (false, out)
  | .error _ => (false, [])

/-- the hypotheses of `history_free` are satisfiable: configuration 2 is closed, the tags are stable,
the rendering succeeds, and (as the theorem says) it is the pure one: green cell, green border -/
example : pureRendering cfg 2 (afterDrop cfg) =
    (true, [[⟨"\x1b[32m".toList, "|".toList⟩, ⟨"\x1b[32m".toList, "one".toList⟩, ⟨"\x1b[32m".toList, "|".toList⟩]]) := by
  decide +kernel
example : ((afterDrop cfg).confs.lookup 2).map (·.closed) = some true ∧ sh.tags.all (tagStableAt cfg sh.top) = true := by
  decide +kernel

/-- **the defect repaired by `fix: key enum cell cache by palette object`**: with the cache keyed by
`id(field_palette)` the same history renders the cell with the colours of the discarded configuration
(RED under `{"TEXT": "GREEN"}`): the new enum palette got the address of the collected one -/
example : pureRendering { cfg with keyByObj := false } 2 (afterDrop { cfg with keyByObj := false }) =
    (false, [[⟨"\x1b[32m".toList, "|".toList⟩, ⟨"\x1b[31m".toList, "one".toList⟩, ⟨"\x1b[32m".toList, "|".toList⟩]]) := by
  decide +kernel

/-- **known finding `late_resolution`**: `history_free` needs `closed`. Under
`{"TABLE.BORDER": "RECORD.TITLE"}` (a description that waits for a syntax id that `TitlePalette`
registers) the first rendering has a plain border, the second a green bold one -/
private def dangling : State :=
  run cfg reuseAlloc (initState cfg)
    [.newEnum 0, .newConf 1 false [("TABLE.BORDER".toList, aliasDescr "RECORD.TITLE")]]

example : (dangling.confs.lookup 1).map (·.closed) = some false := by decide +kernel
example : pureRendering cfg 1 dangling =
    (false, [[⟨[], "|".toList⟩, ⟨[], "one".toList⟩, ⟨[], "|".toList⟩]]) := by decide +kernel
example : pureRendering cfg 1 (step cfg reuseAlloc dangling (.render 1 false sh)) =
    (true, [[⟨"\x1b[32;1m".toList, "|".toList⟩, ⟨[], "one".toList⟩, ⟨"\x1b[32;1m".toList, "|".toList⟩]]) := by
  decide +kernel

/-- **lazy results, interleaved**: a no-colour result and a coloured result of the same table are requested
under the global configuration `{"TEXT": "RED"}`; then `{"TEXT": "GREEN"}` becomes global; the two iterators
are advanced alternately. Each gives the lines of its own request (plain / red), whatever the other one and
the new global configuration do (seeded changes C10-m3 and C10-m4 break exactly this in the real code). -/
private def lazyLines : List LLine :=
  [⟨[1, 5, 2], ⟨.made, [⟨.pal 3 1, "+-+".toList⟩]⟩⟩,
   ⟨[], ⟨.raw, [⟨.pal 3 1, "|".toList⟩, ⟨.enum 0 0 5 4, "one".toList⟩, ⟨.pal 3 1, "|".toList⟩]⟩⟩,
   ⟨[], ⟨.made, [⟨.pal 3 1, "+-+".toList⟩]⟩⟩]

private def lazyState : State :=
  run cfg reuseAlloc (initState cfg)
    [.newEnum 0, .newConf 1 false [("TEXT".toList, plainDescr "31")], .newConf 2 false [("TEXT".toList, plainDescr "32")],
     .setGlobal 1, .mkRes 0 1 true 3 lazyLines, .mkRes 1 1 false 3 lazyLines, .setGlobal 2,
     .mkIter 0 0, .mkIter 1 1, .nextIter 0 1, .nextIter 1 1, .render 2 false sh]

example : (match nextIter cfg reuseAlloc 0 5 lazyState with | .ok (_, o) => some o | .error _ => none) =
    some [[⟨[], "|".toList⟩, ⟨[], "one".toList⟩, ⟨[], "|".toList⟩], [⟨[], "+-+".toList⟩]] := by decide +kernel
example : (match nextIter cfg reuseAlloc 1 5 lazyState with | .ok (_, o) => some o | .error _ => none) =
    some [[⟨"\x1b[32m".toList, "|".toList⟩, ⟨"\x1b[31m".toList, "one".toList⟩, ⟨"\x1b[32m".toList, "|".toList⟩],
          [⟨"\x1b[32m".toList, "+-+".toList⟩]] := by decide +kernel

/-! ### customised compound palettes (`SUB_PALETTES_MAP`)

Class 15 is a user's table palette whose map substitutes `EnumPalette` (5) by class 11 (`name_good` = `OK`) and
`RecordPalette` (1) by class 12; class 16 substitutes `EnumPalette` by class 13, which registers ids of its own. -/

example : (cfg.classes[15]?).map (·.subMap) = some [(5, 11), (1, 12)] ∧ subCls cfg 15 5 = 11 ∧ subCls cfg 15 2 = 2 ∧
    subCls cfg 3 5 = 5 := by decide +kernel

private def shCustom (top : ClassId) : Shape :=
  ⟨top, [1, 5, 2], [⟨.raw, [⟨.pal top 1, "|".toList⟩, ⟨.enum 0 0 5 4, "one".toList⟩, ⟨.pal 1 1, "7".toList⟩,
    ⟨.pal top 1, "|".toList⟩]⟩]⟩

private def customState : State :=
  run cfg reuseAlloc (initState cfg) [.newEnum 0, .newConf 1 false [("TEXT".toList, plainDescr "31")]]

private def outOf (r : Except Err (State × List (List Chunk))) : Option (List (List Chunk)) :=
  match r with | .ok (_, o) => some o | .error _ => none

/-- the default table palette: the cell's accessor has the empty syntax id (default colour, RED here), the number
is `RECORD.NUMBER`; the customised one: `OK` (green bold) and `KEYWORD` (blue bold) -/
example : outOf (render cfg reuseAlloc 1 false (shCustom 3) customState) =
    some [[⟨"\x1b[32m".toList, "|".toList⟩, ⟨"\x1b[31m".toList, "one".toList⟩, ⟨"\x1b[33m".toList, "7".toList⟩,
           ⟨"\x1b[32m".toList, "|".toList⟩]] := by decide +kernel
example : outOf (render cfg reuseAlloc 1 false (shCustom 15) customState) =
    some [[⟨"\x1b[32m".toList, "|".toList⟩, ⟨"\x1b[32;1m".toList, "one".toList⟩, ⟨"\x1b[34;1m".toList, "7".toList⟩,
           ⟨"\x1b[32m".toList, "|".toList⟩]] := by decide +kernel
/-- and it is the pure painting `history_free` speaks about (hypotheses satisfiable for a customised class) -/
example : (match render cfg reuseAlloc 1 false (shCustom 15) customState with
    | .ok (s', out) => (s'.confs.lookup 1).map fun c' =>
        (decide (out = paintLines (pureColorAt cfg 15 c' false) (shCustom 15).lines), c'.closed,
         (shCustom 15).tags.all (tagStableAt cfg 15))
    | .error _ => none) = some (true, true, true) := by decide +kernel
/-- without colours — also after the coloured rendering, with the default and the customised palette mixed — the
substituted cell palettes are plain as well (what C10-m20 breaks) -/
example : outOf (render cfg reuseAlloc 1 true (shCustom 15)
      (run cfg reuseAlloc customState [.render 1 false (shCustom 15), .render 1 true (shCustom 3)])) =
    some [[⟨[], "|".toList⟩, ⟨[], "one".toList⟩, ⟨[], "7".toList⟩, ⟨[], "|".toList⟩]] := by decide +kernel
/-- a substituted class that registers ids of its own (class 13, `CELL.GOOD` = cyan bold) under class 16 -/
example : outOf (render cfg reuseAlloc 1 false (shCustom 16) customState) =
    some [[⟨"\x1b[32m".toList, "|".toList⟩, ⟨"\x1b[36;1m".toList, "one".toList⟩, ⟨"\x1b[33m".toList, "7".toList⟩,
           ⟨"\x1b[32m".toList, "|".toList⟩]] := by decide +kernel

end C10
