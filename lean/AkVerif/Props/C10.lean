import AkVerif.Gen.C10
import AkVerif.Model.PaletteState
/-! # C10 — rendering is pure (theorems under construction) -/
namespace C10
end C10
