import AkVerif.Lemmas.Table
import AkVerif.Model.TableFmt
namespace C13
end C13
