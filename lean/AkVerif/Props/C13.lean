import AkVerif.Lemmas.TableReach
/-!
# C13 — a table's reported format string reproduces the table

Property theorems only. The model: `Table.fmtToStr` (= `str(table.fmt)`), `Table.parseFmt`,
`Table.applySetter` (= `table.fmt = s`), `Table.mkTable` (= `PPTable(records, fmt=s, fields=…)`),
`Table.render` — the functions `Drv/C13.lean` executes.

`Table.Reach a t`: `t` is a state of a table with the constructor arguments `a` (records, fields,
header, footer): constructed from a format string or from column objects or — `fmt_obj=` — from
the format of any other reachable table with the same fields, after any history of printing,
`table.fmt = <any string>` and re-construction from any string.
`Table.lines t`: the lines `t` prints. `Table.NameOk s`: `s` contains none of `, : ; / <`,
has no blank at either end and does not end in `!` (what a format string can express: an inner `!`,
parentheses, `-` are fine — the break-by mark is a *trailing* `!`). `Table.ModOk m`: the modifier `m` — free
text for user-written field types — contains none of `, : ; ! <` and does not end in a blank (a `/`
inside it is fine: the name ends at the *first* `/`). `Table.CustomModsOk cols`: the modifiers of the
columns of user-written field types are `ModOk` (those the built-in types accept always are).
-/
namespace C13
open Table Ak

/-- Parse ∘ print. For every format state — fresh or printed, i.e. with or without negotiated
widths and `any_lines_skipped` — with at least one column and expressible names, the printed
string is accepted by the parser and reads back as the very same columns (field name, modifier,
break-by mark, width bounds; no value path) and the same limits: none when the last printing
skipped nothing, `*` when a limit is absent, `first:last` otherwise. In particular the
`(width)` suffix of a printed ranged column is accepted and ignored. -/
theorem parse_print (f : Fmt) (hne : f.cols ≠ [])
    (hn : ∀ c ∈ f.cols, NameOk c.field.name ∧ ∀ m, c.modifier = some m → ModOk m) :
    parseFmt (fmtToStr f) = .ok
      { cols := .explicit (f.cols.map fun c =>
          { fieldName := c.field.name, modifier := c.modifier, breakBy := c.breakBy,
            valuePath := Option.none, width := .range c.minW c.maxW }),
        vis := if f.anySkipped = some false then Option.none
          else match f.limF, f.limL with
            | some a, some b => some (some a, some b)
            | _, _ => some (Option.none, Option.none) } :=
  parseFmt_fmtToStr f hne hn

/-- numbers survive the trip: `int(str(n)) = n` for the widths and limits a format prints -/
theorem int_of_str (i : Int) : parsePyInt (intToDec i) = some i := parsePyInt_intToDec i

/-- Same rendering, setter route. In every reachable state of a table built with explicit field
names (expressible ones), `table.fmt = str(table.fmt)` is accepted and the table then prints exactly
the same lines; the new format has the same fields and the same columns (modifiers, break-by marks,
bounds; widths forgotten), and its limits act like the old ones on every body. -/
theorem same_rendering_setter (a : CtorArgs) (specs : List FieldSpec) (t : Tbl) (ha : a.fields = some specs)
    (hn : ∀ sp ∈ specs, NameOk sp.name) (hr : Reach a t) (hne : t.fmt.cols ≠ [])
    (hmod : CustomModsOk t.fmt.cols) :
    ∃ t1, applySetter t (fmtToStr t.fmt) = .ok t1 ∧ lines t1 = lines t ∧
      t1.fmt.fields = t.fmt.fields ∧ t1.fmt.cols = t.fmt.cols.map Col.reset ∧
      ∀ tls n, applyLimits t1.fmt.limF t1.fmt.limL tls n = applyLimits t.fmt.limF t.fmt.limL tls n := by
  have hi := reach_inv a specs ha t hr
  have hp := parseFmt_fmtToStr t.fmt hne (inv_colNameOk hi hn hmod)
  have hcols := setterCols_pcolOf t.fmt.fields t.fmt.cols hi.colsOk
  have hlim : ∀ tls n, applyLimits
      (match visOf t.fmt with | some l => l | Option.none => (t.fmt.limF, t.fmt.limL)).1
      (match visOf t.fmt with | some l => l | Option.none => (t.fmt.limF, t.fmt.limL)).2 tls n
      = applyLimits t.fmt.limF t.fmt.limL tls n := by
    intro tls n
    unfold visOf
    by_cases hsk : t.fmt.anySkipped = some false
    · simp [hsk]
    · simp only [hsk, if_false]
      cases hF : t.fmt.limF with
      | none => simp [applyLimits_none_left]
      | some x =>
        cases hL : t.fmt.limL with
        | none => simp [applyLimits_none_right]
        | some y => rfl
  refine ⟨{ t with fmt := ⟨t.fmt.fields, t.fmt.cols.map Col.reset,
      (match visOf t.fmt with | some l => l | Option.none => (t.fmt.limF, t.fmt.limL)).1,
      (match visOf t.fmt with | some l => l | Option.none => (t.fmt.limF, t.fmt.limL)).2, Option.none⟩ },
    ?_, ?_, rfl, rfl, hlim⟩
  · unfold applySetter
    simp only [hp, pfmtOf, hcols, bind, Except.bind]
    cases visOf t.fmt <;> rfl
  · exact lines_of_same t _ hi.widths rfl rfl rfl rfl (fun tls _ => hlim tls _)

/-- Same rendering, constructor route. In every reachable state with natural-number (or absent)
limits, `PPTable(records, fmt=str(table.fmt), <the same fields, titles, types, header, footer>)` is
accepted and prints exactly the same lines, with the same fields and columns. (Limits are left out
of the string when the last printing skipped nothing; the new table then has none, which prints
the same — `SkipFaithful`, an invariant of all reachable states.) -/
theorem same_rendering_ctor (a : CtorArgs) (specs : List FieldSpec) (t : Tbl) (ha : a.fields = some specs)
    (hn : ∀ sp ∈ specs, NameOk sp.name) (hr : Reach a t) (hne : t.fmt.cols ≠ []) (hnat : NatLim t.fmt)
    (hmod : CustomModsOk t.fmt.cols) :
    ∃ t2, mkTable { a with fmt := some (fmtToStr t.fmt), limits := Option.none, skip := Option.none } = .ok t2 ∧
      lines t2 = lines t ∧ t2.fmt.fields = t.fmt.fields ∧ t2.fmt.cols = t.fmt.cols.map Col.reset := by
  have hi := reach_inv a specs ha t hr
  have hp := parseFmt_fmtToStr t.fmt hne (inv_colNameOk hi hn hmod)
  have hcols := ctorCols_pcolOf (mkFields 0 specs) t.fmt.cols (by rw [← hi.fields_eq]; exact hi.colsOk)
  have hnovp : (t.fmt.cols.map pcolOf).any (fun p => p.valuePath.isSome) = false := by
    simp [pcolOf]
  have hlim := limits_of_visOf t hi.skip true (fun _ => hnat)
  refine ⟨⟨a.records, a.header, footerOf a, ⟨mkFields 0 specs, t.fmt.cols.map Col.reset,
      (match visOf t.fmt with | some l => l | Option.none => (Option.none, Option.none)).1,
      (match visOf t.fmt with | some l => l | Option.none => (Option.none, Option.none)).2, Option.none⟩⟩,
    ?_, ?_, ?_, rfl⟩
  · unfold mkTable
    simp only [hp, pfmtOf, ha, hi.nodup, hnovp, hcols, bind, Except.bind, Bool.false_eq_true, if_false]
    rfl
  · apply lines_of_same t _ hi.widths
    · exact hi.records_eq.symm
    · exact hi.header_eq.symm
    · rw [hi.footer_eq]
    · rfl
    · intro tls htls
      have := hlim tls htls
      simp only [if_true] at this
      rw [← this, hi.records_eq]
      cases visOf t.fmt <;> rfl
  · exact hi.fields_eq.symm

/-- The format read after the next printing, both routes. Print the table (lines `ls`, state
`t'`); feed the string reported *before* that printing back through the setter or — for natural
limits — the constructor; print the result: it prints the same `ls` and then reports exactly the
same format string as `t'`: same columns with the same negotiated widths, same limits or the
same omission of limits. -/
theorem format_after_print (a : CtorArgs) (specs : List FieldSpec) (t t' : Tbl) (ls : List Line)
    (ha : a.fields = some specs) (hn : ∀ sp ∈ specs, NameOk sp.name) (hr : Reach a t)
    (hmod : CustomModsOk t.fmt.cols) (ht : render t = .ok (t', ls)) :
    (∃ t1 t1', applySetter t (fmtToStr t.fmt) = .ok t1 ∧ render t1 = .ok (t1', ls) ∧
      fmtToStr t1'.fmt = fmtToStr t'.fmt) ∧
    (NatLim t.fmt → ∃ t2 t2',
      mkTable { a with fmt := some (fmtToStr t.fmt), limits := Option.none, skip := Option.none } = .ok t2 ∧
      render t2 = .ok (t2', ls) ∧ fmtToStr t2'.fmt = fmtToStr t'.fmt) := by
  have hi := reach_inv a specs ha t hr
  have hne : t.fmt.cols ≠ [] := by
    obtain ⟨tls, ws, nT, body, R⟩ := render_elim ht
    intro e
    have := finalWidths_cols _ _ _ R.ws_eq
    rw [e] at this
    exact R.ws_ne (by simpa using this)
  have hp := parseFmt_fmtToStr t.fmt hne (inv_colNameOk hi hn hmod)
  -- how the limits read back relate to the table's own
  have hvis : ∀ (dflt : Option Int × Option Int),
      (visOf t.fmt = Option.none → dflt = (t.fmt.limF, t.fmt.limL) ∨
        ∀ tls, mkTableLines (breakFields t.fmt.cols) Option.none t.records = .ok tls →
          applyLimits t.fmt.limF t.fmt.limL tls t.records.length = (tls, 0)) →
      let l := match visOf t.fmt with | some l => l | Option.none => dflt
      (l.1 = t.fmt.limF ∧ l.2 = t.fmt.limL) ∨
        ∀ tls, mkTableLines (breakFields t.fmt.cols) Option.none t.records = .ok tls →
          (applyLimits t.fmt.limF t.fmt.limL tls t.records.length).2 ≤ 0 := by
    intro dflt hd
    cases hv : visOf t.fmt with
    | none =>
      simp only
      rcases hd hv with e | e
      · left; rw [e]; exact ⟨rfl, rfl⟩
      · right; intro tls htls; rw [e tls htls]; exact Int.le_refl 0
    | some l =>
      simp only
      unfold visOf at hv
      split at hv
      · cases hv
      · cases hF : t.fmt.limF with
        | none =>
          right; intro tls _; rw [applyLimits_none_left]; exact Int.le_refl 0
        | some x =>
          cases hL : t.fmt.limL with
          | none => right; intro tls _; rw [applyLimits_none_right]; exact Int.le_refl 0
          | some y =>
            rw [hF, hL] at hv
            simp only [Option.some.injEq] at hv
            subst hv
            left; exact ⟨rfl, rfl⟩
  constructor
  · obtain ⟨t1, h1, _, _, hc1, hl1⟩ := same_rendering_setter a specs t ha hn hr hne hmod
    have hshape : t1.records = t.records ∧ t1.header = t.header ∧ t1.footer = t.footer ∧
        (t1.fmt.limF, t1.fmt.limL) = (match visOf t.fmt with | some l => l | Option.none => (t.fmt.limF, t.fmt.limL)) := by
      have hcols := setterCols_pcolOf t.fmt.fields t.fmt.cols hi.colsOk
      unfold applySetter at h1
      simp only [hp, pfmtOf, hcols, bind, Except.bind, Except.ok.injEq] at h1
      subst h1
      refine ⟨rfl, rfl, rfl, ?_⟩
      cases visOf t.fmt <;> rfl
    obtain ⟨e1, e2, e3, e4⟩ := hshape
    have hlim := hvis (t.fmt.limF, t.fmt.limL) (fun _ => Or.inl rfl)
    simp only at hlim
    rw [← e4] at hlim
    obtain ⟨t1', hr1, hs1⟩ := fmt_after_print hi.widths e1 e2 e3 hc1 (fun tls _ => hl1 tls _) hlim ht
    exact ⟨t1, t1', h1, hr1, hs1⟩
  · intro hnat
    obtain ⟨t2, h2, _, _, hc2⟩ := same_rendering_ctor a specs t ha hn hr hne hnat hmod
    have hshape : t2.records = t.records ∧ t2.header = t.header ∧ t2.footer = t.footer ∧
        (t2.fmt.limF, t2.fmt.limL) = (match visOf t.fmt with | some l => l | Option.none => (Option.none, Option.none)) := by
      have hcols := ctorCols_pcolOf (mkFields 0 specs) t.fmt.cols (by rw [← hi.fields_eq]; exact hi.colsOk)
      have hnovp : (t.fmt.cols.map pcolOf).any (fun p => p.valuePath.isSome) = false := by simp [pcolOf]
      unfold mkTable at h2
      simp only [hp, pfmtOf, ha, hi.nodup, hnovp, hcols, bind, Except.bind, Bool.false_eq_true, if_false,
        Except.ok.injEq] at h2
      subst h2
      refine ⟨hi.records_eq.symm, hi.header_eq.symm, ?_, ?_⟩
      · rw [hi.footer_eq]; rfl
      · cases visOf t.fmt <;> rfl
    obtain ⟨e1, e2, e3, e4⟩ := hshape
    have hskip : visOf t.fmt = Option.none → ((Option.none : Option Int), (Option.none : Option Int)) = (t.fmt.limF, t.fmt.limL) ∨
        ∀ tls, mkTableLines (breakFields t.fmt.cols) Option.none t.records = .ok tls →
          applyLimits t.fmt.limF t.fmt.limL tls t.records.length = (tls, 0) := by
      intro hv
      right
      have hsk : t.fmt.anySkipped = some false := by
        unfold visOf at hv
        split at hv
        · assumption
        · split at hv <;> cases hv
      exact hi.skip hnat hsk
    have hlim := hvis (Option.none, Option.none) hskip
    simp only at hlim
    rw [← e4] at hlim
    have hl2 : ∀ tls, mkTableLines (breakFields t.fmt.cols) Option.none t.records = .ok tls →
        applyLimits t2.fmt.limF t2.fmt.limL tls t.records.length
          = applyLimits t.fmt.limF t.fmt.limL tls t.records.length := by
      intro tls htls
      have := limits_of_visOf t hi.skip true (fun _ => hnat) tls htls
      simp only [if_true] at this
      have e4a : t2.fmt.limF = _ := congrArg Prod.fst e4
      have e4b : t2.fmt.limL = _ := congrArg Prod.snd e4
      rw [e4a, e4b]
      exact this
    obtain ⟨t2', hr2, hs2⟩ := fmt_after_print hi.widths e1 e2 e3 hc2 hl2 hlim ht
    exact ⟨t2, t2', h2, hr2, hs2⟩

/-- Empty formats change nothing. `""`, `";"` and `";;"` are accepted in every reachable state and
leave fields, columns (modifiers, break-by marks, bounds) and limits as they are — only the
negotiated widths and the skipped-lines flag are forgotten — and the table prints the same lines. -/
theorem empty_noop (a : CtorArgs) (specs : List FieldSpec) (t : Tbl) (ha : a.fields = some specs)
    (hr : Reach a t) (s : List Char) (hs : s = [] ∨ s = [';'] ∨ s = [';', ';']) :
    applySetter t s = .ok (fresh t) ∧ lines (fresh t) = lines t ∧
      (fresh t).fmt.fields = t.fmt.fields ∧ (fresh t).fmt.cols = t.fmt.cols.map Col.reset ∧
      (fresh t).fmt.limF = t.fmt.limF ∧ (fresh t).fmt.limL = t.fmt.limL := by
  have hi := reach_inv a specs ha t hr
  have hp : parseFmt s = .ok ⟨.keep, Option.none⟩ := by
    rcases hs with rfl | rfl | rfl <;> decide
  refine ⟨?_, hi.widths.symm, rfl, rfl, rfl, rfl⟩
  unfold applySetter
  simp only [hp, bind, Except.bind]
  rfl

/-- Re-formatting with the table's own column descriptions. In every reachable state — in particular after a
print, with limits and break-by columns — assign to `table.fmt` a columns-only string made of some of the column
descriptions `str(table.fmt)` reports now (`idxs`: any of them dropped, moved, repeated; verbatim, or `plain`:
without the `(width)` suffix). It is accepted; the new columns are exactly the picked ones, and NONE of them has
a negotiated width — a description repeated word for word inherits nothing from the column it was copied from —;
fields, records, header, footer and limits stay, the skipped-lines flag is forgotten. The new state is reachable,
so `same_rendering_setter`, `same_rendering_ctor` and `format_after_print` hold for it as for any other. -/
theorem reformat_own_columns (a : CtorArgs) (specs : List FieldSpec) (t : Tbl) (ha : a.fields = some specs)
    (hn : ∀ sp ∈ specs, NameOk sp.name) (hr : Reach a t) (hmod : CustomModsOk t.fmt.cols)
    (idxs : List Nat) (plain : Bool) (hne : pickCols t.fmt.cols idxs ≠ []) :
    ∃ t1, applySetter t (subFmtStr t.fmt idxs plain) = .ok t1 ∧ Reach a t1 ∧
      t1.fmt.cols = (pickCols t.fmt.cols idxs).map Col.reset ∧ (∀ c ∈ t1.fmt.cols, c.width = Option.none) ∧
      t1.fmt.fields = t.fmt.fields ∧ t1.fmt.limF = t.fmt.limF ∧ t1.fmt.limL = t.fmt.limL ∧
      t1.fmt.anySkipped = Option.none ∧ t1.records = t.records ∧ t1.header = t.header ∧ t1.footer = t.footer := by
  have hi := reach_inv a specs ha t hr
  have hnm := inv_colNameOk hi hn hmod
  have h := applySetter_subFmtStr t idxs plain (fun c hc => ⟨hnm c hc, hi.colsOk c hc⟩) hne
  refine ⟨_, h, Reach.set a t _ _ hr h, rfl, ?_, rfl, rfl, rfl, rfl, rfl, rfl, rfl⟩
  intro c hc
  simp only [List.mem_map] at hc
  obtain ⟨c0, _, rfl⟩ := hc
  rfl

/-- the picked columns are columns of the table, in the order asked for (`i` taken modulo their number) -/
theorem reformat_own_columns_pick (cols : List Col) (idxs : List Nat) (hne : cols ≠ []) :
    (pickCols cols idxs).length = idxs.length ∧ ∀ c ∈ pickCols cols idxs, c ∈ cols := by
  refine ⟨?_, fun c hc => mem_pickCols hc⟩
  have hpos : 0 < cols.length := List.length_pos_iff.mpr hne
  induction idxs with
  | nil => rfl
  | cons i is ih =>
    have hlt : i % cols.length < cols.length := Nat.mod_lt _ hpos
    simp only [pickCols, List.filterMap_cons, List.getElem?_eq_getElem hlt, List.length_cons] at ih ⊢
    rw [ih]

/-- Field-less tables, what holds. A table built without `fields` and without an explicit column
list (columns `col_1 …`, or the dummy column of an empty table) is exactly the table built with
those automatic names passed as `fields`; the names are expressible; so every theorem above applies
to the constructor call **that passes the automatic names**. It does *not* apply to the literal call
`PPTable(records, fmt=str(table.fmt))` without `fields` — see `fieldless_literal_fails` below: that
call reads every value as an attribute of the record and fails at print (known finding
`fieldless_ctor_route`). -/
theorem fieldless (a : CtorArgs) (ha : a.fields = Option.none)
    (hcols : ∀ p cs, parseFmt (match a.fmt with | some s => s | Option.none => []) = .ok p → p.cols ≠ .explicit cs)
    (t : Tbl) (h : mkTable a = .ok t) :
    mkTable { a with fields := some (specsOf t.fmt.fields) } = .ok t ∧
    (∀ sp ∈ specsOf t.fmt.fields, NameOk sp.name) ∧
    Reach { a with fields := some (specsOf t.fmt.fields) } t :=
  have h' := mkTable_fieldless a ha hcols t h
  ⟨h'.1, h'.2, Reach.new _ t h'.1⟩

/-- The invariants behind the three theorems hold after every history: printing never depends on
the stored widths, and a `False` skipped-lines flag is the truth about the table. -/
theorem reachable_invariants (a : CtorArgs) (specs : List FieldSpec) (t : Tbl) (ha : a.fields = some specs)
    (hr : Reach a t) : WidthsFaithful t ∧ SkipFaithful t ∧ ColsOk t :=
  have hi := reach_inv a specs ha t hr
  ⟨hi.widths, hi.skip, hi.colsOk⟩

/-! Non-vacuity: the defect's own witness — `a:2-5,b!:1-9;3:2`, printed, reads `a:2-5(2),b!:1-9(5)` —
goes through constructor, printing and both routes in the kernel. -/

private def demoArgs : CtorArgs :=
  { records := [[Val.int 1, Val.str "abc".toList], [Val.int 22, Val.str "defgh".toList]],
    fields := some [⟨"a".toList, .dflt, .none, Option.none⟩, ⟨"b".toList, .dflt, .none, Option.none⟩],
    fmt := some "a:2-5,b!:1-9;3:2".toList, limits := Option.none, header := Option.none,
    footer := Option.none, skip := Option.none }

example : (mkTable demoArgs >>= render).map (fun x => String.ofList (fmtToStr x.1.fmt))
    = .ok "a:2-5(2),b!:1-9(5)" := by decide +kernel

example : (mkTable demoArgs >>= render >>= fun x => applySetter x.1 (fmtToStr x.1.fmt)).map
    (fun t => String.ofList (fmtToStr t.fmt)) = .ok "a:2-5,b!:1-9;3:2" := by decide +kernel

example : (mkTable demoArgs >>= render >>= fun x =>
      (do let t1 ← applySetter x.1 (fmtToStr x.1.fmt); let y ← render t1; pure (decide (y.2 = x.2)))) = .ok true := by
  decide +kernel

example : (mkTable demoArgs >>= fun t => (parseFmt (fmtToStr t.fmt)).map (fun p => p.vis))
    = .ok (some (some 3, some 2)) := by decide +kernel

example : NameOk "long_field.name".toList := nameOk_of_all _ (by decide)

/-! A free-text modifier with `/` inside (a strftime pattern of a user-written date type): the name
ends at the *first* `/`. -/

example : parseCol "when/%d/%m/%Y!:4-20(10)".toList
    = .ok ⟨"when".toList, some "%d/%m/%Y".toList, true, Option.none, .range 4 20⟩ := by decide +kernel

example : ModOk "%d/%m/%Y".toList := by
  refine ⟨by decide, ?_⟩
  intro c hc
  have : "%d/%m/%Y".toList.getLast? = some 'Y' := by decide
  rw [this] at hc
  cases hc
  unfold isSpace
  decide

/-! The literal constructor route of a field-less table (known finding `fieldless_ctor_route`):
`PPTable([(1, 2)])` reports `col_1:1-999,col_2:1-999;*`; `PPTable([(1, 2)], fmt=<that string>)` is
accepted by the constructor but cannot be printed (`AttributeError`: a tuple has no attribute `col_1`). -/

private def fieldlessArgs : CtorArgs :=
  { records := [[Val.int 1, Val.int 2]], fields := Option.none, fmt := Option.none, limits := Option.none,
    header := Option.none, footer := Option.none, skip := Option.none }

example : (mkTable fieldlessArgs).map (fun t => String.ofList (fmtToStr t.fmt))
    = .ok "col_1:1-999,col_2:1-999;*" := by decide +kernel

/-- the full statement fails for field-less tables: the reported string, given to the constructor as
it is, yields a table that raises at print -/
theorem fieldless_literal_fails :
    (mkTable fieldlessArgs >>= fun t =>
      mkTable { fieldlessArgs with fmt := some (fmtToStr t.fmt) } >>= render).toOption = Option.none ∧
    (mkTable fieldlessArgs >>= fun t =>
      mkTable { fieldlessArgs with fmt := some (fmtToStr t.fmt) }).toOption.isSome = true ∧
    (mkTable fieldlessArgs >>= fun t => (mkTable { fieldlessArgs with fmt := some (fmtToStr t.fmt) } >>= render).map
      (fun _ => ())) = .error .attributeError := by decide +kernel

/-! The witness of the fixed defect 3b63cdc: six records, `a,b;5:5`, printed (nothing skipped), then
`table.fmt.set_limits((1, 1))`: the flag is forgotten, the limits are in the string again; so are (fix
1d22ea8) the widths fitted to the rows that were visible before. -/

private def limArgs : CtorArgs :=
  { records := (List.range 6).map fun i => [Val.int (i : Nat), Val.str "x".toList],
    fields := some [⟨"a".toList, .dflt, .none, Option.none⟩, ⟨"b".toList, .dflt, .none, Option.none⟩],
    fmt := some "a,b;5:5".toList, limits := Option.none, header := Option.none, footer := Option.none,
    skip := Option.none }

example : (mkTable limArgs >>= render).map (fun x => String.ofList (fmtToStr (setLimits x.1 (some 1) (some 1)).fmt))
    = .ok "a:1-999,b:1-999;1:1" := by decide +kernel

/-! Field names with characters that are format marks elsewhere: an inner `!`, parentheses, `-`. -/

example : NameOk "qty!=0".toList ∧ NameOk "f(x)-1".toList :=
  ⟨⟨by decide, edgeOk_of_all _ (by decide), by decide⟩, ⟨by decide, edgeOk_of_all _ (by decide), by decide⟩⟩

example : parseCol "qty!=0!:3-9".toList
    = .ok ⟨"qty!=0".toList, Option.none, true, Option.none, .range 3 9⟩ := by decide +kernel

/-! The own-columns re-format on a printed table with limits and a break-by column: `id:2-9,grade!:1-20,name:1-30;2:2`
over seven records, printed (`name` fitted to 4), then `table.fmt = "name:1-30(4)"` (its own third description):
the break lines go, the long sixth record comes into view, the column is fitted anew (18). -/

private def subArgs : CtorArgs :=
  { records := [(1, 10, "aa"), (2, 10, "bbbb"), (3, 20, "c"), (4, 20, "dd"), (5, 30, "e"),
                (6, 30, "a much longer name"), (7, 40, "g")].map fun (i, g, n) =>
                  [Val.int (i : Nat), Val.int (g : Nat), Val.str n.toList],
    fields := some [⟨"id".toList, .dflt, .none, Option.none⟩, ⟨"grade".toList, .dflt, .none, Option.none⟩,
                    ⟨"name".toList, .dflt, .none, Option.none⟩],
    fmt := some "id:2-9,grade!:1-20,name:1-30;2:2".toList, limits := Option.none, header := Option.none,
    footer := Option.none, skip := Option.none }

example : (mkTable subArgs >>= render).map (fun x => String.ofList (subFmtStr x.1.fmt [2] false))
    = .ok "name:1-30(4)" := by decide +kernel

example : (mkTable subArgs >>= render >>= fun x => applySetter x.1 (subFmtStr x.1.fmt [2] false) >>= render).map
    (fun y => String.ofList (fmtToStr y.1.fmt)) = .ok "name:1-30(18);2:2" := by decide +kernel

end C13
