import AkVerif.Lemmas.TableReach
/-!
# C13 — a table's reported format string reproduces the table

Property theorems only. The model: `Table.fmtToStr` (= `str(table.fmt)`), `Table.parseFmt`,
`Table.applySetter` (= `table.fmt = s`), `Table.mkTable` (= `PPTable(records, fmt=s, fields=…)`),
`Table.render` — the functions `Drv/C13.lean` executes.

`Table.Reach a t`: `t` is a state of a table constructed with the arguments `a`, after any history
of printing, `table.fmt = <any string>` and re-construction from any string.
`Table.lines t`: the lines `t` prints. `Table.NameOk s`: `s` contains none of `, : ; ! / < ( )` and
has no blank at either end (what a format string can express).
-/
namespace C13
open Table Ak

/-- Parse ∘ print. For every format state — fresh or printed, i.e. with or without negotiated
widths and `any_lines_skipped` — with at least one column and expressible names, the printed
string is accepted by the parser and reads back as the very same columns (field name, modifier,
break-by mark, width bounds; no value path) and the same limits: none when the last printing
skipped nothing, `*` when a limit is absent, `first:last` otherwise. In particular the
`(width)` suffix of a printed ranged column is accepted and ignored. -/
theorem parse_print (f : Fmt) (hne : f.cols ≠ [])
    (hn : ∀ c ∈ f.cols, NameOk c.field.name ∧ ∀ m, c.modifier = some m → NameOk m) :
    parseFmt (fmtToStr f) = .ok
      { cols := .explicit (f.cols.map fun c =>
          { fieldName := c.field.name, modifier := c.modifier, breakBy := c.breakBy,
            valuePath := Option.none, width := .range c.minW c.maxW }),
        vis := if f.anySkipped = some false then Option.none
          else match f.limF, f.limL with
            | some a, some b => some (some a, some b)
            | _, _ => some (Option.none, Option.none) } :=
  parseFmt_fmtToStr f hne hn

/-- numbers survive the trip: `int(str(n)) = n` for the widths and limits a format prints -/
theorem int_of_str (i : Int) : parsePyInt (intToDec i) = some i := parsePyInt_intToDec i

/-- Same rendering, setter route. In every reachable state of a table built with explicit field
names (expressible ones), `table.fmt = str(table.fmt)` is accepted and the table then prints exactly
the same lines; the new format has the same fields and the same columns (modifiers, break-by marks,
bounds; widths forgotten), and its limits act like the old ones on every body. -/
theorem same_rendering_setter (a : CtorArgs) (specs : List FieldSpec) (t : Tbl) (ha : a.fields = some specs)
    (hn : ∀ sp ∈ specs, NameOk sp.name) (hr : Reach a t) (hne : t.fmt.cols ≠ []) :
    ∃ t1, applySetter t (fmtToStr t.fmt) = .ok t1 ∧ lines t1 = lines t ∧
      t1.fmt.fields = t.fmt.fields ∧ t1.fmt.cols = t.fmt.cols.map Col.reset ∧
      ∀ tls n, applyLimits t1.fmt.limF t1.fmt.limL tls n = applyLimits t.fmt.limF t.fmt.limL tls n := by
  have hi := reach_inv a specs ha t hr
  have hp := parseFmt_fmtToStr t.fmt hne (inv_colNameOk hi hn)
  have hcols := setterCols_pcolOf t.fmt.fields t.fmt.cols hi.colsOk
  have hlim : ∀ tls n, applyLimits
      (match visOf t.fmt with | some l => l | Option.none => (t.fmt.limF, t.fmt.limL)).1
      (match visOf t.fmt with | some l => l | Option.none => (t.fmt.limF, t.fmt.limL)).2 tls n
      = applyLimits t.fmt.limF t.fmt.limL tls n := by
    intro tls n
    unfold visOf
    by_cases hsk : t.fmt.anySkipped = some false
    · simp [hsk]
    · simp only [hsk, if_false]
      cases hF : t.fmt.limF with
      | none => simp [applyLimits_none_left]
      | some x =>
        cases hL : t.fmt.limL with
        | none => simp [applyLimits_none_right]
        | some y => rfl
  refine ⟨{ t with fmt := ⟨t.fmt.fields, t.fmt.cols.map Col.reset,
      (match visOf t.fmt with | some l => l | Option.none => (t.fmt.limF, t.fmt.limL)).1,
      (match visOf t.fmt with | some l => l | Option.none => (t.fmt.limF, t.fmt.limL)).2, Option.none⟩ },
    ?_, ?_, rfl, rfl, hlim⟩
  · unfold applySetter
    simp only [hp, pfmtOf, hcols, bind, Except.bind]
    cases visOf t.fmt <;> rfl
  · exact lines_of_same t _ hi.widths rfl rfl rfl rfl (fun tls _ => hlim tls _)

/-- Same rendering, constructor route. In every reachable state with natural-number (or absent)
limits, `PPTable(records, fmt=str(table.fmt), <the same fields, titles, types, header, footer>)` is
accepted and prints exactly the same lines, with the same fields and columns. (Limits are left out
of the string when the last printing skipped nothing; the new table then has none, which prints
the same — `SkipFaithful`, an invariant of all reachable states.) -/
theorem same_rendering_ctor (a : CtorArgs) (specs : List FieldSpec) (t : Tbl) (ha : a.fields = some specs)
    (hn : ∀ sp ∈ specs, NameOk sp.name) (hr : Reach a t) (hne : t.fmt.cols ≠ []) (hnat : NatLim t.fmt) :
    ∃ t2, mkTable { a with fmt := some (fmtToStr t.fmt), limits := Option.none, skip := Option.none } = .ok t2 ∧
      lines t2 = lines t ∧ t2.fmt.fields = t.fmt.fields ∧ t2.fmt.cols = t.fmt.cols.map Col.reset := by
  have hi := reach_inv a specs ha t hr
  have hp := parseFmt_fmtToStr t.fmt hne (inv_colNameOk hi hn)
  have hcols := ctorCols_pcolOf (mkFields 0 specs) t.fmt.cols (by rw [← hi.fields_eq]; exact hi.colsOk)
  have hnovp : (t.fmt.cols.map pcolOf).any (fun p => p.valuePath.isSome) = false := by
    simp [pcolOf]
  have hlim := limits_of_visOf t hi.skip true (fun _ => hnat)
  refine ⟨⟨a.records, a.header, footerOf a, ⟨mkFields 0 specs, t.fmt.cols.map Col.reset,
      (match visOf t.fmt with | some l => l | Option.none => (Option.none, Option.none)).1,
      (match visOf t.fmt with | some l => l | Option.none => (Option.none, Option.none)).2, Option.none⟩⟩,
    ?_, ?_, ?_, rfl⟩
  · unfold mkTable
    simp only [hp, pfmtOf, ha, hi.nodup, hnovp, hcols, bind, Except.bind, Bool.false_eq_true, if_false]
    rfl
  · apply lines_of_same t _ hi.widths
    · exact hi.records_eq.symm
    · exact hi.header_eq.symm
    · rw [hi.footer_eq]
    · rfl
    · intro tls htls
      have := hlim tls htls
      simp only [if_true] at this
      rw [← this, hi.records_eq]
      cases visOf t.fmt <;> rfl
  · exact hi.fields_eq.symm

/-- Empty formats change nothing. `""`, `";"` and `";;"` are accepted in every reachable state and
leave fields, columns (modifiers, break-by marks, bounds) and limits as they are — only the
negotiated widths and the skipped-lines flag are forgotten — and the table prints the same lines. -/
theorem empty_noop (a : CtorArgs) (specs : List FieldSpec) (t : Tbl) (ha : a.fields = some specs)
    (hr : Reach a t) (s : List Char) (hs : s = [] ∨ s = [';'] ∨ s = [';', ';']) :
    applySetter t s = .ok (fresh t) ∧ lines (fresh t) = lines t ∧
      (fresh t).fmt.fields = t.fmt.fields ∧ (fresh t).fmt.cols = t.fmt.cols.map Col.reset ∧
      (fresh t).fmt.limF = t.fmt.limF ∧ (fresh t).fmt.limL = t.fmt.limL := by
  have hi := reach_inv a specs ha t hr
  have hp : parseFmt s = .ok ⟨.keep, Option.none⟩ := by
    rcases hs with rfl | rfl | rfl <;> decide
  refine ⟨?_, hi.widths.symm, rfl, rfl, rfl, rfl⟩
  unfold applySetter
  simp only [hp, bind, Except.bind]
  rfl

/-- The invariants behind the three theorems hold after every history: printing never depends on
the stored widths, and a `False` skipped-lines flag is the truth about the table. -/
theorem reachable_invariants (a : CtorArgs) (specs : List FieldSpec) (t : Tbl) (ha : a.fields = some specs)
    (hr : Reach a t) : WidthsFaithful t ∧ SkipFaithful t ∧ ColsOk t :=
  have hi := reach_inv a specs ha t hr
  ⟨hi.widths, hi.skip, hi.colsOk⟩

/-! Non-vacuity: the defect's own witness — `a:2-5,b!:1-9;3:2`, printed, reads `a:2-5(2),b!:1-9(5)` —
goes through constructor, printing and both routes in the kernel. -/

private def demoArgs : CtorArgs :=
  { records := [[Val.int 1, Val.str "abc".toList], [Val.int 22, Val.str "defgh".toList]],
    fields := some [⟨"a".toList, .dflt, .none⟩, ⟨"b".toList, .dflt, .none⟩],
    fmt := some "a:2-5,b!:1-9;3:2".toList, limits := Option.none, header := Option.none,
    footer := Option.none, skip := Option.none }

example : (mkTable demoArgs >>= render).map (fun x => String.ofList (fmtToStr x.1.fmt))
    = .ok "a:2-5(2),b!:1-9(5)" := by decide +kernel

example : (mkTable demoArgs >>= render >>= fun x => applySetter x.1 (fmtToStr x.1.fmt)).map
    (fun t => String.ofList (fmtToStr t.fmt)) = .ok "a:2-5,b!:1-9;3:2" := by decide +kernel

example : (mkTable demoArgs >>= render >>= fun x =>
      (do let t1 ← applySetter x.1 (fmtToStr x.1.fmt); let y ← render t1; pure (decide (y.2 = x.2)))) = .ok true := by
  decide +kernel

example : (mkTable demoArgs >>= fun t => (parseFmt (fmtToStr t.fmt)).map (fun p => p.vis))
    = .ok (some (some 3, some 2)) := by decide +kernel

example : NameOk "long_field.name".toList := nameOk_of_all _ (by decide)

end C13
