import AkVerif.Lemmas.LLComplete
/-! # C02 (under construction) -/
namespace C02
end C02
