import AkVerif.Lemmas.LLCompleteTop
import AkVerif.Lemmas.LLFactAll
import AkVerif.Lemmas.LLTable2
import AkVerif.Lemmas.LLC03
import AkVerif.Lemmas.LLFuel
import AkVerif.Lemmas.LLLeast
import AkVerif.Lemmas.LLLl1Final
import AkVerif.Lemmas.LLTmpl
import AkVerif.Lemmas.LLUniqueTop
import AkVerif.Lemmas.LLLl1Check
import AkVerif.Lemmas.LLTmplC02
import AkVerif.Lemmas.LLCtorN
import AkVerif.Lemmas.LLUserSets
/-!
# C02 — conflict-free (LL(1)) grammars are parsed exactly

Property theorems only.  Model: `LL.nullables`, `LL.firstSets`, `LL.followSets`, `LL.mkTable`,
`LL.isAmbiguous` (iterated as the code iterates them), `LL.construct`, `LL.Parser.parse`.
`InLang terms U start w`: the token list `w` (names and values) is the leaf sequence of a
derivation tree of the dictionary `U` rooted at `start`.
-/
namespace C02
open LL Ak

/-- **The computed sets are closed** and the table is built from them: whenever the three fixpoint
loops and `mkTable` succeed and the table is conflict-free, the closure conditions the completeness
proof needs hold (`Closed`): a rule with an all-nullable right-hand side makes its symbol nullable;
FIRST of a rule's right-hand side is in FIRST of its symbol; for `A → α X β`: FIRST(β) ⊆ FOLLOW(X)
and, β nullable, FOLLOW(A) ⊆ FOLLOW(X); `$END$ ∈ FOLLOW(start)`; a rule predicted for `(X, t)` is
the only entry of the table there.  Read off the exits of the loops (a pass that changes nothing). -/
theorem sets_closed {σ : Type} [DecidableEq σ] (G : Prods σ) (terms nulls : List σ) (first follow : SetMap σ)
    (T : Table σ) (start endS : σ) (suffix : List σ)
    (hnd : (G.map (·.1)).Nodup) (hdisj : ∀ k ∈ G.map (·.1), k ∉ terms)
    (hN : nullables G = .ok nulls) (hF : firstSets terms nulls G = .ok first)
    (hW : followSets terms nulls first G start endS = .ok follow)
    (hT : mkTable terms nulls first follow G = .ok T) (hamb : isAmbiguous T = false) :
    Closed (cfgOf terms T suffix) { prods := gramRules G } (setsOf nulls first follow)
      ∧ (setsOf nulls first follow).W start endS = true :=
  model_closed suffix hnd hdisj hN hF hW hT hamb

/-- **The computed FIRST and FOLLOW sets are exact** (least solutions, not merely closed): for a
constructed parser, `t` is in the computed FIRST set of `X` iff `First` derives it (`First`: the least
relation with "a rule `X → α s β`, `α` nullable, `s` a terminal or `First s t`"), and `t` is in the computed
FOLLOW set of `X` iff `Follow` derives it (`$END$` after the start symbol; FIRST of what follows an
occurrence; FOLLOW of the left-hand side when what follows is nullable).  In particular no spurious
element is ever stored (the defect repaired by 6b1a6af was exactly such an element). -/
theorem sets_exact (inp : CtorIn) (P : Parser) (hP : construct inp = .ok P) (X t : Sym) :
    ((∃ f, dget X P.first = some f ∧ t ∈ f) ↔ First P.prods P.terminals P.nullables X t) ∧
    ((∃ w, dget X P.follow = some w ∧ t ∈ w) ↔
        Follow P.prods P.terminals P.nullables P.first P.start endSym X t) := by
  have hB := construct_built hP
  have h1 := verifyPart1_ok hB.hV
  have hnt := lst_nulls_not_terms hB.hN (fun k hk => h1.disjoint k hk)
  exact ⟨firstSets_exact hB.hFi hnt X t, followSets_exact hB.hFo hnt X t⟩

/-- **The fuel of the three fixpoint loops always suffices**: none of them ever answers `outOfFuel`
(nullables: `|G| + 2` passes; FIRST and the FOLLOW closure: `|G|·(|terminals|+1) + 2` passes — each
non-final pass strictly grows a bounded family of duplicate-free sets of terminals). -/
theorem fuel_enough {σ : Type} [DecidableEq σ] (G : Prods σ) (terms nulls : List σ) (start endS : σ)
    (hend : endS ∈ terms) :
    nullables G ≠ .error .outOfFuel ∧ firstSets terms nulls G ≠ .error .outOfFuel ∧
    ∀ first, firstSets terms nulls G = .ok first →
      followSets terms nulls first G start endS ≠ .error .outOfFuel :=
  ⟨nullables_fuel G, firstSets_fuel' terms nulls G,
   fun first hf => followSets_fuel' terms nulls first G start endS
     (fun X f hx t ht => (firstSets_terms hf X f hx t ht).1) hend⟩

/-- **LL(1) completeness of the parse loop** (generic): with closed sets and a conflict-free table
built from them, every derivation tree `d` of the grammar rooted at the start symbol is accepted:
`run` on `yield d ++ [$END$]` returns a tree — the machine walks down `d` and never rolls back. -/
theorem det_complete {σ : Type} [DecidableEq σ] (G : Cfg σ) (P : Gram σ) (S : Sets σ) (hC : Closed G P S)
    (init start endS : σ) (endTok : Tok σ) (hend : endTok.name = endS)
    (hendT : G.isTerm endS = true) (hstartW : S.W start endS = true)
    (d : Tree σ) (hd : PValid G P d) (hname : d.name = start) (hnt : G.isTerm start = false) :
    ∃ k x, ∀ fuel, k ≤ fuel →
      run G (d.yield ++ [endTok]) fuel (initStack init start endS) = .ok x :=
  LL.det_complete hC init start endS endTok hend hendT hstartW d hd hname hnt

/-- **Factorisation preserves the language** (with and without the smart undo): the user's
dictionary and the factorised one derive the same token lists from every non-helper symbol. -/
theorem fact_lang_eq (terms : List Sym) (U G : Prods Sym) (S : List Sym) (smart : Bool)
    (hU : UserWF U) (hterm : ∀ t ∈ terms, t.path = []) (h : factorize terms U smart = .ok (G, S))
    (terms' : List Sym) (hdisj : ∀ k ∈ pkeys G, k ∉ terms') (start : Sym) (hs : start ∉ S)
    (w : List (Tok Sym)) : InLang terms' U start w ↔ InLangG terms' G start w :=
  lang_eq (factRelD_factorize hU hterm h).1 hdisj hs w

/-- **Exactness**: if `is_ambiguous()` is False, `parse` accepts a text iff its token list is a
sentence of the *user's* grammar.  (Hypotheses on the input as in `C01.parse_valid`.) -/
theorem exact (inp : CtorIn) (P : Parser) (hP : construct inp = .ok P)
    (hstart : inp.start ∈ inp.prods.map (·.1))
    (hamb : isAmbiguous P.table = false) (raw : List (List Char × List Char))
    (hEnd : ∀ tok ∈ (P.tokens raw).dropLast, tok.name ≠ endSym) :
    (∃ fuel t, P.parse raw fuel = .ok t) ↔
      InLang P.terminals P.userProds P.start (P.tokens raw).dropLast := by
  have hB := construct_built hP
  obtain ⟨hD, hnd⟩ := factRelD_of_built hB
  exact exact_of_built hB hD hnd hamb (start_user_of_built hB hstart) raw hEnd

/-- **Every non-sentence raises `ParsingError`** (ambiguous table or not): for all sufficiently
large fuel the answer is `ParsingError` — never a tree, never a loop, never another error. -/
theorem reject_raises (inp : CtorIn) (P : Parser) (hP : construct inp = .ok P)
    (hstart : inp.start ∈ inp.prods.map (·.1))
    (raw : List (List Char × List Char))
    (hEnd : ∀ tok ∈ (P.tokens raw).dropLast, tok.name ≠ endSym)
    (hnot : ¬ InLang P.terminals P.userProds P.start (P.tokens raw).dropLast) :
    ∃ k, ∀ fuel, k ≤ fuel → P.parse raw fuel = .error .parsingError := by
  have hB := construct_built hP
  obtain ⟨hD, hnd⟩ := factRelD_of_built hB
  exact reject_of_built hB hD hnd (start_user_of_built hB hstart) raw hEnd hnot

/-- **Exactness and rejection for dictionaries with templates** (generated productions as data `T`,
`PlainNames` as in `C01.parse_valid_templates`; `constructGN nonull T` is the constructor the driver executes:
`constructG T` plus the templates' own `verify_grammar` stage, `nonull` = item symbols of the delimiter-less list
templates): the list / map / sequence shapes are right-recursive LL(1) grammars, parsed exactly and rejected
with `ParsingError`, whatever the length of the input. -/
theorem exact_templates (nonull : List (List Char)) (T : Tmpl) (inp : CtorIn) (P : Parser)
    (hP : constructGN nonull T inp = .ok P)
    (hpl : PlainNames inp.prods) (hstart : inp.start ∈ inp.prods.map (·.1))
    (hamb : isAmbiguous P.table = false) (raw : List (List Char × List Char))
    (hEnd : ∀ tok ∈ (P.tokens raw).dropLast, tok.name ≠ endSym) :
    ((∃ fuel t, P.parse raw fuel = .ok t) ↔
      InLang P.terminals P.userProds P.start (P.tokens raw).dropLast) ∧
    (¬ InLang P.terminals P.userProds P.start (P.tokens raw).dropLast →
      ∃ k, ∀ fuel, k ≤ fuel → P.parse raw fuel = .error .parsingError) :=
  ⟨exact_G (constructGN_ok hP) hpl hstart hamb raw hEnd, reject_G (constructGN_ok hP) hpl hstart raw hEnd⟩

/-- **Identically for both `smart_factorization` settings**: two parsers built from the same
arguments except `smart_factorization`, both reporting no ambiguity, accept the same texts. -/
theorem smart_indep (inp : CtorIn) (P1 P2 : Parser)
    (h1 : construct { inp with smart := true } = .ok P1) (h2 : construct { inp with smart := false } = .ok P2)
    (hstart : inp.start ∈ inp.prods.map (·.1))
    (ha1 : isAmbiguous P1.table = false) (ha2 : isAmbiguous P2.table = false)
    (raw : List (List Char × List Char))
    (hEnd : ∀ tok ∈ (P1.tokens raw).dropLast, tok.name ≠ endSym) :
    (∃ fuel t, P1.parse raw fuel = .ok t) ↔ (∃ fuel t, P2.parse raw fuel = .ok t) := by
  have b1 := construct_built h1
  have b2 := construct_built h2
  have eU : P1.userProds = P2.userProds := by
    have := b1.hU; rw [show ({ inp with smart := true } : CtorIn).prods = inp.prods from rfl] at this
    have t2 := b2.hU; rw [show ({ inp with smart := false } : CtorIn).prods = inp.prods from rfl] at t2
    rw [this] at t2; injection t2
  have eT : P1.terminals = P2.terminals := by rw [b1.hterms, b2.hterms]; rfl
  have eS : P1.start = P2.start := by rw [b1.hstart, b2.hstart]
  have esk : P1.skip = P2.skip := by
    have := b1.hskip
    have t2 := b2.hskip
    rw [show skipSet ({ inp with smart := true } : CtorIn) (tokenNames { inp with smart := true }) =
      skipSet ({ inp with smart := false } : CtorIn) (tokenNames { inp with smart := false }) from rfl] at this
    rw [this] at t2; injection t2
  have etok : P1.tokens raw = P2.tokens raw := by
    have er : P1.rename = P2.rename := by
      funext r; simp [Parser.rename, b1.hsyn, b2.hsyn, b1.hkw, b2.hkw]
    simp [Parser.tokens, er, esk]
  rw [exact _ P1 h1 hstart ha1 raw hEnd, exact _ P2 h2 hstart ha2 raw (etok ▸ hEnd),
    eU, eT, eS, etok]

/-- **The conflict report is exact**: `is_ambiguous()` is False **iff** for every key of the factorised
dictionary the predict sets of its rules, as the constructor computes them (`startSyms`), are pairwise
disjoint. -/
theorem conflict_report_exact (inp : CtorIn) (P : Parser) (hP : construct inp = .ok P) :
    isAmbiguous P.table = false ↔
      ∀ A rules, (A, rules) ∈ P.prods →
        rules.Pairwise (PredDisjoint P.terminals P.nullables P.first P.follow A) := by
  have hB := construct_built hP
  exact not_ambiguous_iff_disjoint (built_struct hB).1 hB.hT

/-- **The set functions never fail on the dictionary the user wrote**: for every parser the constructor returns
(start symbol a key of `productions`) the model's nullable / FIRST / FOLLOW functions — the same three functions the
constructor applies to the factorised dictionary — succeed on the *user's* dictionary: its right-hand side symbols
are terminals or keys, no `KeyError` place is reachable and the fuel suffices (`fuel_enough`).  That they return
the least sets of their dictionary is `LL.nullables_least`, `LL.firstSets_exact`, `LL.followSets_exact`.  So "the
predict sets of the grammar as written" below are defined for every accepted grammar, not assumed. -/
theorem user_sets_total (inp : CtorIn) (P : Parser) (hP : construct inp = .ok P)
    (hstart : inp.start ∈ inp.prods.map (·.1)) :
    ∃ NU FU WU, nullables P.userProds = .ok NU ∧ firstSets P.terminals NU P.userProds = .ok FU ∧
      followSets P.terminals NU FU P.userProds P.start endSym = .ok WU :=
  LL.user_sets_total hP hstart

/-- **A grammar that is LL(1) as written is reported as not ambiguous** (both `smart_factorization`
values).  "LL(1) as written": for every symbol of the *user's* productions the predict sets of its
alternatives are pairwise disjoint, the sets being `NU`, `FU`, `WU` = what the model's nullable / FIRST / FOLLOW
functions return on the user's dictionary — they exist for every accepted grammar (`user_sets_total`; the statement
provides them, it does not assume them) and are the least sets (`LL.nullables_least`, `LL.firstSets_exact`,
`LL.followSets_exact`).
Hypotheses, all of them: the constructor returned `P`; the start symbol is a key of `productions` (`hstart`);
every key has at least one alternative (`hne`; without it the statement is false, see the example below).
(The earlier form with `hNU`/`hFU`/`hWU` as hypotheses is the lemma `LL.ll1_unambiguous`.)
Ingredients: exactness of the computed sets for both dictionaries; FIRST/FOLLOW/nullable of the
factorised dictionary are contained in those of the user's dictionary (helpers read through their
expansions); the *ordered* identity `C01.factorize_ordered` (different rules of a key cover disjoint
ranges of the user's alternatives); "a symbol with rules is nullable or has a non-empty FIRST" for
non-left-recursive grammars (so the common prefix of a factorised group is nullable whenever its
members are to be distinguished by the remainder). -/
theorem ll1_as_written_unambiguous (inp : CtorIn) (P : Parser) (hP : construct inp = .ok P)
    (hne : ∀ X rules, (X, rules) ∈ P.userProds → rules ≠ [])
    (hstart : inp.start ∈ inp.prods.map (·.1)) :
    ∃ NU FU WU, nullables P.userProds = .ok NU ∧ firstSets P.terminals NU P.userProds = .ok FU ∧
      followSets P.terminals NU FU P.userProds P.start endSym = .ok WU ∧
      ((∀ X rules, (X, rules) ∈ P.userProds → rules.Pairwise (PredDisjoint P.terminals NU FU WU X)) →
        isAmbiguous P.table = false) :=
  ll1_unambiguous' hP hne hstart

/-! Non-vacuity of `ll1_as_written_unambiguous`: `S → X t Y ; X → A ; A → a | ε ; Y → A c | t d` (a unit
production over a nullable symbol, FOLLOW needed to tell the alternatives of `A` apart) meets **every**
hypothesis, for both `smart_factorization` values: the constructor accepts it, the three set functions succeed on
the user's dictionary, every key has an alternative, the predict sets are pairwise disjoint (Boolean checker
`LL.ll1Check`, sound by `LL.ll1Check_sound`; evaluated by the kernel). -/
def ll1Inp (smart : Bool) : CtorIn :=
  { groups := ["SPACE".toList, "a".toList, "c".toList, "t".toList, "d".toList], syn := [], kw := [], skip := none,
    start := "S".toList,
    prods := [("S".toList, [["X".toList, "t".toList, "Y".toList]]),
              ("X".toList, [["A".toList]]),
              ("A".toList, [["a".toList], []]),
              ("Y".toList, [["A".toList, "c".toList], ["t".toList, "d".toList]])],
    smart := smart }

theorem ll1_as_written_nonvacuous (smart : Bool) :
    ∃ P NU FU WU, construct (ll1Inp smart) = .ok P ∧
      nullables P.userProds = .ok NU ∧ firstSets P.terminals NU P.userProds = .ok FU ∧
      followSets P.terminals NU FU P.userProds P.start endSym = .ok WU ∧
      (∀ X rules, (X, rules) ∈ P.userProds → rules ≠ []) ∧
      (ll1Inp smart).start ∈ (ll1Inp smart).prods.map (·.1) ∧
      (∀ X rules, (X, rules) ∈ P.userProds → rules.Pairwise (PredDisjoint P.terminals NU FU WU X)) ∧
      isAmbiguous P.table = false := by
  have h : ∀ b : Bool, (match construct (ll1Inp b) with
      | .ok P => ll1Check P && decide ((ll1Inp b).start ∈ (ll1Inp b).prods.map (·.1))
      | .error _ => false) = true := by decide +kernel
  have hs := h smart
  cases hc : construct (ll1Inp smart) with
  | error e => rw [hc] at hs; simp at hs
  | ok P =>
    rw [hc] at hs
    simp only [Bool.and_eq_true, decide_eq_true_eq] at hs
    obtain ⟨NU, FU, WU, h1, h2, h3, h4, h5⟩ := ll1Check_sound hs.1
    exact ⟨P, NU, FU, WU, rfl, h1, h2, h3, h4, hs.2, h5,
      ll1_unambiguous hc h1 h2 h3 h4 hs.2 h5⟩

/-- **The LL(1) verdict makes the table deterministic**: when `is_ambiguous()` is False, for every symbol and
every next token the table selects **exactly one** production (or none) — the roll-back branch of `parse` has
no second alternative to turn to. -/
theorem table_deterministic (inp : CtorIn) (P : Parser) (_hP : construct inp = .ok P)
    (hamb : isAmbiguous P.table = false) (X t : Sym) (alts : List (List Sym))
    (h : P.cfg.table X t = some alts) : alts.length = 1 :=
  table_det hamb X t alts h

/-- **A single derivation tree**: when `is_ambiguous()` is False, a token list has **at most one** derivation
tree of the grammar *the user wrote* rooted at the start symbol (`LL.Derives`: every inner node with the names of
its children is one of the user's productions).  From: the conflict-free table is the LL(1) table of closed sets
(`sets_closed`), classical LL(1) uniqueness on the factorised dictionary (`LL.tree_unique`), and the fact that a
user tree is recovered from its factorised image by splicing the helper nodes (`LL.gtree_of_derives_unf`). -/
theorem unique_derivation (inp : CtorIn) (P : Parser) (hP : construct inp = .ok P)
    (hamb : isAmbiguous P.table = false) (t1 t2 : Tree Sym)
    (h1 : Derives P.terminals P.userProds t1) (h2 : Derives P.terminals P.userProds t2)
    (hn1 : t1.name = P.start) (hn2 : t2.name = P.start) (hy : t1.yield = t2.yield) : t1 = t2 := by
  have hB := construct_built hP
  obtain ⟨hD, hnd⟩ := factRelD_of_built hB
  exact unique_user_tree hB hD hnd hamb t1 t2 h1 h2 hn1 hn2 hy

/-- **The LL(1) verdict implies a single parse, and `parse` finds it**: when `is_ambiguous()` is False, the tree
returned by the (backtracking) parse loop is *the* derivation tree of the token list — every derivation tree of
the user's grammar for these tokens equals it.  So no order of trying alternatives, and no predictive parser
driven by the same table, could return anything else. -/
theorem parse_unique (inp : CtorIn) (P : Parser) (hP : construct inp = .ok P)
    (hstart : inp.start ∈ inp.prods.map (·.1))
    (hamb : isAmbiguous P.table = false) (raw : List (List Char × List Char))
    (hEnd : ∀ tok ∈ (P.tokens raw).dropLast, tok.name ≠ endSym)
    (fuel : Nat) (t : Tree Sym) (h : P.parse raw fuel = .ok t)
    (u : Tree Sym) (hu : Derives P.terminals P.userProds u) (hun : u.name = P.start)
    (huy : u.yield = (P.tokens raw).dropLast) : u = t := by
  have hB := construct_built hP
  obtain ⟨hD, hnd⟩ := factRelD_of_built hB
  exact parse_is_the_tree hB hD hnd hamb (start_user_of_built hB hstart) raw hEnd fuel t h u hu hun huy

/-! ### The same clauses for dictionaries with production templates — the constructor the driver executes

`constructGN nonull T` = `constructG T` (generated productions as data `T`) plus the templates' `verify_grammar`
stage (`nonull`: item symbols of delimiter-less list templates; a nullable one ⇒ `GrammarError`).  `P.userProds` is
the **expanded** dictionary.  `PlainNames`: no name has the shape of a factorisation helper `X__Snn` (decidable). -/

/-- `sets_exact` for dictionaries with templates -/
theorem sets_exact_templates (nonull : List (List Char)) (T : Tmpl) (inp : CtorIn) (P : Parser)
    (hP : constructGN nonull T inp = .ok P) (X t : Sym) :
    ((∃ f, dget X P.first = some f ∧ t ∈ f) ↔ First P.prods P.terminals P.nullables X t) ∧
    ((∃ w, dget X P.follow = some w ∧ t ∈ w) ↔
        Follow P.prods P.terminals P.nullables P.first P.start endSym X t) :=
  sets_exact_G (constructG_built (constructGN_ok hP)) X t

/-- `conflict_report_exact` for dictionaries with templates -/
theorem conflict_report_exact_templates (nonull : List (List Char)) (T : Tmpl) (inp : CtorIn) (P : Parser)
    (hP : constructGN nonull T inp = .ok P) :
    isAmbiguous P.table = false ↔
      ∀ A rules, (A, rules) ∈ P.prods →
        rules.Pairwise (PredDisjoint P.terminals P.nullables P.first P.follow A) :=
  conflict_report_exact_G (constructG_built (constructGN_ok hP))

/-- `user_sets_total` and `ll1_as_written_unambiguous` for dictionaries with templates: the sets of the expanded
dictionary exist, and if the predict sets of the alternatives of every symbol of the expanded dictionary are pairwise
disjoint, `is_ambiguous()` is False (so every list / map / sequence template that is LL(1) as expanded is reported
as such). -/
theorem ll1_as_written_unambiguous_templates (nonull : List (List Char)) (T : Tmpl) (inp : CtorIn) (P : Parser)
    (hP : constructGN nonull T inp = .ok P) (hpl : PlainNames inp.prods)
    (hne : ∀ X rules, (X, rules) ∈ P.userProds → rules ≠ [])
    (hstart : inp.start ∈ inp.prods.map (·.1)) :
    ∃ NU FU WU, nullables P.userProds = .ok NU ∧ firstSets P.terminals NU P.userProds = .ok FU ∧
      followSets P.terminals NU FU P.userProds P.start endSym = .ok WU ∧
      ((∀ X rules, (X, rules) ∈ P.userProds → rules.Pairwise (PredDisjoint P.terminals NU FU WU X)) →
        isAmbiguous P.table = false) :=
  ll1_unambiguous_G' (constructGN_ok hP) hpl hne hstart

/-- `unique_derivation` and `parse_unique` for dictionaries with templates: at most one derivation tree of the
expanded dictionary per token list, and `parse` returns it. -/
theorem parse_unique_templates (nonull : List (List Char)) (T : Tmpl) (inp : CtorIn) (P : Parser)
    (hP : constructGN nonull T inp = .ok P) (hpl : PlainNames inp.prods)
    (hstart : inp.start ∈ inp.prods.map (·.1)) (hamb : isAmbiguous P.table = false) :
    (∀ t1 t2 : Tree Sym, Derives P.terminals P.userProds t1 → Derives P.terminals P.userProds t2 →
      t1.name = P.start → t2.name = P.start → t1.yield = t2.yield → t1 = t2) ∧
    (∀ (raw : List (List Char × List Char)), (∀ tok ∈ (P.tokens raw).dropLast, tok.name ≠ endSym) →
      ∀ (fuel : Nat) (t : Tree Sym), P.parse raw fuel = .ok t →
      ∀ u : Tree Sym, Derives P.terminals P.userProds u → u.name = P.start →
        u.yield = (P.tokens raw).dropLast → u = t) := by
  have hB := constructG_built (constructGN_ok hP)
  obtain ⟨hD, hnd⟩ := factRelD_of_builtG hB hpl
  exact ⟨fun t1 t2 h1 h2 hn1 hn2 hy => unique_user_tree_G hB hD hnd hamb t1 t2 h1 h2 hn1 hn2 hy,
    fun raw hEnd fuel t h u hu hun huy =>
      parse_is_the_tree_G hB hD hnd hamb (start_user_of_builtG hB hpl hstart) raw hEnd fuel t h u hu hun huy⟩

/-- `smart_indep` for dictionaries with templates -/
theorem smart_indep_templates (nonull : List (List Char)) (T : Tmpl) (inp : CtorIn) (P1 P2 : Parser)
    (h1 : constructGN nonull T { inp with smart := true } = .ok P1)
    (h2 : constructGN nonull T { inp with smart := false } = .ok P2)
    (hpl : PlainNames inp.prods) (hstart : inp.start ∈ inp.prods.map (·.1))
    (ha1 : isAmbiguous P1.table = false) (ha2 : isAmbiguous P2.table = false)
    (raw : List (List Char × List Char))
    (hEnd : ∀ tok ∈ (P1.tokens raw).dropLast, tok.name ≠ endSym) :
    (∃ fuel t, P1.parse raw fuel = .ok t) ↔ (∃ fuel t, P2.parse raw fuel = .ok t) :=
  smart_indep_G (constructGN_ok h1) (constructGN_ok h2) hpl hstart ha1 ha2 raw hEnd

/-! `hne` cannot be dropped — and the real parser behaves like the model: in
`E → X b ; X → Z a | Z a b ; Z → (no alternatives)` both alternatives of `X` have an empty predict set
(`Z` derives nothing), so the grammar is LL(1) as written, yet the factorised `X__S00 → ε | b` conflicts
on `b` (`b` follows `X`) and `is_ambiguous()` is True. -/
def noAltInp : CtorIn :=
  { groups := ["SPACE".toList, "a".toList, "b".toList], syn := [], kw := [], skip := none,
    start := "E".toList,
    prods := [("E".toList, [["X".toList, "b".toList]]),
              ("X".toList, [["Z".toList, "a".toList], ["Z".toList, "a".toList, "b".toList]]),
              ("Z".toList, [])],
    smart := false }

example : (match construct noAltInp with
    | .ok P =>
      isAmbiguous P.table &&
      (match nullables P.userProds with
       | .ok NU => (match firstSets P.terminals NU P.userProds with
         | .ok FU => (match followSets P.terminals NU FU P.userProds P.start endSym with
           | .ok WU =>
             decide (startSyms P.terminals NU FU WU (parseSym "X".toList)
                      (["Z".toList, "a".toList].map parseSym) [] = Except.ok []) &&
             decide (startSyms P.terminals NU FU WU (parseSym "X".toList)
                      (["Z".toList, "a".toList, "b".toList].map parseSym) [] = Except.ok [])
           | .error _ => false)
         | .error _ => false)
       | .error _ => false)
    | .error _ => false) = true := by decide +kernel

/-! Non-vacuity: `E → a E b | c` is LL(1): the constructor reports no ambiguity, `a a c b b` is
accepted, `a c` is rejected with `ParsingError` (kernel evaluation, both settings agree). -/
def exInp (smart : Bool) : CtorIn :=
  { groups := ["SPACE".toList, "a".toList, "b".toList, "c".toList], syn := [], kw := [], skip := none,
    start := "E".toList,
    prods := [("E".toList, [["a".toList, "E".toList, "b".toList], ["c".toList]])],
    smart := smart }

def toks (s : String) : List (List Char × List Char) := s.toList.map fun c => ([c], [c])

def outcome (smart : Bool) (s : String) : Option Bool :=
  match construct (exInp smart) with
  | .ok P =>
    if isAmbiguous P.table then none else
    match P.parse (toks s) 10000 with
    | .ok _ => some true
    | .error .parsingError => some false
    | .error _ => none
  | .error _ => none

example : outcome true "aacbb" = some true := by decide +kernel
example : outcome false "aacbb" = some true := by decide +kernel
example : outcome true "ac" = some false := by decide +kernel
example : outcome false "acbb" = some false := by decide +kernel

end C02
