import AkVerif.Gen.C17
import AkVerif.Lemmas.HttpConn
import AkVerif.Lemmas.HttpConnHeap
import AkVerif.Lemmas.HttpConnFrame
import AkVerif.Lemmas.HttpConnB64
import AkVerif.Lemmas.HttpConnStack
/-!
# C17 — layered HTTP connections compose adapters without side effects

Property theorems only, about `HttpConn.step` / `HttpConn.request` — the functions the driver
`Drv/C17.lean` executes. Vocabulary (defined in `Model/HttpConn.lean`, `Lemmas/HttpConn*.lean`):

* `Inv H`            the separation invariant: no two connections share an adapter list, no connection's
                     list is a list object of the caller, all references are valid;
* `viewCore H c`     what a request through `c` reads: the connection record, address and "send ids"
                     flag of its `conn_impl`, and the content of `c.adapters`;
* `sentCore H c a`   the `Request` produced by a request through `c` (or the exception), without the
                     number taken from the id counter;
* `pureSend v hd pd a` the same computed from a view and the caller's dictionaries alone;
* `applyAll as ra`   `for adapter in adapters: adapter.process_req_args(req_args)`.
-/
namespace C17
open HttpConn Ak

/-- Every heap reachable by any history of operations satisfies the separation invariant, and the
caller's dict objects in it exist and hold text only. -/
theorem reachable_inv (ops : List Op) : Inv (run Heap.empty ops) ∧ DInv (run Heap.empty ops) :=
  ⟨run_inv Inv.empty ops, run_dinv DInv.empty ops⟩

/-- In a heap satisfying the invariant every connection has a view: the hypotheses
`viewCore H c = some v` of the theorems below hold for every connection of every reachable heap, and
a request whose `headers=` / `params=` are dict objects of the caller never ends in the model's
internal `KeyError`. -/
theorem view_defined (H : Heap) (hi : Inv H) (hdi : DInv H) (c : Nat) (hc : c < H.conns.length) (args : Args)
    (hh : ∀ n, args.headers = some n → n ∈ H.userDicts)
    (hp : ∀ n, args.params = some n → n ∈ H.userDicts)
    (hda : ∀ r, args.data = .obj r → r < H.datas.length) :
    (∃ v, viewCore H c = some v) ∧ sentCore H c args ≠ .error .keyError := by
  obtain ⟨cn, hcn⟩ : ∃ cn, H.conns[c]? = some cn := ⟨H.conns[c], by simp [hc]⟩
  obtain ⟨h1, h2⟩ := hi.conn_ok c cn hcn
  have hv : viewCore H c = some (cn, H.impls[cn.impl].address, H.impls[cn.impl].sendIds, H.lists[cn.alist]) :=
    viewCore_some_iff.mpr ⟨H.impls[cn.impl], hcn, by simp [h2], by simp [h1], rfl, rfl⟩
  refine ⟨⟨_, hv⟩, ?_⟩
  obtain ⟨hd, hhd⟩ : ∃ d, optDict H args.headers = some d := by
    cases hr : args.headers with
    | none => exact ⟨none, rfl⟩
    | some n =>
      obtain ⟨d, u, h1, _⟩ := optParams_user hdi (hh n hr)
      exact ⟨_, h1⟩
  obtain ⟨pd, hpd⟩ : ∃ d, optParams H args.params = some d := by
    cases hr : args.params with
    | none => exact ⟨none, rfl⟩
    | some n =>
      obtain ⟨d, u, _, h2⟩ := optParams_user hdi (hp n hr)
      exact ⟨_, h2⟩
  obtain ⟨body, hbd⟩ : ∃ b, optData H args.data = some b := by
    cases hr : args.data with
    | obj r =>
      have hlt := hda r hr
      exact ⟨.json H.datas[r], by simp [optData, hlt]⟩
    | none => exact ⟨_, rfl⟩
    | bytes b => exact ⟨_, rfl⟩
    | str s => exact ⟨_, rfl⟩
  rw [sentCore_eq, hv, hhd, hpd, hbd]
  simp only [pureSend]
  cases hr : applyAll H.lists[cn.alist] { path := args.path, headers := copyHeaders hd } with
  | ok ra => simp
  | error e =>
    simp only []
    intro he
    cases he
    have : ∀ (as : List Adapter) (ra : RA), applyAll as ra ≠ .error .keyError := by
      intro as
      induction as with
      | nil => intro ra h; cases h
      | cons a as ih =>
        intro ra h
        simp only [applyAll] at h
        cases h1 : applyReq a ra with
        | ok r1 => rw [h1] at h; exact ih r1 h
        | error e =>
          rw [h1] at h; cases h
          cases a with
          | pfx p => cases h1
          | auth k hv => simp only [applyReq] at h1; split at h1 <;> cases h1
          | trace t => simp only [applyReq] at h1; split at h1 <;> cases h1
          | unwrap _ | count | compact | nullify | addParam _ _ | wrapData _ | nested _ _ _ _ => cases h1
          | boom b => cases b <;> cases h1
    exact this _ _ hr

/-- A request through `c` is a function of `c`'s view and of the dictionaries the caller passes:
the adapters applied are exactly the current content of `c.adapters`, by `applyAll`, each once and in
list order (`pureSend` unfolds to `applyAll` followed by `assemble`). -/
theorem request_uses_chain (H : Heap) (c : Nat) (args : Args) (v : Conn × Str × Bool × List Adapter)
    (hd : Option Dict) (pd : Option UDict) (hv : viewCore H c = some v) (hh : optDict H args.headers = some hd)
    (hp : optParams H args.params = some pd) (body : Body) (hb : optData H args.data = some body) :
    sentCore H c args = pureSend v hd pd body args := by
  rw [sentCore_eq, hv, hh, hp, hb]

/-- Deriving: `cls(parent, adapters=own)` (also the auth wrappers, `clone`, and the connection
`get_conn` makes for a prefix) creates connection number `H.conns.length` whose adapters are the own
adapters followed by the adapters the parent has at that moment, on the parent's `conn_impl`. -/
theorem derive_chain (H H' : Heap) (p n : Nat) (own : Own) (plain : Bool)
    (h : mkConn H (.conn p) own plain = some (H', n))
    (pc : Conn) (addr : Str) (sid : Bool) (pl as : List Adapter)
    (hv : viewCore H p = some (pc, addr, sid, pl)) (ho : ownAdapters H own = some as) :
    n = H.conns.length ∧
    viewCore H' n = some (⟨pc.impl, H.lists.length, plain⟩, addr, sid, as ++ pl) :=
  viewCore_mkConn_new h hv ho

/-- A connection made from an address has exactly its own adapters; a `str` address loses one
trailing slash and always sends ids. -/
theorem base_chain (H H' : Heap) (a : Str) (isStr sendIds : Bool) (own : Own) (plain : Bool) (n : Nat)
    (h : mkConn H (.addr a isStr sendIds) own plain = some (H', n)) (as : List Adapter)
    (ho : ownAdapters H own = some as) :
    n = H.conns.length ∧
    viewCore H' n = some (⟨H.impls.length, H.lists.length, plain⟩,
      if isStr then stripSlash a else a, if isStr then true else sendIds, as) :=
  viewCore_mkConn_addr h ho

/-- `c.add_adapter(a)` puts `a` at the end of `c`'s adapters (after the parent's). -/
theorem add_chain (H : Heap) (c : Nat) (a : Adapter) (cn : Conn) (addr : Str) (sid : Bool) (as : List Adapter)
    (hv : viewCore H c = some (cn, addr, sid, as)) :
    (step H (.add c a)).2 = .ok .unit ∧
    viewCore (step H (.add c a)).1 c = some (cn, addr, sid, as ++ [a]) :=
  viewCore_add a hv

/-- **Each adapter of the chain exactly once, in order.** When the adapters `as` accept the request:
the path is the caller's path wrapped by the prefixes of `as` in list order (first innermost); the
tracing header is the caller's text followed by the tags of `as` in list order, every tag once
(the response side is `response_chain`); headers other than `Authorization` and the tracing
header are the caller's. -/
theorem chain_once (as : List Adapter) (ra0 ra : RA) (h : applyAll as ra0 = .ok ra) :
    ra.path = prefixFold (prefixesOf as) ra0.path ∧
    (∀ s, dget ra0.headers xtrace = some (.str s) →
        dget ra.headers xtrace = some (.str (s ++ (traceTags as).flatten))) ∧
    (dget ra0.headers xtrace = none → traceTags as ≠ [] →
        dget ra.headers xtrace = some (.str (traceTags as).flatten)) ∧
    (∀ k, k ≠ Gen.C17.authHeader → k ≠ xtrace → dget ra.headers k = dget ra0.headers k) := by
  refine ⟨applyAll_path h, (applyAll_trace h).1, ?_, fun k h1 h2 => applyAll_other h h1 h2⟩
  intro hn hne
  rcases (applyAll_trace h).2 hn with ⟨he, _⟩ | ⟨_, hv⟩
  · exact absurd he hne
  · exact hv

/-- **Inner prefixes outermost.** Through a connection with own adapters `own` derived from a parent
with adapters `par`, the parent's prefixes are wrapped around the result of the own ones; the
prefix applied last starts the final path. -/
theorem prefix_outermost (own par : List Adapter) (ra0 ra : RA) (h : applyAll (own ++ par) ra0 = .ok ra) :
    ra.path = prefixFold (prefixesOf par) (prefixFold (prefixesOf own) ra0.path) ∧
    (∀ ps q, prefixesOf (own ++ par) = ps ++ [q] → q <+: ra.path) := by
  have hp := applyAll_path h
  refine ⟨?_, ?_⟩
  · rw [hp, prefixesOf, List.filterMap_append, prefixFold_append]; rfl
  · intro ps q hq
    rw [hp, hq, prefixFold_append]
    simp only [prefixFold, List.foldl_cons, List.foldl_nil]
    exact joinPrefix_isPrefix _ _

/-- Joining a prefix: plain concatenation, except that `…/` + `/…` keeps one slash. -/
theorem prefix_join (p path : Str) :
    (¬ (endsWithSlash p = true ∧ startsWithSlash path = true) → joinPrefix p path = p ++ path) ∧
    (∀ r, endsWithSlash p = true → joinPrefix p ('/' :: r) = p ++ r) :=
  ⟨joinPrefix_plain p path, fun r h => joinPrefix_slash p r h⟩

/-- **Exactly one Authorization header, from the authenticating layer.** If the chain is accepted and
contains one authenticating adapter with header value `hv`, the `Request` has exactly one header
named `Authorization` and its value is `hv` — whatever the caller's headers were (a caller key
`authorization` in another capitalisation is overridden, an exact `Authorization` key makes the
adapter refuse, see `auth_refused`). -/
theorem auth_once (as : List Adapter) (ra0 ra : RA) (hv : HVal) (h : applyAll as ra0 = .ok ra)
    (h1 : authHdrs as = [hv]) (impl : Impl) (m : Option Str) (pd : Option UDict) (data : Body)
    (resp : Except Err J) :
    let s := assemble impl ra m pd data resp
    dget s.headers Gen.C17.authHeader = some hv ∧ (s.headers.filter (·.1 = Gen.C17.authHeader)).length = 1 := by
  intro s
  have hd : dget s.headers Gen.C17.authHeader = some hv := by
    rw [assemble_header impl ra m pd data resp cap_id_ne_auth cap_ct_ne_auth]
    rcases applyAll_auth h with ⟨hs, _⟩ | ⟨hv', hs, _, _, hl⟩
    · rw [hs] at h1; cases h1
    · rw [hs] at h1; cases h1; exact hl
  exact ⟨hd, count_key_eq_one (assemble_keys_nodup impl ra m pd data resp) hd⟩

/-- Without an authenticating layer nothing writes `Authorization`: the request carries what the
caller passed (the last caller key that capitalises to it), or no such header. -/
theorem auth_none (as : List Adapter) (ra0 ra : RA) (h : applyAll as ra0 = .ok ra) (h0 : authHdrs as = [])
    (impl : Impl) (m : Option Str) (pd : Option UDict) (data : Body) (resp : Except Err J) :
    dget (assemble impl ra m pd data resp).headers Gen.C17.authHeader = lastCap ra0.headers Gen.C17.authHeader := by
  rw [assemble_header impl ra m pd data resp cap_id_ne_auth cap_ct_ne_auth]
  rcases applyAll_auth h with ⟨_, _, hl⟩ | ⟨hv', hs, _⟩
  · exact hl
  · rw [hs] at h0; cases h0

/-- A chain with one authenticating adapter (or none), and without the harness's refusing adapter,
accepts every request whose caller headers have no key spelled exactly `Authorization`; the headers are a copy of the caller's. -/
theorem auth_accepts (as : List Adapter) (path : Str) (hd : Option Dict) (hcd : CallerDict hd)
    (h : (authHdrs as).length ≤ 1) (hc : dget (copyHeaders hd) Gen.C17.authHeader = none)
    (hb : Adapter.boom true ∉ as) :
    ∃ ra, applyAll as ⟨path, copyHeaders hd⟩ = .ok ra := by
  apply applyAll_accepts as _ (TraceOk_copyHeaders hd hcd) hb
  match hs : authHdrs as, h with
  | [], _ => exact Or.inl rfl
  | [x], _ => exact Or.inr ⟨⟨x, rfl⟩, hc⟩

/-- Two authenticating layers in one chain: every request is refused with `AssertionError`
(nothing is sent, no id is consumed). -/
theorem auth_refused (H : Heap) (c : Nat) (args : Args) (v : Conn × Str × Bool × List Adapter)
    (hd : Option Dict) (pd : Option UDict) (hv : viewCore H c = some v) (hh : optDict H args.headers = some hd)
    (hcd : CallerDict hd) (hp : optParams H args.params = some pd) (h2 : 2 ≤ (authHdrs v.2.2.2).length)
    (hb : Adapter.boom true ∉ v.2.2.2) (body : Body) (hbd : optData H args.data = some body) :
    sentCore H c args = .error .assertion := by
  rw [request_uses_chain H c args v hd pd hv hh hp body hbd, pureSend,
    applyAll_two_auth _ _ (TraceOk_copyHeaders hd hcd) hb h2]

/-- The value of the basic / client / token adapters: for **any** encoder `b64` with decoder `dec`
(`dec (b64 x) = some x`), what follows `Basic ` decodes to the UTF-8 bytes of `login:password`
(`client_id:client_secret`); a token is sent as `Bearer <token>`. -/
theorem auth_decodes (b64 : List Nat → Str) (dec : Str → Option (List Nat)) (law : ∀ x, dec (b64 x) = some x)
    (login pw tok : Str) :
    (∃ v, mkBasic b64 login pw = .auth .basic (.bytes v) ∧ Gen.C17.basicPrefix <+: v ∧
        dec (v.drop Gen.C17.basicPrefix.length) = some (utf8s (login ++ Gen.C17.credSep ++ pw))) ∧
    (∃ v, mkClient b64 login pw = .auth .client (.bytes v) ∧ Gen.C17.clientPrefix <+: v ∧
        dec (v.drop Gen.C17.clientPrefix.length) = some (utf8s (login ++ Gen.C17.credSep ++ pw))) ∧
    mkToken tok = .auth .token (.str (Gen.C17.bearerPrefix ++ tok)) := by
  refine ⟨⟨_, rfl, List.prefix_append _ _, ?_⟩, ⟨_, rfl, List.prefix_append _ _, ?_⟩, rfl⟩ <;>
    simp [List.drop_left', law]

/-- The same for the encoder the driver actually runs (`b64enc`, compared with `base64.b64encode`
by the correspondence runs): it has a decoder `b64dec`, so the header value of the basic and client
adapters decodes to exactly the configured credentials. -/
theorem auth_decodes_b64 (login pw : Str) :
    ∃ v, mkBasic b64enc login pw = .auth .basic (.bytes v) ∧
      mkClient b64enc login pw = .auth .client (.bytes v) ∧ "Basic ".toList <+: v ∧
      b64dec (v.drop 6) = some (utf8s (login ++ ':' :: pw)) := by
  have law : ∀ x : Str, b64dec (b64enc (utf8s x)) = some (utf8s x) := fun x =>
    b64dec_b64enc _ (by
      intro b hb
      simp only [utf8s, List.mem_flatMap] at hb
      obtain ⟨c, _, hc⟩ := hb
      exact utf8_lt c b hc)
  refine ⟨_, rfl, rfl, List.prefix_append _ _, ?_⟩
  have : Gen.C17.basicPrefix.length = 6 := by decide
  rw [← this, List.drop_left']
  · have e : login ++ Gen.C17.credSep ++ pw = login ++ ':' :: pw := by simp [Gen.C17.credSep]
    rw [e]; exact law _
  · rfl

/-- the literals of the statement, as generated from the source -/
theorem literals : Gen.C17.authHeader = "Authorization".toList ∧ Gen.C17.basicPrefix = "Basic ".toList ∧
    Gen.C17.clientPrefix = "Basic ".toList ∧ Gen.C17.bearerPrefix = "Bearer ".toList ∧
    Gen.C17.credSep = ":".toList ∧ Gen.C17.ctValue = "application/json".toList ∧
    capitalize Gen.C17.ctHeader = "Content-type".toList ∧ lower Gen.C17.idHeader = Gen.C17.idHeaderLower := by
  decide

/-- **URL** = address + path (+ `?` + url-encoded params when there are any), a `/` put between
address and path exactly when neither brings one. -/
theorem url (impl : Impl) (ra : RA) (m : Option Str) (pd : Option UDict) (data : Body) (resp : Except Err J) :
    (assemble impl ra m pd data resp).url =
      (if endsWithSlash impl.address = true ∨ startsWithSlash (withQuery ra.path pd) = true
       then impl.address ++ withQuery ra.path pd else impl.address ++ '/' :: withQuery ra.path pd) ∧
    withQuery ra.path none = ra.path ∧ withQuery ra.path (some []) = ra.path ∧
    (∀ kv r, withQuery ra.path (some (kv :: r)) = ra.path ++ '?' :: urlencode (kv :: r)) := by
  refine ⟨?_, rfl, rfl, fun _ _ => rfl⟩
  simp only [assemble, mkUrl]
  by_cases h1 : endsWithSlash impl.address = true <;>
    by_cases h2 : startsWithSlash (withQuery ra.path pd) = true <;> simp_all

/-- **Exactly one `/` between address and path** wherever both are in normal form: an address
without a trailing `/` followed by an absolute path is their concatenation; followed by a relative
path (also the empty one, also one that is only a query) it gets one `/`; an address with a trailing
`/` followed by a relative path is their concatenation. (Address with a trailing `/` *and* an
absolute path: plain concatenation — the one case where two slashes meet.) -/
theorem url_one_slash (impl : Impl) (ra : RA) (m : Option Str) (pd : Option UDict) (data : Body)
    (resp : Except Err J) :
    (endsWithSlash impl.address = false → ∀ r, withQuery ra.path pd = '/' :: r →
        (assemble impl ra m pd data resp).url = impl.address ++ '/' :: r) ∧
    (endsWithSlash impl.address = false → startsWithSlash (withQuery ra.path pd) = false →
        (assemble impl ra m pd data resp).url = impl.address ++ '/' :: withQuery ra.path pd) ∧
    (endsWithSlash impl.address = true → startsWithSlash (withQuery ra.path pd) = false →
        (assemble impl ra m pd data resp).url = impl.address ++ withQuery ra.path pd) ∧
    (endsWithSlash impl.address = true → startsWithSlash (withQuery ra.path pd) = true →
        (assemble impl ra m pd data resp).url = impl.address ++ withQuery ra.path pd) := by
  have h := (url impl ra m pd data resp).1
  refine ⟨fun h1 r hr => ?_, fun h1 h2 => ?_, fun h1 h2 => ?_, fun h1 h2 => ?_⟩
  · rw [h, hr]; simp [h1, startsWithSlash]
  · rw [h]; simp [h1, h2]
  · rw [h]; simp [h1]
  · rw [h]; simp [h1]

/-- **Params are an association list, not a map.** The `params=` object (a dict, or a list / tuple
of pairs in which a key may repeat) is read as the list of its `(key, str(value))` pairs: every pair
is kept, in order, and each contributes `quote_plus(key)=quote_plus(str(value))` to the query, joined
by `&`. -/
theorem params_all_pairs (H : Heap) (r : Nat) (u : UDict) (h : optParams H (some r) = some (some u)) :
    ∃ d, H.dicts[r]? = some d ∧ u.length = d.length ∧ u.map (·.1) = d.map (·.1) ∧
      (∀ (i : Nat) (k : Str) (v : HVal), d[i]? = some (k, v) →
        ∃ t, HVal.text v = some t ∧ u[i]? = some (k, t)) ∧
      (∀ kv, urlencode [kv] = pairText kv) ∧
      (∀ kv kv' rest, urlencode (kv :: kv' :: rest) = pairText kv ++ '&' :: urlencode (kv' :: rest)) := by
  simp only [optParams] at h
  cases hd : H.dicts[r]? with
  | none => simp [hd] at h
  | some d =>
    simp only [hd] at h
    cases ht : toUDict d with
    | none => simp [ht] at h
    | some u' =>
      simp [ht] at h; subst h
      obtain ⟨h1, h2, h3⟩ := toUDict_spec ht
      exact ⟨d, rfl, h2, h1, h3, urlencode_single, urlencode_cons⟩

/-- **Method**: the given one in upper case; without one, `POST` iff the body is truthy. -/
theorem method (impl : Impl) (ra : RA) (pd : Option UDict) (data : Body) (resp : Except Err J) :
    (∀ c r, (assemble impl ra (some (c :: r)) pd data resp).method = upper (c :: r)) ∧
    (assemble impl ra none pd data resp).method = (if data.truthy then Gen.C17.postMethod else Gen.C17.getMethod) ∧
    (assemble impl ra (some []) pd data resp).method = (if data.truthy then Gen.C17.postMethod else Gen.C17.getMethod) := by
  simp [assemble, mkMethod]

/-- **Body by type**: nothing / the bytes as they are / UTF-8 of the text / UTF-8 of `json.dumps`
(modelled: `J.dumps`); only a structured body adds `Content-Type: application/json`, and only when the
headers have no key spelled exactly `Content-Type`. Other header names are not affected by the body.
The default method looks at the truth value of the body, by type (`Body.truthy`, `J.truthy`). -/
theorem body (impl : Impl) (ra : RA) (m : Option Str) (pd : Option UDict) (resp : Except Err J) :
    (assemble impl ra m pd .none resp).body = none ∧
    (∀ b, (assemble impl ra m pd (.bytes b) resp).body = some b) ∧
    (∀ s, (assemble impl ra m pd (.str s) resp).body = some (utf8s s)) ∧
    (∀ v, (assemble impl ra m pd (.json v) resp).body = some (utf8s v.dumps)) ∧
    (∀ v, dget (withId impl.sendIds ra.headers).1 Gen.C17.ctHeader = none →
       lastCap (mkBody (.json v) (withId impl.sendIds ra.headers).1).2 (capitalize Gen.C17.ctHeader)
         = some (.str Gen.C17.ctValue)) ∧
    (∀ data, (∀ v, data ≠ .json v) → mkBody data (withId impl.sendIds ra.headers).1
         = ((mkBody data (withId impl.sendIds ra.headers).1).1, (withId impl.sendIds ra.headers).1)) := by
  refine ⟨rfl, fun _ => rfl, fun _ => rfl, fun _ => rfl, ?_, ?_⟩
  · intro v hn
    have : dhas (withId impl.sendIds ra.headers).1 Gen.C17.ctHeader = false := (dhas_false_iff _ _).mpr hn
    simp only [mkBody, this]
    exact lastCap_dset_new _ _ hn rfl
  · intro data hne
    cases data with
    | json v => exact absurd rfl (hne v)
    | _ => rfl

/-- `json.dumps` as modelled: literals, decimal integers, escaped strings, `", "` and `": "`
separators, keys in insertion order; the truth value of a structured body. -/
theorem dumps_shape (k : Str) (v w : J) (r : JL) (s : Str) (n : Int) :
    J.null.dumps = "null".toList ∧ (J.bool true).dumps = "true".toList ∧ (J.bool false).dumps = "false".toList ∧
    (J.num n).dumps = (toString n).toList ∧ (J.str s).dumps = '"' :: s.flatMap escChar ++ ['"'] ∧
    (J.arr .nil).dumps = "[]".toList ∧ (J.obj .nil).dumps = "{}".toList ∧
    (J.arr (.cons k v (.cons k w r))).dumps = '[' :: v.dumps ++ ',' :: ' ' :: JL.dumpsArr (.cons k w r) ++ [']'] ∧
    (J.obj (.cons k v .nil)).dumps = '{' :: dumpStr k ++ ':' :: ' ' :: v.dumps ++ ['}'] ∧
    ((J.arr .nil).truthy = false ∧ (J.obj .nil).truthy = false ∧ (J.num 0).truthy = false ∧
      J.null.truthy = false ∧ (J.arr (.cons k v r)).truthy = true ∧ (J.obj (.cons k v r)).truthy = true) := by
  refine ⟨rfl, rfl, rfl, rfl, rfl, rfl, rfl, ?_, ?_, rfl, rfl, rfl, rfl, ?_, ?_⟩
  · simp [J.dumps, JL.dumpsArr]
  · simp [J.dumps, JL.dumpsObj]
  · simp [J.truthy, JL.length]
  · simp [J.truthy, JL.length]

/-- **Response processors in reverse order, each exactly once.** What the caller gets is the decoded
response pushed through the processors of the chain from the last adapter to the first: for a
connection with own adapters `own` derived from a parent with adapters `par`, the parent's processors
see the response first and the own ones produce the result; the value of every processor is passed on
as it is — also when it is empty (`[]`, `{}`, `""`, `0`, `False`, `None`); the adapters of the
repository (prefix, auth) do not touch it. -/
theorem response_chain (own par : List Adapter) (dec0 : J) :
    (respFold (own ++ par) dec0 = match respFold par dec0 with
      | .ok v => respFold own v
      | .error e => .error e) ∧
    (∀ a, respFold [a] dec0 = procResp a dec0) ∧ respFold [] dec0 = .ok dec0 ∧
    (∀ as, respFold as dec0 = as.reverse.foldl (fun acc a => match acc with
      | .ok v => procResp a v
      | .error e => .error e) (.ok dec0)) ∧
    (∀ a v, (pfxOf a).isSome ∨ (authHdrOf a).isSome → procResp a v = .ok v) ∧
    (∀ a as v w, respFold as dec0 = .ok v → procResp a v = .ok w → respFold (a :: as) dec0 = .ok w) :=
  ⟨respFold_append own par dec0, fun a => respFold_single a dec0, rfl, fun as => respFold_eq_foldl as dec0,
   fun a v h => procResp_builtin a v h, fun a as v w h1 h2 => by simp [respFold, h1, h2]⟩

/-- **Adapters that rebind a field of `req_args`** (new object, the caller's one untouched): the url
and the body are made from what the chain left in `req_args`, not from what the caller passed. The
params adapters of the chain append their pairs in chain order (own adapters first, then the
parent's), each once; likewise the data wrappers; every other adapter leaves both fields alone. -/
theorem rebinding_adapters (own par : List Adapter) (p : Option UDict) (b : Body) :
    finalParams (own ++ par) p = finalParams par (finalParams own p) ∧
    finalBody (own ++ par) b = finalBody par (finalBody own b) ∧
    (∀ k v, finalParams [.addParam k v] p = some ((match p with | some l => l | none => []) ++ [(k, v)])) ∧
    (∀ a, (∀ k v, a ≠ .addParam k v) → finalParams [a] p = p) ∧
    (∀ key v, finalBody [.wrapData key] (.json v) = .json (.obj (.cons key v .nil))) ∧
    (∀ a, (∀ key, a ≠ .wrapData key) → finalBody [a] b = b) := by
  refine ⟨by simp [finalParams], by simp [finalBody], fun _ _ => rfl, ?_, fun _ _ => rfl, ?_⟩
  · intro a ha
    cases a <;> first | rfl | exact absurd rfl (ha _ _)
  · intro a ha
    cases a <;> first | rfl | exact absurd rfl (ha _)

/-- What is sent through a connection is assembled from the fields the chain left: the params and
the body are the folds of the chain over the caller's. -/
theorem request_uses_rebound (v : Conn × Str × Bool × List Adapter) (hd : Option Dict) (pd : Option UDict)
    (body : Body) (args : Args) (s : Sent) (h : pureSend v hd pd body args = .ok s) :
    ∃ ra, applyAll v.2.2.2 ⟨args.path, copyHeaders hd⟩ = .ok ra ∧
      s = eraseId (assemble ⟨v.2.1, v.2.2.1, 0⟩ ra args.method (finalParams v.2.2.2 pd) (finalBody v.2.2.2 body)
        (respFold v.2.2.2 (decodeResp args.raw args.resp))) := by
  simp only [pureSend] at h
  split at h
  · cases h
  · rename_i ra hra
    cases h
    exact ⟨ra, hra, rfl⟩

/-- The value `do_request` returns through connection `c` is that fold over `c.adapters`, applied to
the decoded body of the response (`""` for an empty body). -/
theorem request_response (v : Conn × Str × Bool × List Adapter) (hd : Option Dict) (pd : Option UDict)
    (body : Body) (args : Args) (s : Sent)
    (h : pureSend v hd pd body args = .ok s) : s.resp = respFold v.2.2.2 (decodeResp args.raw args.resp) := by
  simp only [pureSend] at h
  split at h
  · cases h
  · cases h; rfl

/-- **Nested requests do not disturb the outer one.** A chain may contain adapters that themselves
send requests (through the same, a sibling or the parent connection) while the outer request is being
prepared or its response processed. Those are complete requests on the same world (`ReqEffect`:
connections, adapter lists, caller objects untouched; only id counters and fresh header objects
move). The outer request is the plain `requestFlat` on the world they leave: same view of `c`
(`viewCore`), hence — `request_uses_chain`, `request_response` — url, headers, body and the response
processors are those of the outer chain, each once; the adapter list is an argument of `do_request`,
not state. The only thing a nested request can add is its own exception in place of the returned value. -/
theorem nested_outer_unaffected (H H' : Heap) (c : Nat) (args : Args) (s : Sent)
    (h : request H c args = (H', .ok s)) :
    ∃ H1 s0, ReqEffect H H1 ∧ viewCore H1 c = viewCore H c ∧ (requestFlat H1 c args).2 = .ok s0 ∧
      s.url = s0.url ∧ s.method = s0.method ∧ s.headers = s0.headers ∧ s.body = s0.body ∧ s.genId = s0.genId ∧
      (s.resp = s0.resp ∨ ∃ e, s.resp = .error e) := by
  have flat : ∀ {H2 : Heap} {r : Except Err Sent},
      (match requestFlat H c args with
        | (H1, .ok s) => (({ H1 with lastSent := 1 } : Heap), (Except.ok s : Except Err Sent))
        | (H1, .error e) => ({ H1 with lastSent := 0 }, .error e)) = (H2, r) → r = .ok s →
      ∃ H1 s0, ReqEffect H H1 ∧ viewCore H1 c = viewCore H c ∧ (requestFlat H1 c args).2 = .ok s0 ∧
        s.url = s0.url ∧ s.method = s0.method ∧ s.headers = s0.headers ∧ s.body = s0.body ∧ s.genId = s0.genId ∧
        (s.resp = s0.resp ∨ ∃ e, s.resp = .error e) := by
    intro H2 r hm hr
    split at hm
    · rename_i H1 s1 heq
      cases hm; cases hr
      exact ⟨H, s, ReqEffect.refl H, rfl, by rw [heq], rfl, rfl, rfl, rfl, rfl, Or.inl rfl⟩
    · cases hm; cases hr
  unfold request at h
  split at h
  · rename_i cn impl as hd _ _
    split at h
    · exact flat h rfl
    · split at h
      · cases h
      · rename_i H1 pre x heq
        have hp := firePre_effect { path := args.path, headers := copyHeaders hd } H [] as []
        rw [heq] at hp
        split at h
        · cases h
        · rename_i H2 s0 heq2
          refine ⟨H1, s0, hp, viewCore_ofEffect hp c, by rw [heq2], ?_⟩
          split at h <;> cases h <;> simp
  · exact flat h rfl

/-- **Exceptions of adapters reach the caller.** If an adapter refuses the request (the loop stops at
the first exception) the exception is the outcome, nothing is sent and no id is consumed (the only
trace in the heap is the abandoned header object); if a response processor raises, the request has
been sent and the exception is the outcome. Without a refusing adapter in the chain the only possible
refusal is the `AssertionError` for a second `Authorization`. -/
theorem exception_propagates (H : Heap) (c : Nat) (args : Args) (cn : Conn) (impl : Impl) (as : List Adapter)
    (hd : Option Dict) (pd : Option UDict) (hv : connView H c = some (cn, impl, as))
    (hh : optDict H args.headers = some hd) (hcd : CallerDict hd) (hp : optParams H args.params = some pd)
    (body : Body) (hbd : optData H args.data = some body) :
    (∀ e, applyAll as ⟨args.path, copyHeaders hd⟩ = .error e →
        (requestFlat H c args).2 = .error e ∧ (requestFlat H c args).1.impls = H.impls) ∧
    (∀ ra e, applyAll as ⟨args.path, copyHeaders hd⟩ = .ok ra →
        respFold as (decodeResp args.raw args.resp) = .error e →
        ∃ s, (requestFlat H c args).2 = .ok s ∧ s.resp = .error e) ∧
    (Adapter.boom true ∈ as → ∃ e, (requestFlat H c args).2 = .error e ∧ (requestFlat H c args).1.impls = H.impls) ∧
    (Adapter.boom true ∉ as → ∀ e, applyAll as ⟨args.path, copyHeaders hd⟩ = .error e → e = .assertion) := by
  obtain ⟨hval, _, hrefused⟩ := request_spec H c args
  have hpure : requestPure H c args = match applyAll as ⟨args.path, copyHeaders hd⟩ with
      | .error e => .error e
      | .ok ra => .ok (assemble impl ra args.method (finalParams as pd) (finalBody as body)
          (respFold as (decodeResp args.raw args.resp))) := by
    simp only [requestPure, hv, hh, hp, hbd]
    cases applyAll as ⟨args.path, copyHeaders hd⟩ <;> rfl
  refine ⟨fun e he => ?_, ?_, ?_, ?_⟩
  · have h2 : (requestFlat H c args).2 = .error e := by rw [hval, hpure, he]
    exact ⟨h2, hrefused ⟨e, h2⟩⟩
  · intro ra e ha hr
    exact ⟨_, by rw [hval, hpure, ha], by simp [assemble, hr]⟩
  · intro hb
    obtain ⟨e, he⟩ := applyAll_boom as ⟨args.path, copyHeaders hd⟩ hb
    have h2 : (requestFlat H c args).2 = .error e := by rw [hval, hpure, he]
    exact ⟨e, h2, hrefused ⟨e, h2⟩⟩
  · intro hb e he
    have : ∀ (as : List Adapter) (ra : RA), TraceOk ra.headers → Adapter.boom true ∉ as →
        applyAll as ra = .error e → e = .assertion := by
      intro as
      induction as with
      | nil => intro ra _ _ h; cases h
      | cons a as ih =>
        intro ra ht hb h
        simp only [applyAll] at h
        rcases applyReq_ok_or (a := a) ht with ⟨r1, h1⟩ | ⟨h1, _⟩ | ⟨hab, _⟩
        · rw [h1] at h
          exact ih r1 (TraceOk_applyReq h1 ht) (fun hm => hb (List.mem_cons_of_mem _ hm)) h
        · rw [h1] at h; cases h; rfl
        · exact absurd (hab ▸ List.mem_cons_self) hb
    exact this as _ (TraceOk_copyHeaders hd hcd) hb he

/-- **Frame.** For every heap satisfying the invariant (every reachable heap does), every history
`ops` that contains no `add_adapter` on `c` itself — derivations from `c` or from anything else,
`add_adapter` on parents, children and strangers, clones, `get_conn`, requests, the caller mutating
its own lists — leaves every request through `c` unchanged. -/
theorem frame (H : Heap) (hi : Inv H) (ops : List Op) (c : Nat) (hc : c < H.conns.length)
    (hno : ∀ op ∈ ops, ¬ op.addsTo c) (args : Args)
    (hh : ∀ n, args.headers = some n → n < H.dicts.length)
    (hp : ∀ n, args.params = some n → n < H.dicts.length)
    (hda : ∀ r, args.data = .obj r → r < H.datas.length) :
    sentCore (run H ops) c args = sentCore H c args := by
  obtain ⟨_, y, hy⟩ := run_mono H ops
  obtain ⟨z, hz⟩ := run_datas H ops
  rw [sentCore_eq, sentCore_eq, run_view hi hc ops hno, optDict_ext y hy _ hh, optParams_ext y hy _ hp,
    optData_ext z hz _ hda]

/-- The frame property with its hypotheses discharged by reachability: after any history `ops0`
(from nothing), any further history `ops` without `add_adapter` on `c` leaves every request through
`c` — with headers / params that are dict objects of the caller, or absent — unchanged, and that
request is never the model's internal `KeyError`. -/
theorem frame_reachable (ops0 ops : List Op) (c : Nat) (hc : c < (run Heap.empty ops0).conns.length)
    (hno : ∀ op ∈ ops, ¬ op.addsTo c) (args : Args)
    (hh : ∀ n, args.headers = some n → n ∈ (run Heap.empty ops0).userDicts)
    (hp : ∀ n, args.params = some n → n ∈ (run Heap.empty ops0).userDicts)
    (hda : ∀ r, args.data = .obj r → r < (run Heap.empty ops0).datas.length) :
    sentCore (run (run Heap.empty ops0) ops) c args = sentCore (run Heap.empty ops0) c args ∧
    sentCore (run Heap.empty ops0) c args ≠ .error .keyError := by
  obtain ⟨hi, hd⟩ := reachable_inv ops0
  have lt : ∀ n, n ∈ (run Heap.empty ops0).userDicts → n < (run Heap.empty ops0).dicts.length := by
    intro n hn
    obtain ⟨u, hu, _⟩ := hd n hn
    exact (List.getElem?_eq_some_iff.mp hu).1
  exact ⟨frame _ hi ops c hc hno args (fun n h => lt n (hh n h)) (fun n h => lt n (hp n h)) hda,
    (view_defined _ hi hd c hc args hh hp hda).2⟩

/-- **A connection depends only on its own construction and its own `add_adapter` calls.** From the
moment `cls(parent, adapters=own)` returns, through every history without `add_adapter` on the new
connection itself, its adapters are `own ++` (the parent's adapters at construction): later
`add_adapter` on the parent, on siblings, mutation of the list object that was passed, clones, cached
prefix connections … do not show through it. -/
theorem chain_stable (H H' : Heap) (hi : Inv H) (p n : Nat) (own : Own) (plain : Bool)
    (h : mkConn H (.conn p) own plain = some (H', n))
    (pc : Conn) (addr : Str) (sid : Bool) (pl as : List Adapter)
    (hv : viewCore H p = some (pc, addr, sid, pl)) (ho : ownAdapters H own = some as)
    (ops : List Op) (hno : ∀ op ∈ ops, ¬ op.addsTo n) :
    viewCore (run H' ops) n = some (⟨pc.impl, H.lists.length, plain⟩, addr, sid, as ++ pl) := by
  obtain ⟨hn, hview⟩ := viewCore_mkConn_new h hv ho
  obtain ⟨hi', _, hlen⟩ := hi.mkConn h
  rw [run_view hi' (by omega) ops hno]
  exact hview

/-- The two facts about the source that the aliasing structure of the model builds in, as the
translator reads them on every run: `RequestArguments.headers` is `headers.copy() if headers else {}`
(a new dict object), and `self.adapters` is assigned once, the sum `own_adapters + parent_conn.adapters`
(a new list object). If the source stops saying so, this obligation no longer checks. -/
theorem aliasing_facts : Gen.C17.headersFresh = true ∧ Gen.C17.adaptersFresh = true := by decide

/-- **The caller's objects are never written.** `RequestArguments.headers` is a new dict object per
request and the adapters and `do_request` write to that object only: no history changes any dict
object that exists — in particular none the caller created (headers / params); a structured `data=`
object of the caller is only read (`json.dumps`), no history changes one; and a list of adapters of the caller changes only by the caller's own appends. -/
theorem caller_unchanged (H : Heap) (hi : Inv H) (ops : List Op) :
    (∀ d, d < H.dicts.length → (run H ops).dicts[d]? = H.dicts[d]?) ∧
    (∀ r, r < H.datas.length → (run H ops).datas[r]? = H.datas[r]?) ∧
    (∀ l, l ∈ H.userLists → (∀ op ∈ ops, ∀ a, op ≠ .listAppend l a) →
        (run H ops).lists[l]? = H.lists[l]?) := by
  refine ⟨?_, ?_, ?_⟩
  · intro d hd
    obtain ⟨_, y, hy⟩ := run_mono H ops
    rw [hy, List.getElem?_append_left hd]
  · intro r hr
    obtain ⟨z, hz⟩ := run_datas H ops
    rw [hz, List.getElem?_append_left hr]
  · intro l hl hno
    exact run_userList hi hl ops hno

/-- **Clone** with nothing, one adapter or a list object `[a₁…aₙ]` of the caller (`as` is what
`own` denotes): the new caller (number `H.callers.length`) has the original's class and prefix map, an empty cache,
and a new connection whose adapters are `a₁…aₙ` followed by the original's, on the original's
`conn_impl`; the original caller, every existing connection, the caller's dictionaries and lists are
unchanged. -/
theorem clone_list (H : Heap) (hi : Inv H) (k : Nat) (cl : Caller) (own : Own)
    (pc : Conn) (addr : Str) (sid : Bool) (pl as : List Adapter)
    (hk : H.callers[k]? = some cl) (hv : viewCore H cl.conn = some (pc, addr, sid, pl))
    (ho : ownAdapters H own = some as) :
    ∃ H', step H (.clone k own) = (H', .ok (.ref H.callers.length)) ∧
      H'.callers[H.callers.length]? = some ⟨H.conns.length, cl.pmap, [], cl.cls⟩ ∧
      viewCore H' H.conns.length = some (⟨pc.impl, H.lists.length, true⟩, addr, sid, as ++ pl) ∧
      (∀ j, j < H.callers.length → H'.callers[j]? = H.callers[j]?) ∧
      (∀ c, c < H.conns.length → viewCore H' c = viewCore H c) ∧
      H'.dicts = H.dicts ∧ (∀ l, l ∈ H.userLists → H'.lists[l]? = H.lists[l]?) := by
  obtain ⟨H1, n, hmk⟩ := mkConn_ok true hv ho
  obtain ⟨hn, hview⟩ := viewCore_mkConn_new hmk hv ho
  obtain ⟨_, _, _, _, _, _, _, _, hd, hcal, _⟩ := mkConn_spec hmk
  have hst : step H (.clone k own) =
      ({ H1 with callers := H1.callers ++ [⟨n, cl.pmap, [], cl.cls⟩] }, .ok (.ref H1.callers.length)) := by
    simp only [step, hk, hmk]
  refine ⟨{ H1 with callers := H1.callers ++ [⟨n, cl.pmap, [], cl.cls⟩] }, by rw [hst, hcal], ?_, ?_, ?_, ?_, hd.1, ?_⟩
  · simp [hcal, hn]
  · rw [viewCore_callers, ← hn]; exact hview
  · intro j hj
    simp only []
    rw [hcal, List.getElem?_append_left hj]
  · intro c hc
    rw [viewCore_callers]; exact viewCore_mkConn hi hmk hc
  · intro l hl
    have := step_userList hi hl (.clone k own) (fun a h => by cases h)
    rw [hst] at this
    exact this.1

/-- **Per-caller prefix cache.** A component call whose prefix has a cached connection returns that
connection and changes nothing; so all calls of one caller for one prefix go through one connection. -/
theorem get_conn_cached (H : Heap) (k : Nat) (cl : Caller) (cs : List Str) (comp pfx : Str) (n : Nat)
    (hk : H.callers[k]? = some cl) (hc : cs.filter (fun c => cl.pmap.any (·.1 = c)) = [comp])
    (hp : lookup cl.pmap comp = some pfx) (hn : lookup cl.cache pfx = some n) :
    getConn H k (some cs) = (H, .ok n) := by
  simp [getConn, hk, hc, hp, hn]

/-- The first component call for a non-empty prefix derives one connection from the caller's
(`[prefix adapter] ++` its adapters, same `conn_impl`) and caches it: the next call finds it. -/
theorem get_conn_first (H : Heap) (k : Nat) (cl : Caller) (cs : List Str) (comp pfx : Str)
    (pc : Conn) (addr : Str) (sid : Bool) (pl : List Adapter)
    (hk : H.callers[k]? = some cl) (hc : cs.filter (fun c => cl.pmap.any (·.1 = c)) = [comp])
    (hp : lookup cl.pmap comp = some pfx) (hn : lookup cl.cache pfx = none) (hne : pfx ≠ [])
    (hv : viewCore H cl.conn = some (pc, addr, sid, pl)) :
    ∃ H', getConn H k (some cs) = (H', .ok H.conns.length) ∧
      viewCore H' H.conns.length = some (⟨pc.impl, H.lists.length, true⟩, addr, sid, .pfx pfx :: pl) ∧
      getConn H' k (some cs) = (H', .ok H.conns.length) := by
  obtain ⟨H1, n, hmk⟩ := mkConn_ok (own := .one (.pfx pfx)) true hv rfl
  obtain ⟨hn', hview⟩ := viewCore_mkConn_new hmk hv rfl
  obtain ⟨_, _, _, _, _, _, _, _, _, hcal, _⟩ := mkConn_spec hmk
  have hlt := (List.getElem?_eq_some_iff.mp hk).1
  subst hn'
  refine ⟨{ H1 with callers := H1.callers.set k { cl with cache := cl.cache ++ [(pfx, H.conns.length)] } }, ?_, ?_, ?_⟩
  · simp [getConn, hk, hc, hp, hn, hne, hmk]
  · rw [viewCore_callers]; exact hview
  · have : (H1.callers.set k { cl with cache := cl.cache ++ [(pfx, H.conns.length)] })[k]? =
        some { cl with cache := cl.cache ++ [(pfx, H.conns.length)] } := by
      rw [hcal]; simp [hlt]
    simp [getConn, this, hc, hp, lookup_append_new _ _ _ hn]

/-- **Which component a wrapper call uses.** `k.m(…)` called (and its result driven) by plain code makes
its request with Python's stack `S` when `get_conn()` runs (`callTop`: ordinary / generator / coroutine
bodies, bodies that call other wrappers and hand the result on or drive it themselves, helper functions);
`get_conn()` takes the components from the entry of `type(k)._MCALLERS_METAS` for the first frame of `S`
named like a wrapper: the request is `doCall` with those components. -/
theorem call_component (H : Heap) (k : Nat) (m m' : Str) (args : Args) (cl : Caller) (cd : ClassDef) (b : Nat)
    (S : List Str) (comps : Comps) (hk : H.callers[k]? = some cl) (hc : H.classes[cl.cls]? = some cd)
    (hb : callTop H.classes cd.mro m = .ok (.made S m' b)) (hm : frameMeta cd.metas S = some comps) :
    step H (.call k m args) = doCall H k comps { args with path := args.path ++ bodySuffix b } := by
  simp [step, hk, hc, hb, hm]

/-- **The stack walk stops at the innermost wrapper frame - whatever lies outside it.** If the frames
above the frame of wrapper `m` (`get_conn`, helpers) are not named like wrappers, the components are those
of `m`, for every continuation `rest` of the stack: the frames of the code that drives a generator /
coroutine wrapper (wrappers of other components with their decorator frames, plain code, nothing at all)
have no say. -/
theorem frame_meta_innermost (metas : List (Str × Comps)) (pre : List Str) (m : Str) (rest : List Str) (c : Comps)
    (hpre : ∀ f ∈ pre, lookup metas f = none) (hm : lookup metas m = some c) :
    frameMeta metas (pre ++ m :: rest) = some c ∧
    (∀ S, (∀ f ∈ S, lookup metas f = none) → frameMeta metas S = none) :=
  ⟨frameMeta_skip metas pre m rest c hpre hm, fun S h => frameMeta_none metas S h⟩

/-- **A wrapper's request goes to the wrapper's own component, whoever runs its body.** Whenever the
body of a wrapper `m` that makes its request itself (class `b` selected by the MRO) runs - on top of *any*
frames `ctx` (inside its decorator, or later, driven from inside a wrapper of another component or from plain
code), with any fuel - the request it makes is attributed to `m` and class `b`, and `get_conn()` finds the
entry of `m`, provided `get_conn` and the helper the body goes through are not themselves names of wrappers. -/
theorem deferred_body_own_component (cs : List ClassDef) (mro : List Nat) (metas : List (Str × Comps))
    (fuel : Nat) (m : Str) (ctx : List Str) (drive : Bool) (b : Nat) (bd : ClassDef) (c : Comps)
    (hb : bodyClass cs m mro = some b) (hbd : cs[b]? = some bd) (hd : lookup bd.bodies.delegates m = none)
    (hg : lookup metas getConnFrame = none) (hh : ∀ h, lookup bd.bodies.reach m = some h → lookup metas h = none)
    (hm : lookup metas m = some c) :
    ∃ S, runBody cs mro (fuel + 1) m ctx drive = .ok (.made S m b) ∧ frameMeta metas S = some c := by
  cases hr : lookup bd.bodies.reach m with
  | none =>
    refine ⟨getConnFrame :: m :: ctx, by simp [runBody, hb, hbd, hd, hr], ?_⟩
    simp [frameMeta, hg, hm]
  | some h =>
    refine ⟨getConnFrame :: h :: m :: ctx, by simp [runBody, hb, hbd, hd, hr], ?_⟩
    simp [frameMeta, hg, hh h hr, hm]

/-- **Every wrapper call ends in the component of the wrapper whose body makes the request.** For every
class table and every way the bodies are written (ordinary, generator, coroutine; handing a pending object
on or driving it; helpers): if `k.m(…)` makes a request at all, the wrapper `m'` that made it is a wrapper
whose body does not delegate, `b` is the class the MRO selects for it, and - helper frames not being named
like wrappers - the request is `doCall` with the entry of `m'` in the table. The result of the call is never
an undriven object. -/
theorem call_component_innermost (H : Heap) (k : Nat) (m m' : Str) (args : Args) (cl : Caller) (cd : ClassDef)
    (b : Nat) (S : List Str) (comps : Comps) (hk : H.callers[k]? = some cl) (hc : H.classes[cl.cls]? = some cd)
    (hb : callTop H.classes cd.mro m = .ok (.made S m' b))
    (hg : lookup cd.metas getConnFrame = none)
    (hh : ∀ bd h, H.classes[b]? = some bd → lookup bd.bodies.reach m' = some h → lookup cd.metas h = none)
    (hm : lookup cd.metas m' = some comps) :
    step H (.call k m args) = doCall H k comps { args with path := args.path ++ bodySuffix b } ∧
    bodyClass H.classes m' cd.mro = some b ∧
    (∃ bd, H.classes[b]? = some bd ∧ lookup bd.bodies.delegates m' = none) ∧
    (∀ m'', callTop H.classes cd.mro m ≠ .ok (.pending m'')) := by
  have hs := callTop_made _ _ _ _ _ _ hb
  refine ⟨call_component H k m m' args cl cd b S comps hk hc hb
      (frameMeta_stackOf _ _ _ _ _ _ _ hs hg hh hm), hs.1, ?_, fun m'' => callTop_not_pending _ _ _ _⟩
  obtain ⟨_, bd, _, hbd, hd, _⟩ := hs
  exact ⟨bd, hbd, hd⟩

/-- **Calls between wrappers.** A wrapper whose body makes the request itself is the one whose frame
`get_conn()` sees first (its own name, its class marks the path). A wrapper whose body only evaluates
`self.<inner>(…)` counts for nothing: its body is a call of `inner` from a frame on top of its own
(`callWith`) - an ordinary `inner` runs at once inside its decorator; a generator / coroutine `inner` runs
nothing at the call: the object is handed on (`pending`) or, if the body drives it, its body runs on top of
`_drive :: m :: ctx` - whatever the components of the outer wrapper are, wherever in the hierarchy the two
are defined. -/
theorem nested_call_innermost (cs : List ClassDef) (mro : List Nat) (fuel : Nat) (m : Str) (ctx : List Str)
    (b : Nat) (bd : ClassDef) (hb : bodyClass cs m mro = some b) (hbd : cs[b]? = some bd) :
    (lookup bd.bodies.delegates m = none → ∃ pre, runBody cs mro (fuel + 1) m ctx false = .ok (.made (pre ++ m :: ctx) m b)) ∧
    (∀ inner drives, lookup bd.bodies.delegates m = some (inner, drives) →
        runBody cs mro (fuel + 1) m ctx false = callWith (runBody cs mro fuel) cs mro inner (m :: ctx) drives) ∧
    (∀ body inner caller, isDeferred cs mro inner = .ok true →
        callWith body cs mro inner caller false = .ok (.pending inner) ∧
        callWith body cs mro inner caller true = body inner (driveFrame :: caller) true) := by
  refine ⟨?_, ?_, ?_⟩
  · intro h
    cases hr : lookup bd.bodies.reach m with
    | none => exact ⟨[getConnFrame], by simp [runBody, hb, hbd, h, hr]⟩
    | some hf => exact ⟨[getConnFrame, hf], by simp [runBody, hb, hbd, h, hr]⟩
  · intro inner drives h
    simp only [runBody, hb, hbd, h]
    split <;> simp_all
  · intro body inner caller h
    simp [callWith, h]

/-- **The table of a class**, as the metaclass computes it when the class is created: a wrapper of
the class body wins; otherwise the entry comes from the first direct base (in the order of the
class statement) whose table has the name — a depth-first, first-base-first search. For single
inheritance this is the nearest definition up the chain, i.e. what the MRO selects; with several
bases it differs from the MRO exactly when a later base overrides a wrapper that an earlier base only
inherits (see the example below); component selection for that shape is outside the property and is
tied to the code by the correspondence runs only. -/
theorem metas_first_base (H : Heap) (bases mro : List Nat) (pmap : Option UDict) (own : List (Str × Comps))
    (dlg : Bodies) (bs : List ClassDef) (hb : bases.mapM (fun b => H.classes[b]?) = some bs) (m : Str) :
    ∃ cd, (step H (.newClass bases mro pmap own dlg)).1.classes = H.classes ++ [cd] ∧
      cd.bases = bases ∧ cd.mro = mro ∧ cd.own = own ∧
      lookup cd.metas m = (match lookupLast own m with
        | some c => some c
        | none => firstSome (bs.map fun b => lookupLast b.metas m)) ∧
      (∀ p, bs = [p] → lookup cd.metas m = match lookupLast own m with
        | some c => some c
        | none => lookupLast p.metas m) := by
  refine ⟨_, by simp [step, hb]; rfl, rfl, rfl, rfl, ?_, ?_⟩
  · rw [lookup_mergeMetas, List.map_map]; rfl
  · intro p hp
    subst hp
    rw [lookup_mergeMetas]
    cases lookupLast own m <;> simp [firstSome]
    cases lookupLast p.metas m <;> rfl

/-- The prefix map of a caller is the class attribute as Python finds it: the map of the first class
in the MRO whose body defines `_HTTP_PREFIX_MAP`, `{}` if none does. -/
theorem caller_pmap (cs : List ClassDef) (c : Nat) (rest : List Nat) (cd : ClassDef) (h : cs[c]? = some cd) :
    classPmap cs [] = [] ∧
    (∀ p, cd.pmap = some p → classPmap cs (c :: rest) = p) ∧
    (cd.pmap = none → classPmap cs (c :: rest) = classPmap cs rest) := by
  refine ⟨rfl, fun p hp => by simp [classPmap, h, hp], fun hp => by simp [classPmap, h, hp]⟩

/-! ## Non-vacuity: concrete histories evaluated by the kernel -/

private def hB : Adapter := mkBasic b64enc "u".toList "p".toList
private def ops1 : List Op :=
  [ .mk (.addr "http://h/".toList true true) (.one (.pfx "/in".toList)) true,   -- 0
    .mk (.conn 0) (.one hB) false,                                              -- 1  BAuthConn(c0, u, p)
    .newList [.trace "1.".toList, .pfx "/out/".toList],
    .mk (.conn 1) (.list 2) true,                                               -- 2  HttpConn(c1, adapters=L)
    .add 0 (.trace "9.".toList) ]

private def getArgs : Args := ⟨"/p".toList, some "GET".toList, none, DataArg.none, none, none, false⟩

/-- inner prefix outermost, one Authorization header, trace once; the later `add` on connection 0
is not seen through connection 2 -/
example : (viewCore (run Heap.empty ops1) 2).map (·.2.2.2) =
    some [.trace "1.".toList, .pfx "/out/".toList, hB, .pfx "/in".toList] := by decide +kernel
example : (match sentCore (run Heap.empty ops1) 2 getArgs with
    | .ok s => some (String.ofList s.url, s.headers.map fun kv => String.ofList kv.1)
    | .error _ => none) =
    some ("http://h/in/out/p", ["X-trace", "Authorization", "X-request-id"]) := by decide +kernel
example : sentCore (run Heap.empty ops1) 2 getArgs = sentCore (run Heap.empty (ops1.take 4)) 2 getArgs := by
  decide +kernel
example : b64enc (utf8s "u:p".toList) = "dTpw".toList := by decide +kernel
/-- falsy results of response processors are passed on: `len([]) = 0` reaches the tracing layer, an
unwrapped `[]` is compacted and nullified to `None`; a refusing processor is the outcome -/
example : respFold [.trace "1.".toList, .count] (.arr .nil) =
    .ok (.arr (.cons [] (.num 0) (.cons [] (.str "1.".toList) .nil))) := by decide +kernel
example : respFold [.nullify, .compact, .unwrap "result".toList]
    (.obj (.cons "result".toList (.arr (.cons [] (.num 0) (.cons [] (.str []) .nil))) .nil)) = .ok .null := by
  decide +kernel
example : respFold [.count, .boom false, .count] (.arr .nil) = .error .valueError := by decide +kernel
example : (J.obj (.cons "é".toList (.arr (.cons [] (.num (-7)) (.cons [] (.str "a\"\n😀".toList) .nil))) .nil)).dumps
    = "{\"\\u00e9\": [-7, \"a\\\"\\n\\ud83d\\ude00\"]}".toList := by decide +kernel
private def diamond (cFirstA : Bool) : List Op :=
  [ .newClass [] [0] (some [("common".toList, "/common".toList), ("front".toList, "/front".toList)])
      [("ping".toList, some ["common".toList])] ⟨[], [], []⟩,                               -- 0 Base
    .newClass [0] [1, 0] none [("ping".toList, some ["front".toList])] ⟨[], [], []⟩,        -- 1 A(Base) overrides ping
    .newClass [0] [2, 0] none [] ⟨[], [], []⟩,                                               -- 2 B(Base)
    if cFirstA then .newClass [1, 2] [3, 1, 2, 0] none [] ⟨[], [], []⟩ else .newClass [2, 1] [3, 2, 1, 0] none [] ⟨[], [], []⟩ ]
/-- `class C(A, B)`: the table agrees with the MRO (A.ping, component front). `class C(B, A)`: the MRO
still selects A.ping, but the table holds the entry B inherited from Base (component common) — the
code as it is (an observation, outside the property; the correspondence runs confirm that the real metaclass does
the same). -/
example : ((run Heap.empty (diamond true)).classes[3]?.map fun cd =>
    (bodyClass (run Heap.empty (diamond true)).classes "ping".toList cd.mro, lookup cd.metas "ping".toList))
    = some (some 1, some (some ["front".toList])) := by decide +kernel
example : ((run Heap.empty (diamond false)).classes[3]?.map fun cd =>
    (bodyClass (run Heap.empty (diamond false)).classes "ping".toList cd.mro, lookup cd.metas "ping".toList))
    = some (some 1, some (some ["common".toList])) := by decide +kernel
/-- a wrapper `outer` (component back) whose body calls `self.inner(…)` (component front, defined after it):
the request is made by `inner` -/
example : (match step (run Heap.empty
      [ .newClass [] [0] (some [("front".toList, "/front".toList), ("back".toList, "/back".toList)])
          [("outer".toList, some ["back".toList]), ("inner".toList, some ["front".toList])]
          ⟨[("outer".toList, "inner".toList, false)], [], []⟩,
        .newCaller (.addr "http://h".toList true true) 0 ])
      (.call 0 "outer".toList getArgs) with
    | (_, .ok (.sent s)) => some (String.ofList s.url)
    | _ => none) = some "http://h/front/p~0" := by decide +kernel
/-- generator / coroutine wrappers: `iter_users` (component users) is a generator; `report` (stats) drives it
inside its own body, `lazy` (stats) hands the object on to plain code, `co` (users) is a coroutine function
reaching get_conn() through the shared helper, `pages` (users) delegates to the helper generator: every request
goes to the users component -/
private def genOps : List Op :=
  [ .newClass [] [0] (some [("users".toList, "/users-srv".toList), ("stats".toList, "/stats-srv".toList)])
      [("iter_users".toList, some ["users".toList]), ("report".toList, some ["stats".toList]),
       ("lazy".toList, some ["stats".toList]), ("co".toList, some ["users".toList]),
       ("pages".toList, some ["users".toList]), ("totals".toList, some ["stats".toList])]
      ⟨[("report".toList, "iter_users".toList, true), ("lazy".toList, "iter_users".toList, false)],
       ["iter_users".toList, "co".toList, "pages".toList],
       [("co".toList, "_shared_conn".toList), ("pages".toList, "_gen_conn".toList)]⟩,
    .newCaller (.addr "http://h".toList true true) 0 ]
private def genUrl (m : String) : Option String :=
  match step (run Heap.empty genOps) (.call 0 m.toList getArgs) with
  | (_, .ok (.sent s)) => some (String.ofList s.url)
  | _ => none
example : ["iter_users", "report", "lazy", "co", "pages", "totals"].map genUrl =
    [some "http://h/users-srv/p~0", some "http://h/users-srv/p~0", some "http://h/users-srv/p~0",
     some "http://h/users-srv/p~0", some "http://h/users-srv/p~0", some "http://h/stats-srv/p~0"] := by decide +kernel
/-- the stacks: the generator body driven inside `report` has the frames of `report` and its decorator below
it, but no decorator frame of its own; handed on by `lazy`, only the driving plain code is below it -/
example : (callTop (run Heap.empty genOps).classes [0] "report".toList,
           callTop (run Heap.empty genOps).classes [0] "lazy".toList,
           callTop (run Heap.empty genOps).classes [0] "co".toList) =
    (.ok (.made (["get_conn", "iter_users", "_drive", "report", "decorated_method_body"].map String.toList) "iter_users".toList 0),
     .ok (.made (["get_conn", "iter_users", "_drive"].map String.toList) "iter_users".toList 0),
     .ok (.made (["get_conn", "_shared_conn", "co", "_drive"].map String.toList) "co".toList 0)) := by decide +kernel
/-- repeated keys of a pair sequence all reach the query, non-str values through `str()` -/
example : (toUDict [("ids".toList, .int 1), ("x".toList, .str "y".toList), ("ids".toList, .int 2),
    ("f".toList, .bool false), ("n".toList, .pyNone)]).map (fun u => String.ofList (urlencode u))
    = some "ids=1&x=y&ids=2&f=False&n=None" := by decide +kernel
/-- two authenticating layers are refused -/
example : sentCore (run Heap.empty (ops1 ++ [.mk (.conn 2) (.one (mkToken "t".toList)) false])) 3 getArgs
    = .error .assertion := by decide +kernel

end C17
