import AkVerif.Gen.C20
import AkVerif.Lemmas.ShortUuid
/-!
# C20 — short uuid strings are a bijective encoding of UUIDs

Property theorems only. `al`/`len` are the alphabet and the length *generated from the source*
(`Gen.C20`); the two facts about them that everything rests on (`alphabet_ok`, `capacity`) are
re-decided by the kernel whenever the source changes.
-/
namespace C20
open ShortUuid Ak

abbrev al : List Char := Gen.C20.alphabet
abbrev len : Nat := Gen.C20.shortLen

/-- the alphabet has no repeated character and at least two characters -/
theorem alphabet_ok : al.Nodup ∧ 2 ≤ al.length := by decide +kernel

/-- the numbers of the statement: 22 characters of a 57-letter alphabet -/
theorem sizes : len = 22 ∧ al.length = 57 := by decide +kernel

/-- `len` characters are enough for every 128-bit number -/
theorem capacity : maxUuid ≤ al.length ^ len := by decide +kernel

private theorem hB : 2 ≤ al.length := alphabet_ok.2
private theorem hB0 : 0 < al.length := by have := hB; omega

/-- encoding never fails (no `IndexError` in `_ALPHABET[digit]`), for every number at all -/
theorem encode_total (n : Nat) : ∃ s, encode al len n = some s :=
  lookupAll_isSome al _ (encodeIdx_lt al.length len n hB0)

/-- every UUID is encoded by exactly `len` characters … -/
theorem encode_length (n : Nat) (h : n < maxUuid) (s : List Char)
    (hs : encode al len n = some s) : s.length = len := by
  rw [lookupAll_length al _ s hs]
  exact encodeIdx_length al.length len n hB0 (Nat.lt_of_lt_of_le h capacity)

/-- … all of them from the alphabet -/
theorem encode_alphabet (n : Nat) (s : List Char) (hs : encode al len n = some s) :
    ∀ c ∈ s, c ∈ al := lookupAll_mem al _ s hs

/-- round trip: decoding the short string of any UUID gives the UUID back -/
theorem decode_encode (n : Nat) (h : n < maxUuid) :
    ∃ s, encode al len n = some s ∧ decode al len s = .ok n := by
  obtain ⟨s, hs⟩ := encode_total n
  refine ⟨s, hs, ?_⟩
  have hl := encode_length n h s hs
  have hi := indexAll_lookupAll al alphabet_ok.1 _ s hs
  unfold decode
  simp [hl, hi, encodeIdx_value al.length len n hB, h]

/-- distinct UUIDs have distinct short strings -/
theorem encode_injective (n m : Nat) (hn : n < maxUuid) (hm : m < maxUuid)
    (h : encode al len n = encode al len m) : n = m := by
  obtain ⟨s, hs, hd⟩ := decode_encode n hn
  obtain ⟨t, ht, hd'⟩ := decode_encode m hm
  rw [hs, ht] at h
  cases h
  rw [hd] at hd'
  cases hd'
  rfl

/-- `decode` accepts exactly the `len`-character strings over the alphabet whose value is a
128-bit number -/
theorem decode_ok_iff (s : List Char) (n : Nat) :
    decode al len s = .ok n ↔
      s.length = len ∧ ∃ ds, indexAll al s = some ds ∧ value al.length ds = n ∧ n < maxUuid := by
  unfold decode
  by_cases hl : s.length = len
  · cases hi : indexAll al s with
    | none => simp [hl]
    | some ds =>
      by_cases hv : value al.length ds < maxUuid
      · simp [hl, hv]
        intro h; exact h ▸ hv
      · simp [hl, hv]
        intro h; rw [h] at hv; omega
  · simp [hl]

/-- everything else is rejected, always with `ValueError` (never `KeyError`, never a wrong UUID) -/
theorem reject (s : List Char) :
    decode al len s = .error .valueError ↔
      (s.length ≠ len ∨ (∃ c ∈ s, c ∉ al) ∨
        ∃ ds, indexAll al s = some ds ∧ maxUuid ≤ value al.length ds) := by
  unfold decode
  by_cases hl : s.length = len
  · cases hi : indexAll al s with
    | none =>
      have := (indexAll_none_iff al s).mp hi
      simp [hl]
      exact this
    | some ds =>
      have hno : ¬ ∃ c ∈ s, c ∉ al := by
        intro hex
        have := (indexAll_none_iff al s).mpr hex
        simp [hi] at this
      by_cases hv : value al.length ds < maxUuid
      · simp [hl, hv]
        intro c hc
        apply Classical.byContradiction
        intro hca; exact hno ⟨c, hc, hca⟩
      · simp [hl, hv]
        exact Or.inr (by omega)
  · simp [hl]

/-- `decode` is total: a UUID or `ValueError`, nothing else -/
theorem decode_total (s : List Char) :
    (∃ n, decode al len s = .ok n ∧ n < maxUuid) ∨ decode al len s = .error .valueError := by
  unfold decode
  split
  · exact Or.inr rfl
  · split
    · exact Or.inr rfl
    · simp only []
      split
      · rename_i h; exact Or.inl ⟨_, rfl, h⟩
      · exact Or.inr rfl

/-- surjectivity side of the bijection: an accepted string is the encoding of what it decodes to
(so two different accepted strings never decode to the same UUID) -/
theorem encode_decode (s : List Char) (n : Nat) (h : decode al len s = .ok n) :
    encode al len n = some s := by
  obtain ⟨hl, ds, hi, hv, hn⟩ := (decode_ok_iff s n).mp h
  have hlen : ds.length = len := by rw [indexAll_length al s ds hi, hl]
  have hlt := indexAll_lt al s ds hi
  have heq : encodeIdx al.length len n = ds := by
    apply value_inj al.length hB0
    · rw [encodeIdx_length al.length len n hB0 (Nat.lt_of_lt_of_le hn capacity), hlen]
    · exact encodeIdx_lt al.length len n hB0
    · exact hlt
    · rw [encodeIdx_value al.length len n hB, hv]
  unfold encode
  rw [heq]
  exact lookupAll_indexAll al s ds hi

/-- `uuid_from_str` reads both forms. `canon` is `uuid.UUID(str)` (trusted library): the only
thing assumed about it is that it rejects strings of `len` alphabet characters (it needs 32 hex
digits). -/
theorem from_str_both (canon : List Char → Option Nat)
    (hcanon : ∀ s, s.length = len → canon s = none) (n : Nat) (h : n < maxUuid) :
    (∀ c, canon c = some n → fromStr canon al len c = .ok n) ∧
    (∃ s, encode al len n = some s ∧ fromStr canon al len s = .ok n) := by
  constructor
  · intro c hc; simp [fromStr, hc]
  · obtain ⟨s, hs, hd⟩ := decode_encode n h
    refine ⟨s, hs, ?_⟩
    simp [fromStr, hcanon s (encode_length n h s hs), hd]

/-- what `uuid_from_str` accepts, exactly: whatever the trusted `uuid.UUID(str)` (`canon`, an
arbitrary function here) reads, and otherwise what `uuid_from_short_str` reads. No hypothesis on
`canon`: the real `uuid.UUID` also reads `'0000000_0000…'`, `' 00…0a'`, `'+0…0a\n'`, non-ASCII digits. -/
theorem from_str_ok_iff (canon : List Char → Option Nat) (s : List Char) (n : Nat) :
    fromStr canon al len s = .ok n ↔
      canon s = some n ∨ (canon s = none ∧ decode al len s = .ok n) := by
  unfold fromStr
  cases hc : canon s with
  | none => simp
  | some m => simp

/-- rejection by `uuid_from_str` is *relative to the trusted `uuid.UUID`*: a string is rejected
(with `ValueError`) exactly when `uuid.UUID(str)` rejects it and `uuid_from_short_str` rejects it
(the latter set is described exactly by `reject`). -/
theorem from_str_reject (canon : List Char → Option Nat) (s : List Char) :
    fromStr canon al len s = .error .valueError ↔
      canon s = none ∧ decode al len s = .error .valueError := by
  unfold fromStr
  cases hc : canon s with
  | none => simp
  | some m => simp

/-- `uuid_from_str` is total: a number or `ValueError`, nothing else, whatever `canon` is -/
theorem from_str_total (canon : List Char → Option Nat) (s : List Char) :
    (∃ n, fromStr canon al len s = .ok n) ∨ fromStr canon al len s = .error .valueError := by
  unfold fromStr
  cases hc : canon s with
  | some m => exact Or.inl ⟨m, rfl⟩
  | none =>
    rcases decode_total s with ⟨n, h, _⟩ | h
    · exact Or.inl ⟨n, h⟩
    · exact Or.inr h

/-! Non-vacuity: the docstring's example, and a rejected overflow value, evaluated by the kernel. -/
example : encode al len 0xde22bbe043bf448d9b832ee57e663285 = some "hfDoPxAatD8tiFaSAL3oXh".toList := by
  decide +kernel
example : decode al len "hfDoPxAatD8tiFaSAL3oXh".toList = .ok 0xde22bbe043bf448d9b832ee57e663285 := by
  decide +kernel
example : decode al len "zzzzzzzzzzzzzzzzzzzzzz".toList = .error .valueError := by decide +kernel
example : decode al len "hfDoPxAatD8tiFaSAL3oX!".toList = .error .valueError := by decide +kernel

end C20
