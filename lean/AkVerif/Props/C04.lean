import AkVerif.Gen.C04
import AkVerif.Lemmas.SrcPos
namespace C04
end C04
