import AkVerif.Gen.C04
import AkVerif.Lemmas.SrcPos
import AkVerif.Lemmas.SrcPosCompose
/-!
# C04 — source positions are exact and cover the text

Property theorems only. Everything is about the executable model `SrcPos.tokenize` / `getOrigText` /
`spanT` that the driver runs, with the offsets `B` *generated from the source* (`Gen.C04.bases`);
`bases_std` re-decides on every run that they are the 1-based line/column, exclusive end, 0-based
error column the theorems are stated for.

`re` stands for the library `re` (what it matches where); nothing is assumed about it except, where
needed, `ReIn` (a match ends inside its line — also checked by the driver on every request).
A result `.ok toks` already implies that every match advanced (a zero-width match is `outOfFuel`).
`toks` always ends with `$END$`; `toks.dropLast` are the tokens of the text.
-/
namespace C04
open SrcPos Ak

abbrev B : Bases := Gen.C04.bases
abbrev ws : Char → Bool := Gen.C04.isSpace

/-- the offsets found in the source are: first position (1,1), lines and columns 1-based, exclusive
end, 0-based column in `LexicalError`, `- 1` in `get_orig_text` -/
theorem bases_std : B = Bases.std := by decide

/-- Within a line consecutive tokens are adjacent: if the next token (`$END$` included) starts on the
line where a token ends, it starts exactly where that token ends. -/
theorem tok_adjacent (cfg : Cfg) (re : Re) (lines : List (List Char)) (toks : List Tok)
    (h : tokenize B cfg re lines = .ok toks) (k : Nat) (t u : Tok)
    (ht : toks[k]? = some t) (hu : toks[k + 1]? = some u) (hline : t.e.line = u.s.line) :
    t.e = u.s := by
  rw [bases_std] at h
  obtain ⟨ts, p, rfl, hl, _⟩ := tokenize_linked h
  rcases Linked_get hl ht hu with h | ⟨_, h⟩
  · exact h
  · omega

/-- The first token of a line starts at its own column on that line: a token that does not start on
the line where its predecessor ended (and the very first token) starts on a *later* line, at column 1
— never on the predecessor's line. (`tok_orig_text` adds that the lexeme begins at that very column.) -/
theorem tok_line_start (cfg : Cfg) (re : Re) (lines : List (List Char)) (toks : List Tok)
    (h : tokenize B cfg re lines = .ok toks) :
    (∀ t, toks[0]? = some t → t.s.col = 1 ∧ 1 ≤ t.s.line) ∧
    (∀ k t u, toks[k]? = some t → toks[k + 1]? = some u → t.e.line ≠ u.s.line →
      u.s.col = 1 ∧ t.e.line < u.s.line) := by
  rw [bases_std] at h
  obtain ⟨ts, p, rfl, hl, _⟩ := tokenize_linked h
  constructor
  · intro t ht
    rcases Linked_head hl ht with h | ⟨h1, h2⟩
    · rw [← h]; simp
    · exact ⟨h1, by simp at h2; omega⟩
  · intro k t u ht hu hne
    rcases Linked_get hl ht hu with h | h
    · exact absurd (by rw [h]) hne
    · exact h

/-- Spans never move backwards in document order: every token of the text is non-empty
(`start < end`), `$END$` is empty, and every token starts at or after the end of every earlier one;
nothing starts before (1,1). -/
theorem tok_monotone (cfg : Cfg) (re : Re) (lines : List (List Char)) (toks : List Tok)
    (h : tokenize B cfg re lines = .ok toks) :
    (∀ t ∈ toks.dropLast, t.s < t.e) ∧ (∀ t ∈ toks, t.s ≤ t.e) ∧
    toks.Pairwise (fun t u => t.e ≤ u.s) ∧ (∀ t ∈ toks, (⟨1, 1⟩ : Pos) ≤ t.s) := by
  rw [bases_std] at h
  obtain ⟨ts, p, rfl, hl, hne⟩ := tokenize_linked h
  have hw : ∀ t ∈ ts ++ [endTok cfg p], t.s ≤ t.e := by
    intro t ht
    rcases List.mem_append.mp ht with h | h
    · exact Pos.le_of_lt (hne t h)
    · simp at h; subst h; exact Pos.le_refl _
  exact ⟨by simpa using hne, hw, Linked_pairwise hl hw, Linked_lower hl hw⟩

/-- `get_orig_text` of a token returns exactly the characters it was matched from, for `str` and for
list-of-lines input. Every token of the text is either
* an ordinary token made from one match `m` of the token pattern at column `c` of line `i`: then
  `get_orig_text` is the lexeme `line[c : m.end()]`, which is also the slice of the whole text between
  the offsets of the token's start and end, or
* a span token: opener matched at `(i, c)`, closer found by that opener's body matcher at `(j, d)`
  behind it: then `get_orig_text` is the whole region of the text from the first character of the
  opener to the last character of the closer. -/
theorem tok_orig_text (cfg : Cfg) (re : Re) (inp : Input) (toks : List Tok)
    (hre : ReIn re (tokLines ws inp)) (h : tokenize B cfg re (tokLines ws inp) = .ok toks) :
    ∀ t ∈ toks.dropLast,
      (∃ i c m line, IsPlain cfg re (tokLines ws inp) t i c m ∧ (tokLines ws inp)[i]? = some line ∧
        getOrigText B (origLines inp) t.s t.e = .ok (slice line c m.stop) ∧
        slice line c m.stop =
          slice (flatText inp) (offset (origLines inp) i c) (offset (origLines inp) i m.stop)) ∨
      (∃ i c m j d m', IsSpanTok cfg re (tokLines ws inp) t i c m j d m' ∧
        getOrigText B (origLines inp) t.s t.e =
          .ok (slice (flatText inp) (offset (origLines inp) i c) (offset (origLines inp) j m'.stop))) := by
  rw [bases_std] at h ⊢
  intro t ht
  rcases tokenize_origin h t ht with ⟨i, c, m, hp⟩ | ⟨i, c, m, j, d, m', hs⟩
  · left
    obtain ⟨line, h1, h2, h3⟩ := plain_orig hp hre (ext_input ws inp)
    exact ⟨i, c, m, line, hp, h1, h2, by rw [← joinNl_origLines]; exact h3⟩
  · right
    exact ⟨i, c, m, j, d, m', hs, by rw [← joinNl_origLines]; exact span_orig hs hre (ext_input ws inp)⟩

/-- Where every token comes from. The model's matcher is asked about a *line and a column*
(`re.norm i c` = `matcher.match(text_line, c)`: what matches may depend on the characters before `c` — `^`, `\b`,
look-behind — and the model cannot ask about a slice of the line), and every token of the text is
* either one such match at its own position: `t.s = (i+1, c+1)`, `t.e = (i+1, m.end()+1)`,
* or a span token: opener `m` matched at `(i, c)`, closed by the body matcher *of that opener's own group*
  `m.kind` (the group of the pattern, before synonyms — two span kinds reported under one synonym keep their
  own closers), found at `(j, d)` behind the opener; the token is reported under `syn m.kind`. -/
theorem tok_provenance (cfg : Cfg) (re : Re) (lines : List (List Char)) (toks : List Tok)
    (h : tokenize B cfg re lines = .ok toks) :
    ∀ t ∈ toks.dropLast,
      (∃ i c m, IsPlain cfg re lines t i c m) ∨ (∃ i c m j d m', IsSpanTok cfg re lines t i c m j d m') := by
  rw [bases_std] at h
  exact tokenize_origin h

/-- The span `get_orig_text` is given may be *any* span inside the text: the result is exactly the
text between the two positions (slice of the whole text by character offsets). -/
theorem orig_text_exact (inp : Input) (i j a b : Nat) (li lj : List Char)
    (hi : (origLines inp)[i]? = some li) (hj : (origLines inp)[j]? = some lj)
    (ha : a ≤ li.length) (hb : b ≤ lj.length) (hle : i < j ∨ (i = j ∧ a ≤ b)) :
    getOrigText B (origLines inp) ⟨1 + i, a + 1⟩ ⟨1 + j, b + 1⟩ =
      .ok (slice (flatText inp) (offset (origLines inp) i a) (offset (origLines inp) j b)) := by
  rw [bases_std, ← joinNl_origLines]
  exact getOrigText_flat hi hj ha hb hle

/-- Node spans. `L` = positions of the tokens that survive the skip filter `q` (any filter; the driver's
`dropSkipped skip` is `filter (fun t => t.name ∉ skip)`), the tree is laid over them from token `k` on and
does not swallow `$END$`. Then for the tree and every node below it (`all`, pre-order), with `[lo, hi)` the
tokens under the node: a node with at least one token spans from the start of its first token to the end of
its last token; a node that matched nothing has the empty span at the start of the following token (`Good`). -/
theorem node_span (cfg : Cfg) (re : Re) (lines : List (List Char)) (toks : List Tok)
    (h : tokenize B cfg re lines = .ok toks) (q : Tok → Bool) (t : Tree) (k : Nat)
    (sp : Span) (k' : Nat) (all : List NodeInfo)
    (hs : spanT ((toks.filter q).map Tok.span) t k = .ok (sp, k', all))
    (hk : k' < ((toks.filter q).map Tok.span).length) :
    k' = k + t.cnt ∧ Good ((toks.filter q).map Tok.span) ⟨k, k', sp⟩ ∧
      ∀ n ∈ all, Good ((toks.filter q).map Tok.span) n := by
  rw [bases_std] at h
  obtain ⟨ts, p, rfl, hl, hne⟩ := tokenize_linked h
  have := noEq_of_tokens_filter hl hne (Pos.le_refl _) q
  exact spanT_spec _ t k sp k' all hs (this.mono (by omega))

/-- A `LexicalError` names the line (1-based) and the column (0-based) of a character at which no
token pattern matches; the only other `LexicalError` is "span is never closed" (an opener was read,
the text ended before its closer), reported at or before the opener. -/
theorem lex_error_line (cfg : Cfg) (re : Re) (lines : List (List Char)) (p : Pos)
    (h : tokenize B cfg re lines = .error (.lexical p)) :
    (∃ i c line, lines[i]? = some line ∧ c < line.length ∧ re.norm i c = none ∧ p = ⟨1 + i, c⟩) ∨
    (∃ i c m, IsOpener cfg re lines i c m ∧ p ≤ ⟨1 + i, c + 1⟩) := by
  rw [bases_std] at h
  exact tokenize_lexical h

/-- The tokens cover the text: every character of every line the tokenizer iterates over (for a `str`:
the right-stripped lines) lies inside the span of some token of the text. With `tok_monotone` and
`tok_adjacent` (spans do not overlap) the token spans tile the text exactly. -/
theorem tok_cover (cfg : Cfg) (re : Re) (lines : List (List Char)) (toks : List Tok)
    (h : tokenize B cfg re lines = .ok toks) (i : Nat) (line : List Char) (c : Nat)
    (hl : lines[i]? = some line) (hc : c < line.length) :
    ∃ t ∈ toks.dropLast, t.s ≤ ⟨1 + i, c + 1⟩ ∧ (⟨1 + i, c + 1⟩ : Pos) < t.e := by
  rw [bases_std] at h
  exact tokenize_cover h i line c hl hc

/-- … and no character lies in two tokens: the token spans tile the text exactly. -/
theorem tok_cover_unique (cfg : Cfg) (re : Re) (lines : List (List Char)) (toks : List Tok)
    (h : tokenize B cfg re lines = .ok toks) (P : Pos) (a b : Nat) (t u : Tok)
    (ht : toks[a]? = some t) (hu : toks[b]? = some u)
    (h1 : t.s ≤ P ∧ P < t.e) (h2 : u.s ≤ P ∧ P < u.e) : a = b := by
  obtain ⟨_, _, hpw, _⟩ := tok_monotone cfg re lines toks h
  obtain ⟨ha, hae⟩ := List.getElem?_eq_some_iff.mp ht
  obtain ⟨hb, hbe⟩ := List.getElem?_eq_some_iff.mp hu
  rcases Nat.lt_trichotomy a b with hlt | heq | hgt
  · have := (List.pairwise_iff_getElem.mp hpw) a b ha hb hlt
    rw [hae, hbe] at this
    exact absurd (Pos.lt_of_lt_of_le h1.2 (Pos.le_trans this h2.1)) (by simp [Pos.lt_def])
  · exact heq
  · have := (List.pairwise_iff_getElem.mp hpw) b a hb ha hgt
    rw [hae, hbe] at this
    exact absurd (Pos.lt_of_lt_of_le h2.2 (Pos.le_trans this h1.1)) (by simp [Pos.lt_def])

/-- `$END$` is the last token, it is empty and sits at the end of the last token of the text
(at (1,1) when the text has no token). -/
theorem end_token (cfg : Cfg) (re : Re) (lines : List (List Char)) (toks : List Tok)
    (h : tokenize B cfg re lines = .ok toks) :
    ∃ ts p, toks = ts ++ [endTok cfg p] ∧ (ts = [] → p = ⟨1, 1⟩) ∧
      (∀ t, ts.getLast? = some t → p = t.e) := by
  rw [bases_std] at h
  obtain ⟨st, ts, hrun, _, rfl⟩ := tokenize_ok h
  obtain ⟨_, _, h3, _⟩ := RunLines_linked hrun StInv_init
  refine ⟨ts, st.prevEnd, rfl, ?_, ?_⟩
  · intro hts; subst hts; simpa [lastEnd] using h3
  · intro t ht
    rw [h3]; exact lastEnd_getLast _ ts t ht

/-- The span of a node is determined by the tokens below it alone: two nodes (of any two trees, e.g.
the trees built with and without `smart_factorization`, with or without empty children) over the
same token range carry the same span. -/
theorem node_span_unique (L : List Span) (n n' : NodeInfo) (h : Good L n) (h' : Good L n')
    (hlo : n.lo = n'.lo) (hhi : n.hi = n'.hi) : n.span = n'.span := by
  obtain ⟨_, f, hf, h1, h2⟩ := h
  obtain ⟨_, f', hf', h1', h2'⟩ := h'
  rw [hlo, hf'] at hf; cases hf
  by_cases he : n.lo = n.hi
  · rw [h1 he, h1' (by omega)]
  · obtain ⟨l, hl, hs⟩ := h2 (by omega)
    obtain ⟨l', hl', hs'⟩ := h2' (by omega)
    rw [hhi, hl'] at hl; cases hl
    rw [hs, hs']

/-- `get_orig_text` of every node of the tree returns exactly the text from the first character of
its first token to the last character of its last token (the empty string for a node that matched
nothing), for `str` and list-of-lines input. -/
theorem node_orig_text (cfg : Cfg) (re : Re) (inp : Input) (toks : List Tok)
    (hre : ReIn re (tokLines ws inp)) (hne : inp ≠ .lines [])
    (h : tokenize B cfg re (tokLines ws inp) = .ok toks) (q : Tok → Bool) (t : Tree) (k : Nat)
    (sp : Span) (k' : Nat) (all : List NodeInfo)
    (hs : spanT ((toks.filter q).map Tok.span) t k = .ok (sp, k', all))
    (hk : k' < ((toks.filter q).map Tok.span).length) :
    ∀ n ∈ all, ∃ i a j b, n.span.s = ⟨1 + i, a + 1⟩ ∧ n.span.e = ⟨1 + j, b + 1⟩ ∧
      getOrigText B (origLines inp) n.span.s n.span.e =
        .ok (slice (flatText inp) (offset (origLines inp) i a) (offset (origLines inp) j b)) := by
  have hgood := (node_span cfg re _ toks h q t k sp k' all hs hk).2.2
  obtain ⟨_, hw, hpw, _⟩ := tok_monotone cfg re _ toks h
  rw [bases_std] at h ⊢
  have hval := tokens_valid h hre (tokLines_ne_nil ws hne)
  intro n hn
  rw [← joinNl_origLines]
  apply good_orig ?_ ?_ ?_ (hgood n hn)
  · intro x hx
    obtain ⟨t, ht, rfl⟩ := List.mem_map.mp hx
    have := hval t (List.mem_filter.mp ht).1
    exact ⟨this.1.ext (ext_input ws inp), this.2.ext (ext_input ws inp)⟩
  · rw [List.pairwise_map]; exact hpw.filter _
  · intro x hx
    obtain ⟨t, ht, rfl⟩ := List.mem_map.mp hx
    exact hw t (List.mem_filter.mp ht).1

/-! ## composition with the LL parse model (C01): positions carried through the parse run -/

/-- The positioned parse *is* the parse of the LL model: forgetting the positions, a tree returned by
`runP` is the tree `LL.run` returns on the same tokens with the same fuel, and a `ParsingError` is a
`ParsingError` (any grammar/table `G`, any tokens). -/
theorem parse_is_ll_run {σ : Type} [DecidableEq σ] (G : LL.Cfg σ) (ptoks : List (PTok σ)) (fuel : Nat)
    (init start endS : σ) :
    (∀ t, runP G ptoks fuel none (initStackP init start endS) = .ok t →
      LL.run G (ptoks.map PTok.erase) fuel (LL.initStack init start endS) = .ok t.erase) ∧
    (∀ p, runP G ptoks fuel none (initStackP init start endS) = .error (.parsing p) →
      LL.run G (ptoks.map PTok.erase) fuel (LL.initStack init start endS) = .error .parsingError) := by
  have := runP_erase G ptoks fuel none (initStackP init start endS)
  rw [erase_initStack] at this
  exact this

/-- Node spans of every tree the parse can return. For every text, tokenizer configuration and parser
built by `LL.construct` (suffix symbols are not terminals, `$END$` is: `parserOk`, checked by the driver):
if `parse` — tokenize, drop the skipped tokens, run the stack machine with all its roll-backs — returns a
tree, then the spans the machine attached to the elements *while parsing* (an empty production is
positioned at `tokens[cur_token_pos]` of its frame, whatever was tried and rolled back before) are exactly
those of `node_span`: each node from the start of its first token to the end of its last, each node that
matched nothing empty at the first token not consumed by the nodes before it. -/
theorem parse_node_span (cfg : Cfg) (re : Re) (lines : List (List Char)) (toks : List Tok)
    (h : tokenize B cfg re lines = .ok toks) (names : List (List Char)) (P : LL.Parser)
    (hP : parserOk P = true) (fuel : Nat) (t : PTree LL.Sym)
    (hrun : parseToks names cfg P toks fuel = some (.ok t)) :
    ∃ k' all, spanT ((toks.filter (keepTok names cfg P.skip)).map Tok.span) t.shape 0 = .ok (t.span, k', all) ∧
      all.map (·.span) = t.preorder ∧
      ∀ n ∈ all, Good ((toks.filter (keepTok names cfg P.skip)).map Tok.span) n := by
  unfold parseToks at hrun
  split at hrun
  · cases hrun
  · rename_i ptoks hpt
    simp only [Option.some.injEq] at hrun
    obtain ⟨k', all, h1, h2, h3⟩ := runP_lay (parserOk_suffix hP) (parserOk_end hP) hrun
    rw [ptoksOf_spans names cfg P.skip toks ptoks hpt] at h1 h3
    exact ⟨k', all, h1, h2, (node_span cfg re lines toks h _ t.shape 0 t.span k' all h1 h3).2.2⟩

/-- … and `get_orig_text` of every node of such a tree is the text from the first character of its
first token to the last character of its last token. -/
theorem parse_node_orig_text (cfg : Cfg) (re : Re) (inp : Input) (toks : List Tok)
    (hre : ReIn re (tokLines ws inp)) (hne : inp ≠ .lines [])
    (h : tokenize B cfg re (tokLines ws inp) = .ok toks) (names : List (List Char)) (P : LL.Parser)
    (hP : parserOk P = true) (fuel : Nat) (t : PTree LL.Sym)
    (hrun : parseToks names cfg P toks fuel = some (.ok t)) :
    ∀ sp ∈ t.preorder, ∃ i a j b, sp.s = ⟨1 + i, a + 1⟩ ∧ sp.e = ⟨1 + j, b + 1⟩ ∧
      getOrigText B (origLines inp) sp.s sp.e =
        .ok (slice (flatText inp) (offset (origLines inp) i a) (offset (origLines inp) j b)) := by
  unfold parseToks at hrun
  split at hrun
  · cases hrun
  · rename_i ptoks hpt
    simp only [Option.some.injEq] at hrun
    obtain ⟨k', all, h1, h2, h3⟩ := runP_lay (parserOk_suffix hP) (parserOk_end hP) hrun
    rw [ptoksOf_spans names cfg P.skip toks ptoks hpt] at h1 h3
    have := node_orig_text cfg re inp toks hre hne h _ t.shape 0 t.span k' all h1 h3
    intro sp hsp
    rw [← h2] at hsp
    obtain ⟨n, hn, rfl⟩ := List.mem_map.mp hsp
    exact this n hn

/-- `ParsingError.src_pos` is the start position of one of the (non-skipped) tokens of the text: the first
token of the frame that got farthest (`longest_stack`, carried by the model through every roll-back). -/
theorem parse_error_pos (cfg : Cfg) (names : List (List Char)) (P : LL.Parser) (toks : List Tok)
    (fuel : Nat) (p : Pos) (hrun : parseToks names cfg P toks fuel = some (.error (.parsing p))) :
    ∃ t ∈ toks.filter (keepTok names cfg P.skip), p = t.s := by
  unfold parseToks at hrun
  split at hrun
  · cases hrun
  · rename_i ptoks hpt
    simp only [Option.some.injEq] at hrun
    obtain ⟨tk, htk, rfl⟩ := runP_fail_pos _ _ _ p hrun
    have hm : tk.sp ∈ ptoks.map (·.sp) := List.mem_map.mpr ⟨tk, htk, rfl⟩
    rw [ptoksOf_spans names cfg P.skip toks ptoks hpt] at hm
    obtain ⟨t, ht, he⟩ := List.mem_map.mp hm
    exact ⟨t, ht, by rw [← he]; rfl⟩

/-- A `LexicalError` is raised exactly at the first character the scan reaches (outside a span) that
no token pattern matches, naming its line (1-based) and column (0-based); the only other case is the
end of the text reached inside a span. `Reach` = the configurations the scanner goes through. -/
theorem lex_error_first (cfg : Cfg) (re : Re) (lines : List (List Char)) (p : Pos)
    (h : tokenize B cfg re lines = .error (.lexical p)) :
    (∃ i c line, Reach cfg re lines i c none ∧ lines[i]? = some line ∧ c < line.length ∧
      re.norm i c = none ∧ p = ⟨1 + i, c⟩) ∨
    (∃ k, Reach cfg re lines lines.length 0 (some k)) := by
  rw [bases_std] at h
  exact tokenize_lexical_reach h

/-- A character no token pattern matches raises an error: if the text is tokenized, the token pattern
matches at every character the scan reaches outside a span. -/
theorem lex_error_complete (cfg : Cfg) (re : Re) (lines : List (List Char)) (toks : List Tok)
    (h : tokenize B cfg re lines = .ok toks) (i c : Nat) (line : List Char)
    (hr : Reach cfg re lines i c none) (hl : lines[i]? = some line) (hc : c < line.length) :
    ∃ m, re.norm i c = some m := by
  rw [bases_std] at h
  exact tokenize_complete h hr hl hc

/-- … and that character is unique: the scan is deterministic, so the reachable character at which no
pattern matches (the one `lex_error_first` names, the one `lex_error_complete` excludes) is the first
and only one. -/
theorem lex_error_unique (cfg : Cfg) (re : Re) (lines : List (List Char)) (i c i' c' : Nat)
    (line line' : List Char)
    (h1 : Reach cfg re lines i c none) (hl : lines[i]? = some line) (hc : c < line.length)
    (hn : re.norm i c = none)
    (h2 : Reach cfg re lines i' c' none) (hl' : lines[i']? = some line') (hc' : c' < line'.length)
    (hn' : re.norm i' c' = none) : i = i' ∧ c = c' :=
  unmatched_unique h1 hl hc hn h2 hl' hc' hn'

/-- A character no token pattern matches raises the lexical error, naming its line: if the scan reaches
(outside a span) a character at which no pattern matches, `tokenize` *is* `LexicalError(line i+1, column c)` —
it neither succeeds nor stops elsewhere (patterns never match the empty string: `ReAdv`). -/
theorem unmatched_char_raises (cfg : Cfg) (re : Re) (hadv : ReAdv re) (lines : List (List Char)) (i c : Nat)
    (line : List Char) (hr : Reach cfg re lines i c none) (hl : lines[i]? = some line)
    (hc : c < line.length) (hn : re.norm i c = none) :
    tokenize B cfg re lines = .error (.lexical ⟨1 + i, c⟩) := by
  rw [bases_std]
  exact tokenize_unmatched hadv hr hl hc hn

/-- … also through `parse`, and regardless of the grammar: `parse` tokenizes the whole text before the stack
machine starts, so for every parser `P`, every fuel and every name table the outcome of `parseText` on a text
with an unmatched character is that `LexicalError` — never a `ParsingError` for a syntax error that stands in
front of the character, never a tree. -/
theorem parse_lexical_first (cfg : Cfg) (re : Re) (hadv : ReAdv re) (lines : List (List Char)) (i c : Nat)
    (line : List Char) (hr : Reach cfg re lines i c none) (hl : lines[i]? = some line)
    (hc : c < line.length) (hn : re.norm i c = none)
    (names : List (List Char)) (P : LL.Parser) (fuel : Nat) :
    parseText B names cfg re P lines fuel = .lex ⟨1 + i, c⟩ := by
  unfold parseText
  rw [unmatched_char_raises cfg re hadv lines i c line hr hl hc hn]

/-- The model is total on the domain: when no pattern matches the empty string (`ReAdv`), `tokenize`
returns a token list or a `LexicalError`, never `outOfFuel` (the real code's endless loop). -/
theorem no_out_of_fuel (cfg : Cfg) (re : Re) (hadv : ReAdv re) (lines : List (List Char)) :
    (∃ toks, tokenize B cfg re lines = .ok toks) ∨ (∃ p, tokenize B cfg re lines = .error (.lexical p)) := by
  rw [bases_std]
  cases hres : tokenize Bases.std cfg re lines with
  | ok toks => exact Or.inl ⟨toks, rfl⟩
  | error x =>
    cases x with
    | lexical p => exact Or.inr ⟨p, rfl⟩
    | py e => exact absurd hres (tokenize_no_py cfg re hadv lines e)

/-! ## Non-vacuity

The text `a /* x⏎⏎ y */ b␣␣⏎cd "s"` (a span token over a blank line, trailing blanks, an un-indented
line) with the `re` answers of the "span-comment" configuration of the harness (names: 0 `$END$`,
1 `COMMENT`, 3 `COMMENT_ML` (span opener), 5 `DQ_STRING`, 9 `SPACE`, 10 `STRING`, 11 `WORD`).
All hypotheses of the theorems hold for it and the kernel evaluates the result. -/

def exCfg : Cfg := ⟨[3], [(2, 1), (3, 1), (5, 10)], [], 0⟩
def exInp : Input := .str "a /* x\n\n y */ b  \ncd \"s\"".toList
def exTbl : List LineTbl := [
  ⟨[some ⟨1, 11, 0, 1⟩, some ⟨2, 9, 1, 2⟩, some ⟨4, 3, 2, 4⟩, some ⟨4, 6, 3, 4⟩, some ⟨5, 9, 4, 5⟩, some ⟨6, 11, 5, 6⟩],
    [[none, none, none, none, none, none]]⟩,
  ⟨[],
    [[]]⟩,
  ⟨[some ⟨1, 9, 0, 1⟩, some ⟨2, 11, 1, 2⟩, some ⟨3, 9, 2, 3⟩, some ⟨4, 6, 3, 4⟩, some ⟨5, 4, 4, 5⟩, some ⟨6, 9, 5, 6⟩, some ⟨7, 11, 6, 7⟩],
    [[some ⟨5, 0, 0, 3⟩, some ⟨5, 0, 1, 3⟩, some ⟨5, 0, 2, 3⟩, some ⟨5, 0, 3, 3⟩, none, none, none]]⟩,
  ⟨[some ⟨2, 11, 0, 2⟩, some ⟨2, 11, 1, 2⟩, some ⟨3, 9, 2, 3⟩, some ⟨6, 5, 4, 5⟩, some ⟨5, 11, 4, 5⟩, none],
    [[none, none, none, none, none, none]]⟩]
def exRe : Re := reOfTable exCfg.spanKinds exTbl

def exSpans : List Span := [
  ⟨⟨1, 1⟩, ⟨1, 2⟩⟩, ⟨⟨1, 2⟩, ⟨1, 3⟩⟩, ⟨⟨1, 3⟩, ⟨3, 6⟩⟩, ⟨⟨3, 6⟩, ⟨3, 7⟩⟩, ⟨⟨3, 7⟩, ⟨3, 8⟩⟩,
  ⟨⟨4, 1⟩, ⟨4, 3⟩⟩, ⟨⟨4, 3⟩, ⟨4, 4⟩⟩, ⟨⟨4, 4⟩, ⟨4, 7⟩⟩, ⟨⟨4, 7⟩, ⟨4, 7⟩⟩]

/-- the tokenizer sees the right-stripped lines -/
example : tokLines ws exInp = ["a /* x".toList, [], " y */ b".toList, "cd \"s\"".toList] := by
  decide +kernel
example : tableOk exCfg.spanKinds (tokLines ws exInp) exTbl = true := by decide +kernel
theorem ex_reIn : ReIn exRe (tokLines ws exInp) := reOfTable_in _ _ _ (by decide +kernel)
theorem ex_tokens : ∃ toks, tokenize B exCfg exRe (tokLines ws exInp) = .ok toks ∧
    toks.map Tok.span = exSpans := ⟨_, rfl, by decide +kernel⟩
/-- the span token `/* x⏎⏎ y */` and the un-indented `cd`: `get_orig_text` on the `str` -/
example : getOrigText B (origLines exInp) ⟨1, 3⟩ ⟨3, 6⟩ = .ok "/* x\n\n y */".toList := by decide +kernel
example : getOrigText B (origLines exInp) ⟨4, 1⟩ ⟨4, 3⟩ = .ok "cd".toList := by decide +kernel
/-- raw tree of `E → WORD E | STRING E | ()` over the non-skipped tokens `a b cd "s" $END$`:
node spans, the last one the empty production at `$END$` -/
example : (spanT [⟨⟨1, 1⟩, ⟨1, 2⟩⟩, ⟨⟨3, 7⟩, ⟨3, 8⟩⟩, ⟨⟨4, 1⟩, ⟨4, 3⟩⟩, ⟨⟨4, 4⟩, ⟨4, 7⟩⟩, ⟨⟨4, 7⟩, ⟨4, 7⟩⟩]
      (.node (.cons .tok (.cons (.node (.cons .tok (.cons (.node (.cons .tok (.cons (.node
        (.cons .tok (.cons .nul .nil))) .nil))) .nil))) .nil))) 0).map (fun r => (r.1, r.2.1)) =
    .ok (⟨⟨1, 1⟩, ⟨4, 7⟩⟩, 4) := by decide +kernel
/-- the hypotheses of `tok_orig_text`, `tok_cover` and `node_span` hold together on this input -/
example : ∃ toks, tokenize B exCfg exRe (tokLines ws exInp) = .ok toks ∧
    (∀ i line c, (tokLines ws exInp)[i]? = some line → c < line.length →
      ∃ t ∈ toks.dropLast, t.s ≤ ⟨1 + i, c + 1⟩ ∧ (⟨1 + i, c + 1⟩ : Pos) < t.e) ∧
    (∀ t ∈ toks.dropLast, ∃ r, getOrigText B (origLines exInp) t.s t.e = .ok r) := by
  obtain ⟨toks, h, _⟩ := ex_tokens
  refine ⟨toks, h, fun i line c => tok_cover exCfg exRe _ toks h i line c, ?_⟩
  intro t ht
  rcases tok_orig_text exCfg exRe exInp toks ex_reIn h t ht with ⟨_, _, _, _, _, _, h1, _⟩ | ⟨_, _, _, _, _, _, _, h1⟩
  · exact ⟨_, h1⟩
  · exact ⟨_, h1⟩
/-- the composed pipeline on a grammar that rolls back into an empty alternative:
`E → LABEL WORD NUM`, `LABEL → WORD SEMI | ()`, text `␣␣␣foo 12`: `LABEL → WORD SEMI` consumes `foo`, fails at
`12`, the roll-back selects the empty production, which is positioned at `foo` (1,4) — not at `12` -/
def exCtor : LL.CtorIn :=
  { groups := ["SPACE".toList, "WORD".toList, "NUM".toList, "SEMI".toList], syn := [], kw := [], skip := none,
    start := "E".toList,
    prods := [("E".toList, [["LABEL".toList, "WORD".toList, "NUM".toList]]),
              ("LABEL".toList, [["WORD".toList, "SEMI".toList], []])],
    smart := true }
def exNames : List (List Char) := ["$END$".toList, "NUM".toList, "SEMI".toList, "SPACE".toList, "WORD".toList]
def exToks2 : List Tok := [
  ⟨3, some "   ".toList, ⟨1, 1⟩, ⟨1, 4⟩⟩, ⟨4, some "foo".toList, ⟨1, 4⟩, ⟨1, 7⟩⟩, ⟨3, some " ".toList, ⟨1, 7⟩, ⟨1, 8⟩⟩,
  ⟨1, some "12".toList, ⟨1, 8⟩, ⟨1, 10⟩⟩, ⟨0, none, ⟨1, 10⟩, ⟨1, 10⟩⟩]
example : (match LL.construct exCtor with
    | .ok P => (parserOk P, (parseToks exNames ⟨[], [], [], 0⟩ P exToks2 100).map (·.map PTree.preorder))
    | .error _ => (false, none)) =
    (true, some (.ok [⟨⟨1, 4⟩, ⟨1, 10⟩⟩, ⟨⟨1, 4⟩, ⟨1, 4⟩⟩, ⟨⟨1, 4⟩, ⟨1, 7⟩⟩, ⟨⟨1, 8⟩, ⟨1, 10⟩⟩])) := by
  decide +kernel
/-- … and when the fallback after the roll-back is a non-empty production whose children match nothing
(`LABEL → WORD SEMI | OPT`, `OPT → SEMI | ()`): `LABEL` and `OPT` are both empty at `foo` (1,4); nothing of
the failed attempt `WORD SEMI` is left in the span -/
def exCtor2 : LL.CtorIn :=
  { exCtor with prods := [("E".toList, [["LABEL".toList, "WORD".toList, "NUM".toList]]),
                          ("LABEL".toList, [["WORD".toList, "SEMI".toList], ["OPT".toList]]),
                          ("OPT".toList, [["SEMI".toList], []])] }
example : (match LL.construct exCtor2 with
    | .ok P => (parserOk P, (parseToks exNames ⟨[], [], [], 0⟩ P exToks2 100).map (·.map PTree.preorder))
    | .error _ => (false, none)) =
    (true, some (.ok [⟨⟨1, 4⟩, ⟨1, 10⟩⟩, ⟨⟨1, 4⟩, ⟨1, 4⟩⟩, ⟨⟨1, 4⟩, ⟨1, 4⟩⟩, ⟨⟨1, 4⟩, ⟨1, 7⟩⟩, ⟨⟨1, 8⟩, ⟨1, 10⟩⟩])) := by
  decide +kernel
/-- the text is the caller's text, character by character: a BOM, a zero-width space, a `\r` are characters
like any other (only `str.isspace` characters at the end of a line are stripped, for a `str`), a column counts
characters -/
example : tokLines ws (.str "\uFEFFab \r\ncd\u200B\t".toList) = ["\uFEFFab".toList, "cd\u200B".toList] := by
  decide +kernel
example : tokenize B ⟨[], [], [], 0⟩
    (reOfTable [] [⟨[some ⟨1, 3, 0, 1⟩, some ⟨3, 4, 1, 3⟩, some ⟨3, 4, 2, 3⟩], []⟩])
    (tokLines ws (.str "\uFEFFab".toList)) =
    .ok [⟨3, some "\uFEFF".toList, ⟨1, 1⟩, ⟨1, 2⟩⟩, ⟨4, some "ab".toList, ⟨1, 2⟩, ⟨1, 4⟩⟩, ⟨0, none, ⟨1, 4⟩, ⟨1, 4⟩⟩] := by
  decide +kernel
example : getOrigText B (origLines (.str "\uFEFFab \r\ncd".toList)) ⟨1, 2⟩ ⟨1, 4⟩ = .ok "ab".toList := by
  decide +kernel
/-! one instance of every conditional theorem: its hypotheses hold together on a concrete input -/

/-- `node_span` / `node_orig_text`: the tree `(t (t (t (t e))))` over the tokens of `exInp` that are neither
SPACE nor COMMENT (picked by their spans), `inp ≠ .lines []`, `ReIn`, `hs`, `hk` -/
def exKeep : List Span := [⟨⟨1, 1⟩, ⟨1, 2⟩⟩, ⟨⟨3, 7⟩, ⟨3, 8⟩⟩, ⟨⟨4, 1⟩, ⟨4, 3⟩⟩, ⟨⟨4, 4⟩, ⟨4, 7⟩⟩, ⟨⟨4, 7⟩, ⟨4, 7⟩⟩]
def exTree : Tree :=
  .node (.cons .tok (.cons (.node (.cons .tok (.cons (.node (.cons .tok (.cons (.node
    (.cons .tok (.cons .nul .nil))) .nil))) .nil))) .nil))
example : ∃ toks sp k' all, tokenize B exCfg exRe (tokLines ws exInp) = .ok toks ∧
    spanT ((toks.filter fun t => decide (t.span ∈ exKeep)).map Tok.span) exTree 0 = .ok (sp, k', all) ∧
    (∀ n ∈ all, Good ((toks.filter fun t => decide (t.span ∈ exKeep)).map Tok.span) n) ∧
    (∀ n ∈ all, ∃ r, getOrigText B (origLines exInp) n.span.s n.span.e = .ok r) := by
  obtain ⟨toks, h, hsp⟩ := ex_tokens
  have hL : (toks.filter fun t => decide (t.span ∈ exKeep)).map Tok.span = exKeep := by
    have : (toks.filter fun t => decide (t.span ∈ exKeep)).map Tok.span =
        (toks.map Tok.span).filter (fun s => decide (s ∈ exKeep)) := by
      rw [List.filter_map]; rfl
    rw [this, hsp]; decide +kernel
  have hs : ∃ r, spanT exKeep exTree 0 = .ok r ∧ r.2.1 < exKeep.length := by
    refine ⟨_, rfl, ?_⟩
    decide +kernel
  obtain ⟨⟨sp, k', all⟩, hs, hk⟩ := hs
  refine ⟨toks, sp, k', all, h, by rw [hL]; exact hs, ?_, ?_⟩
  · exact (node_span exCfg exRe _ toks h _ exTree 0 sp k' all (by rw [hL]; exact hs) (by rw [hL]; exact hk)).2.2
  · intro n hn
    obtain ⟨_, _, _, _, _, _, hr⟩ := node_orig_text exCfg exRe exInp toks ex_reIn (by simp [exInp]) h _ exTree 0 sp k' all
      (by rw [hL]; exact hs) (by rw [hL]; exact hk) n hn
    exact ⟨_, hr⟩
/-- `lex_error_complete`: the start configuration is reachable and the pattern matches there -/
example : ∃ m, exRe.norm 0 0 = some m := by
  obtain ⟨toks, h, _⟩ := ex_tokens
  exact lex_error_complete exCfg exRe _ toks h 0 0 "a /* x".toList .start (by decide +kernel) (by decide)
/-- `no_out_of_fuel`: a matcher that advances everywhere (every character is a token) -/
example : ReAdv ⟨fun _ c => some ⟨c + 1, 0, c, c + 1⟩, fun _ _ c => some ⟨c + 1, 0, c, c + 1⟩⟩ :=
  ⟨by intro i c m h; cases h; simp, by intro k i c m h; cases h; simp⟩
/-- `parse_error_pos`: `; foo` is rejected by `E → LABEL WORD NUM`, the error names the first token (1,1) -/
example : (match LL.construct exCtor with
    | .ok P => (parseToks exNames ⟨[], [], [], 0⟩ P
        [⟨2, some ";".toList, ⟨1, 1⟩, ⟨1, 2⟩⟩, ⟨4, some "foo".toList, ⟨1, 3⟩, ⟨1, 6⟩⟩, ⟨0, none, ⟨1, 6⟩, ⟨1, 6⟩⟩]
        100).map (·.map PTree.preorder)
    | .error _ => none) = some (.error (.parsing ⟨1, 1⟩)) := by
  decide +kernel
/-- two span kinds (1: `<`…`>`, 2: `[`…`]`) reported under one synonym (9), text `<]>[>]`: each span is closed
by the closer of its own opener — `<]>` and `[>]` — although both tokens are named 9 -/
example : (tokenize B ⟨[1, 2], [(1, 9), (2, 9)], [], 0⟩
    (reOfTable [1, 2] [⟨[some ⟨1, 1, 0, 1⟩, none, none, some ⟨4, 2, 3, 4⟩, none, none],
      [[some ⟨3, 0, 0, 2⟩, some ⟨3, 0, 1, 2⟩, some ⟨3, 0, 2, 2⟩, some ⟨5, 0, 3, 4⟩, some ⟨5, 0, 4, 4⟩, none],
       [some ⟨2, 0, 0, 1⟩, some ⟨2, 0, 1, 1⟩, some ⟨6, 0, 2, 5⟩, some ⟨6, 0, 3, 5⟩, some ⟨6, 0, 4, 5⟩,
        some ⟨6, 0, 5, 5⟩]]⟩])
    ["<]>[>]".toList]).map (List.map fun t => (t.name, t.span)) =
    .ok [(9, ⟨⟨1, 1⟩, ⟨1, 4⟩⟩), (9, ⟨⟨1, 4⟩, ⟨1, 7⟩⟩), (0, ⟨⟨1, 7⟩, ⟨1, 7⟩⟩)] := by
  decide +kernel
/-- a pattern with a context assertion (`^x`: `x` only in the first column): `re` matches `x` at column 0 and
not at column 2 of `x x`, the same character is a token at (1,1) and a LexicalError at line 1, column 2 -/
example : tokenize B ⟨[], [], [], 0⟩
    (reOfTable [] [⟨[some ⟨1, 1, 0, 1⟩, some ⟨2, 2, 1, 2⟩, none], []⟩]) ["x x".toList] =
    .error (.lexical ⟨1, 2⟩) := by
  decide +kernel
/-- `unmatched_char_raises` / `parse_lexical_first`: in `x ?` (every `x` and blank is a token, `?` matches
nothing) the `?` at column 2 is reached by the scan; whatever the grammar, `parse` raises the LexicalError -/
def exAdv : Re := ⟨fun _ c => if c = 2 then none else some ⟨c + 1, 1, c, c + 1⟩, fun _ _ _ => none⟩
example (names : List (List Char)) (P : LL.Parser) (fuel : Nat) :
    parseText B names ⟨[], [], [], 0⟩ exAdv P ["x ?".toList] fuel = .lex ⟨1, 2⟩ := by
  have hadv : ReAdv exAdv := by
    constructor
    · intro i c m h; simp only [exAdv] at h; split at h <;> cases h; simp
    · intro k i c m h; cases h
  have r0 : Reach ⟨[], [], [], 0⟩ exAdv ["x ?".toList] 0 0 none := .start
  have r1 := Reach.token (m := ⟨1, 1, 0, 1⟩) r0 (line := "x ?".toList) (by simp) (by decide) (by simp [exAdv])
    (by simp) (by simp)
  have r2 := Reach.token (m := ⟨2, 1, 1, 2⟩) r1 (line := "x ?".toList) (by simp) (by decide) (by simp [exAdv])
    (by simp) (by simp)
  exact parse_lexical_first _ _ hadv _ 0 2 "x ?".toList r2 (by simp) (by decide) (by simp [exAdv]) names P fuel
example : ReAdv ⟨fun _ _ => none, fun _ _ _ => none⟩ := ⟨by simp, by simp⟩
/-- a lexical error: `?` on line 2, column 3 (0-based) -/
example : tokenize B ⟨[], [], [], 0⟩
    (reOfTable [] [⟨[some ⟨2, 1, 0, 2⟩, some ⟨2, 1, 1, 2⟩], []⟩,
                   ⟨[some ⟨1, 2, 0, 1⟩, some ⟨2, 1, 1, 2⟩, some ⟨3, 2, 2, 3⟩, none, some ⟨5, 1, 4, 5⟩], []⟩])
    ["ab".toList, " c ?d".toList] = .error (.lexical ⟨2, 3⟩) := by decide +kernel

/-- `lex_error_line` / `lex_error_first` on that input: the first disjunct, with line 2 (1-based), column 3 -/
example : ∃ i c line, Reach ⟨[], [], [], 0⟩
      (reOfTable [] [⟨[some ⟨2, 1, 0, 2⟩, some ⟨2, 1, 1, 2⟩], []⟩,
                     ⟨[some ⟨1, 2, 0, 1⟩, some ⟨2, 1, 1, 2⟩, some ⟨3, 2, 2, 3⟩, none, some ⟨5, 1, 4, 5⟩], []⟩])
      ["ab".toList, " c ?d".toList] i c none ∧
    ["ab".toList, " c ?d".toList][i]? = some line ∧ (⟨2, 3⟩ : Pos) = ⟨1 + i, c⟩ := by
  rcases lex_error_first _ _ _ ⟨2, 3⟩ (by decide +kernel : tokenize B ⟨[], [], [], 0⟩
      (reOfTable [] [⟨[some ⟨2, 1, 0, 2⟩, some ⟨2, 1, 1, 2⟩], []⟩,
                     ⟨[some ⟨1, 2, 0, 1⟩, some ⟨2, 1, 1, 2⟩, some ⟨3, 2, 2, 3⟩, none, some ⟨5, 1, 4, 5⟩], []⟩])
      ["ab".toList, " c ?d".toList] = .error (.lexical ⟨2, 3⟩)) with ⟨i, c, line, h1, h2, _, _, h5⟩ | ⟨k, hk⟩
  · exact ⟨i, c, line, h1, h2, h5⟩
  · exfalso
    -- no span opener exists in this configuration: the scan is never inside a span
    have : ∀ i c s, Reach ⟨[], [], [], 0⟩
        (reOfTable [] [⟨[some ⟨2, 1, 0, 2⟩, some ⟨2, 1, 1, 2⟩], []⟩,
                       ⟨[some ⟨1, 2, 0, 1⟩, some ⟨2, 1, 1, 2⟩, some ⟨3, 2, 2, 3⟩, none, some ⟨5, 1, 4, 5⟩], []⟩])
        ["ab".toList, " c ?d".toList] i c s → s = none := by
      intro i c s h
      induction h with
      | start => rfl
      | token => rfl
      | opener _ _ _ _ _ hk => simp at hk
      | close => rfl
      | miss _ _ _ _ ih => cases ih
      | eol _ _ _ ih => exact ih
    cases this _ _ _ hk

end C04
