import AkVerif.Gen.C16
import AkVerif.Lemmas.Interleave
import AkVerif.Lemmas.InterleaveFmt
import AkVerif.Lemmas.InterleaveLive
import AkVerif.Lemmas.InterleaveWorld
import AkVerif.Lemmas.InterleaveAdapters
/-!
# C16 — request ids are unique per connection under concurrent use

Property theorems only.  `Gen.C16.reqIdProgram` is the instruction list extracted from the bytecode
of `_HttpConnImpl._generate_request_id` on every run; `program_ok`, `format_ok` and `header_test_ok`
are the obligations a change of the source re-opens.  Everything else is proved for **every**
program of the `WellLocked` shape, every number of threads and every schedule (no enumeration).

Trusted, not proved: CPython switches threads only between bytecodes; `threading.Lock`.
-/
namespace C16
open Interleave Ak

/-- the generated program has the shape `nop* acq (nop|rd)* wr(+1) nop* rel nop* ret`, written and
returned registers both read from the counter inside the section -/
theorem program_ok : WellLocked Gen.C16.reqIdProgram := wellLocked_of_check (by decide)

/-- **all schedules**: whatever the interleaving (any list of thread ids, any number of threads,
any number of calls per thread, a blocked `acquire` being a wasted step), the numbers returned so
far are pairwise distinct — within one thread and between threads — for every well-locked program. -/
theorem locked_unique (p : List Instr) (hp : WellLocked p) (c0 : Nat) (rem : Nat → Nat)
    (sched : List Nat) :
    let s := runSched p (initSt c0 rem) sched
    (∀ i, (s.th i).handed.Nodup) ∧
    (∀ i j, i ≠ j → ∀ v, v ∈ (s.th i).handed → v ∉ (s.th j).handed) := by
  obtain ⟨x, hx⟩ := hp
  intro s
  have I : Inv p x c0 rem s := inv_run hx (inv_init p x c0 rem hx) sched
  constructor
  · intro i
    have h1 : (taken x (s.th i)).Nodup :=
      List.Nodup.sublist (I.sub i) (List.nodup_range' 1)
    unfold taken at h1
    have h2 := (List.nodup_append.mp h1).1
    exact (List.pairwise_reverse.mp h2).imp (fun h => Ne.symm h)
  · intro i j hij v hi hj
    exact I.taken_disjoint i j v hij
      (by unfold taken; simp [hi]) (by unfold taken; simp [hj])

/-- **no gaps, no foreign numbers, one owner** at any moment of any schedule.  `x` names the positions
of the shape (`x.W` the counter write, `x.r` the returned register).  A thread *has* the number `v` when
`v` was returned to it, or when it is past the write of its current call and its return register holds
`v`.  Then: every returned number lies in `[c0, counter)`; and every number of `[c0, counter)` is had by
**exactly one** thread.  (At a quiescent moment: the returned numbers are exactly `c0 … counter-1`,
each returned once.) -/
theorem locked_gap_free (p : List Instr) (hp : WellLocked p) (c0 : Nat) (rem : Nat → Nat)
    (sched : List Nat) :
    let s := runSched p (initSt c0 rem) sched
    ∃ x, Shape p x ∧
    (∀ i v, v ∈ (s.th i).handed → c0 ≤ v ∧ v < s.ctr) ∧
    (∀ v, c0 ≤ v → v < s.ctr →
      ∃ i, (v ∈ (s.th i).handed ∨ (x.W < (s.th i).pc ∧ (s.th i).locals x.r = v)) ∧
        ∀ j, (v ∈ (s.th j).handed ∨ (x.W < (s.th j).pc ∧ (s.th j).locals x.r = v)) → j = i) := by
  obtain ⟨x, hx⟩ := hp
  intro s
  have I : Inv p x c0 rem s := inv_run hx (inv_init p x c0 rem hx) sched
  have hmem : ∀ j v, (v ∈ (s.th j).handed ∨ (x.W < (s.th j).pc ∧ (s.th j).locals x.r = v)) ↔
      v ∈ taken x (s.th j) := by
    intro j v
    unfold taken pend
    by_cases hw : x.W < (s.th j).pc
    · simp [hw]; constructor
      · rintro (h | h)
        · exact Or.inl h
        · exact Or.inr h.symm
      · rintro (h | h)
        · exact Or.inl h
        · exact Or.inr h.symm
    · simp [hw]
  refine ⟨x, hx, ?_, ?_⟩
  · intro i v hv
    exact I.taken_bounds i v (by unfold taken; simp [hv])
  · intro v h1 h2
    obtain ⟨i, hi⟩ := I.gap_free v h1 h2
    refine ⟨i, (hmem i v).mpr hi, ?_⟩
    intro j hj
    apply Classical.byContradiction
    intro hne
    exact I.taken_disjoint j i v hne ((hmem j v).mp hj) hi

/-- each thread receives increasing numbers (newest first in `handed`) -/
theorem locked_in_order (p : List Instr) (hp : WellLocked p) (c0 : Nat) (rem : Nat → Nat)
    (sched : List Nat) (i : Nat) :
    ((runSched p (initSt c0 rem) sched).th i).handed.reverse.Pairwise (· < ·) := by
  obtain ⟨x, hx⟩ := hp
  have I := inv_run hx (inv_init p x c0 rem hx) sched
  have := I.taken_increasing i
  unfold taken at this
  exact (List.pairwise_append.mp this).1

/-- **what the driver executes for a `par` line**, end to end: `reqs[t]` calls by thread `t`, any
run-length encoded schedule, then the drain.  If all threads finish, thread `t` got exactly
`reqs[t]` numbers in increasing order, no number went to two threads, the numbers handed out are
exactly `c … c'-1`, and the counter advanced by the number of calls. -/
theorem par_ids (p : List Instr) (hp : WellLocked p) (c : Nat) (reqs : List Nat)
    (sched : List (Nat × Nat)) (nums : List (List Nat)) (c' : Nat)
    (h : runPar p c reqs sched = .ok (nums, c')) :
    nums.length = reqs.length ∧
    (∀ (t n : Nat), reqs[t]? = some n → ∃ l : List Nat, nums[t]? = some l ∧ l.length = n ∧ l.Pairwise (· < ·)) ∧
    (∀ (t u : Nat) (a b : List Nat), t ≠ u → nums[t]? = some a → nums[u]? = some b → ∀ v, v ∈ a → v ∉ b) ∧
    (∀ v : Nat, (∃ l, l ∈ nums ∧ v ∈ l) ↔ (c ≤ v ∧ v < c')) ∧
    c' = c + reqs.sum := by
  obtain ⟨x, hx⟩ := hp
  unfold runPar at h
  simp only [runRle_eq_runSched] at h
  generalize hrem : reqOf reqs = rem at h
  generalize hsch : expand (sched ++ drainSched reqs.length) = sch at h
  have I : Inv p x c rem (runSched p (initSt c rem) sch) := inv_run hx (inv_init p x c rem hx) sch
  generalize runSched p (initSt c rem) sch = s at h I
  split at h
  case isFalse => cases h
  rename_i hall
  simp only [Except.ok.injEq, Prod.mk.injEq] at h
  obtain ⟨hn, hc⟩ := h
  subst hc
  have hremlt : ∀ t, rem t ≠ 0 → t < reqs.length := by
    intro t ht; rw [← hrem] at ht; exact reqOf_lt ht
  have hrem0 : ∀ t, (s.th t).remaining = 0 := by
    intro t
    by_cases ht : t < reqs.length
    · have := List.all_eq_true.mp hall t (List.mem_range.mpr ht)
      simpa using this
    · have h0 : rem t = 0 := by
        apply Classical.byContradiction
        intro hne; exact ht (hremlt t hne)
      have := I.cnt t; omega
  have htaken : ∀ t, taken x (s.th t) = (s.th t).handed.reverse := by
    intro t; unfold taken; rw [pend_nil_of_pc0 _ (I.fin t (hrem0 t))]; simp
  have hnum : ∀ t, t < reqs.length → nums[t]? = some (s.th t).handed.reverse := by
    intro t ht; rw [← hn]; simp [ht]
  refine ⟨by rw [← hn]; simp, ?_, ?_, ?_, ?_⟩
  · intro t n htn
    have ht : t < reqs.length := by
      apply Classical.byContradiction
      intro hge
      rw [List.getElem?_eq_none (by omega)] at htn; cases htn
    refine ⟨_, hnum t ht, ?_, ?_⟩
    · have := I.cnt t
      rw [hrem0 t, ← hrem, reqOf_some htn] at this
      simpa using this
    · rw [← htaken]; exact I.taken_increasing t
  · intro t u a b htu ha hb v hva hvb
    have ht : t < reqs.length := by
      apply Classical.byContradiction
      intro hge
      rw [← hn, List.getElem?_eq_none (by simp; omega)] at ha; cases ha
    have hu : u < reqs.length := by
      apply Classical.byContradiction
      intro hge
      rw [← hn, List.getElem?_eq_none (by simp; omega)] at hb; cases hb
    rw [hnum t ht] at ha; rw [hnum u hu] at hb
    cases ha; cases hb
    rw [← htaken] at hva hvb
    exact I.taken_disjoint t u v htu hva hvb
  · intro v
    constructor
    · rintro ⟨l, hl, hv⟩
      rw [← hn] at hl
      obtain ⟨t, _, rfl⟩ := List.mem_map.mp hl
      rw [← htaken] at hv
      exact I.taken_bounds t v hv
    · rintro ⟨h1, h2⟩
      obtain ⟨i, hi⟩ := I.gap_free v h1 h2
      have hact := I.owner_active (i, v) ((I.mem_taken_iff i v).mp hi)
      have hi' := hremlt i hact
      refine ⟨(s.th i).handed.reverse, ?_, by rw [← htaken]; exact hi⟩
      rw [← hn]
      exact List.mem_map.mpr ⟨i, List.mem_range.mpr hi', rfl⟩
  · have hlen : s.log.length = s.ctr - c := by
      have := congrArg List.length I.logv
      simpa using this
    have hown : ∀ e ∈ s.log, e.1 < reqs.length := fun e he => hremlt e.1 (I.owner_active e he)
    have hsum := sum_owner_counts_all s.log reqs.length hown
    have hmap : (List.range reqs.length).map (fun t => (s.log.filter (fun e => e.1 == t)).length)
        = reqs := by
      conv => rhs; rw [← map_reqOf_range reqs]
      apply List.map_congr_left
      intro t ht
      have h1 := congrArg List.length (I.own t)
      rw [pend_nil_of_pc0 _ (I.fin t (hrem0 t))] at h1
      simp only [List.length_map, List.append_nil, List.length_reverse] at h1
      have h2 := I.cnt t
      rw [hrem0 t, ← hrem] at h2
      rw [h1]; simpa using h2
    rw [hmap] at hsum
    have := I.c0le
    omega

/-- **no deadlock**: for every well-locked program and every schedule the drain finishes every
thread, so `runPar` always returns numbers — the hypothesis of `par_ids` holds for every schedule.
(`drainRun` steps per turn must cover a thread's calls: `reqs[t] * length ≤ 1000000`.) -/
theorem par_total (p : List Instr) (hp : WellLocked p) (c : Nat) (reqs : List Nat)
    (sched : List (Nat × Nat)) (hfuel : ∀ t, reqOf reqs t * p.length ≤ drainRun) :
    ∃ nums c', runPar p c reqs sched = .ok (nums, c') := by
  obtain ⟨x, hx⟩ := hp
  unfold runPar
  simp only [runRle_append]
  have I : Inv p x c (reqOf reqs) (runRle p (initSt c (reqOf reqs)) sched) := by
    rw [runRle_eq_runSched]; exact inv_run hx (inv_init p x c _ hx) _
  generalize runRle p (initSt c (reqOf reqs)) sched = s at I
  have hlen : x.E + 1 = p.length := hx.2.2.2.1
  have R : Ready p x c (reqOf reqs) drainRun s := by
    refine ⟨I, fun t => ?_⟩
    have h1 := I.cnt t
    have h2 : (s.th t).remaining ≤ reqOf reqs t := by omega
    have h3 := Nat.mul_le_mul_right (x.E + 1) h2
    have h4 := hfuel t
    rw [← hlen] at h4
    unfold work; omega
  by_cases hk : reqs.length = 0
  · simp [hk]
  · have hold : ∀ u, s.lock = some u → u < reqs.length := by
      intro u hu
      have hsec := (I.lock u).mp hu
      apply reqOf_lt
      intro h0
      have h1 := I.cnt u
      have h2 : (s.th u).remaining = 0 := by omega
      have := I.fin u h2
      unfold inSec at hsec; omega
    have hfin := drain_finishes hx drainRun reqs.length (Nat.pos_of_ne_zero hk) s R hold
    have hall : (List.range reqs.length).all
        (fun t => ((runRle p s (drainSched reqs.length)).th t).remaining == 0) = true := by
      apply List.all_eq_true.mpr
      intro t ht
      have := hfin t (List.mem_range.mp ht)
      unfold drainSched
      simp [this]
    rw [if_pos hall]
    exact ⟨_, _, rfl⟩

/-- one call by a thread that is alone takes the current number and advances the counter by one
(total: it cannot fail) -/
theorem genSeq_ok (p : List Instr) (hp : WellLocked p) (hlen : p.length ≤ drainRun) (c : Nat) :
    genSeq p c = .ok (c, c + 1) := by
  have hfuel : ∀ t, reqOf [1] t * p.length ≤ drainRun := by
    intro t
    cases t with
    | zero => simp [reqOf]; exact hlen
    | succ t => simp [reqOf]
  obtain ⟨nums, c', h⟩ := par_total p hp c [1] [] hfuel
  obtain ⟨h1, h2, _, h4, h5⟩ := par_ids p hp c [1] [] nums c' h
  obtain ⟨l, hl0, hl1, _⟩ := h2 0 1 rfl
  have hc' : c' = c + 1 := by simpa using h5
  subst hc'
  have hnums : nums = [l] := by
    cases nums with
    | nil => simp at h1
    | cons a rest =>
      cases rest with
      | nil => simp at hl0; rw [hl0]
      | cons b rest => simp at h1
  subst hnums
  cases l with
  | nil => simp at hl1
  | cons v rest =>
    cases rest with
    | cons w rest => simp at hl1
    | nil =>
      have hv := (h4 v).mp ⟨[v], by simp, by simp⟩
      have : v = c := by omega
      subst this
      unfold genSeq
      rw [h]

/-- the generated format ends with the whole zero-padded number and everything in front of it has a
fixed length -/
theorem format_ok : formatOk Gen.C16.idFormat = true := by decide

/-- two different numbers never give the same id text on one connection (same connection part) -/
theorem format_injective (cp : List Char) (n m : Nat)
    (h : render cp Gen.C16.idFormat n = render cp Gen.C16.idFormat m) : n = m :=
  render_injective cp _ format_ok n m h

/-- the test `do_request` applies to header names is "equal to x-request-id after lowering" -/
theorem header_test_ok : Gen.C16.hdrTest = .lowerEq "x-request-id".toList := by decide

/-- **caller-supplied id** (the id branch of `do_request`): whatever the capitalisation of the header
name, a dict that brings its own id leaves the world (all counters) as it was, runs no instruction of
the id program and is itself unchanged — in particular the value that is sent. -/
theorem caller_id (w : World) (c i : Nat) (cn : Conn) (im : Impl) (hs : Headers) (name v : List Char)
    (hc : w.conns[c]? = some cn) (hci : cn.impl = i)
    (hmem : (name, v) ∈ hs) (hname : name.map lowerAscii = "x-request-id".toList) :
    w.idBranch Gen.C16.cfg i im hs = .ok (w, hs) ∧
    needsId Gen.C16.cfg w i (c, hs) = some false := by
  have hany : hs.any (fun kv => Gen.C16.cfg.test.holds kv.1) = true := by
    apply List.any_eq_true.mpr
    refine ⟨(name, v), hmem, ?_⟩
    show Gen.C16.hdrTest.holds name = true
    rw [header_test_ok]
    simp [HdrTest.holds, hname]
  constructor
  · unfold World.idBranch
    cases im.ctr with
    | none => rfl
    | some n => simp [hany]
  · unfold needsId
    simp [hc, hci, hany]

/-- the source builds a new `_HttpConnImpl` for every connection made from an address (no pooling per
server, whatever the scheme or spelling of the address) — re-decided when the source changes -/
theorem new_allocates_ok : Gen.C16.newAllocates = true := by decide

/-- **independent connections count on their own**: a connection made from an address gets an
implementation object of its own with the counter at 0 (ids enabled) — whatever address the other
connections were made from; every connection and implementation object that existed stays as it was
and no existing connection refers to the new object.  (`w.WF`: every connection refers to an existing
implementation object — true of every reachable world, `reachable_wf`.) -/
theorem new_fresh_counter (w : World) (cp : List Char) (ids : Bool)
    (hwf : w.WF) :
    let r := w.newImpl cp ids
    r.1.conns[r.2]? = some { impl := w.impls.length, adapters := [] } ∧
    r.1.impls[w.impls.length]? = some { ctr := if ids then some 0 else none, cp := cp } ∧
    (∀ (c : Nat) (cn : Conn), w.conns[c]? = some cn → r.1.conns[c]? = some cn ∧ cn.impl ≠ w.impls.length) ∧
    (∀ (i : Nat) (im : Impl), w.impls[i]? = some im → r.1.impls[i]? = some im) ∧ r.1.dicts = w.dicts := by
  intro r
  refine ⟨by simp [r, World.newImpl], by simp [r, World.newImpl], ?_, ?_, rfl⟩
  · intro c cn hc
    have hlt : c < w.conns.length := by
      apply Classical.byContradiction
      intro hge
      rw [List.getElem?_eq_none (by omega)] at hc; cases hc
    have := hwf c cn hc
    exact ⟨by simp [r, World.newImpl, List.getElem?_append_left hlt, hc], by omega⟩
  · intro i im hi
    have hlt : i < w.impls.length := by
      apply Classical.byContradiction
      intro hge
      rw [List.getElem?_eq_none (by omega)] at hi; cases hi
    simp [r, World.newImpl, List.getElem?_append_left hlt, hi]

/-- **every world a caller can reach is well formed**: after any history of operations from the empty world
(new connections, derived connections, `add_adapter()`, dicts, requests, concurrent batches) every
connection refers to an implementation object that exists — the hypothesis of `new_fresh_counter`. -/
theorem reachable_wf (ops : List Op) : (runOps Gen.C16.cfg (World.empty, []) ops).1.WF :=
  wf_runOps Gen.C16.cfg ops _ wf_empty

/-- `new_fresh_counter` **for reachable worlds**, without a hypothesis: whatever happened before, a
connection made from an address counts from 0 on an implementation object of its own, which no existing
connection refers to, and everything that existed is what it was. -/
theorem new_fresh_counter_reachable (ops : List Op) (cp : List Char) (ids : Bool) :
    let w := (runOps Gen.C16.cfg (World.empty, []) ops).1
    let r := w.newImpl cp ids
    r.1.conns[r.2]? = some { impl := w.impls.length, adapters := [] } ∧
    r.1.impls[w.impls.length]? = some { ctr := if ids then some 0 else none, cp := cp } ∧
    (∀ (c : Nat) (cn : Conn), w.conns[c]? = some cn → r.1.conns[c]? = some cn ∧ cn.impl ≠ w.impls.length) ∧
    (∀ (i : Nat) (im : Impl), w.impls[i]? = some im → r.1.impls[i]? = some im) ∧ r.1.dicts = w.dicts :=
  new_fresh_counter _ cp ids (reachable_wf ops)

/-- every connection class of the source has a constructor that provably passes `conn_data` on to
`_HttpConnBase.__init__`, which takes `parent_conn.conn_impl` (re-decided whenever the source changes) -/
theorem constructors_share : ∀ kc, kc ∈ Gen.C16.wrapKinds → kc.2 = true := by decide

/-- **derived connections, every construction path**: whatever class the derived connection is built
with, it refers to the implementation object of the connection it wraps; no implementation object
(no counter) is created, nothing else changes. -/
theorem derived_shares (w w' : World) (c c' : Nat) (cls : List Char) (ad : Option Adapter)
    (h : w.wrap Gen.C16.cfg c cls ad = .ok (w', c')) :
    ∃ cn cn', w.conns[c]? = some cn ∧ w'.conns[c]? = some cn ∧ w'.conns[c']? = some cn' ∧
      cn'.impl = cn.impl ∧ w'.impls = w.impls ∧ w'.dicts = w.dicts := by
  unfold World.wrap at h
  split at h
  · rename_i cn hcn _
    simp only [Except.ok.injEq, Prod.mk.injEq] at h
    obtain ⟨hw, hc⟩ := h
    subst hw hc
    have hlt : c < w.conns.length := by
      apply Classical.byContradiction
      intro hge
      rw [List.getElem?_eq_none (by omega)] at hcn; cases hcn
    exact ⟨cn, { impl := cn.impl, adapters := ad.toList ++ cn.adapters }, hcn,
      by simp [List.getElem?_append_left hlt, hcn], by simp, rfl, rfl, rfl⟩
  · rename_i cn _ hk
    obtain ⟨k', hk'⟩ := lookup_mem _ _ _ hk
    have := constructors_share _ hk'
    cases this
  · cases h

/-- the generated program is short enough for one drain turn -/
theorem program_fuel : Gen.C16.reqIdProgram.length ≤ drainRun := by decide

/-- **a dict without an id** on a connection whose ids are enabled (the id branch): the implementation
shared by the family advances its counter by exactly one and the dict gets the header
`Gen.C16.hdrName` with the rendering of the old counter value (so, by `format_injective`, successive
requests through any connections of the family carry different ids). -/
theorem request_auto (w : World) (i n : Nat) (im : Impl) (hs : Headers)
    (hn : im.ctr = some n)
    (hno : hs.any (fun kv => Gen.C16.hdrTest.holds kv.1) = false) :
    w.idBranch Gen.C16.cfg i im hs =
      .ok ({ w with impls := setImpl w.impls i { im with ctr := some (n + 1) } },
           setHeader hs Gen.C16.hdrName (render im.cp Gen.C16.idFormat n)) := by
  unfold World.idBranch
  simp only [hn]
  have : hs.any (fun kv => Gen.C16.cfg.test.holds kv.1) = false := hno
  simp only [this]
  have hg : genSeq Gen.C16.cfg.prog n = .ok (n, n + 1) := genSeq_ok _ program_ok program_fuel n
  simp [hg]
  rfl

/-- every header name that `urllib` files under the key of the id header passes the generated test
(so a generated id never competes with a header the test let through) -/
theorem test_covers : TestCovers Gen.C16.cfg := by
  intro k hk
  have h1 := lower_of_capitalize_eq k Gen.C16.hdrName hk
  have h2 : Gen.C16.hdrName.map lowerAscii = "x-request-id".toList := by decide
  show Gen.C16.hdrTest.holds k = true
  rw [header_test_ok]
  simp [HdrTest.holds, h1, h2]

/-- nothing a request can reach, except `_generate_request_id`, assigns the counter, the lock or the
connection part (no reset in an error handler: a request that fails after its id was assigned leaves
the counter advanced, as `World.request`, which has no "undo", says) -/
theorem no_other_writer : Gen.C16.otherWriters = [] := by decide

/-- `RequestArguments` works on its own copy of the caller's headers (re-decided when the source changes) -/
theorem hdr_init_ok : Gen.C16.hdrInit = .copy := by decide

/-- **the whole of `do_request` as far as headers go**: a successful request is: read the caller's
dict, let the adapters of the chain process it, run the id branch on the result, add the content type
(which does not change the id that is sent) — and **the caller's dict objects are exactly what they
were** (the request never writes to a caller's object, so nothing is left over for the next request
that is made with the same dict). -/
theorem request_spec (w w' : World) (c : Nat) (cn : Conn) (im : Impl) (src : HdrSrc) (hasData : Bool)
    (hs' : Headers) (hc : w.conns[c]? = some cn) (hi : w.impls[cn.impl]? = some im)
    (h : w.request Gen.C16.cfg c src hasData = .ok (w', hs')) :
    ∃ hs0 hs1 hs2, src.read w = some hs0 ∧ applyAdapters cn.adapters hs0 = some hs1 ∧
      w.idBranch Gen.C16.cfg cn.impl im hs1 = .ok (w', hs2) ∧
      sentId Gen.C16.hdrName hs' = sentId Gen.C16.hdrName hs2 ∧
      w'.dicts = w.dicts := by
  unfold World.request at h
  simp only [hc, hi] at h
  split at h
  · cases h
  rename_i hs0 hread
  split at h
  · cases h
  rename_i hs1 hauth
  split at h
  · cases h
  rename_i w1 hs2 hid
  simp only [Except.ok.injEq, Prod.mk.injEq] at h
  obtain ⟨hw, hh⟩ := h
  have hwb : writeBack Gen.C16.cfg w1 src hs0 (addContentType hasData hs2) = w1 := by
    unfold writeBack
    have : Gen.C16.cfg.init = .copy := hdr_init_ok
    rw [this]
  rw [hwb] at hw
  subst hw hh
  have hd : w1.dicts = w.dicts := by
    unfold World.idBranch at hid
    split at hid
    · cases hid; rfl
    · split at hid
      · cases hid; rfl
      · split at hid
        · cases hid
        · cases hid; rfl
  exact ⟨hs0, hs1, hs2, hread, hauth, hid,
    addContentType_sent Gen.C16.hdrName (by decide) hasData hs2, hd⟩

/-- a chain of authenticating adapters neither supplies nor hides an id -/
theorem auth_chain_keeps (auths : List (List Char)) (hs0 hs1 : Headers)
    (h : applyAdapters (auths.map Adapter.auth) hs0 = some hs1) :
    hs1.any (fun kv => Gen.C16.hdrTest.holds kv.1) = hs0.any (fun kv => Gen.C16.hdrTest.holds kv.1) ∧
    sentId Gen.C16.hdrName hs1 = sentId Gen.C16.hdrName hs0 := by
  rw [applyAdapters_auth] at h
  exact applyAuths_keeps (fun n => Gen.C16.hdrTest.holds n) Gen.C16.hdrName (by decide) (by decide)
    auths hs0 hs1 h

/-- **an id is present when the adapters are done** (the caller's own header or one an adapter of the
caller's put there — the test runs after the adapters): no counter moves and that id is what is sent. -/
theorem request_supplied_id (w w' : World) (c : Nat) (cn : Conn) (im : Impl) (src : HdrSrc) (hasData : Bool)
    (hs0 hs1 hs' : Headers)
    (hc : w.conns[c]? = some cn) (hi : w.impls[cn.impl]? = some im) (hread : src.read w = some hs0)
    (had : applyAdapters cn.adapters hs0 = some hs1)
    (hany : hs1.any (fun kv => Gen.C16.hdrTest.holds kv.1) = true)
    (h : w.request Gen.C16.cfg c src hasData = .ok (w', hs')) :
    w' = w ∧ sentId Gen.C16.hdrName hs' = sentId Gen.C16.hdrName hs1 := by
  obtain ⟨a0, a1, a2, r0, r1, rid, rs2, _⟩ := request_spec w w' c cn im src hasData hs' hc hi h
  rw [hread] at r0; cases r0
  rw [had] at r1; cases r1
  unfold World.idBranch at rid
  have hany1 : hs1.any (fun kv => Gen.C16.cfg.test.holds kv.1) = true := hany
  cases hctr : im.ctr with
  | none => simp [hctr] at rid; obtain ⟨e1, e2⟩ := rid; subst e1 e2; exact ⟨rfl, rs2⟩
  | some n => simp [hctr, hany1] at rid; obtain ⟨e1, e2⟩ := rid; subst e1 e2; exact ⟨rfl, rs2⟩

/-- **sequential request, end to end, caller brought an id** (any capitalisation, in a dict built for
the call or in a dict the caller keeps; connection with authenticating adapters only): no counter
moves, no caller object changes, and the value sent is the caller's. -/
theorem request_caller_id (w w' : World) (c : Nat) (cn : Conn) (im : Impl) (src : HdrSrc) (hasData : Bool)
    (hs0 hs' : Headers) (name v : List Char) (auths : List (List Char))
    (hc : w.conns[c]? = some cn) (hch : cn.adapters = auths.map Adapter.auth)
    (hi : w.impls[cn.impl]? = some im) (hread : src.read w = some hs0)
    (hmem : (name, v) ∈ hs0) (hname : name.map lowerAscii = "x-request-id".toList)
    (h : w.request Gen.C16.cfg c src hasData = .ok (w', hs')) :
    w' = w ∧ sentId Gen.C16.hdrName hs' = sentId Gen.C16.hdrName hs0 := by
  obtain ⟨a0, a1, a2, r0, r1, _, _, _⟩ := request_spec w w' c cn im src hasData hs' hc hi h
  rw [hread] at r0; cases r0
  have hk := auth_chain_keeps auths hs0 a1 (by rw [← hch]; exact r1)
  have hany0 : hs0.any (fun kv => Gen.C16.hdrTest.holds kv.1) = true := by
    apply List.any_eq_true.mpr
    refine ⟨(name, v), hmem, ?_⟩
    show Gen.C16.hdrTest.holds name = true
    rw [header_test_ok]; simp [HdrTest.holds, hname]
  rw [← hk.1] at hany0
  obtain ⟨e1, e2⟩ := request_supplied_id w w' c cn im src hasData hs0 a1 hs' hc hi hread r1 hany0 h
  exact ⟨e1, by rw [e2, hk.2]⟩

/-- **sequential request, end to end, no id from the caller**, ids enabled, connection with
authenticating adapters only: the family's counter goes from `n` to `n + 1`, what is sent under the id
header is the rendering of `n`, every caller dict is what it was. -/
theorem request_auto_sent (w w' : World) (c n : Nat) (cn : Conn) (im : Impl) (src : HdrSrc) (hasData : Bool)
    (hs0 hs' : Headers) (auths : List (List Char))
    (hc : w.conns[c]? = some cn) (hch : cn.adapters = auths.map Adapter.auth)
    (hi : w.impls[cn.impl]? = some im) (hread : src.read w = some hs0)
    (hn : im.ctr = some n) (hno : hs0.any (fun kv => Gen.C16.hdrTest.holds kv.1) = false)
    (h : w.request Gen.C16.cfg c src hasData = .ok (w', hs')) :
    w' = { w with impls := setImpl w.impls cn.impl { im with ctr := some (n + 1) } } ∧
    sentId Gen.C16.hdrName hs' = some (render im.cp Gen.C16.idFormat n) := by
  obtain ⟨a0, a1, a2, r0, r1, rid, rs2, _⟩ := request_spec w w' c cn im src hasData hs' hc hi h
  rw [hread] at r0; cases r0
  have hk := auth_chain_keeps auths hs0 a1 (by rw [← hch]; exact r1)
  rw [← hk.1] at hno
  rw [request_auto w cn.impl n im a1 hn hno] at rid
  simp only [Except.ok.injEq, Prod.mk.injEq] at rid
  obtain ⟨e1, e2⟩ := rid
  refine ⟨e1.symm, ?_⟩
  rw [rs2, ← e2]
  apply sentId_setHeader
  intro kv hkv hcap
  have := test_covers kv.1 hcap
  have hall := List.any_eq_false.mp hno kv hkv
  exact hall this

/-- **the property on what is sent, for every schedule**: concurrent requests of any number of
threads through connections of one family (`threads`: the header dicts as the adapters left them),
any run-length encoded schedule.  The ids sent under the
id header by the requests that brought none (`ids`, thread by thread) are pairwise distinct, each is
the rendering of a number of `[n, n + #ids)`, the family's counter advances by exactly `#ids`
(requests with their own id take nothing) and those requests keep their headers untouched. -/
theorem par_world (w w' : World) (i n : Nat) (im : Impl) (threads : List (List ParReq))
    (sched : List (Nat × Nat)) (out : List (List Headers))
    (hi : w.impls[i]? = some im) (hn : im.ctr = some n)
    (h : w.parCore Gen.C16.cfg i threads sched = .ok (w', out)) :
    let ids := (threads.zip out).flatMap (fun to => sentAuto Gen.C16.cfg to.1 to.2)
    ids.Nodup ∧
    (∀ x, x ∈ ids → ∃ v, n ≤ v ∧ v < n + ids.length ∧ x = some (render im.cp Gen.C16.idFormat v)) ∧
    w' = { w with impls := setImpl w.impls i { im with ctr := some (n + ids.length) } } ∧
    w'.dicts = w.dicts ∧
    out.length = threads.length ∧
    (∀ to, to ∈ threads.zip out → keptOwn Gen.C16.cfg to.1 to.2) := by
  unfold World.parCore at h
  simp only [hi, hn] at h
  split at h
  · cases h
  rename_i need _
  split at h
  · cases h
  rename_i nums c' hrun
  split at h
  · cases h
  rename_i out' hasm
  simp only [Except.ok.injEq, Prod.mk.injEq] at h
  obtain ⟨hw, hout⟩ := h
  subst hout
  obtain ⟨a1, a2, a3⟩ := assembleAll_sent Gen.C16.cfg test_covers im.cp threads nums out' hasm
  obtain ⟨p1, p2, p3, p4, p5⟩ := par_ids Gen.C16.cfg.prog program_ok n _ sched nums c' hrun
  intro ids
  have hids : ids = nums.flatten.map (fun v => some (render im.cp Gen.C16.idFormat v)) := a2
  -- every list of numbers is duplicate free, the lists are disjoint
  have hlt : ∀ l, l ∈ nums → l.Nodup := by
    intro l hl
    obtain ⟨t, ht, htl⟩ := List.mem_iff_getElem.mp hl
    have ht' : t < (need.map fun t => (t.filter id).length).length := by omega
    obtain ⟨l', hl', _, hpw⟩ := p2 t _ (List.getElem?_eq_getElem ht')
    rw [List.getElem?_eq_getElem ht, htl] at hl'
    cases hl'
    exact hpw.imp (fun h => Nat.ne_of_lt h)
  have hnd : nums.flatten.Nodup := nodup_flatten_of nums hlt p3
  have hlen : nums.flatten.length = (need.map fun t => (t.filter id).length).sum := by
    rw [List.length_flatten]
    congr 1
    apply List.ext_getElem?
    intro t
    by_cases ht : t < nums.length
    · have ht' : t < (need.map fun t => (t.filter id).length).length := by omega
      obtain ⟨l', hl', hlen', _⟩ := p2 t _ (List.getElem?_eq_getElem ht')
      rw [List.getElem?_map, hl', List.getElem?_eq_getElem ht']
      simp [hlen']
    · rw [List.getElem?_eq_none (by simp; omega), List.getElem?_eq_none (by omega)]
  have hidlen : ids.length = c' - n := by rw [hids, List.length_map, hlen, p5]; omega
  refine ⟨?_, ?_, ?_, by rw [← hw], a1, a3⟩
  · rw [hids]
    exact nodup_map_of_inj _
      (fun a b hab => format_injective im.cp a b (Option.some.inj hab)) _ hnd
  · intro x hx
    rw [hids] at hx
    obtain ⟨v, hv, rfl⟩ := List.mem_map.mp hx
    obtain ⟨l, hl, hvl⟩ := List.mem_flatten.mp hv
    have := (p4 v).mp ⟨l, hl, hvl⟩
    exact ⟨v, this.1, by omega, rfl⟩
  · rw [← hw]
    have : c' = n + ids.length := by omega
    rw [this]

/-- **link to what the driver calls**: `World.par` is "let the adapters of each request's connection
process its headers, then `parCore`" — so `par_world` speaks about every `par` line. -/
theorem par_link (g : Cfg) (w : World) (i : Nat) (threads : List (List ParReq)) (sched : List (Nat × Nat))
    (r : World × List (List Headers)) :
    w.par g i threads sched = .ok r ↔
      ∃ threads', threads.mapM (fun t => t.mapM (adaptReq w)) = .ok threads' ∧
        w.parCore g i threads' sched = .ok r := by
  unfold World.par
  cases threads.mapM (fun t => t.mapM (adaptReq w)) with
  | error e => simp
  | ok t => simp

/-- **`parCore` is total** on well-formed input: with an existing implementation object, requests whose
connections all belong to it and calls that fit the drain (`hfuel`), it returns a result — in particular
its `assembleAll … = none → AssertionError` branch is unreachable (the numbers `runPar` returns always
match the requests that need one, by `par_ids`), and no schedule makes it fail (`par_total`). -/
theorem parCore_total (w : World) (i : Nat) (im : Impl) (threads : List (List ParReq))
    (need : List (List Bool)) (sched : List (Nat × Nat))
    (hi : w.impls[i]? = some im)
    (hneed : threads.mapM (fun t => t.mapM (needsId Gen.C16.cfg w i)) = some need)
    (hfuel : ∀ t, reqOf (need.map fun t => (t.filter id).length) t * Gen.C16.reqIdProgram.length ≤ drainRun) :
    ∃ r, w.parCore Gen.C16.cfg i threads sched = .ok r := by
  unfold World.parCore
  simp only [hi, hneed]
  cases hn : im.ctr with
  | none => exact ⟨_, rfl⟩
  | some n =>
    simp only []
    obtain ⟨nums, c', hrun⟩ := par_total Gen.C16.cfg.prog program_ok n _ sched hfuel
    obtain ⟨p1, p2, _⟩ := par_ids Gen.C16.cfg.prog program_ok n _ sched nums c' hrun
    rw [hrun]
    simp only []
    obtain ⟨out, hout⟩ := assembleAll_some Gen.C16.cfg w i im.cp threads need nums hneed
      (by simpa using p1)
      (fun t k htk => by
        obtain ⟨l, h1, h2, _⟩ := p2 t k htk
        exact ⟨l, h1, h2⟩)
    rw [hout]
    exact ⟨_, rfl⟩

/-! "A number stays taken after a request that failed once it was sent" is a *modelling decision*, not a
theorem: `World.requestOutcome` is `World.request` plus a flag, it has no step that could give a number
back.  What ties it to the source is the translator's `no_other_writer` (nothing reachable from a request
except `_generate_request_id` assigns the counter) and the tie (requests failing in the opener / while the
answer is processed, followed by further requests, compared id by id). -/

/-- a successful sequential request either leaves the world as it is (ids disabled, or an id was
present after the adapters) or moves the counter of its implementation object from `n` to `n + 1` and
sends the rendering of `n` -/
theorem request_cases (w w' : World) (c : Nat) (cn : Conn) (im : Impl) (src : HdrSrc) (hasData : Bool)
    (hs' : Headers) (hc : w.conns[c]? = some cn) (hi : w.impls[cn.impl]? = some im)
    (h : w.request Gen.C16.cfg c src hasData = .ok (w', hs')) :
    w' = w ∨ ∃ n, im.ctr = some n ∧
      w' = { w with impls := setImpl w.impls cn.impl { im with ctr := some (n + 1) } } ∧
      sentId Gen.C16.hdrName hs' = some (render im.cp Gen.C16.idFormat n) := by
  obtain ⟨hs0, hs1, hs2, _, _, rid, rs2, _⟩ := request_spec w w' c cn im src hasData hs' hc hi h
  cases hctr : im.ctr with
  | none =>
    unfold World.idBranch at rid
    simp [hctr] at rid
    exact Or.inl rid.1.symm
  | some n =>
    cases hany : hs1.any (fun kv => Gen.C16.hdrTest.holds kv.1) with
    | true =>
      unfold World.idBranch at rid
      have : hs1.any (fun kv => Gen.C16.cfg.test.holds kv.1) = true := hany
      simp [hctr, this] at rid
      exact Or.inl rid.1.symm
    | false =>
      rw [request_auto w cn.impl n im hs1 hctr hany] at rid
      simp only [Except.ok.injEq, Prod.mk.injEq] at rid
      obtain ⟨e1, e2⟩ := rid
      refine Or.inr ⟨n, rfl, e1.symm, ?_⟩
      rw [rs2, ← e2]
      apply sentId_setHeader
      intro kv hkv hcap
      have := test_covers kv.1 hcap
      have hall := List.any_eq_false.mp hany kv hkv
      exact hall this

/-- the generated test on a header name is the test "is the id header in some capitalisation" -/
theorem test_is_idName (k : List Char) : Gen.C16.hdrTest.holds k = isIdName k := by
  rw [header_test_ok]; rfl

/-- **`add_adapter()` on an existing connection**: the adapter is appended to the list of that connection
object; every other connection — in particular one derived from it *earlier* — keeps its list; no
implementation object (no counter) and no caller dict changes. -/
theorem add_adapter_spec (w w' : World) (c : Nat) (ad : Option Adapter)
    (h : w.addAdapter c ad = .ok w') :
    ∃ cn, w.conns[c]? = some cn ∧
      w'.conns[c]? = some { cn with adapters := cn.adapters ++ ad.toList } ∧
      (∀ d, d ≠ c → w'.conns[d]? = w.conns[d]?) ∧ w'.conns.length = w.conns.length ∧
      w'.impls = w.impls ∧ w'.dicts = w.dicts := by
  unfold World.addAdapter at h
  split at h
  · cases h
  · rename_i cn hcn
    simp only [Except.ok.injEq] at h
    subst h
    have hlt : c < w.conns.length := by
      apply Classical.byContradiction
      intro hge
      rw [List.getElem?_eq_none (by omega)] at hcn; cases hcn
    refine ⟨cn, hcn, by simp [hlt], ?_, by simp, rfl, rfl⟩
    intro d hd
    simp [Ne.symm hd]

/-- **a connection derived later inherits the whole list** of its parent as it is at that moment (own
adapter first), so an adapter attached to the parent with `add_adapter()` before the derivation is part of
the derived connection's chain -/
theorem derived_inherits_adapters (w w' : World) (c c' : Nat) (cls : List Char) (ad : Option Adapter)
    (h : w.wrap Gen.C16.cfg c cls ad = .ok (w', c')) :
    ∃ cn cn', w.conns[c]? = some cn ∧ w'.conns[c']? = some cn' ∧
      cn'.adapters = ad.toList ++ cn.adapters := by
  unfold World.wrap at h
  split at h
  · rename_i cn hcn _
    simp only [Except.ok.injEq, Prod.mk.injEq] at h
    obtain ⟨hw, hc⟩ := h
    subst hw hc
    exact ⟨cn, { impl := cn.impl, adapters := ad.toList ++ cn.adapters }, hcn, by simp, rfl⟩
  · rename_i cn _ hk
    obtain ⟨k', hk'⟩ := lookup_mem _ _ _ hk
    have := constructors_share _ hk'
    cases this
  · cases h

/-- **what is sent when an id is present after the adapters**: it is one of the ids the caller supplied —
the value of an id header it passed (any capitalisation) or the id of an id-supplying adapter of the
connection's chain — and no counter moves.  (`suppliedIds` is the set the oracle of the tie accepts.) -/
theorem request_supplied_value (w w' : World) (c : Nat) (cn : Conn) (im : Impl) (src : HdrSrc) (hasData : Bool)
    (hs0 hs1 hs' : Headers)
    (hc : w.conns[c]? = some cn) (hi : w.impls[cn.impl]? = some im) (hread : src.read w = some hs0)
    (had : applyAdapters cn.adapters hs0 = some hs1)
    (hany : hs1.any (fun kv => Gen.C16.hdrTest.holds kv.1) = true)
    (h : w.request Gen.C16.cfg c src hasData = .ok (w', hs')) :
    w' = w ∧ ∃ x, sentId Gen.C16.hdrName hs' = some x ∧ x ∈ suppliedIds hs0 cn.adapters := by
  obtain ⟨e1, e2⟩ := request_supplied_id w w' c cn im src hasData hs0 hs1 hs' hc hi hread had hany h
  refine ⟨e1, ?_⟩
  have hfun : (fun kv : List Char × List Char => isIdName kv.1) = (fun kv => Gen.C16.hdrTest.holds kv.1) := by
    funext kv; exact (test_is_idName kv.1).symm
  have hany' : hs1.any (fun kv => isIdName kv.1) = true := by rw [hfun]; exact hany
  obtain ⟨kv, hkv, hid, hsent⟩ := sentId_of_any Gen.C16.hdrName (by decide) hs1 hany'
  exact ⟨kv.2, by rw [e2, hsent], applyAdapters_ids cn.adapters hs0 hs1 had kv hkv hid⟩

/-- **an id-supplying adapter of the caller's, wherever it stands in the chain** — given to the
constructor, inherited from the parent, or attached with `add_adapter()` after the connection was made
(then it is the *last* of the list): every successful request through the connection sends one of the
supplied ids and takes no number (the world, with every counter, is what it was). -/
theorem request_id_adapter (w w' : World) (c : Nat) (cn : Conn) (im : Impl) (src : HdrSrc) (hasData : Bool)
    (hs0 hs' : Headers) (a : Adapter)
    (hc : w.conns[c]? = some cn) (hi : w.impls[cn.impl]? = some im) (hread : src.read w = some hs0)
    (ha : a ∈ cn.adapters) (hv : a.idValue.isSome = true)
    (h : w.request Gen.C16.cfg c src hasData = .ok (w', hs')) :
    w' = w ∧ ∃ x, sentId Gen.C16.hdrName hs' = some x ∧ x ∈ suppliedIds hs0 cn.adapters := by
  obtain ⟨a0, a1, _, r0, r1, _, _, _⟩ := request_spec w w' c cn im src hasData hs' hc hi h
  rw [hread] at r0; cases r0
  have hany' := applyAdapters_has_id cn.adapters hs0 a1 a ha hv r1
  have hfun : (fun kv : List Char × List Char => Gen.C16.hdrTest.holds kv.1) = (fun kv => isIdName kv.1) := by
    funext kv; exact test_is_idName kv.1
  have hany : a1.any (fun kv => Gen.C16.hdrTest.holds kv.1) = true := by rw [hfun]; exact hany'
  exact request_supplied_value w w' c cn im src hasData hs0 a1 hs' hc hi hread r1 hany h

/-- **`add_adapter()` of an id-supplying adapter, then a request** through that connection: the id that is
sent is a supplied one and no number is consumed — although the adapter was attached after the connection
(and its implementation object) existed. -/
theorem added_id_adapter_request (w w1 w' : World) (c : Nat) (a : Adapter) (src : HdrSrc) (hasData : Bool)
    (hs0 hs' : Headers) (hv : a.idValue.isSome = true)
    (hadd : w.addAdapter c (some a) = .ok w1) (hread : src.read w1 = some hs0)
    (h : w1.request Gen.C16.cfg c src hasData = .ok (w', hs')) :
    w' = w1 ∧ ∃ cn, w.conns[c]? = some cn ∧ ∃ x, sentId Gen.C16.hdrName hs' = some x ∧
      x ∈ suppliedIds hs0 (cn.adapters ++ [a]) := by
  obtain ⟨cn, hcn, hcn1, _, _, himp, _⟩ := add_adapter_spec w w1 c (some a) hadd
  cases hi : w1.impls[cn.impl]? with
  | none =>
    unfold World.request at h
    simp [hcn1, hi] at h
  | some im =>
    obtain ⟨e, x, hx, hmem⟩ := request_id_adapter w1 w' c _ im src hasData hs0 hs' a hcn1 hi hread
      (by simp) hv h
    exact ⟨e, cn, hcn, x, hx, hmem⟩

/-- **history level**: whatever the caller does, in whatever order — new connections, derived
connections of any class, adapters attached with `add_adapter()` at any moment, caller dicts, sequential requests (with or without their own id, with or
without a body, answered or failing in the opener or while the answer is processed), batches of concurrent requests under any schedule — every generated id that was sent
is the rendering of a number below the present counter of its implementation object, and **no
implementation object ever sent the same generated id twice** (the log pairs every id with the
implementation object it was generated by; derived connections log under their parent's object). -/
theorem history_ids_distinct (ops : List Op) (w : World) (log : IdLog)
    (H : HistInv Gen.C16.idFormat w.impls log) :
    HistInv Gen.C16.idFormat (runOps Gen.C16.cfg (w, log) ops).1.impls (runOps Gen.C16.cfg (w, log) ops).2 := by
  induction ops generalizing w log with
  | nil => exact H
  | cons op ops ih =>
    show HistInv _ (runOps Gen.C16.cfg (histStep Gen.C16.cfg (w, log) op) ops).1.impls _
    have step : HistInv Gen.C16.idFormat (histStep Gen.C16.cfg (w, log) op).1.impls
        (histStep Gen.C16.cfg (w, log) op).2 := by
      cases op with
      | newImpl cp ids => exact H.append_impl _
      | newDict hs => exact H
      | wrap c cls ad =>
        simp only [histStep]
        split
        · rename_i w' c' hw
          obtain ⟨_, _, _, _, _, _, himp, _⟩ := derived_shares w w' c c' cls ad hw
          rw [himp]; exact H
        · exact H
      | addAdapter c ad =>
        simp only [histStep]
        split
        · rename_i w' hw
          obtain ⟨_, _, _, _, _, himp, _⟩ := add_adapter_spec w w' c ad hw
          show HistInv _ w'.impls log
          rw [himp]; exact H
        · exact H
      | req c src d o =>
        simp only [histStep]
        split
        · rename_i cn w' hs' _ hc hreq0
          have hreq := (requestOutcome_ok hreq0).1
          cases hi : w.impls[cn.impl]? with
          | none =>
            unfold World.request at hreq
            simp [hc, hi] at hreq
          | some im =>
            rcases request_cases w w' c cn im src d hs' hc hi hreq with e | ⟨n, hn, e, hsent⟩
            · subst e; simp; exact H
            · have hlt : cn.impl < w.impls.length := by
                apply Classical.byContradiction
                intro hge
                rw [List.getElem?_eq_none (by omega)] at hi; cases hi
              have him : w.impls[cn.impl] = im := by
                have := hi; rw [List.getElem?_eq_getElem hlt] at this; exact Option.some.inj this
              have hne : ctrOf w'.impls cn.impl ≠ ctrOf w.impls cn.impl := by
                rw [e]; simp [ctrOf, setImpl, hlt, him, hn]
              simp only [hne, if_false]
              have hsent' : sentId Gen.C16.cfg.name hs' = some (render im.cp Gen.C16.idFormat n) := hsent
              rw [hsent', e]
              exact H.advance (fun cp a b => format_injective cp a b) cn.impl n (n + 1) im hi hn (by omega)
                [some (render im.cp Gen.C16.idFormat n)] (by simp)
                (by intro x hx; simp at hx; exact ⟨n, by omega, by omega, hx⟩)
        · exact H
      | batch c threads sched =>
        simp only [histStep]
        split
        · exact H
        · rename_i cn hc
          split
          · exact H
          · rename_i threads' _
            split
            · exact H
            · rename_i w' out hpar
              cases hi : w.impls[cn.impl]? with
              | none =>
                unfold World.parCore at hpar
                simp [hi] at hpar
              | some im =>
                cases hn : im.ctr with
                | none =>
                  have hw : w' = w := by
                    unfold World.parCore at hpar
                    simp only [hi, hn] at hpar
                    split at hpar
                    · cases hpar
                    · cases hpar; rfl
                  have : (ctrOf w.impls cn.impl).isSome = false := by simp [ctrOf, hi, hn]
                  simp only [this]
                  rw [hw]; exact H
                | some n =>
                  have : (ctrOf w.impls cn.impl).isSome = true := by simp [ctrOf, hi, hn]
                  simp only [this, if_true]
                  obtain ⟨p1, p2, p3, _⟩ := par_world w w' cn.impl n im threads' sched out hi hn hpar
                  rw [p3]
                  exact H.advance (fun cp a b => format_injective cp a b) cn.impl n _ im hi hn (by omega) _ p1
                    (fun x hx => p2 x hx)
    exact ih _ _ step

/-- the same, from the empty world: after any history, pairwise distinct -/
theorem history_from_scratch (ops : List Op) :
    (runOps Gen.C16.cfg (World.empty, []) ops).2.Nodup :=
  (history_ids_distinct ops World.empty [] ⟨List.nodup_nil, fun _ _ h => by cases h⟩).1

/-! Non-vacuity: the generated program and format evaluated by the kernel (outcomes that do not
depend on the exact instruction count, so that a harmless rewrite of the source keeps them true). -/
example : genSeq Gen.C16.reqIdProgram 41 = .ok (41, 42) := by decide +kernel
example : runPar Gen.C16.reqIdProgram 7 [2, 1] [(1, 1000000), (0, 1000000)] = .ok ([[8, 9], [7]], 10) := by
  decide +kernel
example : (runPar Gen.C16.reqIdProgram 7 [2, 1] [(0, 1), (1, 1), (0, 2), (1, 1000000)]) ∈
    [.ok ([[7, 8], [9]], 10), .ok ([[7, 9], [8]], 10), .ok ([[8, 9], [7]], 10)] := by decide +kernel
example : render "ab12".toList Gen.C16.idFormat 123456 ≠ render "ab12".toList Gen.C16.idFormat 3456 := by
  decide +kernel
example : HdrTest.holds Gen.C16.hdrTest "X-REQUEST-id".toList = true := by decide +kernel

/-- a small world: one connection with ids, a token-authenticated connection derived from it, a dict the
caller keeps; two requests with that dict through the two connections, then one with the caller's id -/
def demoWorld : Except Err (World × List (Option (List Char))) :=
  let (w0, _) := World.empty.newImpl "ab12".toList true
  match w0.wrap Gen.C16.cfg 0 "TokenAuthConn".toList (some (.auth "Bearer tok".toList)) with
  | .error e => .error e
  | .ok (w1, _) =>
    let (w2, _) := w1.newDict [("Accept".toList, "*/*".toList)]
    match w2.request Gen.C16.cfg 1 (.ref 0) true with
    | .error e => .error e
    | .ok (w3, h1) =>
      match w3.request Gen.C16.cfg 0 (.ref 0) false with
      | .error e => .error e
      | .ok (w4, h2) =>
        match w4.request Gen.C16.cfg 1 (.lit [("x-REQUEST-id".toList, "Zmine".toList)]) false with
        | .error e => .error e
        | .ok (w5, h3) => .ok (w5, [sentId Gen.C16.hdrName h1, sentId Gen.C16.hdrName h2, sentId Gen.C16.hdrName h3])

example : (match demoWorld with
    | .ok (w, sent) => w.dicts == [[("Accept".toList, "*/*".toList)]] &&
        sent == [some (render "ab12".toList Gen.C16.idFormat 0), some (render "ab12".toList Gen.C16.idFormat 1),
                 some "Zmine".toList] && w.impls.map (·.ctr) == [some 2]
    | .error _ => false) = true := by decide +kernel

/-- `add_adapter()` in the middle of a history: request (number 0), an id-propagating adapter is attached
(polite: sets the id only if the request has none), a connection is derived afterwards; the requests
through both send the adapter's id and take no number; a connection derived BEFORE the adapter was attached
does not see it and takes number 1 -/
def demoAdd : Except Err (World × List (Option (List Char))) :=
  let (w0, _) := World.empty.newImpl "ab12".toList true
  match w0.wrap Gen.C16.cfg 0 "HttpConn".toList none with
  | .error e => .error e
  | .ok (w1, _) =>
    match w1.request Gen.C16.cfg 0 (.lit []) false with
    | .error e => .error e
    | .ok (w2, h1) =>
      match w2.addAdapter 0 (some (.politeId "Zin".toList)) with
      | .error e => .error e
      | .ok w3 =>
        match w3.wrap Gen.C16.cfg 0 "BAuthConn".toList (some (.auth "Basic x".toList)) with
        | .error e => .error e
        | .ok (w4, _) =>
          match w4.request Gen.C16.cfg 0 (.lit []) false with
          | .error e => .error e
          | .ok (w5, h2) =>
            match w5.request Gen.C16.cfg 2 (.lit []) true with
            | .error e => .error e
            | .ok (w6, h3) =>
              match w6.request Gen.C16.cfg 1 (.lit []) false with
              | .error e => .error e
              | .ok (w7, h4) => .ok (w7, [h1, h2, h3, h4].map (sentId Gen.C16.hdrName))

example : (match demoAdd with
    | .ok (w, sent) =>
        sent == [some (render "ab12".toList Gen.C16.idFormat 0), some "Zin".toList, some "Zin".toList,
                 some (render "ab12".toList Gen.C16.idFormat 1)] && w.impls.map (·.ctr) == [some 2]
    | .error _ => false) = true := by decide +kernel

end C16
