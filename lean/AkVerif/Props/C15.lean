import AkVerif.Gen.C15
import AkVerif.Lemmas.SqlFilter
import AkVerif.Lemmas.SqlFilterText
/-!
# C15 — SQL filters select exactly the intended rows; values are always bound

Property theorems only, about the model the driver executes (`SqlFilter.prepare`, `semAnd`).
`prepare pct st call = .ok p` means: `SqlMethod(st…).list(conn, *call.args, **call.kwargs)` got as
far as `cursor.execute(p.text, p.params)`; `p.conj` is the WHERE clause as a tiny AST whose text
(`render`, clause tables regenerated from the source into `Gen.C15`) is part of `p.text`.

Modelled, not verified: that SQLite evaluates the text of `p.conj` as `sem` says (3-valued logic,
untyped columns, `LIKE`); that sqlite3 refuses to bind a list/tuple/set. Both are exercised by the
correspondence run against a real in-memory database.
-/
namespace C15
open SqlFilter Ak

/-- Both clause tables spell, for every supported operation, the SQL operator that the
corresponding node of the `Where` AST means (`sem`): the clause starts with a blank, and read
word by word it is the operator followed by the flavour's placeholder where a value is expected
(and nothing else). Re-decided by the kernel whenever the tables are regenerated. -/
theorem clauses_ok (pct : Bool) (o : Op) :
    ∃ cl, clause pct o.key = .ok cl ∧ cl.head? = some ' ' ∧ words cl = o.sqlWords pct := by
  cases pct <;> rcases o with (c | neg | neg | neg)
  all_goals first
    | (cases c <;> exact ⟨_, rfl, by decide⟩)
    | (cases neg <;> exact ⟨_, rfl, by decide⟩)

/-- The fixed pieces of generated text are the SQL they are modelled as: `0` / `1` for the empty
`IN` / `NOT IN` (`Where.const`), `FALSE` for the empty OR group, parenthesised `OR`, `AND`,
`WHERE`, `GROUP BY`, `ORDER BY` set off by blanks, `(`, `,`, `)` around the placeholders of a
list, and the placeholder itself. -/
theorem consts_ok (pct : Bool) :
    clause pct phKey = .ok (phText pct) ∧
    Gen.C15.emptyIn = "0".toList ∧ Gen.C15.emptyNotIn = "1".toList ∧ Gen.C15.emptyOr = "FALSE".toList ∧
    Gen.C15.orOpen = "(".toList ∧ Gen.C15.orClose = ")".toList ∧
    Gen.C15.listOpen = "(".toList ∧ Gen.C15.listClose = ")".toList ∧ words Gen.C15.listSep = [",".toList] ∧
    (Gen.C15.orSep.head? = some ' ' ∧ Gen.C15.orSep.getLast? = some ' ' ∧ words Gen.C15.orSep = ["OR".toList]) ∧
    (Gen.C15.andSep.head? = some ' ' ∧ Gen.C15.andSep.getLast? = some ' ' ∧ words Gen.C15.andSep = ["AND".toList]) ∧
    (Gen.C15.wherePfx.head? = some ' ' ∧ Gen.C15.wherePfx.getLast? = some ' ' ∧
      words Gen.C15.wherePfx = ["WHERE".toList]) ∧
    (Gen.C15.groupPfx.head? = some ' ' ∧ Gen.C15.groupPfx.getLast? = some ' ' ∧
      words Gen.C15.groupPfx = ["GROUP".toList, "BY".toList]) ∧
    (Gen.C15.orderPfx.head? = some ' ' ∧ Gen.C15.orderPfx.getLast? = some ' ' ∧
      words Gen.C15.orderPfx = ["ORDER".toList, "BY".toList]) := by
  cases pct <;> decide

/-- A call never fails in another way than: `ValueError` / `AttributeError` from a condition
constructor, or sqlite3 refusing a parameter. In particular no clause lookup fails (`KeyError`),
whatever the operation, the flavour and the shape of the conditions. -/
theorem only_rejections (pct : Bool) (st : Stmt) (call : Call) (e : Fail)
    (h : prepare pct st call = .error e) :
    e = .py .valueError ∨ e = .py .attributeError ∨ e = .bind := by
  rcases prepare_fail h with (h | h) | h
  · exact Or.inl h
  · exact Or.inr (Or.inl h)
  · exact Or.inr (Or.inr h)

/-- The value of the WHERE clause on a row, with the bound parameters, is the three-valued AND of
what the caller's conditions mean (`intended`: `=`/`!=` with `None` is `IS [NOT] NULL`, with a
list/tuple `[NOT] IN`; `IN` over nothing is false and `NOT IN` over nothing is true; an OR group
is the three-valued OR of its members, keyword members included; `None` arguments do not count;
a keyword argument is an equality) — for every call that reaches `execute`, every row, in
whatever order the keyword arguments were given. -/
theorem selects_eval (pct : Bool) (st : Stmt) (call : Call) (p : Prepared)
    (h : prepare pct st call = .ok p) (row : Row) :
    sem row p.conj p.params =
      andAll (intendeds row (call.args.filterMap id) ++ intendedKw row call.kwargs) :=
  prepare_sem h row

/-- A row is selected (WHERE clause true) iff every condition the caller wrote is true for it. -/
theorem selects (pct : Bool) (st : Stmt) (call : Call) (p : Prepared)
    (h : prepare pct st call = .ok p) (row : Row) :
    sem row p.conj p.params = some .tt ↔
      (∀ c, some c ∈ call.args → intended row c = some .tt) ∧
      (∀ k a, (k, a) ∈ call.kwargs → intended row (.pair k a) = some .tt) := by
  rw [selects_eval pct st call p h row, andAll_eq_tt]
  constructor
  · intro hall
    constructor
    · intro c hc
      apply hall
      rw [List.mem_append, mem_intendeds]
      exact Or.inl ⟨c, by simpa using hc, rfl⟩
    · intro k a hk
      apply hall
      rw [List.mem_append, mem_intendedKw]
      exact Or.inr ⟨(k, a), hk, rfl⟩
  · rintro ⟨h1, h2⟩ x hx
    rw [List.mem_append, mem_intendeds, mem_intendedKw] at hx
    rcases hx with ⟨c, hc, rfl⟩ | ⟨⟨k, a⟩, hk, rfl⟩
    · exact h1 c (by simpa using hc)
    · exact h2 k a hk

/-- The statement text carries exactly one placeholder mark (`?`, or the `%` of `%s`) per bound
value, provided the caller's own texts — SELECT…FROM, the column expressions of the conditions,
GROUP BY, ORDER BY — contain none. (Order: `sem` consumes the parameters in the order of the
marks in the text, so `selects` is also the statement that the k-th mark meets the k-th value.) -/
theorem placeholders (pct : Bool) (st : Stmt) (call : Call) (p : Prepared)
    (h : prepare pct st call = .ok p)
    (hf : ∀ f ∈ call.fields, f.count (marker pct) = 0)
    (hs : st.selectFrom.count (marker pct) = 0)
    (hg : ∀ g, st.groupBy = some g → g.count (marker pct) = 0)
    (ho : ∀ o, st.orderBy = some o → o.count (marker pct) = 0) :
    p.text.count (marker pct) = p.params.length :=
  prepare_count h hf hs hg ho

/-- Forgetting every value of a call (keeping field names, operations, `None`-ness, types and the
lengths of lists) changes neither the outcome nor the AST nor one character of the text: only the
bound values change, position by position. -/
theorem values_only_bound (pct : Bool) (st : Stmt) (call : Call) :
    prepare pct st call.erase =
      (prepare pct st call).map fun p => { p with params := p.params.map Value.erase } :=
  prepare_erase pct st call

/-- Non-interference: two calls that differ only in their values produce the same SQL text (or
fail alike) — a value never becomes part of the text. -/
theorem noninterference (pct : Bool) (st : Stmt) (c1 c2 : Call) (h : c1.erase = c2.erase) :
    (prepare pct st c1).map (·.text) = (prepare pct st c2).map (·.text) := by
  have h1 := values_only_bound pct st c1
  have h2 := values_only_bound pct st c2
  rw [h] at h1
  rw [h1] at h2
  cases hp1 : prepare pct st c1 <;> cases hp2 : prepare pct st c2 <;> simp [hp1, hp2, Except.map] at h2 ⊢
  · exact h2
  · exact h2.2.1

/-- `None` arguments are ignored: the call is prepared exactly as without them. -/
theorem none_ignored (pct : Bool) (st : Stmt) (args : List (Option Cond)) (kw : List (Str × Arg)) :
    prepare pct st { args := none :: args, kwargs := kw } = prepare pct st { args := args, kwargs := kw } ∧
    prepare pct st { args := args ++ [none], kwargs := kw } = prepare pct st { args := args, kwargs := kw } := by
  constructor <;> simp [prepare, filters]

/-! Non-vacuity: a call with an OR group, an empty `IN`, `= None`, a keyword filter and a hostile
value is prepared; its text and parameters are what the real code produces. -/
section examples

private def exCall : Call :=
  { args := [some (.or [.triple "a".toList "=".toList (.scalar (.int 1)),
                        .triple "b".toList "in".toList (.list [])] [("c".toList, .scalar .null)]),
             none,
             some (.triple "b".toList "!=".toList (.list [.text "x'; DROP TABLE t;--".toList, .null]))],
    kwargs := [("c".toList, .scalar (.text "it's".toList))] }

private def exStmt : Stmt := { selectFrom := "SELECT id FROM t".toList, groupBy := none, orderBy := some "id".toList }

example : (prepare false exStmt exCall).map (·.text) =
    .ok "SELECT id FROM t WHERE (a = ? OR 0 OR c IS NULL) AND b NOT IN (?, ?) AND c = ? ORDER BY id".toList := by
  decide +kernel

example : (prepare false exStmt exCall).map (·.params) =
    .ok [.int 1, .text "x'; DROP TABLE t;--".toList, .null, .text "it's".toList] := by
  decide +kernel

example : (prepare true exStmt exCall).map (·.text) =
    .ok "SELECT id FROM t WHERE (a = %s OR 0 OR c IS NULL) AND b NOT IN (%s, %s) AND c = %s ORDER BY id".toList := by
  decide +kernel

example : (prepare false exStmt { args := [some (.triple "a".toList "IN".toList (.scalar (.int 1)))], kwargs := [] }).map
    (·.text) = .error (.py .valueError) := by decide +kernel

private def exRow : Row := fun f =>
  if f = "a".toList then .int 7 else if f = "b".toList then .text "B".toList else .null

/-- row (a=7, b='B', c=NULL): the OR group holds through `c IS NULL`, `b NOT IN (…, NULL)` is
unknown, so the row is not selected although no condition is false -/
example : (prepare false exStmt exCall).map (fun p => sem exRow p.conj p.params) = .ok (some .unk) := by
  decide +kernel

example : (prepare false exStmt { exCall with args := exCall.args.take 2, kwargs := [("a".toList, .list [.int 7])] }).map
    (fun p => sem exRow p.conj p.params) = .ok (some .tt) := by
  decide +kernel

end examples

end C15
