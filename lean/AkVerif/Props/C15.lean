import AkVerif.Gen.C15
import AkVerif.Lemmas.SqlFilter
import AkVerif.Lemmas.SqlFilterText
import AkVerif.Lemmas.SqlFilterSort
import AkVerif.Lemmas.SqlFilterOrder
import AkVerif.Lemmas.SqlFilterBound
/-!
# C15 — SQL filters select exactly the intended rows; values are always bound

Property theorems only, about the model the driver executes (`SqlFilter.prepare`, `semAnd`).
`prepare pct st call = .ok p` means: `SqlMethod(st…).list(conn, *call.args, **call.kwargs)` got as
far as `cursor.execute(p.text, p.params)`; `p.conj` is the WHERE clause as a tiny AST whose text
(`render`, clause tables regenerated from the source into `Gen.C15`) is part of `p.text`.

Modelled, not verified: that SQLite evaluates the text of `p.conj` as `sem` says (3-valued logic,
untyped columns, `LIKE`); that sqlite3 refuses to bind a list/tuple/set; that the driver writes an
adapted object (`Value.obj`) as the image carried with it; the value SQLite computes per row for a
static condition text and for an ORDER BY key expression (supplied with the table). Both are exercised by the
correspondence run against a real in-memory database.
-/
namespace C15
open SqlFilter Ak

/-- Both clause tables spell, for every supported operation, the SQL operator that the
corresponding node of the `Where` AST means (`sem`): the clause starts with a blank, and read
word by word it is the operator followed by the flavour's placeholder where a value is expected
(and nothing else). Re-decided by the kernel whenever the tables are regenerated. -/
theorem clauses_ok (pct : Bool) (o : Op) :
    ∃ cl, clause pct o.key = .ok cl ∧ cl.head? = some ' ' ∧ words cl = o.sqlWords pct := by
  cases pct <;> rcases o with (c | neg | neg | neg)
  all_goals first
    | (cases c <;> exact ⟨_, rfl, by decide⟩)
    | (cases neg <;> exact ⟨_, rfl, by decide⟩)

/-- The fixed pieces of generated text are the SQL they are modelled as: `0` / `1` for the empty
`IN` / `NOT IN` (`Where.const`), `FALSE` for the empty OR group, parenthesised `OR`, `AND`,
`WHERE`, `GROUP BY`, `ORDER BY` set off by blanks, `(`, `,`, `)` around the placeholders of a
list, and the placeholder itself. -/
theorem consts_ok (pct : Bool) :
    clause pct phKey = .ok (phText pct) ∧
    Gen.C15.emptyIn = "0".toList ∧ Gen.C15.emptyNotIn = "1".toList ∧ Gen.C15.emptyOr = "FALSE".toList ∧
    Gen.C15.orOpen = "(".toList ∧ Gen.C15.orClose = ")".toList ∧
    Gen.C15.listOpen = "(".toList ∧ Gen.C15.listClose = ")".toList ∧ words Gen.C15.listSep = [",".toList] ∧
    (Gen.C15.orSep.head? = some ' ' ∧ Gen.C15.orSep.getLast? = some ' ' ∧ words Gen.C15.orSep = ["OR".toList]) ∧
    (Gen.C15.andSep.head? = some ' ' ∧ Gen.C15.andSep.getLast? = some ' ' ∧ words Gen.C15.andSep = ["AND".toList]) ∧
    (Gen.C15.wherePfx.head? = some ' ' ∧ Gen.C15.wherePfx.getLast? = some ' ' ∧
      words Gen.C15.wherePfx = ["WHERE".toList]) ∧
    (Gen.C15.groupPfx.head? = some ' ' ∧ Gen.C15.groupPfx.getLast? = some ' ' ∧
      words Gen.C15.groupPfx = ["GROUP".toList, "BY".toList]) ∧
    (Gen.C15.orderPfx.head? = some ' ' ∧ Gen.C15.orderPfx.getLast? = some ' ' ∧
      words Gen.C15.orderPfx = ["ORDER".toList, "BY".toList]) := by
  cases pct <;> decide

/-- The keyword arguments that are options and not filters are exactly `_order_by` and
`_as_scalars` (names read from `_execute` by the translator; the translator refuses a source that
takes anything else out of `kwargs`). -/
theorem option_keys (k : Str) :
    isOptionKey k = true ↔ k = "_order_by".toList ∨ k = "_as_scalars".toList := by
  simp [isOptionKey, show Gen.C15.orderKey = "_order_by".toList from by decide,
    show Gen.C15.scalarsKey = "_as_scalars".toList from by decide]

/-- A call whose conditions name their fields by a `str` (the model's `Cond` type; the real code
raises `AssertionError` for a `(None, op, value)` tuple and `TypeError` for a field that is not a
`str`, such as `(5, '=', 1)` — both outside the model) never fails in another way than:
`ValueError` / `AttributeError` from a condition constructor, sqlite3 refusing a parameter, or `TypeError` when `_order_by` is neither `None` nor a
`str`. In particular no clause lookup fails (`KeyError`), whatever the operation, the flavour and
the shape of the conditions. -/
theorem only_rejections (pct : Bool) (st : Stmt) (call : Call) (e : Fail)
    (h : prepare pct st call = .error e) :
    e = .py .valueError ∨ e = .py .attributeError ∨ e = .bind ∨
      (e = .py .typeError ∧ ∃ a, lookupKw Gen.C15.orderKey call.kwargs = some a ∧ a ≠ .scalar .null ∧
        ∀ s, a ≠ .scalar (.text s)) := by
  rcases prepare_fail h with (h | h) | h | h
  · exact Or.inl h
  · exact Or.inr (Or.inl h)
  · exact Or.inr (Or.inr (Or.inl h))
  · exact Or.inr (Or.inr (Or.inr h))

/-- The value of the WHERE clause on a row, with the bound parameters, is the three-valued AND of
what the caller's conditions mean (`intended`: `=`/`!=` with `None` is `IS [NOT] NULL`, with a
list/tuple `[NOT] IN`; `IN` over nothing is false and `NOT IN` over nothing is true; an OR group
is the three-valued OR of its members, keyword members included; `None` arguments do not count;
a keyword argument is an equality) — for every call that reaches `execute`, every row, in
whatever order the keyword arguments were given. -/
theorem selects_eval (pct : Bool) (st : Stmt) (call : Call) (p : Prepared)
    (h : prepare pct st call = .ok p) (row : Row) :
    sem row p.conj p.params =
      andAll (intendeds row (call.args.filterMap id) ++ intendedKw row (filterKwargs call.kwargs)) :=
  prepare_sem h row

/-- A row is selected (WHERE clause true) iff every condition the caller wrote is true for it:
every positional condition and every keyword argument other than the two options — whatever its
name (leading underscore, upper case, quoted, …). -/
theorem selects (pct : Bool) (st : Stmt) (call : Call) (p : Prepared)
    (h : prepare pct st call = .ok p) (row : Row) :
    sem row p.conj p.params = some .tt ↔
      (∀ c, some c ∈ call.args → intended row c = some .tt) ∧
      (∀ k a, (k, a) ∈ call.kwargs → isOptionKey k = false → intended row (.pair k a) = some .tt) := by
  rw [selects_eval pct st call p h row, andAll_eq_tt]
  constructor
  · intro hall
    constructor
    · intro c hc
      apply hall
      rw [List.mem_append, mem_intendeds]
      exact Or.inl ⟨c, by simpa using hc, rfl⟩
    · intro k a hk hno
      apply hall
      rw [List.mem_append, mem_intendedKw]
      exact Or.inr ⟨(k, a), by simp [filterKwargs, hk, hno], rfl⟩
  · rintro ⟨h1, h2⟩ x hx
    rw [List.mem_append, mem_intendeds, mem_intendedKw] at hx
    rcases hx with ⟨c, hc, rfl⟩ | ⟨⟨k, a⟩, hk, rfl⟩
    · exact h1 c (by simpa using hc)
    · simp only [filterKwargs, List.mem_filter, Bool.not_eq_true'] at hk
      exact h2 k a hk.1 hk.2

/-- The statement text carries exactly one placeholder mark (`?`, or the `%` of `%s`) per bound
value, provided the caller's own texts — SELECT…FROM, the column expressions of the conditions,
GROUP BY, the ORDER BY in effect — contain none: `clean`, a decidable predicate that the driver
evaluates on every request (the count it reports in the `sql` reply is `p.params.length`). -/
theorem placeholders (pct : Bool) (st : Stmt) (call : Call) (p : Prepared)
    (h : prepare pct st call = .ok p) (hc : clean pct st call = true) :
    p.text.count (marker pct) = p.params.length :=
  prepare_count h hc

/-- Matching order. The text of a conjunction is the texts of its clauses from left to right
(`renders`, `joinSep`), and so on inside OR groups; evaluating a clause consumes, from the front
of the parameter list, exactly as many values as the text of that clause has placeholder marks —
for every clause and sub-clause, whatever the parameter list. So the k-th mark of the text is
evaluated with the k-th bound value. -/
theorem placeholders_in_order (pct : Bool) (row : Row) (w : Where) (t : Str) (ps : List Value)
    (v : Tri) (rest : List Value) (hr : render pct w = .ok t)
    (hf : ∀ f ∈ whereFields w, f.count (marker pct) = 0) (hs : semW row w ps = some (v, rest)) :
    ∃ used, ps = used ++ rest ∧ used.length = t.count (marker pct) := by
  obtain ⟨used, h1, h2⟩ := semW_consumes row w ps v rest hs
  exact ⟨used, h1, by rw [h2, render_count pct w t hr hf]⟩

/-- An OR group with at least one member is always emitted as `(`…` OR `…`)` — also with a single
member, also when a member is a static condition (the caller's own SQL, which may contain `OR`):
inside the surrounding `AND` its text is one parenthesised unit. The empty group is `FALSE`; a
static condition is the caller's text between two blanks. -/
theorem groups_parenthesised (pct : Bool) (c : NCond) (cs : List NCond) (t : Str)
    (h : render pct (toWhere (.or (c :: cs))).1 = .ok t) :
    (∃ ts, renders pct (toWheres (c :: cs)).1 = .ok ts ∧ ts.length = cs.length + 1 ∧
      t = "(".toList ++ joinSep " OR ".toList ts ++ ")".toList) ∧
    render pct (toWhere (.or [])).1 = .ok "FALSE".toList ∧
    (∀ txt, render pct (toWhere (.leaf (.raw txt))).1 = .ok (" ".toList ++ txt ++ " ".toList)) := by
  have hro : Gen.C15.rawOpen = " ".toList := by decide
  have hrc : Gen.C15.rawClose = " ".toList := by decide
  refine ⟨?_, by simp [toWhere, render]; decide, fun txt => by simp [toWhere, leafWhere, render, hro, hrc]⟩
  simp only [toWhere, render, bind, Except.bind] at h
  cases hr : renders pct (toWheres (c :: cs)).1 with
  | error e => simp [hr] at h
  | ok ts =>
    simp only [hr, pure, Except.pure, Except.ok.injEq] at h
    refine ⟨ts, rfl, ?_, ?_⟩
    · have hl := renders_length pct _ ts hr
      have : ∀ ns : List NCond, (toWheres ns).1.length = ns.length := by
        intro ns
        induction ns with
        | nil => simp [toWheres]
        | cons n ns ih => simp [toWheres, ih]
      rw [hl, this]; simp
    · rw [← h]
      have h1 : Gen.C15.orOpen = "(".toList := by decide
      have h2 : Gen.C15.orClose = ")".toList := by decide
      have h3 : Gen.C15.orSep = " OR ".toList := by decide
      rw [h1, h2, h3]

/-- Forgetting every value of a call (keeping field names, operations, `None`-ness, types and the
lengths of lists) changes neither the outcome nor the AST nor one character of the text: only the
bound values change, position by position. -/
theorem values_only_bound (pct : Bool) (st : Stmt) (call : Call) :
    prepare pct st call.erase =
      (prepare pct st call).map fun p => { p with params := p.params.map Value.erase } :=
  prepare_erase pct st call

/-- Non-interference: two calls that differ only in their values produce the same SQL text (or
fail alike) — a value never becomes part of the text. -/
theorem noninterference (pct : Bool) (st : Stmt) (c1 c2 : Call) (h : c1.erase = c2.erase) :
    (prepare pct st c1).map (·.text) = (prepare pct st c2).map (·.text) := by
  have h1 := values_only_bound pct st c1
  have h2 := values_only_bound pct st c2
  rw [h] at h1
  rw [h1] at h2
  cases hp1 : prepare pct st c1 <;> cases hp2 : prepare pct st c2 <;> simp [hp1, hp2, Except.map] at h2 ⊢
  · exact h2
  · exact h2.2.1

/-- `None` arguments are ignored: the call is prepared exactly as without them. -/
theorem none_ignored (pct : Bool) (st : Stmt) (args : List (Option Cond)) (kw : List (Str × Arg)) :
    prepare pct st { args := none :: args, kwargs := kw } = prepare pct st { args := args, kwargs := kw } ∧
    prepare pct st { args := args ++ [none], kwargs := kw } = prepare pct st { args := args, kwargs := kw } := by
  constructor <;> simp [prepare, filters]

/-- Keyword arguments may be written in any order: the prepared statement (AST, text and bound
values) is the same for every permutation of the keyword arguments (Python guarantees distinct
keyword names), at top level (options included) and inside an OR group. -/
theorem kwargs_order (pct : Bool) (st : Stmt) (args : List (Option Cond)) (cs : List Cond)
    (kw kw' : List (Str × Arg)) (hp : kw.Perm kw') (hn : (kw.map (·.1)).Nodup) :
    prepare pct st { args := args, kwargs := kw } = prepare pct st { args := args, kwargs := kw' } ∧
    mkCond (.or cs kw) = mkCond (.or cs kw') := by
  have hf : sortKw (filterKwargs kw) = sortKw (filterKwargs kw') :=
    sortKw_perm _ _ (hp.filter _) (filterKwargs_nodup kw hn)
  have ho : orderClause st kw = orderClause st kw' := by
    simp [orderClause, lookupKw_perm _ kw kw' hp hn]
  constructor
  · simp [prepare, filters, hf, ho]
  · simp [mkCond, sortKw_perm kw kw' hp hn]

/-- SQL's `IN` as the model (and the caller's intent) reads it: true iff some member equals the
cell, false iff every member is different and none is NULL (the empty list included) — hence
`NOT IN` over a list that contains NULL never selects a row, and a NULL cell is never `IN` nor
`NOT IN` a non-empty list. -/
theorem in_semantics (x : Value) (vs : List Value) :
    (inSem x vs = .tt ↔ ∃ v ∈ vs, cmp3 .eq x v = .tt) ∧
    (inSem x vs = .ff ↔ ∀ v ∈ vs, cmp3 .eq x v = .ff) ∧
    (Value.null ∈ vs → (inSem x vs).not ≠ .tt) ∧
    (vs ≠ [] → inSem .null vs = .unk) := by
  refine ⟨inSem_tt_iff x vs, inSem_ff_iff x vs, ?_, ?_⟩
  · intro h hn
    have := inSem_null_mem x vs h
    cases hv : inSem x vs <;> simp [hv, Tri.not] at hn this
  · intro hne
    have key : ∀ ws : List Value, inSem .null ws = .ff ∨ inSem .null ws = .unk := by
      intro ws
      induction ws with
      | nil => exact Or.inl rfl
      | cons w ws ih => right; rcases ih with h | h <;> simp [inSem, cmp3, cmpDb, Value.db, h, Tri.or]
    cases vs with
    | nil => exact absurd rfl hne
    | cons v vs => rcases key vs with h | h <;> simp [inSem, cmp3, cmpDb, Value.db, h, Tri.or]

/-- What a call returns. If `run` answers `res`, then the statement was prepared; the ORDER BY
text in effect is the rendering of `order`; every row of the table gives a value to every column
expression of the clause (all of them written by the caller); the rows selected are exactly the
rows of the table — in table order — on which every condition the caller wrote is true
(`satisfied`, i.e. the right-hand side of `selects`); when an order is in effect they are
rearranged (a permutation) into that order — no returned row comes strictly before an earlier one
under the keys, `DESC` flags and SQLite's order of values (`value_order`), which is the model of
SQLite's ORDER BY; and `res` is what the method (`list`, `one`, `one_or_none`) makes of that list. -/
theorem returns_exactly (pct : Bool) (st : Stmt) (order : Option OrderSpec)
    (call : Call) (m : Method) (table : List Cells) (res : Option (List Cells))
    (h : run pct st order call m table = .ok res) :
    ∃ fields sel sorted,
      orderClause st call.kwargs = .ok (order.map orderText) ∧
      (∀ f ∈ fields, f ∈ call.fields) ∧
      (∀ r ∈ table, ∃ row, r.row? fields = some row) ∧
      sel = table.filter (fun r =>
        match r.row? fields with
        | some row => satisfied row call
        | none => false) ∧
      (order = none → sorted = sel) ∧
      (∀ o, order = some o → sortRows o sel = some sorted ∧ SortedRows o sorted) ∧
      sorted.Perm sel ∧ finish m sorted = .ok res := by
  simp only [run, bind, Except.bind] at h
  cases hp : prepare pct st call with
  | error e => simp [hp] at h
  | ok p =>
    simp only [hp] at h
    by_cases hord : orderClause st call.kwargs = .ok (order.map orderText)
    case neg => simp [hord] at h
    simp only [hord, ne_eq, not_true_eq_false, if_false] at h
    cases hsel : selectRows (wheresFields p.conj) p.conj p.params table with
    | none => simp [hsel] at h
    | some sel =>
      simp only [hsel] at h
      have hfilter := selectRows_eq _ _ _ table sel hsel
      have hrows := selectRows_rows _ _ _ table sel hsel
      have hsat : sel = table.filter (fun r =>
          match r.row? (wheresFields p.conj) with
          | some row => satisfied row call
          | none => false) := by
        rw [hfilter]
        apply List.filter_congr
        intro r _
        cases r.row? (wheresFields p.conj) with
        | none => rfl
        | some row => simp only [satisfied, selects_eval pct _ call p hp row]
      cases order with
      | none =>
        simp only [] at h
        exact ⟨_, sel, sel, hord, prepare_fields hp, hrows, hsat, fun _ => rfl, (fun o ho => by cases ho),
          List.Perm.refl _, h⟩
      | some o =>
        simp only [] at h
        cases hso : sortRows o sel with
        | none => simp [hso] at h
        | some sorted =>
          simp only [hso] at h
          exact ⟨_, sel, sorted, hord, prepare_fields hp, hrows, hsat, (fun ho => by cases ho),
            (fun o' ho' => by cases ho'; exact ⟨hso, sortRows_sorted o sel sorted hso⟩),
            sortRows_perm o sel sorted hso, h⟩

/-- The order of values used by comparisons and by ORDER BY is a strict total order with NULL
first, then integers by value, then texts (code points), then BLOBs (bytes); so is, key by key with `DESC` flipping a
key, the order of rows (`rowBefore`: never both ways, transitive). -/
theorem value_order :
    (∀ a, vLt a a = false) ∧ (∀ a b c, vLt a b = true → vLt b c = true → vLt a c = true) ∧
    (∀ a b, a ≠ b → vLt a b = true ∨ vLt b a = true) ∧
    (∀ i s b, vLt .null (.int i) = true ∧ vLt (.int i) (.text s) = true ∧ vLt .null (.text s) = true ∧
      vLt (.text s) (.blob b) = true) ∧
    (∀ i j : Int, vLt (.int i) (.int j) = true ↔ i < j) ∧
    (∀ o r s, rowBefore o r s = some true → rowBefore o s r = some false) ∧
    (∀ o r s t, rowBefore o r s = some true → rowBefore o s t = some true → rowBefore o r t = some true) :=
  ⟨vLt_irrefl, vLt_trans, vLt_total, fun _ _ _ => ⟨rfl, rfl, rfl, rfl⟩, fun i j => by simp [vLt],
   rowBefore_asymm, rowBefore_trans⟩

/-- The values that reach `cursor.execute` are the caller's own objects: every bound value is one of
the values written in the call (in a condition, an OR group, a keyword filter), handed over as it is —
an `int` as that `int`, a `str` as that `str`, and an object of another class (a `datetime`, a `date`,
an object with `__conform__` or a registered adapter: `Value.obj`) as that very object, never as a
text made of it. Adapting it is left to the driver; the comparison then sees the driver's image of the
object (`Value.db`), for every comparison operator and inside `IN` lists. -/
theorem bound_values_are_callers (pct : Bool) (st : Stmt) (call : Call) (p : Prepared)
    (h : prepare pct st call = .ok p) :
    (∀ v ∈ p.params, v ∈ call.values) ∧
    (∀ c x k s, cmp3 c x (.obj k s) = cmp3 c x (.text s)) ∧
    (∀ x k s vs, inSem x (.obj k s :: vs) = (cmp3 .eq x (.text s)).or (inSem x vs)) ∧
    (∀ k s t, Value.obj k s ≠ Value.text t) :=
  ⟨prepare_values h, fun _ _ _ _ => rfl, fun _ _ _ _ => rfl, fun _ _ _ h => by cases h⟩

/-- The ORDER BY text is the caller's and reaches the statement as written: the statement text is
SELECT…FROM, the WHERE part, the GROUP BY part and then ` ORDER BY ` followed, character by character,
by the text in effect (`_order_by` of the call if given, else the default; nothing if that is `None`)
— whatever the text is: a column, `col DESC`, an expression such as `-col` or `ABS(col)`, several
items. Nothing in it is split, trimmed or re-spelled, so what the text means is what SQL says it
means. -/
theorem order_text_verbatim (pct : Bool) (st : Stmt) (call : Call) (p : Prepared)
    (h : prepare pct st call = .ok p) :
    ∃ ts ord, renders pct p.conj = .ok ts ∧ orderClause st call.kwargs = .ok ord ∧
      (∀ a, lookupKw Gen.C15.orderKey call.kwargs = some a → (a = .scalar .null ∧ ord = none) ∨
        ∃ o, a = .scalar (.text o) ∧ ord = some o) ∧
      (lookupKw Gen.C15.orderKey call.kwargs = none → ord = st.orderBy) ∧
      p.text = st.selectFrom ++ wherePart ts ++ groupPart st ++
        (match ord with
         | some o => " ORDER BY ".toList ++ o
         | none => []) := by
  obtain ⟨ts, ord, hr, ho, ht⟩ := prepare_text h
  have hpfx : Gen.C15.orderPfx = " ORDER BY ".toList := by decide
  refine ⟨ts, ord, hr, ho, ?_, ?_, by rw [ht]; cases ord <;> simp [hpfx]⟩
  · intro a ha
    simp only [orderClause, ha] at ho
    split at ho <;> simp_all
  · intro hn
    simpa [orderClause, hn] using ho.symm

/-- A key of the ORDER BY in effect is an opaque expression of the caller: which of two rows comes
first depends on a key only through the values SQLite computed for that key text on the two rows
(supplied with the table), compared in SQLite's order of values; the text of a key is never looked
into — a leading minus sign is part of the expression, not a direction. -/
theorem order_keys_opaque (o : OrderSpec) (r s r' s' : Cells)
    (h : ∀ kd ∈ o, r.get? kd.1 = r'.get? kd.1 ∧ s.get? kd.1 = s'.get? kd.1) :
    rowBefore o r s = rowBefore o r' s' :=
  rowBefore_congr o r s r' s' h

/-- `satisfied` is the right-hand side of `selects` -/
theorem satisfied_iff (row : Row) (call : Call) :
    satisfied row call = true ↔
      (∀ c, some c ∈ call.args → intended row c = some .tt) ∧
      (∀ k a, (k, a) ∈ call.kwargs → isOptionKey k = false → intended row (.pair k a) = some .tt) := by
  simp only [satisfied, decide_eq_true_eq, andAll_eq_tt]
  constructor
  · intro hall
    constructor
    · intro c hc
      apply hall
      rw [List.mem_append, mem_intendeds]
      exact Or.inl ⟨c, by simpa using hc, rfl⟩
    · intro k a hk hno
      apply hall
      rw [List.mem_append, mem_intendedKw]
      exact Or.inr ⟨(k, a), by simp [filterKwargs, hk, hno], rfl⟩
  · rintro ⟨h1, h2⟩ x hx
    rw [List.mem_append, mem_intendeds, mem_intendedKw] at hx
    rcases hx with ⟨c, hc, rfl⟩ | ⟨⟨k, a⟩, hk, rfl⟩
    · exact h1 c (by simpa using hc)
    · simp only [filterKwargs, List.mem_filter, Bool.not_eq_true'] at hk
      exact h2 k a hk.1 hk.2

/-- `list` returns the rows as they come, `one` succeeds iff exactly one row was selected,
`one_or_none` (and `SqlMethodT.one_or_none`) iff at most one; otherwise `ValueError`. -/
theorem methods (rows : List Cells) :
    finish .list rows = .ok (some rows) ∧
    (finish .one rows = (if rows.length = 1 then .ok (some rows) else .error (.py .valueError))) ∧
    (finish .oneOrNone rows = (if rows.length = 0 then .ok none else if rows.length = 1 then .ok (some rows)
      else .error (.py .valueError))) ∧
    (finish .oneOrEmpty rows = (if rows.length ≤ 1 then .ok (some rows) else .error (.py .valueError))) := by
  rcases rows with _ | ⟨r, _ | ⟨s, rest⟩⟩ <;> simp [finish]

/-! Non-vacuity: a call with an OR group, an empty `IN`, `= None`, a keyword filter and a hostile
value is prepared; its text and parameters are what the real code produces. -/
section examples

private def exCall : Call :=
  { args := [some (.or [.triple "a".toList "=".toList (.scalar (.int 1)),
                        .triple "b".toList "in".toList (.list [])] [("c".toList, .scalar .null)]),
             none,
             some (.triple "b".toList "!=".toList (.list [.text "x'; DROP TABLE t;--".toList, .null]))],
    kwargs := [("c".toList, .scalar (.text "it's".toList))] }

private def exStmt : Stmt := { selectFrom := "SELECT id FROM t".toList, groupBy := none, orderBy := some "id".toList }

example : (prepare false exStmt exCall).map (·.text) =
    .ok "SELECT id FROM t WHERE (a = ? OR 0 OR c IS NULL) AND b NOT IN (?, ?) AND c = ? ORDER BY id".toList := by
  decide +kernel

example : (prepare false exStmt exCall).map (·.params) =
    .ok [.int 1, .text "x'; DROP TABLE t;--".toList, .null, .text "it's".toList] := by
  decide +kernel

example : (prepare true exStmt exCall).map (·.text) =
    .ok "SELECT id FROM t WHERE (a = %s OR 0 OR c IS NULL) AND b NOT IN (%s, %s) AND c = %s ORDER BY id".toList := by
  decide +kernel

example : (prepare false exStmt { args := [some (.triple "a".toList "IN".toList (.scalar (.int 1)))], kwargs := [] }).map
    (·.text) = .error (.py .valueError) := by decide +kernel

private def exRow : Row := fun f =>
  if f = "a".toList then .int 7 else if f = "b".toList then .text "B".toList else .null

/-- row (a=7, b='B', c=NULL): the OR group holds through `c IS NULL`, `b NOT IN (…, NULL)` is
unknown, so the row is not selected although no condition is false -/
example : (prepare false exStmt exCall).map (fun p => sem exRow p.conj p.params) = .ok (some .unk) := by
  decide +kernel

example : (prepare false exStmt { exCall with args := exCall.args.take 2, kwargs := [("a".toList, .list [.int 7])] }).map
    (fun p => sem exRow p.conj p.params) = .ok (some .tt) := by
  decide +kernel

/-- default order `id`, overridden per call by `_order_by="id DESC"` -/
private def exStmtD : Stmt := { exStmt with orderBy := some "id".toList }
private def exCallD : Call :=
  { exCall with kwargs := ("_order_by".toList, .scalar (.text "id DESC".toList)) :: exCall.kwargs }

private def exTable : List Cells :=
  [[("id".toList, .int 1), ("a".toList, .int 7), ("b".toList, .text "B".toList), ("c".toList, .null)],
   [("id".toList, .int 2), ("a".toList, .int 1), ("b".toList, .text "y".toList), ("c".toList, .text "it's".toList)],
   [("id".toList, .int 3), ("a".toList, .null), ("b".toList, .text "z".toList), ("c".toList, .text "it's".toList)]]

/-- `b NOT IN (…, NULL)` never holds (`in_semantics`): the example call selects nothing and `one`
raises; without the NULL in the list it selects row 2 only (row 1: `c = 'it''s'` unknown, row 3:
OR group unknown), and `one` returns it -/
example : run false exStmtD (some [("id".toList, true)]) exCallD .one exTable
    = .error (.py .valueError) := by
  decide +kernel

example : (run false exStmtD (some [("id".toList, true)])
      { exCallD with args := exCall.args.take 2 ++
          [some (.triple "b".toList "!=".toList (.list [.text "x'; DROP TABLE t;--".toList]))] } .one exTable).map
    (fun r => r.map fun rows => rows.map fun c => c.get? "id".toList) = .ok (some [some (.int 2)]) := by
  decide +kernel

example : (run false exStmtD (some [("id".toList, true)])
      { args := [some (.triple "a".toList ">=".toList (.scalar (.int 1)))],
        kwargs := [("_as_scalars".toList, .scalar (.int 1)), ("_order_by".toList, .scalar (.text "id DESC".toList))] }
      .list exTable).map
    (fun r => r.map fun rows => rows.map fun c => c.get? "id".toList) = .ok (some [some (.int 2), some (.int 1)]) := by
  decide +kernel

/-- a keyword filter on a column whose name starts with an underscore is a filter like any other;
`_order_by=None` cancels the default order and `_as_scalars` leaves no trace -/
example : (prepare false exStmtD
      { args := [], kwargs := [("_deleted".toList, .scalar (.int 0)), ("_order_by".toList, .scalar .null),
                               ("_as_scalars".toList, .scalar (.int 1)), ("_Rev2".toList, .scalar .null)] }).map
    (fun p => (p.text, p.params)) =
    .ok ("SELECT id FROM t WHERE _Rev2 IS NULL AND _deleted = ?".toList, [.int 0]) := by
  decide +kernel

example : (prepare false exStmtD { args := [], kwargs := [("_order_by".toList, .scalar (.int 5))] }).map (·.text)
    = .error (.py .typeError) := by
  decide +kernel

/-- a two-item condition / keyword filter whose value spells an operator is an equality with that
text, bound as a value like any other -/
example : (prepare false exStmt
      { args := [some (.pair "a".toList (.scalar (.text "is null".toList))),
                 some (.or [.pair "b".toList (.scalar (.text "NOT IN".toList))] [("c".toList, .scalar (.text "0".toList))])],
        kwargs := [("c".toList, .scalar (.text "IS NOT NULL".toList))] }).map (fun p => (p.text, p.params)) =
    .ok ("SELECT id FROM t WHERE a = ? AND (b = ? OR c = ?) AND c = ? ORDER BY id".toList,
         [.text "is null".toList, .text "NOT IN".toList, .text "0".toList, .text "IS NOT NULL".toList]) := by
  decide +kernel

/-- a single static operand that contains OR stays inside the parentheses of its group -/
example : (prepare false exStmt
      { args := [some (.or [.raw "a = 7 OR id = 1".toList] [])], kwargs := [("b".toList, .scalar (.int 2))] }).map (·.text) =
    .ok "SELECT id FROM t WHERE ( a = 7 OR id = 1 ) AND b = ? ORDER BY id".toList := by
  decide +kernel

/-- the `%s` style: a `?` in the caller's own text (a literal of a static condition, a quoted column
name) reaches the statement as written; only the generated marks are `%s`, one per bound value -/
example : (prepare true exStmt
      { args := [some (.raw "note = 'why?'".toList), some (.triple "\"ok?\"".toList "in".toList (.list [.int 1, .int 2]))],
        kwargs := [] }).map (fun p => (p.text, p.params.length)) =
    .ok ("SELECT id FROM t WHERE  note = 'why?'  AND \"ok?\" IN (%s, %s) ORDER BY id".toList, 2) := by
  decide +kernel

/-- a `datetime` operand (class 0, image = what the driver writes for it) is bound as the object
itself, singly and inside an `IN` list; `LIKE` refuses it as the code does (not a `str`) -/
private def exDt : Value := .obj 0 "2024-01-02 03:04:05".toList

example : (prepare false exStmt
      { args := [some (.triple "c".toList ">=".toList (.scalar exDt)),
                 some (.triple "b".toList "in".toList (.list [exDt, .int 1]))], kwargs := [("a".toList, .scalar exDt)] }).map
    (fun p => (p.text, p.params)) =
    .ok ("SELECT id FROM t WHERE c >= ? AND b IN (?, ?) AND a = ? ORDER BY id".toList, [exDt, exDt, .int 1, exDt]) := by
  decide +kernel

example : (prepare false exStmt { args := [some (.triple "c".toList "LIKE".toList (.scalar exDt))], kwargs := [] }).map
    (·.text) = .error (.py .valueError) := by decide +kernel

private def exEvents : List Cells :=
  [[("id".toList, .int 1), ("c".toList, .text "2024-01-02 03:04:05".toList), ("-c".toList, .int (-2024))],
   [("id".toList, .int 2), ("c".toList, .text "2024-01-02T03:04:05".toList), ("-c".toList, .int (-2024))],
   [("id".toList, .int 3), ("c".toList, .null), ("-c".toList, .null)],
   [("id".toList, .int 4), ("c".toList, .text "2024-01-02 23:00:00".toList), ("-c".toList, .int (-2024))]]

/-- `c = <datetime>` selects the row written by the same driver (blank between date and time), not the
row that holds the `T` spelling; `c >= <datetime>` selects rows 1, 2, 4 -/
example : (run false exStmt (some [("id".toList, false)])
      { args := [some (.pair "c".toList (.scalar exDt))], kwargs := [] } .list exEvents).map
    (fun r => r.map fun rows => rows.map fun c => c.get? "id".toList) = .ok (some [some (.int 1)]) := by
  decide +kernel

example : (run false exStmt (some [("id".toList, false)])
      { args := [some (.triple "c".toList ">=".toList (.scalar exDt))], kwargs := [] } .list exEvents).map
    (fun r => r.map fun rows => rows.map fun c => c.get? "id".toList) =
    .ok (some [some (.int 1), some (.int 2), some (.int 4)]) := by
  decide +kernel

/-- `_order_by="-c, id DESC"`: the key `-c` is an expression (its value per row is supplied: NULL for
the NULL cell, which sorts first; -2024 for the texts, a tie decided by `id DESC`), not `c DESC`; the
text reaches the statement as written -/
example : (run false exStmt (some [("-c".toList, false), ("id".toList, true)])
      { args := [], kwargs := [("_order_by".toList, .scalar (.text "-c, id DESC".toList))] } .list exEvents).map
    (fun r => r.map fun rows => rows.map fun c => c.get? "id".toList) =
    .ok (some [some (.int 3), some (.int 4), some (.int 2), some (.int 1)]) := by
  decide +kernel

example : (prepare false exStmt
      { args := [], kwargs := [("_order_by".toList, .scalar (.text "-c, id DESC".toList))] }).map (·.text) =
    .ok "SELECT id FROM t ORDER BY -c, id DESC".toList := by
  decide +kernel

end examples

end C15
