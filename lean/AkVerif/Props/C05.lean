import AkVerif.Lemmas.TemplatesDenote
import AkVerif.Lemmas.TemplatesLink
import AkVerif.Lemmas.TemplatesLength
import AkVerif.Lemmas.TemplatesFirstW
/-!
# C05 — list, map and sequence templates return exactly the denoted items

Property theorems only. The model (`Model/Templates.lean`) is the code of `ListProds`, `MapProds`, `ProdSequence`
and `StdCleanuper._cleanup`: signature dictionaries, positions found by `_find_index`, walking the raw tree by
`value[pos]`. The theorems say that for **every** raw tree that is a derivation by the productions the templates
generate (`conforms o.genProds t`, an executable predicate the driver evaluates on every real parse tree) this
table-driven walk returns exactly the item subtrees of the derivation, in document order, each cleaned with
`for_container=True` and replaced by its value when it became a leaf.

`WF` (hypothesis): the generated symbols `X__TAIL`, `X__KV_PAIR`, `X__ELEMENTS` differ from the user's symbols and
the item symbol differs from the bracket / delimiter symbols. `wf_of_list_constructor` / `wf_of_map_constructor`
derive it from what the code asserts (no `__` in user symbols) plus `item ∉ {open, close, delimiter}`;
`ListProds('[','WORD','WORD',']')` is outside (there `_find_index` really picks the delimiter).
-/
namespace C05
open Templates Ak

/-- Whatever `ListProds.__init__`/`complete_init` accept is well-formed, provided the user's symbols contain no
`__` (asserted by `LLParser`), the item symbol is not one of the bracket/delimiter symbols and — for a list without
brackets and delimiter, whose tail symbol is the list symbol itself — the item is not the list. -/
theorem wf_of_list_constructor (a : ListArgs) (res : Name) (o : ListOpts) (h : mkListOpts a res = .ok o)
    (hitem : hasDU a.item = false)
    (hopen : ∀ n, a.openBr = some n → hasDU n = false ∧ n ≠ a.item)
    (hclose : ∀ n, a.closeBr = some n → hasDU n = false ∧ n ≠ a.item)
    (hdelim : ∀ n, a.delim = some n → hasDU n = false ∧ n ≠ a.item)
    (hres : a.openBr = none → a.delim = none → a.item ≠ res) : o.WF :=
  ListOpts.wf_of_mk a res o h hitem hopen hclose hdelim hres

/-- the same for `MapProds` (key, assignment and value symbols are not looked up by name, no condition on them) -/
theorem wf_of_map_constructor (a : MapArgs) (res : Name) (o : MapOpts) (h : mkMapOpts a res = .ok o)
    (hopen : ∀ n, a.openBr = some n → hasDU n = false)
    (hclose : ∀ n, a.closeBr = some n → hasDU n = false)
    (hdelim : ∀ n, a.delim = some n → hasDU n = false) : o.WF :=
  MapOpts.wf_of_mk a res o h hopen hclose hdelim

/-- Every raw tree of the list symbol that conforms to the generated productions is one of: absent optional list,
empty bracket pair / empty bracket-less list, or `[ item tail ]` with a tail chain `, item , item … (,)?` — i.e. it
determines a list of item subtrees and whether a final delimiter is present. -/
theorem list_derivations (o : ListOpts) (wf : o.WF) (leaf : Bool) (v : Val)
    (h : conforms o.genProds (.elem o.result leaf v) = true) :
    ∃ r, ListShape o (.elem o.result leaf v) r :=
  listShape_of_conforms o wf leaf v h

/-- **List items.** For every conforming raw tree of a list the clean-up returns a leaf whose value is the Python
list `adjust (map entry (cleaned items))`: one entry per item subtree of the derivation, in document order
(`items` is a subsequence of the pre-order of the tree), `entry` = "value if the cleaned item is a leaf, else the
element", `adjust` = the two documented rules (trailing `None` dropped when a final delimiter is allowed; a
bracket-less list holding one `None` is `[]`). An error of an item's clean-up is propagated, first one first.
An absent optional list keeps the value `None`. The for_container/for_choice flags of the call do not matter. -/
theorem list_items (cl : Cleanuper) (o : ListOpts) (wf : o.WF)
    (hT : lookup cl.templates o.result = some (.list o)) (leaf : Bool) (v : Val)
    (h : conforms o.genProds (.elem o.result leaf v) = true) (fc fch : Bool) :
    ∃ r, ListShape o (.elem o.result leaf v) r ∧
      (∀ items fin, r = some (items, fin) → items.Sublist (preorder (.elem o.result leaf v))) ∧
      cleanup cl (.elem o.result leaf v) fc fch =
        match r with
        | none => .ok ((o.result, true, .none), fch)
        | some (items, _) =>
          match cleanItems cl items with
          | .ok es => .ok ((o.result, true, .list (adjust o (es.map entry))), fch)
          | .error e => .error e := by
  obtain ⟨r, hr⟩ := listShape_of_conforms o wf leaf v h
  refine ⟨r, hr, ?_, ?_⟩
  · intro items fin e
    subst e
    exact list_items_sublist hr
  · rw [cleanup_list cl o wf hT hr fc fch]
    cases r with
    | none => rfl
    | some p =>
      simp only [listResult]
      cases cleanItems cl p.1 <;> rfl

/-- Every conforming raw tree of the map symbol is: absent optional map, empty bracket pair / empty bracket-less
map, or `{ pair tail }` with `pair = MAP__KV_PAIR[key, assign, value]` and a tail chain `, pair , pair … (,)?`. -/
theorem map_derivations (o : MapOpts) (wf : o.WF) (leaf : Bool) (v : Val)
    (h : conforms o.genProds (.elem o.result leaf v) = true) :
    ∃ r, MapShape o (.elem o.result leaf v) r :=
  mapShape_of_conforms o wf leaf v h

/-- **Map items.** For every conforming raw tree of a map the clean-up returns a leaf whose value is
`dict([(entry key_i, entry value_i) …])` over the key/value nodes of the derivation in document order (each cleaned
with `for_container=True`); an unhashable key (a list or dict) raises `TypeError` as in Python. -/
theorem map_items (cl : Cleanuper) (o : MapOpts) (wf : o.WF)
    (hT : lookup cl.templates o.result = some (.map o)) (leaf : Bool) (v : Val)
    (h : conforms o.genProds (.elem o.result leaf v) = true) (fc fch : Bool) :
    ∃ r, MapShape o (.elem o.result leaf v) r ∧
      cleanup cl (.elem o.result leaf v) fc fch =
        match r with
        | none => .ok ((o.result, true, .none), fch)
        | some (pairs, _) =>
          match cleanPairs cl pairs with
          | .error e => .error e
          | .ok kvs =>
            match pyDict kvs with
            | .error e => .error e
            | .ok d => .ok ((o.result, true, .dict d), fch) := by
  obtain ⟨r, hr⟩ := mapShape_of_conforms o wf leaf v h
  refine ⟨r, hr, ?_⟩
  rw [cleanup_map cl o wf hT hr fc fch]
  cases r with
  | none => rfl
  | some p =>
    simp only [mapResult]
    cases cleanPairs cl p.1 with
    | error e => rfl
    | ok kvs =>
      simp only []
      cases pyDict kvs <;> simp

/-- **Python dict semantics, string keys** (keys that are tokens): the dictionary built by the model is the generic
insertion-ordered dictionary `dictOf`; it never fails. -/
theorem map_string_keys (ps : List (List Char × Val)) :
    pyDict (ps.map fun p => (Val.str p.1, p.2)) = .ok ((dictOf ps).map fun p => (Val.str p.1, p.2)) :=
  pyDict_str ps

/-- … whose keys are the distinct keys in the order of their first occurrence … -/
theorem dict_key_order (ps : List (List Char × Val)) :
    (dictOf ps).map (·.1) = firstOcc (ps.map (·.1)) :=
  dictOf_keys ps

/-- … and a repeated key keeps the value of its last occurrence. -/
theorem dict_last_value (ps : List (List Char × Val)) (k : List Char) :
    lookup (dictOf ps) k = lastVal ps k :=
  dictOf_lookup ps k

/-- **Sequences.** The parse loop flattens `SEQ[SEQ__ELEMENT[x1], SEQ[SEQ__ELEMENT[x2], … SEQ()]]` (innermost node
first) into a leaf whose value is `[x1, x2, …]`: the matched elements, in order. The clean-up keeps that node a leaf,
cleans every element in place (so containers below a sequence become Python lists / dicts, repair 04414b3) and
neither drops nor adds nor reorders elements. -/
theorem seq_items (cl : Cleanuper) (name : Name) (t : Val) (xs : List Val) (h : SeqShape name t xs)
    (hT : lookup cl.templates name = none) (hx : allElems xs = true) (fc fch : Bool) :
    flattenSeq t = .ok (.elem name true (.list xs)) ∧
    cleanup cl (.elem name true (.list xs)) fc fch =
      (match cleanElems cl xs with
       | .ok rs => .ok ((name, true, .list rs), fch)
       | .error e => .error e) ∧
    ∀ rs, cleanElems cl xs = .ok rs → rs.length = xs.length :=
  ⟨flattenSeq_shape h, cleanup_seq_leaf cl name xs fc fch hT hx, fun rs hr => cleanElems_length cl xs rs hr⟩

/-- **Empty and absent containers.** An empty bracket pair gives `[]` / `{}`, an empty bracket-less list gives `[]`,
an absent optional list / map keeps the value `None`. -/
theorem empty_and_absent (cl : Cleanuper) (fc fch : Bool) :
    (∀ (o : ListOpts), o.WF → lookup cl.templates o.result = some (.list o) →
      (∀ ob cb ol ov cl' cv, o.openBr = some ob → o.closeBr = some cb →
        cleanup cl (.elem o.result false (.list [.elem ob ol ov, .elem cb cl' cv])) fc fch =
          .ok ((o.result, true, .list []), fch)) ∧
      (o.openBr = none → cleanup cl (.elem o.result true .none) fc fch = .ok ((o.result, true, .list []), fch)) ∧
      (o.optional = true → cleanup cl (.elem o.result true .none) fc fch = .ok ((o.result, true, .none), fch))) ∧
    (∀ (o : MapOpts), o.WF → lookup cl.templates o.result = some (.map o) →
      (∀ ob cb ol ov cl' cv, o.openBr = some ob → o.closeBr = some cb →
        cleanup cl (.elem o.result false (.list [.elem ob ol ov, .elem cb cl' cv])) fc fch =
          .ok ((o.result, true, .dict []), fch)) ∧
      (o.optional = true → cleanup cl (.elem o.result true .none) fc fch = .ok ((o.result, true, .none), fch))) := by
  refine ⟨fun o wf hT => ⟨?_, ?_, ?_⟩, fun o wf hT => ⟨?_, ?_⟩⟩
  · intro ob cb ol ov cl' cv hb hc
    rw [cleanup_list cl o wf hT (.emptyBr ob cb ol ov cl' cv hb hc) fc fch]
    simp [listResult, cleanItems, adjust, lastIsNone]
  · intro hb
    rw [cleanup_list cl o wf hT (.emptyNoBr hb) fc fch]
    simp [listResult, cleanItems, adjust, lastIsNone, hb]
  · intro ho
    rw [cleanup_list cl o wf hT (.absent ho) fc fch]
  · intro ob cb ol ov cl' cv hb hc
    rw [cleanup_map cl o wf hT (.emptyBr ob cb ol ov cl' cv hb hc) fc fch]
    simp [mapResult, cleanPairs, pyDict_nil]
  · intro ho
    rw [cleanup_map cl o wf hT (.absent ho) fc fch]

/-- **Final delimiter.** (1) A derivation can end with a bare delimiter only when `allow_final_delimiter` holds
(the production `TAIL -> (delimiter,)` is generated only then). (2) The final delimiter never adds an entry: two trees
with the same items, one with and one without it, are cleaned to the same result. (3) Where the item is nullable the
text `… , ]` can also be read as a trailing empty item; with `allow_final_delimiter` that trailing `None` is dropped
again. The same (1), (2) for maps. -/
theorem final_delim (cl : Cleanuper) (o : ListOpts) (wf : o.WF)
    (hT : lookup cl.templates o.result = some (.list o)) (fc fch : Bool) :
    (∀ t items, ListShape o t (some (items, true)) → o.afd = true ∧ o.delim.isSome = true ∧ o.openBr.isSome = true) ∧
    (∀ t t' items f f', ListShape o t (some (items, f)) → ListShape o t' (some (items, f')) →
      cleanup cl t fc fch = cleanup cl t' fc fch) ∧
    (o.afd = true → ∀ vs, adjust o (vs ++ [.none]) = vs) := by
  refine ⟨?_, ?_, ?_⟩
  · intro t items h
    have ha := listShape_fin_afd h
    exact ⟨ha, wf.afd ha⟩
  · intro t t' items f f' h h'
    rw [cleanup_list cl o wf hT h fc fch, cleanup_list cl o wf hT h' fc fch]
  · intro ha vs
    exact adjust_drop_none o ha vs

/-- final delimiter, maps -/
theorem final_delim_map (cl : Cleanuper) (o : MapOpts) (wf : o.WF)
    (hT : lookup cl.templates o.result = some (.map o)) (fc fch : Bool) :
    (∀ t pairs, MapShape o t (some (pairs, true)) → o.afd = true) ∧
    (∀ t t' pairs f f', MapShape o t (some (pairs, f)) → MapShape o t' (some (pairs, f')) →
      cleanup cl t fc fch = cleanup cl t' fc fch) := by
  refine ⟨?_, ?_⟩
  · intro t pairs h
    exact mapShape_fin_afd h
  · intro t t' pairs f f' h h'
    rw [cleanup_map cl o wf hT h fc fch, cleanup_map cl o wf hT h' fc fch]

/-- **Nesting.** For the json-like grammar `VALUE -> WORD | LIST | MAP`, `LIST = ListProds(…, VALUE, …)`,
`MAP = MapProds(…, WORD, …, VALUE, …)` with any well-formed option combination (`JsonG`: brackets or none, delimiter
or none, final delimiters, optional; `VALUE` squashable, a choice symbol, not kept): if the raw tree `t` denotes the
data `d` (`Den`: words, lists of denoted items, maps of word keys and denoted values — to depth `n`, any `n`, with or
without final delimiters) then its clean-up as a container item succeeds and the entry put into the enclosing
container is exactly the Python value of `d` (`pyval`: `str`, `list` in item order, `dict` in first-occurrence key
order with the last value of a repeated key). This is the model-level form of `parse(render(d)).value == d`. -/
theorem nesting (G : JsonG) (n : Nat) (t : Val) (d : Data) (h : Den G n t d) :
    ∃ r, cleanup G.cl t true false = .ok r ∧ entry r.1 = pyval d :=
  den_clean G n t d h

/-- **Nesting, every derivation.** For the json-like grammar (production table `P`: `VALUE -> WORD | LIST | MAP` and
the productions generated by the two templates, neither optional): every well-typed raw tree of the value symbol that
conforms to `P` and whose `WORD` nodes are token leaves denotes some data `d`, and therefore (`nesting`) is cleaned to
exactly `pyval d` — no derivation of the grammar falls outside the statement, whatever its depth. -/
theorem nesting_every_derivation (G : JsonG) (P : Prods) (hP : JsonP G P) (l : Bool) (v : Val)
    (hw : wellTyped G.cl (.elem G.value l v) = true) (hc : conforms P (.elem G.value l v) = true)
    (htok : TokOK G (.elem G.value l v)) :
    ∃ d r, Den G (sizeOf (Val.elem G.value l v) + 1) (.elem G.value l v) d ∧
      cleanup G.cl (.elem G.value l v) true false = .ok r ∧ entry r.1 = pyval d := by
  obtain ⟨d, hd⟩ := den_exists G P hP _ l v (Nat.lt_succ_self _) hw hc htok
  obtain ⟨r, hr, he⟩ := den_clean G _ _ d hd
  exact ⟨d, r, hd, hr, he⟩

/-- **End to end for the json-like grammar — partial.**
Full statement (kept visible, *not* proved in this generality): "for every grammar built from the templates, every
option combination, both `smart_factorization` values and every nested data `d`: `parse(render(d)).value == d`".
Proved here, with the constructor, the parse loop and the clean-up all inside the model (`constructT` = the LL model's
constructor steps + template expansion + `StdCleanuper.make` on the model's own factorised dictionary; `LL.run`;
`toVal`; `cleanup`): for the grammar `E -> VALUE`, `VALUE -> WORD | LIST | MAP`, `LIST = ListProds('[','VALUE',',',']')`,
`MAP = MapProds('{','WORD',':','VALUE',',','}')` with default options and **both** `smart_factorization` values (`True`,
the default: the table is not LL(1), `[ ]` / `[ v … ]` and `, v …` / `,` are resolved by roll-back; `False`: LL(1) with
helper symbols `X__S00` spliced away), for **every** written value `s` (words, lists, maps, any depth, final delimiters
wherever allowed) and every lexeme list `raw` that consists of the tokens of `s` with blank lexemes anywhere: the
constructed parser accepts, `parse(text, do_cleanup=False)` is the derivation tree of `s`, and `parse(text)` is the root
`E` with one child whose entry value is exactly `pyval (data s)` (Python list / dict / str, items in order, last value of a
repeated key at its first position, final delimiters adding nothing).
Missing for the full statement: other grammars / option combinations (covered on the clean-up side by `list_items`,
`map_items`, `nesting`, … for all options and on the parse side by the differential run of this same model pipeline
against the real parser), comments, and the regular-expression lexing itself (the lexemes are data). -/
theorem end_to_end_json_partial (smart : Bool) (T : TParser) (hT : jsonT smart = .ok T) (s : Syn)
    (raw : List (Name × List Char)) (hraw : Lex raw (toksV s)) :
    ∃ (k : Nat) (r : El × Bool), entry r.1 = pyval s.data ∧ ∀ fuel, k ≤ fuel →
      T.parseRaw raw fuel = .ok (.elem (nm "E") false (.list [toValP (utV s)])) ∧
      T.parseClean raw fuel = .ok (.elem (nm "E") false (.list [r.1.toVal])) :=
  json_end_to_end smart T hT s raw hraw

/-- **A `str` is cut into lines at `'\n'` and nowhere else** (`_Tokenizer.tokenize`: `text.split('\n')`, the separator
is read from the source by the translator): a text without `'\n'` is one line whatever other characters it holds —
form feed, vertical tab, a lone `\r`, `\x1c`–`\x1e`, `\x85`, `U+2028`, `U+2029` do not end a line, so an end-of-line
comment is skipped as a whole; no line contains the separator; joining the lines with it gives the text back. (What the
regular expression matches inside a line stays data: the lexemes.) -/
theorem lines_cut_at_newline_only :
    Gen.C05.lineSep = '\n' ∧
    (∀ s : List Char, Gen.C05.lineSep ∉ s → strLines s = [rstrip s]) ∧
    (∀ s : List Char, ∀ l ∈ splitOn Gen.C05.lineSep s, Gen.C05.lineSep ∉ l) ∧
    (∀ s : List Char, List.intercalate [Gen.C05.lineSep] (splitOn Gen.C05.lineSep s) = s) :=
  ⟨by decide, fun s h => by simp [strLines, splitOn_no_sep _ s h], fun s => splitOn_mem_no_sep _ s,
   fun s => splitOn_join _ s⟩

/-- **Sequences, as executed.** `seq_items` speaks about `flattenSeq`; the driver (and `parseRaw` / `parseClean`) run
`toVal` on the tree of the parse loop. For the derivation tree of a sequence symbol (`SeqTree`: `SEQ -> SEQ__ELEMENT SEQ |
()`, the element symbol not itself a sequence symbol) `toVal` returns exactly what `flattenSeq` returns for the
un-flattened element tree: the leaf whose value is the list of the converted matched elements, in source order. -/
theorem seq_items_executed (seqSyms : List Name) (n : LL.Sym) (hn : n.name ∈ seqSyms) (t : LL.Tree LL.Sym)
    (xs : List (LL.Tree LL.Sym)) (h : SeqTree seqSyms n t xs) (vs : List Val) (hvs : toVals seqSyms xs = .ok vs) :
    ∃ u, SeqShape n.name u vs ∧ toVal seqSyms t = flattenSeq u ∧
      toVal seqSyms t = .ok (.elem n.name true (.list vs)) :=
  toVal_seq seqSyms n hn t xs h vs hvs

/-- **One constructor model.** Whenever C05's constructor model `constructT` succeeds, the LL model's constructor for
dictionaries with templates (`LL.constructG`, the object of the theorems of C01–C03), fed with the productions and the
template bookkeeping that `expandGrammar` computes, succeeds with the very same parser (terminals, skip set, start symbol,
user and factorised dictionaries, suffix symbols, nullables, FIRST, FOLLOW, table). Hypothesis: the iteration order
handed in for `AnyTokenExcept` lists names without `__` (terminals). `constructT` adds `ListProds.verify_grammar` and the
cleanuper on top. -/
theorem constructor_is_ll_constructor (groups : List Name) (syn : List (Name × Name)) (skip : Option (List Name))
    (start : Name) (smart : Bool) (keep termOrder : List Name) (entries : List (Name × GramEntry)) (TP : TParser)
    (hterms : ∀ t ∈ termOrder, LL.hasDunder t = false)
    (h : constructT groups syn skip start smart keep termOrder entries = .ok TP) :
    ∃ ex, expandGrammar termOrder entries {} = .ok ex ∧
      LL.constructG ⟨ex.tmplKeys, ex.genSyms⟩ ⟨groups, syn, [], skip, start, ex.prods, smart⟩ = .ok TP.ll :=
  constructT_constructG groups syn skip start smart keep termOrder entries TP hterms h

/-- **Choice symbols and their wrappers as elements of a sequence (or anywhere).** The elements of a flattened sequence
are cleaned with the default flags (`seq_items`: `cleanup x false false`; the hidden `SEQ__ELEMENT` choice symbol plays no
part). For such a call — and for any `for_container` flag: (1) an element cleaned as the child of a choice symbol must
not be squashed further (the flag returned is `True`); (2) a squashable choice symbol `V` that is not kept vanishes
around the alternative it selected: cleaning `V[x]` *is* cleaning `x` as the child of a choice symbol, so the sequence
entry is the matched `WORD` / `LIST` / `MAP` … element itself, not a `V[…]` node; (3) a one-production wrapper `W -> V`
(squashable, no choice symbol, not kept) vanishes around such an element as well. -/
theorem choice_elements_squashed (cl : Cleanuper) :
    (∀ t r, cleanup cl t false true = .ok r → r.2 = true) ∧
    (∀ V x fc, lookup cl.templates V = none → V ∈ cl.squash → V ∈ cl.choice → V ∉ cl.keep →
      cleanup cl (.elem V false (.list [x])) fc false = cleanup cl x false true) ∧
    (∀ W y fc r, lookup cl.templates W = none → W ∈ cl.squash → W ∉ cl.choice → W ∉ cl.keep →
      cleanup cl y false false = .ok r → r.2 = true →
      cleanup cl (.elem W false (.list [y])) fc false = .ok r) :=
  ⟨fun t r h => cleanup_fch_true cl t r h,
   fun V x fc hT hs hc hk => cleanup_choice_node cl V x fc hT hs hc hk,
   fun W y fc r hT hs hc hk hy hr => cleanup_wrapper_node cl W y fc r hT hs hc hk hy hr⟩

/-- **Squashing around container items.** A squashable symbol (all its rules have at most one symbol) that is not
in `keep_symbols` disappears around a container item: cleaning `name[x]` with `for_container=True` is cleaning `x`
(so chains such as `LIST_ITEM[VALUE[WORD]]` collapse to the innermost element, whose value becomes the entry). A kept
symbol stays, as a one-child element, exactly when its child is kept too (a kept symbol, or selected by a choice
symbol) — the entry is then that element, by the user's request. -/
theorem squash_around_items (cl : Cleanuper) (name : Name) (x : Val)
    (hT : lookup cl.templates name = none) (hs : name ∈ cl.squash) :
    (name ∉ cl.keep →
      cleanup cl (.elem name false (.list [x])) true false = cleanup cl x false (decide (name ∈ cl.choice))) ∧
    (name ∈ cl.keep → ∀ r fc, cleanup cl x false (decide (name ∈ cl.choice)) = .ok r →
      (r.2 = true ∨ r.1.1 ∈ cl.keep) →
      cleanup cl (.elem name false (.list [x])) fc false = .ok ((name, false, .list [r.1.toVal]), true)) :=
  ⟨fun hk => cleanup_squash_in_container cl name x hT hs hk,
   fun hk r fc hx hc => cleanup_kept_in_container cl name x r fc hT hs hk hx hc⟩

/-- **No exceptions.** Let the raw tree be built the way the parser builds trees (`wellTyped`: leaves hold `None`,
token text or a flattened sequence; inner nodes hold a non-empty list of elements; a squash symbol has exactly one
child) and let every node of a template symbol conform to the productions the template generates (`conforms P`,
`TplOK`: every template is well-formed, registered under its result symbol, and `P` lists its productions). Then the
clean-up — signature look-ups, positional indexing, squashing — never raises `AssertionError`, `IndexError` or
`AttributeError`: it returns, or raises Python's `TypeError` for an unhashable dictionary key (a key that is itself a
list or a map). -/
theorem no_exceptions (cl : Cleanuper) (P : Prods) (hT : TplOK cl P) (t : Val)
    (hw : wellTyped cl t = true) (hc : conforms P t = true) (fc fch : Bool) :
    (∃ r, cleanup cl t fc fch = .ok r) ∨ cleanup cl t fc fch = .error .typeError :=
  cleanup_fine cl P hT (sizeOf t + 1) t (Nat.lt_succ_self _) hw hc fc fch

/-- **Every symbol given to a template is honoured, wherever `AnyTokenExcept` stands.** `ProdSequence(*args)`: the
element productions are, in order, one one-symbol production per explicit symbol and, in place of the (single)
`AnyTokenExcept(*excluded)`, one per terminal that is not excluded — nothing listed before or after the pseudo-item is
lost. The same for a list of productions of an ordinary symbol (`_make_prod_rules_list`, e.g. the item symbol of a
list): `None`, tuples and the expansion of `AnyTokenExcept` in the order written. -/
theorem any_token_except (terminals : List Name) :
    (∀ args out res, seqSymbols terminals args = .ok out →
      out = args.flatMap (SymArg.denote terminals) ∧ (∀ s, SymArg.sym s ∈ args → s ∈ out) ∧
      lookup (seqGenProds res out) (res ++ seqElemSuffix) = some (out.map fun s => [s])) ∧
    (∀ prods seen out, prodRules terminals prods seen = .ok out →
      out = prods.flatMap (ProdArg.denote terminals) ∧ (∀ p, ProdArg.tuple p ∈ prods → p ∈ out)) := by
  refine ⟨fun args out res h => ?_, fun prods seen out h => ?_⟩
  · have e := seqSymbols_ok h
    refine ⟨e, ?_, lookup_seqGenProds_elem res out⟩
    intro s hs
    rw [e]
    exact List.mem_flatMap.mpr ⟨_, hs, by simp [SymArg.denote]⟩
  · have e := prodRules_ok h
    refine ⟨e, ?_⟩
    intro p hp
    rw [e]
    exact List.mem_flatMap.mpr ⟨_, hp, by simp [ProdArg.denote]⟩

/-- **Squash data** (`StdCleanuper._make_squash_data`): the squash symbols are the non-suffix symbols of `prods_map`
(in its order) all of whose rules have at most one symbol; the choice symbols are those among them with more than one
one-symbol rule. -/
theorem squash_data (P : Prods) (suffix : List Name) :
    mkSquashData P suffix =
      ((P.filter (squashOK suffix)).map (·.1),
       ((P.filter (squashOK suffix)).filter fun p => 1 < (p.2.filter fun r => r.length = 1).length).map (·.1)) :=
  mkSquashData_eq P suffix

/-- **One entry per item / pair, whatever the length** (lists of 1000 or 5000 items are not special: the model walks the
tail chain by structural recursion, there is no fuel and no bound). For a raw tree of a list whose derivation holds the
item subtrees `items` (`list_derivations`), a successful clean-up returns the list `adjust o (map entry es)` where `es` are
the cleaned items, exactly `items.length` of them; `adjust` keeps the length, or — only when the last cleaned entry is
`None` (the two documented cases: final delimiter allowed and written as an empty last item; bracket-less list holding a
single `None`) — drops exactly that entry. For a map with the pairs `pairs` the dict is built from exactly `pairs.length`
cleaned (key, value) pairs and has at most that many entries (`dict_key_order`: the distinct keys). -/
theorem one_entry_per_item (cl : Cleanuper) :
    (∀ (o : ListOpts) (_ : o.WF) (_ : lookup cl.templates o.result = some (.list o)) (t : Val) (items : List Val)
        (fin : Bool) (_ : ListShape o t (some (items, fin))) (fc fch : Bool) (res : El × Bool)
        (_ : cleanup cl t fc fch = .ok res),
      ∃ es, cleanItems cl items = .ok es ∧ es.length = items.length ∧
        res = ((o.result, true, .list (adjust o (es.map entry))), fch) ∧
        ((adjust o (es.map entry)).length = items.length ∨
          ((adjust o (es.map entry)).length + 1 = items.length ∧ lastIsNone (es.map entry) = true))) ∧
    (∀ (o : MapOpts) (_ : o.WF) (_ : lookup cl.templates o.result = some (.map o)) (t : Val)
        (pairs : List (Val × Val)) (fin : Bool) (_ : MapShape o t (some (pairs, fin))) (fc fch : Bool) (res : El × Bool)
        (_ : cleanup cl t fc fch = .ok res),
      ∃ kvs d, cleanPairs cl pairs = .ok kvs ∧ kvs.length = pairs.length ∧ pyDict kvs = .ok d ∧
        res = ((o.result, true, .dict d), fch) ∧ d.length ≤ pairs.length) :=
  ⟨fun o wf hT _ _ _ hs fc fch res hres => list_length cl o wf hT hs fc fch res hres,
   fun o wf hT _ _ _ hs fc fch res hres => map_length cl o wf hT hs fc fch res hres⟩

/-- **Every length occurs** (the statements about "every conforming raw tree" are not vacuous for long lists): for
`LIST = ListProds('[', 'ITEM', ',', ']')` and every `n` the raw tree of `[a, a, …, a]` with `n + 1` items (`lenTree n`: a
tail chain `n` levels deep) conforms to the generated productions, is a list derivation with exactly these `n + 1` item
subtrees, and its clean-up — whatever the flags — is the Python list of `n + 1` strings `'a'`. -/
theorem any_length (n : Nat) (fc fch : Bool) :
    conforms lenOpts.genProds (lenTree n) = true ∧
    ListShape lenOpts (lenTree n) (some (List.replicate (n + 1) lenItem, false)) ∧
    cleanup lenCl (lenTree n) fc fch =
      .ok (("LIST".toList, true, .list (List.replicate (n + 1) (.str "a".toList))), fch) :=
  ⟨lenTree_conforms n, lenTree_shape n, lenTree_clean n fc fch⟩

/-- **A container that may be absent, in front of other symbols** (grammars *around* the containers). For every parser
the constructor model returns (`constructT`: template expansion + the LL model's factorisation, nullables, FIRST, FOLLOW,
table):
(1) the symbol of an optional or bracket-less `ListProds` / `MapProds` and of every `ProdSequence` is a *nullable* symbol
of the parser — the text may go on with what follows the container;
(2) the FIRST sets the parse table is built from see through a nullable prefix of every production of the user's
(expanded) dictionary: for `A -> pre s post` with every symbol of `pre` nullable (absent optional containers, empty
bracket-less ones, sequences), `s` itself (a terminal) resp. every token of FIRST(`s`) is in FIRST(`A`) — however many
non-terminals the first token of `s` comes through and wherever they stand in the dictionary. So the parents of `A` get
the table cells for a text in which the leading containers are absent.
Hypotheses: the iteration order handed in for `AnyTokenExcept` and the names handed to the templates contain no `__`
(a template argument spelled like a factorisation helper, `ListProds('[', 'B__S00', …)`, is not rejected by the
constructor — neither by the model nor by the code — and is outside this statement). -/
theorem absent_container_first (groups : List Name) (syn : List (Name × Name)) (skip : Option (List Name))
    (start : Name) (smart : Bool) (keep termOrder : List Name) (entries : List (Name × GramEntry)) (TP : TParser)
    (hterms : ∀ t ∈ termOrder, LL.hasDunder t = false)
    (hnd : ∀ C e, (C, e) ∈ entries → ∀ n ∈ e.argNames, LL.hasDunder n = false)
    (h : constructT groups syn skip start smart keep termOrder entries = .ok TP) :
    (∀ C a, (C, GramEntry.list a) ∈ entries → (a.optional = some true ∨ a.openBr = none) →
        LL.parseSym C ∈ TP.ll.nullables) ∧
    (∀ C a, (C, GramEntry.map a) ∈ entries → (a.optional = some true ∨ a.openBr = none) →
        LL.parseSym C ∈ TP.ll.nullables) ∧
    (∀ C args, (C, GramEntry.seq args) ∈ entries → LL.parseSym C ∈ TP.ll.nullables) ∧
    (∀ A rules r pre s post, (A, rules) ∈ TP.ll.userProds → r ∈ rules → r.rhs = pre ++ s :: post →
        (∀ x ∈ pre, x ∈ TP.ll.nullables) →
        ∃ f, LL.dget A TP.ll.first = some f ∧ (s ∈ TP.ll.terminals → s ∈ f) ∧
          (∀ g t, LL.dget s TP.ll.first = some g → t ∈ g → t ∈ f)) := by
  have hargs := argNames_plain_of_noDunder entries hnd
  refine ⟨?_, ?_, ?_, ?_⟩
  · intro C a hm ho
    rcases ho with ho | ho
    · exact optional_list_nullable hterms h hargs C a hm ho
    · exact bracketless_list_nullable hterms h hargs C a hm ho
  · intro C a hm ho
    rcases ho with ho | ho
    · exact optional_map_nullable hterms h hargs C a hm ho
    · exact bracketless_map_nullable hterms h hargs C a hm ho
  · intro C args hm
    exact seq_nullable hterms h hargs C args hm
  · intro A rules r pre s post hm hr hrhs hpre
    exact first_through_nullable_prefix hterms h hargs A rules r pre s post hm hr hrhs hpre

/-- **… stated on the production as the user wrote it.** `(A, [… (pre…, s, post…) …])` an entry of the `productions`
dictionary given to the constructor, every name of `pre` a nullable symbol of the constructed parser: FIRST(`A`) exists and
contains `s` (a terminal) resp. all of FIRST(`s`). E.g. `DECL -> ATTRS BODY ';'`, `ATTRS = ListProds(…, optional=True)`:
FIRST(`BODY`) ⊆ FIRST(`DECL`). -/
theorem written_production_first (groups : List Name) (syn : List (Name × Name)) (skip : Option (List Name))
    (start : Name) (smart : Bool) (keep termOrder : List Name) (entries : List (Name × GramEntry)) (TP : TParser)
    (hterms : ∀ t ∈ termOrder, LL.hasDunder t = false)
    (hnd : ∀ C e, (C, e) ∈ entries → ∀ n ∈ e.argNames, LL.hasDunder n = false)
    (h : constructT groups syn skip start smart keep termOrder entries = .ok TP)
    (A : Name) (ps : List ProdArg) (hm : (A, GramEntry.plain ps) ∈ entries) (p : List Name)
    (hp : ProdArg.tuple p ∈ ps) (pre : List Name) (s : Name) (post : List Name) (hrhs : p = pre ++ s :: post)
    (hpre : ∀ x ∈ pre, LL.parseSym x ∈ TP.ll.nullables) :
    ∃ f, LL.dget (LL.parseSym A) TP.ll.first = some f ∧ (LL.parseSym s ∈ TP.ll.terminals → LL.parseSym s ∈ f) ∧
      (∀ g t, LL.dget (LL.parseSym s) TP.ll.first = some g → t ∈ g → t ∈ f) :=
  Templates.written_production_first hterms h (argNames_plain_of_noDunder entries hnd) A ps hm p hp pre s post hrhs hpre

/-! Non-vacuity: the hypotheses hold for `LIST = ListProds('[', 'ITEM', ',', ']')`, `MAP = MapProds('{', 'WORD', ':',
'VALUE', ',', '}')` and concrete raw trees, and the kernel evaluates the model on them. -/

private def exL : ListOpts :=
  ⟨some "[".toList, "ITEM".toList, some ",".toList, some "]".toList, true, false, "LIST".toList⟩
private def exM : MapOpts :=
  ⟨some "{".toList, "WORD".toList, ":".toList, "VALUE".toList, ",".toList, some "}".toList, false, true, "MAP".toList⟩
private def exCl : Cleanuper :=
  { templates := [("LIST".toList, .list exL), ("MAP".toList, .map exM)], choice := ["VALUE".toList],
    keep := ["E".toList], squash := ["ITEM".toList, "VALUE".toList] }
private def tok (n s : String) : Val := .elem n.toList true (.str s.toList)
private def nd (n : String) (xs : List Val) : Val := .elem n.toList false (.list xs)
private def gnd (n : String) (suffix : Name) (xs : List Val) : Val := .elem (n.toList ++ suffix) false (.list xs)
private def item (s : String) : Val := nd "ITEM" [tok "WORD" s]
/-- raw tree of `[a, b,]` -/
private def exT : Val :=
  nd "LIST" [tok "[" "[", item "a",
    gnd "LIST" tailSuffix [tok "," ",", item "b", gnd "LIST" tailSuffix [tok "," ","]], tok "]" "]"]
/-- raw tree of `{k: x, z: y, k: w}` -/
private def kv (k v : String) : Val :=
  gnd "MAP" kvPairSuffix [tok "WORD" k, tok ":" ":", nd "VALUE" [tok "WORD" v]]
private def exMT : Val :=
  nd "MAP" [tok "{" "{", kv "k" "x",
    gnd "MAP" kvTailSuffix [tok "," ",", kv "z" "y",
      gnd "MAP" kvTailSuffix [tok "," ",", kv "k" "w", .elem ("MAP".toList ++ kvTailSuffix) true .none]], tok "}" "}"]

example : mkListOpts ⟨some "[".toList, "ITEM".toList, some ",".toList, some "]".toList, none, none⟩ "LIST".toList =
    .ok exL := by rfl
example : exL.WF := by constructor <;> decide
example : exM.WF := by constructor <;> decide
example : conforms exL.genProds exT = true := by decide
example : conforms exM.genProds exMT = true := by decide
example : cleanup exCl exT false false =
    .ok (("LIST".toList, true, .list [.str "a".toList, .str "b".toList]), false) := by rfl
example : cleanup exCl exMT false false =
    .ok (("MAP".toList, true, .dict [(.str "k".toList, .str "w".toList), (.str "z".toList, .str "y".toList)]), false) := by
  rfl
example : flattenSeq (nd "S" [nd "S__ELEMENT" [tok "WORD" "a"], nd "S" [nd "S__ELEMENT" [tok "WORD" "b"],
    .elem "S".toList true .none]]) = .ok (.elem "S".toList true (.list [tok "WORD" "a", tok "WORD" "b"])) := by rfl

/-- `VALUE -> WORD | LIST | MAP` with `LIST = ListProds('[', 'VALUE', ',', ']')` -/
private def exLV : ListOpts :=
  ⟨some "[".toList, "VALUE".toList, some ",".toList, some "]".toList, true, false, "LIST".toList⟩
private def exG : JsonG where
  cl := { templates := [("LIST".toList, .list exLV), ("MAP".toList, .map exM)], choice := ["VALUE".toList],
          keep := ["E".toList], squash := ["VALUE".toList] }
  value := "VALUE".toList
  word := "WORD".toList
  lo := exLV
  mo := exM
  lwf := by constructor <;> decide
  mwf := by constructor <;> decide
  item_value := rfl
  key_word := rfl
  val_value := rfl
  tpl_list := rfl
  tpl_map := rfl
  tpl_value := rfl
  tpl_word := rfl
  squash_value := by decide
  choice_value := by decide
  keep_value := by decide
private def vw (s : String) : Val := nd "VALUE" [tok "WORD" s]
/-- raw tree of `{k: b}` as a value, of `[a, {k: b}]` as a value -/
private def exKV : Val := gnd "MAP" kvPairSuffix [tok "WORD" "k", tok ":" ":", vw "b"]
private def exNM : Val :=
  nd "MAP" [tok "{" "{", exKV, .elem ("MAP".toList ++ kvTailSuffix) true .none, tok "}" "}"]
private def exNL : Val :=
  nd "LIST" [tok "[" "[", vw "a",
    gnd "LIST" tailSuffix [tok "," ",", nd "VALUE" [exNM], .elem ("LIST".toList ++ tailSuffix) true .none],
    tok "]" "]"]
example : Den exG 3 (nd "VALUE" [exNL]) (.list [.word "a".toList, .map [("k".toList, .word "b".toList)]]) := by
  refine Or.inr (Or.inl ⟨exNL, [vw "a", nd "VALUE" [exNM]], false, _, rfl, ?_, rfl, ?_⟩)
  · exact .br _ _ _ _ _ _ _ _ _ _ _ rfl rfl (.consSome _ _ _ _ _ _ _ _ rfl .nil)
  · refine ⟨Or.inl ⟨_, rfl, rfl⟩, ?_, trivial⟩
    refine Or.inr (Or.inr ⟨exNM, [(tok "WORD" "k", vw "b")], false, _, rfl, ?_, rfl, ?_⟩)
    · exact .br _ _ _ _ _ _ exKV _ _ _ _ _ rfl rfl (.mk _ _ _ _ _ _) .nil
    · exact ⟨rfl, Or.inl ⟨_, rfl, rfl⟩, trivial⟩
example : (match cleanup exG.cl (nd "VALUE" [exNL]) true false with
    | .ok r => some (entry r.1)
    | .error _ => none) =
    some (.list [.str "a".toList, .dict [(.str "k".toList, .str "b".toList)]]) := by rfl

example : TplOK exG.cl (exLV.genProds ++ exM.genProds) := by
  constructor
  · intro name o h
    simp only [exG, lookup] at h
    split at h
    · cases h
      exact ⟨by assumption, by constructor <;> decide, by decide, by decide⟩
    · split at h
      · cases h
      · cases h
  · intro name o h
    simp only [exG, lookup] at h
    split at h
    · cases h
    · split at h
      · cases h
        exact ⟨by assumption, by constructor <;> decide, by decide, by decide, by decide⟩
      · cases h
example : wellTyped exG.cl (nd "VALUE" [exNL]) = true := by decide
example : conforms (exLV.genProds ++ exM.genProds) (nd "VALUE" [exNL]) = true := by decide

private def exP : Prods :=
  ("VALUE".toList, [["WORD".toList], ["LIST".toList], ["MAP".toList]]) :: (exLV.genProds ++ exM.genProds)
example : JsonP exG exP := by
  constructor <;> first | rfl | decide
example : conforms exP (nd "VALUE" [exNL]) = true := by decide
example : TokOK exG (vw "a") := by
  intro y hy l v e
  simp [vw, nd, tok, preorder_node, preorderAll_cons, preorderAll_nil, preorder] at hy
  rcases hy with rfl | rfl
  · simp [exG] at e
  · simp [exG] at e
    obtain ⟨rfl, rfl⟩ := e
    exact ⟨rfl, _, rfl⟩

/-- `MapProds('{', 'WORD', '=', 'WORD', ',', '}')`: key symbol = value symbol (the positions of key and value in a pair
are fixed, 0 and 2; `map_items` has no hypothesis about these symbols). Raw tree of `{x = y, x = z}`. -/
private def exM2 : MapOpts :=
  ⟨some "{".toList, "WORD".toList, "=".toList, "WORD".toList, ",".toList, some "}".toList, false, true, "M".toList⟩
private def kv2 (k v : String) : Val := gnd "M" kvPairSuffix [tok "WORD" k, tok "=" "=", tok "WORD" v]
example : exM2.WF := by constructor <;> decide
example : cleanup { templates := [("M".toList, .map exM2)], choice := [], keep := [], squash := [] }
    (nd "M" [tok "{" "{", kv2 "x" "y", gnd "M" kvTailSuffix [tok "," ",", kv2 "x" "z",
      .elem ("M".toList ++ kvTailSuffix) true .none], tok "}" "}"]) false false =
    .ok (("M".toList, true, .dict [(.str "x".toList, .str "z".toList)]), false) := by rfl
example : seqSymbols ["W".toList, "[".toList, "]".toList]
    [.anyExcept ["[".toList, "]".toList], .sym "LIST".toList, .sym "MAP".toList] =
    .ok ["W".toList, "LIST".toList, "MAP".toList] := by decide

/-- the constructor model accepts the json grammar (both settings), and the kernel runs the whole path on `[a, {k: b},]` -/
example : (match jsonT true with | .ok _ => true | .error _ => false) = true := by decide +kernel
example : (match jsonT false with | .ok _ => true | .error _ => false) = true := by decide +kernel
private def exRaw : List (Name × List Char) :=
  [(nm "[", nm "["), (nm "WORD", nm "a"), (nm ",", nm ","), (nm "SPACE", nm " "), (nm "{", nm "{"), (nm "WORD", nm "k"),
   (nm ":", nm ":"), (nm "WORD", nm "b"), (nm "}", nm "}"), (nm ",", nm ","), (nm "]", nm "]")]
example : Lex exRaw (toksV (.list [.word (nm "a"), .map [(nm "k", .word (nm "b"))] false] true)) := by
  simp only [toksV, toksTail, toksElems, exRaw]
  exact .tok (tk "[") (.tok ⟨sy "WORD", nm "a"⟩ (.tok (tk ",") (.space _ (.tok (tk "{") (.tok ⟨sy "WORD", nm "k"⟩
    (.tok (tk ":") (.tok ⟨sy "WORD", nm "b"⟩ (.tok (tk "}") (.tok (tk ",") (.tok (tk "]") .nil))))))))))
example : (match jsonT false with
    | .ok T => (match T.parseClean exRaw 1000 with
        | .ok (.elem _ _ (.list [.elem _ true (.list [.str a, .dict [(.str k, .str b)]])])) =>
          decide (a = nm "a" ∧ k = nm "k" ∧ b = nm "b")
        | _ => false)
    | .error _ => false) = true := by decide +kernel
example : (match jsonT true with
    | .ok T => (match T.parseClean exRaw 1000 with
        | .ok (.elem _ _ (.list [.elem _ true (.list [.str a, .dict [(.str k, .str b)]])])) =>
          decide (a = nm "a" ∧ k = nm "k" ∧ b = nm "b")
        | _ => false)
    | .error _ => false) = true := by decide +kernel

example : strLines "[a, // page 1\x0cb, c,\n d]  ".toList = ["[a, // page 1\x0cb, c,".toList, " d]".toList] := by decide

/-- `ProdSequence('VALUE', ';')` on `a ; [b]`: the entries are the matched `WORD` / `;` / `LIST` elements themselves -/
private def exSeqCl : Cleanuper :=
  ⟨[("LIST".toList, .list exLV)], ["VALUE".toList, "S__ELEMENT".toList], ["E".toList],
   ["E".toList, "VALUE".toList, "S__ELEMENT".toList]⟩
example : cleanup exSeqCl
    (.elem "S".toList true (.list [vw "a", tok ";" ";", nd "VALUE" [nd "LIST" [tok "[" "[", vw "b",
      .elem ("LIST".toList ++ tailSuffix) true .none, tok "]" "]"]]])) false false =
    .ok (("S".toList, true, .list [tok "WORD" "a", tok ";" ";", .elem "LIST".toList true (.list [.str "b".toList])]),
      false) := by rfl

/-! `absent_container_first` / `written_production_first`: the hypotheses are satisfiable — `jsonT` above is a successful
`constructT` whose terminal order and template arguments contain no `__`; the same for a grammar of the shape
`E -> DECL`, `DECL -> ATTRS BODY ';'`, `ATTRS = ListProds('[', 'WORD', ',', ']', optional=True)`, `BODY -> NAME ARGS`,
`NAME -> WORD`, `ARGS = ListProds('(', 'WORD', ',', ')', optional=True)` (its constructor run and the parse of `f ;` are
exercised by the differential run, family f10; evaluating them in the kernel takes minutes and is left out). -/
private def declEntries : List (Name × GramEntry) :=
  [(nm "E", .plain [.tuple [nm "DECL"]]),
   (nm "DECL", .plain [.tuple [nm "ATTRS", nm "BODY", nm ";"]]),
   (nm "ATTRS", .list ⟨some (nm "["), nm "WORD", some (nm ","), some (nm "]"), none, some true⟩),
   (nm "BODY", .plain [.tuple [nm "NAME", nm "ARGS"]]),
   (nm "ARGS", .list ⟨some (nm "("), nm "WORD", some (nm ","), some (nm ")"), none, some true⟩),
   (nm "NAME", .plain [.tuple [nm "WORD"]])]
example : ∀ t ∈ jsonGroups, LL.hasDunder t = false := by decide
example : ∀ p ∈ jsonEntries, ∀ n ∈ p.2.argNames, LL.hasDunder n = false := by decide
example : ∀ p ∈ declEntries, ∀ n ∈ p.2.argNames, LL.hasDunder n = false := by decide

end C05
