import AkVerif.Model.Templates
namespace C05
end C05
