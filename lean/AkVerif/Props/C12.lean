import AkVerif.Lemmas.TableRender
import AkVerif.Lemmas.TableWidthInv
import AkVerif.Model.TableFmt
/-!
# C12 — tables are rectangular, aligned, width-bounded and account for every record

Property theorems only, about `Table.render` (the function `Drv/C12.lean` executes) and its parts.
`Table.Rendered t t' ls tls ws nTitle body` (Lemmas/Table.lean) is nothing but `render t = .ok (t', ls)`
unfolded: `tls` are the body lines before limits (records and break lines), `ws` the columns with
their negotiated widths, `body` the printed body lines, and
`ls = border, header?, titles, border, body, border, footer?`.
-/
namespace C12
open Table Ak

/-- the marks the statement talks about, as they are in the source now: three dots, `|`, `+`, `-` -/
theorem marks : Gen.C12.dotsMax = 3 ∧ Gen.C12.dotChar = '.' ∧ Gen.C12.sepChar = '|' ∧
    Gen.C12.cornerChar = '+' ∧ Gen.C12.dashChar = '-' := by decide

/-- `resize_chunks_list(chunks, n)` has exactly `n` visible characters: the text cut to `n`, or
padded with blanks; and `Table.resizeChunks` *is* the `resize_chunks_list` of the `CHText` model (C08) -/
theorem resize_exact (cs : Chunks) (n : Nat) :
    textOf (resizeChunks cs n) = (textOf cs ++ blanks (n - (textOf cs).length)).take n ∧
    (textOf (resizeChunks cs n)).length = n ∧
    CHText.resizeChunks cs (n : Int) = .ok (resizeChunks cs n) := by
  refine ⟨resizeChunks_flatten cs n, ?_, resizeChunks_eq_chtext cs n⟩
  rw [resizeChunks_flatten, List.length_take, List.length_append, blanks_length]
  omega

/-- `fit_to_width` yields exactly `w` visible characters: the whole text padded on the side the
alignment asks for, or — when the text is too long — its first `w - min 3 w` characters followed by
`min 3 w` dots. Nothing else ever gets into a cell. (`blanks n` is `n` blanks: `blanks_are_blanks`.) -/
theorem fit_exact (cs : Chunks) (w : Nat) (a : Align) :
    (textOf (fitToWidth cs w a)).length = w ∧
    ((textOf cs).length ≤ w → textOf (fitToWidth cs w a) =
      match a with
      | .left => textOf cs ++ blanks (w - (textOf cs).length)
      | .right => blanks (w - (textOf cs).length) ++ textOf cs
      | .center => blanks ((w - (textOf cs).length) / 2) ++ textOf cs
          ++ blanks ((w - (textOf cs).length) - (w - (textOf cs).length) / 2)) ∧
    (w < (textOf cs).length → textOf (fitToWidth cs w a) =
      (textOf cs).take (w - min 3 w) ++ List.replicate (min 3 w) '.') := by
  rw [fitToWidth_flatten]
  refine ⟨fitSpec_length _ _ _, ?_, ?_⟩
  · intro h
    unfold fitSpec
    simp only [h, if_true]
    cases a <;> rfl
  · intro h
    have : ¬ (textOf cs).length ≤ w := by omega
    unfold fitSpec
    simp only [this, if_false]
    rw [marks.1, marks.2.1]

/-- the padding is made of blanks -/
theorem blanks_are_blanks (n : Nat) : blanks n = List.replicate n ' ' := by
  have : Gen.C08.padChar = ' ' := by decide
  simp [blanks, CHText.spaces, this]

/-- Width bounds. After a table has been printed every column has a width `w ≤ max`, and
`min ≤ w` whenever the configured bounds are consistent (`min ≤ max`); the columns themselves are
unchanged. The hypothesis (widths already present satisfy the bounds) holds for a fresh table —
no widths yet — and is re-established by this very theorem; `reach_width_inv` below proves it for every
reachable state and `width_bounds_reachable` is this theorem without the hypothesis. -/
theorem width_bounds (t t' : Tbl) (ls : List Line) (h : render t = .ok (t', ls))
    (hinv : ∀ c ∈ t.fmt.cols, ∀ w, c.width = some w → w ≤ c.maxW ∧ (c.minW ≤ c.maxW → c.minW ≤ w)) :
    t'.fmt.cols.map (fun c => { c with width := Option.none })
      = t.fmt.cols.map (fun c => { c with width := Option.none }) ∧
    ∀ c ∈ t'.fmt.cols, ∃ w, c.width = some w ∧ w ≤ c.maxW ∧ (c.minW ≤ c.maxW → c.minW ≤ w) := by
  obtain ⟨tls, ws, nTitle, body, R⟩ := render_elim h
  obtain ⟨h1, h2⟩ := finalWidths_ok _ _ ws R.ws_eq hinv
  rw [R.state_eq]
  simp only [printed, setWidths]
  constructor
  · rw [← h1]; simp [List.map_map, Function.comp_def]
  · intro c hc
    simp only [List.mem_map] at hc
    obtain ⟨cw, hcw, rfl⟩ := hc
    exact ⟨cw.2, rfl, h2 cw hcw⟩

/-- The hypothesis of `width_bounds` holds in every reachable state (`Table.Reach`, Lemmas/TableReach.lean: a table
built by the constructor — with or without `fields=` —, from column objects, or with `fmt_obj=` from another
reachable table's format; then printed, re-formatted through `table.fmt = …`, rebuilt, `set_limits`,
`remove_columns`, in any order): a column that has a negotiated width has it inside its bounds. Every step but
printing leaves the columns without a width; printing is `width_bounds`. -/
theorem reach_width_inv (a : CtorArgs) (t : Tbl) (hr : Reach a t) :
    ∀ c ∈ t.fmt.cols, ∀ w, c.width = some w → w ≤ c.maxW ∧ (c.minW ≤ c.maxW → c.minW ≤ w) :=
  reach_widthInv hr

/-- Width bounds, in every reachable state, no hypothesis left: whenever a reachable table is printed, every
column gets a width `w ≤ max`, and `min ≤ w` when `min ≤ max`. -/
theorem width_bounds_reachable (a : CtorArgs) (t t' : Tbl) (ls : List Line) (hr : Reach a t)
    (h : render t = .ok (t', ls)) :
    ∀ c ∈ t'.fmt.cols, ∃ w, c.width = some w ∧ w ≤ c.maxW ∧ (c.minW ≤ c.maxW → c.minW ≤ w) :=
  (width_bounds t t' ls h (reach_width_inv a t hr)).2

/-- Rectangular. Every printed line — borders, header, titles, records, break lines, the
skipped-records line, footer — has the same number of visible characters:
`Σ widths + number of columns + 1`, for the widths the printed state records. -/
theorem rectangular (t t' : Tbl) (ls : List Line) (h : render t = .ok (t', ls)) :
    ∃ widths : List Nat, widths ≠ [] ∧ t'.fmt.cols.map (·.width) = widths.map some ∧
      ∀ l ∈ ls, l.text.length = widths.sum + widths.length + 1 := by
  obtain ⟨tls, ws, nTitle, body, R⟩ := render_elim h
  have hne : ws.map (·.2) ≠ [] := by simpa using R.ws_ne
  have h2 := tableWidth_ge_two _ hne
  refine ⟨ws.map (·.2), hne, ?_, ?_⟩
  · rw [R.state_eq]; simp [printed, setWidths, List.map_map, Function.comp_def]
  · intro l hl
    rw [R.lines_eq] at hl
    show l.text.length = tableWidth (ws.map (·.2))
    simp only [List.mem_append, List.mem_singleton] at hl
    rcases hl with (((((hl | hl) | hl) | hl) | hl) | hl) | hl
    · subst hl; exact borderText_length _
    · unfold headerLinesOf at hl
      split at hl
      · split at hl
        · simp at hl
        · simp only [List.mem_singleton] at hl; subst hl; exact framed_length _ _ h2
      · simp at hl
    · simp only [titleLinesOf, List.mem_map] at hl
      obtain ⟨i, _, rfl⟩ := hl
      simp [joinCells_length, titleCells_lengths]
    · subst hl; exact borderText_length _
    · exact bodyLines_length ws _ _ body R.ws_ne R.body_eq l hl
    · subst hl; exact borderText_length _
    · unfold footerLinesOf at hl
      split at hl
      · simp at hl
      · simp only [List.mem_singleton] at hl; subst hl; exact fitText_length _ _

/-- Separators. The first line is the border `+---+--+` built from the widths; every border line
is that very line; every title and record line has a `|` at each position where the border has
a `+`; header, break and skipped-records lines start and end with `|`. -/
theorem separators (t t' : Tbl) (ls : List Line) (h : render t = .ok (t', ls)) :
    ∃ widths : List Nat, t'.fmt.cols.map (·.width) = widths.map some ∧
      ls.head? = some ⟨.border, borderText widths⟩ ∧
      (∀ l ∈ ls, l.kind = .border → l.text = borderText widths) ∧
      (∀ l ∈ ls, l.kind = .title ∨ l.kind = .record →
        ∀ p : Nat, (borderText widths)[p]? = some '+' → l.text[p]? = some '|') ∧
      (∀ l ∈ ls, l.kind = .header ∨ l.kind = .brk ∨ l.kind = .skipped →
        l.text.head? = some '|' ∧ l.text.getLast? = some '|') := by
  obtain ⟨tls, ws, nTitle, body, R⟩ := render_elim h
  have hdash : Gen.C12.dashChar ≠ Gen.C12.cornerChar := by decide
  have hcorner : Gen.C12.cornerChar = '+' := marks.2.2.2.1
  have hsep : sep = '|' := marks.2.2.1
  -- facts about body lines
  have hbody : ∀ l ∈ body, (l.kind = .record → ∃ cells, cells.map List.length = ws.map (·.2) ∧
        l.text = joinCells cells) ∧ l.kind ≠ .border ∧ l.kind ≠ .title ∧ l.kind ≠ .header ∧
        (l.kind = .brk ∨ l.kind = .skipped → l.text.head? = some '|' ∧ l.text.getLast? = some '|') := by
    intro l hl
    obtain ⟨tl, _, htl⟩ := bodyLines_mem _ _ _ _ _ R.body_eq l hl
    cases tl with
    | row r =>
      simp only [bodyLine, bind_ok] at htl
      obtain ⟨cells, hc, htl⟩ := htl
      cases htl
      exact ⟨fun _ => ⟨cells, recordCells_lengths r ws cells hc, rfl⟩, by simp, by simp, by simp, by simp⟩
    | brk =>
      simp only [bodyLine] at htl
      cases htl
      simp [hsep, getLast_frame]
    | skipped =>
      simp only [bodyLine] at htl
      cases htl
      simp [framed, hsep, getLast_frame]
  refine ⟨ws.map (·.2), ?_, ?_, ?_, ?_, ?_⟩
  · rw [R.state_eq]; simp [printed, setWidths, List.map_map, Function.comp_def]
  · rw [R.lines_eq]; simp [borderLine]
  · intro l hl hk
    rw [R.lines_eq] at hl
    simp only [List.mem_append, List.mem_singleton] at hl
    rcases hl with (((((hl | hl) | hl) | hl) | hl) | hl) | hl
    · subst hl; rfl
    · unfold headerLinesOf at hl
      split at hl
      · split at hl
        · simp at hl
        · simp only [List.mem_singleton] at hl; subst hl; simp at hk
      · simp at hl
    · simp only [titleLinesOf, List.mem_map] at hl
      obtain ⟨i, _, rfl⟩ := hl
      simp at hk
    · subst hl; rfl
    · exact absurd hk (hbody l hl).2.1
    · subst hl; rfl
    · unfold footerLinesOf at hl
      split at hl
      · simp at hl
      · simp only [List.mem_singleton] at hl; subst hl; simp at hk
  · intro l hl hk p hp
    rw [← hcorner] at hp
    rw [← hsep]
    rw [R.lines_eq] at hl
    simp only [List.mem_append, List.mem_singleton] at hl
    rcases hl with (((((hl | hl) | hl) | hl) | hl) | hl) | hl
    · subst hl; simp [borderLine] at hk
    · unfold headerLinesOf at hl
      split at hl
      · split at hl
        · simp at hl
        · simp only [List.mem_singleton] at hl; subst hl; simp at hk
      · simp at hl
    · simp only [titleLinesOf, List.mem_map] at hl
      obtain ⟨i, _, rfl⟩ := hl
      exact joinCells_aligned hdash _ _ (titleCells_lengths i ws) p hp
    · subst hl; simp [borderLine] at hk
    · rcases hk with hk | hk
      · exact absurd hk (hbody l hl).2.2.1
      · obtain ⟨cells, hc, ht⟩ := (hbody l hl).1 hk
        rw [ht]
        exact joinCells_aligned hdash _ _ hc p hp
    · subst hl; simp [borderLine] at hk
    · unfold footerLinesOf at hl
      split at hl
      · simp at hl
      · simp only [List.mem_singleton] at hl; subst hl; simp at hk
  · intro l hl hk
    rw [R.lines_eq] at hl
    simp only [List.mem_append, List.mem_singleton] at hl
    rcases hl with (((((hl | hl) | hl) | hl) | hl) | hl) | hl
    · subst hl; simp [borderLine] at hk
    · unfold headerLinesOf at hl
      split at hl
      · split at hl
        · simp at hl
        · simp only [List.mem_singleton] at hl; subst hl; simp [framed, hsep, getLast_frame]
      · simp at hl
    · simp only [titleLinesOf, List.mem_map] at hl
      obtain ⟨i, _, rfl⟩ := hl
      simp at hk
    · subst hl; simp [borderLine] at hk
    · rcases hk with hk | hk
      · exact absurd hk (hbody l hl).2.2.2.1
      · exact (hbody l hl).2.2.2.2 hk
    · subst hl; simp [borderLine] at hk
    · unfold footerLinesOf at hl
      split at hl
      · simp at hl
      · simp only [List.mem_singleton] at hl; subst hl; simp at hk

/-- Cell content. The body is printed line for line from the visible lines `vis` (records,
break lines, the skipped line). For the `i`-th visible line, if it is the record `r`, then the
`i`-th body line is a record line and, for every column `j` (field `c.field`, width `w`), the `w`
characters after the `j`-th separator are exactly the fitted text of **that record's own value of
that column's field** (`fit_exact` says what fitting does: pad, or cut and end in dots). -/
theorem cell_content (t t' : Tbl) (ls : List Line) (h : render t = .ok (t', ls)) :
    ∃ tls ws nTitle body, Rendered t t' ls tls ws nTitle body ∧
      let vis := (applyLimits t.fmt.limF t.fmt.limL tls t.records.length).1
      body.length = vis.length ∧
      ∀ (i : Nat) (r : Record), vis[i]? = some (.row r) →
        ∃ line, body[i]? = some line ∧ line.kind = .record ∧
          ∀ (j : Nat) (c : Col) (w : Nat), ws[j]? = some (c, w) →
            ∃ v cell, fetch c.field r = .ok v ∧ cellOf c.field.ftype c.modifier v = .ok cell ∧
              (line.text.drop (colOffset (ws.map (·.2)) j + 1)).take w
                = textOf (fitToWidth cell.1 w cell.2) := by
  obtain ⟨tls, ws, nTitle, body, R⟩ := render_elim h
  refine ⟨tls, ws, nTitle, body, R, ?_⟩
  obtain ⟨hlen, hget⟩ := bodyLines_get _ _ _ _ _ R.body_eq
  refine ⟨hlen, ?_⟩
  intro i r hi
  obtain ⟨line, hline, hbl⟩ := hget i _ hi
  simp only [bodyLine, bind_ok] at hbl
  obtain ⟨cells, hcells, hbl⟩ := hbl
  cases hbl
  refine ⟨_, hline, rfl, ?_⟩
  intro j c w hj
  obtain ⟨v, cell, hv, hcell, hcj⟩ := recordCells_get r ws cells hcells j c w hj
  refine ⟨v, cell, hv, hcell, ?_⟩
  have := joinCells_slice cells j _ hcj
  rw [recordCells_lengths r ws cells hcells, fitText_length] at this
  exact this

/-- Service lines: what they contain. The body is printed line for line from the visible lines `vis`. Where `vis`
has the skipped-records mark, the body line is `|` + the message `... <n> records skipped` + `|`, with `n` the
announced number of `limits` (the very number `applyLimits` returns), the message padded with blanks to the inner
width of the table or, when the table is narrower than the message, cut and ended in dots like any cell. Where
`vis` has a break mark, the body line is `|`, blanks, `|`. Both are as wide as the table (`rectangular`). -/
theorem service_lines (t t' : Tbl) (ls : List Line) (h : render t = .ok (t', ls)) :
    ∃ tls ws nTitle body, Rendered t t' ls tls ws nTitle body ∧
      let vn := applyLimits t.fmt.limF t.fmt.limL tls t.records.length
      let tw := tableWidth (ws.map (·.2))
      let msg := Gen.C12.skippedPrefix ++ intToDec vn.2 ++ Gen.C12.skippedSuffix
      2 ≤ tw ∧
      (∀ i : Nat, vn.1[i]? = some TLine.skipped →
        ∃ inner, body[i]? = some (⟨.skipped, '|' :: (inner ++ ['|'])⟩ : Line) ∧ inner.length = tw - 2 ∧
          (msg.length ≤ tw - 2 → inner = msg ++ blanks (tw - 2 - msg.length)) ∧
          (tw - 2 < msg.length →
            inner = msg.take (tw - 2 - min 3 (tw - 2)) ++ List.replicate (min 3 (tw - 2)) '.')) ∧
      (∀ i : Nat, vn.1[i]? = some TLine.brk → body[i]? = some (⟨.brk, '|' :: (blanks (tw - 2) ++ ['|'])⟩ : Line)) := by
  obtain ⟨tls, ws, nTitle, body, R⟩ := render_elim h
  refine ⟨tls, ws, nTitle, body, R, ?_⟩
  have hsep : sep = '|' := marks.2.2.1
  obtain ⟨_, hget⟩ := bodyLines_get _ _ _ _ _ R.body_eq
  refine ⟨tableWidth_ge_two _ (by simpa using R.ws_ne), ?_, ?_⟩
  · intro i hi
    obtain ⟨line, hline, hbl⟩ := hget i _ hi
    simp only [bodyLine, Except.ok.injEq] at hbl
    subst hbl
    have hfit := fit_exact [plain Gen.C12.skippedPrefix,
      plain (intToDec (applyLimits t.fmt.limF t.fmt.limL tls t.records.length).2 ++ Gen.C12.skippedSuffix)]
      (tableWidth (ws.map (·.2)) - 2) .left
    have htext : textOf [plain Gen.C12.skippedPrefix,
        plain (intToDec (applyLimits t.fmt.limF t.fmt.limL tls t.records.length).2 ++ Gen.C12.skippedSuffix)]
        = Gen.C12.skippedPrefix ++ intToDec (applyLimits t.fmt.limF t.fmt.limL tls t.records.length).2
          ++ Gen.C12.skippedSuffix := by
      simp [textOf, plain]
    rw [htext] at hfit
    refine ⟨_, ?_, hfit.1, hfit.2.1, hfit.2.2⟩
    rw [hline]
    simp only [framed, fitText, hsep]
  · intro i hi
    obtain ⟨line, hline, hbl⟩ := hget i _ hi
    simp only [bodyLine, Except.ok.injEq] at hbl
    subst hbl
    rw [hline, hsep]

/-- a default-type cell is `str(value)`, numbers and keywords to the right -/
theorem cell_default (m : Option (List Char)) (v : Val) (cell : Chunks × Align)
    (h : cellOf .dflt m v = .ok cell) : textOf cell.1 = v.text ∧ cell.2 = v.align := by
  unfold cellOf at h
  by_cases hm : m = Option.none
  · simp [hm] at h; subst h; simp [dfltCell, textOf, plain]
  · simp [hm] at h

/-- No needless truncation. When a table is printed for the first time (no widths yet), every
column ends up at least as wide as each *visible* record's cell asks for, and as the title asks for,
up to the column's maximum: a default-type value of at most `max` characters is never cut
(`fit_exact` then says it is shown in full, padded). -/
theorem full_when_fits (t t' : Tbl) (ls : List Line) (h : render t = .ok (t', ls))
    (hfresh : ∀ c ∈ t.fmt.cols, c.width = Option.none) :
    ∃ tls ws nTitle body, Rendered t t' ls tls ws nTitle body ∧
      let vis := (applyLimits t.fmt.limF t.fmt.limL tls t.records.length).1
      (∀ cw ∈ ws, ∀ r, TLine.row r ∈ vis → ∀ v l, fetch cw.1.field r = .ok v →
        cellLen cw.1.field.ftype cw.1.modifier v = .ok l → min cw.1.maxW l ≤ cw.2) ∧
      (∀ cw ∈ ws, cw.1.field.ftype = .dflt → ∀ r, TLine.row r ∈ vis → ∀ v, fetch cw.1.field r = .ok v →
        v.text.length ≤ cw.1.maxW → v.text.length ≤ cw.2) ∧
      (∀ cw ∈ ws, ∀ tl, titleLen cw.1.field = .ok tl → tl ≤ cw.1.maxW → tl ≤ cw.2) := by
  obtain ⟨tls, ws, nTitle, body, R⟩ := render_elim h
  have hd := finalWidths_fresh _ _ ws hfresh R.ws_ne R.ws_eq
  have hw := detectWidths_wide _ _ ws hd
  have ht := detectWidths_titleWide _ _ ws hd
  have hmem : ∀ r, TLine.row r ∈ (applyLimits t.fmt.limF t.fmt.limL tls t.records.length).1 →
      r ∈ (applyLimits t.fmt.limF t.fmt.limL tls t.records.length).1.filterMap TLine.row? := by
    intro r hr
    simp only [List.mem_filterMap]
    exact ⟨_, hr, rfl⟩
  refine ⟨tls, ws, nTitle, body, R, ?_, ?_, ?_⟩
  · intro cw hcw r hr v l hv hl
    exact hw cw hcw r (hmem r hr) v l hv hl
  · intro cw hcw hft r hr v hv hle
    have := hw cw hcw r (hmem r hr) v v.text.length hv (by rw [hft]; rfl)
    omega
  · intro cw hcw tl htl hle
    have := ht cw hcw tl htl
    omega

/-- For the default and for user-written field types the length used in the negotiation is the length
of the text that is printed. (Not so for enum columns: `PPEnumFieldType` computes the length separately
— `val` counts the widest key, not the value — so `full_when_fits` promises nothing about enum cells
beyond its first clause; the example at the end of this file shows `True` cut to `...`.) -/
theorem cell_len_exact (ft : FType) (m : Option (List Char)) (v : Val) (cell : Chunks × Align)
    (hft : ft = .dflt ∨ ∃ cu, ft = .custom cu) (h : cellOf ft m v = .ok cell) :
    cellLen ft m v = .ok (textOf cell.1).length := by
  rcases hft with rfl | ⟨cu, rfl⟩
  · unfold cellOf at h
    by_cases hm : m = Option.none
    · simp [hm] at h; subst h; simp [cellLen, dfltCell, textOf, plain]
    · simp [hm] at h
  · simp only [cellOf, Except.ok.injEq] at h
    subst h
    simp [cellLen, textOf, plain]

/-- Title content. The `i`-th title line shows, between the separators of column `j`, the fitted
`i`-th title line of that column's own field (an empty cell when the field has fewer title lines). -/
theorem title_content (t t' : Tbl) (ls : List Line) (h : render t = .ok (t', ls)) :
    ∃ tls ws nTitle body, Rendered t t' ls tls ws nTitle body ∧
      ∀ i, i < nTitle → ∀ (j : Nat) (c : Col) (w : Nat), ws[j]? = some (c, w) →
        ((joinCells (titleCells i ws)).drop (colOffset (ws.map (·.2)) j + 1)).take w
          = textOf (fitToWidth (titleCell (titleItem c.field i)).1 w (titleCell (titleItem c.field i)).2) := by
  obtain ⟨tls, ws, nTitle, body, R⟩ := render_elim h
  refine ⟨tls, ws, nTitle, body, R, ?_⟩
  intro i _ j c w hj
  have hcell : (titleCells i ws)[j]? = some (fitText (titleCell (titleItem c.field i)) w) := by
    clear R
    induction ws generalizing j with
    | nil => simp at hj
    | cons cw cs ih =>
      obtain ⟨c0, w0⟩ := cw
      cases j with
      | zero =>
        simp only [List.getElem?_cons_zero, Option.some.injEq, Prod.mk.injEq] at hj
        obtain ⟨rfl, rfl⟩ := hj
        simp [titleCells]
      | succ k =>
        simp only [List.getElem?_cons_succ] at hj
        simpa [titleCells] using ih k hj
  have := joinCells_slice (titleCells i ws) j _ hcell
  rw [titleCells_lengths, fitText_length] at this
  exact this

/-- Records and limits. `tls` — the lines before limits — hold every record, in order, with break
lines only directly in front of a record. With natural-number limits `first`/`last`:
if `len tls > first + last + 1` exactly the first `first` and the last `last` lines are shown with
one skipped-records line between them, the announced number `k` is the number of records among the
hidden lines, `k ≥ 1`, `k` + records shown = all records, and the format remembers that lines were
skipped; otherwise — and whenever a limit is absent — every line is shown and nothing is announced. -/
theorem limits (t t' : Tbl) (ls : List Line) (h : render t = .ok (t', ls)) :
    ∃ tls ws nTitle body, Rendered t t' ls tls ws nTitle body ∧
      tls.filterMap TLine.row? = t.records ∧ brkOk tls ∧
      let vn := applyLimits t.fmt.limF t.fmt.limL tls t.records.length
      (∀ first last : Nat, t.fmt.limF = some (first : Int) → t.fmt.limL = some (last : Int) →
        (tls.length > first + last + 1 →
          vn.1 = tls.take first ++ [TLine.skipped] ++ tls.drop (tls.length - last) ∧
          ∃ k : Nat, vn.2 = (k : Int) ∧ 1 ≤ k ∧ k = (hiddenPart tls first last).countP TLine.isRec ∧
            k + (vn.1.filterMap TLine.row?).length = t.records.length ∧
            t'.fmt.anySkipped = some true) ∧
        (tls.length ≤ first + last + 1 → vn = (tls, 0) ∧ t'.fmt.anySkipped = some false)) ∧
      (t.fmt.limF = Option.none ∨ t.fmt.limL = Option.none → vn = (tls, 0) ∧ t'.fmt.anySkipped = some false) := by
  obtain ⟨tls, ws, nTitle, body, R⟩ := render_elim h
  have hrows := mkTableLines_rows _ _ _ _ R.tls_eq
  have hbrk := mkTableLines_brkOk _ _ _ _ R.tls_eq
  have hst := R.state_eq
  refine ⟨tls, ws, nTitle, body, R, hrows, hbrk, ?_, ?_⟩
  · intro first last hF hL
    rw [hF, hL] at hst
    rw [hF, hL]
    constructor
    · intro hgt
      have hvn : applyLimits (some (first : Int)) (some (last : Int)) tls t.records.length =
          (tls.take first ++ [TLine.skipped] ++ tls.drop (tls.length - last),
           (t.records.length : Int) - ((tls.take first ++ tls.drop (tls.length - last)).countP TLine.isRec : Nat)) := by
        rw [applyLimits_nat]; simp only [hgt, if_true]
      have hcount : tls.countP TLine.isRec = t.records.length := by rw [countP_isRec_eq, hrows]
      obtain ⟨hk, hpos⟩ := skipped_count tls first last hbrk hgt
      rw [hcount] at hk
      have hs := split_three tls first last (by omega)
      have hsum : tls.countP TLine.isRec = (tls.take first).countP TLine.isRec
          + (hiddenPart tls first last).countP TLine.isRec
          + (tls.drop (tls.length - last)).countP TLine.isRec := by
        conv => lhs; rw [hs]
        simp [List.countP_append, Nat.add_assoc]
      have hvis : ((tls.take first ++ [TLine.skipped] ++ tls.drop (tls.length - last)).filterMap TLine.row?).length
          = (tls.take first).countP TLine.isRec + (tls.drop (tls.length - last)).countP TLine.isRec := by
        simp [List.filterMap_append, List.filterMap_cons, TLine.row?, countP_isRec_eq]
      rw [hvn] at hst ⊢
      refine ⟨rfl, (hiddenPart tls first last).countP TLine.isRec, hk, hpos, rfl, ?_, ?_⟩
      · show _ + ((tls.take first ++ [TLine.skipped] ++ tls.drop (tls.length - last)).filterMap TLine.row?).length = _
        omega
      · rw [hst]
        simp only [printed]
        show some (decide (_ > (0 : Int))) = some true
        rw [hk]
        exact congrArg some (decide_eq_true (by omega))
    · intro hle
      have hvn : applyLimits (some (first : Int)) (some (last : Int)) tls t.records.length = (tls, 0) := by
        rw [applyLimits_nat]
        have : ¬ tls.length > first + last + 1 := by omega
        simp only [this, if_false]
      rw [hvn] at hst ⊢
      refine ⟨rfl, ?_⟩
      rw [hst]; simp [printed]
  · intro hnone
    have hvn : applyLimits t.fmt.limF t.fmt.limL tls t.records.length = (tls, 0) := by
      unfold applyLimits
      rcases hnone with hn | hn
      · rw [hn]
      · rw [hn]; cases t.fmt.limF <;> rfl
    rw [hvn] at hst ⊢
    refine ⟨rfl, ?_⟩
    rw [hst]; simp [printed]

/-- Printing has no memory. Printing a table a second time (a second line iterator, a second
`plain_text()`) prints exactly the same lines and leaves the table as the first printing left it. -/
theorem print_twice (t t' : Tbl) (ls : List Line) (h : render t = .ok (t', ls)) :
    render t' = .ok (t', ls) := render_idem h

/-- Interleaved iterators. However the line iterators of several tables (several of one table
included) are advanced in turn, every iterator yields exactly the lines of its own table, printed
alone: no table sees another table's break line, skipped-records line, widths or counts. -/
theorem interleaved (tables : List Tbl) (iters order : List Nat) (res : List (Nat × List Line))
    (h : startIters tables iters order [] = .ok res) :
    ∀ p ∈ res, ∃ ti t, iters[p.1]? = some ti ∧ tables[ti]? = some t ∧ lines t = .ok p.2 :=
  startIters_lines tables tables iters order [] res rfl
    (fun k t t0 hk hk0 => by rw [hk] at hk0; cases hk0; rfl) (fun p hp => by simp at hp) h

/-- The same for the function the driver runs (`runEvents`, which also lets the caller change limits
or append records between the steps): as long as nothing is changed in between, it is `startIters`,
so every iterator yields its own table's lines. With changes in between an iterator yields the lines
of its table as it is when the iterator is started (that is how `runEvents` is defined: the lines are
fixed at the first advance; the tie checks this against the lazy generator of the real code). -/
theorem interleaved_run (tables : List Tbl) (iters order : List Nat) (res : List (Nat × List Line))
    (h : runEvents tables iters (order.map Ev.start) [] = .ok res) :
    ∀ p ∈ res, ∃ ti t, iters[p.1]? = some ti ∧ tables[ti]? = some t ∧ lines t = .ok p.2 := by
  rw [runEvents_starts] at h
  exact interleaved tables iters order res h

/-- A started iterator keeps its snapshot. Whatever happens after an iterator has been started —
other iterators started, `set_limits` on the live format, records appended, at any point and also while
its lines are still being consumed — the lines it was given are exactly those of its table as the table
was at that moment, and they stay in the result untouched (`<+:` is "is a prefix of"). -/
theorem snapshot_kept (tables : List Tbl) (iters : List Nat) (i : Nat) (later : List Ev)
    (acc res : List (Nat × List Line)) (h : runEvents tables iters (Ev.start i :: later) acc = .ok res) :
    ∃ ti t ls, iters[i]? = some ti ∧ tables[ti]? = some t ∧ lines t = .ok ls ∧ acc ++ [(i, ls)] <+: res :=
  runEvents_start tables iters i later acc res h

/-- A format object carries everything over. A table built with `fmt_obj=` from the format of a
table `t` (fresh or printed: `WidthsFaithful` holds for every table made by the constructor or the
setter and is kept by printing) with the same records, header and footer prints exactly what `t`
prints — same fields, same columns, **both** limits. New `limits=` replace both limits, and
`skip_columns=` removes exactly the named columns. -/
theorem fmt_obj_same (t : Tbl) (hw : WidthsFaithful t) :
    lines (mkTableFromFmt t.fmt t.records Option.none Option.none t.header (some t.footer)) = lines t ∧
    ∀ recs lims skip hdr ftr,
      let u := mkTableFromFmt t.fmt recs lims skip hdr ftr
      u.fmt.fields = t.fmt.fields ∧
      (u.fmt.limF, u.fmt.limL) = (match lims with | some l => l | Option.none => (t.fmt.limF, t.fmt.limL)) ∧
      u.fmt.cols = (match skip with
        | some names => (t.fmt.cols.map Col.reset).filter fun c => !names.contains c.field.name
        | Option.none => t.fmt.cols.map Col.reset) ∧
      u.records = recs ∧ u.header = hdr := by
  constructor
  · exact lines_of_same t _ hw rfl rfl rfl rfl (fun _ _ => rfl)
  · intro recs lims skip hdr ftr
    refine ⟨rfl, ?_, ?_, rfl, rfl⟩
    · cases lims <;> rfl
    · cases skip <;> rfl

/-- Every option of the constructor is honoured. A table made by `PPTable(records, fmt=…, fields=…,
limits=…, skip_columns=…, header=…, footer=…)` holds exactly the records and the header given, the
footer given or `Total <n> records`, no negotiated widths, no skipped-lines flag; `limits=`, when
given, are the limits (both of them, as given); no column of a field named in `skip_columns`
remains. -/
theorem ctor_options (a : CtorArgs) (t : Tbl) (h : mkTable a = .ok t) :
    t.records = a.records ∧ t.header = a.header ∧
    t.footer = (match a.footer with
      | some f => f
      | Option.none => Gen.C12.footerPrefix ++ natToDec a.records.length ++ Gen.C12.footerSuffix) ∧
    t.fmt.anySkipped = Option.none ∧
    (∀ l, a.limits = some l → (t.fmt.limF, t.fmt.limL) = l) ∧
    (∀ names, a.skip = some names → ∀ c ∈ t.fmt.cols, c.field.name ∉ names) := by
  unfold mkTable at h
  simp only [bind_ok] at h
  obtain ⟨p, _, fc, _, h⟩ := h
  cases h
  refine ⟨rfl, rfl, rfl, rfl, ?_, ?_⟩
  · intro l hl; simp only [hl]
  · intro names hn c hc
    simp only [hn, List.mem_filter, Bool.not_eq_true', List.contains_eq_mem, decide_eq_false_iff_not] at hc
    exact hc.2

/-- A format object does not remember printing. Whether the donor table was printed before or after
its format was handed to `fmt_obj=` makes no difference: the new table is the same (the clone forgets
the negotiated widths and the skipped-lines flag), so siblings made from one format object never see
each other's or the donor's widths. -/
theorem fmt_obj_ignores_printing (u u' : Tbl) (ls : List Line) (h : render u = .ok (u', ls))
    (recs : List Record) (lims : Option (Option Int × Option Int)) (skip : Option (List (List Char)))
    (hdr ftr : Option (List Char)) :
    mkTableFromFmt u'.fmt recs lims skip hdr ftr = mkTableFromFmt u.fmt recs lims skip hdr ftr := by
  obtain ⟨tls, ws, nT, body, R⟩ := render_elim h
  have hcols := finalWidths_cols _ _ _ R.ws_eq
  have hc : u'.fmt.cols.map Col.reset = u.fmt.cols.map Col.reset := by
    rw [R.state_eq]; simp only [printed]; rw [reset_setWidths, hcols]
  have hf : cloneFmt u'.fmt = cloneFmt u.fmt := by
    have h1 : u'.fmt.fields = u.fmt.fields := by rw [R.state_eq]; rfl
    have h2 : u'.fmt.limF = u.fmt.limF := by rw [R.state_eq]; rfl
    have h3 : u'.fmt.limL = u.fmt.limL := by rw [R.state_eq]; rfl
    have hc' : (u'.fmt.cols.map fun c => { c with width := Option.none })
        = (u.fmt.cols.map fun c => { c with width := Option.none }) := hc
    simp only [cloneFmt, h1, h2, h3, hc']
  simp only [mkTableFromFmt, hf]

/-- Fields by position. In `fields=[…]` a name at index `i` is the field `record[i]` — whatever stands
before it in the list — and a ready `RecordField` object keeps its own position; type and title are
the element's own. -/
theorem field_positions (specs : List FieldSpec) (i : Nat) (sp : FieldSpec) (h : specs[i]? = some sp) :
    (mkFields 0 specs)[i]? = some ⟨sp.name, sp.ftype, sp.posAt i, genTitleLines sp.title sp.name, false⟩ ∧
    (sp.pos = Option.none → sp.posAt i = i) ∧ (∀ p, sp.pos = some p → sp.posAt i = p) := by
  have gen : ∀ (l : List FieldSpec) (k j : Nat), l[j]? = some sp →
      (mkFields k l)[j]? = some ⟨sp.name, sp.ftype, sp.posAt (k + j), genTitleLines sp.title sp.name, false⟩ := by
    intro l
    induction l with
    | nil => intro k j hj; simp at hj
    | cons s ss ih =>
      intro k j hj
      cases j with
      | zero =>
        simp only [List.getElem?_cons_zero, Option.some.injEq] at hj
        subst hj
        simp [mkFields]
      | succ m =>
        simp only [List.getElem?_cons_succ] at hj
        have := ih (k + 1) m hj
        simp only [mkFields, List.getElem?_cons_succ]
        rw [this, show k + 1 + m = k + (m + 1) by omega]
  refine ⟨by simpa using gen specs 0 i h, ?_, ?_⟩
  · intro hp; simp [FieldSpec.posAt, hp]
  · intro p hp; simp [FieldSpec.posAt, hp]

/-- Bounds given through the setter are the column's bounds — zero included. Every column that
`table.fmt = "…"` makes comes from one column description of the string, with that description's
field, modifier and break-by mark, and with exactly the bounds written there (`n` = `n-n`; `0` is
`0`), or the field type's own bounds when none are written; hidden (`:-1`) descriptions make no
column. The same holds for the constructor (`ctor_bounds`). -/
theorem setter_bounds (fields : List Field) (ps : List PCol) (cols : List Col)
    (h : setterCols fields ps = .ok cols) :
    ∀ c ∈ cols, ∃ p ∈ ps, findField fields p.fieldName = some c.field ∧ c.modifier = p.modifier ∧
      c.breakBy = p.breakBy ∧ c.width = Option.none ∧
      (match p.width with
        | .range a b => c.minW = a ∧ c.maxW = b
        | .unspec => c.minW = c.field.ftype.minW ∧ c.maxW = c.field.ftype.maxW
        | .hidden => False) := by
  induction ps generalizing cols with
  | nil => simp [setterCols] at h; subst h; simp
  | cons p ps ih =>
    unfold setterCols at h
    cases hf : findField fields p.fieldName with
    | none => simp [hf] at h
    | some f =>
      simp only [hf] at h
      cases hw : p.width with
      | hidden =>
        simp only [hw] at h
        intro c hc
        obtain ⟨q, hq, rest⟩ := ih cols h c hc
        exact ⟨q, List.mem_cons_of_mem _ hq, rest⟩
      | unspec =>
        simp only [hw, bind_ok] at h
        obtain ⟨c0, hc0, rest, hr, h⟩ := h
        cases h
        simp only [mkCol, bind_ok] at hc0
        obtain ⟨_, _, hc0⟩ := hc0
        cases hc0
        intro c hc
        rcases List.mem_cons.mp hc with rfl | hc
        · exact ⟨p, List.mem_cons_self, hf, rfl, rfl, rfl, by rw [hw]; exact ⟨rfl, rfl⟩⟩
        · obtain ⟨q, hq, r⟩ := ih rest hr c hc
          exact ⟨q, List.mem_cons_of_mem _ hq, r⟩
      | range a b =>
        simp only [hw, bind_ok] at h
        obtain ⟨c0, hc0, rest, hr, h⟩ := h
        cases h
        simp only [mkCol, bind_ok] at hc0
        obtain ⟨_, _, hc0⟩ := hc0
        cases hc0
        intro c hc
        rcases List.mem_cons.mp hc with rfl | hc
        · exact ⟨p, List.mem_cons_self, hf, rfl, rfl, rfl, by rw [hw]; exact ⟨rfl, rfl⟩⟩
        · obtain ⟨q, hq, r⟩ := ih rest hr c hc
          exact ⟨q, List.mem_cons_of_mem _ hq, r⟩

/-- the constructor's columns carry exactly the bounds written in the format, zero included -/
theorem ctor_bounds (fields : List Field) (ps : List PCol) (cols : List Col)
    (h : ctorCols fields ps = .ok cols) :
    ∀ c ∈ cols, ∃ p ∈ ps, findField fields p.fieldName = some c.field ∧ c.modifier = p.modifier ∧
      c.breakBy = p.breakBy ∧ c.width = Option.none ∧
      (match p.width with
        | .range a b => c.minW = a ∧ c.maxW = b
        | .unspec => c.minW = c.field.ftype.minW ∧ c.maxW = c.field.ftype.maxW
        | .hidden => False) := by
  induction ps generalizing cols with
  | nil => simp [ctorCols] at h; subst h; simp
  | cons p ps ih =>
    unfold ctorCols at h
    cases hw : p.width with
    | hidden =>
      simp only [hw] at h
      intro c hc
      obtain ⟨q, hq, rest⟩ := ih cols h c hc
      exact ⟨q, List.mem_cons_of_mem _ hq, rest⟩
    | unspec =>
      simp only [hw] at h
      cases hf : findField fields p.fieldName with
      | none => simp [hf] at h
      | some f =>
        simp only [hf, bind_ok] at h
        obtain ⟨c0, hc0, rest, hr, h⟩ := h
        cases h
        simp only [mkCol, bind_ok] at hc0
        obtain ⟨_, _, hc0⟩ := hc0
        cases hc0
        intro c hc
        rcases List.mem_cons.mp hc with rfl | hc
        · exact ⟨p, List.mem_cons_self, hf, rfl, rfl, rfl, by rw [hw]; exact ⟨rfl, rfl⟩⟩
        · obtain ⟨q, hq, r⟩ := ih rest hr c hc
          exact ⟨q, List.mem_cons_of_mem _ hq, r⟩
    | range a b =>
      simp only [hw] at h
      cases hf : findField fields p.fieldName with
      | none => simp [hf] at h
      | some f =>
        simp only [hf, bind_ok] at h
        obtain ⟨c0, hc0, rest, hr, h⟩ := h
        cases h
        simp only [mkCol, bind_ok] at hc0
        obtain ⟨_, _, hc0⟩ := hc0
        cases hc0
        intro c hc
        rcases List.mem_cons.mp hc with rfl | hc
        · exact ⟨p, List.mem_cons_self, hf, rfl, rfl, rfl, by rw [hw]; exact ⟨rfl, rfl⟩⟩
        · obtain ⟨q, hq, r⟩ := ih rest hr c hc
          exact ⟨q, List.mem_cons_of_mem _ hq, r⟩

/-- where `WidthsFaithful` comes from: tables without negotiated widths have it, printing keeps it -/
theorem widths_faithful (t : Tbl) :
    ((∀ c ∈ t.fmt.cols, c.width = Option.none) → WidthsFaithful t) ∧
    (∀ t' ls, WidthsFaithful t → render t = .ok (t', ls) → WidthsFaithful t') :=
  ⟨widthsFaithful_of_fresh t, fun _ _ hw h => widthsFaithful_render h hw⟩

/-! Non-vacuity: a concrete table with a break-by column, a too narrow column and limits `1:1`
(three records, one break line: four lines > 1+1+1) is rendered by the kernel. -/

private def demoField (n : String) (p : Nat) : Field := ⟨n.toList, .dflt, p, [Val.str n.toList], false⟩

private def demo : Tbl :=
  { records := [[Val.int 1, Val.str "alpha".toList], [Val.int 1, Val.str "be".toList],
                [Val.int 22, Val.str "c|+".toList]],
    header := some "H".toList, footer := "Total 3 records".toList,
    fmt := { fields := [demoField "id" 0, demoField "name" 1],
             cols := [⟨demoField "id" 0, Option.none, true, 1, 999, Option.none⟩,
                      ⟨demoField "name" 1, Option.none, false, 4, 4, Option.none⟩,
                      ⟨demoField "name" 1, Option.none, false, 16, 20, Option.none⟩],
             limF := some 1, limL := some 1, anySkipped := Option.none } }

example : (render demo).map (fun x => x.2.map (fun l => String.ofList l.text)) = .ok
    ["+--+----+----------------+", "|H                       |", "|id|name|name            |",
     "+--+----+----------------+", "| 1|a...|alpha           |", "|... 1 records skipped   |",
     "|22|c|+ |c|+             |", "+--+----+----------------+", "Total 3 records           "] := by
  decide +kernel

example : (render demo).map (fun x => (x.1.fmt.anySkipped, x.1.fmt.cols.map (·.width)))
    = .ok (some true, [some 2, some 4, some 16]) := by decide +kernel

/-! the demo table is a reachable state: it is what the constructor makes -/

private def demoArgs : CtorArgs :=
  { records := demo.records,
    fields := some [⟨"id".toList, .dflt, .none, Option.none⟩, ⟨"name".toList, .dflt, .none, Option.none⟩],
    fmt := some "id!,name:4,name:16-20;1:1".toList, limits := Option.none, header := some "H".toList,
    footer := Option.none, skip := Option.none }

example : mkTable demoArgs = .ok demo := by decide +kernel

/-! The witness of the fixed defect 0b2b8bb (enum caches keyed by Python equality): enum `{1: one,
2: two}`, rows `True`, `1`, `1.0`, `7.0`, `7`. In the model the cell is a function of the record's
own value (`cell_content`), so every row shows its own `str(value)`: -/

private def demoEnum : EnumType := ⟨[(Val.int 1, "one".toList), (Val.int 2, "two".toList)], Option.none⟩

private def demoEnumField : Field := ⟨"a".toList, .enum demoEnum, 0, [Val.str "a".toList], false⟩

private def demoEnumTbl : Tbl :=
  { records := [[Val.bool true], [Val.int 1], [Val.float "1.0".toList 1 1], [Val.float "7.0".toList 7 1], [Val.int 7]],
    header := Option.none, footer := [],
    fmt := { fields := [demoEnumField],
             cols := [⟨demoEnumField, some "val".toList, false, 1, 999, Option.none⟩,
                      ⟨demoEnumField, some "full".toList, false, 1, 999, Option.none⟩],
             limF := Option.none, limL := Option.none, anySkipped := Option.none } }

example : (render demoEnumTbl).map (fun x => x.2.map (fun l => String.ofList l.text)) = .ok
    ["+---+---------+", "|a  |a        |", "+---+---------+", "|...|True one |", "|  1|1 one    |",
     "|1.0|1.0 one  |", "|7.0|7.0 <???>|", "|  7|7 <???>  |", "+---+---------+"] := by decide +kernel

end C12
